/-
Helper lemmas for C22 (position arithmetic). Core only.
-/
import TmVerif.Model.SourcePos
namespace TmVerif.SourcePos

/-- Every recorded line start lies strictly after the base offset … -/
theorem lineOffsetsFrom_gt : ∀ (bs : List Nat) (base : Nat), ∀ x ∈ lineOffsetsFrom bs base, base < x
  | [], _, x, h => by simp [lineOffsetsFrom] at h
  | b :: rest, base, x, h => by
    unfold lineOffsetsFrom at h
    split at h
    · rcases List.mem_cons.mp h with e | h'
      · omega
      · have := lineOffsetsFrom_gt rest (base + 1) x h'; omega
    · have := lineOffsetsFrom_gt rest (base + 1) x h; omega

/-- … and not after the end of the text. -/
theorem lineOffsetsFrom_le : ∀ (bs : List Nat) (base : Nat), ∀ x ∈ lineOffsetsFrom bs base, x ≤ base + bs.length
  | [], _, x, h => by simp [lineOffsetsFrom] at h
  | b :: rest, base, x, h => by
    unfold lineOffsetsFrom at h
    simp only [List.length_cons]
    split at h
    · rcases List.mem_cons.mp h with e | h'
      · omega
      · have := lineOffsetsFrom_le rest (base + 1) x h'; omega
    · have := lineOffsetsFrom_le rest (base + 1) x h; omega

/-- The line-start table is strictly increasing (so the binary search of `sort.Search` finds the least
index, as `searchGT` assumes). -/
theorem lineOffsetsFrom_sorted : ∀ (bs : List Nat) (base : Nat), (lineOffsetsFrom bs base).Pairwise (· < ·)
  | [], _ => by simp [lineOffsetsFrom]
  | b :: rest, base => by
    unfold lineOffsetsFrom
    split
    · refine List.pairwise_cons.mpr ⟨?_, lineOffsetsFrom_sorted rest (base + 1)⟩
      intro x hx
      exact lineOffsetsFrom_gt rest (base + 1) x hx
    · exact lineOffsetsFrom_sorted rest (base + 1)

theorem lineOffsets_sorted (bs : List Nat) : (lineOffsets bs).Pairwise (· < ·) := by
  unfold lineOffsets
  refine List.pairwise_cons.mpr ⟨?_, lineOffsetsFrom_sorted bs 0⟩
  intro x hx
  exact lineOffsetsFrom_gt bs 0 x hx

theorem getD_cons_zero (a : Nat) (l : List Nat) (d : Nat) : (a :: l).getD 0 d = a := by simp

theorem getD_cons_succ (a : Nat) (l : List Nat) (n d : Nat) : (a :: l).getD (n + 1) d = l.getD n d := by
  simp

/-- `getD` into the line starts gives a member (or the default). -/
theorem getD_mem_or {l : List Nat} {n d : Nat} : l.getD n d ∈ l ∨ n ≥ l.length := by
  by_cases h : n < l.length
  · left
    rw [← List.getElem_eq_getD (h := h) d]
    exact List.getElem_mem h
  · right; omega

/-- The facts about one scan, with an arbitrary offset `base` of the first byte: for `base ≤ offset ≤ base + |bs|`,
with `k` the search result in the table of line starts AFTER `base` and `start` the entry selected from
`base :: table`: `k` counts the newlines before `offset`; `start` is at most `offset`; no newline between
`start` and `offset`; `start` is `base` or follows a newline. -/
theorem scan_core : ∀ (bs : List Nat) (base offset : Nat), base ≤ offset → offset ≤ base + bs.length →
    let L := lineOffsetsFrom bs base
    let k := searchGT L offset
    let start := (base :: L).getD k 0
    k = (bs.take (offset - base)).count 10 ∧ base ≤ start ∧ start ≤ offset ∧
      (∀ i, start ≤ i → i < offset → bs[i - base]? ≠ some 10) ∧
      (start = base ∨ (base < start ∧ bs[start - 1 - base]? = some 10))
  | [], base, offset, h1, h2 => by
    have : offset = base := by simp at h2; omega
    subst this
    simp [lineOffsetsFrom, searchGT]
  | b :: rest, base, offset, h1, h2 => by
    by_cases hob : offset = base
    · -- nothing before `offset`: the first entry (if any) already exceeds it
      subst hob
      have hk : searchGT (lineOffsetsFrom (b :: rest) offset) offset = 0 := by
        unfold searchGT
        cases hL : lineOffsetsFrom (b :: rest) offset with
        | nil => simp
        | cons x t =>
          have : offset < x := lineOffsetsFrom_gt (b :: rest) offset x (by rw [hL]; exact List.mem_cons_self ..)
          simp [List.findIdx_cons, this]
      simp only [hk]
      refine ⟨by simp, by simp, by simp, ?_, Or.inl (by simp)⟩
      intro i hi1 hi2
      simp at hi1
      omega
    · have hlt : base < offset := by omega
      have h2' : offset ≤ base + 1 + rest.length := by simp at h2; omega
      have ih := scan_core rest (base + 1) offset (by omega) h2'
      simp only at ih
      obtain ⟨ihk, ih1, ih2, ih3, ih4⟩ := ih
      have htake : (b :: rest).take (offset - base) = b :: rest.take (offset - (base + 1)) := by
        have : offset - base = (offset - (base + 1)) + 1 := by omega
        rw [this, List.take_succ_cons]
      by_cases hb : b = 10
      · -- a newline at `base`: one more entry, everything else shifts
        subst hb
        have hL : lineOffsetsFrom (10 :: rest) base = (base + 1) :: lineOffsetsFrom rest (base + 1) := by
          simp [lineOffsetsFrom]
        have hk : searchGT ((base + 1) :: lineOffsetsFrom rest (base + 1)) offset
            = searchGT (lineOffsetsFrom rest (base + 1)) offset + 1 := by
          unfold searchGT
          rw [List.findIdx_cons]
          have : ¬ (base + 1 > offset) := by omega
          simp [this]
        simp only [hL, hk, getD_cons_succ]
        refine ⟨?_, by omega, ih2, ?_, ?_⟩
        · rw [htake, List.count_cons_self, ← ihk]
        · intro i hi1 hi2
          have hib : i - base = (i - (base + 1)) + 1 := by omega
          rw [hib, List.getElem?_cons_succ]
          exact ih3 i hi1 hi2
        · rcases ih4 with e | ⟨hgt, hnl⟩
          · right
            refine ⟨by omega, ?_⟩
            rw [e]
            have : base + 1 - 1 - base = 0 := by omega
            rw [this]; simp
          · right
            refine ⟨by omega, ?_⟩
            have : (base :: (base + 1) :: lineOffsetsFrom rest (base + 1)).getD
                (searchGT (lineOffsetsFrom rest (base + 1)) offset + 1) 0 - 1 - base
                = (((base + 1) :: lineOffsetsFrom rest (base + 1)).getD
                (searchGT (lineOffsetsFrom rest (base + 1)) offset) 0 - 1 - (base + 1)) + 1 := by
              rw [getD_cons_succ]; omega
            rw [getD_cons_succ] at this
            rw [this, List.getElem?_cons_succ]
            exact hnl
      · -- an ordinary byte at `base`
        have hL : lineOffsetsFrom (b :: rest) base = lineOffsetsFrom rest (base + 1) := by
          simp [lineOffsetsFrom, hb]
        simp only [hL]
        have hcount : ((b :: rest).take (offset - base)).count 10 = (rest.take (offset - (base + 1))).count 10 := by
          rw [htake, List.count_cons_of_ne hb]
        cases hk : searchGT (lineOffsetsFrom rest (base + 1)) offset with
        | zero =>
          -- no newline before `offset`: the line starts at `base`
          rw [hk] at ihk ih1 ih2 ih3 ih4
          simp only [getD_cons_zero] at ih1 ih2 ih3 ih4 ⊢
          refine ⟨by rw [hcount, ← ihk], by omega, by omega, ?_, by simp⟩
          intro i hi1 hi2
          by_cases hi : i = base
          · subst hi; simp [hb]
          · have hib : i - base = (i - (base + 1)) + 1 := by omega
            rw [hib, List.getElem?_cons_succ]
            exact ih3 i (by omega) hi2
        | succ k' =>
          rw [hk] at ihk ih1 ih2 ih3 ih4
          simp only [getD_cons_succ] at ih1 ih2 ih3 ih4 ⊢
          -- the selected entry is a member of the table, hence beyond base + 1
          have hmem : (lineOffsetsFrom rest (base + 1)).getD k' 0 ∈ lineOffsetsFrom rest (base + 1) := by
            rcases getD_mem_or (l := lineOffsetsFrom rest (base + 1)) (n := k') (d := 0) with h | h
            · exact h
            · exfalso
              have : searchGT (lineOffsetsFrom rest (base + 1)) offset ≤ (lineOffsetsFrom rest (base + 1)).length :=
                List.findIdx_le_length
              omega
          have hgt := lineOffsetsFrom_gt rest (base + 1) _ hmem
          refine ⟨by rw [hcount, ← ihk], by omega, ih2, ?_, ?_⟩
          · intro i hi1 hi2
            have hib : i - base = (i - (base + 1)) + 1 := by omega
            rw [hib, List.getElem?_cons_succ]
            exact ih3 i hi1 hi2
          · rcases ih4 with e | ⟨_, hnl⟩
            · omega
            · right
              refine ⟨by omega, ?_⟩
              have : (lineOffsetsFrom rest (base + 1)).getD k' 0 - 1 - base
                  = ((lineOffsetsFrom rest (base + 1)).getD k' 0 - 1 - (base + 1)) + 1 := by omega
              rw [this, List.getElem?_cons_succ]
              exact hnl

/-- `searchGT` on the full table = 1 + search in the tail (entry 0 is never beyond `offset`). -/
theorem searchGT_lineOffsets (bs : List Nat) (offset : Nat) :
    searchGT (lineOffsets bs) offset = searchGT (lineOffsetsFrom bs 0) offset + 1 := by
  unfold lineOffsets searchGT
  rw [List.findIdx_cons]
  simp

/-- The facts of `scan_core` for the whole text. -/
theorem lineCol_facts (bs : List Nat) (offset : Nat) (h : offset ≤ bs.length) :
    let start := (lineOffsets bs).getD (searchGT (lineOffsets bs) offset - 1) 0
    (lineCol bs offset).1 = 1 + (bs.take offset).count 10 ∧
    (lineCol bs offset).2 = offset - start + 1 ∧
    start ≤ offset ∧
    (∀ i, start ≤ i → i < offset → bs[i]? ≠ some 10) ∧
    (start = 0 ∨ (0 < start ∧ bs[start - 1]? = some 10)) := by
  have core := scan_core bs 0 offset (Nat.zero_le _) (by omega)
  simp only at core
  obtain ⟨c1, _, c3, c4, c5⟩ := core
  have hs : searchGT (lineOffsets bs) offset - 1 = searchGT (lineOffsetsFrom bs 0) offset := by
    rw [searchGT_lineOffsets]; omega
  simp only [hs]
  have hL : lineOffsets bs = 0 :: lineOffsetsFrom bs 0 := rfl
  refine ⟨?_, ?_, ?_, ?_, ?_⟩
  · simp only [lineCol, lineColOf, hs]
    rw [c1]; simp; omega
  · simp only [lineCol, lineColOf, hs]
  · rw [hL]; exact c3
  · intro i hi1 hi2
    have := c4 i (by rw [hL] at hi1; exact hi1) hi2
    simpa using this
  · rw [hL]
    rcases c5 with e | ⟨h1, h2⟩
    · left; exact e
    · right; exact ⟨h1, by simpa using h2⟩

/-- Newlines before `o + d` = newlines before `o` when the bytes in between are not newlines. -/
theorem count_take_add (bs : List Nat) (o d : Nat) (h : ∀ i, o ≤ i → i < o + d → bs[i]? ≠ some 10) :
    (bs.take (o + d)).count 10 = (bs.take o).count 10 := by
  induction d with
  | zero => rfl
  | succ d ih =>
    have ih' := ih (fun i h1 h2 => h i h1 (by omega))
    rw [← ih']
    have : o + (d + 1) = (o + d) + 1 := by omega
    rw [this]
    by_cases hlen : o + d < bs.length
    · rw [List.take_succ_eq_append_getElem hlen, List.count_append]
      have hne : bs[o + d] ≠ 10 := by
        intro e
        have := h (o + d) (by omega) (by omega)
        rw [List.getElem?_eq_getElem hlen, e] at this
        exact this rfl
      rw [List.count_cons_of_ne hne]; simp
    · rw [List.take_of_length_le (by omega), List.take_of_length_le (by omega)]

/-- Length of the leading run of non-newline bytes of `r`, characterised by its two ends. -/
theorem takeWhile_run : ∀ (r : List Nat) (n : Nat), n ≤ r.length → (∀ j, j < n → r[j]? ≠ some 10) →
    (n = r.length ∨ r[n]? = some 10) → (r.takeWhile (fun b => b != 10)).length = n
  | [], n, hn, _, _ => by simp at hn; simp [hn]
  | x :: t, 0, _, _, hend => by
    rcases hend with e | e
    · simp at e
    · simp at e; simp [e]
  | x :: t, m + 1, hn, hno, hend => by
    have hx : x ≠ 10 := by
      have := hno 0 (by omega)
      simpa using this
    have hxb : (x != 10) = true := by simp [hx]
    rw [List.takeWhile_cons, hxb]
    simp only [if_true, List.length_cons]
    have := takeWhile_run t m (by simp at hn; omega)
      (fun j hj => by have := hno (j + 1) (by omega); simpa using this)
      (by
        rcases hend with e | e
        · left; simp at e; omega
        · right; simpa using e)
    omega

end TmVerif.SourcePos
