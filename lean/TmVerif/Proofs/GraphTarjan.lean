import TmVerif.Proofs.GraphScc
import TmVerif.Proofs.GraphPath
/-!
Helper lemmas for C26: the mirror of `Tarjan` (tarjan.go) reports exactly the strongly connected
components in reverse topological order, for every well-formed graph with at least two vertices.
The invariants follow Chen, Cohen, Lévy, Merz, Théry, "Formal proofs of Tarjan's strongly connected
components algorithm in Why3, Coq and Isabelle" (ITP 2019), adapted to the imperative state
(index / lowLink / onStack arrays, explicit stack, implicit call chain passed as a ghost list `gs`).
-/
namespace TmVerif.Graph
open Relation

/-! ### accessors -/

theorem getD_set_int (l : List Int) (v w : Nat) (x : Int) :
    (l.set v x)[w]?.getD 0 = if w = v ∧ v < l.length then x else l[w]?.getD 0 := by
  simp only [List.getElem?_set]
  by_cases h1 : v = w
  · subst h1
    by_cases h2 : v < l.length <;> simp [h2]
  · have : ¬ w = v := fun h => h1 h.symm
    simp [h1, this]

theorem getD_set_bool (l : List Bool) (v w : Nat) (x : Bool) :
    (l.set v x)[w]?.getD false = if w = v ∧ v < l.length then x else l[w]?.getD false := by
  simp only [List.getElem?_set]
  by_cases h1 : v = w
  · subst h1
    by_cases h2 : v < l.length <;> simp [h2]
  · have : ¬ w = v := fun h => h1 h.symm
    simp [h1, this]

@[simp] theorem TS.setLow_idx (s : TS) (v : Nat) (x : Int) (w : Nat) : (s.setLow v x).idx w = s.idx w := rfl
@[simp] theorem TS.setLow_on (s : TS) (v : Nat) (x : Int) (w : Nat) : (s.setLow v x).on w = s.on w := rfl
@[simp] theorem TS.setLow_stack (s : TS) (v : Nat) (x : Int) : (s.setLow v x).stack = s.stack := rfl
@[simp] theorem TS.setLow_out (s : TS) (v : Nat) (x : Int) : (s.setLow v x).out = s.out := rfl
@[simp] theorem TS.setLow_curr (s : TS) (v : Nat) (x : Int) : (s.setLow v x).curr = s.curr := rfl
@[simp] theorem TS.setLow_index (s : TS) (v : Nat) (x : Int) : (s.setLow v x).index = s.index := rfl
@[simp] theorem TS.setLow_onStack (s : TS) (v : Nat) (x : Int) : (s.setLow v x).onStack = s.onStack := rfl

theorem TS.setLow_low (s : TS) (v : Nat) (x : Int) (w : Nat) :
    (s.setLow v x).low w = if w = v ∧ v < s.lowLink.length then x else s.low w := by
  unfold TS.setLow TS.low
  exact getD_set_int _ _ _ _

theorem TS.push_idx (s : TS) (v w : Nat) :
    (s.push v).idx w = if w = v ∧ v < s.index.length then s.curr else s.idx w := by
  unfold TS.push TS.idx
  exact getD_set_int _ _ _ _

theorem TS.push_low (s : TS) (v w : Nat) :
    (s.push v).low w = if w = v ∧ v < s.lowLink.length then s.curr else s.low w := by
  unfold TS.push TS.low
  exact getD_set_int _ _ _ _

theorem TS.push_on (s : TS) (v w : Nat) :
    (s.push v).on w = if w = v ∧ v < s.onStack.length then true else s.on w := by
  unfold TS.push TS.on
  exact getD_set_bool _ _ _ _

@[simp] theorem TS.push_stack (s : TS) (v : Nat) : (s.push v).stack = v :: s.stack := rfl
@[simp] theorem TS.push_out (s : TS) (v : Nat) : (s.push v).out = s.out := rfl
@[simp] theorem TS.push_curr (s : TS) (v : Nat) : (s.push v).curr = s.curr + 1 := rfl

theorem clearAll_length (on : List Bool) (l : List Nat) : (clearAll on l).length = on.length := by
  induction l generalizing on with
  | nil => rfl
  | cons v vs ih => simp [clearAll, ih]

theorem clearAll_getD (on : List Bool) (l : List Nat) (w : Nat) :
    (clearAll on l)[w]?.getD false = (on[w]?.getD false && !l.contains w) := by
  induction l generalizing on with
  | nil => simp [clearAll]
  | cons v vs ih =>
    simp only [clearAll, ih, getD_set_bool, List.contains_cons]
    by_cases h1 : w = v
    · subst h1
      by_cases h2 : w < on.length
      · simp [h2]
      · simp [h2]
    · have : (w == v) = false := by simpa using h1
      simp [h1, this]

/-- number of unvisited vertices -/
def TS.unv (s : TS) : Nat := s.index.countP (· == -1)

theorem TS.unv_le (s : TS) : s.unv ≤ s.index.length := List.countP_le_length

theorem TS.push_unv (s : TS) (v : Nat) (hv : v < s.index.length) (h : s.idx v = -1) (hc : 0 ≤ s.curr) :
    (s.push v).unv + 1 = s.unv := by
  unfold TS.unv TS.push
  simp only [List.countP_set hv]
  unfold TS.idx at h
  rw [List.getElem?_eq_getElem hv] at h
  simp only [Option.getD_some] at h
  have h1 : (s.index[v] == -1) = true := by simpa using h
  have h2 : (s.curr == -1) = false := by
    simp only [beq_eq_false_iff_ne, ne_eq]; omega
  have : 0 < List.countP (· == -1) s.index :=
    List.countP_pos_iff.2 ⟨s.index[v], List.getElem_mem hv, h1⟩
  simp [h1, h2]
  omega

/-! ### reported components -/

def TS.comps (s : TS) : List (List Nat) := s.out.map (·.1)
/-- the vertices of the reported components -/
def TS.D (s : TS) : List Nat := s.comps.flatten

/-- closed under successors -/
def Closed (g : Graph) (S : List Nat) : Prop := ∀ u ∈ S, ∀ w, Edge g u w → w ∈ S

theorem Closed.reach {g : Graph} {S : List Nat} (h : Closed g S) {u w : Nat} (hu : u ∈ S)
    (r : Reach g u w) : w ∈ S := by
  rcases r with rfl | p
  · exact hu
  · induction p with
    | single e => exact h _ hu _ e
    | tail _ e ih => exact h _ ih _ e

/-- `cs` (most recent first): strongly connected components reported in reverse topological order -/
def OutOk (g : Graph) : List (List Nat) → Prop
  | [] => True
  | c :: rest => OutOk g rest ∧ c ≠ [] ∧ c.Nodup ∧ (∀ x ∈ c, x ∉ rest.flatten) ∧
      (∀ u ∈ c, ∀ w, w ∈ c ↔ SC g u w) ∧ Closed g (c ++ rest.flatten)

theorem OutOk.closed {g : Graph} : ∀ {cs : List (List Nat)}, OutOk g cs → Closed g cs.flatten
  | [], _ => fun u hu => by cases hu
  | c :: rest, h => by simpa using h.2.2.2.2.2

theorem OutOk.nodup {g : Graph} : ∀ {cs : List (List Nat)}, OutOk g cs → cs.flatten.Nodup
  | [], _ => by simp
  | c :: rest, h => by
    simp only [List.flatten_cons]
    rw [List.nodup_append]
    exact ⟨h.2.2.1, OutOk.nodup h.1, fun a ha b hb hab => h.2.2.2.1 a ha (hab ▸ hb)⟩

theorem OutOk.suffix_closed {g : Graph} : ∀ {cs : List (List Nat)}, OutOk g cs →
    ∀ k, Closed g (cs.drop k).flatten
  | [], _, k => by simp; intro u hu; cases hu
  | c :: rest, h, 0 => by simpa using h.closed
  | c :: rest, h, k + 1 => by simpa using OutOk.suffix_closed h.1 k

theorem OutOk.scc {g : Graph} : ∀ {cs : List (List Nat)}, OutOk g cs →
    ∀ c ∈ cs, c ≠ [] ∧ ∀ u ∈ c, ∀ w, w ∈ c ↔ SC g u w
  | [], _, c, hc => by cases hc
  | c' :: rest, h, c, hc => by
    simp only [List.mem_cons] at hc
    rcases hc with rfl | hc
    · exact ⟨h.2.1, h.2.2.2.2.1⟩
    · exact OutOk.scc h.1 c hc

theorem mem_unique {l : List (List Nat)} (hnd : l.flatten.Nodup) {v i j : Nat}
    (hi : i < l.length) (hj : j < l.length) (h1 : v ∈ l[i]) (h2 : v ∈ l[j]) : i = j := by
  have h := compOf_of_mem hnd hi h1
  rw [compOf_of_mem hnd hj h2] at h
  cases h; rfl

theorem nodup_flatten_reverse {l : List (List Nat)} (h : l.flatten.Nodup) : l.reverse.flatten.Nodup := by
  unfold List.Nodup at h ⊢
  rw [List.pairwise_flatten] at h ⊢
  refine ⟨fun c hc => h.1 c (List.mem_reverse.1 hc), ?_⟩
  rw [List.pairwise_reverse]
  exact h.2.imp (fun hab x hx y hy => fun e => hab y hy x hx e.symm)

/-- the bridge to the specification of C26 -/
theorem OutOk.isSccOrder {g : Graph} {cs : List (List Nat)} (h : OutOk g cs)
    (hcov : ∀ v, v ∈ cs.flatten ↔ v < g.length) : IsSccOrder g cs.reverse := by
  have hnd := h.nodup
  refine ⟨nodup_flatten_reverse hnd, ?_, ?_, ?_, ?_⟩
  · intro v
    rw [← hcov v]
    simp only [List.mem_flatten, List.mem_reverse]
  · intro c hc; exact (h.scc c (List.mem_reverse.1 hc)).1
  · intro c hc; exact (h.scc c (List.mem_reverse.1 hc)).2
  · intro i j hi hj u v hu hv r
    have hi' : i < cs.length := by simpa using hi
    have hj' : j < cs.length := by simpa using hj
    rw [List.getElem_reverse] at hu hv
    have hcl := h.suffix_closed (cs.length - 1 - i)
    have hu' : u ∈ (cs.drop (cs.length - 1 - i)).flatten := by
      refine List.mem_flatten.2 ⟨cs[cs.length - 1 - i], ?_, hu⟩
      rw [List.mem_iff_getElem]
      refine ⟨0, by simp; omega, ?_⟩
      simp [List.getElem_drop]
    have hv' := hcl.reach hu' r
    obtain ⟨l, hl, hvl⟩ := List.mem_flatten.1 hv'
    obtain ⟨k, hk, rfl⟩ := List.getElem_of_mem hl
    rw [List.getElem_drop] at hvl
    have hk' : cs.length - 1 - i + k < cs.length := by simp at hk; omega
    have := mem_unique hnd hk' (by omega) hvl hv
    omega

structure TInv (g : Graph) (gs : List Nat) (s : TS) : Prop where
  lenI : s.index.length = g.length
  lenL : s.lowLink.length = g.length
  lenO : s.onStack.length = g.length
  currNN : 0 ≤ s.curr
  idxR : ∀ v, v < g.length → s.idx v = -1 ∨ (0 ≤ s.idx v ∧ s.idx v < s.curr)
  stLt : ∀ v ∈ s.stack, v < g.length
  stVis : ∀ v ∈ s.stack, s.idx v ≠ -1
  stSorted : s.stack.Pairwise (fun a b => s.idx b < s.idx a)
  onIff : ∀ v, v < g.length → (s.on v = true ↔ v ∈ s.stack)
  dLt : ∀ v ∈ s.D, v < g.length
  vis : ∀ v, v < g.length → (s.idx v ≠ -1 ↔ v ∈ s.stack ∨ v ∈ s.D)
  disj : ∀ v ∈ s.stack, v ∉ s.D
  outOk : OutOk g s.comps
  stReach : ∀ a ∈ s.stack, ∀ b ∈ s.stack, s.idx a ≤ s.idx b → Reach g a b
  gsSub : ∀ z ∈ gs, z ∈ s.stack
  gray : ∀ y ∈ s.stack, ∃ z ∈ gs, s.idx z ≤ s.idx y ∧ Reach g y z
  black : ∀ u ∈ s.stack, u ∉ gs → ∀ w, Edge g u w → s.idx w ≠ -1

theorem TInv.setLow {g : Graph} {gs : List Nat} {s : TS} (h : TInv g gs s) (v : Nat) (x : Int) :
    TInv g gs (s.setLow v x) :=
  ⟨h.lenI, by simp [TS.setLow, h.lenL], h.lenO, h.currNN, h.idxR, h.stLt, h.stVis, h.stSorted, h.onIff,
   h.dLt, h.vis, h.disj, h.outOk, h.stReach, h.gsSub, h.gray, h.black⟩

theorem TInv.nodup {g : Graph} {gs : List Nat} {s : TS} (h : TInv g gs s) : s.stack.Nodup :=
  h.stSorted.imp (fun hab e => by subst e; omega)

theorem TInv.push {g : Graph} {gs : List Nat} {s : TS} (h : TInv g gs s) {v : Nat}
    (hv : v < g.length) (hidx : s.idx v = -1) (hreach : ∀ y ∈ s.stack, Reach g y v) :
    TInv g (v :: gs) (s.push v) := by
  have hI : ∀ w, (s.push v).idx w = if w = v then s.curr else s.idx w := by
    intro w; rw [TS.push_idx]; simp [h.lenI, hv]
  have hO : ∀ w, (s.push v).on w = if w = v then true else s.on w := by
    intro w; rw [TS.push_on]; simp [h.lenO, hv]
  have hne : ∀ y ∈ s.stack, y ≠ v := fun y hy e => h.stVis y hy (e ▸ hidx)
  have hcur := h.currNN
  have hvD : v ∉ s.D := fun hd => ((h.vis v hv).2 (.inr hd)) hidx
  have hlt : ∀ y ∈ s.stack, s.idx y < s.curr := by
    intro y hy
    rcases h.idxR y (h.stLt y hy) with e | e
    · exact absurd e (h.stVis y hy)
    · exact e.2
  refine ⟨by simp [TS.push, h.lenI], by simp [TS.push, h.lenL], by simp [TS.push, h.lenO], ?_, ?_, ?_, ?_,
    ?_, ?_, h.dLt, ?_, ?_, h.outOk, ?_, ?_, ?_, ?_⟩
  · simp; omega
  · intro w hw
    rw [hI]
    simp only [TS.push_curr]
    split
    · right; omega
    · rcases h.idxR w hw with e | e
      · left; exact e
      · right; omega
  · intro w hw
    simp only [TS.push_stack, List.mem_cons] at hw
    rcases hw with rfl | hw
    · exact hv
    · exact h.stLt w hw
  · intro w hw
    simp only [TS.push_stack, List.mem_cons] at hw
    rw [hI]
    rcases hw with rfl | hw
    · simp; omega
    · simp only [hne w hw, if_false]; exact h.stVis w hw
  · simp only [TS.push_stack, List.pairwise_cons]
    refine ⟨?_, ?_⟩
    · intro b hb
      rw [hI, hI]
      simp only [hne b hb, if_false, if_true]
      exact hlt b hb
    · refine h.stSorted.imp_of_mem ?_
      intro a b ha hb hab
      rw [hI, hI]
      simp only [hne a ha, hne b hb, if_false]
      exact hab
  · intro w hw
    rw [hO]
    simp only [TS.push_stack, List.mem_cons]
    by_cases e : w = v
    · simp [e]
    · simp only [e, if_false, false_or]; exact h.onIff w hw
  · intro w hw
    rw [hI]
    simp only [TS.push_stack, List.mem_cons]
    by_cases e : w = v
    · subst e; simp; omega
    · simp only [e, if_false, false_or]; exact h.vis w hw
  · intro w hw
    simp only [TS.push_stack, List.mem_cons] at hw
    rcases hw with rfl | hw
    · exact hvD
    · exact h.disj w hw
  · intro a ha b hb hab
    simp only [TS.push_stack, List.mem_cons] at ha hb
    rw [hI, hI] at hab
    rcases ha with rfl | ha <;> rcases hb with rfl | hb
    · exact Reach.refl _ _
    · simp only [hne b hb, if_false, if_true] at hab
      have := hlt b hb; omega
    · exact hreach a ha
    · simp only [hne a ha, hne b hb, if_false] at hab
      exact h.stReach a ha b hb hab
  · intro z hz
    simp only [TS.push_stack, List.mem_cons] at hz ⊢
    rcases hz with rfl | hz
    · exact .inl rfl
    · exact .inr (h.gsSub z hz)
  · intro y hy
    simp only [TS.push_stack, List.mem_cons] at hy
    rcases hy with rfl | hy
    · exact ⟨y, by simp, Int.le_refl _, Reach.refl _ _⟩
    · obtain ⟨z, hz, h1, h2⟩ := h.gray y hy
      refine ⟨z, by simp [hz], ?_, h2⟩
      rw [hI, hI]
      simp only [hne y hy, hne z (h.gsSub z hz), if_false]
      exact h1
  · intro u hu hug w e
    simp only [TS.push_stack, List.mem_cons, not_or] at hu hug
    rcases hu with rfl | hu
    · exact absurd rfl hug.1
    · rw [hI]
      split
      · omega
      · exact h.black u hu hug.2 w e

/-- the vertex `u` finishes without being a root: it stays on the stack -/
theorem TInv.finish {g : Graph} {gs : List Nat} {t : TS} {u : Nat} (h : TInv g (u :: gs) t)
    (hsucc : ∀ w, Edge g u w → t.idx w ≠ -1)
    (hwit : ∃ y ∈ t.stack, t.idx y < t.idx u ∧ Reach g u y) : TInv g gs t := by
  refine ⟨h.lenI, h.lenL, h.lenO, h.currNN, h.idxR, h.stLt, h.stVis, h.stSorted, h.onIff, h.dLt, h.vis,
    h.disj, h.outOk, h.stReach, fun z hz => h.gsSub z (by simp [hz]), ?_, ?_⟩
  · intro y hy
    obtain ⟨z, hz, h1, h2⟩ := h.gray y hy
    simp only [List.mem_cons] at hz
    rcases hz with rfl | hz
    · obtain ⟨y', hy', h3, h4⟩ := hwit
      obtain ⟨z', hz', h5, h6⟩ := h.gray y' hy'
      simp only [List.mem_cons] at hz'
      rcases hz' with rfl | hz'
      · omega
      · exact ⟨z', hz', by omega, (h2.trans h4).trans h6⟩
    · exact ⟨z, hz, h1, h2⟩
  · intro x hx hxg w e
    by_cases hxu : x = u
    · subst hxu; exact hsucc w e
    · exact h.black x hx (by simp [hxu, hxg]) w e

/-- the state after reporting and popping `comp` -/
def TS.popped (t : TS) (comp snap old : List Nat) : TS :=
  { t with out := (comp, snap) :: t.out, onStack := clearAll t.onStack comp, stack := old }

theorem TS.mem_popped_D (t : TS) (comp snap old : List Nat) (v : Nat) :
    v ∈ (t.popped comp snap old).D ↔ (v ∈ comp ∨ v ∈ t.D) := by
  simp only [TS.popped, TS.D, TS.comps, List.map_cons, List.flatten_cons, List.mem_append]

theorem scPop_root {t : TS} {u : Nat} {seg old : List Nat} (hst : t.stack = seg ++ u :: old)
    (hroot : t.low u = t.idx u) :
    scPop old.length u t = t.popped (seg ++ [u]).reverse ((List.range t.onStack.length).filter t.on) old := by
  unfold scPop TS.popped
  rw [if_pos hroot]
  have h1 : t.stack.length - old.length = (seg ++ [u]).length := by rw [hst]; simp; omega
  have h2 : t.stack = (seg ++ [u]) ++ old := by rw [hst]; simp
  simp only [h1]
  rw [h2, List.take_left' rfl, List.drop_left' rfl]

theorem scPop_nonroot {t : TS} {u : Nat} (base : Nat) (h : t.low u ≠ t.idx u) : scPop base u t = t := by
  unfold scPop; rw [if_neg h]

/-- the vertex `u` finishes as a root: the stack segment from `u` up is reported and popped -/
theorem TInv.pop {g : Graph} (hwf : Wf g) {gs : List Nat} {t : TS} {u : Nat} {seg old : List Nat}
    (h : TInv g (u :: gs) t) (hst : t.stack = seg ++ u :: old)
    (hgs : ∀ z ∈ gs, z ∈ old) (hseg : ∀ x ∈ seg, x ∉ gs)
    (hsucc : ∀ w, Edge g u w → t.idx w ≠ -1)
    (hedges : ∀ x y, (x ∈ seg ∨ x = u) → y ∈ old → Edge g x y → t.idx u ≤ t.idx y) (snap : List Nat) :
    TInv g gs (t.popped (seg ++ [u]).reverse snap old) := by
  have hnd := h.nodup
  rw [hst] at hnd
  have hmemC : ∀ x, x ∈ (seg ++ [u]).reverse ↔ (x ∈ seg ∨ x = u) := by intro x; simp [or_comm]
  have hCst : ∀ x, (x ∈ seg ∨ x = u) → x ∈ t.stack := by
    intro x hx; rw [hst]; simp; rcases hx with hx | hx; exact .inl hx; exact .inr (.inl hx)
  have hOst : ∀ x, x ∈ old → x ∈ t.stack := by intro x hx; rw [hst]; simp [hx]
  have hdisjCO : ∀ x, (x ∈ seg ∨ x = u) → x ∉ old := by
    intro x hx ho
    rw [List.nodup_append] at hnd
    rcases hx with hx | rfl
    · exact hnd.2.2 x hx x (by simp [ho]) rfl
    · exact (List.nodup_cons.1 hnd.2.1).1 ho
  have hsplit : ∀ x, x ∈ t.stack → (x ∈ seg ∨ x = u) ∨ x ∈ old := by
    intro x hx; rw [hst] at hx; simp at hx
    rcases hx with hx | hx | hx
    · exact .inl (.inl hx)
    · exact .inl (.inr hx)
    · exact .inr hx
  have hsorted := h.stSorted
  rw [hst] at hsorted
  have hbelow : ∀ y ∈ old, t.idx y < t.idx u := by
    intro y hy
    have := (List.pairwise_append.1 hsorted).2.1
    exact (List.pairwise_cons.1 this).1 y hy
  have habove : ∀ x, (x ∈ seg ∨ x = u) → t.idx u ≤ t.idx x := by
    intro x hx
    rcases hx with hx | rfl
    · have := (List.pairwise_append.1 hsorted).2.2 x hx u (by simp)
      omega
    · exact Int.le_refl _
  -- successors of the component are visited
  have hvisC : ∀ x, (x ∈ seg ∨ x = u) → ∀ w, Edge g x w → t.idx w ≠ -1 := by
    intro x hx w e
    rcases hx with hx | rfl
    · refine h.black x (hCst x (.inl hx)) ?_ w e
      simp only [List.mem_cons, not_or]
      refine ⟨?_, hseg x hx⟩
      intro e'; subst e'
      exact hdisjCO x (.inr rfl) (by
        have := hnd
        rw [List.nodup_append] at this
        exact absurd rfl (this.2.2 x hx x (by simp)))
    · exact hsucc w e
  -- the component together with the earlier ones is closed under successors
  have hclosed : Closed g ((seg ++ [u]).reverse ++ t.D) := by
    intro x hx w e
    simp only [List.mem_append] at hx ⊢
    rcases hx with hx | hx
    · have hx' := (hmemC x).1 hx
      have hwn : w < g.length := hwf _ _ e
      rcases (h.vis w hwn).1 (hvisC x hx' w e) with hw | hw
      · rcases hsplit w hw with hw | hw
        · exact .inl ((hmemC w).2 hw)
        · have := hedges x w hx' hw e
          have := hbelow w hw
          omega
      · exact .inr hw
    · exact .inr (h.outOk.closed x hx w e)
  have hCD : ∀ x, (x ∈ seg ∨ x = u) → x ∉ t.D := fun x hx => h.disj x (hCst x hx)
  -- every member of the component is mutually reachable with `u`
  have hreachU : ∀ x, (x ∈ seg ∨ x = u) → Reach g u x ∧ Reach g x u := by
    intro x hx
    refine ⟨h.stReach u (hCst u (.inr rfl)) x (hCst x hx) (habove x hx), ?_⟩
    obtain ⟨z, hz, _, hxz⟩ := h.gray x (hCst x hx)
    simp only [List.mem_cons] at hz
    rcases hz with rfl | hz
    · exact hxz
    · exfalso
      have hzS := hclosed.reach (List.mem_append.2 (.inl ((hmemC x).2 hx))) hxz
      simp only [List.mem_append] at hzS
      rcases hzS with hzS | hzS
      · exact hdisjCO z ((hmemC z).1 hzS) (hgs z hz)
      · exact h.disj z (hOst z (hgs z hz)) hzS
  refine ⟨h.lenI, h.lenL, by simp [TS.popped, clearAll_length, h.lenO], h.currNN, h.idxR, ?_, ?_, ?_, ?_, ?_,
    ?_, ?_, ?_, ?_, hgs, ?_, ?_⟩
  · intro v hv; exact h.stLt v (hOst v hv)
  · intro v hv; exact h.stVis v (hOst v hv)
  · exact (List.pairwise_cons.1 (List.pairwise_append.1 hsorted).2.1).2
  · intro v hv
    show (clearAll t.onStack (seg ++ [u]).reverse)[v]?.getD false = true ↔ v ∈ old
    rw [clearAll_getD]
    have := h.onIff v hv
    simp only [TS.on] at this
    simp only [Bool.and_eq_true, Bool.not_eq_true', this]
    constructor
    · rintro ⟨h1, h2⟩
      rcases hsplit v h1 with h3 | h3
      · have : (seg ++ [u]).reverse.contains v = true := by
          rw [List.contains_iff_mem]; exact (hmemC v).2 h3
        rw [this] at h2; cases h2
      · exact h3
    · intro h1
      refine ⟨hOst v h1, ?_⟩
      cases hc : (seg ++ [u]).reverse.contains v
      · rfl
      · rw [List.contains_iff_mem] at hc
        exact absurd h1 (hdisjCO v ((hmemC v).1 hc))
  · intro v hv
    show v < g.length
    rcases (t.mem_popped_D _ _ _ v).1 hv with h1 | h1
    · exact h.stLt v (hCst v ((hmemC v).1 h1))
    · exact h.dLt v h1
  · intro v hv
    show t.idx v ≠ -1 ↔ v ∈ old ∨ v ∈ (t.popped (seg ++ [u]).reverse snap old).D
    rw [t.mem_popped_D, h.vis v hv]
    constructor
    · rintro (h1 | h1)
      · rcases hsplit v h1 with h2 | h2
        · exact .inr (.inl ((hmemC v).2 h2))
        · exact .inl h2
      · exact .inr (.inr h1)
    · rintro (h1 | h1 | h1)
      · exact .inl (hOst v h1)
      · exact .inl (hCst v ((hmemC v).1 h1))
      · exact .inr h1
  · intro v hv hd
    rcases (t.mem_popped_D _ _ _ v).1 hd with h1 | h1
    · exact hdisjCO v ((hmemC v).1 h1) hv
    · exact h.disj v (hOst v hv) h1
  · show OutOk g ((seg ++ [u]).reverse :: t.comps)
    refine ⟨h.outOk, by simp, ?_, ?_, ?_, hclosed⟩
    · have : (seg ++ [u]).Nodup := by
        have h2 : seg ++ u :: old = (seg ++ [u]) ++ old := by simp
        rw [h2] at hnd
        exact (List.nodup_append.1 hnd).1
      unfold List.Nodup at this ⊢
      rw [List.pairwise_reverse]
      exact this.imp (fun hab e => hab e.symm)
    · intro x hx; exact hCD x ((hmemC x).1 hx)
    · intro a ha w
      have ha' := (hmemC a).1 ha
      constructor
      · intro hw
        have hw' := (hmemC w).1 hw
        exact ⟨(hreachU a ha').2.trans (hreachU w hw').1, (hreachU w hw').2.trans (hreachU a ha').1⟩
      · rintro ⟨r1, r2⟩
        have hwS := hclosed.reach (List.mem_append.2 (.inl ha)) r1
        simp only [List.mem_append] at hwS
        rcases hwS with h1 | h1
        · exact h1
        · exact absurd (h.outOk.closed.reach h1 r2) (hCD a ha')
  · intro a ha b hb hab
    exact h.stReach a (hOst a ha) b (hOst b hb) hab
  · intro y hy
    obtain ⟨z, hz, h1, h2⟩ := h.gray y (hOst y hy)
    simp only [List.mem_cons] at hz
    rcases hz with rfl | hz
    · have := hbelow y hy
      exact absurd h1 (by show ¬ t.idx z ≤ t.idx y; omega)
    · exact ⟨z, hz, h1, h2⟩
  · intro x hx hxg w e
    refine h.black x (hOst x hx) ?_ w e
    simp only [List.mem_cons, not_or]
    exact ⟨fun e' => hdisjCO x (.inr e') hx, hxg⟩

/-- frame conditions between an earlier state `s` and a later state `t` -/
structure Frame (g : Graph) (s t : TS) : Prop where
  idx : ∀ x, x < g.length → s.idx x ≠ -1 → t.idx x = s.idx x
  low : ∀ x, x < g.length → s.idx x ≠ -1 → t.low x = s.low x
  curr : s.curr ≤ t.curr
  newIdx : ∀ x, x < g.length → s.idx x = -1 → t.idx x ≠ -1 → s.curr ≤ t.idx x
  out : ∃ nc, t.out = nc ++ s.out
  unv : t.unv ≤ s.unv

theorem Frame.refl (g : Graph) (s : TS) : Frame g s s :=
  ⟨fun _ _ _ => rfl, fun _ _ _ => rfl, Int.le_refl _, fun _ _ h1 h2 => absurd h1 h2, ⟨[], rfl⟩, Nat.le_refl _⟩

theorem Frame.trans {g : Graph} {a b c : TS} (h1 : Frame g a b) (h2 : Frame g b c) : Frame g a c := by
  refine ⟨?_, ?_, Int.le_trans h1.curr h2.curr, ?_, ?_, Nat.le_trans h2.unv h1.unv⟩
  · intro x hx hv
    have e := h1.idx x hx hv
    rw [h2.idx x hx (by rw [e]; exact hv), e]
  · intro x hx hv
    have e := h1.idx x hx hv
    rw [h2.low x hx (by rw [e]; exact hv), h1.low x hx hv]
  · intro x hx h0 hc
    by_cases hb : b.idx x = -1
    · have := h2.newIdx x hx hb hc
      have := h1.curr
      omega
    · rw [h2.idx x hx hb]
      exact h1.newIdx x hx h0 hb
  · obtain ⟨n1, e1⟩ := h1.out
    obtain ⟨n2, e2⟩ := h2.out
    exact ⟨n2 ++ n1, by rw [e2, e1, List.append_assoc]⟩

theorem Frame.setLow {g : Graph} {s t : TS} (h : Frame g s t) {u : Nat} (hu : s.idx u = -1) (m : Int) :
    Frame g s (t.setLow u m) := by
  refine ⟨h.idx, ?_, h.curr, h.newIdx, h.out, h.unv⟩
  intro x hx hv
  rw [TS.setLow_low]
  have : x ≠ u := fun e => hv (e ▸ hu)
  simp only [this, false_and, if_false]
  exact h.low x hx hv

theorem TS.setLow_self (s : TS) (u : Nat) (hu : u < s.lowLink.length) : s.setLow u (s.low u) = s := by
  unfold TS.setLow TS.low
  rw [List.getElem?_eq_getElem hu]
  simp

/-- what one call `strongConnect(v)` guarantees (`new`: what it leaves on the stack) -/
structure SCPost (g : Graph) (gs : List Nat) (v : Nat) (s s' : TS) (new : List Nat) : Prop where
  inv : TInv g gs s'
  frame : Frame g s s'
  stack : s'.stack = new ++ s.stack
  newU : ∀ x ∈ new, s.idx x = -1
  idxV : s'.idx v = s.curr
  currLt : s.curr < s'.curr
  unv : s'.unv + 1 ≤ s.unv
  lowLe : s'.low v ≤ s'.idx v
  root : s'.low v = s'.idx v → new = []
  nonrootWit : s'.low v < s'.idx v → ∃ y ∈ s.stack, s'.idx y = s'.low v ∧ Reach g v y
  nonrootEdges : s'.low v < s'.idx v → ∀ x ∈ new, ∀ y ∈ s.stack, Edge g x y → s'.low v ≤ s'.idx y

def SCSpec (g : Graph) (fuel : Nat) : Prop :=
  ∀ gs v s, TInv g gs s → v < g.length → s.idx v = -1 → s.unv < fuel →
    (∀ y ∈ s.stack, Reach g y v) → ∃ new, SCPost g gs v s (strongConnect g fuel v s) new

/-- loop invariant of `for _, w := range t.graph[u]` (`s0`: state when `strongConnect(u)` was entered,
`done`: successors already handled, `seg`: what the loop has left on the stack above `u`) -/
structure SLoop (g : Graph) (gs : List Nat) (u : Nat) (s0 : TS) (done : List Nat) (t : TS)
    (seg : List Nat) : Prop where
  inv : TInv g (u :: gs) t
  frame : Frame g s0 t
  stack : t.stack = seg ++ u :: s0.stack
  segNew : ∀ x ∈ seg, s0.idx x = -1 ∧ x ≠ u
  idxU : t.idx u = s0.curr
  currLt : s0.curr < t.curr
  unv : t.unv + 1 ≤ s0.unv
  lowLe : t.low u ≤ t.idx u
  lowWit : ∃ y ∈ t.stack, t.idx y = t.low u ∧ Reach g u y
  doneVis : ∀ w ∈ done, w < g.length ∧ t.idx w ≠ -1
  edges : ∀ x y, y ∈ s0.stack → Edge g x y → (x ∈ seg ∨ (x = u ∧ y ∈ done)) → t.low u ≤ t.idx y

theorem SLoop.lower {g : Graph} {gs : List Nat} {u : Nat} {s0 : TS} {done : List Nat} {t : TS}
    {seg : List Nat} (L : SLoop g gs u s0 done t seg) (hu : u < g.length) (hu0 : s0.idx u = -1)
    (m : Int) (hm : m ≤ t.low u)
    (hwit : m = t.low u ∨ ∃ y ∈ t.stack, t.idx y = m ∧ Reach g u y) :
    SLoop g gs u s0 done (t.setLow u m) seg := by
  have hlow : (t.setLow u m).low u = m := by
    rw [TS.setLow_low]; simp [L.inv.lenL, hu]
  refine ⟨L.inv.setLow u m, L.frame.setLow hu0 m, L.stack, L.segNew, L.idxU, L.currLt, L.unv, ?_, ?_,
    L.doneVis, ?_⟩
  · rw [hlow]; have := L.lowLe; show m ≤ t.idx u; omega
  · rw [hlow]
    rcases hwit with e | hw
    · rw [e]; exact L.lowWit
    · exact hw
  · intro x y hy e hx
    rw [hlow]
    have := L.edges x y hy e hx
    show m ≤ t.idx y
    omega

theorem SLoop.addDone {g : Graph} {gs : List Nat} {u : Nat} {s0 : TS} {done : List Nat} {t : TS}
    {seg : List Nat} (L : SLoop g gs u s0 done t seg) (w : Nat) (hvis : w < g.length ∧ t.idx w ≠ -1)
    (hle : w ∈ s0.stack → t.low u ≤ t.idx w) : SLoop g gs u s0 (done ++ [w]) t seg := by
  refine ⟨L.inv, L.frame, L.stack, L.segNew, L.idxU, L.currLt, L.unv, L.lowLe, L.lowWit, ?_, ?_⟩
  · intro x hx
    simp only [List.mem_append, List.mem_singleton] at hx
    rcases hx with hx | rfl
    · exact L.doneVis x hx
    · exact hvis
  · intro x y hy e hx
    rcases hx with hx | ⟨rfl, hx⟩
    · exact L.edges x y hy e (.inl hx)
    · simp only [List.mem_append, List.mem_singleton] at hx
      rcases hx with hx | rfl
      · exact L.edges x y hy e (.inr ⟨rfl, hx⟩)
      · exact hle hy

theorem SLoop.call {g : Graph} {gs : List Nat} {u : Nat} {s0 : TS} {done : List Nat} {t : TS}
    {seg : List Nat} (L : SLoop g gs u s0 done t seg) (h0 : TInv g gs s0) (hu : u < g.length)
    (hu0 : s0.idx u = -1) {w : Nat} (hw : Edge g u w) {t' : TS} {new : List Nat}
    (P : SCPost g (u :: gs) w t t' new) :
    SLoop g gs u s0 done (t'.setLow u (if t'.low w < t'.low u then t'.low w else t'.low u)) (new ++ seg) := by
  have hcur0 := h0.currNN
  have fu_t : t.idx u ≠ -1 := by rw [L.idxU]; omega
  have e_idx_u : t'.idx u = t.idx u := P.frame.idx u hu fu_t
  have e_low_u : t'.low u = t.low u := P.frame.low u hu fu_t
  have hucur : t.idx u < t.curr := by
    rcases L.inv.idxR u hu with e | e
    · exact absurd e fu_t
    · exact e.2
  generalize hm : (if t'.low w < t'.low u then t'.low w else t'.low u) = m
  have hm1 : m ≤ t'.low u := by rw [← hm]; split <;> omega
  have hm2 : m ≤ t'.low w := by rw [← hm]; split <;> omega
  have hlow : (t'.setLow u m).low u = m := by
    rw [TS.setLow_low]; simp [P.inv.lenL, hu]
  have hkeep : ∀ y ∈ t.stack, t'.idx y = t.idx y :=
    fun y hy => P.frame.idx y (L.inv.stLt y hy) (L.inv.stVis y hy)
  have hs0t : ∀ y ∈ s0.stack, y ∈ t.stack := by intro y hy; rw [L.stack]; simp [hy]
  have hnonroot : new ≠ [] ∨ t'.low w < t'.low u → t'.low w < t'.idx w := by
    intro hc
    have := P.lowLe
    by_cases e : t'.low w = t'.idx w
    · rcases hc with hc | hc
      · exact absurd (P.root e) hc
      · have := P.idxV; have := L.lowLe; omega
    · omega
  refine ⟨P.inv.setLow u m, (L.frame.trans P.frame).setLow hu0 m, ?_, ?_, ?_, ?_, ?_, ?_, ?_, ?_, ?_⟩
  · show t'.stack = new ++ seg ++ u :: s0.stack
    rw [P.stack, L.stack, List.append_assoc]
  · intro x hx
    simp only [List.mem_append] at hx
    rcases hx with hx | hx
    · have hxn : x < g.length := P.inv.stLt x (by rw [P.stack]; simp [hx])
      have hxt := P.newU x hx
      refine ⟨?_, fun e => fu_t (e ▸ hxt)⟩
      apply Classical.byContradiction
      intro hne
      have := L.frame.idx x hxn hne
      rw [hxt] at this
      exact hne this.symm
    · exact L.segNew x hx
  · show t'.idx u = s0.curr
    rw [e_idx_u, L.idxU]
  · show s0.curr < t'.curr
    have := L.currLt; have := P.frame.curr; omega
  · show t'.unv + 1 ≤ s0.unv
    have := L.unv; have := P.frame.unv; omega
  · rw [hlow]
    show m ≤ t'.idx u
    have := L.lowLe; omega
  · rw [hlow]
    by_cases hlt : t'.low w < t'.low u
    · obtain ⟨y, hy, h1, h2⟩ := P.nonrootWit (hnonroot (.inr hlt))
      refine ⟨y, ?_, ?_, ?_⟩
      · show y ∈ t'.stack; rw [P.stack]; simp [hy]
      · show t'.idx y = m; rw [h1, ← hm, if_pos hlt]
      · -- `u → w` is an edge: recorded by the caller through `hw`
        exact (Reach.edge hw).trans h2
    · obtain ⟨y, hy, h1, h2⟩ := L.lowWit
      refine ⟨y, ?_, ?_, h2⟩
      · show y ∈ t'.stack; rw [P.stack]; simp [hy]
      · show t'.idx y = m; rw [hkeep y hy, h1, ← hm, if_neg hlt, e_low_u]
  · intro x hx
    have := L.doneVis x hx
    refine ⟨this.1, ?_⟩
    show t'.idx x ≠ -1
    rw [P.frame.idx x this.1 this.2]; exact this.2
  · intro x y hy e hx
    rw [hlow]
    show m ≤ t'.idx y
    rw [hkeep y (hs0t y hy)]
    simp only [List.mem_append] at hx
    rcases hx with (hx | hx) | hx
    · have h1 := P.nonrootEdges (hnonroot (.inl (List.ne_nil_of_mem hx))) x hx y (hs0t y hy) e
      rw [hkeep y (hs0t y hy)] at h1
      omega
    · have := L.edges x y hy e (.inl hx); omega
    · have := L.edges x y hy e (.inr hx); omega

theorem sc_step {g : Graph} (hwf : Wf g) {fuel : Nat} (ih : SCSpec g fuel) {gs : List Nat} {u : Nat}
    {s0 : TS} (h0 : TInv g gs s0) (hu : u < g.length) (hu0 : s0.idx u = -1) (hfuel : s0.unv < fuel + 1)
    (done : List Nat) (w : Nat) (t : TS) (hw : Edge g u w)
    (hL : ∃ seg, SLoop g gs u s0 done t seg) :
    ∃ seg, SLoop g gs u s0 (done ++ [w]) (scStep (strongConnect g fuel) u t w) seg := by
  obtain ⟨seg, L⟩ := hL
  have hwn : w < g.length := hwf _ _ hw
  have hs0t : ∀ y ∈ s0.stack, y ∈ t.stack := by intro y hy; rw [L.stack]; simp [hy]
  unfold scStep
  by_cases hA : t.idx w = -1
  · rw [if_pos hA]
    have hreach : ∀ y ∈ t.stack, Reach g y w := by
      intro y hy
      obtain ⟨z, hz, _, hyz⟩ := L.inv.gray y hy
      simp only [List.mem_cons] at hz
      rcases hz with rfl | hz
      · exact hyz.trans (Reach.edge hw)
      · have hzs := h0.gsSub z hz
        have hzu : Reach g z u := by
          apply L.inv.stReach z (hs0t z hzs) u (L.inv.gsSub u (by simp))
          rw [L.frame.idx z (h0.stLt z hzs) (h0.stVis z hzs), L.idxU]
          rcases h0.idxR z (h0.stLt z hzs) with e | e
          · exact absurd e (h0.stVis z hzs)
          · omega
        exact (hyz.trans hzu).trans (Reach.edge hw)
    obtain ⟨new, P⟩ := ih (u :: gs) w t L.inv hwn hA (by have := L.unv; omega) hreach
    have L' := L.call h0 hu hu0 hw P
    have hvis : (strongConnect g fuel w t).idx w ≠ -1 := by
      rw [P.idxV]; have := L.inv.currNN; omega
    have hres : (let s := strongConnect g fuel w t
        if s.low w < s.low u then s.setLow u (s.low w) else s)
        = (strongConnect g fuel w t).setLow u
            (if (strongConnect g fuel w t).low w < (strongConnect g fuel w t).low u
              then (strongConnect g fuel w t).low w else (strongConnect g fuel w t).low u) := by
      simp only
      split
      · rfl
      · rw [TS.setLow_self]; rw [P.inv.lenL]; exact hu
    rw [hres]
    refine ⟨new ++ seg, L'.addDone w ⟨hwn, hvis⟩ ?_⟩
    intro hws
    exact absurd hA (L.inv.stVis w (hs0t w hws))
  · rw [if_neg hA]
    have hres : (if (t.on w && decide (t.idx w < t.low u)) = true then t.setLow u (t.idx w) else t)
        = t.setLow u (if (t.on w && decide (t.idx w < t.low u)) = true then t.idx w else t.low u) := by
      split
      · rfl
      · rw [TS.setLow_self]; rw [L.inv.lenL]; exact hu
    rw [hres]
    generalize hm : (if (t.on w && decide (t.idx w < t.low u)) = true then t.idx w else t.low u) = m
    have hlow : (t.setLow u m).low u = m := by
      rw [TS.setLow_low]; simp [L.inv.lenL, hu]
    have L' := L.lower hu hu0 m (by rw [← hm]; split
                                    · rename_i hc; simp at hc; omega
                                    · omega)
      (by
        rw [← hm]
        split
        · rename_i hc
          simp only [Bool.and_eq_true, decide_eq_true_eq] at hc
          right
          exact ⟨w, (L.inv.onIff w hwn).1 hc.1, rfl, Reach.edge hw⟩
        · left; rfl)
    refine ⟨seg, L'.addDone w ⟨hwn, hA⟩ ?_⟩
    intro hws
    rw [hlow]
    show m ≤ t.idx w
    have hon : t.on w = true := (L.inv.onIff w hwn).2 (hs0t w hws)
    rw [← hm]
    split
    · omega
    · rename_i hc
      simp only [hon, Bool.true_and, decide_eq_true_eq] at hc
      omega

theorem Frame.push {g : Graph} {gs : List Nat} {s : TS} (h : TInv g gs s) {v : Nat}
    (hv : v < g.length) (hidx : s.idx v = -1) : Frame g s (s.push v) := by
  refine ⟨?_, ?_, (by show s.curr ≤ s.curr + 1; omega), ?_, ⟨[], rfl⟩, ?_⟩
  · intro x _ hx
    rw [TS.push_idx]
    have : x ≠ v := fun e => hx (e ▸ hidx)
    simp [this]
  · intro x _ hx
    rw [TS.push_low]
    have : x ≠ v := fun e => hx (e ▸ hidx)
    simp [this]
  · intro x _ hx hx'
    rw [TS.push_idx] at hx' ⊢
    split
    · exact Int.le_refl _
    · rename_i hc; rw [if_neg hc] at hx'; exact absurd hx hx'
  · have := s.push_unv v (by rw [h.lenI]; exact hv) hidx h.currNN
    omega

theorem Frame.popped {g : Graph} {s t : TS} (h : Frame g s t) (comp snap old : List Nat) :
    Frame g s (t.popped comp snap old) := by
  refine ⟨h.idx, h.low, h.curr, h.newIdx, ?_, h.unv⟩
  obtain ⟨nc, e⟩ := h.out
  exact ⟨(comp, snap) :: nc, by simp [TS.popped, e]⟩

theorem sc_spec {g : Graph} (hwf : Wf g) : ∀ fuel, SCSpec g fuel := by
  intro fuel
  induction fuel with
  | zero => intro gs v s _ _ _ hf; omega
  | succ fuel ih =>
    intro gs v s h hv hidx hfuel hreach
    simp only [strongConnect]
    have hcur := h.currNN
    -- entry
    have L0 : ∃ seg, SLoop g gs v s [] (s.push v) seg := by
      have hI : (s.push v).idx v = s.curr := by rw [TS.push_idx]; simp [h.lenI, hv]
      have hLw : (s.push v).low v = s.curr := by rw [TS.push_low]; simp [h.lenL, hv]
      refine ⟨[], h.push hv hidx hreach, Frame.push h hv hidx, rfl, fun x hx => (by cases hx), hI, (by show s.curr < s.curr + 1; omega), ?_,
        (by rw [hI, hLw]; exact Int.le_refl _), ⟨v, (by simp), (by rw [hI, hLw]), Reach.refl _ _⟩,
        fun x hx => (by cases hx), ?_⟩
      · have := s.push_unv v (by rw [h.lenI]; exact hv) hidx hcur; omega
      · intro x y _ _ hx
        rcases hx with hx | ⟨_, hx⟩ <;> cases hx
    have hloop := foldl_inv (fun done t => ∃ seg, SLoop g gs v s done t seg)
      (scStep (strongConnect g fuel) v) (succs g v) [] (s.push v) L0
      (fun done w t hw hL => sc_step hwf ih h hv hidx hfuel done w t hw hL)
    simp only [List.nil_append] at hloop
    generalize (succs g v).foldl (scStep (strongConnect g fuel) v) (s.push v) = t at hloop
    obtain ⟨seg, L⟩ := hloop
    have hsucc : ∀ w, Edge g v w → t.idx w ≠ -1 := fun w e => (L.doneVis w e).2
    have hsorted := L.inv.stSorted
    rw [L.stack] at hsorted
    by_cases hroot : t.low v = t.idx v
    · rw [scPop_root L.stack hroot]
      refine ⟨[], ?_, L.frame.popped _ _ _, rfl, fun x hx => (by cases hx), L.idxU, L.currLt, L.unv, L.lowLe,
        fun _ => rfl, ?_, ?_⟩
      · apply TInv.pop hwf L.inv L.stack h.gsSub ?_ hsucc ?_
        · intro x hx hg
          exact h.stVis x (h.gsSub x hg) (L.segNew x hx).1
        · intro x y hx hy e
          rw [← hroot]
          rcases hx with hx | rfl
          · exact L.edges x y hy e (.inl hx)
          · exact L.edges x y hy e (.inr ⟨rfl, e⟩)
      · intro hlt
        have hlt' : t.low v < t.idx v := hlt
        omega
      · intro hlt
        have hlt' : t.low v < t.idx v := hlt
        omega
    · rw [scPop_nonroot _ hroot]
      have hlt : t.low v < t.idx v := by have := L.lowLe; omega
      have hwitOld : ∃ y ∈ s.stack, t.idx y = t.low v ∧ Reach g v y := by
        obtain ⟨y, hy, h1, h2⟩ := L.lowWit
        refine ⟨y, ?_, h1, h2⟩
        rw [L.stack] at hy
        simp only [List.mem_append, List.mem_cons] at hy
        rcases hy with hy | rfl | hy
        · have := (List.pairwise_append.1 hsorted).2.2 y hy v (by simp)
          omega
        · omega
        · exact hy
      refine ⟨seg ++ [v], ?_, L.frame, (by rw [L.stack]; simp), ?_, L.idxU, L.currLt, L.unv, L.lowLe,
        fun e => absurd e hroot, fun _ => hwitOld, ?_⟩
      · apply TInv.finish L.inv hsucc
        obtain ⟨y, hy, h1, h2⟩ := hwitOld
        refine ⟨y, ?_, by omega, h2⟩
        rw [L.stack]; simp [hy]
      · intro x hx
        simp only [List.mem_append, List.mem_singleton] at hx
        rcases hx with hx | rfl
        · exact (L.segNew x hx).1
        · exact hidx
      · intro _ x hx y hy e
        simp only [List.mem_append, List.mem_singleton] at hx
        rcases hx with hx | rfl
        · exact L.edges x y hy e (.inl hx)
        · exact L.edges x y hy e (.inr ⟨rfl, e⟩)

theorem tarjanInit_idx (n v : Nat) (hv : v < n) : (tarjanInit n).idx v = -1 := by
  simp [tarjanInit, TS.idx, hv]

theorem tarjanInit_on (n v : Nat) : (tarjanInit n).on v = false := by
  simp only [tarjanInit, TS.on, List.getElem?_replicate]
  split <;> rfl

theorem tInv_init (g : Graph) : TInv g [] (tarjanInit g.length) := by
  refine ⟨by simp [tarjanInit], by simp [tarjanInit], by simp [tarjanInit], Int.le_refl 0, ?_, ?_, ?_,
    List.Pairwise.nil, ?_, ?_, ?_, ?_, trivial, ?_, ?_, ?_, ?_⟩
  · intro v hv; exact .inl (tarjanInit_idx _ v hv)
  · intro v hv; cases hv
  · intro v hv; cases hv
  · intro v _; rw [tarjanInit_on]; simp [tarjanInit]
  · intro v hv; cases hv
  · intro v hv
    rw [tarjanInit_idx _ v hv]
    simp [tarjanInit, TS.D, TS.comps]
  · intro v hv; cases hv
  · intro a ha; cases ha
  · intro z hz; cases hz
  · intro y hy; cases hy
  · intro u hu; cases hu

theorem TInv.stack_nil {g : Graph} {s : TS} (h : TInv g [] s) : s.stack = [] := by
  cases hs : s.stack with
  | nil => rfl
  | cons y l =>
    obtain ⟨z, hz, _⟩ := h.gray y (by rw [hs]; simp)
    cases hz

theorem tarjan_top {g : Graph} (hwf : Wf g) :
    ∀ k, k ≤ g.length →
      TInv g [] (forUpTo k (fun i s => if s.idx i = -1 then strongConnect g (g.length + 1) i s else s)
        (tarjanInit g.length)) ∧
      ∀ v, v < k → (forUpTo k (fun i s => if s.idx i = -1 then strongConnect g (g.length + 1) i s else s)
        (tarjanInit g.length)).idx v ≠ -1 := by
  intro k
  induction k with
  | zero => intro _; exact ⟨tInv_init g, fun v hv => absurd hv (Nat.not_lt_zero v)⟩
  | succ k ih =>
    intro hk
    obtain ⟨h1, h2⟩ := ih (by omega)
    simp only [forUpTo]
    generalize forUpTo k (fun i s => if s.idx i = -1 then strongConnect g (g.length + 1) i s else s)
      (tarjanInit g.length) = s at h1 h2
    by_cases hidx : s.idx k = -1
    · rw [if_pos hidx]
      have hst := h1.stack_nil
      obtain ⟨new, P⟩ := sc_spec hwf (g.length + 1) [] k s h1 (by omega) hidx
        (by have := s.unv_le; rw [h1.lenI] at this; omega) (by rw [hst]; intro y hy; cases hy)
      refine ⟨P.inv, ?_⟩
      intro v hv
      by_cases hvk : v = k
      · subst hvk; rw [P.idxV]; have := h1.currNN; omega
      · have := h2 v (by omega)
        rw [P.frame.idx v (by omega) this]; exact this
    · rw [if_neg hidx]
      refine ⟨h1, ?_⟩
      intro v hv
      by_cases hvk : v = k
      · subst hvk; exact hidx
      · exact h2 v (by omega)

/-- The mirror of `Tarjan` reports exactly the strongly connected components, once each, in
reverse topological order — for every well-formed graph with at least two vertices. -/
theorem tarjan_correct {g : Graph} (hwf : Wf g) (h2 : 2 ≤ g.length) : IsSccOrder g (tarjan g) := by
  obtain ⟨h, hall⟩ := tarjan_top hwf g.length (Nat.le_refl _)
  have hres : tarjan g = (forUpTo g.length
      (fun i s => if s.idx i = -1 then strongConnect g (g.length + 1) i s else s)
      (tarjanInit g.length)).comps.reverse := by
    unfold tarjan tarjanRun TS.comps
    rw [if_neg (by omega)]
    simp [List.map_reverse]
  rw [hres]
  generalize forUpTo g.length (fun i s => if s.idx i = -1 then strongConnect g (g.length + 1) i s else s)
      (tarjanInit g.length) = s at h hall
  apply h.outOk.isSccOrder
  intro v
  constructor
  · intro hv; exact h.dLt v hv
  · intro hv
    rcases (h.vis v hv).1 (hall v hv) with h1 | h1
    · rw [h.stack_nil] at h1; cases h1
    · exact h1

/-- Below two vertices `Tarjan` returns without calling the callback. -/
theorem tarjan_small {g : Graph} (h : g.length < 2) : tarjan g = [] := by
  unfold tarjan tarjanRun
  rw [if_pos h]; rfl

end TmVerif.Graph
