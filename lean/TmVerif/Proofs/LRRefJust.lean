/-
Helper lemmas for C03 exactness, part 2: unpacking of the justification checker `justOk`, and the
induction on the rank (`la_least`); closedness of `laGet la` as an `LASolution` (`la_solution`).
-/
import TmVerif.Proofs.LRRef
namespace TmVerif.LRRef
open TmVerif.CFG TmVerif.LR

theorem laGet_bit_mem {la : LA} {s : Nat} {it : Item} {a : Nat}
    (h : (laGet la s it).testBit a = true) :
    s < la.size ∧ ∃ p ∈ la.getD s [], p.1 = it ∧ it ∈ laDom la s := by
  unfold laGet at h
  split at h
  · rename_i p hp
    have hm := List.mem_of_find?_eq_some hp
    have he : p.1 = it := by simpa using List.find?_some hp
    refine ⟨?_, p, hm, he, ?_⟩
    · rcases Nat.lt_or_ge s la.size with h' | h'
      · exact h'
      · have : la.getD s [] = [] := by
          simp [Array.getD_eq_getD_getElem?, Array.getElem?_eq_none h']
        rw [this] at hm; cases hm
    · unfold laDom
      exact he ▸ List.mem_map_of_mem hm
  · simp at h

theorem laDom_mem {la : LA} {s : Nat} {it : Item} (h : it ∈ laDom la s) :
    s < la.size ∧ ∃ p ∈ la.getD s [], p.1 = it := by
  unfold laDom at h
  rw [List.mem_map] at h
  obtain ⟨p, hm, he⟩ := h
  refine ⟨?_, p, hm, he⟩
  rcases Nat.lt_or_ge s la.size with h' | h'
  · exact h'
  · have : la.getD s [] = [] := by
      simp [Array.getD_eq_getD_getElem?, Array.getElem?_eq_none h']
    rw [this] at hm; cases hm

theorem mem_rulesOf {g : Grammar} {x r : Nat} :
    r ∈ rulesOf g x ↔ ∃ rule, g.rules[r]? = some rule ∧ rule.lhs = x := by
  unfold rulesOf
  rw [List.mem_filter, List.mem_range]
  constructor
  · rintro ⟨hlt, h⟩
    have h := beq_iff_eq.mp h
    rw [Array.getElem?_eq_getElem hlt] at h ⊢
    simp only [Option.map_some, Option.some.injEq] at h
    exact ⟨_, rfl, h⟩
  · rintro ⟨rule, h1, h2⟩
    have hlt : r < g.rules.size := by
      rcases Nat.lt_or_ge r g.rules.size with h' | h'
      · exact h'
      · rw [Array.getElem?_eq_none h'] at h1; cases h1
    refine ⟨hlt, ?_⟩
    rw [h1]
    simp [h2]

theorem closureStep_elim {g : Grammar} {src it : Item} {beta : List Nat}
    (h : closureStep g src it = some beta) :
    ∃ x rule, (rhsOf g src.1)[src.2]? = some x ∧ g.nTerms ≤ x ∧ it = (it.1, 0) ∧
      g.rules[it.1]? = some rule ∧ rule.lhs = x ∧ beta = (rhsOf g src.1).drop (src.2 + 1) := by
  unfold closureStep at h
  split at h
  · rename_i x hx
    split at h
    · rename_i hc
      simp only [Bool.and_eq_true, decide_eq_true_eq, beq_iff_eq, List.contains_iff_mem] at hc
      obtain ⟨rule, hr1, hr2⟩ := mem_rulesOf.mp hc.2
      injection h with h
      refine ⟨x, rule, hx, hc.1.1, ?_, hr1, hr2, h.symm⟩
      rcases it with ⟨r, d⟩
      simp only at hc ⊢
      rw [hc.1.2]
    · cases h
  · cases h

/-- what `justOk` gives for one set bit -/
theorem justOk_elim {g : Grammar} {t : Tables} {la : LA} {just : Just}
    (h : justOk g t la just = true) {s : Nat} {it : Item} {a : Nat}
    (hb : (laGet la s it).testBit a = true) :
    a < g.nTerms ∧
    entryOk g t (nullable g) (firstSets g (nullable g)) la just s it a (jGet just s it a) = true := by
  obtain ⟨hs, p, hp, he, _⟩ := laGet_bit_mem hb
  unfold justOk at h
  simp only [List.all_eq_true, List.mem_range, Bool.and_eq_true, decide_eq_true_eq,
    Bool.or_eq_true, Bool.not_eq_true'] at h
  obtain ⟨h1, h2⟩ := h s hs p hp
  rw [he] at h1 h2
  have ha := testBit_lt_of_lt_two_pow h1 hb
  refine ⟨ha, ?_⟩
  rcases h2 a ha with h3 | h3
  · rw [hb] at h3; cases h3
  · exact h3

/-- Leastness: induction on the rank of the justification. -/
theorem la_least {g : Grammar} {t : Tables} {la : LA} {just : Just}
    (h : justOk g t la just = true) {L : Nat → Item → Nat}
    (hL : LASolution g t (laDom la) L) :
    ∀ (n : Nat) (s : Nat) (it : Item) (a : Nat), (jGet just s it a).rank = n →
      (laGet la s it).testBit a = true → (L s it).testBit a = true := by
  intro n
  induction n using Nat.strongRecOn with
  | _ n ih =>
    intro s it a hn hb
    obtain ⟨ha, he⟩ := justOk_elim h hb
    obtain ⟨_, _, _, _, hdom⟩ := laGet_bit_mem hb
    unfold entryOk at he
    split at he
    · -- init
      simp only [Bool.and_eq_true, beq_iff_eq, decide_eq_true_eq] at he
      obtain ⟨⟨⟨⟨h1, h2⟩, h3⟩, _⟩, h5⟩ := he
      split at h5
      · rename_i inp hinp
        have heoi : inp.eoi = false := by simpa using h5
        have := hL.init s inp hinp heoi a ha
        have hit : it = (g.rules.size + s, 0) := by
          rcases it with ⟨r, d⟩
          simp only at h1 h2 h3 ⊢
          rw [h1, h3]
          congr 1
          omega
        rw [hit]
        exact this
      · cases h5
    · -- first
      rename_i src _
      simp only [Bool.and_eq_true, List.contains_iff_mem] at he
      obtain ⟨hsrc, he⟩ := he
      split at he
      · rename_i beta hcs
        obtain ⟨x, rule, hx, hnt, hit, hr, hlhs, hbeta⟩ := closureStep_elim hcs
        have hf := firstOfSeq_sound (nullable_sound g) (firstSets_sound g) beta a he
        rw [hbeta] at hf
        have := hL.first s src x it.1 rule hsrc hx hnt hr hlhs a hf
        rw [hit]
        exact this
      · cases he
    · -- closure
      rename_i src _
      split at he
      · rename_i beta hcs
        simp only [Bool.and_eq_true, decide_eq_true_eq] at he
        obtain ⟨⟨hnull, hbit⟩, hrank⟩ := he
        obtain ⟨x, rule, hx, hnt, hit, hr, hlhs, hbeta⟩ := closureStep_elim hcs
        obtain ⟨_, _, _, _, hsrc⟩ := laGet_bit_mem hbit
        have hns := seqNullable_sound (nullable_sound g) hnull
        rw [hbeta] at hns
        have hsrcL := ih _ (hn ▸ hrank) s src a rfl hbit
        have := hL.null s src x it.1 rule hsrc hx hnt hr hlhs hns a hsrcL
        rw [hit]
        exact this
      · cases he
    · -- goto
      rename_i s' src _
      simp only [Bool.and_eq_true, beq_iff_eq] at he
      obtain ⟨hit, he⟩ := he
      split at he
      · rename_i x hx
        simp only [Bool.and_eq_true, beq_iff_eq, decide_eq_true_eq] at he
        obtain ⟨⟨hgo, hbit⟩, hrank⟩ := he
        obtain ⟨_, _, _, _, hsrc⟩ := laGet_bit_mem hbit
        have hsrcL := ih _ (hn ▸ hrank) s' src a rfl hbit
        have := hL.goto s' src x s hsrc hx hgo a hsrcL
        rw [hit]
        exact this
      · cases he

/-! ### the computed sets as a solution of the equations -/

theorem laClosedAt_of_laClosed' (g : Grammar) (t : Tables) (la : LA) (h : laClosed g t la = true)
    (s : Nat) (hs : s < la.size) (p : Item × Nat) (hp : p ∈ la.getD s []) :
    laClosedAt g t (nullable g) (firstSets g (nullable g)) la s p.1 = true := by
  unfold laClosed at h
  simp only [List.all_eq_true, List.mem_range] at h
  exact h s hs p hp

theorem la_solution {g : Grammar} {t : Tables} {la : LA} (hwf : g.wf = true)
    (hnf : nfClosed g = true) (hinit : laInitOk g la = true) (hc : laClosed g t la = true) :
    LASolution g t (laDom la) (laGet la) := by
  have hN := nfClosed_elim hwf hnf
  refine ⟨?_, ?_, ?_, ?_⟩
  · intro i inp hinp heoi a ha
    unfold laInitOk at hinit
    simp only [List.all_eq_true, List.mem_range] at hinit
    have hi : i < g.inputs.size := by
      rcases Nat.lt_or_ge i g.inputs.size with h' | h'
      · exact h'
      · rw [Array.getElem?_eq_none h'] at hinp; cases hinp
    have := hinit i hi
    rw [hinp] at this
    simp only [heoi, Bool.false_or] at this
    exact subMask_msub this a ((allTerms_testBit g a).mpr ha)
  · intro s it x q hdom hx hgo a hb
    obtain ⟨hs, p, hp, he⟩ := laDom_mem hdom
    have hcl := laClosedAt_of_laClosed' g t la hc s hs p hp
    rw [he] at hcl
    unfold laClosedAt at hcl
    simp only [hx, hgo, Bool.and_eq_true, Bool.or_eq_true, decide_eq_true_eq] at hcl
    rcases hcl.1 with h1 | h1
    · omega
    · have := subMask_msub h1 a hb
      simpa using this
  · intro s it x r rule hdom hx hnt hr hlhs a hf
    obtain ⟨hs, p, hp, he⟩ := laDom_mem hdom
    have hcl := laClosedAt_of_laClosed' g t la hc s hs p hp
    rw [he] at hcl
    unfold laClosedAt at hcl
    simp only [hx, Bool.and_eq_true, Bool.or_eq_true, decide_eq_true_eq, List.all_eq_true] at hcl
    rcases hcl.2 with h1 | h1
    · omega
    · have := subMask_msub (h1 r (mem_rulesOf.mpr ⟨rule, hr, hlhs⟩)) a
      apply this
      unfold closureContribution
      exact testBit_or_left _ (first_complete hN hf)
  · intro s it x r rule hdom hx hnt hr hlhs hns a hb
    obtain ⟨hs, p, hp, he⟩ := laDom_mem hdom
    have hcl := laClosedAt_of_laClosed' g t la hc s hs p hp
    rw [he] at hcl
    unfold laClosedAt at hcl
    simp only [hx, Bool.and_eq_true, Bool.or_eq_true, decide_eq_true_eq, List.all_eq_true] at hcl
    rcases hcl.2 with h1 | h1
    · omega
    · have := subMask_msub (h1 r (mem_rulesOf.mpr ⟨rule, hr, hlhs⟩)) a
      apply this
      unfold closureContribution
      apply testBit_or_right
      rw [seqNullable_complete hN hns, if_pos rfl]
      exact hb

end TmVerif.LRRef
