import TmVerif.Proofs.LexRunBasic
/-!
Decoding a text character by character: a character read from a prefix that contains it is the
character read from the whole text; the hash accumulated over the consumed characters is the
`runtimeHash` of the consumed text.
-/
namespace TmVerif.LexRun
open TmVerif.LexTables

theorem decodeRune_take (b0 : UInt8) (rest : List UInt8) (k : Nat)
    (h : (decodeRune (b0 :: rest)).2 ≤ k + 1) :
    decodeRune (b0 :: rest.take k) = decodeRune (b0 :: rest) := by
  rcases rest with _ | ⟨b1, _ | ⟨b2, _ | ⟨b3, r4⟩⟩⟩ <;> rcases k with _ | _ | _ | k <;>
    simp only [List.take_succ_cons, List.take_zero, List.take_nil] <;>
    (try rfl) <;>
    (revert h; simp only [decodeRune]; repeat' split) <;> simp_all <;> omega

/-- Reading a character from a prefix that is at least as long as the character. -/
theorem readChar_take (sb : Bool) (s : List UInt8) (k : Nat) (h : (readChar sb s).2 ≤ k) :
    readChar sb (s.take k) = readChar sb s := by
  cases s with
  | nil => simp
  | cons b rest =>
    have hw := (readChar_spec sb b rest).1
    obtain ⟨k, rfl⟩ : ∃ k', k = k' + 1 := ⟨k - 1, by omega⟩
    simp only [List.take_succ_cons]
    unfold readChar at h ⊢
    cases sb with
    | true => rfl
    | false =>
      simp only [Bool.false_eq_true, if_false] at h ⊢
      split
      · rename_i hb
        simp only [hb, if_true] at h
        exact decodeRune_take b rest k h
      · rfl

/-- The characters of a text, with widths. -/
def chars (sb : Bool) (s : List UInt8) : List (Int × Nat) := decodeAll sb s.length s

theorem decodeAll_nil (sb : Bool) (n : Nat) : decodeAll sb n [] = [] := by
  cases n <;> rfl

theorem decodeAll_fuel2 (sb : Bool) : ∀ (n m : Nat) (s : List UInt8), s.length ≤ n → s.length ≤ m →
    decodeAll sb n s = decodeAll sb m s := by
  intro n
  induction n with
  | zero =>
    intro m s h _
    have : s = [] := List.length_eq_zero_iff.mp (by omega)
    subst this
    rw [decodeAll_nil, decodeAll_nil]
  | succ n ih =>
    intro m s h hm
    cases s with
    | nil => rw [decodeAll_nil, decodeAll_nil]
    | cons b rest =>
      have hw := (readChar_spec sb b rest).1
      obtain ⟨m, rfl⟩ : ∃ m', m = m' + 1 := ⟨m - 1, by simp only [List.length_cons] at hm; omega⟩
      simp only [decodeAll]
      congr 1
      have hl : ((b :: rest).drop (readChar sb (b :: rest)).2).length ≤ rest.length := by
        simp only [List.length_drop, List.length_cons]; omega
      simp only [List.length_cons] at h hm
      exact ih m _ (by omega) (by omega)

theorem decodeAll_fuel (sb : Bool) (n : Nat) (s : List UInt8) (h : s.length ≤ n) :
    decodeAll sb n s = decodeAll sb s.length s := decodeAll_fuel2 sb n s.length s h (Nat.le_refl _)

theorem chars_nil (sb : Bool) : chars sb [] = [] := rfl

theorem chars_cons (sb : Bool) (b : UInt8) (rest : List UInt8) :
    chars sb (b :: rest) = readChar sb (b :: rest) :: chars sb ((b :: rest).drop (readChar sb (b :: rest)).2) := by
  have hw := (readChar_spec sb b rest).1
  unfold chars
  simp only [List.length_cons, decodeAll]
  congr 1
  apply decodeAll_fuel
  simp only [List.length_drop, List.length_cons]; omega

theorem runtimeHash_eq (sb : Bool) (s : List UInt8) :
    runtimeHash sb s = ((chars sb s).map (·.1)).foldl hashStep 0 := rfl

/-- `k` is the offset of a character boundary of `s` (as the lexer reads it). -/
inductive Boundary (sb : Bool) : List UInt8 → Nat → Prop
  | zero (s : List UInt8) : Boundary sb s 0
  | step (b : UInt8) (rest : List UInt8) (k : Nat) :
      Boundary sb ((b :: rest).drop (readChar sb (b :: rest)).2) k →
      Boundary sb (b :: rest) ((readChar sb (b :: rest)).2 + k)

theorem Boundary.le {sb : Bool} {s : List UInt8} {k : Nat} (h : Boundary sb s k) : k ≤ s.length := by
  induction h with
  | zero s => exact Nat.zero_le _
  | step b rest k _ ih =>
    have hw := (readChar_spec sb b rest).2.1
    simp only [List.length_drop, List.length_cons] at ih ⊢
    omega

/-- Appending the character that starts at a boundary. -/
theorem chars_take_extend (sb : Bool) {s : List UInt8} {k : Nat} (h : Boundary sb s k) :
    ∀ (b : UInt8) (rest : List UInt8), s.drop k = b :: rest →
    Boundary sb s (k + (readChar sb (b :: rest)).2) ∧
    chars sb (s.take (k + (readChar sb (b :: rest)).2)) = chars sb (s.take k) ++ [readChar sb (b :: rest)] := by
  induction h with
  | zero s =>
    intro b rest hd
    simp only [List.drop_zero] at hd
    subst hd
    have hw := readChar_spec sb b rest
    refine ⟨?_, ?_⟩
    · have := Boundary.step (sb := sb) b rest 0 (Boundary.zero _)
      simpa [Nat.add_comm] using this
    · simp only [Nat.zero_add, List.take_zero, chars_nil, List.nil_append]
      obtain ⟨w, hwe⟩ : ∃ w, (readChar sb (b :: rest)).2 = w + 1 := ⟨(readChar sb (b :: rest)).2 - 1, by omega⟩
      have hrt := readChar_take sb (b :: rest) (readChar sb (b :: rest)).2 (Nat.le_refl _)
      rw [hwe] at hrt ⊢
      simp only [List.take_succ_cons] at hrt ⊢
      rw [chars_cons, hrt, hwe]
      congr 1
      have : (b :: rest.take w).drop (w + 1) = [] := List.drop_eq_nil_of_le (by simp; omega)
      rw [this]; rfl
  | step b0 rest0 k' hb ih =>
    intro b rest hd
    have hw0 := readChar_spec sb b0 rest0
    rw [← List.drop_drop] at hd
    obtain ⟨i1, i2⟩ := ih b rest hd
    refine ⟨?_, ?_⟩
    · have := Boundary.step (sb := sb) b0 rest0 _ i1
      simpa [Nat.add_assoc] using this
    · -- both prefixes start with the first character of `b0 :: rest0`
      have key : ∀ n, chars sb ((b0 :: rest0).take ((readChar sb (b0 :: rest0)).2 + n)) =
          readChar sb (b0 :: rest0) :: chars sb (((b0 :: rest0).drop (readChar sb (b0 :: rest0)).2).take n) := by
        intro n
        obtain ⟨w, hwe⟩ : ∃ w, (readChar sb (b0 :: rest0)).2 = w + 1 := ⟨(readChar sb (b0 :: rest0)).2 - 1, by omega⟩
        have hrt := readChar_take sb (b0 :: rest0) ((readChar sb (b0 :: rest0)).2 + n) (by omega)
        have hshape : (b0 :: rest0).take ((readChar sb (b0 :: rest0)).2 + n) = b0 :: rest0.take (w + n) := by
          rw [hwe, show w + 1 + n = (w + n) + 1 by omega, List.take_succ_cons]
        rw [hshape] at hrt ⊢
        rw [chars_cons, hrt]
        congr 1
        rw [← hshape, List.drop_take]
        congr 2
        omega
      rw [Nat.add_assoc, key, key, i2]
      rfl

/-- The run-time hash over the consumed text grows by `hashStep` with every consumed character. -/
theorem runtimeHash_extend (sb : Bool) {s : List UInt8} {k : Nat} (h : Boundary sb s k)
    (b : UInt8) (rest : List UInt8) (hd : s.drop k = b :: rest) :
    runtimeHash sb (s.take (k + (readChar sb (b :: rest)).2)) =
      hashStep (runtimeHash sb (s.take k)) (readChar sb (b :: rest)).1 := by
  rw [runtimeHash_eq, runtimeHash_eq, (chars_take_extend sb h b rest hd).2]
  simp [List.foldl_append]

end TmVerif.LexRun
