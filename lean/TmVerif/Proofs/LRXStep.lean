import TmVerif.Proofs.LRX
/-!
Facts about one loop iteration of the extended runtime (`xpre`, `xstep`): it acts by elementary
moves, how it depends on `cancelAt`, on the recovery parameters, and what it does to `shiftCounter`.
-/
namespace TmVerif.LRX
open TmVerif.LR

/-! ### one iteration acts by moves -/

theorem xreduceTail_moves (x : XTables) (inp : Input) (b : Bool × Bool) (c2 : XCfg) (rule : Int) (ln : Nat)
    (lhs : Int) (off endo : Nat) : Moves inp b c2 (xreduceTail x c2 rule ln lhs off endo).cfg := by
  unfold xreduceTail
  split
  · exact .refl _
  · next evs endo' h =>
    have hn : ∀ e ∈ evs.reverse, e.isNode = true := by
      intro e he; exact applyRuleEvents_nodes h e (List.mem_reverse.1 he)
    have h1 : Moves inp b c2 { c2 with evs := evs.reverse ++ c2.evs } := .single (.emitNodes _ _ _ hn)
    split
    · exact h1
    · split
      · exact h1
      · split
        · exact h1.tail (.setStack _ _ _ _)
        · exact h1.tail (.setStack _ _ _ _)

theorem xreducePre_moves (x : XTables) (inp : Input) (b : Bool × Bool) (c1 : XCfg) (rule : Int) :
    Moves inp b c1 (xreducePre x inp c1 rule).cfg := by
  unfold xreducePre
  split
  · split
    · exact .refl _
    · split
      · exact (fetch_moves inp b c1).trans (xreduceTail_moves ..)
      · exact xreduceTail_moves ..
  · exact .refl _

theorem xshiftPre_moves (x : XTables) (inp : Input) (e : Bool) (k : Nat) (c1 : XCfg) (q : Int) :
    Moves inp (true, e) c1 (xshiftPre x k c1 q).cfg := by
  unfold xshiftPre
  split
  · exact .single (.bump _ _ _)
  · split
    · exact .refl _
    · next tk h => exact .single (.shift _ _ _ _ _ h)

theorem xerrorPre_moves (x : XTables) (inp : Input) (e : Bool) (k : Nat) (c1 : XCfg) :
    Moves inp (true, e) c1 (xerrorPre x k c1).cfg := by
  unfold xerrorPre
  split
  · split
    · exact .single (.bump _ _ _)
    · exact .single (.bump _ _ _)
  · exact .refl _

theorem xpre_moves (x : XTables) (inp : Input) (e : Bool) (k : Nat) (c : XCfg) :
    Moves inp (true, e) c (xpre x inp k c).cfg := by
  unfold xpre
  split
  · exact .refl _
  · next h => exact (xdecode_moves (true, e) h).trans (xreducePre_moves ..)
  · next h => exact (xdecode_moves (true, e) h).trans (xshiftPre_moves ..)
  · next h => exact (xdecode_moves (true, e) h).trans (xerrorPre_moves ..)

theorem XPre.run_cfg_moves {x : XTables} (inp : Input) (fin : Int) (stop : Bool) (p : XPre) :
    Moves inp (true, true) p.cfg (p.run (onError x inp fin stop)).cfg := by
  cases p with
  | cont c => exact .refl _
  | done r c => exact .refl _
  | err c => exact onError_moves inp true fin stop c

theorem xstep_moves (x : XTables) (inp : Input) (fin : Int) (stop : Bool) (k : Nat) (c : XCfg) :
    Moves inp (true, true) c (xstep x inp fin stop k c).cfg := by
  rw [xstep_pre]
  exact (xpre_moves x inp true k c).trans (XPre.run_cfg_moves inp fin stop _)

theorem xrunLoop_moves (x : XTables) (inp : Input) (fin : Int) (stop : Bool) (k : Nat) (fuel : Nat)
    (c : XCfg) : Moves inp (true, true) c (xrunLoop x inp fin stop k fuel c).2 := by
  induction fuel generalizing c with
  | zero => exact .refl _
  | succ n ih =>
    unfold xrunLoop
    split
    · exact .refl _
    · have h := xstep_moves x inp fin stop k c
      split
      · next c' hs => rw [hs] at h; exact h.trans (ih c')
      · next r c' hs => rw [hs] at h; exact h

/-! ### dependence on `cancelAt` -/

theorem xdecode_evs {x : XTables} {inp : Input} {c c1 : XCfg} {a : Act}
    (h : xdecode x inp c = some (c1, a)) : c1.evs = c.evs := by
  rcases xdecode_cases h with h | h
  · rw [h]
  · rw [h, fetch_evs]

theorem xdecode_shiftCounter {x : XTables} {inp : Input} {c c1 : XCfg} {a : Act}
    (h : xdecode x inp c = some (c1, a)) : c1.shiftCounter = c.shiftCounter := by
  rcases xdecode_cases h with h | h
  · rw [h]
  · rw [h, fetch_shiftCounter]

theorem not_pollHit_zero (c : XCfg) : ¬ pollHit 0 c := by
  unfold pollHit; intro h; exact h.2.1 rfl

theorem xpre_cancel (x : XTables) (inp : Input) (k : Nat) (c : XCfg) :
    xpre x inp k c = xpre x inp 0 c ∨
      ∃ c', xpre x inp k c = .done .cancelled c' ∧ c'.evs = c.evs := by
  unfold xpre
  split
  · exact .inl rfl
  · exact .inl rfl
  · next c1 q h =>
    have he : c1.evs = c.evs := xdecode_evs h
    have h0 : ¬ (x.cancellable = true ∧ pollHit 0 c1) := fun h0 => not_pollHit_zero c1 h0.2
    unfold xshiftPre
    by_cases hp : x.cancellable = true ∧ pollHit k c1
    · right
      exact ⟨{ c1 with shiftCounter := c1.shiftCounter + 1 }, if_pos hp, he⟩
    · left
      rw [if_neg hp, if_neg h0]
  · next c1 h =>
    have he : c1.evs = c.evs := xdecode_evs h
    have h0 : ¬ pollHit 0 c1 := not_pollHit_zero c1
    unfold xerrorPre
    by_cases hf : failedShift x c1 = true
    · by_cases hp : pollHit k c1
      · right
        exact ⟨{ c1 with shiftCounter := c1.shiftCounter + 1 }, by rw [if_pos hf, if_pos hp], he⟩
      · left
        rw [if_pos hf, if_pos hf, if_neg hp, if_neg h0]
    · left
      rw [if_neg hf, if_neg hf]

theorem xstep_cancel (x : XTables) (inp : Input) (fin : Int) (stop : Bool) (k : Nat) (c : XCfg) :
    xstep x inp fin stop k c = xstep x inp fin stop 0 c ∨
      ∃ c', xstep x inp fin stop k c = .done .cancelled c' ∧ c'.evs = c.evs := by
  rw [xstep_pre, xstep_pre]
  rcases xpre_cancel x inp k c with h | ⟨c', h, he⟩
  · left; rw [h]
  · right; exact ⟨c', by rw [h]; rfl, he⟩

end TmVerif.LRX
