import TmVerif.Proofs.LexRunBasic
/-!
The scanning loop of the generated `Next` under `TablesWF`: it neither panics nor runs out of fuel,
keeps the position invariant, and ends in a final action; a token that is not "no match" has
consumed at least one character.
-/
namespace TmVerif.LexRun
open TmVerif.LexTables

theorem getI_all {α : Type} (a : Array α) (p : α → Bool) (h : a.all p = true) (i : Int) (e : α)
    (hg : getI a i = some e) : p e = true := by
  unfold getI at hg
  split at hg
  · rw [Array.all_eq_true] at h
    obtain ⟨hlt, he⟩ := Array.getElem?_eq_some_iff.mp hg
    rw [← he]; exact h _ hlt
  · exact nomatch hg

theorem getI_some {α : Type} (a : Array α) (i : Int) (h0 : 0 ≤ i) (h1 : i < a.size) :
    ∃ e, getI a i = some e := by
  unfold getI
  simp only [h0, if_true]
  have : i.toNat < a.size := by omega
  exact ⟨a[i.toNat], Array.getElem?_eq_getElem this⟩

/-- "No match" as a table entry. -/
def invCode (sp : Spec) : Int := actionStart sp.t - invalidAct sp

theorem isInvalid_iff (sp : Spec) (a : Int) : isInvalid sp a = true ↔ a = invalidAct sp := by
  unfold isInvalid invalidAct
  cases sp.ruleToken <;> simp

/-- The facts `tablesWF sp [] = true` provides. -/
structure WFacts (sp : Spec) : Prop where
  ns_pos : 0 < sp.t.numSymbols
  size : sp.t.dfa.size = numStates sp.t * sp.t.numSymbols.toNat
  sb : sp.t.scanBytes = sp.opts.scanBytes
  dfa_ok : ∀ i e, getI sp.t.dfa i = some e → e < (numStates sp.t : Int) ∧
    (e > actionStart sp.t ∨ e = invCode sp ∨ actOk sp [] (actionStart sp.t - e) = true)
  sm_ok : ∀ i e, getI sp.t.stateMap i = some e → 0 ≤ e ∧ e < (numStates sp.t : Int)
  bt_ok : ∀ i c, getI sp.t.backtrack i = some c →
    0 ≤ c.nextState ∧ c.nextState < (numStates sp.t : Int) ∧ actOk sp [] c.action = true
  cm_ok : classMapInRange sp.cm sp.t.numSymbols = true
  start_ok : ∀ s ∈ startStates sp, startRowOk sp [] s = true
  start_ne : (startStates sp).isEmpty = false
  eoi_ok : ∀ s, s < numStates sp.t → (eoiChain sp.t (numStates sp.t + 1) (s : Int)).isSome = true
  inv_nonneg : 0 ≤ invalidAct sp
  inv_tok : ∃ t, tokenOf sp (invalidAct sp) = some t ∧ t ≠ 0
  space_ok : sp.spaceActions.contains (invalidAct sp) = false
  class_ok : ∀ a m, (a, m) ∈ sp.classActions →
    isInvalid sp a = false ∧ keysNodup m = true ∧ ∀ k x, (k, x) ∈ m → actOk sp [] x = true

theorem wfacts_of (sp : Spec) (h : tablesWF sp [] = true) : WFacts sp := by
  simp only [tablesWF, Bool.and_eq_true, decide_eq_true_eq, Bool.not_eq_true',
    List.all_eq_true, List.mem_range] at h
  obtain ⟨⟨⟨⟨⟨⟨⟨⟨⟨⟨⟨⟨h1, h2⟩, h3⟩, h4⟩, h5⟩, h6⟩, h7⟩, h8⟩, h9⟩, h10⟩, h11⟩, h12⟩, h13⟩ := h
  simp only [Tables.wf, Bool.and_eq_true, decide_eq_true_eq] at h1
  obtain ⟨⟨⟨⟨⟨⟨w1, _⟩, _⟩, _⟩, w5⟩, w6⟩, w7⟩ := h1
  refine ⟨w1, h2, h3, ?_, ?_, ?_, h6, h9, h10, h11, h4, ?_, h12, ?_⟩
  · intro i e hg
    have a := getI_all _ _ w5 i e hg
    have b := getI_all _ _ h7 i e hg
    simp only [decide_eq_true_eq] at a
    refine ⟨a, ?_⟩
    simp only [Bool.or_eq_true, decide_eq_true_eq, beq_iff_eq] at b
    unfold invCode
    rcases b with (b | b) | b
    · exact Or.inl b
    · exact Or.inr (Or.inl b)
    · exact Or.inr (Or.inr b)
  · intro i e hg
    have a := getI_all _ _ w6 i e hg
    simpa using a
  · intro i c hg
    have a := getI_all _ _ w7 i c hg
    have b := getI_all _ _ h8 i c hg
    simp only [Bool.and_eq_true, decide_eq_true_eq] at a
    exact ⟨a.1, a.2, b⟩
  · cases ht : tokenOf sp (invalidAct sp) with
    | none => rw [ht] at h5; simp at h5
    | some t => rw [ht] at h5; exact ⟨t, rfl, by simpa using h5⟩
  · intro a m hm
    have := h13 (a, m) hm
    simp only [Bool.and_eq_true, Bool.not_eq_true', List.all_eq_true] at this
    refine ⟨this.1.1, this.1.2, ?_⟩
    intro k x hkx
    exact this.2 (k, x) hkx

/-! ### table lookups cannot panic -/

theorem numSymbols_cast (sp : Spec) (w : WFacts sp) : ((sp.t.numSymbols.toNat : Nat) : Int) = sp.t.numSymbols := by
  have := w.ns_pos
  omega

theorem dfa_lookup (sp : Spec) (w : WFacts sp) (q c : Int) (hq0 : 0 ≤ q) (hq : q < (numStates sp.t : Int))
    (hc0 : 0 ≤ c) (hc : c < sp.t.numSymbols) : ∃ e, getI sp.t.dfa (q * sp.t.numSymbols + c) = some e := by
  apply getI_some
  · have := Int.mul_nonneg hq0 (Int.le_of_lt w.ns_pos)
    omega
  · rw [w.size]
    have h1 : q * sp.t.numSymbols ≤ ((numStates sp.t : Int) - 1) * sp.t.numSymbols :=
      Int.mul_le_mul_of_nonneg_right (by omega) (Int.le_of_lt w.ns_pos)
    have h2 : ((numStates sp.t : Int) - 1) * sp.t.numSymbols = (numStates sp.t : Int) * sp.t.numSymbols - sp.t.numSymbols := by
      rw [Int.sub_mul]; omega
    have h3 : ((numStates sp.t * sp.t.numSymbols.toNat : Nat) : Int) = (numStates sp.t : Int) * sp.t.numSymbols := by
      rw [Int.natCast_mul, numSymbols_cast sp w]
    omega

theorem mapRuneLoop_range (m : ClassMap) (ns : Int) (h : classMapInRange m ns = true) (c : Int) :
    ∀ fuel lo hi, 0 ≤ mapRuneLoop m c fuel lo hi ∧ mapRuneLoop m c fuel lo hi < ns := by
  simp only [classMapInRange, Bool.and_eq_true, decide_eq_true_eq, Array.all_eq_true] at h
  obtain ⟨⟨_, hl⟩, hr⟩ := h
  intro fuel
  induction fuel with
  | zero => intro lo hi; simp only [mapRuneLoop]; exact hl
  | succ fuel ih =>
    intro lo hi
    simp only [mapRuneLoop]
    split
    · split
      · exact hl
      · rename_i r hr'
        obtain ⟨hlt, he⟩ := Array.getElem?_eq_some_iff.mp hr'
        have hrr := hr _ hlt
        rw [he] at hrr
        split
        · exact ih _ _
        · split
          · exact ih _ _
          · split
            · rename_i hi'
              exact hrr.2 _ hi'
            · exact hrr.1
    · exact hl

theorem classOf_range (m : ClassMap) (ns : Int) (h : classMapInRange m ns = true) (c : Int) :
    0 ≤ classOf m c ∧ classOf m c < ns := by
  unfold classOf
  split
  · rename_i hlt
    simp only [classMapInRange, Bool.and_eq_true, decide_eq_true_eq, Array.all_eq_true] at h
    exact h.1.1 _ hlt
  · split
    · exact mapRuneLoop_range m ns h c _ _ _
    · simp only [classMapInRange, Bool.and_eq_true, decide_eq_true_eq] at h
      exact h.1.2

/-! ### the loop invariant -/

/-- A final table entry: an action that is "no match" or usable. -/
def FinalOk (sp : Spec) (e : Int) : Prop :=
  e ≤ actionStart sp.t ∧ (e = invCode sp ∨ actOk sp [] (actionStart sp.t - e) = true)

/-- Row of a state in which no character has been consumed yet. -/
def RowOk (sp : Spec) (q : Int) : Prop :=
  ∀ c : Int, 0 ≤ c → c < sp.t.numSymbols → ∀ e, getI sp.t.dfa (q * sp.t.numSymbols + c) = some e →
    0 ≤ e ∨ e = invCode sp

/-- At the end of the input the EOI column leads from `q` to "no match" without a checkpoint. -/
def EoiInv (sp : Spec) (q : Int) : Prop := ∃ f, eoiChainNC sp.t f q = some (invalidAct sp)

structure LInv (sp : Spec) (s : Scan) (l : Lexer) : Prop where
  pinv : PInv sp.opts sp.v l
  tok_le : l.tokenOffset ≤ l.offset
  st_lt : s.state < (numStates sp.t : Int)
  st_fin : s.state < 0 → FinalOk sp s.state
  bk : s.backup = -1 ∨ (actOk sp [] s.backup = true ∧ l.tokenOffset < s.backupOffset ∧ s.backupOffset ≤ l.offset)
  fresh : l.offset = l.tokenOffset → s.backup = -1 ∧ (s.state < 0 → s.state = invCode sp) ∧
    (0 ≤ s.state → (0 ≤ l.ch → RowOk sp s.state) ∧ (l.ch < 0 → EoiInv sp s.state))

/-- What the loop never changes. -/
structure Stable (l l' : Lexer) : Prop where
  source : l'.source = l.source
  tokenOffset : l'.tokenOffset = l.tokenOffset
  state : l'.state = l.state
  tokenLine : l'.tokenLine = l.tokenLine
  tokenColumn : l'.tokenColumn = l.tokenColumn
  mono : l.offset ≤ l'.offset

theorem Stable.refl (l : Lexer) : Stable l l := ⟨rfl, rfl, rfl, rfl, rfl, Nat.le_refl _⟩

theorem Stable.trans {a b c : Lexer} (h1 : Stable a b) (h2 : Stable b c) : Stable a c :=
  ⟨h2.source.trans h1.source, h2.tokenOffset.trans h1.tokenOffset, h2.state.trans h1.state,
   h2.tokenLine.trans h1.tokenLine, h2.tokenColumn.trans h1.tokenColumn, Nat.le_trans h1.mono h2.mono⟩

theorem loop_final (sp : Spec) (fuel : Nat) (s : Scan) (l : Lexer) (h : s.state < 0) :
    loop sp (fuel + 1) s l = some (s, l) := by
  simp [loop, h]

theorem finalOk_of_dfa (sp : Spec) (w : WFacts sp) (i e : Int) (hg : getI sp.t.dfa i = some e)
    (he : e ≤ actionStart sp.t) : FinalOk sp e := by
  refine ⟨he, ?_⟩
  rcases (w.dfa_ok i e hg).2 with h | h | h
  · omega
  · exact Or.inl h
  · exact Or.inr h

theorem actionStart_neg (t : Tables) : actionStart t < 0 := by
  unfold actionStart; omega

/-- The end-of-input phase of the loop. -/
theorem loop_eoi (sp : Spec) (w : WFacts sp) : ∀ (f fuel : Nat) (s : Scan) (l : Lexer),
    LInv sp s l → l.ch < 0 → 0 ≤ s.state → (eoiChain sp.t f s.state).isSome = true → f + 1 ≤ fuel →
    ∃ s', loop sp fuel s l = some (s', l) ∧ LInv sp s' l ∧ s'.state < 0 := by
  intro f
  induction f with
  | zero => intro fuel s l _ _ _ hc _; simp [eoiChain] at hc
  | succ f ih =>
    intro fuel s l inv hch hs hc hfuel
    obtain ⟨fuel, rfl⟩ : ∃ k, fuel = k + 1 := ⟨fuel - 1, by omega⟩
    obtain ⟨st, hst⟩ := dfa_lookup sp w s.state 0 hs inv.st_lt (Int.le_refl _) w.ns_pos
    rw [Int.add_zero] at hst
    simp only [eoiChain, hst] at hc
    have hns : ¬ s.state < 0 := by omega
    simp only [loop, hns, if_false, hch, if_true, hst]
    by_cases hfin : st ≤ actionStart sp.t
    · -- final action
      have hnc : ¬ (st > actionStart sp.t ∧ st < 0) := by omega
      simp only [hnc, if_false]
      have hfuel' : ∃ k, fuel = k + 1 := ⟨fuel - 1, by omega⟩
      obtain ⟨k, rfl⟩ := hfuel'
      have hneg : st < 0 := by have := actionStart_neg sp.t; omega
      refine ⟨{ s with state := st }, loop_final sp k _ l hneg, ?_, hneg⟩
      refine ⟨inv.pinv, inv.tok_le, by show st < _; omega, fun _ => finalOk_of_dfa sp w _ st hst hfin, inv.bk, ?_⟩
      intro heq
      obtain ⟨hb, _, h3⟩ := inv.fresh heq
      refine ⟨hb, ?_, fun h0 => absurd h0 (by show ¬ 0 ≤ st; omega)⟩
      intro _
      obtain ⟨f', hf'⟩ := (h3 hs).2 hch
      cases f' with
      | zero => simp [eoiChainNC] at hf'
      | succ f' =>
        simp only [eoiChainNC, hst, hfin, if_true, Option.some.injEq] at hf'
        show st = invCode sp
        unfold invCode; omega
    · simp only [hfin, if_false] at hc
      by_cases hneg : st < 0
      · -- checkpoint
        have hcp : st > actionStart sp.t ∧ st < 0 := ⟨by omega, hneg⟩
        simp only [hcp, and_self, if_true, hneg] at hc ⊢
        cases hbt : getI sp.t.backtrack (-1 - st) with
        | none => rw [hbt] at hc; simp at hc
        | some bt =>
          rw [hbt] at hc
          simp only at hc
          obtain ⟨b1, b2, b3⟩ := w.bt_ok _ bt hbt
          simp only [takeCheckpoint, hbt, Option.map_some]
          have hne : l.offset ≠ l.tokenOffset := by
            intro heq
            obtain ⟨_, _, h3⟩ := inv.fresh heq
            obtain ⟨f', hf'⟩ := (h3 hs).2 hch
            cases f' with
            | zero => simp [eoiChainNC] at hf'
            | succ f' => simp [eoiChainNC, hst, hfin, hneg] at hf'
          have hlt : l.tokenOffset < l.offset := by have := inv.tok_le; omega
          apply ih fuel _ l ?_ hch b1 hc (by omega)
          exact ⟨inv.pinv, inv.tok_le, b2, fun h => absurd h (by show ¬ bt.nextState < 0; omega),
            Or.inr ⟨b3, hlt, Nat.le_refl _⟩, fun heq => absurd heq hne⟩
      · -- plain transition on EOI
        have hnc : ¬ (st > actionStart sp.t ∧ st < 0) := by omega
        simp only [hneg, if_false] at hc
        simp only [hnc, if_false]
        apply ih fuel _ l ?_ hch (by show 0 ≤ st; omega) hc (by omega)
        refine ⟨inv.pinv, inv.tok_le, (w.dfa_ok _ st hst).1, fun h => absurd h (by show ¬ st < 0; omega), inv.bk, ?_⟩
        intro heq
        obtain ⟨hb, _, h3⟩ := inv.fresh heq
        refine ⟨hb, fun h => absurd h (by show ¬ st < 0; omega), fun _ => ⟨fun h0 => absurd hch (by omega), fun _ => ?_⟩⟩
        obtain ⟨f', hf'⟩ := (h3 hs).2 hch
        cases f' with
        | zero => simp [eoiChainNC] at hf'
        | succ f' =>
          simp only [eoiChainNC, hst, hfin, if_false, hneg] at hf'
          exact ⟨f', hf'⟩

theorem invCode_le (sp : Spec) (w : WFacts sp) : invCode sp ≤ actionStart sp.t := by
  have := w.inv_nonneg
  unfold invCode; omega

/-- The loop of `Next` terminates without a panic in a final action and keeps the invariant. -/
theorem loop_total (sp : Spec) (w : WFacts sp) : ∀ (fuel : Nat) (s : Scan) (l : Lexer),
    LInv sp s l → (l.source.length - l.offset) + numStates sp.t + 4 ≤ fuel →
    ∃ s' l', loop sp fuel s l = some (s', l') ∧ LInv sp s' l' ∧ s'.state < 0 ∧ Stable l l' := by
  intro fuel
  induction fuel with
  | zero => intro s l _ h; omega
  | succ fuel ih =>
    intro s l inv hfuel
    by_cases hs : s.state < 0
    · exact ⟨s, l, loop_final sp fuel s l hs, inv, hs, Stable.refl l⟩
    · have hs0 : 0 ≤ s.state := by omega
      by_cases hch : l.ch < 0
      · have hn : s.state.toNat < numStates sp.t := by have := inv.st_lt; omega
        have he := w.eoi_ok _ hn
        rw [show ((s.state.toNat : Nat) : Int) = s.state by omega] at he
        obtain ⟨s', h1, h2, h3⟩ := loop_eoi sp w _ (fuel + 1) s l inv hch hs0 he (by omega)
        exact ⟨s', l, h1, h2, h3, Stable.refl l⟩
      · have hch0 : 0 ≤ l.ch := by omega
        obtain ⟨c0, c1⟩ := classOf_range sp.cm sp.t.numSymbols w.cm_ok l.ch
        obtain ⟨e, he⟩ := dfa_lookup sp w s.state _ hs0 inv.st_lt c0 c1
        simp only [loop, hs, if_false, hch, he]
        obtain ⟨p1, p2, p3, p4, p5, p6, p7, p8, p9⟩ := consume_pinv sp.opts sp.v l inv.pinv hch0
        have hstab : Stable l (consume sp.opts sp.v l) := ⟨p5, p6, p7, p8, p9, by omega⟩
        have htl := inv.tok_le
        by_cases hgt : e > actionStart sp.t
        · simp only [hgt, if_true]
          have hmeasure : ((consume sp.opts sp.v l).source.length - (consume sp.opts sp.v l).offset) + numStates sp.t + 4 ≤ fuel := by
            rw [p5, p2]; omega
          by_cases hneg : e < 0
          · -- checkpoint
            simp only [hneg, if_true]
            obtain ⟨bt, hbt⟩ := getI_some sp.t.backtrack (-1 - e) (by omega) (by unfold actionStart at hgt; omega)
            obtain ⟨b1, b2, b3⟩ := w.bt_ok _ bt hbt
            simp only [takeCheckpoint, hbt, Option.map_some]
            have hne : l.offset ≠ l.tokenOffset := by
              intro heq
              obtain ⟨_, _, h3⟩ := inv.fresh heq
              have := (h3 hs0).1 hch0 _ c0 c1 e he
              have := invCode_le sp w
              omega
            have hlt : l.tokenOffset < l.offset := by have := inv.tok_le; omega
            have linv : LInv sp ⟨bt.nextState, hashStep s.hash l.ch, bt.action, l.offset, s.hash⟩ (consume sp.opts sp.v l) := by
              refine ⟨p1, by rw [p6, p2]; omega, b2, fun h => absurd h (by show ¬ bt.nextState < 0; omega),
                Or.inr ⟨b3, by rw [p6]; exact hlt, by rw [p2]; exact Nat.le_of_lt p3⟩, ?_⟩
              intro heq; rw [p6, p2] at heq; omega
            obtain ⟨s', l', r1, r2, r3, r4⟩ := ih _ _ linv hmeasure
            exact ⟨s', l', r1, r2, r3, hstab.trans r4⟩
          · simp only [hneg, if_false]
            have linv : LInv sp { s with state := e, hash := hashStep s.hash l.ch } (consume sp.opts sp.v l) := by
              refine ⟨p1, by rw [p6, p2]; omega, (w.dfa_ok _ e he).1, fun h => absurd h (by show ¬ e < 0; omega), ?_, ?_⟩
              · rcases inv.bk with hb | ⟨hb1, hb2, hb3⟩
                · exact Or.inl hb
                · exact Or.inr ⟨hb1, by rw [p6]; exact hb2, by rw [p2]; show s.backupOffset ≤ _; omega⟩
              · intro heq; rw [p6, p2] at heq; omega
            obtain ⟨s', l', r1, r2, r3, r4⟩ := ih _ _ linv hmeasure
            exact ⟨s', l', r1, r2, r3, hstab.trans r4⟩
        · simp only [hgt, if_false]
          have hle : e ≤ actionStart sp.t := by omega
          have hneg : e < 0 := by have := actionStart_neg sp.t; omega
          obtain ⟨k, rfl⟩ : ∃ k, fuel = k + 1 := ⟨fuel - 1, by omega⟩
          refine ⟨{ s with state := e }, l, loop_final sp k _ l hneg, ?_, hneg, Stable.refl l⟩
          refine ⟨inv.pinv, inv.tok_le, by show e < _; omega, fun _ => finalOk_of_dfa sp w _ e he hle, inv.bk, ?_⟩
          intro heq
          obtain ⟨hb, _, h3⟩ := inv.fresh heq
          refine ⟨hb, fun _ => ?_, fun h0 => absurd h0 (by show ¬ 0 ≤ e; omega)⟩
          show e = invCode sp
          rcases (h3 hs0).1 hch0 _ c0 c1 e he with h | h
          · omega
          · exact h

end TmVerif.LexRun
