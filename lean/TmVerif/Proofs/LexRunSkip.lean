import TmVerif.Proofs.LexRunBasic
/-!
`parsers/tm/lexer_actions.go: skipAction` (mirror `skipLoop`): with the newline bookkeeping of
fixes/C12-skipaction-line.diff the position invariant survives the code block.
-/
namespace TmVerif.LexRun
open TmVerif.LexTables

/-- Advancing over the current character after some newline bookkeeping `lb` of `l`. -/
theorem advance_pinv (o : Opts) (v : Variant) (l lb : Lexer) (h : PInv o v l) (hc : 0 ≤ l.ch)
    (e1 : lb.source = l.source) (e3 : lb.scanOffset = l.scanOffset)
    (hline : o.tokenLine = true → lb.line = l.line + (if l.ch = 10 then 1 else 0))
    (hlo : o.hasLineOffset = true → (o.tokenLine = true ∨ v.colFix = true) →
      if l.ch = 10 then (lb.lineOffset = (l.scanOffset : Int) ∨ (v.colFix = false ∧ lb.lineOffset = (l.offset : Int)))
      else lb.lineOffset = l.lineOffset) :
    PInv o v (readCh o { lb with offset := lb.scanOffset }) ∧
    (readCh o { lb with offset := lb.scanOffset }).offset = l.scanOffset ∧ l.offset < l.scanOffset ∧
    (readCh o { lb with offset := lb.scanOffset }).source = l.source := by
  have hlt : l.offset < l.source.length := by
    rcases Nat.lt_or_ge l.offset l.source.length with h' | h'
    · exact h'
    · have := h.ch_neg_iff.mpr (by have := h.le; omega)
      omega
  obtain ⟨p1, p2, p3, p4, p5⟩ := peek_lt o.scanBytes l.source l.offset hlt
  rw [← h.ch] at p1 p4 p5
  rw [← h.so] at p2 p3 p4 p5
  generalize hl0 : ({ lb with offset := lb.scanOffset } : Lexer) = l0
  have f1 : l0.source = l.source := by subst hl0; exact e1
  have f2 : l0.offset = l.scanOffset := by subst hl0; exact e3
  have f3 : l0.scanOffset = l.scanOffset := by subst hl0; exact e3
  have f8 : l0.line = lb.line := by subst hl0; rfl
  have f9 : l0.lineOffset = lb.lineOffset := by subst hl0; rfl
  obtain ⟨_, _, r3, r4, _⟩ := readCh_spec o l0 (by rw [f3, f2])
  have hcount := countNL_take_add l.source l.offset (l.scanOffset - l.offset)
  rw [Nat.add_sub_cancel' (Nat.le_of_lt p2)] at hcount
  refine ⟨readCh_pinv o v l0 (by rw [f3, f2]) (by rw [f1, f2]; exact p3) ?_ ?_, by rw [r4, f2], p2, by rw [r3, f1]⟩
  · intro ht
    have hl := h.line ht
    rw [f8, f1, f2, hcount, p4, hline ht]
    split <;> simp <;> omega
  · intro ha hb
    have hl := h.lo ha hb
    have hlo' := hlo ha hb
    unfold LineOffsetOk at hl ⊢
    rw [f9, f1, f2]
    have hls := lineStart_add l.source l.offset (l.scanOffset - l.offset) h.le
    rw [Nat.add_sub_cancel' (Nat.le_of_lt p2)] at hls
    by_cases hnl : l.ch = 10
    · have hw := p5 hnl
      have hchunk : countNL ((l.source.drop l.offset).take 1) = 1 := by
        have := p4; rw [hw] at this; simpa [hnl] using this
      have hls' : lineStart l.source l.scanOffset = l.offset + 1 := by
        rw [hls, hw]
        simp only [Nat.add_sub_cancel_left]
        cases hd : l.source.drop l.offset with
        | nil => rw [hd] at hchunk; simp [countNL] at hchunk
        | cons b rest =>
          rw [hd] at hchunk
          simp only [List.take_succ_cons, List.take_zero] at hchunk ⊢
          have hb10 : b = 10 := by
            unfold countNL at hchunk
            rw [List.count_cons] at hchunk
            by_cases hne : b = 10
            · exact hne
            · simp [hne] at hchunk
          simp [lineStartAux, hb10]
      rw [hls']
      simp only [hnl, if_true] at hlo'
      rcases hlo' with hlo' | ⟨hcf, hlo'⟩
      · rw [hlo', hw]
        split
        · simp
        · left; simp
      · rw [hlo']
        simp [hcf]
    · have hz : countNL ((l.source.drop l.offset).take (l.scanOffset - l.offset)) = 0 := by
        rw [p4]; simp [hnl]
      rw [hls, lineStartAux_noNL _ _ _ hz]
      simp only [hnl, if_false] at hlo'
      rw [hlo']
      exact hl

/-- `strings.Index`: a hit leaves room for the pattern. -/
theorem indexOf_bound (pat : List UInt8) : ∀ (s : List UInt8) (e : Nat), indexOf pat s = some e →
    e + pat.length ≤ s.length := by
  intro s
  induction s with
  | nil => intro e h; simp [indexOf] at h
  | cons b rest ih =>
    intro e h
    simp only [indexOf] at h
    split at h
    · rename_i hp
      simp only [Option.some.injEq] at h
      subst h
      have := List.IsPrefix.length_le (List.isPrefixOf_iff_prefix.mp hp)
      simpa using this
    · cases hi : indexOf pat rest with
      | none => rw [hi] at h; simp at h
      | some e' =>
        rw [hi] at h
        simp only [Option.map_some, Option.some.injEq] at h
        subst h
        have := ih e' hi
        simp only [List.length_cons]
        omega

theorem skipAdvance_false (o : Opts) (v : Variant) (l : Lexer) :
    skipAdvance o v false l = readCh o { l with offset := l.scanOffset } := by
  unfold skipAdvance
  simp only [Bool.false_eq_true, if_false]
  split
  · rfl
  · rename_i hge
    unfold readCh
    have : ({ l with offset := l.scanOffset } : Lexer).source.drop ({ l with offset := l.scanOffset } : Lexer).offset = [] :=
      List.drop_eq_nil_of_le (by simpa using hge)
    rw [this]

/-- One ordinary step of `skipAction` over a character that is not a newline. -/
theorem skipAdvance_plain (o : Opts) (v : Variant) (l : Lexer) (h : PInv o v l) (hc : 0 ≤ l.ch)
    (hnl : l.ch ≠ 10) :
    PInv o v (skipAdvance o v false l) ∧ l.offset < (skipAdvance o v false l).offset ∧
    (skipAdvance o v false l).source = l.source := by
  rw [skipAdvance_false]
  obtain ⟨a, b, c, d⟩ := advance_pinv o v l l h hc rfl rfl (by intro _; simp [hnl]) (by intro _ _; simp [hnl])
  exact ⟨a, by rw [b]; exact c, d⟩

/-- The step over a newline, with the bookkeeping of the fixed `skipAction`. -/
theorem skipAdvance_newline (o : Opts) (v : Variant) (l : Lexer) (h : PInv o v l) (hfix : v.skipFix = true)
    (hnl : l.ch = 10) :
    PInv o v (skipAdvance o v false (skipNewline v l)) ∧
    l.offset < (skipAdvance o v false (skipNewline v l)).offset ∧
    (skipAdvance o v false (skipNewline v l)).source = l.source := by
  rw [skipAdvance_false]
  have hs : skipNewline v l = { l with line := l.line + 1, lineOffset := (l.scanOffset : Int) } := by
    unfold skipNewline; simp [hfix]
  rw [hs]
  obtain ⟨a, b, c, d⟩ := advance_pinv o v l { l with line := l.line + 1, lineOffset := (l.scanOffset : Int) } h
    (by omega) rfl rfl (by intro _; simp [hnl]) (by intro _ _; simp [hnl])
  exact ⟨a, by rw [b]; exact c, d⟩

/-- The step that skips the character after a backslash (fixed `skipAction`). -/
theorem skipAdvance_skip (o : Opts) (v : Variant) (l : Lexer) (h : PInv o v l) (hfix : v.skipFix = true)
    (hc : 0 ≤ l.ch) (hnl : l.ch ≠ 10) :
    PInv o v (skipAdvance o v true l) ∧ l.offset < (skipAdvance o v true l).offset ∧
    (skipAdvance o v true l).source = l.source := by
  obtain ⟨a, b, c, d⟩ := advance_pinv o v l l h hc rfl rfl (by intro _; simp [hnl]) (by intro _ _; simp [hnl])
  unfold skipAdvance
  simp only [if_true]
  by_cases hlt : ({ l with offset := l.scanOffset } : Lexer).offset < ({ l with offset := l.scanOffset } : Lexer).source.length
  · simp only [hlt, if_true]
    generalize hla : readCh o { l with offset := l.scanOffset } = la at a b d
    have hlt' : la.offset < la.source.length := by rw [b, d]; simpa using hlt
    have hca : 0 ≤ la.ch := by
      by_cases h' : la.ch < 0
      · have := a.ch_neg_iff.mp h'; omega
      · omega
    by_cases hn : la.ch = 10
    · have hs : (if (v.skipFix && decide (la.ch = 10)) = true then skipNewline v la else la) =
          { la with line := la.line + 1, lineOffset := (la.scanOffset : Int) } := by
        simp [hfix, hn, skipNewline]
      rw [hs]
      obtain ⟨a', b', c', d'⟩ := advance_pinv o v la { la with line := la.line + 1, lineOffset := (la.scanOffset : Int) } a
        hca rfl rfl (by intro _; simp [hn]) (by intro _ _; simp [hn])
      exact ⟨a', by rw [b']; omega, d'.trans d⟩
    · have hs : (if (v.skipFix && decide (la.ch = 10)) = true then skipNewline v la else la) = la := by
        simp [hn]
      rw [hs]
      obtain ⟨a', b', c', d'⟩ := advance_pinv o v la la a hca rfl rfl (by intro _; simp [hn]) (by intro _ _; simp [hn])
      exact ⟨a', by rw [b']; omega, d'.trans d⟩
  · simp only [hlt, if_false]
    -- end of input right after the backslash
    have hend : l.scanOffset = l.source.length := by
      have : l.scanOffset ≤ l.source.length := by
        have hlt0 : l.offset < l.source.length := by
          rcases Nat.lt_or_ge l.offset l.source.length with h' | h'
          · exact h'
          · have := h.ch_neg_iff.mpr (by have := h.le; omega); omega
        have := (peek_lt o.scanBytes l.source l.offset hlt0).2.2.1
        rw [← h.so] at this; exact this
      have : ¬ l.scanOffset < l.source.length := by simpa using hlt
      omega
    have heq : ({ l with offset := l.scanOffset, ch := -1 } : Lexer) = readCh o { l with offset := l.scanOffset } := by
      unfold readCh
      have : ({ l with offset := l.scanOffset } : Lexer).source.drop ({ l with offset := l.scanOffset } : Lexer).offset = [] :=
        List.drop_eq_nil_of_le (by simp [hend])
      rw [this]
    exact ⟨(congrArg (PInv o v) heq).mpr a, c, trivial⟩

/-- `skipAction` (fixed variant) keeps the position invariant: afterwards `line` is `1 +` the number
of newlines before the new offset and `lineOffset` is the start of that line. -/
theorem skipLoop_pinv (v : Variant) (hfix : v.skipFix = true) : ∀ (fuel : Nat) (opn quote : Int) (l : Lexer)
    (ok : Bool) (l' : Lexer), PInv tmOpts v l → skipLoop tmOpts v fuel opn quote l = some (ok, l') →
    PInv tmOpts v l' ∧ l'.source = l.source ∧ l.offset ≤ l'.offset := by
  intro fuel
  induction fuel with
  | zero => intro opn quote l ok l' _ h; simp [skipLoop] at h
  | succ fuel ih =>
    intro opn quote l ok l' hp h
    simp only [skipLoop] at h
    -- generic continuation: the loop goes on from a lexer `ln` that keeps the invariant
    have cont : ∀ (opn' quote' : Int) (ln : Lexer), PInv tmOpts v ln → ln.source = l.source → l.offset ≤ ln.offset →
        skipLoop tmOpts v fuel opn' quote' ln = some (ok, l') →
        PInv tmOpts v l' ∧ l'.source = l.source ∧ l.offset ≤ l'.offset := by
      intro opn' quote' ln hpn hs hle hrun
      obtain ⟨a, b, c⟩ := ih opn' quote' ln ok l' hpn hrun
      exact ⟨a, b.trans hs, Nat.le_trans hle c⟩
    split at h
    · simp only [Option.some.injEq, Prod.mk.injEq] at h
      rw [← h.2]; exact ⟨hp, rfl, Nat.le_refl _⟩
    · split at h
      · simp only [Option.some.injEq, Prod.mk.injEq] at h
        rw [← h.2]; exact ⟨hp, rfl, Nat.le_refl _⟩
      · rename_i hne
        have hc : 0 ≤ l.ch := by
          by_cases h' : l.ch < 0
          · exact absurd (hp.ch_eoi h').1 hne
          · omega
        have plain : l.ch ≠ 10 → PInv tmOpts v (skipAdvance tmOpts v false l) ∧
            l.offset < (skipAdvance tmOpts v false l).offset ∧ (skipAdvance tmOpts v false l).source = l.source :=
          fun hnl => skipAdvance_plain tmOpts v l hp hc hnl
        split at h
        · rename_i hch
          obtain ⟨a, b, c⟩ := plain (by omega)
          exact cont _ _ _ a c (Nat.le_of_lt b) h
        · split at h
          · rename_i hch
            obtain ⟨a, b, c⟩ := plain (by omega)
            exact cont _ _ _ a c (Nat.le_of_lt b) h
          · split at h
            · rename_i hch
              obtain ⟨a, b, c⟩ := plain (by omega)
              exact cont _ _ _ a c (Nat.le_of_lt b) h
            · split at h
              · rename_i hch
                by_cases hq : (quote != 0) = true
                · simp only [hq] at h
                  obtain ⟨a, b, c⟩ := skipAdvance_skip tmOpts v l hp hfix hc (by omega)
                  exact cont _ _ _ a c (Nat.le_of_lt b) h
                · have hq' : (quote != 0) = false := by simpa using hq
                  simp only [hq'] at h
                  obtain ⟨a, b, c⟩ := plain (by omega)
                  exact cont _ _ _ a c (Nat.le_of_lt b) h
              · split at h
                · rename_i hch
                  have hpl := plain (by omega)
                  obtain ⟨a, b, c⟩ := hpl
                  split at h
                  · exact cont _ _ _ a c (Nat.le_of_lt b) h
                  · rename_i hcond
                    have hso : l.scanOffset < l.source.length := by omega
                    have hoff : l.offset < l.scanOffset := by
                      have hlt0 : l.offset < l.source.length := by
                        rcases Nat.lt_or_ge l.offset l.source.length with h' | h'
                        · exact h'
                        · have := hp.ch_neg_iff.mpr (by have := hp.le; omega); omega
                      have := (peek_lt tmOpts.scanBytes l.source l.offset hlt0).2.1
                      rw [← hp.so] at this; exact this
                    split at h
                    · rename_i rest hd
                      have hlen : rest.length + 1 = l.source.length - l.scanOffset := by
                        have := congrArg List.length hd
                        simpa using this.symm
                      split at h
                      · rename_i e he
                        have hb := indexOf_bound _ _ _ he
                        simp only [List.length_cons, List.length_nil] at hb
                        obtain ⟨r1, r2, r3, _⟩ := rewind_pinv tmOpts v l (e + l.scanOffset + 3) (by omega) hp
                        exact cont _ _ _ r1 r3 (by rw [r2]; omega) h
                      · exact cont _ _ _ a c (Nat.le_of_lt b) h
                    · rename_i rest hd
                      have hlen : rest.length + 1 = l.source.length - l.scanOffset := by
                        have := congrArg List.length hd
                        simpa using this.symm
                      split at h
                      · rename_i e he
                        have hb := indexOf_bound _ _ _ he
                        simp only [List.length_cons, List.length_nil] at hb
                        obtain ⟨r1, r2, r3, _⟩ := rewind_pinv tmOpts v l (e + l.scanOffset + 2) (by omega) hp
                        exact cont _ _ _ r1 r3 (by rw [r2]; omega) h
                      · exact cont _ _ _ a c (Nat.le_of_lt b) h
                    · exact cont _ _ _ a c (Nat.le_of_lt b) h
                · split at h
                  · rename_i hch
                    obtain ⟨a, b, c⟩ := skipAdvance_newline tmOpts v l hp hfix hch
                    exact cont _ _ _ a c (Nat.le_of_lt b) h
                  · rename_i hch
                    obtain ⟨a, b, c⟩ := plain hch
                    exact cont _ _ _ a c (Nat.le_of_lt b) h

end TmVerif.LexRun
