import TmVerif.Model.Charset
/-!
Helper lemmas for the range-list algebra of `Model/Charset.lean` (C10).
-/
namespace TmVerif.Charset

theorem memB_iff (r : Int) (c : Charset) : memB r c = true ↔ Mem r c := by
  simp [memB, Mem]

theorem mem_nil (r : Int) : ¬ Mem r [] := by simp [Mem]

theorem mem_cons (r : Int) (p : Range) (c : Charset) :
    Mem r (p :: c) ↔ (p.1 ≤ r ∧ r ≤ p.2) ∨ Mem r c := by
  simp [Mem]

theorem mem_append (r : Int) (a b : Charset) : Mem r (a ++ b) ↔ Mem r a ∨ Mem r b := by
  simp only [Mem, List.mem_append]
  constructor
  · rintro ⟨p, hp | hp, h⟩
    · exact Or.inl ⟨p, hp, h⟩
    · exact Or.inr ⟨p, hp, h⟩
  · rintro (⟨p, hp, h⟩ | ⟨p, hp, h⟩)
    · exact ⟨p, Or.inl hp, h⟩
    · exact ⟨p, Or.inr hp, h⟩

theorem normalizedB_iff (c : Charset) : normalizedB c = true ↔ Normalized c := by
  induction c with
  | nil => simp [normalizedB, Normalized]
  | cons p c ih =>
    obtain ⟨lo, hi⟩ := p
    cases c with
    | nil => simp [normalizedB, Normalized]
    | cons q c =>
      obtain ⟨lo2, hi2⟩ := q
      simp [normalizedB, Normalized, ih, and_assoc]

instance (c : Charset) : Decidable (Normalized c) := decidable_of_iff _ (normalizedB_iff c)

theorem withinB_iff (lo hi : Int) (c : Charset) : withinB lo hi c = true ↔ Within lo hi c := by
  simp [withinB, Within]

theorem Normalized.tail {p : Range} {c : Charset} (h : Normalized (p :: c)) : Normalized c := by
  obtain ⟨lo, hi⟩ := p
  cases c with
  | nil => trivial
  | cons q c => obtain ⟨lo2, hi2⟩ := q; exact h.2.2

theorem Normalized.head {lo hi : Int} {c : Charset} (h : Normalized ((lo, hi) :: c)) : lo ≤ hi := by
  cases c with
  | nil => exact h
  | cons q c => obtain ⟨lo2, hi2⟩ := q; exact h.1

/-- Every later range starts after `hi + 1`. -/
theorem Normalized.gap {lo hi : Int} {c : Charset} (h : Normalized ((lo, hi) :: c)) :
    ∀ p ∈ c, hi + 1 < p.1 ∧ p.1 ≤ p.2 := by
  induction c generalizing lo hi with
  | nil => intro p hp; cases hp
  | cons q c ih =>
    obtain ⟨lo2, hi2⟩ := q
    intro p hp
    have h2 : Normalized ((lo2, hi2) :: c) := h.2.2
    cases hp with
    | head => exact ⟨h.2.1, h2.head⟩
    | tail _ hp =>
      have := ih h2 p hp
      have := h2.head
      have := h.2.1
      omega

theorem Normalized.cons {lo hi : Int} {c : Charset} (hc : Normalized c) (hv : lo ≤ hi)
    (hg : ∀ p ∈ c, hi + 1 < p.1) : Normalized ((lo, hi) :: c) := by
  cases c with
  | nil => exact hv
  | cons q c => obtain ⟨lo2, hi2⟩ := q; exact ⟨hv, hg _ List.mem_cons_self, hc⟩

theorem Normalized.valid {c : Charset} (h : Normalized c) : Valid c := by
  induction c with
  | nil => intro p hp; cases hp
  | cons q c ih =>
    obtain ⟨lo, hi⟩ := q
    intro p hp
    cases hp with
    | head => exact h.head
    | tail _ hp => exact ih h.tail p hp

/-- Elements of the tail of a normalized list are beyond `hi + 1`. -/
theorem Normalized.mem_tail_gt {lo hi : Int} {c : Charset} (h : Normalized ((lo, hi) :: c)) {r : Int}
    (hr : Mem r c) : hi + 1 < r := by
  obtain ⟨p, hp, h1, _⟩ := hr
  have := (h.gap p hp).1
  omega

/-! ### extensionality -/

theorem normalized_ext (a b : Charset) (ha : Normalized a) (hb : Normalized b)
    (h : ∀ r, Mem r a ↔ Mem r b) : a = b := by
  induction a generalizing b with
  | nil =>
    cases b with
    | nil => rfl
    | cons q b =>
      obtain ⟨lo, hi⟩ := q
      have := (h lo).2 ((mem_cons _ _ _).2 (Or.inl ⟨Int.le_refl _, hb.head⟩))
      exact absurd this (mem_nil _)
  | cons p a ih =>
    obtain ⟨lo, hi⟩ := p
    cases b with
    | nil =>
      have := (h lo).1 ((mem_cons _ _ _).2 (Or.inl ⟨Int.le_refl _, ha.head⟩))
      exact absurd this (mem_nil _)
    | cons q b =>
      obtain ⟨lo2, hi2⟩ := q
      have hva := ha.head
      have hvb := hb.head
      -- membership facts for the four endpoints
      have e1 := (h lo).1 ((mem_cons _ _ _).2 (Or.inl ⟨Int.le_refl _, hva⟩))
      have e2 := (h lo2).2 ((mem_cons _ _ _).2 (Or.inl ⟨Int.le_refl _, hvb⟩))
      rw [mem_cons] at e1 e2
      have hlo : lo = lo2 := by
        rcases e1 with e1 | e1
        · rcases e2 with e2 | e2
          · simp at e1 e2; omega
          · have := ha.mem_tail_gt e2; simp at e1; omega
        · have g1 := hb.mem_tail_gt e1
          rcases e2 with e2 | e2
          · simp at e2; omega
          · have := ha.mem_tail_gt e2; omega
      subst hlo
      have hhi : hi = hi2 := by
        -- if hi < hi2 then hi + 1 ∈ b but ∉ a, and symmetrically
        apply Int.le_antisymm
        · apply Int.not_lt.1
          intro hlt
          have m := (h (hi2 + 1)).1 ((mem_cons _ _ _).2 (Or.inl ⟨by simp; omega, by simp; omega⟩))
          rw [mem_cons] at m
          rcases m with m | m
          · simp at m; omega
          · have := hb.mem_tail_gt m; omega
        · apply Int.not_lt.1
          intro hlt
          have m := (h (hi + 1)).2 ((mem_cons _ _ _).2 (Or.inl ⟨by simp; omega, by simp; omega⟩))
          rw [mem_cons] at m
          rcases m with m | m
          · simp at m; omega
          · have := ha.mem_tail_gt m; omega
      subst hhi
      congr 1
      apply ih b ha.tail hb.tail
      intro r
      have hr := h r
      rw [mem_cons, mem_cons] at hr
      constructor
      · intro m
        have g := ha.mem_tail_gt m
        rcases hr.1 (Or.inr m) with x | x
        · simp at x; omega
        · exact x
      · intro m
        have g := hb.mem_tail_gt m
        rcases hr.2 (Or.inr m) with x | x
        · simp at x; omega
        · exact x

/-! ### newCharset -/

/-- Sorted by lower bound. -/
def LoSorted (c : Charset) : Prop := c.Pairwise fun a b => a.1 ≤ b.1

theorem rangeLe_trans (a b c : Range) : rangeLe a b = true → rangeLe b c = true → rangeLe a c = true := by
  simp [rangeLe]; omega

theorem rangeLe_total (a b : Range) : (rangeLe a b || rangeLe b a) = true := by
  simp [rangeLe]; omega

theorem loSorted_mergeSort (c : Charset) : LoSorted (c.mergeSort rangeLe) := by
  have h := List.pairwise_mergeSort rangeLe_trans rangeLe_total c
  unfold LoSorted
  apply List.Pairwise.imp _ h
  intro a b; simp [rangeLe]; omega

theorem mem_mergeSort (r : Int) (c : Charset) : Mem r (c.mergeSort rangeLe) ↔ Mem r c := by
  simp [Mem, List.mem_mergeSort]

theorem mem_compact (lo hi : Int) (rest : Charset) (h1 : ∀ p ∈ rest, lo ≤ p.1) (h2 : LoSorted rest)
    (r : Int) : Mem r (compact lo hi rest) ↔ (lo ≤ r ∧ r ≤ hi) ∨ Mem r rest := by
  induction rest generalizing lo hi with
  | nil => simp [compact, Mem]
  | cons q rest ih =>
    obtain ⟨l, h⟩ := q
    have hl : lo ≤ l := h1 (l, h) List.mem_cons_self
    have h1' : ∀ p ∈ rest, lo ≤ p.1 := fun p hp => h1 p (List.mem_cons_of_mem _ hp)
    have hs : LoSorted rest := (List.pairwise_cons.1 h2).2
    have hl' : ∀ p ∈ rest, l ≤ p.1 := fun p hp => (List.pairwise_cons.1 h2).1 p hp
    unfold compact
    split
    · rw [ih _ _ h1' hs, mem_cons]
      by_cases hm : Mem r rest
      · simp [hm]
      · simp only [hm, or_false]
        split <;> constructor <;> intro hh <;> omega
    · rw [mem_cons, ih _ _ hl' hs, mem_cons]

theorem compact_lo (lo hi : Int) (rest : Charset) (h1 : ∀ p ∈ rest, lo ≤ p.1) (h2 : LoSorted rest) :
    ∀ p ∈ compact lo hi rest, lo ≤ p.1 := by
  induction rest generalizing lo hi with
  | nil => simp [compact]
  | cons q rest ih =>
    obtain ⟨l, h⟩ := q
    have hl : lo ≤ l := h1 (l, h) List.mem_cons_self
    have h1' : ∀ p ∈ rest, lo ≤ p.1 := fun p hp => h1 p (List.mem_cons_of_mem _ hp)
    have hs : LoSorted rest := (List.pairwise_cons.1 h2).2
    have hl' : ∀ p ∈ rest, l ≤ p.1 := fun p hp => (List.pairwise_cons.1 h2).1 p hp
    unfold compact
    split
    · exact ih _ _ h1' hs
    · intro p hp
      cases hp with
      | head => exact Int.le_refl _
      | tail _ hp => have := ih _ _ hl' hs p hp; omega

theorem normalized_compact (lo hi : Int) (rest : Charset) (hv : lo ≤ hi) (hr : Valid rest)
    (h1 : ∀ p ∈ rest, lo ≤ p.1) (h2 : LoSorted rest) : Normalized (compact lo hi rest) := by
  induction rest generalizing lo hi with
  | nil => simp [compact, Normalized, hv]
  | cons q rest ih =>
    obtain ⟨l, h⟩ := q
    have hl : lo ≤ l := h1 (l, h) List.mem_cons_self
    have hlh : l ≤ h := hr (l, h) List.mem_cons_self
    have hr' : Valid rest := fun p hp => hr p (List.mem_cons_of_mem _ hp)
    have h1' : ∀ p ∈ rest, lo ≤ p.1 := fun p hp => h1 p (List.mem_cons_of_mem _ hp)
    have hs : LoSorted rest := (List.pairwise_cons.1 h2).2
    have hl' : ∀ p ∈ rest, l ≤ p.1 := fun p hp => (List.pairwise_cons.1 h2).1 p hp
    unfold compact
    split
    · apply ih _ _ _ hr' h1' hs
      split <;> omega
    · apply Normalized.cons (ih _ _ hlh hr' hl' hs) hv
      intro p hp
      have := compact_lo l h rest hl' hs p hp
      omega

theorem mem_newCharset (c : Charset) (r : Int) : Mem r (newCharset c) ↔ Mem r c := by
  unfold newCharset
  have hs := loSorted_mergeSort c
  have hm := mem_mergeSort r c
  revert hs hm
  generalize c.mergeSort rangeLe = s
  intro hs hm
  cases s with
  | nil => simpa using hm
  | cons q s =>
    obtain ⟨lo, hi⟩ := q
    simp only
    rw [mem_compact lo hi s (List.pairwise_cons.1 hs).1 (List.pairwise_cons.1 hs).2, ← hm, mem_cons]

theorem normalized_newCharset (c : Charset) (hv : Valid c) : Normalized (newCharset c) := by
  unfold newCharset
  have hs := loSorted_mergeSort c
  have hv' : Valid (c.mergeSort rangeLe) := fun p hp => hv p (List.mem_mergeSort.1 hp)
  revert hs hv'
  generalize c.mergeSort rangeLe = s
  intro hs hv'
  cases s with
  | nil => trivial
  | cons q s =>
    obtain ⟨lo, hi⟩ := q
    exact normalized_compact lo hi s (hv' _ List.mem_cons_self)
      (fun p hp => hv' p (List.mem_cons_of_mem _ hp)) (List.pairwise_cons.1 hs).1 (List.pairwise_cons.1 hs).2

/-! ### appendRange -/

theorem mem_appendRange (c : Charset) (lo hi x : Int) :
    Mem x (appendRange c lo hi) ↔ Mem x c ∨ (lo ≤ x ∧ x ≤ hi) := by
  unfold appendRange
  cases hl : c.getLast? with
  | none =>
    have : c = [] := List.getLast?_eq_none_iff.1 hl
    subst this
    simp [Mem]
  | some q =>
    obtain ⟨s, e⟩ := q
    have hc : c.dropLast ++ [(s, e)] = c := by
      have hne : c ≠ [] := by intro h; subst h; simp at hl
      have h1 := List.dropLast_concat_getLast hne
      have h2 : c.getLast hne = (s, e) := by
        have := List.getLast?_eq_some_getLast hne
        rw [hl] at this; exact (Option.some.inj this).symm
      rw [h2] at h1; exact h1
    simp only
    split
    · rename_i hcond
      conv => rhs; rw [← hc]
      rw [mem_append, mem_append, mem_cons, mem_cons]
      simp only [mem_nil, or_false]
      by_cases hm : Mem x c.dropLast
      · simp [hm]
      · simp only [hm, false_or]
        split <;> split <;> constructor <;> intro hh <;> omega
    · rw [mem_append, mem_cons]; simp [mem_nil]

/-! ### invert -/

theorem mem_invertFrom (max next : Int) (c : Charset) (hc : Normalized c)
    (hn : ∀ p ∈ c, next ≤ p.1) (hw : ∀ p ∈ c, p.2 ≤ max) (x : Int) :
    Mem x (invertFrom max next c) ↔ next ≤ x ∧ x ≤ max ∧ ¬ Mem x c := by
  induction c generalizing next with
  | nil =>
    unfold invertFrom
    split <;> simp [Mem] <;> omega
  | cons q c ih =>
    obtain ⟨lo, hi⟩ := q
    unfold invertFrom
    have hv := hc.head
    have hlo : next ≤ lo := hn (lo, hi) List.mem_cons_self
    have hhi : hi ≤ max := hw (lo, hi) List.mem_cons_self
    have ih' := ih (hi + 1) hc.tail (fun p hp => by have := (hc.gap p hp).1; omega)
      (fun p hp => hw p (List.mem_cons_of_mem _ hp))
    rw [mem_append, ih', mem_cons]
    simp only
    by_cases hm : Mem x c
    · have := hc.mem_tail_gt hm
      simp only [hm, not_true_eq_false, and_false, or_false, or_true]
      split
      · simp [Mem]; omega
      · simp [Mem]
    · simp only [hm, not_false_eq_true, and_true, or_false]
      split
      · simp [Mem]; omega
      · simp [Mem]; omega

theorem invertFrom_bounds (max next : Int) (c : Charset) (hc : Normalized c)
    (hn : ∀ p ∈ c, next ≤ p.1) (hw : ∀ p ∈ c, p.2 ≤ max) :
    ∀ p ∈ invertFrom max next c, next ≤ p.1 ∧ p.2 ≤ max := by
  induction c generalizing next with
  | nil =>
    unfold invertFrom
    split <;> simp
  | cons q c ih =>
    obtain ⟨lo, hi⟩ := q
    unfold invertFrom
    have hv := hc.head
    have hlo : next ≤ lo := hn (lo, hi) List.mem_cons_self
    have hhi : hi ≤ max := hw (lo, hi) List.mem_cons_self
    have ih' := ih (hi + 1) hc.tail (fun p hp => by have := (hc.gap p hp).1; omega)
      (fun p hp => hw p (List.mem_cons_of_mem _ hp))
    intro p hp
    rw [List.mem_append] at hp
    rcases hp with hp | hp
    · split at hp
      · simp at hp; subst hp; simp; omega
      · cases hp
    · have := ih' p hp; omega

theorem normalized_invertFrom (max next : Int) (c : Charset) (hc : Normalized c)
    (hn : ∀ p ∈ c, next ≤ p.1) (hw : ∀ p ∈ c, p.2 ≤ max) :
    Normalized (invertFrom max next c) := by
  induction c generalizing next with
  | nil =>
    unfold invertFrom
    split <;> simp [Normalized]; assumption
  | cons q c ih =>
    obtain ⟨lo, hi⟩ := q
    unfold invertFrom
    have hv := hc.head
    have hlo : next ≤ lo := hn (lo, hi) List.mem_cons_self
    have hgap : ∀ p ∈ c, hi + 1 ≤ p.1 := fun p hp => by have := (hc.gap p hp).1; omega
    have hw' : ∀ p ∈ c, p.2 ≤ max := fun p hp => hw p (List.mem_cons_of_mem _ hp)
    have ih' := ih (hi + 1) hc.tail hgap hw'
    have hb := invertFrom_bounds max (hi + 1) c hc.tail hgap hw'
    split
    · apply Normalized.cons ih' (by omega)
      intro p hp
      have := (hb p hp).1
      omega
    · simpa using ih'

/-! ### subtract -/

/-- Every range of `a` lies inside some range of `b`. -/
def Inside (a b : Charset) : Prop := ∀ p ∈ a, ∃ q ∈ b, q.1 ≤ p.1 ∧ p.2 ≤ q.2

theorem normalized_append (a b : Charset) (ha : Normalized a) (hb : Normalized b)
    (h : ∀ p ∈ a, ∀ q ∈ b, p.2 + 1 < q.1) : Normalized (a ++ b) := by
  induction a with
  | nil => simpa using hb
  | cons p a ih =>
    obtain ⟨lo, hi⟩ := p
    have := ih ha.tail (fun p hp q hq => h p (List.mem_cons_of_mem _ hp) q hq)
    rw [List.cons_append]
    apply Normalized.cons this ha.head
    intro q hq
    rw [List.mem_append] at hq
    rcases hq with hq | hq
    · exact (ha.gap q hq).1
    · exact h (lo, hi) List.mem_cons_self q hq

theorem subtractOne_spec (lo hi : Int) (oth : Charset) (hv : lo ≤ hi) (ho : Normalized oth) :
    (∀ x, Mem x (subtractOne lo hi oth).1 ↔ lo ≤ x ∧ x ≤ hi ∧ ¬ Mem x oth) ∧
    (∀ y, hi < y → (Mem y (subtractOne lo hi oth).2 ↔ Mem y oth)) ∧
    Normalized (subtractOne lo hi oth).2 ∧ Normalized (subtractOne lo hi oth).1 ∧
    Within lo hi (subtractOne lo hi oth).1 := by
  induction oth generalizing lo with
  | nil =>
    refine ⟨?_, ?_, ?_, ?_, ?_⟩ <;> simp [subtractOne, Mem, Normalized, Within, hv]
  | cons q oth ih =>
    obtain ⟨a, b⟩ := q
    have hab := ho.head
    have hgt : ∀ x, Mem x oth → b + 1 < x := fun x hx => ho.mem_tail_gt hx
    unfold subtractOne
    split
    · split
      · -- b < lo: drop the range
        have ⟨i1, i2, i3, i4, i5⟩ := ih lo hv ho.tail
        refine ⟨?_, ?_, i3, i4, i5⟩
        · intro x; rw [i1, mem_cons]; simp only
          constructor
          · rintro ⟨h1, h2, h3⟩; exact ⟨h1, h2, by intro h; rcases h with h | h; omega; exact h3 h⟩
          · rintro ⟨h1, h2, h3⟩; exact ⟨h1, h2, fun h => h3 (Or.inr h)⟩
        · intro y hy; rw [i2 y hy, mem_cons]; simp only
          constructor
          · intro h; exact Or.inr h
          · intro h; rcases h with h | h; omega; exact h
      · simp only
        split
        · -- the rest of lo..hi is covered: keep oth[0]
          refine ⟨?_, ?_, ho, ?_, ?_⟩
          · intro x; rw [mem_cons]; simp only
            constructor
            · intro h
              split at h
              · simp [Mem] at h
                refine ⟨h.1, by omega, ?_⟩
                intro h'; rcases h' with h' | h'; omega
                have := hgt x h'; omega
              · exact absurd h (mem_nil _)
            · rintro ⟨h1, h2, h3⟩
              have : x < a := by
                apply Int.not_le.1; intro hax; apply h3; left; omega
              split
              · simp [Mem]; omega
              · omega
          · intro y _; exact Iff.rfl
          · split <;> simp [Normalized]; omega
          · split <;> simp [Within]; omega
        · -- continue with b+1..hi
          have hv' : b + 1 ≤ hi := by omega
          have ⟨i1, i2, i3, i4, i5⟩ := ih (b + 1) hv' ho.tail
          refine ⟨?_, ?_, i3, ?_, ?_⟩
          · intro x; rw [mem_append, i1, mem_cons]; simp only
            constructor
            · rintro (h | ⟨h1, h2, h3⟩)
              · split at h
                · simp [Mem] at h
                  refine ⟨h.1, by omega, ?_⟩
                  intro h'; rcases h' with h' | h'; omega
                  have := hgt x h'; omega
                · exact absurd h (mem_nil _)
              · refine ⟨by omega, h2, ?_⟩
                intro h'; rcases h' with h' | h'; omega; exact h3 h'
            · rintro ⟨h1, h2, h3⟩
              by_cases hxa : x < a
              · left; split
                · simp [Mem]; omega
                · omega
              · right
                refine ⟨?_, h2, fun h => h3 (Or.inr h)⟩
                apply Int.not_lt.1; intro hxb; apply h3; left; omega
          · intro y hy; rw [i2 y hy, mem_cons]; simp only
            constructor
            · intro h; exact Or.inr h
            · intro h; rcases h with h | h; omega; exact h
          · apply normalized_append _ _ _ i4
            · intro p hp q hq
              have := i5 q hq
              split at hp
              · simp at hp; subst hp; simp; omega
              · cases hp
            · split <;> simp [Normalized]; omega
          · intro p hp
            rw [List.mem_append] at hp
            rcases hp with hp | hp
            · split at hp
              · simp at hp; subst hp; simp; omega
              · cases hp
            · have := i5 p hp; omega
    · -- hi < a: nothing to subtract from this range
      refine ⟨?_, ?_, ho, ?_, ?_⟩
      · intro x; simp only [mem_cons, mem_nil, or_false]
        constructor
        · rintro ⟨h1, h2⟩
          refine ⟨h1, h2, ?_⟩
          intro h'; rcases h' with h' | h'; omega
          have := hgt x h'; omega
        · rintro ⟨h1, h2, _⟩; exact ⟨h1, h2⟩
      · intro y _; exact Iff.rfl
      · simp [Normalized, hv]
      · simp [Within]

theorem subtract_spec (c oth : Charset) (hc : Normalized c) (ho : Normalized oth) :
    (∀ x, Mem x (subtract c oth) ↔ Mem x c ∧ ¬ Mem x oth) ∧ Normalized (subtract c oth) ∧
    Inside (subtract c oth) c := by
  induction c generalizing oth with
  | nil => simp [subtract, Mem, Normalized, Inside]
  | cons q c ih =>
    obtain ⟨lo, hi⟩ := q
    unfold subtract
    have hv := hc.head
    have ⟨s1, s2, s3, s4, s5⟩ := subtractOne_spec lo hi oth hv ho
    have ⟨j1, j2, j3⟩ := ih (subtractOne lo hi oth).2 hc.tail s3
    refine ⟨?_, ?_, ?_⟩
    · intro x
      simp only
      rw [mem_append, s1, j1, mem_cons]
      simp only
      constructor
      · rintro (⟨h1, h2, h3⟩ | ⟨h1, h2⟩)
        · exact ⟨Or.inl ⟨h1, h2⟩, h3⟩
        · have := hc.mem_tail_gt h1
          exact ⟨Or.inr h1, fun h => h2 ((s2 x (by omega)).2 h)⟩
      · rintro ⟨h1 | h1, h2⟩
        · exact Or.inl ⟨h1.1, h1.2, h2⟩
        · have := hc.mem_tail_gt h1
          exact Or.inr ⟨h1, fun h => h2 ((s2 x (by omega)).1 h)⟩
    · simp only
      apply normalized_append _ _ s4 j2
      intro p hp q hq
      have hp' := s5 p hp
      obtain ⟨q', hq', h1, _⟩ := j3 q hq
      have := (hc.gap q' hq').1
      omega
    · intro p hp
      simp only at hp
      rw [List.mem_append] at hp
      rcases hp with hp | hp
      · exact ⟨(lo, hi), List.mem_cons_self, (s5 p hp).1, (s5 p hp).2⟩
      · obtain ⟨q', hq', h⟩ := j3 p hp
        exact ⟨q', List.mem_cons_of_mem _ hq', h⟩

/-! ### intersect -/

theorem intersect_spec (a b : Charset) (ha : Normalized a) (hb : Normalized b) :
    (∀ x, Mem x (intersect a b) ↔ Mem x a ∧ Mem x b) ∧ Normalized (intersect a b) ∧
    Inside (intersect a b) a ∧ Inside (intersect a b) b := by
  fun_induction intersect a b
  · simp [Mem, Normalized, Inside]
  · simp [Mem, Normalized, Inside]
  · -- ahi < blo: skip a's range
    rename_i alo ahi a blo bhi b hlt ih
    have ⟨i1, i2, i3, i4⟩ := ih ha.tail hb
    have hva := ha.head
    refine ⟨?_, i2, ?_, i4⟩
    · intro x; rw [i1, mem_cons, mem_cons]; simp only
      constructor
      · rintro ⟨h1, h2⟩; exact ⟨Or.inr h1, h2⟩
      · rintro ⟨h1 | h1, h2⟩
        · exfalso; rcases h2 with h2 | h2; omega
          have := hb.mem_tail_gt h2; have := hb.head; omega
        · exact ⟨h1, h2⟩
    · intro p hp; obtain ⟨q, hq, h⟩ := i3 p hp; exact ⟨q, List.mem_cons_of_mem _ hq, h⟩
  · -- bhi < alo: skip b's range
    rename_i alo ahi a blo bhi b hnlt hlt ih
    have ⟨i1, i2, i3, i4⟩ := ih ha hb.tail
    have hvb := hb.head
    refine ⟨?_, i2, i3, ?_⟩
    · intro x; rw [i1, mem_cons, mem_cons]; simp only
      constructor
      · rintro ⟨h1, h2⟩; exact ⟨h1, Or.inr h2⟩
      · rintro ⟨h1, h2 | h2⟩
        · exfalso; rcases h1 with h1 | h1; omega
          have := ha.mem_tail_gt h1; have := ha.head; omega
        · exact ⟨h1, h2⟩
    · intro p hp; obtain ⟨q, hq, h⟩ := i4 p hp; exact ⟨q, List.mem_cons_of_mem _ hq, h⟩
  · -- overlap, b's range ends first
    rename_i alo ahi a blo bhi b h1 h2 lo hlt ih
    have ⟨i1, i2, i3, i4⟩ := ih ha hb.tail
    have hva := ha.head
    have hvb := hb.head
    have hlo : lo = if blo > alo then blo else alo := rfl
    have hle : lo ≤ bhi := by rw [hlo]; split <;> omega
    simp only [hle, if_true]
    refine ⟨?_, ?_, ?_, ?_⟩
    · intro x; rw [mem_append, i1, mem_cons, mem_cons, mem_cons]; simp only [mem_nil, or_false]
      constructor
      · rintro (⟨h3, h4⟩ | ⟨h3, h4⟩)
        · refine ⟨Or.inl ⟨?_, by omega⟩, Or.inl ⟨?_, h4⟩⟩ <;> (rw [hlo] at h3; split at h3 <;> omega)
        · exact ⟨h3, Or.inr h4⟩
      · rintro ⟨h3, h4 | h4⟩
        · rcases h3 with h3 | h3
          · left; refine ⟨?_, h4.2⟩; rw [hlo]; split <;> omega
          · exfalso; have := ha.mem_tail_gt h3; omega
        · exact Or.inr ⟨h3, h4⟩
    · apply normalized_append _ _ (by simp [Normalized]; exact hle) i2
      intro p hp q hq
      simp at hp; subst hp
      obtain ⟨q', hq', h, _⟩ := i4 q hq
      have := (hb.gap q' hq').1
      simp; omega
    · intro p hp
      rw [List.mem_append] at hp
      rcases hp with hp | hp
      · simp at hp; subst hp
        refine ⟨(alo, ahi), List.mem_cons_self, ?_, by simp; omega⟩
        simp; rw [hlo]; split <;> omega
      · exact i3 p hp
    · intro p hp
      rw [List.mem_append] at hp
      rcases hp with hp | hp
      · simp at hp; subst hp
        refine ⟨(blo, bhi), List.mem_cons_self, ?_, by simp⟩
        simp; rw [hlo]; split <;> omega
      · obtain ⟨q, hq, h⟩ := i4 p hp; exact ⟨q, List.mem_cons_of_mem _ hq, h⟩
  · -- overlap, a's range ends first (or both end together)
    rename_i alo ahi a blo bhi b h1 h2 lo hnlt ih
    have ⟨i1, i2, i3, i4⟩ := ih ha.tail hb
    have hva := ha.head
    have hvb := hb.head
    have hlo : lo = if blo > alo then blo else alo := rfl
    have hle : lo ≤ ahi := by rw [hlo]; split <;> omega
    simp only [hle, if_true]
    refine ⟨?_, ?_, ?_, ?_⟩
    · intro x; rw [mem_append, i1, mem_cons, mem_cons, mem_cons]; simp only [mem_nil, or_false]
      constructor
      · rintro (⟨h3, h4⟩ | ⟨h3, h4⟩)
        · refine ⟨Or.inl ⟨?_, h4⟩, Or.inl ⟨?_, by omega⟩⟩ <;> (rw [hlo] at h3; split at h3 <;> omega)
        · exact ⟨Or.inr h3, h4⟩
      · rintro ⟨h3 | h3, h4⟩
        · rcases h4 with h4 | h4
          · left; refine ⟨?_, h3.2⟩; rw [hlo]; split <;> omega
          · exfalso; have := hb.mem_tail_gt h4; omega
        · exact Or.inr ⟨h3, h4⟩
    · apply normalized_append _ _ (by simp [Normalized]; exact hle) i2
      intro p hp q hq
      simp at hp; subst hp
      obtain ⟨q', hq', h, _⟩ := i3 q hq
      have := (ha.gap q' hq').1
      simp; omega
    · intro p hp
      rw [List.mem_append] at hp
      rcases hp with hp | hp
      · simp at hp; subst hp
        refine ⟨(alo, ahi), List.mem_cons_self, ?_, by simp⟩
        simp; rw [hlo]; split <;> omega
      · obtain ⟨q, hq, h⟩ := i3 p hp; exact ⟨q, List.mem_cons_of_mem _ hq, h⟩
    · intro p hp
      rw [List.mem_append] at hp
      rcases hp with hp | hp
      · simp at hp; subst hp
        refine ⟨(blo, bhi), List.mem_cons_self, ?_, by simp; omega⟩
        simp; rw [hlo]; split <;> omega
      · exact i4 p hp

/-! ### fold -/

theorem mem_fold (orbits : List (List Int)) (ascii : Bool) (c : Charset) (x : Int) :
    Mem x (fold orbits ascii c) ↔
      Mem x c ∨ ∃ o ∈ orbits, x ∈ o ∧ (∃ m ∈ o, Mem m c) ∧ (ascii = true → x < 0x80) := by
  unfold fold
  rw [mem_newCharset, mem_append]
  apply or_congr Iff.rfl
  simp only [Mem, List.mem_flatMap, List.mem_filter, List.mem_map, List.any_eq_true, memB_iff]
  constructor
  · rintro ⟨p, ⟨o, ⟨ho, m, hm, hmc⟩, f, ⟨hf, hfa⟩, rfl⟩, h1, h2⟩
    have : f = x := by simp at h1 h2; omega
    subst this
    refine ⟨o, ho, hf, ⟨m, hm, hmc⟩, ?_⟩
    intro ha; subst ha; simpa using hfa
  · rintro ⟨o, ho, hx, ⟨m, hm, hmc⟩, ha⟩
    refine ⟨(x, x), ⟨o, ⟨ho, m, hm, hmc⟩, x, ⟨hx, ?_⟩, rfl⟩, by simp, by simp⟩
    cases ascii <;> simp_all

theorem normalized_fold (orbits : List (List Int)) (ascii : Bool) (c : Charset) (hc : Valid c) :
    Normalized (fold orbits ascii c) := by
  unfold fold
  apply normalized_newCharset
  intro p hp
  rw [List.mem_append] at hp
  rcases hp with hp | hp
  · exact hc p hp
  · simp only [List.mem_flatMap, List.mem_map] at hp
    obtain ⟨_, _, f, _, rfl⟩ := hp
    exact Int.le_refl _

end TmVerif.Charset
