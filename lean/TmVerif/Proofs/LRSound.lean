/-
Helper lemmas for C01 (soundness of the table-driven LR runtime model w.r.t. `certOk`), part 1:
the decoded action does not depend on deep lookahead for certified tables, unpacking of `certOk`
and `Grammar.wf`, the edge relation and its membership in `edges`.
-/
import TmVerif.Model.LRSound
namespace TmVerif.LRSound
open TmVerif.LR TmVerif.CFG

theorem actOf_noDeep (t : Tables) (deep : Int → Option Int) (s a : Int) (x : Act)
    (h : actOf t noDeep s a = some x) : actOf t deep s a = some x := by
  unfold actOf at h ⊢
  split
  · simpa [*] using h
  · rename_i hopt
    simp only [hopt] at h
    cases hg : geti t.action s with
    | none => simp [hg] at h
    | some action =>
      simp only [hg] at h ⊢
      by_cases hlt : action < -2
      · simp only [hlt, if_true] at h ⊢
        cases hl : lalrLookup t action a with
        | none => simp [hl] at h
        | some y =>
          simp only [hl] at h ⊢
          by_cases hy : y < -2
          · simp [hy, noDeep] at h
          · simpa [hy] using h
      · simpa [hlt] using h

structure CertFacts (g : Grammar) (t : Tables) (cert : Cert) : Prop where
  wf : g.wf = true
  nTerms : t.nTerms = g.nTerms
  nSyms : t.nSyms = g.nSyms
  nIn : g.inputs.size ≤ t.nStates
  fin : t.finalStates.size = g.inputs.size
  pastEntry : ∀ i, i < g.inputs.size → pastOf cert (i : Nat) = []
  acts : ∀ s, s < t.nStates → ∀ x ∈ stateActs t s, actOk g t cert s x = true
  gotos : ∀ s, s < t.nStates → ∀ k, k < t.nSyms - t.nTerms →
    gotoOk g.inputs.size t cert s (t.nTerms + k) = true
  finals : ∀ i, i < g.inputs.size → finalOk g t cert i = true

theorem certFacts {g : Grammar} {t : Tables} {cert : Cert} (h : certOk g t cert = true) :
    CertFacts g t cert := by
  unfold certOk at h
  simp only [Bool.and_eq_true, decide_eq_true_eq, List.all_eq_true, List.mem_range,
    beq_iff_eq] at h
  obtain ⟨⟨⟨⟨⟨⟨⟨⟨h1, h2⟩, h3⟩, h4⟩, h5⟩, _⟩, h7⟩, h8⟩, h9⟩ := h
  exact ⟨h1, h2, h3, h4, h5, h7, fun s hs => (h8 s hs).1, fun s hs => (h8 s hs).2, h9⟩

structure WfFacts (g : Grammar) : Prop where
  nTermsPos : 1 ≤ g.nTerms
  le : g.nTerms ≤ g.nSyms
  rules : ∀ r ∈ g.rules.toList, g.nTerms ≤ r.lhs ∧ r.lhs < g.nSyms ∧ ∀ s ∈ r.rhs, 0 < s ∧ s < g.nSyms
  inputs : ∀ i ∈ g.inputs.toList, g.nTerms ≤ i.sym ∧ i.sym < g.nSyms

theorem wfFacts {g : Grammar} (h : g.wf = true) : WfFacts g := by
  unfold Grammar.wf at h
  simp only [Bool.and_eq_true, decide_eq_true_eq, Array.all_eq_true_iff_forall_mem, List.all_eq_true, ge_iff_le] at h
  obtain ⟨⟨⟨h1, h2⟩, h3⟩, h4⟩ := h
  refine ⟨h1, h2, ?_, ?_⟩
  · intro r hr
    have := h3 r (Array.mem_toList_iff.mp hr)
    exact ⟨this.1.1, this.1.2, this.2⟩
  · intro i hi
    exact h4 i (Array.mem_toList_iff.mp hi)

def TermEdge (t : Tables) (p a : Nat) (q : Int) : Prop :=
  p < t.nStates ∧ a < t.nTerms ∧ needsTok t p = some true ∧ actOf t noDeep p a = some (.shift q)

def NtEdge (t : Tables) (p X : Nat) (q : Int) : Prop :=
  p < t.nStates ∧ t.nTerms ≤ X ∧ X < t.nSyms ∧ gotoState t p X = some q ∧ 0 ≤ q

def Edge (t : Tables) (p X : Nat) (q : Int) : Prop := TermEdge t p X q ∨ NtEdge t p X q

theorem Edge.lt {t : Tables} {p X : Nat} {q : Int} (h : Edge t p X q) : p < t.nStates := by
  rcases h with h | h <;> exact h.1

theorem termEdge_mem {t : Tables} {p a : Nat} {q : Int} (h : TermEdge t p a q) :
    (p, a, q) ∈ edges t := by
  obtain ⟨hp, ha, hn, hact⟩ := h
  unfold edges
  rw [List.mem_flatMap]
  refine ⟨p, List.mem_range.mpr hp, List.mem_append_left _ ?_⟩
  rw [List.mem_filterMap]
  refine ⟨(some a, some (.shift q)), ?_, rfl⟩
  unfold stateActs
  rw [hn]
  simp only [List.mem_map, List.mem_range]
  exact ⟨a, ha, by rw [hact]⟩

theorem ntEdge_mem {t : Tables} {p X : Nat} {q : Int} (h : NtEdge t p X q) :
    (p, X, q) ∈ edges t := by
  obtain ⟨hp, hX1, hX2, hg, hq⟩ := h
  unfold edges
  rw [List.mem_flatMap]
  refine ⟨p, List.mem_range.mpr hp, List.mem_append_right _ ?_⟩
  rw [List.mem_filterMap]
  refine ⟨X - t.nTerms, List.mem_range.mpr (by omega), ?_⟩
  have e : t.nTerms + (X - t.nTerms) = X := by omega
  rw [e, hg]
  simp [hq]

theorem edge_mem {t : Tables} {p X : Nat} {q : Int} (h : Edge t p X q) : (p, X, q) ∈ edges t :=
  h.elim termEdge_mem ntEdge_mem

/-- what `edgeOk` says, with the target as a natural number -/
theorem edgeOk_elim {nIn : Nat} {t : Tables} {cert : Cert} {p : Nat} {x q : Int}
    (h : edgeOk nIn t cert p x q = true) :
    ∃ q' : Nat, q = (q' : Int) ∧ nIn ≤ q' ∧ q' < t.nStates ∧
      pastOf cert (q' : Nat) <+: x :: pastOf cert (p : Nat) := by
  unfold edgeOk at h
  simp only [Bool.and_eq_true, decide_eq_true_eq, List.isPrefixOf_iff_prefix] at h
  obtain ⟨⟨h1, h2⟩, h3⟩ := h
  refine ⟨q.toNat, by omega, by omega, by omega, ?_⟩
  have : ((q.toNat : Nat) : Int) = q := by omega
  rw [this]; exact h3

theorem edge_ok {g : Grammar} {t : Tables} {cert : Cert} (hc : CertFacts g t cert)
    {p X : Nat} {q : Int} (h : Edge t p X q) :
    edgeOk g.inputs.size t cert p (X : Nat) q = true := by
  rcases h with ⟨hp, ha, hn, hact⟩ | ⟨hp, hX1, hX2, hg, hq⟩
  · have hmem : (some X, some (Act.shift q)) ∈ stateActs t p := by
      unfold stateActs
      rw [hn]
      simp only [List.mem_map, List.mem_range]
      exact ⟨X, ha, by rw [hact]⟩
    exact hc.acts p hp _ hmem
  · have := hc.gotos p hp (X - t.nTerms) (by omega)
    have e : t.nTerms + (X - t.nTerms) = X := by omega
    unfold gotoOk at this
    rw [e, hg] at this
    simp only [Bool.or_eq_true, beq_iff_eq] at this
    rcases this with h | h
    · omega
    · exact h

end TmVerif.LRSound
