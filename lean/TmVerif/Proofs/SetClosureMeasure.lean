import TmVerif.Proofs.IntSet
/-!
A size measure for finite/co-finite integer sets whose explicit elements come from a fixed list `M`:
`mu M s` counts the entries of `M` that belong to `s`, plus one when `s` is co-finite (the "point" that
stands for all integers outside `M`). For canonical (sorted) representations, growing as a set without
growing in measure means being the same representation — the fact that makes `slowClosure` terminate.
-/
namespace TmVerif.IntSet

def mu (M : List Int) (s : IntSet) : Nat :=
  M.countP (fun m => decide (s.Mem m)) + (if s.inverse then 1 else 0)

theorem mu_le (M : List Int) (s : IntSet) : mu M s ≤ M.length + 1 := by
  unfold mu
  have := @List.countP_le_length _ (fun m => decide (s.Mem m)) M
  split <;> omega

theorem exists_gt (l : List Int) : ∃ p, ∀ e ∈ l, e < p := by
  induction l with
  | nil => exact ⟨0, by simp⟩
  | cons a l ih =>
    obtain ⟨p, hp⟩ := ih
    refine ⟨if p ≤ a then a + 1 else p, ?_⟩
    intro e he
    simp only [List.mem_cons] at he
    rcases he with rfl | he
    · split <;> omega
    · have := hp e he
      split <;> omega

/-- a co-finite subset of a set makes that set co-finite -/
theorem inverse_of_le {s t : IntSet} (h : ∀ e, s.Mem e → t.Mem e) (hs : s.inverse = true) :
    t.inverse = true := by
  obtain ⟨p, hp⟩ := exists_gt (s.set ++ t.set)
  have hps : p ∉ s.set := fun hm => by have := hp p (by simp [hm]); omega
  have hpt : p ∉ t.set := fun hm => by have := hp p (by simp [hm]); omega
  have h1 : s.Mem p := by unfold IntSet.Mem; rw [hs]; simpa using hps
  have h2 := h p h1
  unfold IntSet.Mem at h2
  cases ht : t.inverse with
  | true => rfl
  | false => rw [ht] at h2; simp at h2; exact absurd h2 hpt

theorem countP_eq_of_le {α : Type} {p q : α → Bool} : ∀ (l : List α), (∀ x ∈ l, p x = true → q x = true) →
    l.countP q ≤ l.countP p → ∀ x ∈ l, q x = true → p x = true
  | [], _, _ => by simp
  | a :: l, h, hc => by
    have hmono : l.countP p ≤ l.countP q := List.countP_mono_left (fun x hx => h x (by simp [hx]))
    rw [List.countP_cons, List.countP_cons] at hc
    have ha := h a (by simp)
    intro x hx hq
    simp only [List.mem_cons] at hx
    by_cases hpa : p a = true
    · have hqa := ha hpa
      simp only [hpa, hqa, if_true] at hc
      rcases hx with rfl | hx
      · exact hpa
      · exact countP_eq_of_le l (fun x hx => h x (by simp [hx])) (by omega) x hx hq
    · by_cases hqa : q a = true
      · simp only [hpa, hqa, if_true] at hc
        simp at hc
        omega
      · simp only [hpa, hqa] at hc
        rcases hx with rfl | hx
        · exact absurd hq hqa
        · exact countP_eq_of_le l (fun x hx => h x (by simp [hx])) (by simpa using hc) x hx hq

theorem mu_mono (M : List Int) {s t : IntSet} (h : ∀ e, s.Mem e → t.Mem e) : mu M s ≤ mu M t := by
  unfold mu
  have h1 : M.countP (fun m => decide (s.Mem m)) ≤ M.countP (fun m => decide (t.Mem m)) :=
    List.countP_mono_left (fun x _ hx => by simpa using h x (by simpa using hx))
  have h2 : (if s.inverse then 1 else 0) ≤ (if t.inverse then 1 else 0 : Nat) := by
    cases hs : s.inverse with
    | false => simp
    | true => rw [inverse_of_le h hs]; simp
  omega

/-- Canonical representations over `M`: a set that grows without growing in measure did not change. -/
theorem eq_of_mu_le (M : List Int) {s t : IntSet} (hs : Sorted s.set) (ht : Sorted t.set)
    (hsM : ∀ e ∈ s.set, e ∈ M) (htM : ∀ e ∈ t.set, e ∈ M)
    (h : ∀ e, s.Mem e → t.Mem e) (hmu : mu M t ≤ mu M s) : s = t := by
  unfold mu at hmu
  have h1 : M.countP (fun m => decide (s.Mem m)) ≤ M.countP (fun m => decide (t.Mem m)) :=
    List.countP_mono_left (fun x _ hx => by simpa using h x (by simpa using hx))
  have hinv : s.inverse = t.inverse := by
    cases hsi : s.inverse with
    | true => rw [inverse_of_le h hsi]
    | false =>
      cases hti : t.inverse with
      | false => rfl
      | true => rw [hsi, hti] at hmu; simp at hmu; omega
  have hcount : M.countP (fun m => decide (t.Mem m)) ≤ M.countP (fun m => decide (s.Mem m)) := by
    rw [hinv] at hmu; omega
  have hback : ∀ m ∈ M, t.Mem m → s.Mem m := by
    intro m hm htm
    have := countP_eq_of_le M (fun x _ hx => by simpa using h x (by simpa using hx)) hcount m hm
      (by simpa using htm)
    simpa using this
  have hsets : s.set = t.set := by
    apply sorted_ext _ _ hs ht
    intro v
    constructor
    · intro hv
      have hvM := hsM v hv
      cases hsi : s.inverse with
      | false =>
        have : s.Mem v := by unfold IntSet.Mem; rw [hsi]; simpa using hv
        have := h v this
        unfold IntSet.Mem at this
        rw [← hinv, hsi] at this
        simpa using this
      | true =>
        -- v ∉ s as a set; if v ∉ t.set then v ∈ t as a set, hence in s: contradiction
        apply Classical.byContradiction
        intro hvt
        have htm : t.Mem v := by unfold IntSet.Mem; rw [← hinv, hsi]; simpa using hvt
        have := hback v hvM htm
        unfold IntSet.Mem at this
        rw [hsi] at this
        simp at this
        exact this hv
    · intro hv
      have hvM := htM v hv
      cases hsi : s.inverse with
      | false =>
        have htm : t.Mem v := by unfold IntSet.Mem; rw [← hinv, hsi]; simpa using hv
        have := hback v hvM htm
        unfold IntSet.Mem at this
        rw [hsi] at this
        simpa using this
      | true =>
        apply Classical.byContradiction
        intro hvs
        have hsm : s.Mem v := by unfold IntSet.Mem; rw [hsi]; simpa using hvs
        have := h v hsm
        unfold IntSet.Mem at this
        rw [← hinv, hsi] at this
        simp at this
        exact this hv
  cases s; cases t
  simp only at hinv hsets
  rw [hinv, hsets]

/-! ### the operations keep the explicit elements inside `M` -/

theorem set_merge_sub (a b : IntSet) (ha : Sorted a.set) (hb : Sorted b.set) {e : Int}
    (he : e ∈ (a.merge b).set) : e ∈ a.set ∨ e ∈ b.set := by
  unfold IntSet.merge at he
  have h1 := mem_combine a.set b.set e
  have h2 := mem_intersect a.set b.set ha hb e
  have h3 := mem_subtract a.set b.set ha hb e
  have h4 := mem_subtract b.set a.set hb ha e
  repeat' split at he
  all_goals simp_all

theorem set_inter_sub (a b : IntSet) (ha : Sorted a.set) (hb : Sorted b.set) {e : Int}
    (he : e ∈ (a.inter b).set) : e ∈ a.set ∨ e ∈ b.set := by
  unfold IntSet.inter at he
  have h1 := mem_combine a.set b.set e
  have h2 := mem_intersect a.set b.set ha hb e
  have h3 := mem_subtract a.set b.set ha hb e
  have h4 := mem_subtract b.set a.set hb ha e
  repeat' split at he
  all_goals simp_all

end TmVerif.IntSet
