import TmVerif.Proofs.ExpandInv
/-!
C13 helper lemmas, part 4: the shape invariant of the expansion state and the combined
specification of `expandExpr` / `expandRule` / `expandTop` / `expandUsers`.
-/
namespace TmVerif.Expand

/-- a list element after expansion: one plain body, or a choice of plain bodies -/
def ElemOk (n : Nat) (elem : Expr) : Prop :=
  Good n elem ∨ ∃ subs, elem = .choice subs ∧ ∀ a ∈ subs, Good n a

/-- shape of the defining expression of the `k`-th extracted nonterminal: a set, a lookahead, an
optional reference to an earlier nonterminal, or a list over earlier symbols that is non-empty
whenever it has a separator -/
def ValOk (cx : Ctx) (k : Nat) : Expr → Prop
  | .set i => i < cx.setTerms.length
  | .lookahead _ => True
  | .opt (.ref s) => s < cx.base + k
  | .list ne _ elem sep => (ne = true ∨ sep = .empty) ∧ ElemOk (cx.base + k) elem ∧ Good (cx.base + k) sep
  | _ => False

def StOk (cx : Ctx) (ext : List NT) : Prop := ∀ k nt, ext[k]? = some nt → ValOk cx k nt.value

theorem StOk.nil (cx : Ctx) : StOk cx [] := by intro k nt h; simp at h

theorem wrapChoice_elemOk {n : Nat} {alts : List Expr} (h : ∀ a ∈ alts, Good n a) :
    ElemOk n (wrapChoice alts) := by
  unfold wrapChoice
  split
  · next a => exact Or.inl (h a (by simp))
  · exact Or.inr ⟨alts, rfl, h⟩

theorem extract_inv (cx : Ctx) (curr : String) (ext : List NT) (v : Expr)
    (hst : StOk cx ext) (hv : ValOk cx ext.length v) :
    StOk cx (extract cx curr ext v).2 ∧
      ∃ k, (extract cx curr ext v).1 = .ref (cx.base + k) ∧ k < (extract cx curr ext v).2.length := by
  unfold extract
  simp only
  split
  · next k hreuse =>
    refine ⟨hst, k, rfl, ?_⟩
    split at hreuse
    · split at hreuse
      · next nt hnt =>
        split at hreuse
        · cases hreuse
          rcases Nat.lt_or_ge k ext.length with h | h
          · exact h
          · rw [List.getElem?_eq_none h] at hnt; cases hnt
        · cases hreuse
      · cases hreuse
    · cases hreuse
  · refine ⟨?_, ext.length, rfl, by simp⟩
    intro k nt hk
    rcases Nat.lt_or_ge k ext.length with h | h
    · rw [List.getElem?_append_left h] at hk; exact hst k nt hk
    · have hk' : k = ext.length := by
        rcases Nat.lt_or_ge ext.length k with h' | h'
        · rw [List.getElem?_eq_none (by simp; omega)] at hk; cases hk
        · omega
      subst hk'
      simp at hk; subst hk; exact hv

theorem isRef_eq {e : Expr} (h : isRef e = true) : ∃ s, e = .ref s := by
  cases e <;> simp [isRef] at h ⊢

variable (cx : Ctx) (curr : String)

/-- a sequence of references expands to one alternative without touching the state -/
theorem expandSeq_refs (ext : List NT) (n : Nat) :
    ∀ (es : List Expr) (x : Expr), es.all isRef = true → refsLtList n es = true → Good n x →
      ∃ a, expandSeq cx curr ext [x] es = ([a], ext) ∧ Good n a
  | [], x, _, _, hx => ⟨x, by simp [expandSeq], hx⟩
  | e :: es, x, h, hr, hx => by
    simp only [List.all_cons, Bool.and_eq_true] at h
    simp only [refsLtList, Bool.and_eq_true] at hr
    obtain ⟨s, rfl⟩ := isRef_eq h.1
    simp only [expandSeq, expandExpr]
    have hg : Good n (concat [x, .ref s]) := by
      apply concat_good
      intro z hz; simp at hz
      rcases hz with rfl | rfl
      · exact hx
      · exact ⟨by simp [plain], hr.1⟩
    have := expandSeq_refs ext n es (concat [x, .ref s]) h.2 hr.2 hg
    simpa [multiConcat] using this

theorem expandExpr_simpleSep (ext : List NT) (n : Nat) (s : Expr) (h : simpleSep s = true)
    (hr : refsLt n s = true) : ∃ a, expandExpr cx curr ext s = ([a], ext) ∧ Good n a := by
  cases s <;> simp [simpleSep] at h
  · exact ⟨.empty, by simp [expandExpr], by simp [plain], by simp [refsLt]⟩
  · next t => exact ⟨.ref t, by simp [expandExpr], by simp [plain], hr⟩
  · next es =>
    simp only [refsLt] at hr
    simp only [expandExpr]
    exact expandSeq_refs cx curr ext n es .empty (by simpa [List.all_eq_true] using h) hr
      ⟨by simp [plain], by simp [refsLt]⟩

mutual
theorem wf_refsLt (n m : Nat) : ∀ (e : Expr), wfExpr n m e = true → refsLt n e = true
  | .empty, _ => by simp [refsLt]
  | .ref s, h => by simpa [wfExpr, refsLt] using h
  | .opt e, h => by simp only [wfExpr] at h; simp only [refsLt]; exact wf_refsLt n m e h
  | .seq es, h => by simp only [wfExpr] at h; simp only [refsLt]; exact wfList_refsLt n m es h
  | .choice es, h => by simp only [wfExpr] at h; simp only [refsLt]; exact wfList_refsLt n m es h
  | .list _ _ e s, h => by
    simp only [wfExpr, Bool.and_eq_true] at h
    simp only [refsLt, Bool.and_eq_true]
    exact ⟨wf_refsLt n m e h.1, wf_refsLt n m s h.2.2⟩
  | .set _, _ => by simp [refsLt]
  | .lookahead _, _ => by simp [refsLt]
  | .arrow _ e, h => by simp only [wfExpr] at h; simp only [refsLt]; exact wf_refsLt n m e h
  | .assign _ e, h => by simp only [wfExpr] at h; simp only [refsLt]; exact wf_refsLt n m e h
  | .append _ e, h => by simp only [wfExpr] at h; simp only [refsLt]; exact wf_refsLt n m e h
  | .prec _ _, h => by simp [wfExpr] at h
  | .command _, _ => by simp [refsLt]
  | .marker _, _ => by simp [refsLt]
theorem wfList_refsLt (n m : Nat) : ∀ (es : List Expr), wfList n m es = true → refsLtList n es = true
  | [], _ => by simp [refsLtList]
  | e :: es, h => by
    simp only [wfList, Bool.and_eq_true] at h
    simp only [refsLtList, Bool.and_eq_true]
    exact ⟨wf_refsLt n m e h.1, wfList_refsLt n m es h.2⟩
end

theorem prefix_length_le {a b : List NT} (h : a <+: b) : a.length ≤ b.length := h.length_le

theorem good_ref {n s : Nat} (h : s < n) : Good n (.ref s) := ⟨by simp [plain], by simpa [refsLt] using h⟩

theorem good_wrap {n : Nat} {v : Expr} (h : Good n v) (k : Nat) :
    Good n (.arrow k v) ∧ Good n (.assign k v) ∧ Good n (.append k v) ∧ Good n (.prec k v) := by
  obtain ⟨h1, h2⟩ := h
  refine ⟨⟨?_, ?_⟩, ⟨?_, ?_⟩, ⟨?_, ?_⟩, ⟨?_, ?_⟩⟩ <;> simp [plain, refsLt, h1, h2]

mutual
theorem expandExpr_inv : ∀ (e : Expr) (ext : List NT),
    wfExpr cx.base cx.setTerms.length e = true → StOk cx ext →
    StOk cx (expandExpr cx curr ext e).2 ∧
      ∀ a ∈ (expandExpr cx curr ext e).1, Good (cx.base + (expandExpr cx curr ext e).2.length) a
  | .empty, ext, _, hst => by
    simp only [expandExpr]
    exact ⟨hst, fun a ha => by simp at ha; subst ha; exact ⟨by simp [plain], by simp [refsLt]⟩⟩
  | .ref s, ext, hw, hst => by
    simp only [expandExpr]
    refine ⟨hst, fun a ha => ?_⟩
    simp at ha; subst ha
    simp only [wfExpr, decide_eq_true_eq] at hw
    exact good_ref (by omega)
  | .command _, ext, _, hst => by
    simp only [expandExpr]
    exact ⟨hst, fun a ha => by simp at ha; subst ha; exact ⟨by simp [plain], by simp [refsLt]⟩⟩
  | .marker _, ext, _, hst => by
    simp only [expandExpr]
    exact ⟨hst, fun a ha => by simp at ha; subst ha; exact ⟨by simp [plain], by simp [refsLt]⟩⟩
  | .prec _ _, ext, hw, _ => by simp [wfExpr] at hw
  | .opt e, ext, hw, hst => by
    simp only [wfExpr] at hw
    have ih := expandExpr_inv e ext hw hst
    simp only [expandExpr]
    refine ⟨ih.1, fun a ha => ?_⟩
    simp only [List.mem_append, List.mem_singleton] at ha
    rcases ha with ha | rfl
    · exact ih.2 a ha
    · exact ⟨by simp [plain], by simp [refsLt]⟩
  | .seq es, ext, hw, hst => by
    simp only [wfExpr] at hw
    simp only [expandExpr]
    exact expandSeq_inv es ext [.empty] hw hst
      (fun a ha => by simp at ha; subst ha; exact ⟨by simp [plain], by simp [refsLt]⟩)
  | .choice es, ext, hw, hst => by
    simp only [wfExpr] at hw
    simp only [expandExpr]
    exact expandAlt_inv es ext hw hst
  | .arrow n e, ext, hw, hst => by
    simp only [wfExpr] at hw
    have ih := expandExpr_inv e ext hw hst
    simp only [expandExpr]
    refine ⟨ih.1, fun a ha => ?_⟩
    simp only [List.mem_map] at ha
    obtain ⟨v, hv, rfl⟩ := ha
    exact (good_wrap (ih.2 v hv) n).1
  | .assign n e, ext, hw, hst => by
    simp only [wfExpr] at hw
    have ih := expandExpr_inv e ext hw hst
    simp only [expandExpr]
    refine ⟨ih.1, fun a ha => ?_⟩
    simp only [List.mem_map] at ha
    obtain ⟨v, hv, rfl⟩ := ha
    split
    · exact ih.2 v hv
    · exact (good_wrap (ih.2 v hv) n).2.1
  | .append n e, ext, hw, hst => by
    simp only [wfExpr] at hw
    have ih := expandExpr_inv e ext hw hst
    simp only [expandExpr]
    refine ⟨ih.1, fun a ha => ?_⟩
    simp only [List.mem_map] at ha
    obtain ⟨v, hv, rfl⟩ := ha
    split
    · exact ih.2 v hv
    · exact (good_wrap (ih.2 v hv) n).2.2.1
  | .set i, ext, hw, hst => by
    simp only [wfExpr, decide_eq_true_eq] at hw
    have hx := extract_inv cx curr ext (.set i) hst (by simpa [ValOk] using hw)
    simp only [expandExpr]
    refine ⟨hx.1, fun a ha => ?_⟩
    simp at ha; subst ha
    obtain ⟨k, hk, hlt⟩ := hx.2
    rw [hk]; exact good_ref (by omega)
  | .lookahead ps, ext, _, hst => by
    have hx := extract_inv cx curr ext (.lookahead ps) hst (by simp [ValOk])
    simp only [expandExpr]
    refine ⟨hx.1, fun a ha => ?_⟩
    simp at ha; subst ha
    obtain ⟨k, hk, hlt⟩ := hx.2
    rw [hk]; exact good_ref (by omega)
  | .list ne rr e s, ext, hw, hst => by
    simp only [wfExpr, Bool.and_eq_true] at hw
    obtain ⟨hwe, hss, hws⟩ := hw
    have ih1 := expandExpr_inv e ext hwe hst
    have hp1 := (expandExpr_spec cx curr e ext).1
    simp only [expandExpr]
    generalize h1 : expandExpr cx curr ext e = r1 at ih1 hp1 ⊢
    obtain ⟨alts, ext1⟩ := r1
    simp only at ih1 hp1
    -- the separator: exactly one plain alternative, state untouched
    have hsep : ∃ a, (if (!isEmptyExpr s) = true then expandExpr cx curr ext1 s else ([Expr.empty], ext1)) = ([a], ext1) ∧
        Good (cx.base + ext1.length) a ∧ ((!isEmptyExpr s) = false → a = .empty) := by
      by_cases hs : (!isEmptyExpr s) = true
      · obtain ⟨a, ha, hg⟩ := expandExpr_simpleSep cx curr ext1 (cx.base + ext1.length) s hss
          (refsLt_mono (by omega) s (wf_refsLt _ _ s hws))
        exact ⟨a, by simp [hs, ha], hg, fun h => by simp [h] at hs⟩
      · exact ⟨.empty, by simp [hs], ⟨by simp [plain], by simp [refsLt]⟩, fun _ => rfl⟩
    obtain ⟨sa, hsepEq, hsg, hse⟩ := hsep
    simp only [hsepEq]
    have hval : ValOk cx ext1.length
        (Expr.list (ne || !isEmptyExpr s) rr (wrapChoice alts) (wrapChoice [sa])) := by
      simp only [ValOk, wrapChoice]
      refine ⟨?_, wrapChoice_elemOk ih1.2, hsg⟩
      cases hs : (!isEmptyExpr s)
      · exact Or.inr (hse hs)
      · simp
    have hx := extract_inv cx curr ext1 _ ih1.1 hval
    generalize h3 : extract cx curr ext1
      (Expr.list (ne || !isEmptyExpr s) rr (wrapChoice alts) (wrapChoice [sa])) = r3 at hx ⊢
    obtain ⟨r, ext3⟩ := r3
    simp only at hx
    obtain ⟨hst3, k3, hr3, hk3⟩ := hx
    by_cases hopt : (!ne && !isEmptyExpr s) = true
    · rw [if_pos hopt]
      have hy := extract_inv cx curr ext3 (.opt r) hst3 (by rw [hr3]; simp only [ValOk]; omega)
      generalize h4 : extract cx curr ext3 (.opt r) = r4 at hy ⊢
      obtain ⟨r', ext4⟩ := r4
      simp only at hy ⊢
      refine ⟨hy.1, fun a ha => ?_⟩
      simp at ha; subst ha
      obtain ⟨k, hk, hlt⟩ := hy.2
      rw [hk]; exact good_ref (by omega)
    · rw [if_neg hopt]
      refine ⟨hst3, fun a ha => ?_⟩
      simp at ha; subst ha
      show Good (cx.base + ext3.length) _
      rw [hr3]; exact good_ref (by omega)
  termination_by structural e => e
theorem expandSeq_inv : ∀ (es : List Expr) (ext : List NT) (acc : List Expr),
    wfList cx.base cx.setTerms.length es = true → StOk cx ext →
    (∀ a ∈ acc, Good (cx.base + ext.length) a) →
    StOk cx (expandSeq cx curr ext acc es).2 ∧
      ∀ a ∈ (expandSeq cx curr ext acc es).1, Good (cx.base + (expandSeq cx curr ext acc es).2.length) a
  | [], ext, acc, _, hst, hacc => by
    simp only [expandSeq]; exact ⟨hst, hacc⟩
  | e :: es, ext, acc, hw, hst, hacc => by
    simp only [wfList, Bool.and_eq_true] at hw
    have ih1 := expandExpr_inv e ext hw.1 hst
    have hp1 := (expandExpr_spec cx curr e ext).1
    simp only [expandSeq]
    generalize h1 : expandExpr cx curr ext e = r1 at ih1 hp1 ⊢
    obtain ⟨r, ext1⟩ := r1
    simp only at ih1 hp1
    have hle := prefix_length_le hp1
    exact expandSeq_inv es ext1 (multiConcat acc r) hw.2 ih1.1
      (multiConcat_good (fun a ha => (hacc a ha).mono (by omega)) ih1.2)
  termination_by structural es => es
theorem expandAlt_inv : ∀ (es : List Expr) (ext : List NT),
    wfList cx.base cx.setTerms.length es = true → StOk cx ext →
    StOk cx (expandAlt cx curr ext es).2 ∧
      ∀ a ∈ (expandAlt cx curr ext es).1, Good (cx.base + (expandAlt cx curr ext es).2.length) a
  | [], ext, _, hst => by
    simp only [expandAlt]; exact ⟨hst, fun a ha => by simp at ha⟩
  | e :: es, ext, hw, hst => by
    simp only [wfList, Bool.and_eq_true] at hw
    have ih1 := expandExpr_inv e ext hw.1 hst
    simp only [expandAlt]
    generalize h1 : expandExpr cx curr ext e = r1 at ih1 ⊢
    obtain ⟨r, ext1⟩ := r1
    simp only at ih1
    have ih2 := expandAlt_inv es ext1 hw.2 ih1.1
    have hp2 := (expandAlt_spec cx curr es ext1).1
    generalize h2 : expandAlt cx curr ext1 es = r2 at ih2 hp2 ⊢
    obtain ⟨rs, ext2⟩ := r2
    simp only at ih2 hp2 ⊢
    have hle := prefix_length_le hp2
    refine ⟨ih2.1, fun a ha => ?_⟩
    rcases List.mem_append.1 ha with ha | ha
    · exact (ih1.2 a ha).mono (by omega)
    · exact ih2.2 a ha
  termination_by structural es => es
end

/-! ### the combined specification of one expansion step -/

/-- `alts`, produced while the state went from `ext` to `ext'`, denote `L ρ` for every environment
consistent with `ext'`, are plain and bounded, and the state stays well-shaped -/
structure Step (cx : Ctx) (ext : List NT) (alts : List Expr) (ext' : List NT) (L : (Nat → Lang) → Lang) :
    Prop where
  pre : ext <+: ext'
  lang : ∀ ρ, Consistent cx ρ ext' → denAlts cx.sets ρ alts = L ρ
  st : StOk cx ext → StOk cx ext'
  good : StOk cx ext → ∀ a ∈ alts, Good (cx.base + ext'.length) a

theorem Step.append {cx : Ctx} {e0 e1 e2 : List NT} {a b : List Expr} {L1 L2 : (Nat → Lang) → Lang}
    (h1 : Step cx e0 a e1 L1) (h2 : Step cx e1 b e2 L2) :
    Step cx e0 (a ++ b) e2 (fun ρ => Lang.union (L1 ρ) (L2 ρ)) where
  pre := h1.pre.trans h2.pre
  lang := fun ρ hc => by rw [denAlts_append, h1.lang ρ (hc.prefix h2.pre), h2.lang ρ hc]
  st := fun h => h2.st (h1.st h)
  good := fun h x hx => by
    rcases List.mem_append.1 hx with hx | hx
    · exact (h1.good h x hx).mono (by have := prefix_length_le h2.pre; omega)
    · exact h2.good (h1.st h) x hx

theorem expandExpr_step (e : Expr) (ext : List NT) (hw : wfExpr cx.base cx.setTerms.length e = true) :
    Step cx ext (expandExpr cx curr ext e).1 (expandExpr cx curr ext e).2 (fun ρ => den cx.sets ρ e) where
  pre := (expandExpr_spec cx curr e ext).1
  lang := (expandExpr_spec cx curr e ext).2
  st := fun h => (expandExpr_inv cx curr e ext hw h).1
  good := fun h => (expandExpr_inv cx curr e ext hw h).2

theorem expandRule_step (e : Expr) (ext : List NT) (hw : wfRule cx.base cx.setTerms.length e = true) :
    Step cx ext (expandRule cx curr ext e).1 (expandRule cx curr ext e).2 (fun ρ => den cx.sets ρ e) := by
  cases e
  case prec s e =>
    simp only [wfRule] at hw
    have h := expandExpr_step cx curr e ext hw
    simp only [expandRule]
    exact {
      pre := h.pre
      lang := fun ρ hc => by
        rw [denAlts_map _ _ _ (fun v => by simp [den]), h.lang ρ hc]; simp [den]
      st := h.st
      good := fun hs a ha => by
        simp only [List.mem_map] at ha
        obtain ⟨v, hv, rfl⟩ := ha
        exact (good_wrap (h.good hs v hv) s).2.2.2 }
  all_goals (simp only [wfRule] at hw; simp only [expandRule]; exact expandExpr_step cx curr _ ext hw)

theorem expandRules_step : ∀ (es : List Expr) (ext : List NT),
    (∀ e ∈ es, wfRule cx.base cx.setTerms.length e = true) →
    Step cx ext (expandRules cx curr ext es).1 (expandRules cx curr ext es).2
      (fun ρ => denAlts cx.sets ρ es)
  | [], ext, _ => by
    simp only [expandRules]
    exact ⟨List.prefix_refl _, fun _ _ => rfl, id, fun _ a ha => by simp at ha⟩
  | e :: es, ext, hw => by
    have h1 := expandRule_step cx curr e ext (hw e (by simp))
    simp only [expandRules]
    generalize expandRule cx curr ext e = r1 at h1 ⊢
    obtain ⟨r, ext1⟩ := r1
    have h2 := expandRules_step es ext1 (fun x hx => hw x (by simp [hx]))
    generalize expandRules cx curr ext1 es = r2 at h2 ⊢
    obtain ⟨rs, ext2⟩ := r2
    simp only at h1 h2 ⊢
    have := h1.append h2
    refine ⟨this.pre, fun ρ hc => ?_, this.st, this.good⟩
    rw [this.lang ρ hc, denAlts_cons]

theorem mem_dropEmpties {a : Expr} : ∀ {l : List Expr}, a ∈ dropEmpties l → a ∈ l
  | [], h => by simp [dropEmpties] at h
  | e :: es, h => by
    simp only [dropEmpties] at h
    split at h
    · exact List.mem_cons_of_mem _ (mem_dropEmpties h)
    · rcases List.mem_cons.1 h with rfl | h
      · simp
      · exact List.mem_cons_of_mem _ (mem_dropEmpties h)

theorem mem_collapseEmpty {a : Expr} : ∀ {l : List Expr}, a ∈ collapseEmpty l → a ∈ l
  | [], h => by simp [collapseEmpty] at h
  | e :: es, h => by
    simp only [collapseEmpty] at h
    split at h
    · rcases List.mem_cons.1 h with rfl | h
      · simp
      · exact List.mem_cons_of_mem _ (mem_dropEmpties h)
    · rcases List.mem_cons.1 h with rfl | h
      · simp
      · exact List.mem_cons_of_mem _ (mem_collapseEmpty h)

/-- dropping further `Empty` alternatives does not change the language once `ε` is present -/
theorem denAlts_dropEmpties (sets : Nat → List Nat) (ρ : Nat → Lang) : ∀ (l : List Expr),
    Lang.union Lang.eps (denAlts sets ρ (dropEmpties l)) = Lang.union Lang.eps (denAlts sets ρ l)
  | [] => by simp [dropEmpties]
  | e :: es => by
    simp only [dropEmpties]
    split
    · next h =>
      rw [isEmptyExpr_eq h, denAlts_cons, denAlts_dropEmpties sets ρ es]
      apply Lang.ext; intro w; simp [Lang.union, den]
    · rw [denAlts_cons, denAlts_cons]
      have := denAlts_dropEmpties sets ρ es
      apply Lang.ext; intro w
      have hw := congrFun this w
      simp only [Lang.union, eq_iff_iff] at hw ⊢
      constructor
      · rintro (h | h | h)
        · exact Or.inl h
        · exact Or.inr (Or.inl h)
        · rcases hw.1 (Or.inr h) with h | h
          · exact Or.inl h
          · exact Or.inr (Or.inr h)
      · rintro (h | h | h)
        · exact Or.inl h
        · exact Or.inr (Or.inl h)
        · rcases hw.2 (Or.inr h) with h | h
          · exact Or.inl h
          · exact Or.inr (Or.inr h)

theorem denAlts_collapseEmpty (sets : Nat → List Nat) (ρ : Nat → Lang) : ∀ (l : List Expr),
    denAlts sets ρ (collapseEmpty l) = denAlts sets ρ l
  | [] => by simp [collapseEmpty]
  | e :: es => by
    simp only [collapseEmpty]
    split
    · next h =>
      rw [isEmptyExpr_eq h, denAlts_cons, denAlts_cons]
      simpa [den] using denAlts_dropEmpties sets ρ es
    · rw [denAlts_cons, denAlts_cons, denAlts_collapseEmpty sets ρ es]

/-- what the first loop of `Expand` establishes for one user nonterminal with value `e`, relative to
the final state `extF` -/
def UserOk (cx : Ctx) (extF : List NT) (e : Expr) : Option (List Expr) → Prop
  | some alts =>
    (∀ ρ, Consistent cx ρ extF → denAlts cx.sets ρ alts = den cx.sets ρ e) ∧
      ∀ a ∈ alts, Good (cx.base + extF.length) a
  | none => (∃ i, e = .set i ∧ i < cx.setTerms.length) ∨ ∃ ps, e = .lookahead ps

theorem UserOk.mono {cx : Ctx} {e1 e2 : List NT} {e : Expr} {o : Option (List Expr)}
    (h : UserOk cx e1 e o) (hp : e1 <+: e2) : UserOk cx e2 e o := by
  cases o with
  | none => exact h
  | some alts =>
    exact ⟨fun ρ hc => h.1 ρ (hc.prefix hp),
      fun a ha => (h.2 a ha).mono (by have := prefix_length_le hp; omega)⟩

theorem step_userOk {cx : Ctx} {ext ext' : List NT} {alts : List Expr} {e : Expr}
    (h : Step cx ext alts ext' (fun ρ => den cx.sets ρ e)) (hst : StOk cx ext) :
    UserOk cx ext' e (some (collapseEmpty alts)) :=
  ⟨fun ρ hc => by rw [denAlts_collapseEmpty, h.lang ρ hc],
   fun a ha => h.good hst a (mem_collapseEmpty ha)⟩

theorem expandTop_spec (e : Expr) (ext : List NT) (hw : wfTop cx.base cx.setTerms.length e = true)
    (hst : StOk cx ext) :
    ext <+: (expandTop cx curr ext e).2 ∧ StOk cx (expandTop cx curr ext e).2 ∧
      UserOk cx (expandTop cx curr ext e).2 e (expandTop cx curr ext e).1 := by
  cases e
  case choice subs =>
    simp only [wfTop, List.all_eq_true] at hw
    have h := expandRules_step cx curr subs ext hw
    simp only [expandTop]
    generalize expandRules cx curr ext subs = r at h ⊢
    obtain ⟨alts, ext'⟩ := r
    simp only at h ⊢
    have h' : Step cx ext alts ext' (fun ρ => den cx.sets ρ (.choice subs)) :=
      ⟨h.pre, fun ρ hc => by rw [h.lang ρ hc]; simp [den, denAlt_eq_denAlts], h.st, h.good⟩
    exact ⟨h.pre, h.st hst, step_userOk h' hst⟩
  case set i =>
    simp only [wfTop, wfRule, wfExpr, decide_eq_true_eq] at hw
    simp only [expandTop]
    exact ⟨List.prefix_refl _, hst, Or.inl ⟨i, rfl, hw⟩⟩
  case lookahead ps =>
    simp only [expandTop]
    exact ⟨List.prefix_refl _, hst, Or.inr ⟨ps, rfl⟩⟩
  all_goals
    simp only [wfTop] at hw
    have h := expandRule_step cx curr _ ext hw
    simp only [expandTop]
    exact ⟨h.pre, h.st hst, step_userOk h hst⟩

theorem expandUsers_spec : ∀ (us : List (String × Expr)) (ext : List NT),
    (∀ u ∈ us, wfTop cx.base cx.setTerms.length u.2 = true) → StOk cx ext →
    ext <+: (expandUsers cx ext us).2 ∧ StOk cx (expandUsers cx ext us).2 ∧
      (expandUsers cx ext us).1.length = us.length ∧
      ∀ (i : Nat) (u : String × Expr), us[i]? = some u → ∃ o, (expandUsers cx ext us).1[i]? = some o ∧
        UserOk cx (expandUsers cx ext us).2 u.2 o
  | [], ext, _, hst => by
    simp only [expandUsers]
    exact ⟨List.prefix_refl _, hst, rfl, fun i u h => by simp at h⟩
  | (n, e) :: us, ext, hw, hst => by
    have h1 := expandTop_spec cx n e ext (hw (n, e) (by simp)) hst
    simp only [expandUsers]
    generalize expandTop cx n ext e = r1 at h1 ⊢
    obtain ⟨o1, ext1⟩ := r1
    simp only at h1
    have h2 := expandUsers_spec us ext1 (fun u hu => hw u (by simp [hu])) h1.2.1
    generalize expandUsers cx ext1 us = r2 at h2 ⊢
    obtain ⟨os, ext2⟩ := r2
    simp only at h2 ⊢
    refine ⟨h1.1.trans h2.1, h2.2.1, by simp [h2.2.2.1], ?_⟩
    intro i u hi
    cases i with
    | zero =>
      simp at hi; subst hi
      exact ⟨o1, by simp, h1.2.2.mono h2.1⟩
    | succ i =>
      simp at hi
      obtain ⟨o, ho, hu⟩ := h2.2.2.2 i u hi
      exact ⟨o, by simpa using ho, hu⟩

end TmVerif.Expand
