import TmVerif.Model.Ident
/-!
Helper lemmas for C28 (core Lean only): invariants of the `Produce` loop.
-/
namespace TmVerif.Ident

/-! ### words -/

/-- a word starts with a lower-case letter and continues with lower-case letters / digits -/
def wordOK (w : Str) : Bool :=
  match w with
  | [] => false
  | c :: rest => isLowerA c && rest.all (fun c => isLowerA c || isDigitA c)

theorem lookup_all {β} (p : β → Bool) (l : List (Nat × β)) (k : Nat) (v : β)
    (hall : l.all (fun x => p x.2) = true) (h : l.lookup k = some v) : p v = true := by
  induction l with
  | nil => simp [List.lookup] at h
  | cons x l ih =>
    obtain ⟨a, b⟩ := x
    simp only [List.all_cons, Bool.and_eq_true] at hall
    simp only [List.lookup] at h
    split at h
    · simp at h; subst h; exact hall.1
    · exact ih hall.2 h

theorem charName_ok (r : Nat) (w : Str) (h : charName r = some w) : wordOK w = true :=
  lookup_all wordOK charNameTable r w (by decide) h

theorem hexDigit_ok (n : Nat) (h : n < 16) : (isLowerA (hexDigit n) || isDigitA (hexDigit n)) = true := by
  unfold hexDigit isLowerA isDigitA
  split <;> simp <;> omega

theorem wordOf_ok (r : Nat) : wordOK (wordOf r) = true := by
  unfold wordOf
  split
  · next w h => exact charName_ok r w h
  · split
    · simp only [wordOK, List.all_cons, List.all_nil, Bool.and_true, Bool.and_eq_true]
      refine ⟨by decide, hexDigit_ok _ (Nat.mod_lt _ (by decide)), hexDigit_ok _ (Nat.mod_lt _ (by decide))⟩
    · simp only [wordOK, List.all_cons, List.all_nil, Bool.and_true, Bool.and_eq_true]
      refine ⟨by decide, hexDigit_ok _ (Nat.mod_lt _ (by decide)), hexDigit_ok _ (Nat.mod_lt _ (by decide)),
        hexDigit_ok _ (Nat.mod_lt _ (by decide)), hexDigit_ok _ (Nat.mod_lt _ (by decide)),
        hexDigit_ok _ (Nat.mod_lt _ (by decide)), hexDigit_ok _ (Nat.mod_lt _ (by decide))⟩


/-! ### buffer invariants -/

theorem identChar_iff (c : Nat) : isIdentChar c = true ↔
    (65 ≤ c ∧ c ≤ 90) ∨ (97 ≤ c ∧ c ≤ 122) ∨ (48 ≤ c ∧ c ≤ 57) ∨ c = 95 := by
  simp [isIdentChar, isLetterA, isLowerA, isUpperA, isDigitA]; omega

/-- all characters are identifier characters and the first one is not a digit -/
def Inv (buf : Str) : Prop :=
  (∀ c ∈ buf, isIdentChar c = true) ∧ (∀ c, buf.head? = some c → isDigitA c = false)

/-- `Inv`, and the buffer is neither empty nor `_` -/
def Solid (buf : Str) : Prop :=
  Inv buf ∧ (2 ≤ buf.length ∨ ∃ c, buf.head? = some c ∧ c ≠ 95)

/-- what may be appended to `buf` -/
def ExtOK (buf ext : Str) : Prop :=
  (∀ c ∈ ext, isIdentChar c = true) ∧ (buf = [] → ∀ c, ext.head? = some c → isDigitA c = false)

theorem inv_nil : Inv [] := by simp [Inv]

theorem inv_append {buf ext : Str} (h : Inv buf) (he : ExtOK buf ext) : Inv (buf ++ ext) := by
  refine ⟨?_, ?_⟩
  · intro c hc
    rcases List.mem_append.1 hc with hc | hc
    · exact h.1 c hc
    · exact he.1 c hc
  · intro c hc
    cases buf with
    | nil => exact he.2 rfl c (by simpa using hc)
    | cons b buf => exact h.2 c (by simpa using hc)

theorem solid_append {buf ext : Str} (h : Solid buf) (he : ExtOK buf ext) : Solid (buf ++ ext) := by
  refine ⟨inv_append h.1 he, ?_⟩
  rcases h.2 with h2 | ⟨c, hc, hne⟩
  · left; simp; omega
  · right
    cases buf with
    | nil => simp at hc
    | cons b buf => exact ⟨c, by simpa using hc, hne⟩

theorem solid_valid {buf : Str} (h : Solid buf) : validIdent buf = true := by
  obtain ⟨⟨hall, hhead⟩, h2⟩ := h
  cases buf with
  | nil => simp at h2
  | cons c rest =>
    have hd : isDigitA c = false := hhead c rfl
    have hall' : (c :: rest).all isIdentChar = true := by
      simp only [List.all_eq_true]; exact hall
    simp only [validIdent, hd, hall', Bool.not_false, Bool.true_and, Bool.not_eq_true', Bool.and_eq_false_iff]
    rcases h2 with h2 | ⟨d, hd', hne⟩
    · right; cases rest with
      | nil => simp at h2
      | cons _ _ => rfl
    · left; simp at hd'; subst hd'; simpa using hne

theorem toUpperA_ident (c : Nat) (h : (isLowerA c || isDigitA c) = true) :
    isIdentChar (toUpperA c) = true := by
  rw [identChar_iff]
  simp [isLowerA, isDigitA] at h
  unfold toUpperA; split <;> omega

theorem lower_ident (c : Nat) (h : (isLowerA c || isDigitA c) = true) : isIdentChar c = true := by
  rw [identChar_iff]
  simp [isLowerA, isDigitA] at h
  omega

/-- `write` appends a non-empty run of identifier characters that starts with a letter -/
theorem write_ext (style : Style) (buf w : Str) (hw : wordOK w = true) :
    ∃ ext, write style buf w = buf ++ ext ∧ ext ≠ [] ∧ (∀ c ∈ ext, isIdentChar c = true) ∧
      (buf = [] → ∃ c, ext.head? = some c ∧ isLetterA c = true ∧
        (style ≠ .camelLower → isUpperA c = true)) := by
  cases w with
  | nil => simp [wordOK] at hw
  | cons c rest =>
    simp only [wordOK, Bool.and_eq_true, List.all_eq_true] at hw
    obtain ⟨hc, hrest⟩ := hw
    have hcU : isUpperA (toUpperA c) = true := by
      simp [isLowerA] at hc; simp [isUpperA, toUpperA, hc]; omega
    have hcI : isIdentChar (toUpperA c) = true := toUpperA_ident c (by simp [hc])
    have hcI' : isIdentChar c = true := lower_ident c (by simp [hc])
    have hcL : isLetterA c = true := by simp [isLetterA, hc]
    have hcUL : isLetterA (toUpperA c) = true := by simp [isLetterA, hcU]
    have hrU : ∀ x ∈ rest.map toUpperA, isIdentChar x = true := by
      intro x hx
      obtain ⟨y, hy, rfl⟩ := List.mem_map.1 hx
      exact toUpperA_ident y (hrest y hy)
    have hrI : ∀ x ∈ rest, isIdentChar x = true := fun x hx => lower_ident x (hrest x hx)
    cases style
    · -- camelCase
      refine ⟨toUpperA c :: rest, by simp [write], by simp, ?_, ?_⟩
      · intro x hx; rcases List.mem_cons.1 hx with rfl | hx
        · exact hcI
        · exact hrI x hx
      · intro _; exact ⟨_, rfl, hcUL, fun _ => hcU⟩
    · -- camelLower
      by_cases hb : buf.length > 0
      · refine ⟨toUpperA c :: rest, by simp [write, hb], by simp, ?_, ?_⟩
        · intro x hx; rcases List.mem_cons.1 hx with rfl | hx
          · exact hcI
          · exact hrI x hx
        · intro h; subst h; simp at hb
      · refine ⟨c :: rest, by simp [write, hb], by simp, ?_, ?_⟩
        · intro x hx; rcases List.mem_cons.1 hx with rfl | hx
          · exact hcI'
          · exact hrI x hx
        · intro _; exact ⟨_, rfl, hcL, fun h => absurd rfl h⟩
    · -- upperCase
      refine ⟨toUpperA c :: rest.map toUpperA, by simp [write], by simp, ?_, ?_⟩
      · intro x hx; rcases List.mem_cons.1 hx with rfl | hx
        · exact hcI
        · exact hrU x hx
      · intro _; exact ⟨_, rfl, hcUL, fun _ => hcU⟩
    · -- upperUnderscores
      by_cases hb : buf.length > 0
      · refine ⟨95 :: toUpperA c :: rest.map toUpperA, by simp [write, hb], by simp, ?_, ?_⟩
        · intro x hx; rcases List.mem_cons.1 hx with rfl | hx
          · decide
          · rcases List.mem_cons.1 hx with rfl | hx
            · exact hcI
            · exact hrU x hx
        · intro h; subst h; simp at hb
      · refine ⟨toUpperA c :: rest.map toUpperA, by simp [write, hb], by simp, ?_, ?_⟩
        · intro x hx; rcases List.mem_cons.1 hx with rfl | hx
          · exact hcI
          · exact hrU x hx
        · intro _; exact ⟨_, rfl, hcUL, fun _ => hcU⟩

end TmVerif.Ident
