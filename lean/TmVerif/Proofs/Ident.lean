import TmVerif.Model.Ident
/-!
Helper lemmas for C28 (core Lean only): invariants of the `Produce` loop.
-/
namespace TmVerif.Ident

/-! ### words -/

/-- a word starts with a lower-case letter and continues with lower-case letters / digits -/
def wordOK (w : Str) : Bool :=
  match w with
  | [] => false
  | c :: rest => isLowerA c && rest.all (fun c => isLowerA c || isDigitA c)

theorem lookup_all {β} (p : β → Bool) (l : List (Nat × β)) (k : Nat) (v : β)
    (hall : l.all (fun x => p x.2) = true) (h : l.lookup k = some v) : p v = true := by
  induction l with
  | nil => simp [List.lookup] at h
  | cons x l ih =>
    obtain ⟨a, b⟩ := x
    simp only [List.all_cons, Bool.and_eq_true] at hall
    simp only [List.lookup] at h
    split at h
    · simp at h; subst h; exact hall.1
    · exact ih hall.2 h

theorem charName_ok (r : Nat) (w : Str) (h : charName r = some w) : wordOK w = true :=
  lookup_all wordOK charNameTable r w (by decide) h

theorem hexDigit_ok (n : Nat) (h : n < 16) : (isLowerA (hexDigit n) || isDigitA (hexDigit n)) = true := by
  unfold hexDigit isLowerA isDigitA
  split <;> simp <;> omega

theorem wordOf_ok (r : Nat) : wordOK (wordOf r) = true := by
  unfold wordOf
  split
  · next w h => exact charName_ok r w h
  · split
    · simp only [wordOK, List.all_cons, List.all_nil, Bool.and_true, Bool.and_eq_true]
      refine ⟨by decide, hexDigit_ok _ (Nat.mod_lt _ (by decide)), hexDigit_ok _ (Nat.mod_lt _ (by decide))⟩
    · simp only [wordOK, List.all_cons, List.all_nil, Bool.and_true, Bool.and_eq_true]
      refine ⟨by decide, hexDigit_ok _ (Nat.mod_lt _ (by decide)), hexDigit_ok _ (Nat.mod_lt _ (by decide)),
        hexDigit_ok _ (Nat.mod_lt _ (by decide)), hexDigit_ok _ (Nat.mod_lt _ (by decide)),
        hexDigit_ok _ (Nat.mod_lt _ (by decide)), hexDigit_ok _ (Nat.mod_lt _ (by decide))⟩


/-! ### buffer invariants -/

theorem identChar_iff (c : Nat) : isIdentChar c = true ↔
    (65 ≤ c ∧ c ≤ 90) ∨ (97 ≤ c ∧ c ≤ 122) ∨ (48 ≤ c ∧ c ≤ 57) ∨ c = 95 := by
  simp [isIdentChar, isLetterA, isLowerA, isUpperA, isDigitA]; omega

/-- all characters are identifier characters and the first one is not a digit -/
def Inv (buf : Str) : Prop :=
  (∀ c ∈ buf, isIdentChar c = true) ∧ (∀ c, buf.head? = some c → isDigitA c = false)

/-- `Inv`, and the buffer is neither empty nor `_` -/
def Solid (buf : Str) : Prop :=
  Inv buf ∧ (2 ≤ buf.length ∨ ∃ c, buf.head? = some c ∧ c ≠ 95)

/-- what may be appended to `buf` -/
def ExtOK (buf ext : Str) : Prop :=
  (∀ c ∈ ext, isIdentChar c = true) ∧ (buf = [] → ∀ c, ext.head? = some c → isDigitA c = false)

theorem inv_nil : Inv [] := by simp [Inv]

theorem inv_append {buf ext : Str} (h : Inv buf) (he : ExtOK buf ext) : Inv (buf ++ ext) := by
  refine ⟨?_, ?_⟩
  · intro c hc
    rcases List.mem_append.1 hc with hc | hc
    · exact h.1 c hc
    · exact he.1 c hc
  · intro c hc
    cases buf with
    | nil => exact he.2 rfl c (by simpa using hc)
    | cons b buf => exact h.2 c (by simpa using hc)

theorem solid_append {buf ext : Str} (h : Solid buf) (he : ExtOK buf ext) : Solid (buf ++ ext) := by
  refine ⟨inv_append h.1 he, ?_⟩
  rcases h.2 with h2 | ⟨c, hc, hne⟩
  · left; simp; omega
  · right
    cases buf with
    | nil => simp at hc
    | cons b buf => exact ⟨c, by simpa using hc, hne⟩

theorem solid_valid {buf : Str} (h : Solid buf) : validIdent buf = true := by
  obtain ⟨⟨hall, hhead⟩, h2⟩ := h
  cases buf with
  | nil => simp at h2
  | cons c rest =>
    have hd : isDigitA c = false := hhead c rfl
    have hall' : (c :: rest).all isIdentChar = true := by
      simp only [List.all_eq_true]; exact hall
    simp only [validIdent, hd, hall', Bool.not_false, Bool.true_and, Bool.not_eq_true', Bool.and_eq_false_iff]
    rcases h2 with h2 | ⟨d, hd', hne⟩
    · right; cases rest with
      | nil => simp at h2
      | cons _ _ => rfl
    · left; simp at hd'; subst hd'; simpa using hne

theorem toUpperA_ident (c : Nat) (h : (isLowerA c || isDigitA c) = true) :
    isIdentChar (toUpperA c) = true := by
  rw [identChar_iff]
  simp [isLowerA, isDigitA] at h
  unfold toUpperA; split <;> omega

theorem lower_ident (c : Nat) (h : (isLowerA c || isDigitA c) = true) : isIdentChar c = true := by
  rw [identChar_iff]
  simp [isLowerA, isDigitA] at h
  omega

/-- `write` appends a non-empty run of identifier characters that starts with a letter -/
theorem write_ext (style : Style) (buf w : Str) (hw : wordOK w = true) :
    ∃ ext, write style buf w = buf ++ ext ∧ ext ≠ [] ∧ (∀ c ∈ ext, isIdentChar c = true) ∧
      (buf = [] → ∃ c, ext.head? = some c ∧ isLetterA c = true ∧
        (style ≠ .camelLower → isUpperA c = true)) := by
  cases w with
  | nil => simp [wordOK] at hw
  | cons c rest =>
    simp only [wordOK, Bool.and_eq_true, List.all_eq_true] at hw
    obtain ⟨hc, hrest⟩ := hw
    have hcU : isUpperA (toUpperA c) = true := by
      simp [isLowerA] at hc; simp [isUpperA, toUpperA, hc]; omega
    have hcI : isIdentChar (toUpperA c) = true := toUpperA_ident c (by simp [hc])
    have hcI' : isIdentChar c = true := lower_ident c (by simp [hc])
    have hcL : isLetterA c = true := by simp [isLetterA, hc]
    have hcUL : isLetterA (toUpperA c) = true := by simp [isLetterA, hcU]
    have hrU : ∀ x ∈ rest.map toUpperA, isIdentChar x = true := by
      intro x hx
      obtain ⟨y, hy, rfl⟩ := List.mem_map.1 hx
      exact toUpperA_ident y (hrest y hy)
    have hrI : ∀ x ∈ rest, isIdentChar x = true := fun x hx => lower_ident x (hrest x hx)
    cases style
    · -- camelCase
      refine ⟨toUpperA c :: rest, by simp [write], by simp, ?_, ?_⟩
      · intro x hx; rcases List.mem_cons.1 hx with rfl | hx
        · exact hcI
        · exact hrI x hx
      · intro _; exact ⟨_, rfl, hcUL, fun _ => hcU⟩
    · -- camelLower
      by_cases hb : buf.length > 0
      · refine ⟨toUpperA c :: rest, by simp [write, hb], by simp, ?_, ?_⟩
        · intro x hx; rcases List.mem_cons.1 hx with rfl | hx
          · exact hcI
          · exact hrI x hx
        · intro h; subst h; simp at hb
      · refine ⟨c :: rest, by simp [write, hb], by simp, ?_, ?_⟩
        · intro x hx; rcases List.mem_cons.1 hx with rfl | hx
          · exact hcI'
          · exact hrI x hx
        · intro _; exact ⟨_, rfl, hcL, fun h => absurd rfl h⟩
    · -- upperCase
      refine ⟨toUpperA c :: rest.map toUpperA, by simp [write], by simp, ?_, ?_⟩
      · intro x hx; rcases List.mem_cons.1 hx with rfl | hx
        · exact hcI
        · exact hrU x hx
      · intro _; exact ⟨_, rfl, hcUL, fun _ => hcU⟩
    · -- upperUnderscores
      by_cases hb : buf.length > 0
      · refine ⟨95 :: toUpperA c :: rest.map toUpperA, by simp [write, hb], by simp, ?_, ?_⟩
        · intro x hx; rcases List.mem_cons.1 hx with rfl | hx
          · decide
          · rcases List.mem_cons.1 hx with rfl | hx
            · exact hcI
            · exact hrU x hx
        · intro h; subst h; simp at hb
      · refine ⟨toUpperA c :: rest.map toUpperA, by simp [write, hb], by simp, ?_, ?_⟩
        · intro x hx; rcases List.mem_cons.1 hx with rfl | hx
          · exact hcI
          · exact hrU x hx
        · intro _; exact ⟨_, rfl, hcUL, fun _ => hcU⟩

/-! ### one loop iteration -/

theorem alnum_upper_ident (r : Nat) (h : isAlnum r = true) :
    isIdentChar (toUpperA r) = true ∧ toUpperA r ≠ 95 ∧ (isDigitA (toUpperA r) = isDigitA r) := by
  simp [isAlnum, isLowerA, isUpperA, isDigitA] at h
  refine ⟨?_, ?_, ?_⟩
  · rw [identChar_iff]; unfold toUpperA; split <;> omega
  · unfold toUpperA; split <;> omega
  · rw [Bool.eq_iff_iff]; unfold toUpperA isDigitA; split <;> simp <;> omega

theorem alnum_lower_ident (r : Nat) (h : isAlnum r = true) :
    isIdentChar (toLowerA r) = true ∧ toLowerA r ≠ 95 ∧ (isDigitA (toLowerA r) = isDigitA r) := by
  simp [isAlnum, isLowerA, isUpperA, isDigitA] at h
  refine ⟨?_, ?_, ?_⟩
  · rw [identChar_iff]; unfold toLowerA; split <;> omega
  · unfold toLowerA; split <;> omega
  · rw [Bool.eq_iff_iff]; unfold toLowerA isDigitA; split <;> simp <;> omega

theorem ext2 (buf : Str) (x : Nat) (hx : isIdentChar x = true) :
    ∃ ext, buf ++ [95] ++ [x] = buf ++ ext ∧ ExtOK buf ext ∧ ext ≠ [] ∧
      (buf = [] → 2 ≤ ext.length ∨ ∃ c, ext.head? = some c ∧ c ≠ 95) ∧ True := by
  refine ⟨[95, x], by simp, ⟨?_, ?_⟩, by simp, fun _ => Or.inl (by simp), trivial⟩
  · intro c hc
    simp at hc
    rcases hc with rfl | rfl
    · decide
    · exact hx
  · intro _ c hc
    simp at hc; subst hc; decide

theorem ext1 (buf : Str) (x : Nat) (hx : isIdentChar x = true) (h95 : x ≠ 95)
    (hd : buf = [] → isDigitA x = false) :
    ∃ ext, buf ++ [x] = buf ++ ext ∧ ExtOK buf ext ∧ ext ≠ [] ∧
      (buf = [] → 2 ≤ ext.length ∨ ∃ c, ext.head? = some c ∧ c ≠ 95) ∧ True := by
  refine ⟨[x], rfl, ⟨?_, ?_⟩, by simp, fun _ => Or.inr ⟨x, rfl, h95⟩, trivial⟩
  · intro c hc
    simp at hc; subst hc; exact hx
  · intro hb c hc
    simp at hc; subst hc; exact hd hb

theorem step_alnum (name : Str) (style : Style) (q : Bool) (st : St) (ri : Nat × Nat)
    (h : isAlnum ri.1 = true) :
    ∃ ext, (step name style q st ri).buf = st.buf ++ ext ∧ ExtOK st.buf ext ∧ ext ≠ [] ∧
      (st.buf = [] → 2 ≤ ext.length ∨ ∃ c, ext.head? = some c ∧ c ≠ 95) ∧
      (step name style q st ri).cont = true := by
  obtain ⟨hu1, hu2, hu3⟩ := alnum_upper_ident _ h
  obtain ⟨hl1, hl2, hl3⟩ := alnum_lower_ident _ h
  unfold step
  simp only [h, if_true]
  split <;> split
  all_goals split
  all_goals first
    | exact ext2 _ _ hl1
    | exact ext2 _ _ hu1
    | exact ext1 _ _ hl1 hl2 (by intro hb; simp_all)
    | exact ext1 _ _ hu1 hu2 (by intro hb; simp_all)

theorem letter_not95 (c : Nat) (h : isLetterA c = true) : c ≠ 95 ∧ isDigitA c = false := by
  simp [isLetterA, isLowerA, isUpperA] at h
  simp [isDigitA]; omega

/-- every iteration appends identifier characters; it appends at least one in quoted names and for
letters/digits; from the empty buffer, a letter/digit or (in quotes) a non-underscore leaves the buffer
neither empty nor `_`. -/
theorem step_ext (name : Str) (style : Style) (q : Bool) (st : St) (ri : Nat × Nat) :
    ∃ ext, (step name style q st ri).buf = st.buf ++ ext ∧ ExtOK st.buf ext ∧
      (q = true → ext ≠ []) ∧
      ((isAlnum ri.1 = true ∨ (q = true ∧ ri.1 ≠ 95)) →
        ext ≠ [] ∧ (st.buf = [] → 2 ≤ ext.length ∨ ∃ c, ext.head? = some c ∧ c ≠ 95)) := by
  by_cases h : isAlnum ri.1 = true
  · obtain ⟨ext, h1, h2, h3, h4, _⟩ := step_alnum name style q st ri h
    exact ⟨ext, h1, h2, fun _ => h3, fun _ => ⟨h3, h4⟩⟩
  · have h' : isAlnum ri.1 = false := by simpa using h
    cases q with
    | false =>
      unfold step
      simp only [h', Bool.false_eq_true, if_false, Bool.not_false, if_true]
      split
      · refine ⟨[95], rfl, ⟨?_, ?_⟩, by simp, by simp⟩
        · intro c hc; simp at hc; subst hc; decide
        · intro _ c hc; simp at hc; subst hc; decide
      · exact ⟨[], by simp, ⟨by simp, by simp⟩, by simp, by simp⟩
    | true =>
      unfold step
      simp only [h', Bool.false_eq_true, if_false, Bool.not_true]
      split
      · next h95 =>
        refine ⟨[95], rfl, ⟨?_, ?_⟩, by simp, by simp [h95]⟩
        · intro c hc; simp at hc; subst hc; decide
        · intro _ c hc; simp at hc; subst hc; decide
      · obtain ⟨ext, e1, e2, e3, e4⟩ := write_ext style st.buf (wordOf ri.1) (wordOf_ok _)
        refine ⟨ext, e1, ⟨e3, ?_⟩, fun _ => e2, fun _ => ⟨e2, ?_⟩⟩
        · intro hb c hc
          obtain ⟨d, hd, hl, _⟩ := e4 hb
          rw [hd] at hc; cases hc
          exact (letter_not95 _ hl).2
        · intro hb
          obtain ⟨d, hd, hl, _⟩ := e4 hb
          exact Or.inr ⟨d, hd, (letter_not95 _ hl).1⟩

theorem step_inv (name : Str) (style : Style) (q : Bool) (st : St) (ri : Nat × Nat)
    (h : Inv st.buf) : Inv (step name style q st ri).buf := by
  obtain ⟨ext, e1, e2, _, _⟩ := step_ext name style q st ri
  rw [e1]; exact inv_append h e2

theorem step_solid (name : Str) (style : Style) (q : Bool) (st : St) (ri : Nat × Nat)
    (h : Solid st.buf) : Solid (step name style q st ri).buf := by
  obtain ⟨ext, e1, e2, _, _⟩ := step_ext name style q st ri
  rw [e1]; exact solid_append h e2

theorem step_trigger (name : Str) (style : Style) (q : Bool) (st : St) (ri : Nat × Nat)
    (h : Inv st.buf) (ht : isAlnum ri.1 = true ∨ (q = true ∧ ri.1 ≠ 95)) :
    Solid (step name style q st ri).buf := by
  obtain ⟨ext, e1, e2, _, e4⟩ := step_ext name style q st ri
  obtain ⟨hne, h5⟩ := e4 ht
  rw [e1]
  refine ⟨inv_append h e2, ?_⟩
  cases hb : st.buf with
  | nil =>
    rcases h5 hb with h5 | ⟨c, hc, h95⟩
    · left; simpa using h5
    · right; exact ⟨c, by simpa using hc, h95⟩
  | cons b rest =>
    left
    cases ext with
    | nil => exact absurd rfl hne
    | cons e ext => simp; omega

theorem foldl_inv (name : Str) (style : Style) (q : Bool) (l : List (Nat × Nat)) (st : St)
    (h : Inv st.buf) : Inv (l.foldl (step name style q) st).buf := by
  induction l generalizing st with
  | nil => exact h
  | cons x l ih => exact ih _ (step_inv name style q st x h)

theorem foldl_solid (name : Str) (style : Style) (q : Bool) (l : List (Nat × Nat)) (st : St)
    (h : Solid st.buf) : Solid (l.foldl (step name style q) st).buf := by
  induction l generalizing st with
  | nil => exact h
  | cons x l ih => exact ih _ (step_solid name style q st x h)

theorem foldl_trigger (name : Str) (style : Style) (q : Bool) (l : List (Nat × Nat)) (st : St)
    (h : Inv st.buf) (ht : ∃ x ∈ l, isAlnum x.1 = true ∨ (q = true ∧ x.1 ≠ 95)) :
    Solid (l.foldl (step name style q) st).buf := by
  induction l generalizing st with
  | nil => obtain ⟨x, hx, _⟩ := ht; cases hx
  | cons y l ih =>
    by_cases hy : isAlnum y.1 = true ∨ (q = true ∧ y.1 ≠ 95)
    · exact foldl_solid name style q l _ (step_trigger name style q st y h hy)
    · obtain ⟨x, hx, hxt⟩ := ht
      rcases List.mem_cons.1 hx with rfl | hx
      · exact absurd hxt hy
      · exact ih _ (step_inv name style q st y h) ⟨x, hx, hxt⟩

theorem foldl_len (name : Str) (style : Style) (l : List (Nat × Nat)) (st : St) :
    st.buf.length + l.length ≤ (l.foldl (step name style true) st).buf.length := by
  induction l generalizing st with
  | nil => simp
  | cons x l ih =>
    obtain ⟨ext, e1, _, e3, _⟩ := step_ext name style true st x
    have hne := e3 rfl
    have := ih (step name style true st x)
    rw [e1] at this
    simp only [List.foldl_cons, List.length_cons]
    cases ext with
    | nil => exact absurd rfl hne
    | cons e ext => simp at this; omega

/-! ### decoding -/

theorem decodeRune_ascii (b : Nat) (bs : Str) (h : b < 128) : decodeRune (b :: bs) = (b, 1) := by
  simp [decodeRune, h]

theorem decodeRune_big (b : Nat) (bs : Str) (h : ¬ b < 128) : 128 ≤ (decodeRune (b :: bs)).1 := by
  rcases bs with _ | ⟨b1, _ | ⟨b2, _ | ⟨b3, bs⟩⟩⟩ <;>
    simp only [decodeRune, runeError, isContB, h, if_false, apply_ite Prod.fst, decide_eq_true_eq] <;>
    (repeat' split) <;> omega

theorem decodeRune_small (b : Nat) (bs : Str) (h : (decodeRune (b :: bs)).1 < 128) :
    decodeRune (b :: bs) = (b, 1) := by
  by_cases hb : b < 128
  · exact decodeRune_ascii b bs hb
  · have := decodeRune_big b bs hb; omega

theorem runes_cons (b : Nat) (bs : Str) :
    runes (b :: bs) = ((decodeRune (b :: bs)).1, 0) ::
      runesAux bs.length (0 + (decodeRune (b :: bs)).2) ((b :: bs).drop (decodeRune (b :: bs)).2) := by
  simp [runes, runesAux]

theorem runesAux_ne_nil (fuel i : Nat) (b : Nat) (bs : Str) : runesAux (fuel + 1) i (b :: bs) ≠ [] := by
  simp [runesAux]

/-- a name without bytes ≥ 0x80 is iterated byte by byte -/
theorem runesAux_ascii (s : Str) (h : ∀ b ∈ s, b < 128) (fuel i : Nat) (hf : s.length ≤ fuel) :
    (runesAux fuel i s).map (·.1) = s := by
  induction s generalizing fuel i with
  | nil => cases fuel <;> simp [runesAux]
  | cons b bs ih =>
    cases fuel with
    | zero => simp at hf
    | succ fuel =>
      have hb : b < 128 := h b (by simp)
      simp only [runesAux, decodeRune_ascii b bs hb, List.map_cons, List.drop_succ_cons, List.drop_zero]
      rw [ih (fun x hx => h x (by simp [hx])) fuel (i + 1) (by simpa using hf)]

theorem runes_ascii (s : Str) (h : ∀ b ∈ s, b < 128) : (runes s).map (·.1) = s :=
  runesAux_ascii s h _ _ (Nat.le_refl _)

/-! ### quoted names -/

theorem prefixOf_facts (name : Str) (style : Style) :
    (prefixOf name style = [] ∧ (name.length = 1 → (charName (decodeRune name).1).isSome = true)) ∨
      Solid (prefixOf name style) := by
  unfold prefixOf
  dsimp only
  split
  · split
    · right
      obtain ⟨ext, e1, e2, e3, e4⟩ := write_ext style [] (cs ['c','h','a','r']) (by decide)
      obtain ⟨c, hc, hl, _⟩ := e4 rfl
      have hs : Solid (write style [] (cs ['c','h','a','r'])) := by
        rw [e1]
        refine ⟨⟨by simpa using e3, ?_⟩, Or.inr ⟨c, by simpa using hc, (letter_not95 c hl).1⟩⟩
        intro d hd
        have : d = c := by simp at hd; rw [hc] at hd; cases hd; rfl
        subst this; exact (letter_not95 _ hl).2
      split
      · refine solid_append hs ⟨?_, ?_⟩
        · intro c hc; simp at hc; subst hc; decide
        · intro hb; rw [hb] at hs; simp [Solid] at hs
      · exact hs
    · next h =>
      left; refine ⟨rfl, fun _ => ?_⟩
      cases hc : charName (decodeRune name).1 with
      | none => simp [hc] at h
      | some w => rfl
  · next h => left; exact ⟨rfl, fun h1 => absurd h1 h⟩

theorem quoted_core (name : Str) (style : Style) (hne : name ≠ []) :
    Solid ((runes name).foldl (step name style true) ⟨prefixOf name style, false⟩).buf := by
  rcases prefixOf_facts name style with ⟨hp, hlen⟩ | hs
  · rw [hp]
    cases name with
    | nil => exact absurd rfl hne
    | cons b bs =>
      rw [runes_cons]
      by_cases ht : isAlnum (decodeRune (b :: bs)).1 = true ∨ (decodeRune (b :: bs)).1 ≠ 95
      · apply foldl_trigger _ _ _ _ _ inv_nil
        refine ⟨_, List.mem_cons_self, ?_⟩
        rcases ht with ht | ht
        · exact Or.inl ht
        · exact Or.inr ⟨rfl, ht⟩
      · have h95 : (decodeRune (b :: bs)).1 = 95 := by
          by_cases h : (decodeRune (b :: bs)).1 = 95
          · exact h
          · exact absurd (Or.inr h) ht
        have hd := decodeRune_small b bs (by omega)
        have hb : b = 95 := by rw [hd] at h95; exact h95
        cases bs with
        | nil =>
          have := hlen rfl
          rw [h95] at this
          exact absurd this (by decide)
        | cons b' bs' =>
          rw [hd]
          simp only [List.drop_succ_cons, List.drop_zero, List.length_cons, runesAux]
          refine ⟨foldl_inv _ _ _ _ _ inv_nil, Or.inl ?_⟩
          refine Nat.le_trans ?_ (foldl_len _ _ _ _)
          simp
  · exact foldl_solid _ _ _ _ _ hs

theorem produce_quoted (name0 : Str) (style : Style) (h : looksQuoted name0 = true) :
    validIdent (produce name0 style) = true := by
  have hlen : 2 < name0.length := by
    simp only [looksQuoted, Bool.and_eq_true, decide_eq_true_eq] at h; exact h.1
  unfold produce
  simp only [h, if_true]
  split
  · decide
  · apply solid_valid
    apply quoted_core
    have h1 : ((name0.drop 1).take (name0.length - 2)).length = name0.length - 2 := by
      simp; omega
    split
    · next hc =>
      intro hnil
      have := congrArg List.length hnil
      simp only [List.length_drop, h1, List.length_nil] at this
      have h2 := hc.1
      rw [h1] at h2
      omega
    · intro hnil
      have := congrArg List.length hnil
      rw [h1] at this
      simp at this; omega

/-! ### unquoted names -/

theorem idMid_cases (b : Nat) (h : isIdMid b = true) : b < 128 ∧ (isAlnum b = true ∨ b = 95 ∨ b = 45) := by
  simp [isIdMid, isLetterA, isLowerA, isUpperA, isDigitA] at h
  simp [isAlnum, isLowerA, isUpperA, isDigitA]
  omega

theorem isID_facts (name : Str) (h : isID name = true) :
    (∀ b ∈ name, isIdMid b = true) ∧ looksQuoted name = false := by
  cases name with
  | nil => simp [isID] at h
  | cons b rest =>
    simp only [isID, Bool.and_eq_true, List.all_eq_true] at h
    obtain ⟨⟨hs, hm⟩, _⟩ := h
    have hb : isIdMid b = true ∧ b ≠ 39 ∧ b ≠ 34 := by
      simp [isIdStart, isLetterA, isLowerA, isUpperA] at hs
      simp [isIdMid, isLetterA, isLowerA, isUpperA, isDigitA]
      omega
    refine ⟨?_, ?_⟩
    · intro x hx
      rcases List.mem_cons.1 hx with rfl | hx
      · exact hb.1
      · exact hm x hx
    · simp [looksQuoted, hb.2.1, hb.2.2]

theorem step_plain (name : Str) (style : Style) (st : St) (ri : Nat × Nat)
    (h : ri.1 = 95 ∨ ri.1 = 45) :
    (step name style false st ri).buf =
      if ri.1 = 95 ∧ style = .upperCase then st.buf ++ [95] else st.buf := by
  have ha : isAlnum ri.1 = false := by
    rcases h with h | h <;> rw [h] <;> decide
  unfold step
  simp only [ha, Bool.false_eq_true, if_false, Bool.not_false, if_true]
  have h36 : ri.1 ≠ 36 := by omega
  simp only [h36, false_or]
  split <;> rfl

theorem foldl_plain (name : Str) (style : Style) (l : List (Nat × Nat)) (st : St)
    (h : ∀ x ∈ l, x.1 = 95 ∨ x.1 = 45) :
    (l.foldl (step name style false) st).buf =
      st.buf ++ List.replicate (if style = .upperCase then (l.map (·.1)).count 95 else 0) 95 := by
  induction l generalizing st with
  | nil => simp
  | cons x l ih =>
    have hx := h x (by simp)
    rw [List.foldl_cons, ih _ (fun y hy => h y (by simp [hy])), step_plain name style st x hx]
    by_cases hu : style = .upperCase
    · rcases hx with hx | hx
      · simp only [hx, hu, and_self, if_true, List.map_cons, List.count_cons_self, List.append_assoc]
        rw [show [95] ++ List.replicate (List.count 95 (List.map (·.1) l)) 95 =
              List.replicate (List.count 95 (List.map (·.1) l) + 1) 95 from by
            rw [List.replicate_succ]; rfl]
      · have : x.1 ≠ 95 := by omega
        simp [hx, hu]
    · simp [hu]

theorem step_len_mono (name : Str) (style : Style) (q : Bool) (st : St) (ri : Nat × Nat) :
    st.buf.length ≤ (step name style q st ri).buf.length := by
  obtain ⟨ext, e1, _⟩ := step_ext name style q st ri
  rw [e1]; simp

theorem step_us (name : Str) (st : St) (ri : Nat × Nat) (h : ri.1 = 95) :
    (step name .upperCase false st ri).buf = st.buf ++ [95] := by
  rw [step_plain name .upperCase st ri (Or.inl h)]; simp [h]

theorem foldl_count (name : Str) (l : List (Nat × Nat)) (st : St) :
    st.buf.length + (l.map (·.1)).count 95 ≤ (l.foldl (step name .upperCase false) st).buf.length := by
  induction l generalizing st with
  | nil => simp
  | cons x l ih =>
    have := ih (step name .upperCase false st x)
    by_cases hx : x.1 = 95
    · rw [step_us name st x hx] at this
      simp only [List.length_append, List.length_singleton] at this
      simp only [List.foldl_cons, List.map_cons, hx, List.count_cons_self]
      omega
    · have hm := step_len_mono name .upperCase false st x
      simp only [List.foldl_cons, List.map_cons, List.count_cons]
      have : (x.1 == 95) = false := by simpa using hx
      simp only [this]
      simp at *
      omega


theorem produce_id_valid (name : Str) (style : Style) (hid : isID name = true)
    (hg : name.any isAlnum = true ∨ (style = .upperCase ∧ 2 ≤ name.count 95)) :
    validIdent (produce name style) = true := by
  obtain ⟨hmid, hq⟩ := isID_facts name hid
  have hascii : ∀ b ∈ name, b < 128 := fun b hb => (idMid_cases b (hmid b hb)).1
  have hmap := runes_ascii name hascii
  unfold produce
  simp only [hq, Bool.false_eq_true, if_false]
  apply solid_valid
  rcases hg with hg | ⟨hu, hc⟩
  · obtain ⟨b, hb, hab⟩ := List.any_eq_true.1 hg
    rw [← hmap] at hb
    obtain ⟨x, hx, rfl⟩ := List.mem_map.1 hb
    exact foldl_trigger _ _ _ _ _ inv_nil ⟨x, hx, Or.inl hab⟩
  · subst hu
    refine ⟨foldl_inv _ _ _ _ _ inv_nil, Or.inl ?_⟩
    have := foldl_count name (runes name) ⟨[], false⟩
    rw [hmap] at this
    simp only [List.length_nil, Nat.zero_add] at this
    omega

theorem produce_id_invalid (name : Str) (style : Style) (hid : isID name = true)
    (hna : name.any isAlnum = false) (hc : ¬ (style = .upperCase ∧ 2 ≤ name.count 95)) :
    validIdent (produce name style) = false := by
  obtain ⟨hmid, hq⟩ := isID_facts name hid
  have hascii : ∀ b ∈ name, b < 128 := fun b hb => (idMid_cases b (hmid b hb)).1
  have hmap := runes_ascii name hascii
  have hplain : ∀ x ∈ runes name, x.1 = 95 ∨ x.1 = 45 := by
    intro x hx
    have hxn : x.1 ∈ name := by rw [← hmap]; exact List.mem_map_of_mem hx
    rcases (idMid_cases _ (hmid _ hxn)).2 with h | h
    · have := List.any_eq_false.1 hna _ hxn
      rw [h] at this; exact absurd rfl this
    · exact h
  unfold produce
  simp only [hq, Bool.false_eq_true, if_false]
  rw [foldl_plain name style (runes name) ⟨[], false⟩ hplain, hmap]
  simp only [List.nil_append]
  by_cases hu : style = .upperCase
  · simp only [hu, if_true]
    have : name.count 95 = 0 ∨ name.count 95 = 1 := by
      have h3 : ¬ 2 ≤ name.count 95 := fun h2 => hc ⟨hu, h2⟩
      omega
    rcases this with h | h <;> rw [h] <;> rfl
  · simp only [hu, if_false]; rfl

/-! ### quoted spellings -/

theorem quotedBody_last (q : Nat) (s : Str) (h : quotedBody q s = true) : s.getLast? = some q := by
  fun_induction quotedBody q s with
  | case1 => simp at h
  | case2 b => simp at h; simp [h]
  | case3 b2 rest ih =>
    simp only [Bool.and_eq_true] at h
    have := ih h.2
    cases rest with
    | nil => simp [quotedBody] at h
    | cons c rest => simpa using this
  | case4 => simp at h
  | case5 b b2 rest _ _ ih => simpa using ih h

theorem isQuoted_facts (q : Nat) (name : Str) (hq : q = 39 ∨ q = 34) (h : isQuoted q name = true) :
    looksQuoted name = true ∨ name = [q, q] := by
  cases name with
  | nil => simp [isQuoted] at h
  | cons b rest =>
    simp only [isQuoted, Bool.and_eq_true, beq_iff_eq] at h
    obtain ⟨rfl, hb⟩ := h
    have hl := quotedBody_last b rest hb
    cases rest with
    | nil => simp [quotedBody] at hb
    | cons c rest =>
      cases rest with
      | nil => simp [quotedBody] at hb; right; rw [hb]
      | cons d rest =>
        left
        have : (b :: c :: d :: rest).getLast? = some b := by simpa using hl
        rcases hq with rfl | rfl <;> simp [looksQuoted, this]

/-! ### the first character is not a lower-case letter (styles other than CamelLower) -/

theorem toUpperA_not_lower (r : Nat) : isLowerA (toUpperA r) = false := by
  unfold toUpperA isLowerA; split <;> simp <;> omega

theorem step_alnum_head (name : Str) (style : Style) (q : Bool) (st : St) (ri : Nat × Nat)
    (h : isAlnum ri.1 = true) (hb : st.buf = []) (hc : st.cont = false) (hs : style ≠ .camelLower) :
    ∀ c, (step name style q st ri).buf.head? = some c → isLowerA c = false := by
  have hu := toUpperA_not_lower ri.1
  unfold step
  simp only [h, hb, hc, if_true]
  cases style
  · simp; split <;> simp [hu] <;> decide
  · exact absurd rfl hs
  · simp; split <;> simp [hu] <;> decide
  · simp; split <;> simp [hu] <;> decide

/-- `cont` is only set once something was written, and the buffer does not start with a lower-case letter -/
def HeadInv (st : St) : Prop :=
  (st.cont = true → st.buf ≠ []) ∧ (∀ c, st.buf.head? = some c → isLowerA c = false)

theorem upper_not_lower (c : Nat) (h : isUpperA c = true) : isLowerA c = false := by
  simp [isUpperA] at h; simp [isLowerA]; omega

theorem step_headInv (name : Str) (style : Style) (q : Bool) (st : St) (ri : Nat × Nat)
    (hs : style ≠ .camelLower) (h : HeadInv st) : HeadInv (step name style q st ri) := by
  obtain ⟨ext, e1, _, e3, e4⟩ := step_ext name style q st ri
  have head_keep : st.buf ≠ [] → ∀ c, (step name style q st ri).buf.head? = some c → isLowerA c = false := by
    intro hb c hc
    rw [e1] at hc
    cases hbuf : st.buf with
    | nil => exact absurd hbuf hb
    | cons b rest => rw [hbuf] at hc; exact h.2 c (by rw [hbuf]; simpa using hc)
  by_cases ha : isAlnum ri.1 = true
  · refine ⟨fun _ => ?_, ?_⟩
    · rw [e1]; have := (e4 (Or.inl ha)).1
      cases ext with
      | nil => exact absurd rfl this
      | cons _ _ => simp
    · by_cases hb : st.buf = []
      · have hc : st.cont = false := by
          cases hcc : st.cont with
          | false => rfl
          | true => exact absurd hb (h.1 hcc)
        exact step_alnum_head name style q st ri ha hb hc hs
      · exact head_keep hb
  · have ha' : isAlnum ri.1 = false := by simpa using ha
    by_cases hb : st.buf = []
    · cases q with
      | false =>
        unfold step
        simp only [ha', Bool.false_eq_true, if_false, Bool.not_false, if_true, hb]
        split
        · exact ⟨by simp, by intro c hc; simp at hc; subst hc; decide⟩
        · exact ⟨by simp, by simp⟩
      | true =>
        unfold step
        simp only [ha', Bool.false_eq_true, if_false, Bool.not_true, hb]
        split
        · exact ⟨by simp, by intro c hc; simp at hc; subst hc; decide⟩
        · obtain ⟨ext, w1, w2, _, w4⟩ := write_ext style [] (wordOf ri.1) (wordOf_ok _)
          obtain ⟨c, hc, _, hup⟩ := w4 rfl
          refine ⟨by simp, ?_⟩
          intro d hd
          rw [w1] at hd
          simp only [List.nil_append] at hd
          rw [hc] at hd; cases hd
          exact upper_not_lower _ (hup hs)
    · refine ⟨fun _ => ?_, head_keep hb⟩
      rw [e1]
      cases hbuf : st.buf with
      | nil => exact absurd hbuf hb
      | cons _ _ => simp

theorem foldl_headInv (name : Str) (style : Style) (q : Bool) (l : List (Nat × Nat)) (st : St)
    (hs : style ≠ .camelLower) (h : HeadInv st) : HeadInv (l.foldl (step name style q) st) := by
  induction l generalizing st with
  | nil => exact h
  | cons x l ih => exact ih _ (step_headInv name style q st x hs h)

theorem prefixOf_head (name : Str) (style : Style) (hs : style ≠ .camelLower) :
    ∀ c, (prefixOf name style).head? = some c → isLowerA c = false := by
  unfold prefixOf
  dsimp only
  split
  · split
    · obtain ⟨ext, w1, w2, _, w4⟩ := write_ext style [] (cs ['c','h','a','r']) (by decide)
      obtain ⟨c, hc, _, hup⟩ := w4 rfl
      have : ∀ d, (write style [] (cs ['c','h','a','r'])).head? = some d → isLowerA d = false := by
        intro d hd
        rw [w1] at hd; simp only [List.nil_append] at hd
        rw [hc] at hd; cases hd
        exact upper_not_lower _ (hup hs)
      split
      · intro d hd
        apply this d
        rw [w1] at hd ⊢
        cases ext with
        | nil => exact absurd rfl w2
        | cons e ext => simpa using hd
      · exact this
    · simp
  · simp

theorem produce_head (name0 : Str) (style : Style) (hs : style ≠ .camelLower) :
    ∀ c, (produce name0 style).head? = some c → isLowerA c = false := by
  unfold produce
  split
  · dsimp only
    split
    · intro c hc; simp at hc; subst hc; decide
    · exact (foldl_headInv _ style true _ _ hs ⟨by simp, prefixOf_head _ style hs⟩).2
  · exact (foldl_headInv _ style false _ _ hs ⟨by simp, by simp⟩).2

/-! ### UpperCase / UpperUnderscores results contain no lower-case letter -/

def NoLower (buf : Str) : Prop := ∀ c ∈ buf, isLowerA c = false

theorem noLower_append {a b : Str} (ha : NoLower a) (hb : NoLower b) : NoLower (a ++ b) := by
  intro c hc
  rcases List.mem_append.1 hc with h | h
  · exact ha c h
  · exact hb c h

theorem noLower_map_upper (w : Str) : NoLower (w.map toUpperA) := by
  intro c hc
  obtain ⟨x, _, rfl⟩ := List.mem_map.1 hc
  exact toUpperA_not_lower x

theorem noLower_95 : NoLower [95] := by
  intro c hc; simp at hc; subst hc; decide

theorem write_noLower (style : Style) (hs : style = .upperCase ∨ style = .upperUnderscores)
    (buf w : Str) (h : NoLower buf) : NoLower (write style buf w) := by
  rcases hs with rfl | rfl
  · exact noLower_append h (noLower_map_upper w)
  · unfold write
    dsimp only
    split
    · exact noLower_append (noLower_append h noLower_95) (noLower_map_upper w)
    · exact noLower_append h (noLower_map_upper w)

theorem step_noLower (name : Str) (style : Style) (hs : style = .upperCase ∨ style = .upperUnderscores)
    (q : Bool) (st : St) (ri : Nat × Nat) (h : NoLower st.buf) :
    NoLower (step name style q st ri).buf := by
  have hu : NoLower [toUpperA ri.1] := by
    intro c hc; simp at hc; subst hc; exact toUpperA_not_lower _
  have hcamel : (decide (style = .camelCase) || decide (style = .camelLower)) = false := by
    rcases hs with rfl | rfl <;> decide
  unfold step
  dsimp only
  split
  · simp only [hcamel, Bool.false_and, Bool.false_eq_true, if_false]
    refine noLower_append ?_ hu
    have key : ∀ b : Bool, NoLower (if b = true then st.buf ++ [95] else st.buf) := by
      intro b; cases b
      · exact h
      · exact noLower_append h noLower_95
    exact key _
  · split
    · split
      · exact noLower_append h noLower_95
      · exact h
    · split
      · exact noLower_append h noLower_95
      · exact write_noLower style hs _ _ h

theorem foldl_noLower (name : Str) (style : Style) (hs : style = .upperCase ∨ style = .upperUnderscores)
    (q : Bool) (l : List (Nat × Nat)) (st : St) (h : NoLower st.buf) :
    NoLower (l.foldl (step name style q) st).buf := by
  induction l generalizing st with
  | nil => exact h
  | cons x l ih => exact ih _ (step_noLower name style hs q st x h)

theorem prefixOf_noLower (name : Str) (style : Style) (hs : style = .upperCase ∨ style = .upperUnderscores) :
    NoLower (prefixOf name style) := by
  unfold prefixOf
  dsimp only
  have hw := write_noLower style hs [] (cs ['c','h','a','r']) (by intro c hc; cases hc)
  split
  · split
    · split
      · exact noLower_append hw noLower_95
      · exact hw
    · intro c hc; cases hc
  · intro c hc; cases hc

theorem produce_noLower (name0 : Str) (style : Style) (hs : style = .upperCase ∨ style = .upperUnderscores) :
    NoLower (produce name0 style) := by
  unfold produce
  split
  · dsimp only
    split
    · intro c hc; simp at hc; rcases hc with rfl | rfl | rfl <;> decide
    · exact foldl_noLower _ style hs true _ _ (prefixOf_noLower _ style hs)
  · exact foldl_noLower _ style hs false _ _ (by intro c hc; cases hc)

end TmVerif.Ident
