/-
Helper lemmas for C07 completeness, part 3: the classical generalisation with lookahead strings
(mutual induction on the derivation, as Proofs/LRCompleteMain.lean), and acceptance from the
entry state.
-/
import TmVerif.Proofs.LRCompleteKStep
namespace TmVerif.LRCompleteK
open TmVerif.LR TmVerif.CFG TmVerif.LRSound TmVerif.LRRef TmVerif.LRK
open TmVerif.LRComplete (Reads Steps TopState Pushed tok_sym rhsOf_rule rhsOf_input rule_index
  drop_cons_getElem? reads_append runLoop_of_steps reads_take initCfg_top)

section main
variable {g : Grammar} {t : Tables} {k : Nat} {cc : KCert} {inp : Input}
  (hf : KFacts g t k cc) (htok : TokOk t inp)
include hf htok
set_option linter.unusedSectionVars false

mutual
/-- one symbol: from the state holding `[A → α . X β, L]` over the yield of `X`, when the next
`k` symbols after the yield are in `FIRST_k(β) ⊕ₖ L` -/
theorem steps_of_derives :
    ∀ {X : Nat} {u : List Nat}, Derives g X u →
      ∀ (s : Nat) (it : KItem) (c : Cfg) (m : Nat),
        it ∈ itemsOf cc s → (rhsOf g it.rule)[it.dot]? = some X →
        TopState c s → NextKOk inp c m → Reads inp m u →
        nextK inp (m + u.length) k ∈ contrib g k cc it →
        ∃ (q : Nat) (it' : KItem) (c' : Cfg), Steps t inp c c' ∧ Adv cc q it 1 it' ∧
          Pushed c' q c.stack ∧ NextKOk inp c' (m + u.length)
  | _, _, .term a ha, s, it, c, m, hm, hx, htop, hn, hr, hla => by
    have h0 : 0 < t.nTerms := by rw [hf.nTerms]; omega
    obtain ⟨hneeds, hall⟩ := move_term hf hm hx ha
    have hu : nextK inp m k ∈ catD k [[a]] (contrib g k cc it) := by
      rw [nextK_reads k hr]
      refine cat_mem ?_ hla
      rw [List.take_of_length_le (by have := hf.kpos; simpa using this)]
      exact List.mem_singleton.mpr rfl
    obtain ⟨q, hact, it', hadv⟩ := hall _ hu
    obtain ⟨c', hs, hp, hn'⟩ := shift_stepK htok h0 hf.kpos hn htop.1 hneeds hact
    exact ⟨q, it', c', Steps.single hs, hadv, hp, hn'⟩
  | _, u, .rule r _ hrm hs, s, it, c, m, hm, hx, htop, hn, hr, hla => by
    have h0 : 0 < t.nTerms := by
      have := (wfFacts hf.wf).nTermsPos; rw [hf.nTerms]; omega
    have hge : g.nTerms ≤ r.lhs := ((wfFacts hf.wf).rules r hrm).1
    obtain ⟨j, hj⟩ := rule_index hrm
    -- closure: the initial item of the rule is in `s`
    obtain ⟨it1, hm1, hr1, hd1, hsub1⟩ := clos hf hm hx hge hj rfl
    have hrhs1 : rhsOf g it1.rule = r.rhs := by rw [hr1]; exact rhsOf_rule hj
    have hla1 : nextK inp (m + u.length) k ∈ it1.la := hsub1 _ hla
    -- walk the dot across the body
    obtain ⟨s', it2, c2, ents, hst2, ⟨hm2, hr2, hd2, hsub2⟩, htop2, hstk2, hlen2, hn2⟩ :=
      steps_of_derivesSeq hs s it1 c m hm1 (by rw [hrhs1, hd1]; rfl) htop hn hr hla1
    -- reduce
    have hj2 : g.rules[it2.rule]? = some r := by rw [hr2, hr1]; exact hj
    have hd2' : it2.dot = r.rhs.length := by rw [hd2, hd1]; omega
    obtain ⟨hlen, hsym, hred⟩ := red hf hm2 hj2 hd2'
    have hla2 := hsub2 _ hla1
    have hact : (needsTok t s' = some true ∧
          actOfU t s' (nextK inp (m + u.length) k) = some (.reduce (it2.rule : Int))) ∨
        (needsTok t s' = some false ∧ actOf t noDeep s' 0 = some (.reduce (it2.rule : Int))) := by
      rcases hred with ⟨hb, hall⟩ | ⟨hb, hall⟩
      · exact Or.inl ⟨hb, hall _ hla2 (nextK_length inp k _)⟩
      · exact Or.inr ⟨hb, hall (List.ne_nil_of_mem hla2)⟩
    obtain ⟨q, hgoto, it', hadv⟩ := move_nt hf hm hx hge
    obtain ⟨e0, rest0, hstk0, he0⟩ := htop.2
    rw [← he0] at hgoto
    obtain ⟨c', hstep, hp, hn'⟩ := reduce_stepK htok h0 hf.kpos hn2 htop2.1 hact hlen hsym
      (by rw [hstk2, hstk0]) hlen2 hgoto
    refine ⟨q, it', c', hst2.trans (Steps.single hstep), hadv, ?_, hn'⟩
    rw [hstk0]; exact hp
/-- the rest of a rule body, when the next `k` symbols after its yield are in `L` -/
theorem steps_of_derivesSeq :
    ∀ {α : List Nat} {u : List Nat}, DerivesSeq g α u →
      ∀ (s : Nat) (it : KItem) (c : Cfg) (m : Nat),
        it ∈ itemsOf cc s → (rhsOf g it.rule).drop it.dot = α →
        TopState c s → NextKOk inp c m → Reads inp m u →
        nextK inp (m + u.length) k ∈ it.la →
        ∃ (s' : Nat) (it' : KItem) (c' : Cfg) (ents : List Entry), Steps t inp c c' ∧
          Adv cc s' it α.length it' ∧ TopState c' s' ∧ c'.stack = ents ++ c.stack ∧
          ents.length = α.length ∧ NextKOk inp c' (m + u.length)
  | _, _, .nil, s, it, c, m, hm, _, htop, hn, _, _ =>
    ⟨s, it, c, [], .refl c, ⟨hm, rfl, rfl, Sub.refl _⟩, htop, rfl, rfl, hn⟩
  | _, _, .cons X α u v hX hα, s, it, c, m, hm, hdrop, htop, hn, hr, hla => by
    obtain ⟨hx, hdrop'⟩ := drop_cons_getElem? hdrop
    obtain ⟨hr1, hr2⟩ := (reads_append inp u v m).mp hr
    have hlen : m + (u ++ v).length = m + u.length + v.length := by
      rw [List.length_append]; omega
    rw [hlen] at hla
    -- the symbols after the yield of `X`: the yield of the rest, then a string of `L`
    have hctx : nextK inp (m + u.length) k ∈ contrib g k cc it := by
      rw [nextK_reads k hr2]
      rw [← hdrop'] at hα
      exact contrib_mem hf it hα hla
    obtain ⟨q, it1, c1, hst1, ⟨hm1, hru1, hd1, hsub1⟩, hp1, hn1⟩ :=
      steps_of_derives hX s it c m hm hx htop hn hr1 hctx
    have hdrop1 : (rhsOf g it1.rule).drop it1.dot = α := by rw [hru1, hd1]; exact hdrop'
    obtain ⟨s', it2, c2, ents, hst2, ⟨hm2, hru2, hd2, hsub2⟩, htop2, hstk2, hlen2, hn2⟩ :=
      steps_of_derivesSeq hα q it1 c1 (m + u.length) hm1 hdrop1 hp1.top hn1 hr2
        (hsub1 _ hla)
    obtain ⟨_, e, _, hstk1⟩ := hp1
    refine ⟨s', it2, c2, ents ++ [e], hst1.trans hst2,
      ⟨hm2, by rw [hru2, hru1], by rw [hd2, hd1, List.length_cons]; omega, hsub1.trans hsub2⟩,
      htop2, by rw [hstk2, hstk1, List.append_assoc]; rfl,
      by rw [List.length_append, hlen2]; rfl, by rw [hlen]; exact hn2⟩
end

/-- eoi input: if the unread input is a sentence followed by EOI, the run accepts -/
theorem accept_eoi {i : Nat} {gi : GInput} (hgi : g.inputs[i]? = some gi)
    (heoi : gi.eoi = true) {w : List Nat} (hD : Derives g gi.sym w) (hr : Reads inp 0 w)
    (hend : inp.toks.size ≤ w.length) :
    ∃ fuel c, run t inp i fuel = (Result.accept, c) := by
  have hpos : 0 < g.nTerms := (wfFacts hf.wf).nTermsPos
  obtain ⟨it0, hm0, hr0, hd0, hsub0⟩ := hf.start i gi hgi
  rw [if_pos heoi] at hsub0
  have hz0 : List.replicate k 0 ∈ it0.la := hsub0 _ (List.mem_singleton.mpr rfl)
  have hrhs : rhsOf g it0.rule = [gi.sym, 0] := by
    rw [hr0, rhsOf_input hgi, if_pos heoi]
  have hD0 : Derives g 0 [0] := Derives.term 0 hpos
  -- over the start symbol: the next symbols are EOI for ever
  have hctx : nextK inp (0 + w.length) k ∈ contrib g k cc it0 := by
    rw [Nat.zero_add, nextK_eoi inp k _ hend]
    have h1 : DerivesSeq g ((rhsOf g it0.rule).drop (it0.dot + 1)) [0] := by
      rw [hrhs, hd0]; exact derivesSeq_single hD0
    have := contrib_mem hf it0 h1 hz0
    have e : ([0] ++ List.replicate k 0).take k = List.replicate k 0 := by
      show (List.replicate (k + 1) 0).take k = List.replicate k 0
      rw [List.take_replicate]; congr 1; omega
    rwa [e] at this
  obtain ⟨q1, it1, c1, hst1, ⟨hm1, hru1, hd1, hsub1⟩, hp1, hn1⟩ :=
    steps_of_derives hf htok hD i it0 (initCfg inp i) 0 hm0 (by rw [hrhs, hd0]; rfl)
      (initCfg_top inp i) (initCfg_nextK htok i) hr hctx
  -- over EOI
  have hend' : symAt inp (0 + w.length) = 0 := by
    rw [Nat.zero_add]; exact symAt_ge inp hend
  have hctx1 : nextK inp (0 + w.length + [0].length) k ∈ contrib g k cc it1 := by
    rw [nextK_eoi inp k _ (by simp; omega)]
    have h1 : DerivesSeq g ((rhsOf g it1.rule).drop (it1.dot + 1)) [] := by
      rw [hru1, hd1, hrhs, hd0]; exact .nil
    have := contrib_mem hf it1 h1 (hsub1 _ hz0)
    rwa [List.nil_append, List.take_of_length_le (by simp)] at this
  obtain ⟨q2, it2, c2, hst2, ⟨hm2, hru2, hd2, _⟩, hp2, _⟩ :=
    steps_of_derives hf htok hD0 q1 it1 c1 (0 + w.length) hm1
      (by rw [hru1, hd1, hrhs, hd0]; rfl) hp1.top hn1 ⟨hend', trivial⟩ hctx1
  have hfin := fin hf hm2 (by rw [hru2, hru1, hr0]; omega)
    (by rw [hd2, hd1, hd0, hru2, hru1, hrhs]; rfl)
  rw [hru2, hru1, hr0, Nat.add_sub_cancel_left] at hfin
  unfold run
  rw [hfin]
  exact runLoop_of_steps _ (hst1.trans hst2) hp2.1

/-- no-eoi input: if the unread input starts with a sentence, the run accepts -/
theorem accept_noeoi {i : Nat} {gi : GInput} (hgi : g.inputs[i]? = some gi)
    (heoi : gi.eoi = false) {w : List Nat} (hD : Derives g gi.sym w) (hr : Reads inp 0 w) :
    ∃ fuel c, run t inp i fuel = (Result.accept, c) := by
  have hpos : 0 < g.nTerms := (wfFacts hf.wf).nTermsPos
  have h0 : 0 < t.nTerms := by rw [hf.nTerms]; exact hpos
  obtain ⟨it0, hm0, hr0, hd0, hsub0⟩ := hf.start i gi hgi
  rw [heoi] at hsub0
  simp only [Bool.false_eq_true, if_false] at hsub0
  have hrhs : rhsOf g it0.rule = [gi.sym] := by
    rw [hr0, rhsOf_input hgi, heoi]; rfl
  have hctx : nextK inp (0 + w.length) k ∈ contrib g k cc it0 := by
    have h1 : DerivesSeq g ((rhsOf g it0.rule).drop (it0.dot + 1)) [] := by
      rw [hrhs, hd0]; exact .nil
    have hy : nextK inp (0 + w.length) k ∈ it0.la := by
      apply hsub0
      rw [← hf.nTerms]
      exact nextK_allStrings htok h0 k _
    have := contrib_mem hf it0 h1 hy
    rwa [List.nil_append, List.take_of_length_le (by rw [nextK_length]; exact Nat.le_refl _)]
      at this
  obtain ⟨q1, it1, c1, hst1, ⟨hm1, hru1, hd1, _⟩, hp1, _⟩ :=
    steps_of_derives hf htok hD i it0 (initCfg inp i) 0 hm0 (by rw [hrhs, hd0]; rfl)
      (initCfg_top inp i) (initCfg_nextK htok i) hr hctx
  have hfin := fin hf hm1 (by rw [hru1, hr0]; omega)
    (by rw [hd1, hd0, hru1, hrhs]; rfl)
  rw [hru1, hr0, Nat.add_sub_cancel_left] at hfin
  unfold run
  rw [hfin]
  exact runLoop_of_steps _ hst1 hp1.1

end main

end TmVerif.LRCompleteK
