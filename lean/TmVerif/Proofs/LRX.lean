import TmVerif.Model.LRX
/-!
Helper lemmas about the extended runtime model `Model/LRX.lean` (used by Props/C19, Props/C29).

The central device is the relation `Moves inp b c c'`: `c'` is obtained from `c` by a sequence of
elementary configuration updates (`Move`). Every function of the model (`fetch`, `xdecode`,
`skipBroken`, `recoverLoop`, `recoverFromError`, `onError`, `xstep`) is shown to act by `Moves`, so
that each invariant has to be checked against the handful of elementary moves only.
The flags `(b, e)` say whether moves that touch `shiftCounter` (`shift`, `bump`), resp. the moves of the
error branch (`emitError`, `setRec`), are allowed.
-/
namespace TmVerif.LRX
open TmVerif.LR

/-! ### elementary moves -/

def XEv.isNode : XEv → Bool
  | .node _ _ _ => true
  | .error _ _ => false

def XEv.isError : XEv → Bool
  | .node _ _ _ => false
  | .error _ _ => true

inductive Move (inp : Input) : Bool × Bool → XCfg → XCfg → Prop
  | fetch (b) (c : XCfg) : c.next = none →
      Move inp b c { c with next := some (inp.tok c.pos), pos := c.pos + 1 }
  | dropNext (b) (c : XCfg) : Move inp b c { c with next := none }
  | setStack (b) (c : XCfg) (s : List Entry) (q : Int) : Move inp b c { c with stack := s, state := q }
  | emitNodes (b) (c : XCfg) (evs : List XEv) : (∀ e ∈ evs, e.isNode = true) →
      Move inp b c { c with evs := evs ++ c.evs }
  | emitError (b : Bool) (c : XCfg) (tk : Tok) : c.next = some tk → c.recovering = 0 →
      Move inp (b, true) c { c with lastErr := (tk.off, tk.endo), evs := .error tk.off tk.endo :: c.evs }
  | setRec (b : Bool) (c : XCfg) : (c.recovering = 0 → ∃ o e rest, c.evs = .error o e :: rest) →
      Move inp (b, true) c { c with recovering := 4 }
  | shift (e : Bool) (c : XCfg) (tk : Tok) (q : Int) (sc : Nat) : c.next = some tk →
      Move inp (true, e) c { c with stack := ⟨tk.sym, tk.off, tk.endo, q⟩ :: c.stack, state := q,
                                    next := if tk.sym ≠ 0 then none else c.next,
                                    recovering := c.recovering - 1, shiftCounter := sc }
  | bump (e : Bool) (c : XCfg) (sc : Nat) : Move inp (true, e) c { c with shiftCounter := sc }

inductive Moves (inp : Input) (b : Bool × Bool) : XCfg → XCfg → Prop
  | refl (c : XCfg) : Moves inp b c c
  | tail {a m c : XCfg} : Moves inp b a m → Move inp b m c → Moves inp b a c

theorem Moves.single {inp b c c'} (h : Move inp b c c') : Moves inp b c c' :=
  .tail (.refl c) h

theorem Moves.trans {inp b a m c} (h1 : Moves inp b a m) (h2 : Moves inp b m c) : Moves inp b a c := by
  induction h2 with
  | refl => exact h1
  | tail _ hm ih => exact .tail ih hm

theorem Move.weaken {inp b c c'} (h : Move inp b c c') : Move inp (true, true) c c' := by
  cases h with
  | fetch _ _ h => exact .fetch _ _ h
  | dropNext => exact .dropNext _ _
  | setStack => exact .setStack _ _ _ _
  | emitNodes _ _ _ h => exact .emitNodes _ _ _ h
  | emitError _ _ _ h h' => exact .emitError _ _ _ h h'
  | setRec _ _ h => exact .setRec _ _ h
  | shift _ _ _ _ _ h => exact .shift _ _ _ _ _ h
  | bump => exact .bump _ _ _

theorem Moves.weaken {inp b c c'} (h : Moves inp b c c') : Moves inp (true, true) c c' := by
  induction h with
  | refl => exact .refl _
  | tail _ hm ih => exact .tail ih hm.weaken

/-! ### fetch, xdecode -/

theorem fetch_moves (inp : Input) (b : Bool × Bool) (c : XCfg) : Moves inp b c (c.fetch inp).1 := by
  unfold XCfg.fetch
  split
  · exact .refl _
  · next h => exact .single (.fetch _ _ h)

theorem fetch_next (inp : Input) (c : XCfg) : (c.fetch inp).1.next = some (c.fetch inp).2 := by
  unfold XCfg.fetch
  split
  · next h => simpa using h
  · rfl

theorem xdecode_cases {x : XTables} {inp : Input} {c c1 : XCfg} {a : Act}
    (h : xdecode x inp c = some (c1, a)) : c1 = c ∨ c1 = (c.fetch inp).1 := by
  unfold xdecode at h
  split at h
  · cases h
  · simp only [Option.map_eq_some_iff] at h
    obtain ⟨_, _, h⟩ := h
    cases h; exact .inr rfl
  · simp only [Option.map_eq_some_iff] at h
    obtain ⟨_, _, h⟩ := h
    cases h; exact .inl rfl

theorem xdecode_moves {x : XTables} {inp : Input} {c c1 : XCfg} {a : Act} (b : Bool × Bool)
    (h : xdecode x inp c = some (c1, a)) : Moves inp b c c1 := by
  rcases xdecode_cases h with h | h
  · subst h; exact .refl _
  · subst h; exact fetch_moves inp b c

/-! ### recovery -/

theorem skipBroken_moves (inp : Input) (b : Bool × Bool) (can : Int → Bool) (fuel : Nat) (c : XCfg) (e : Nat) :
    Moves inp b c (skipBroken inp can fuel c e).1 := by
  induction fuel generalizing c e with
  | zero => exact .refl _
  | succ n ih =>
    unfold skipBroken
    simp only
    split
    · exact ((fetch_moves inp b c).tail (.dropNext _ _)).trans (ih _ _)
    · exact fetch_moves inp b c

theorem recoverLoop_moves {x : XTables} {inp : Input} {fin : Int} {rp : List Nat} (b : Bool × Bool)
    (fuel : Nat) (c : XCfg) (syms : List Int) (s e : Nat) (c' : XCfg)
    (h : recoverLoop x inp fin rp fuel c syms s e = some (some c')) : Moves inp b c c' := by
  induction fuel generalizing c syms s e with
  | zero => simp [recoverLoop] at h
  | succ n ih =>
    unfold recoverLoop at h
    simp only at h
    have hsk := skipBroken_moves inp b (fun sym => syms.contains sym) (inp.toks.size + 2) c 0
    generalize skipBroken inp (fun sym => syms.contains sym) (inp.toks.size + 2) c 0 = r at h hsk
    obtain ⟨c1, endoff⟩ := r
    simp only at h hsk
    split at h
    · cases h
    · split at h
      · cases h
      · split at h
        · cases h
        · exact hsk.trans (ih _ _ _ _ h)
      · split at h
        · cases h
        · split at h
          · cases h
          · simp only [Option.some.injEq] at h
            subst h
            exact hsk.tail (.setStack _ _ _ _)

theorem recoverFromError_moves {x : XTables} {inp : Input} {fin : Int} (b : Bool × Bool) (c c' : XCfg)
    (h : recoverFromError x inp fin c = some (some c')) : Moves inp b c c' := by
  unfold recoverFromError at h
  simp only at h
  split at h
  · cases h
  · cases h
  · exact (fetch_moves inp b c).trans (recoverLoop_moves b _ _ _ _ _ _ h)

/-! ### onError -/

def XStep.cfg : XStep → XCfg
  | .cont c => c
  | .done _ c => c

theorem fetch_recovering (inp : Input) (c : XCfg) : (c.fetch inp).1.recovering = c.recovering := by
  unfold XCfg.fetch; split <;> rfl

theorem fetch_evs (inp : Input) (c : XCfg) : (c.fetch inp).1.evs = c.evs := by
  unfold XCfg.fetch; split <;> rfl

theorem fetch_shiftCounter (inp : Input) (c : XCfg) : (c.fetch inp).1.shiftCounter = c.shiftCounter := by
  unfold XCfg.fetch; split <;> rfl

/-- the configuration after the handler-call prelude of `onError` (recovering parsers) -/
def errPrelude (inp : Input) (c : XCfg) : XCfg :=
  if c.recovering = 0 then
    { (c.fetch inp).1 with lastErr := ((c.fetch inp).2.off, (c.fetch inp).2.endo),
                           evs := .error (c.fetch inp).2.off (c.fetch inp).2.endo :: (c.fetch inp).1.evs }
  else c

theorem onError_eq_rec {x : XTables} (inp : Input) (fin : Int) (stop : Bool) (c : XCfg)
    (hr : x.recovering = true) :
    onError x inp fin stop c =
      if (c.recovering = 0 ∧ stop = true) then
        .done (.syntaxError (errPrelude inp c).lastErr.1 (errPrelude inp c).lastErr.2) (errPrelude inp c)
      else
        match recoverFromError x inp fin { errPrelude inp c with recovering := 4 } with
        | none => .done .panic { errPrelude inp c with recovering := 4 }
        | some none => .done (.syntaxError (errPrelude inp c).lastErr.1 (errPrelude inp c).lastErr.2)
                          { errPrelude inp c with recovering := 4 }
        | some (some c3) => .cont c3 := by
  unfold onError errPrelude
  by_cases h0 : c.recovering = 0
  · cases stop <;> simp [hr, h0, XCfg.emit] <;> rfl
  · simp [hr, h0] <;> rfl

theorem onError_eq_norec {x : XTables} (inp : Input) (fin : Int) (stop : Bool) (c : XCfg)
    (hr : x.recovering = false) :
    onError x inp fin stop c =
      .done (.syntaxError (c.fetch inp).2.off (c.fetch inp).2.endo) (c.fetch inp).1 := by
  unfold onError
  simp [hr]

theorem errPrelude_moves (inp : Input) (b : Bool) (c : XCfg) : Moves inp (b, true) c (errPrelude inp c) := by
  unfold errPrelude
  split
  · next h0 =>
    exact (fetch_moves inp (b, true) c).tail
      (.emitError _ _ _ (fetch_next inp c) (by rw [fetch_recovering]; exact h0))
  · exact .refl _

theorem errPrelude_setRec (inp : Input) (b : Bool) (c : XCfg) :
    Move inp (b, true) (errPrelude inp c) { errPrelude inp c with recovering := 4 } := by
  refine .setRec _ _ ?_
  unfold errPrelude
  split
  · intro _; exact ⟨_, _, _, rfl⟩
  · next h0 => intro h; exact absurd h h0

theorem onError_moves {x : XTables} (inp : Input) (b : Bool) (fin : Int) (stop : Bool) (c : XCfg) :
    Moves inp (b, true) c (onError x inp fin stop c).cfg := by
  cases hr : x.recovering
  · rw [onError_eq_norec inp fin stop c hr]
    exact fetch_moves inp (b, true) c
  · rw [onError_eq_rec inp fin stop c hr]
    have h1 := errPrelude_moves inp b c
    have h2 := h1.tail (errPrelude_setRec inp b c)
    split
    · exact h1
    · split
      · exact h2
      · exact h2
      · next h => exact h2.trans (recoverFromError_moves (b, true) _ _ h)

/-! ### applyRuleEvents only produces listener calls -/

theorem foldl_opt_nodes (f : Option (List XEv) → Report → Option (List XEv))
    (hnone : ∀ r, f none r = none)
    (hsome : ∀ acc r out, f (some acc) r = some out → ∃ e, out = acc ++ [e] ∧ e.isNode = true) :
    ∀ (reports : List Report) (acc out : List XEv), reports.foldl f (some acc) = some out →
      (∀ e ∈ acc, e.isNode = true) → ∀ e ∈ out, e.isNode = true := by
  have hn : ∀ reports : List Report, reports.foldl f none = none := by
    intro reports
    induction reports with
    | nil => rfl
    | cons r rs ih => simp [List.foldl_cons, hnone, ih]
  intro reports
  induction reports with
  | nil => intro acc out h; simp at h; subst h; exact id
  | cons r rs ih =>
    intro acc out h hacc
    rw [List.foldl_cons] at h
    cases hf : f (some acc) r with
    | none => rw [hf, hn] at h; cases h
    | some acc' =>
      rw [hf] at h
      obtain ⟨e, rfl, he⟩ := hsome _ _ _ hf
      refine ih _ _ h ?_
      intro e' he'
      rcases List.mem_append.1 he' with h1 | h1
      · exact hacc _ h1
      · simp at h1; subst h1; exact he

theorem applyRuleEvents_nodes {x : XTables} {rule : Int} {ln off endo : Nat} {st : List Entry}
    {evs : List XEv} {e' : Nat} (h : applyRuleEvents x rule ln off endo st = some (evs, e')) :
    ∀ e ∈ evs, e.isNode = true := by
  unfold applyRuleEvents at h
  simp only at h
  split at h
  · simp only [Option.some.injEq, Prod.mk.injEq] at h
    obtain ⟨rfl, _⟩ := h
    simp
  · split at h
    · cases h
    · next evs0 hf =>
      have h0 : ∀ e ∈ evs0, e.isNode = true := by
        refine foldl_opt_nodes _ ?_ ?_ _ _ _ hf (by simp)
        · intro r; rfl
        · intro acc r out ho
          simp only at ho
          split at ho
          · split at ho
            · simp only [Option.some.injEq] at ho; exact ⟨_, ho.symm, rfl⟩
            · cases ho
          · split at ho
            · split at ho
              · cases ho
              · split at ho
                · cases ho
                · simp only [Option.some.injEq] at ho; exact ⟨_, ho.symm, rfl⟩
            · split at ho
              · simp only [Option.some.injEq] at ho; exact ⟨_, ho.symm, rfl⟩
              · cases ho
      simp only [Option.some.injEq, Prod.mk.injEq] at h
      obtain ⟨rfl, _⟩ := h
      split
      · intro e he
        rcases List.mem_append.1 he with h1 | h1
        · exact h0 _ h1
        · simp at h1; subst h1; rfl
      · exact h0

/-! ### the three branches of `xstep` -/

/-- the reduce branch of `xstep` (independent of `cancelAt`) -/
def xreduce (x : XTables) (inp : Input) (endState : Int) (stopOnError : Bool) (c1 : XCfg) (rule : Int) : XStep :=
    match geti x.t.ruleLen rule, geti x.t.ruleSymbol rule with
    | some ln, some lhs =>
      let ln := ln.toNat
      if ln > c1.stack.length then .done .panic c1
      else
        let rhs := c1.stack.take ln
        let (c2, off, endo) : XCfg × Nat × Nat :=
          if ln = 0 then
            let (c2, tk) := c1.fetch inp
            (c2, tk.off, tk.off)
          else (c1, (rhs.getLast?.map (·.off)).getD 0, (rhs.head?.map (·.endo)).getD 0)
        match applyRuleEvents x rule ln off endo c2.stack with
        | none => .done .panic c2
        | some (evs, endo') =>
          let c2 := { c2 with evs := evs.reverse ++ c2.evs }
          let rest := c2.stack.drop ln
          match rest with
          | [] => .done .panic c2
          | top :: _ =>
            match gotoState x.t top.state lhs with
            | none => .done .panic c2
            | some q =>
              let c3 := { c2 with stack := ⟨lhs, off, endo', q⟩ :: rest, state := q }
              if q = -1 then onError x inp endState stopOnError c3 else .cont c3
    | _, _ => .done .panic c1

/-- the cancellation poll: `shiftCounter+1` is a multiple of 512 and the context is done -/
def pollHit (cancelAt : Nat) (c1 : XCfg) : Prop :=
  (c1.shiftCounter + 1) % 512 = 0 ∧ cancelAt ≠ 0 ∧ c1.nodeCount ≥ cancelAt

instance (k : Nat) (c : XCfg) : Decidable (pollHit k c) := by unfold pollHit; infer_instance

def xshift (x : XTables) (cancelAt : Nat) (c1 : XCfg) (q : Int) : XStep :=
    if x.cancellable ∧ pollHit cancelAt c1 then
      .done .cancelled { c1 with shiftCounter := c1.shiftCounter + 1 }
    else
      match c1.next with
      | none => .done .panic c1
      | some tk =>
        .cont { c1 with stack := ⟨tk.sym, tk.off, tk.endo, q⟩ :: c1.stack, state := q,
                        next := if tk.sym ≠ 0 then none else c1.next,
                        recovering := c1.recovering - 1,
                        shiftCounter := if x.cancellable then c1.shiftCounter + 1 else c1.shiftCounter }

def failedShift (x : XTables) (c1 : XCfg) : Bool :=
  x.cancellable && !x.t.optimized &&
      (match geti x.t.action c1.state, c1.next with
       | some a, some tk =>
         if a = -1 then true
         else if a < -2 then lalrLookup x.t a tk.sym == some (-1) else false
       | _, _ => false)

def xerrorBr (x : XTables) (inp : Input) (endState : Int) (stopOnError : Bool) (cancelAt : Nat) (c1 : XCfg) : XStep :=
    if failedShift x c1 then
      if pollHit cancelAt c1 then
        .done .cancelled { c1 with shiftCounter := c1.shiftCounter + 1 }
      else onError x inp endState stopOnError { c1 with shiftCounter := c1.shiftCounter + 1 }
    else onError x inp endState stopOnError c1

theorem xstep_eq (x : XTables) (inp : Input) (fin : Int) (stop : Bool) (k : Nat) (c : XCfg) :
    xstep x inp fin stop k c =
      match xdecode x inp c with
      | none => .done .panic c
      | some (c1, .reduce rule) => xreduce x inp fin stop c1 rule
      | some (c1, .shift q) => xshift x k c1 q
      | some (c1, .error) => xerrorBr x inp fin stop k c1 := by
  unfold xstep xreduce xshift xerrorBr failedShift pollHit
  cases xdecode x inp c with
  | none => rfl
  | some p =>
    obtain ⟨c1, a⟩ := p
    cases a <;> rfl

/-! ### `xstep` = a pre-step that never looks at the recovery parameters, then `onError` -/

inductive XPre where
  | cont (c : XCfg)
  | done (r : XResult) (c : XCfg)
  | err (c : XCfg)

def XPre.run (f : XCfg → XStep) : XPre → XStep
  | .cont c => .cont c
  | .done r c => .done r c
  | .err c => f c

def XPre.cfg : XPre → XCfg
  | .cont c => c
  | .done _ c => c
  | .err c => c

/-- the part of the reduce branch after the right-hand side range is known -/
def xreduceTail (x : XTables) (c2 : XCfg) (rule : Int) (ln : Nat) (lhs : Int) (off endo : Nat) : XPre :=
  match applyRuleEvents x rule ln off endo c2.stack with
  | none => .done .panic c2
  | some (evs, endo') =>
    match c2.stack.drop ln with
    | [] => .done .panic { c2 with evs := evs.reverse ++ c2.evs }
    | top :: _ =>
      match gotoState x.t top.state lhs with
      | none => .done .panic { c2 with evs := evs.reverse ++ c2.evs }
      | some q =>
        if q = -1 then
          .err { c2 with evs := evs.reverse ++ c2.evs, stack := ⟨lhs, off, endo', q⟩ :: c2.stack.drop ln, state := q }
        else
          .cont { c2 with evs := evs.reverse ++ c2.evs, stack := ⟨lhs, off, endo', q⟩ :: c2.stack.drop ln, state := q }

def xreducePre (x : XTables) (inp : Input) (c1 : XCfg) (rule : Int) : XPre :=
  match geti x.t.ruleLen rule, geti x.t.ruleSymbol rule with
  | some ln, some lhs =>
    if ln.toNat > c1.stack.length then .done .panic c1
    else if ln.toNat = 0 then
      xreduceTail x (c1.fetch inp).1 rule ln.toNat lhs (c1.fetch inp).2.off (c1.fetch inp).2.off
    else
      xreduceTail x c1 rule ln.toNat lhs
        (((c1.stack.take ln.toNat).getLast?.map (·.off)).getD 0)
        (((c1.stack.take ln.toNat).head?.map (·.endo)).getD 0)
  | _, _ => .done .panic c1

theorem xreduce_pre (x : XTables) (inp : Input) (fin : Int) (stop : Bool) (c1 : XCfg) (rule : Int) :
    xreduce x inp fin stop c1 rule = (xreducePre x inp c1 rule).run (onError x inp fin stop) := by
  unfold xreduce xreducePre
  split
  · simp only
    next ln lhs _ _ =>
    by_cases hl : ln.toNat > c1.stack.length
    · simp only [hl, if_true]; rfl
    · simp only [hl, if_false]
      by_cases h0 : ln.toNat = 0
      · simp only [h0, if_true]
        unfold xreduceTail
        repeat' (first | rfl | split)
      · simp only [h0, if_false]
        unfold xreduceTail
        repeat' (first | rfl | split)
  · rfl

def xshiftPre (x : XTables) (cancelAt : Nat) (c1 : XCfg) (q : Int) : XPre :=
    if x.cancellable ∧ pollHit cancelAt c1 then
      .done .cancelled { c1 with shiftCounter := c1.shiftCounter + 1 }
    else
      match c1.next with
      | none => .done .panic c1
      | some tk =>
        .cont { c1 with stack := ⟨tk.sym, tk.off, tk.endo, q⟩ :: c1.stack, state := q,
                        next := if tk.sym ≠ 0 then none else c1.next,
                        recovering := c1.recovering - 1,
                        shiftCounter := if x.cancellable then c1.shiftCounter + 1 else c1.shiftCounter }

def xerrorPre (x : XTables) (cancelAt : Nat) (c1 : XCfg) : XPre :=
    if failedShift x c1 then
      if pollHit cancelAt c1 then
        .done .cancelled { c1 with shiftCounter := c1.shiftCounter + 1 }
      else .err { c1 with shiftCounter := c1.shiftCounter + 1 }
    else .err c1

/-- one loop iteration up to (excluding) the error branch -/
def xpre (x : XTables) (inp : Input) (cancelAt : Nat) (c : XCfg) : XPre :=
  match xdecode x inp c with
  | none => .done .panic c
  | some (c1, .reduce rule) => xreducePre x inp c1 rule
  | some (c1, .shift q) => xshiftPre x cancelAt c1 q
  | some (c1, .error) => xerrorPre x cancelAt c1

theorem xstep_pre (x : XTables) (inp : Input) (fin : Int) (stop : Bool) (k : Nat) (c : XCfg) :
    xstep x inp fin stop k c = (xpre x inp k c).run (onError x inp fin stop) := by
  rw [xstep_eq]
  unfold xpre
  cases xdecode x inp c with
  | none => rfl
  | some p =>
    obtain ⟨c1, a⟩ := p
    cases a with
    | reduce rule => exact xreduce_pre ..
    | shift q =>
      simp only
      unfold xshift xshiftPre
      repeat' (first | rfl | split)
    | error =>
      simp only
      unfold xerrorBr xerrorPre
      repeat' (first | rfl | split)

end TmVerif.LRX
