import TmVerif.Proofs.AstRegex
/-!
C21: the regular expression `approx g alph fuel T` contains every child sequence of a `T` node
(for ANY fuel and any closed alphabet assignment).
-/
namespace TmVerif.AstTypes
open Re

theorem mem_of_subset {a b : List Nat} (h : subset a b = true) {x : Nat} (hx : x ∈ a) : x ∈ b := by
  unfold subset at h
  have := List.all_eq_true.mp h x hx
  simpa using this

/-- Alphabet statement per target. -/
def AlphOK (alph : List (List Nat)) : Tgt → List Nat → Prop
  | .sym s, w => ∀ a ∈ w, a ∈ lookupAlph alph s
  | .seq is, w => ∀ a ∈ w, a ∈ itemsAlph alph is

theorem alph_sound {g : AGrammar} {alph : List (List Nat)} (hc : alphClosed g alph = true)
    {tgt : Tgt} {w : List Nat} (h : Yield g tgt w) : AlphOK alph tgt w := by
  unfold alphClosed at hc
  rw [Bool.and_eq_true] at hc
  obtain ⟨hterm, hrules⟩ := hc
  induction h with
  | term s hs =>
    intro a ha
    have := List.all_eq_true.mp hterm s (List.mem_range.mpr hs)
    exact mem_of_subset this ha
  | untyped r w hr ht _ ih =>
    intro a ha
    have := List.all_eq_true.mp hrules r hr
    simp only [ht, ne_eq, not_true_eq_false, if_false] at this
    exact mem_of_subset this (ih a ha)
  | typed r w hr ht _ _ =>
    intro a ha
    have := List.all_eq_true.mp hrules r hr
    simp only [ne_eq, ht, not_false_eq_true, if_true] at this
    simp at ha; subst ha
    simpa using this
  | nil => intro a ha; cases ha
  | consSym s rest u v _ _ ih1 ih2 =>
    intro a ha
    simp only [itemsAlph, List.mem_append] at *
    rcases ha with ha | ha
    · exact Or.inl (ih1 a ha)
    · exact Or.inr (ih2 a ha)
  | consNode t kids rest u v _ _ _ ih2 =>
    intro a ha
    simp only [itemsAlph, List.mem_cons] at *
    rcases ha with ha | ha
    · exact Or.inl ha
    · exact Or.inr (ih2 a ha)

/-- Expansion statement per target. -/
def ExpOK (g : AGrammar) (alph : List (List Nat)) : Tgt → List Nat → Prop
  | .sym s, w => ∀ fuel stack, L (expandSym g alph fuel stack s) w
  | .seq is, w => ∀ fuel stack, L (expandItemsWith (expandSym g alph fuel stack) is) w

theorem expand_sound {g : AGrammar} {alph : List (List Nat)} (hw : wfGrammar g = true)
    (hc : alphClosed g alph = true) {tgt : Tgt} {w : List Nat} (h : Yield g tgt w) :
    ExpOK g alph tgt w := by
  induction h with
  | term s hs =>
    intro fuel stack
    cases fuel with
    | zero =>
      simp only [expandSym]
      exact L_starOf (alph_sound hc (Yield.term s hs))
    | succ fuel =>
      simp only [expandSym, hs, if_true]
      exact L_seqAll_syms _
  | untyped r w hr ht hy ih =>
    intro fuel stack
    have hal : ∀ a ∈ w, a ∈ lookupAlph alph r.lhs := alph_sound hc (Yield.untyped r w hr ht hy)
    cases fuel with
    | zero => simp only [expandSym]; exact L_starOf hal
    | succ fuel =>
      have hge : ¬ r.lhs < g.nTerms := by
        have := List.all_eq_true.mp hw r hr
        simp at this; omega
      simp only [expandSym, hge, if_false]
      split
      · exact L_starOf hal
      · apply L_altAll (x := expandItemsWith (expandSym g alph fuel (r.lhs :: stack)) r.body)
        · apply List.mem_map.mpr
          refine ⟨r, List.mem_filter.mpr ⟨hr, by simp⟩, ?_⟩
          simp [ht]
        · exact ih fuel (r.lhs :: stack)
  | typed r w hr ht hy _ =>
    intro fuel stack
    have hal : ∀ a ∈ [r.ruleType], a ∈ lookupAlph alph r.lhs := alph_sound hc (Yield.typed r w hr ht hy)
    cases fuel with
    | zero => simp only [expandSym]; exact L_starOf hal
    | succ fuel =>
      have hge : ¬ r.lhs < g.nTerms := by
        have := List.all_eq_true.mp hw r hr
        simp at this; omega
      simp only [expandSym, hge, if_false]
      split
      · exact L_starOf hal
      · apply L_altAll (x := .sym r.ruleType)
        · apply List.mem_map.mpr
          refine ⟨r, List.mem_filter.mpr ⟨hr, by simp⟩, ?_⟩
          simp [ht]
        · exact L.sym _
  | nil => intro fuel stack; exact L.eps
  | consSym s rest u v _ _ ih1 ih2 =>
    intro fuel stack
    exact L.seq (ih1 fuel stack) (ih2 fuel stack)
  | consNode t kids rest u v _ _ _ ih2 =>
    intro fuel stack
    have := L.seq (L.sym t) (ih2 fuel stack)
    simpa [expandItemsWith] using this

theorem approx_sound {g : AGrammar} {alph : List (List Nat)} (fuel : Nat) (hw : wfGrammar g = true)
    (hc : alphClosed g alph = true) {T : Nat} {w : List Nat} (h : ChildSeq g T w) :
    L (approx g alph fuel T) w := by
  unfold approx
  rcases h with ⟨r, hr, hT, hT0, hy⟩ | ⟨r, hr, kids, hk, hy⟩
  · apply L_altAll (x := expandItems g alph fuel r.body)
    · apply List.mem_append.mpr; left
      apply List.mem_map.mpr
      exact ⟨r, List.mem_filter.mpr ⟨hr, by simp [hT, hT0]⟩, rfl⟩
    · exact expand_sound hw hc hy fuel []
  · apply L_altAll (x := expandItems g alph fuel kids)
    · apply List.mem_append.mpr; right
      apply List.mem_flatMap.mpr
      refine ⟨r, hr, ?_⟩
      apply List.mem_map.mpr
      exact ⟨(T, kids), List.mem_filter.mpr ⟨hk, by simp⟩, rfl⟩
    · exact expand_sound hw hc hy fuel []

end TmVerif.AstTypes
