import TmVerif.Proofs.LexRunLoop
import TmVerif.Proofs.LexRunSwitch
/-!
`Next` under `TablesWF`: one pass (`nextOnce`) and the restart loop (`nextLoop`) are total, keep the
position invariant, make progress, and report the position of the token's first byte.
-/
namespace TmVerif.LexRun
open TmVerif.LexTables

theorem actOk_facts (sp : Spec) (a : Int) (h : actOk sp [] a = true) :
    0 ≤ a ∧ isInvalid sp a = false ∧ ∃ tok, tokenOf sp a = some tok ∧
      (tok ≠ 0 ∨ sp.spaceActions.contains a = true) := by
  unfold actOk at h
  simp only [Bool.and_eq_true, decide_eq_true_eq, Bool.not_eq_true'] at h
  obtain ⟨⟨h1, h2⟩, h3⟩ := h
  refine ⟨h1, h2, ?_⟩
  cases ht : tokenOf sp a with
  | none => rw [ht] at h3; simp at h3
  | some tok =>
    rw [ht] at h3
    refine ⟨tok, rfl, ?_⟩
    simp only [List.contains_nil, Bool.or_false, Bool.or_eq_true, bne_iff_ne, ne_eq] at h3
    exact h3

theorem find_classAction (sp : Spec) (act a' : Int) (m : List (List UInt8 × Int))
    (h : sp.classActions.find? (·.1 == act) = some (a', m)) : (a', m) ∈ sp.classActions ∧ a' = act := by
  refine ⟨List.mem_of_find?_eq_some h, ?_⟩
  have := List.find?_some h
  simpa using this

theorem classSwitch_ok (sp : Spec) (w : WFacts sp) (act : Int) (hash : Nat) (text : List UInt8)
    (h : actOk sp [] act = true) : actOk sp [] (classSwitch sp act hash text) = true := by
  unfold classSwitch
  split
  · exact h
  · rename_i a' m hf
    obtain ⟨hm, _⟩ := find_classAction sp act a' m hf
    cases hl : (asStringSwitch (genHash sp) m).lookup hash text with
    | none => simpa using h
    | some x =>
      simp only [Option.getD_some]
      have := mapLookup_some_mem m text x (lookup_sound _ m hash text x hl)
      exact (w.class_ok a' m hm).2.2 text x this

theorem classSwitch_inv (sp : Spec) (w : WFacts sp) (hash : Nat) (text : List UInt8) :
    classSwitch sp (invalidAct sp) hash text = invalidAct sp := by
  unfold classSwitch
  split
  · rfl
  · rename_i a' m hf
    obtain ⟨hm, he⟩ := find_classAction sp _ a' m hf
    have := (w.class_ok a' m hm).1
    rw [he, (isInvalid_iff sp _).mpr rfl] at this
    exact nomatch this

/-- What one pass of `Next` may return, relative to the lexer `l1` after `beginToken`. -/
def OutSpec (sp : Spec) (l1 : Lexer) : Outcome → Prop
  | .restart l' => PInv sp.opts sp.v l' ∧ l'.source = l1.source ∧ l'.state = l1.state ∧
      l1.tokenOffset < l'.offset
  | .token tok l' => PInv sp.opts sp.v l' ∧ l'.source = l1.source ∧ l'.state = l1.state ∧
      l'.tokenOffset = l1.tokenOffset ∧ l'.tokenLine = l1.tokenLine ∧ l'.tokenColumn = l1.tokenColumn ∧
      l'.tokenOffset ≤ l'.offset ∧ (tok ≠ 0 → l'.tokenOffset < l'.offset) ∧
      (tok = 0 → l'.tokenOffset = l'.source.length ∧ l'.offset = l'.source.length)

/-- `finish` entered with a usable action and a non-empty text. -/
theorem finish_valid (sp : Spec) (w : WFacts sp) (k : Nat) (act : Int) (s : Scan) (l l1 : Lexer)
    (ha : actOk sp [] act = true) (hp : PInv sp.opts sp.v l) (h1 : l.source = l1.source)
    (h2 : l.state = l1.state) (h3 : l.tokenOffset = l1.tokenOffset) (h4 : l.tokenLine = l1.tokenLine)
    (h5 : l.tokenColumn = l1.tokenColumn) (hlt : l.tokenOffset < l.offset) :
    ∃ out, finish sp (k + 1) act s l = some out ∧ OutSpec sp l1 out := by
  have hok := classSwitch_ok sp w act s.hash l.text ha
  obtain ⟨_, hinv, tok, htok, hz⟩ := actOk_facts sp _ hok
  simp only [finish, htok, hinv, Bool.false_eq_true, if_false]
  by_cases hsp : sp.spaceActions.contains (classSwitch sp act s.hash l.text) = true
  · simp only [hsp, if_true]
    exact ⟨_, rfl, hp, h1, h2, by rw [← h3]; exact hlt⟩
  · simp only [hsp, if_false]
    refine ⟨_, rfl, hp, h1, h2, h3, h4, h5, Nat.le_of_lt hlt, fun _ => hlt, ?_⟩
    intro h0
    rcases hz with hz | hz
    · exact absurd h0 hz
    · exact absurd hz hsp

/-- `finish` after the loop. -/
theorem finish_spec (sp : Spec) (w : WFacts sp) (s : Scan) (l l1 : Lexer) (inv : LInv sp s l)
    (hneg : s.state < 0) (st : Stable l1 l) :
    ∃ out, finish sp 2 (actionStart sp.t - s.state) s l = some out ∧ OutSpec sp l1 out := by
  obtain ⟨_, hfin⟩ := inv.st_fin hneg
  rcases hfin with hfin | hfin
  · -- "no match"
    have hact : actionStart sp.t - s.state = invalidAct sp := by rw [hfin]; unfold invCode; omega
    obtain ⟨tok, htok, htok0⟩ := w.inv_tok
    rw [hact, finish]
    simp only [classSwitch_inv sp w, htok, (isInvalid_iff sp _).mpr rfl, if_true]
    by_cases hb : s.backup ≥ 0
    · simp only [hb, if_true]
      rcases inv.bk with hb' | ⟨b1, b2, b3⟩
      · omega
      · obtain ⟨_, binv, _⟩ := actOk_facts sp _ b1
        simp only [binv, Bool.not_false, if_true]
        obtain ⟨r1, r2, r3, r4, r5, r6, r7⟩ := rewind_pinv sp.opts sp.v l s.backupOffset
          (Nat.le_trans b3 inv.pinv.le) inv.pinv
        exact finish_valid sp w 0 s.backup _ _ l1 b1 r1 (r3.trans st.source) (r5.trans st.state)
          (r4.trans st.tokenOffset) (r6.trans st.tokenLine) (r7.trans st.tokenColumn) (by rw [r4, r2]; exact b2)
    · simp only [hb, if_false]
      by_cases heq : l.offset = l.tokenOffset
      · simp only [heq, if_true]
        by_cases hch : l.ch < 0
        · -- EOI
          obtain ⟨c1, c2⟩ := inv.pinv.ch_eoi hch
          have hend := inv.pinv.ch_neg_iff.mp hch
          obtain ⟨r1, r2, r3, r4, r5, r6, r7⟩ := rewind_pinv sp.opts sp.v l l.scanOffset
            (by rw [c2]; exact inv.pinv.le) inv.pinv
          refine ⟨_, rfl, ?_⟩
          simp only [c1, if_true]
          refine ⟨r1, r3.trans st.source, r5.trans st.state, r4.trans st.tokenOffset, r6.trans st.tokenLine,
            r7.trans st.tokenColumn, by rw [r4, r2, c2, heq]; exact Nat.le_refl _, fun h => absurd rfl h, fun _ => ?_⟩
          rw [r4, r2, r3, c2, ← heq, hend]; exact ⟨rfl, rfl⟩
        · -- one character
          have hch0 : 0 ≤ l.ch := by omega
          obtain ⟨_, _, p3, p4, _⟩ := consume_pinv sp.opts sp.v l inv.pinv hch0
          obtain ⟨r1, r2, r3, r4, r5, r6, r7⟩ := rewind_pinv sp.opts sp.v l l.scanOffset p4 inv.pinv
          have hne : ¬ l.ch = -1 := by omega
          refine ⟨_, rfl, ?_⟩
          simp only [hne, if_false]
          refine ⟨r1, r3.trans st.source, r5.trans st.state, r4.trans st.tokenOffset, r6.trans st.tokenLine,
            r7.trans st.tokenColumn, by rw [r4, r2]; omega, fun _ => by rw [r4, r2]; omega, fun h => absurd h htok0⟩
      · simp only [heq, if_false]
        have hlt : l.tokenOffset < l.offset := by have := inv.tok_le; omega
        exact ⟨_, rfl, inv.pinv, st.source, st.state, st.tokenOffset, st.tokenLine, st.tokenColumn,
          Nat.le_of_lt hlt, fun _ => hlt, fun h => absurd h htok0⟩
  · -- a usable action: the text is not empty
    have hne : l.offset ≠ l.tokenOffset := by
      intro heq
      obtain ⟨_, h2, _⟩ := inv.fresh heq
      have := h2 hneg
      obtain ⟨_, hinv, _⟩ := actOk_facts sp _ hfin
      have : actionStart sp.t - s.state = invalidAct sp := by rw [this]; unfold invCode; omega
      rw [(isInvalid_iff sp _).mpr this] at hinv
      exact nomatch hinv
    have hlt : l.tokenOffset < l.offset := by have := inv.tok_le; omega
    exact finish_valid sp w 1 _ s l l1 hfin inv.pinv st.source st.state st.tokenOffset st.tokenLine
      st.tokenColumn hlt

/-! ### one pass and the restart loop -/

/-- `l.State` indexes `tmStateMap` (it is a public field the user may set). -/
def ValidState (sp : Spec) (l : Lexer) : Prop :=
  sp.multiState = true → 0 ≤ l.state ∧ l.state < (sp.t.stateMap.size : Int)

theorem beginToken_pinv (o : Opts) (v : Variant) (l : Lexer) (h : PInv o v l) : PInv o v (beginToken o l) :=
  ⟨h.le, h.ch, h.so, h.line, h.lo⟩

theorem startState_ok (sp : Spec) (w : WFacts sp) (l : Lexer) (hv : ValidState sp l) :
    ∃ st, startState sp l = some st ∧ st ∈ startStates sp := by
  unfold startState startStates
  cases hm : sp.multiState with
  | true =>
    simp only [if_true]
    obtain ⟨h0, h1⟩ := hv hm
    obtain ⟨e, he⟩ := getI_some sp.t.stateMap l.state h0 h1
    refine ⟨e, he, ?_⟩
    unfold getI at he
    simp only [h0, if_true] at he
    obtain ⟨hlt, heq⟩ := Array.getElem?_eq_some_iff.mp he
    rw [← heq]
    exact Array.getElem_mem_toList hlt
  | false =>
    simp only [Bool.false_eq_true, if_false]
    have hne := w.start_ne
    unfold startStates at hne
    simp only [hm, Bool.false_eq_true, if_false] at hne
    cases hl : sp.t.stateMap.toList with
    | nil => rw [hl] at hne; simp at hne
    | cons x xs =>
      have hsz : 0 < sp.t.stateMap.size := by
        have := congrArg List.length hl
        simp at this; omega
      have hx : sp.t.stateMap[0] = x := by
        have : sp.t.stateMap.toList[0]'(by simpa using hsz) = x := by simp [hl]
        simpa using this
      refine ⟨x, ?_, by simp⟩
      unfold getI
      simp [hsz, hx]

theorem rowOk_of_start (sp : Spec) (w : WFacts sp) (st : Int) (h : startRowOk sp [] st = true) :
    RowOk sp st ∧ EoiInv sp st := by
  unfold startRowOk at h
  simp only [Bool.and_eq_true, List.all_eq_true, List.mem_range] at h
  obtain ⟨h1, h2⟩ := h
  constructor
  · intro c hc0 hc e he
    have := h1 c.toNat (by have := w.ns_pos; omega)
    rw [show ((c.toNat : Nat) : Int) = c by omega, he] at this
    simp only [Bool.or_eq_true, decide_eq_true_eq, beq_iff_eq] at this
    exact this
  · cases hc : eoiChainNC sp.t (numStates sp.t + 1) st with
    | none => rw [hc] at h2; simp at h2
    | some a =>
      rw [hc] at h2
      simp only [List.contains_nil, Bool.or_false, beq_iff_eq] at h2
      exact ⟨_, by rw [hc, h2]⟩

/-- One pass of `Next` is total and returns a restart with progress or a token. -/
theorem nextOnce_spec (sp : Spec) (w : WFacts sp) (l : Lexer) (hp : PInv sp.opts sp.v l)
    (hv : ValidState sp l) :
    ∃ out, nextOnce sp l = some out ∧ OutSpec sp (beginToken sp.opts l) out := by
  obtain ⟨st, hst, hmem⟩ := startState_ok sp w l hv
  have hst' : startState sp (beginToken sp.opts l) = some st := hst
  obtain ⟨hrow, heoi⟩ := rowOk_of_start sp w st (w.start_ok st hmem)
  have hsm : 0 ≤ st ∧ st < (numStates sp.t : Int) := by
    unfold startState at hst
    split at hst <;> exact w.sm_ok _ st hst
  have inv : LInv sp ⟨st, 0, -1, 0, 0⟩ (beginToken sp.opts l) :=
    ⟨beginToken_pinv _ _ l hp, Nat.le_refl _, hsm.2, fun h => absurd h (by show ¬ st < 0; omega), Or.inl rfl,
      fun _ => ⟨rfl, fun h => absurd h (by show ¬ st < 0; omega), fun _ => ⟨fun _ => hrow, fun _ => heoi⟩⟩⟩
  obtain ⟨s', l', h1, h2, h3, h4⟩ := loop_total sp w (loopFuel sp (beginToken sp.opts l)) _ _ inv (Nat.le_refl _)
  obtain ⟨out, h5, h6⟩ := finish_spec sp w s' l' (beginToken sp.opts l) h2 h3 h4
  refine ⟨out, ?_, h6⟩
  unfold nextOnce
  simp only [hst', h1, h5]

/-- A chain of restart passes (skipped space-rule matches). -/
inductive Restarts (sp : Spec) : Lexer → Lexer → Prop
  | refl (l : Lexer) : Restarts sp l l
  | step {l l1 l2 : Lexer} : nextOnce sp l = some (.restart l1) → Restarts sp l1 l2 → Restarts sp l l2

/-- Everything a call of `Next` guarantees. -/
structure NextSpec (sp : Spec) (l : Lexer) (tok : Int) (l' : Lexer) : Prop where
  pinv : PInv sp.opts sp.v l'
  source : l'.source = l.source
  state : l'.state = l.state
  after : l.offset ≤ l'.tokenOffset
  le : l'.tokenOffset ≤ l'.offset
  nonempty : tok ≠ 0 → l'.tokenOffset < l'.offset
  eoi : tok = 0 → l'.tokenOffset = l'.source.length ∧ l'.offset = l'.source.length
  line : sp.opts.tokenLine = true → l'.tokenLine = 1 + (countNL (l'.source.take l'.tokenOffset) : Int)
  col : sp.opts.tokenColumn = true → (sp.opts.tokenLine = true ∨ sp.v.colFix = true) →
    if sp.v.colFix then l'.tokenColumn = (l'.tokenOffset : Int) - (lineStart l'.source l'.tokenOffset : Int) + 1
    else l'.tokenColumn = (l'.tokenOffset : Int) - (lineStart l'.source l'.tokenOffset : Int) + 1 ∨
         l'.tokenColumn = (l'.tokenOffset : Int) - (lineStart l'.source l'.tokenOffset : Int) + 2
  gaps : ∃ lm, Restarts sp l lm ∧ lm.offset = l'.tokenOffset ∧ nextOnce sp lm = some (.token tok l')

theorem nextLoop_spec (sp : Spec) (w : WFacts sp) : ∀ (fuel : Nat) (l : Lexer),
    PInv sp.opts sp.v l → ValidState sp l → (l.source.length - l.offset) + 2 ≤ fuel →
    ∃ tok l', nextLoop sp fuel l = some (tok, l') ∧ NextSpec sp l tok l' := by
  intro fuel
  induction fuel with
  | zero => intro l _ _ h; omega
  | succ fuel ih =>
    intro l hp hv hfuel
    obtain ⟨out, h1, h2⟩ := nextOnce_spec sp w l hp hv
    simp only [nextLoop, h1]
    cases out with
    | restart l1 =>
      obtain ⟨q1, q2, q3, q4⟩ := h2
      have q4' : l.offset < l1.offset := q4
      have hv1 : ValidState sp l1 := by intro hm; rw [q3]; exact hv hm
      have hle := q1.le
      have q2' : l1.source = l.source := q2
      obtain ⟨tok, l', r1, r2⟩ := ih l1 q1 hv1 (by rw [q2']; rw [q2'] at hle; omega)
      refine ⟨tok, l', r1, r2.pinv, r2.source.trans q2', r2.state.trans q3, by have := r2.after; omega,
        r2.le, r2.nonempty, r2.eoi, r2.line, r2.col, ?_⟩
      obtain ⟨lm, g1, g2, g3⟩ := r2.gaps
      exact ⟨lm, Restarts.step h1 g1, g2, g3⟩
    | token tok l' =>
      obtain ⟨q1, q2, q3, q4, q5, q6, q7, q8, q9⟩ := h2
      have q2' : l'.source = l.source := q2
      have q4' : l'.tokenOffset = l.offset := q4
      refine ⟨tok, l', rfl, q1, q2', q3, by omega, q7, q8, q9, ?_, ?_, ⟨l, Restarts.refl l, q4'.symm, h1⟩⟩
      · intro ht
        have q5' : l'.tokenLine = l.line := by rw [q5]; simp [beginToken, ht]
        rw [q5', q2', q4']; exact hp.line ht
      · intro hc hor
        have q6' : l'.tokenColumn = (l.offset : Int) - l.lineOffset + 1 := by rw [q6]; simp [beginToken, hc]
        have hlo := hp.lo (by simp [Opts.hasLineOffset, hc]) hor
        unfold LineOffsetOk at hlo
        rw [q6', q2', q4']
        split
        · rename_i hcf; simp only [hcf, if_true] at hlo; rw [hlo]
        · rename_i hcf
          simp only [hcf, Bool.false_eq_true, if_false] at hlo
          rcases hlo with hlo | hlo
          · left; rw [hlo]
          · right; omega

end TmVerif.LexRun
