/-
Helper lemmas for C06: an accepted simulation certificate `simCheck t t' …` lifts to whole runs —
the run of the minimized tables is the image of the run of the unminimized ones under the state
map `rel`, up to the moment at which the lookahead token is fetched and up to rule classes.
-/
import TmVerif.Proofs.LRCheckObs
namespace TmVerif.LRCheck
open TmVerif.LR

set_option quotPrecheck false in
local notation "D[" t "]" => ({ t with optimized := false } : Tables)

/-! ### what the certificate says (for one input `i` with reachable set `set`) -/

structure SimFacts (t t' : Tables) (acts : Array Int) (rel : Array (Option Nat)) (i : Nat)
    (set : List Nat) (f f' : Int) : Prop where
  entry : relAt rel i = some i
  entryMem : i ∈ set
  trans : ∀ s s', s ∈ set → relAt rel s = some s' → ∀ x, x < t.nSyms →
    gotoSim t t' rel s s' x = true
  acts : ∀ s s', s ∈ set → relAt rel s = some s' → ∀ a, a < t.nTerms →
    obsSim t t' acts rel (obsDefault t s a) (obsDefault t' s' a) = true
  closed : ∀ s, s ∈ set → ∀ x, x < t.nSyms → ∀ q, gotoDefault t s x = some q →
    q < 0 ∨ q.toNat ∈ set
  related : ∀ s, s ∈ set → ∃ s', relAt rel s = some s'
  fin : t.finalStates[i]? = some f
  fin' : t'.finalStates[i]? = some f'
  finEq : ∀ s s', s ∈ set → relAt rel s = some s' → (f = (s : Int) ↔ f' = (s' : Int))

theorem simFacts {t t' : Tables} {acts : Array Int} {n : Nat} {rel : Array (Option Nat)}
    {rs : List (List Nat)} (h : simCheck t t' acts n rel rs = true) {i : Nat} (hi : i < n) :
    ∃ f f', SimFacts t t' acts rel i (rs.getD i []) f f' := by
  unfold simCheck at h
  simp only [Bool.and_eq_true, List.all_eq_true, List.mem_range] at h
  obtain ⟨⟨⟨h1, h2⟩, _⟩, h4⟩ := h
  obtain ⟨⟨h41, h42⟩, h43⟩ := h4 i hi
  cases hf : t.finalStates[i]? with
  | none => simp [hf] at h43
  | some f =>
    cases hf' : t'.finalStates[i]? with
    | none => simp [hf, hf'] at h43
    | some f' =>
      simp only [hf, hf', List.all_eq_true, Bool.and_eq_true, decide_eq_true_eq] at h43
      have hrel : ∀ s, s ∈ rs.getD i [] → ∃ s', relAt rel s = some s' := by
        intro s hs
        have := (h43 s hs).2
        cases hr : relAt rel s with
        | none => simp [hr] at this
        | some s' => exact ⟨s', rfl⟩
      refine ⟨f, f', ?_, ?_, ?_, ?_, ?_, hrel, hf, hf', ?_⟩
      · simpa using h1 i hi
      · simpa using h41
      · intro s s' hs hr x hx
        have := h2 s (h43 s hs).1
        rw [hr] at this
        simp only [Bool.and_eq_true, List.all_eq_true, List.mem_range] at this
        exact this.1 x hx
      · intro s s' hs hr a ha
        have := h2 s (h43 s hs).1
        rw [hr] at this
        simp only [Bool.and_eq_true, List.all_eq_true, List.mem_range] at this
        exact this.2 a ha
      · intro s hs x hx q hq
        unfold reachClosed at h42
        simp only [List.all_eq_true, List.mem_range] at h42
        have := h42 s hs x hx
        rw [hq] at this
        simpa using this
      · intro s s' hs hr
        have := (h43 s hs).2
        rw [hr] at this
        simp only [beq_iff_eq] at this
        by_cases h1 : f = (s : Int) <;> by_cases h2 : f' = (s' : Int) <;> simp_all

/-- the possible shapes of a pair of cells accepted by `obsSim` -/
theorem obsSim_cases {t t' : Tables} {acts : Array Int} {rel : Array (Option Nat)} {o o' : Obs}
    (h : obsSim t t' acts rel o o' = true) :
    (∃ q q', o = .shift q ∧ o' = .shift q' ∧ 0 ≤ q ∧ 0 ≤ q' ∧ relAt rel q.toNat = some q'.toNat) ∨
    (∃ r r', o = .reduce r ∧ o' = .reduce r' ∧ ruleClassEq t acts r r' = true ∧
      geti t'.ruleLen r' = geti t.ruleLen r') ∨
    (o.toAct = some .error ∧ o'.toAct = some .error) := by
  cases o with
  | shift q =>
    cases o' with
    | shift q' =>
      simp only [obsSim, Bool.and_eq_true, decide_eq_true_eq, beq_iff_eq] at h
      exact Or.inl ⟨q, q', rfl, rfl, h.1.1, h.2, h.1.2⟩
    | _ => simp [obsSim] at h
  | reduce r =>
    cases o' with
    | reduce r' =>
      simp only [obsSim, Bool.and_eq_true, beq_iff_eq] at h
      exact Or.inr (Or.inl ⟨r, r', rfl, rfl, h.1, h.2⟩)
    | _ => simp [obsSim] at h
  | errExplicit =>
    cases o' with
    | errExplicit => exact Or.inr (Or.inr ⟨rfl, rfl⟩)
    | err => exact Or.inr (Or.inr ⟨rfl, rfl⟩)
    | _ => simp [obsSim] at h
  | err =>
    cases o' with
    | errExplicit => exact Or.inr (Or.inr ⟨rfl, rfl⟩)
    | err => exact Or.inr (Or.inr ⟨rfl, rfl⟩)
    | _ => simp [obsSim] at h
  | bad => cases o' <;> simp [obsSim] at h

theorem lalrOkAt_of_wf {t : Tables} (hw : WfFacts t) (s : Nat) : LalrOkAt t s := by
  by_cases hs : s < t.nStates
  · exact hw.lalr s hs
  · intro v hv _
    unfold geti at hv
    simp only [Int.natCast_nonneg, Int.not_lt.mpr, if_false, Int.toNat_natCast] at hv
    have : t.action.size ≤ s := by unfold Tables.nStates at hs; omega
    rw [Array.getElem?_eq_none this] at hv
    cases hv

/-! ### the relation between the two configurations -/

/-- lookahead token and lexer position after a forced fetch -/
def Core (inp : Input) (c : Cfg) : Option Tok × Nat := ((c.fetch inp).1.next, (c.fetch inp).1.pos)

theorem core_fetch (inp : Input) (c : Cfg) : Core inp (c.fetch inp).1 = Core inp c := by
  unfold Core; rw [fetch_idem]

theorem core_upd (inp : Input) (c : Cfg) (stk : List Entry) (q : Int) (evs : List Ev) :
    Core inp { c with stack := stk, state := q, evs := evs } = Core inp c := by
  unfold Core; rw [fetch_upd]

theorem core_tok {inp : Input} {c c' : Cfg} (h : Core inp c = Core inp c') :
    (c.fetch inp).2 = (c'.fetch inp).2 := by
  unfold Core at h
  have h1 := fetch_next inp c
  have h2 := fetch_next inp c'
  have := congrArg Prod.fst h
  simp only [h1, h2, Option.some.injEq] at this
  exact this

/-- image of a state under the simulation relation -/
def mapS (rel : Array (Option Nat)) (s : Int) : Int :=
  match relAt rel s.toNat with
  | some s' => (s' : Int)
  | none => -1

def mapE (rel : Array (Option Nat)) (e : Entry) : Entry := { e with state := mapS rel e.state }

/-- a state of the unminimized run: reachable (in `set`) and related -/
def Good (rel : Array (Option Nat)) (set : List Nat) (s : Int) : Prop :=
  ∃ p : Nat, s = (p : Int) ∧ p ∈ set ∧ ∃ p', relAt rel p = some p'

theorem mapS_of {rel : Array (Option Nat)} {p p' : Nat} (h : relAt rel p = some p') :
    mapS rel (p : Int) = (p' : Int) := by
  unfold mapS; rw [Int.toNat_natCast, h]

def TraceSim (t : Tables) (acts : Array Int) (evs evs' : List Ev) : Prop :=
  traceSim t acts evs evs' = true

theorem TraceSim.cons {t : Tables} {acts : Array Int} {e e' : Ev} {evs evs' : List Ev}
    (h : evSim t acts e e' = true) (hs : TraceSim t acts evs evs') :
    TraceSim t acts (e :: evs) (e' :: evs') := by
  unfold TraceSim at *
  simp [traceSim, h, hs]

/-- what is needed of two final configurations -/
structure RelW (t : Tables) (acts : Array Int) (inp : Input) (c c' : Cfg) : Prop where
  core : Core inp c = Core inp c'
  evs : TraceSim t acts c.evs c'.evs

structure Rel6 (t : Tables) (acts : Array Int) (rel : Array (Option Nat)) (set : List Nat)
    (inp : Input) (c c' : Cfg) : Prop extends RelW t acts inp c c' where
  stack : c'.stack = c.stack.map (mapE rel)
  stackGood : ∀ e ∈ c.stack, Good rel set e.state
  state : c'.state = mapS rel c.state
  stateGood : Good rel set c.state
  top : ∃ e rest, c.stack = e :: rest ∧ e.state = c.state
  next : ∀ tk, c.next = some tk → 0 ≤ tk.sym ∧ tk.sym < (t.nTerms : Int)

theorem fetch_tok_in6 {t : Tables} {inp : Input} (hin : inputOk t inp = true) (h0 : 0 < t.nTerms)
    {c : Cfg} (h : ∀ tk, c.next = some tk → 0 ≤ tk.sym ∧ tk.sym < (t.nTerms : Int)) :
    0 ≤ (c.fetch inp).2.sym ∧ (c.fetch inp).2.sym < (t.nTerms : Int) := by
  cases hn : c.next with
  | some tk => rw [fetch_some hn]; exact h tk hn
  | none => rw [fetch_none hn]; exact tok_in hin h0 _

theorem Rel6.fetch_left {t : Tables} {acts : Array Int} {rel : Array (Option Nat)} {set : List Nat}
    {inp : Input} (hin : inputOk t inp = true) (h0 : 0 < t.nTerms) {c c' : Cfg}
    (h : Rel6 t acts rel set inp c c') : Rel6 t acts rel set inp (c.fetch inp).1 c' := by
  refine ⟨⟨?_, ?_⟩, ?_, ?_, ?_, ?_, ?_, ?_⟩
  · rw [core_fetch]; exact h.core
  · rw [fetch_evs]; exact h.evs
  · rw [fetch_stack]; exact h.stack
  · rw [fetch_stack]; exact h.stackGood
  · rw [fetch_state]; exact h.state
  · rw [fetch_state]; exact h.stateGood
  · rw [fetch_stack, fetch_state]; exact h.top
  · intro tk htk
    rw [fetch_next] at htk
    cases htk
    exact fetch_tok_in6 hin h0 h.next

theorem Rel6.fetch_right {t : Tables} {acts : Array Int} {rel : Array (Option Nat)}
    {set : List Nat} {inp : Input} {c c' : Cfg}
    (h : Rel6 t acts rel set inp c c') : Rel6 t acts rel set inp c (c'.fetch inp).1 := by
  refine ⟨⟨?_, ?_⟩, ?_, h.stackGood, ?_, h.stateGood, h.top, h.next⟩
  · rw [core_fetch]; exact h.core
  · rw [fetch_evs]; exact h.evs
  · rw [fetch_stack]; exact h.stack
  · rw [fetch_state]; exact h.state

/-! ### reductions -/

theorem mapE_off (rel : Array (Option Nat)) :
    (fun e : Entry => e.off) ∘ mapE rel = fun e => e.off := rfl

theorem mapE_endo (rel : Array (Option Nat)) :
    (fun e : Entry => e.endo) ∘ mapE rel = fun e => e.endo := rfl

theorem redParts_rel {t : Tables} {acts : Array Int} {rel : Array (Option Nat)} {set : List Nat}
    {inp : Input} (hin : inputOk t inp = true) (h0 : 0 < t.nTerms) {c c' : Cfg}
    (h : Rel6 t acts rel set inp c c') (n : Nat) :
    Rel6 t acts rel set inp (redParts inp c n).1 (redParts inp c' n).1 ∧
    (redParts inp c n).2 = (redParts inp c' n).2 := by
  unfold redParts
  split
  · refine ⟨(h.fetch_left hin h0).fetch_right, ?_⟩
    simp only [core_tok h.core]
  · refine ⟨h, ?_⟩
    simp only [h.stack, ← List.map_take, List.getLast?_map, List.head?_map, Option.map_map,
      mapE_off, mapE_endo]

/-- outcome of two corresponding steps -/
inductive StepRel6 (t : Tables) (acts : Array Int) (rel : Array (Option Nat)) (set : List Nat)
    (inp : Input) : Step → Step → Prop
  | cont (c c' : Cfg) : Rel6 t acts rel set inp c c' →
      StepRel6 t acts rel set inp (.cont c) (.cont c')
  | done (r : Result) (c c' : Cfg) : RelW t acts inp c c' →
      StepRel6 t acts rel set inp (.done r c) (.done r c')

theorem good_mem_drop {rel : Array (Option Nat)} {set : List Nat} {stk : List Entry}
    (h : ∀ e ∈ stk, Good rel set e.state) (n : Nat) : ∀ e ∈ stk.drop n, Good rel set e.state :=
  fun e he => h e (List.mem_of_mem_drop he)

theorem reduce_rel {t t' : Tables} {acts : Array Int} {rel : Array (Option Nat)} {i : Nat}
    {set : List Nat} {f f' : Int} {inp : Input} (hf : SimFacts t t' acts rel i set f f')
    (hw : WfFacts t) (hw' : WfFacts t') (hin : inputOk t inp = true) {c1 c1' : Cfg}
    (hr : Rel6 t acts rel set inp c1 c1') {r r' : Int} (hcls : ruleClassEq t acts r r' = true)
    (n : Nat) {lhs : Int} (hl1 : 0 ≤ lhs) (hl2 : lhs < (t.nSyms : Int)) :
    StepRel6 t acts rel set inp (reduceWith inp c1 r n lhs (fun p => gotoDefault t p lhs))
      (reduceWith inp c1' r' n lhs (fun p => gotoDefault t' p lhs)) := by
  unfold reduceWith
  have hlen : c1'.stack.length = c1.stack.length := by rw [hr.stack, List.length_map]
  rw [hlen]
  split
  · exact .done _ _ _ hr.toRelW
  · obtain ⟨hP, hP2⟩ := redParts_rel hin hw.nTermsPos hr n
    simp only
    rw [hP.stack, ← List.map_drop]
    cases hdrop : (redParts inp c1 n).1.stack.drop n with
    | nil => exact .done _ _ _ hP.toRelW
    | cons top rest =>
      simp only [List.map_cons]
      have hgood : ∀ e ∈ top :: rest, Good rel set e.state := by
        rw [← hdrop]; exact good_mem_drop hP.stackGood n
      obtain ⟨p, hp, hpm, p', hpr⟩ := hgood top List.mem_cons_self
      have hmS : (mapE rel top).state = (p' : Int) := by
        show mapS rel top.state = _
        rw [hp]; exact mapS_of hpr
      rw [hmS, hp]
      have hlE : ((lhs.toNat : Nat) : Int) = lhs := by omega
      have hgs := hf.trans p p' hpm hpr lhs.toNat (by omega)
      unfold gotoSim at hgs
      rw [hlE] at hgs
      cases hg : gotoDefault t p lhs with
      | none => simp [hg] at hgs
      | some q =>
        cases hg' : gotoDefault t' p' lhs with
        | none => simp [hg, hg'] at hgs
        | some q' =>
          simp only [hg, hg', Bool.or_eq_true, Bool.and_eq_true, decide_eq_true_eq, beq_iff_eq] at hgs ⊢
          have hev : TraceSim t acts
              (.reduce r (redParts inp c1 n).2.1 (redParts inp c1 n).2.2 :: (redParts inp c1 n).1.evs)
              (.reduce r' (redParts inp c1' n).2.1 (redParts inp c1' n).2.2 ::
                (redParts inp c1' n).1.evs) := by
            refine TraceSim.cons ?_ hP.evs
            rw [hP2]
            simp [evSim, hcls]
          rcases hgs with ⟨hq, hq'⟩ | ⟨⟨hq, hq'⟩, hrq⟩
          · -- no goto in either table
            have e1 : q = -1 := by
              rcases goto_valid hw hg with h | h
              · exact h
              · omega
            have e2 : q' = -1 := by
              rcases goto_valid hw' hg' with h | h
              · exact h
              · omega
            subst e1 e2
            simp only [if_true]
            refine .done _ _ _ ⟨?_, hev⟩
            exact (core_upd inp (redParts inp c1 n).1 _ _ _).trans
              (hP.core.trans (core_upd inp (redParts inp c1' n).1 _ _ _).symm)
          · have hq1 : q ≠ -1 := by omega
            have hq1' : q' ≠ -1 := by omega
            simp only [hq1, hq1', if_false]
            have hqE : ((q.toNat : Nat) : Int) = q := by omega
            have hqE' : ((q'.toNat : Nat) : Int) = q' := by omega
            have hqm : q.toNat ∈ set := by
              rcases hf.closed p hpm lhs.toNat (by omega) q (by rw [hlE]; exact hg) with h | h
              · omega
              · exact h
            have hqG : Good rel set q := ⟨q.toNat, hqE.symm, hqm, _, hrq⟩
            have hmq : mapS rel q = q' := by
              rw [← hqE, mapS_of hrq, hqE']
            refine .cont _ _ ⟨⟨?_, hev⟩, ?_, ?_, ?_, hqG, ⟨_, _, rfl, rfl⟩, hP.next⟩
            · exact (core_upd inp (redParts inp c1 n).1 _ _ _).trans
                (hP.core.trans (core_upd inp (redParts inp c1' n).1 _ _ _).symm)
            · simp only [List.map_cons, hdrop, hP2]
              rw [← hmq]
              rfl
            · intro e he
              rcases List.mem_cons.mp he with h | h
              · subst h; exact hqG
              · exact hgood e h
            · exact hmq.symm

/-! ### one step -/

theorem step_rel {t t' : Tables} {acts : Array Int} {rel : Array (Option Nat)} {i : Nat}
    {set : List Nat} {f f' : Int} {inp : Input} (hf : SimFacts t t' acts rel i set f f')
    (hw : WfFacts t) (hw' : WfFacts t') (hsr : sameRules t t' = true)
    (hin : inputOk t inp = true) {c c' : Cfg} (hr : Rel6 t acts rel set inp c c') :
    StepRel6 t acts rel set inp (step D[t] inp c) (step D[t'] inp c') := by
  obtain ⟨p, hp, hpm, p', hpr⟩ := hr.stateGood
  have hp' : c'.state = (p' : Int) := by rw [hr.state, hp]; exact mapS_of hpr
  obtain ⟨ht0, ht1⟩ := fetch_tok_in6 hin hw.nTermsPos hr.next
  generalize ha : (c.fetch inp).2.sym.toNat = a at *
  have haE : (c.fetch inp).2.sym = (a : Int) := by omega
  have haE' : (c'.fetch inp).2.sym = (a : Int) := by rw [← core_tok hr.core]; exact haE
  have ha' : a < t.nTerms := by omega
  have hobs := hf.acts p p' hpm hpr a ha'
  simp only [sameRules, Bool.and_eq_true, beq_iff_eq] at hsr
  obtain ⟨⟨hrl, hrs⟩, _⟩ := hsr
  -- decode both sides from the observations
  have key : ∀ x x', (obsDefault t p a).toAct = some x → (obsDefault t' p' a).toAct = some x' →
      ∃ c1 c1', step D[t] inp c = apply D[t] inp c1 x ∧ step D[t'] inp c' = apply D[t'] inp c1' x' ∧
        Rel6 t acts rel set inp c1 c1' ∧
        (needsTok D[t] c.state = some true → c1 = (c.fetch inp).1) ∧
        (needsTok D[t'] c'.state = some true → c1' = (c'.fetch inp).1) ∧
        (∀ deep, actOf D[t] deep p a = some x) ∧ (∀ deep, actOf D[t'] deep p' a = some x') := by
    intro x x' hx hx'
    have hb : obsDefault t p a ≠ .bad := by intro h; rw [h] at hx; cases hx
    have hb' : obsDefault t' p' a ≠ .bad := by intro h; rw [h] at hx'; cases hx'
    have hD : ∀ deep, actOf D[t] deep p a = some x := fun deep => by
      rw [actOf_default_obs t p a deep (lalrOkAt_of_wf hw p) hb, hx]
    have hD' : ∀ deep, actOf D[t'] deep p' a = some x' := fun deep => by
      rw [actOf_default_obs t' p' a deep (lalrOkAt_of_wf hw' p') hb', hx']
    obtain ⟨c1, hdec, hc1, hc1n⟩ := decode_of_act (t := D[t]) (inp := inp) (c := c) (x := x)
      (fun deep => by rw [hp, haE]; exact hD deep)
    obtain ⟨c1', hdec', hc1', hc1n'⟩ := decode_of_act (t := D[t']) (inp := inp) (c := c') (x := x')
      (fun deep => by rw [hp', haE']; exact hD' deep)
    refine ⟨c1, c1', by unfold step; rw [hdec], by unfold step; rw [hdec'], ?_, hc1n, hc1n', hD, hD'⟩
    have h1 : Rel6 t acts rel set inp c1 c' := by
      rcases hc1 with h | h <;> rw [h]
      · exact hr
      · exact hr.fetch_left hin hw.nTermsPos
    rcases hc1' with h | h <;> rw [h]
    · exact h1
    · exact h1.fetch_right
  rcases obsSim_cases hobs with ⟨q, q', ho, ho', hq, hq', hrq⟩ | ⟨r, r', ho, ho', hcls, hlen⟩ | ⟨ho, ho'⟩
  · -- shift
    obtain ⟨c1, c1', hs, hs', hr1, hn, hn', hD, hD'⟩ := key (.shift q) (.shift q')
      (by rw [ho]; rfl) (by rw [ho']; rfl)
    rw [hs, hs']
    obtain ⟨hg, _, hnt⟩ := actOf_default_shift (hD (fun _ => none))
    obtain ⟨_, _, hnt'⟩ := actOf_default_shift (hD' (fun _ => none))
    have h1 : c1 = (c.fetch inp).1 := hn (by rw [hp]; exact hnt)
    have h1' : c1' = (c'.fetch inp).1 := hn' (by rw [hp']; exact hnt')
    have hnx : c1.next = some (c.fetch inp).2 := by rw [h1]; exact fetch_next _ _
    have hnx' : c1'.next = some (c.fetch inp).2 := by
      rw [h1', core_tok hr.core]; exact fetch_next _ _
    rw [apply, apply, hnx, hnx']
    simp only
    have hqE : ((q.toNat : Nat) : Int) = q := by omega
    have hqE' : ((q'.toNat : Nat) : Int) = q' := by omega
    have hqm : q.toNat ∈ set := by
      rcases hf.closed p hpm a (by have := hw.nTermsLe; omega) q hg with h | h
      · omega
      · exact h
    have hqG : Good rel set q := ⟨q.toNat, hqE.symm, hqm, _, hrq⟩
    have hmq : mapS rel q = q' := by rw [← hqE, mapS_of hrq, hqE']
    -- the fetched configurations have the same lookahead and position
    have hcore : c1.next = c1'.next ∧ c1.pos = c1'.pos := by
      have := hr1.core
      unfold Core at this
      rw [fetch_some hnx, fetch_some hnx'] at this
      exact ⟨congrArg Prod.fst this, congrArg Prod.snd this⟩
    refine .cont _ _ ⟨⟨?_, ?_⟩, ?_, ?_, hmq.symm, hqG, ⟨_, _, rfl, rfl⟩, ?_⟩
    · unfold Core Cfg.fetch
      simp only [hnx, hnx', hcore.2]
      split <;> rfl
    · refine TraceSim.cons ?_ hr1.evs
      simp [evSim]
    · simp only [List.map_cons, hr1.stack]
      rw [← hmq]; rfl
    · intro e he
      rcases List.mem_cons.mp he with h | h
      · subst h; exact hqG
      · exact hr1.stackGood e h
    · intro tk htk
      simp only at htk
      split at htk
      · cases htk
      · cases htk; exact ⟨ht0, ht1⟩
  · -- reduce
    obtain ⟨c1, c1', hs, hs', hr1, _, _, _, _⟩ := key (.reduce r) (.reduce r')
      (by rw [ho]; rfl) (by rw [ho']; rfl)
    rw [hs, hs', apply_reduce, apply_reduce]
    have hcls' := hcls
    unfold ruleClassEq at hcls'
    simp only [Bool.and_eq_true, beq_iff_eq] at hcls'
    obtain ⟨⟨⟨hsym, hln⟩, _⟩, hsome⟩ := hcls'
    show StepRel6 t acts rel set inp
      (match geti t.ruleLen r, geti t.ruleSymbol r with
        | some ln, some lhs => reduceWith inp c1 r ln.toNat lhs (fun p => gotoDefault t p lhs)
        | _, _ => .done .panic c1)
      (match geti t'.ruleLen r', geti t'.ruleSymbol r' with
        | some ln, some lhs => reduceWith inp c1' r' ln.toNat lhs (fun p => gotoDefault t' p lhs)
        | _, _ => .done .panic c1')
    rw [hlen, ← hrs, ← hln, ← hsym]
    cases hl : geti t.ruleLen r with
    | none => rw [hl] at hsome; cases hsome
    | some ln =>
      cases hlhs : geti t.ruleSymbol r with
      | none => exact .done _ _ _ hr1.toRelW
      | some lhs =>
        obtain ⟨hl1, hl2⟩ := hw.ruleSym r lhs hlhs
        exact reduce_rel hf hw hw' hin hr1 hcls ln.toNat (by omega) hl2
  · -- error
    obtain ⟨c1, c1', hs, hs', hr1, _, _, _, _⟩ := key .error .error ho ho'
    rw [hs, hs', apply, apply]
    exact .done _ _ _ hr1.toRelW

/-! ### whole runs -/

theorem errorAt_rel {t : Tables} {acts : Array Int} {inp : Input} {c c' : Cfg}
    (h : RelW t acts inp c c') :
    (errorAt inp c).1 = (errorAt inp c').1 ∧
    TraceSim t acts (errorAt inp c).2.evs (errorAt inp c').2.evs := by
  unfold errorAt
  simp only [core_tok h.core, fetch_evs]
  exact ⟨trivial, h.evs⟩

theorem runLoop_rel {t t' : Tables} {acts : Array Int} {rel : Array (Option Nat)} {i : Nat}
    {set : List Nat} {f f' : Int} {inp : Input} (hf : SimFacts t t' acts rel i set f f')
    (hw : WfFacts t) (hw' : WfFacts t') (hsr : sameRules t t' = true)
    (hin : inputOk t inp = true) : ∀ (fuel : Nat) (c c' : Cfg), Rel6 t acts rel set inp c c' →
      (runLoop D[t] inp f fuel c).1 = (runLoop D[t'] inp f' fuel c').1 ∧
      TraceSim t acts (runLoop D[t] inp f fuel c).2.evs (runLoop D[t'] inp f' fuel c').2.evs
  | 0, c, c', hr => by
    rw [runLoop, runLoop]
    exact ⟨rfl, hr.evs⟩
  | fuel + 1, c, c', hr => by
    rw [runLoop, runLoop]
    obtain ⟨p, hp, hpm, p', hpr⟩ := hr.stateGood
    have hp' : c'.state = (p' : Int) := by rw [hr.state, hp]; exact mapS_of hpr
    have hfin := hf.finEq p p' hpm hpr
    by_cases hcf : c.state = f
    · have : c'.state = f' := by rw [hp']; exact (hfin.mp (by rw [← hp, hcf])).symm
      rw [if_pos hcf, if_pos this]
      exact ⟨rfl, hr.evs⟩
    · have : ¬ c'.state = f' := by
        intro h
        apply hcf
        rw [hp]; exact (hfin.mpr (by rw [← hp', h])).symm
      rw [if_neg hcf, if_neg this]
      have hs := step_rel hf hw hw' hsr hin hr
      generalize step D[t] inp c = s1 at hs
      generalize step D[t'] inp c' = s2 at hs
      cases hs with
      | cont c2 c2' hr2 => exact runLoop_rel hf hw hw' hsr hin fuel c2 c2' hr2
      | done r c2 c2' hr2 =>
        cases r with
        | syntaxError o e => exact errorAt_rel hr2
        | accept => exact ⟨rfl, hr2.evs⟩
        | panic => exact ⟨rfl, hr2.evs⟩
        | fuel => exact ⟨rfl, hr2.evs⟩

theorem run_rel {t t' : Tables} {acts : Array Int} {n : Nat} {rel : Array (Option Nat)}
    {rs : List (List Nat)} (h : simCheck t t' acts n rel rs = true)
    (hwf : tablesWf t = true) (hwf' : tablesWf t' = true) (hsr : sameRules t t' = true)
    {inp : Input} (hin : inputOk t inp = true) {i : Nat} (hi : i < n) (fuel : Nat) :
    (run D[t] inp i fuel).1 = (run D[t'] inp i fuel).1 ∧
    TraceSim t acts (run D[t] inp i fuel).2.evs (run D[t'] inp i fuel).2.evs := by
  obtain ⟨f, f', hf⟩ := simFacts h hi
  have hw := wfFacts hwf
  have hw' := wfFacts hwf'
  unfold run
  show ((match t.finalStates[i]? with
      | none => (Result.panic, initCfg inp i)
      | some fin => runLoop D[t] inp fin fuel (initCfg inp i)).1 =
    (match t'.finalStates[i]? with
      | none => (Result.panic, initCfg inp i)
      | some fin => runLoop D[t'] inp fin fuel (initCfg inp i)).1) ∧
    TraceSim t acts (match t.finalStates[i]? with
      | none => (Result.panic, initCfg inp i)
      | some fin => runLoop D[t] inp fin fuel (initCfg inp i)).2.evs
    (match t'.finalStates[i]? with
      | none => (Result.panic, initCfg inp i)
      | some fin => runLoop D[t'] inp fin fuel (initCfg inp i)).2.evs
  rw [hf.fin, hf.fin']
  have hG : Good rel (rs.getD i []) (i : Int) := ⟨i, rfl, hf.entryMem, i, hf.entry⟩
  have hm : mapS rel (i : Int) = (i : Int) := mapS_of hf.entry
  refine runLoop_rel hf hw hw' hsr hin fuel _ _ ⟨⟨rfl, rfl⟩, ?_, ?_, ?_, hG, ⟨_, _, rfl, rfl⟩, ?_⟩
  · simp only [initCfg, List.map_cons, List.map_nil, mapE, hm]
  · intro e he
    simp only [initCfg, List.mem_singleton] at he
    subst he; exact hG
  · simp only [initCfg, hm]
  · intro tk htk
    simp only [initCfg, Option.some.injEq] at htk
    subst htk
    exact tok_in hin hw.nTermsPos 0

end TmVerif.LRCheck
