import TmVerif.Model.Diff
/-!
Helper lemmas for C27 (core Lean only).
Part 1: `Valid cs a b` — the chunks `cs` describe a way to turn `a` into `b`; every constructor of
the script in `lcsWith` preserves it, for an arbitrary split-point oracle.
-/
namespace TmVerif.Diff
set_option linter.unusedSectionVars false
variable {α : Type} [DecidableEq α]

/-- `cs` consumes exactly `a` and `b`, and every `eq` run is a run of equal elements. -/
def Valid : List Chunk → List α → List α → Prop
  | [], a, b => a = [] ∧ b = []
  | c :: cs, a, b =>
    c.del + c.eq ≤ a.length ∧ c.ins + c.eq ≤ b.length ∧
    (a.drop c.del).take c.eq = (b.drop c.ins).take c.eq ∧
    Valid cs (a.drop (c.del + c.eq)) (b.drop (c.ins + c.eq))

theorem valid_apply (cs : List Chunk) (a b : List α) (h : Valid cs a b) :
    applyEdits (toEdits cs b) a = some b ∧ editCost (toEdits cs b) = scriptCost cs := by
  induction cs generalizing a b with
  | nil =>
    obtain ⟨ha, hb⟩ := h
    subst ha; subst hb
    simp [toEdits, applyEdits, editCost, scriptCost]
  | cons c cs ih =>
    obtain ⟨h1, h2, h3, h4⟩ := h
    obtain ⟨ih1, ih2⟩ := ih _ _ h4
    have hd : c.del ≤ a.length := by omega
    have he : c.eq ≤ (a.drop c.del).length := by simp; omega
    have hi : c.ins ≤ b.length := by omega
    constructor
    · simp only [toEdits, applyEdits, hd, he, if_true, List.drop_drop]
      rw [ih1]
      simp only [Option.map_some, Option.some.injEq]
      rw [h3]
      have e : List.drop (c.ins + c.eq) b = List.drop c.eq (List.drop c.ins b) := by
        simp [List.drop_drop]
      rw [e, List.take_append_drop, List.take_append_drop]
    · simp only [toEdits, editCost, scriptCost, ih2, List.length_take]
      omega

theorem valid_single (d i e : Nat) (da ib k : List α) (hd : da.length = d) (hi : ib.length = i)
    (he : k.length = e) : Valid [⟨d, i, e⟩] (da ++ k) (ib ++ k) := by
  subst hd; subst hi; subst he
  simp [Valid]

theorem valid_append (t1 t2 : List Chunk) (a1 b1 a2 b2 : List α)
    (h1 : Valid t1 a1 b1) (h2 : Valid t2 a2 b2) : Valid (t1 ++ t2) (a1 ++ a2) (b1 ++ b2) := by
  induction t1 generalizing a1 b1 with
  | nil =>
    obtain ⟨ha, hb⟩ := h1
    subst ha; subst hb
    simpa using h2
  | cons c cs ih =>
    obtain ⟨p1, p2, p3, p4⟩ := h1
    have := ih _ _ p4
    refine ⟨by simp; omega, by simp; omega, ?_, ?_⟩
    · rw [List.drop_append_of_le_length (by omega), List.drop_append_of_le_length (by omega),
        List.take_append_of_le_length (by simp; omega), List.take_append_of_le_length (by simp; omega)]
      exact p3
    · rw [List.drop_append_of_le_length (by omega), List.drop_append_of_le_length (by omega)]
      exact this

/-- an empty chunk in front changes nothing -/
theorem valid_nil_chunk (cs : List Chunk) (a b : List α) (h : Valid cs a b) :
    Valid (⟨0, 0, 0⟩ :: cs) a b := by
  simp [Valid, h]

theorem valid_merge (c o m : Chunk) (cs : List Chunk) (a b : List α)
    (hm : c.merge o = some m) (h : Valid (c :: o :: cs) a b) : Valid (m :: cs) a b := by
  unfold Chunk.merge at hm
  split at hm
  case isFalse => cases hm
  case isTrue hc =>
    cases hm
    obtain ⟨p1, p2, p3, q1, q2, q3, q4⟩ := h
    simp only [List.length_drop, List.drop_drop] at q1 q2 q3 q4
    simp only [Valid]
    rcases hc with hc | ⟨hc1, hc2⟩
    · -- c.eq = 0
      simp only [hc, Nat.add_zero, Nat.zero_add] at *
      refine ⟨by omega, by omega, ?_, ?_⟩
      · simpa [Nat.add_comm] using q3
      · have e1 : c.del + o.del + o.eq = c.del + (o.del + o.eq) := by omega
        have e2 : c.ins + o.ins + o.eq = c.ins + (o.ins + o.eq) := by omega
        rw [e1, e2]; exact q4
    · -- o is a pure eq chunk
      simp only [hc1, hc2, Nat.add_zero, Nat.zero_add] at *
      refine ⟨by omega, by omega, ?_, ?_⟩
      · rw [List.take_add, List.take_add, p3, List.drop_drop, List.drop_drop]
        rw [q3]
      · have e1 : c.del + (c.eq + o.eq) = c.del + c.eq + o.eq := by omega
        have e2 : c.ins + (c.eq + o.eq) = c.ins + c.eq + o.eq := by omega
        rw [e1, e2]; exact q4

theorem valid_mergeInto (cur : Chunk) (cs : List Chunk) (a b : List α)
    (h : Valid (cur :: cs) a b) : Valid (mergeInto cur cs) a b := by
  induction cs generalizing cur a b with
  | nil => simpa [mergeInto] using h
  | cons c cs ih =>
    unfold mergeInto
    split
    case h_1 m hm => exact ih m a b (valid_merge cur c m cs a b hm h)
    case h_2 =>
      obtain ⟨p1, p2, p3, p4⟩ := h
      exact ⟨p1, p2, p3, ih c _ _ p4⟩

theorem valid_optimize (cs : List Chunk) (a b : List α) (h : Valid cs a b) :
    Valid (optimize cs) a b := by
  cases cs with
  | nil => simpa [optimize] using h
  | cons c cs => exact valid_mergeInto c cs a b h

/-! ### the element comparisons -/

theorem commonPrefix_spec (a b : List α) :
    commonPrefix a b ≤ a.length ∧ commonPrefix a b ≤ b.length ∧
    a.take (commonPrefix a b) = b.take (commonPrefix a b) := by
  fun_induction commonPrefix a b <;> simp_all

theorem snakeLen_spec (mx : Nat) (a b : List α) :
    snakeLen mx a b ≤ a.length ∧ snakeLen mx a b ≤ b.length ∧
    a.take (snakeLen mx a b) = b.take (snakeLen mx a b) := by
  fun_induction snakeLen mx a b <;> simp_all

theorem findFirst_some (x : α) (l : List α) (i : Nat) (h : findFirst x l = some i) :
    ∃ l1 l2, l = l1 ++ x :: l2 ∧ l1.length = i := by
  induction l generalizing i with
  | nil => simp [findFirst] at h
  | cons y ys ih =>
    unfold findFirst at h
    split at h
    case isTrue hy =>
      cases h; subst hy
      exact ⟨[], ys, rfl, rfl⟩
    case isFalse hy =>
      cases hf : findFirst x ys with
      | none => simp [hf] at h
      | some j =>
        simp [hf] at h
        obtain ⟨l1, l2, e, hl⟩ := ih j hf
        exact ⟨y :: l1, l2, by simp [e], by simp [hl, h]⟩

theorem findFirst_none (x : α) (l : List α) (h : findFirst x l = none) : x ∉ l := by
  induction l with
  | nil => simp
  | cons y ys ih =>
    unfold findFirst at h
    split at h
    · cases h
    · rename_i hy
      simp at h
      simp [ih h]
      exact fun e => hy e.symm

theorem valid_ins_all (b : List α) : Valid [⟨0, b.length, 0⟩] [] b := by
  simp [Valid]

theorem valid_del_all (a : List α) : Valid [⟨a.length, 0, 0⟩] a [] := by
  simp [Valid]

theorem valid_replace_all (a b : List α) : Valid [⟨a.length, b.length, 0⟩] a b := by
  simp [Valid]

/-- `snake` equal elements (possibly none) -/
theorem valid_snake (snake : Nat) (k : List α) (hk : k.length = snake) :
    Valid (if snake > 0 then [⟨0, 0, snake⟩] else []) k k := by
  split
  · have := valid_single 0 0 snake ([] : List α) [] k rfl rfl hk
    simpa using this
  · have : k = [] := by
      cases k with
      | nil => rfl
      | cons x xs => simp at hk; omega
    subst this
    simp [Valid]

theorem trace_valid (raw : List α → List α → Option (Nat × Nat × Nat)) (fuel : Nat)
    (a b : List α) (t : List Chunk) (h : traceWith raw fuel a b = some t) : Valid t a b := by
  induction fuel generalizing a b t with
  | zero => simp [traceWith] at h
  | succ fuel ih =>
    unfold traceWith at h
    split at h
    case h_1 => cases h; exact valid_ins_all _
    case h_2 => cases h; exact valid_del_all _
    case h_3 x _ =>
      split at h
      case h_1 i hf =>
        cases h
        obtain ⟨l1, l2, e, hl⟩ := findFirst_some _ _ _ hf
        subst e
        have v1 := valid_single 0 i 1 ([] : List α) l1 [x] rfl hl rfl
        have v2 := valid_ins_all l2
        have := valid_append _ _ _ _ _ _ v1 v2
        have e2 : (l1 ++ x :: l2).length - i - 1 = l2.length := by simp; omega
        rw [e2]
        simpa using this
      case h_2 hf =>
        cases h
        exact valid_replace_all [x] _
    case h_4 y _ _ =>
      split at h
      case h_1 i hf =>
        cases h
        obtain ⟨l1, l2, e, hl⟩ := findFirst_some _ _ _ hf
        subst e
        have v1 := valid_single i 0 1 l1 ([] : List α) [y] hl rfl rfl
        have v2 := valid_del_all l2
        have := valid_append _ _ _ _ _ _ v1 v2
        have e2 : (l1 ++ y :: l2).length - i - 1 = l2.length := by simp; omega
        rw [e2]
        simpa using this
      case h_2 hf =>
        cases h
        exact valid_replace_all _ [y]
    case h_5 =>
      split at h
      case h_1 => cases h
      case h_2 ai bi mx hr =>
        split at h
        case isTrue => cases h
        case isFalse hrange =>
          split at h
          case isTrue => cases h
          case isFalse hcorner =>
            simp only at h
            split at h
            case h_1 => cases h
            case h_2 l hl =>
              split at h
              case h_1 => cases h
              case h_2 r hrr =>
                cases h
                have ⟨s1, s2, s3⟩ := snakeLen_spec mx (a.drop ai) (b.drop bi)
                generalize snakeLen mx (a.drop ai) (b.drop bi) = snake at *
                have vl := ih _ _ _ hl
                have vr := ih _ _ _ hrr
                have vs := valid_snake snake ((a.drop ai).take snake) (by simp at s1 ⊢; omega)
                have v := valid_append _ _ _ _ _ _ (valid_append _ _ _ _ _ _ vl vs) vr
                have ea : a = a.take ai ++ (a.drop ai).take snake ++ a.drop (ai + snake) := by
                  rw [List.append_assoc, ← List.drop_drop, List.take_append_drop,
                    List.take_append_drop]
                have eb : b = b.take bi ++ (a.drop ai).take snake ++ b.drop (bi + snake) := by
                  rw [s3, List.append_assoc, ← List.drop_drop, List.take_append_drop,
                    List.take_append_drop]
                rw [← ea, ← eb] at v
                exact v

/-- `lcs` before merging -/
theorem lcsRaw_valid (raw : List α → List α → Option (Nat × Nat × Nat)) (a b : List α)
    (t : List Chunk) (h : lcsRawWith raw a b = some t) : Valid t a b := by
  unfold lcsRawWith at h
  simp only at h
  split at h
  case h_1 => cases h
  case h_2 tr htr =>
    cases h
    have ⟨p1, p2, p3⟩ := commonPrefix_spec a b
    generalize commonPrefix a b = p at *
    have ⟨s1, s2, s3⟩ := commonPrefix_spec (a.drop p).reverse (b.drop p).reverse
    unfold commonSuffix at htr ⊢
    generalize commonPrefix (a.drop p).reverse (b.drop p).reverse = s at *
    simp only [List.length_reverse] at s1 s2
    have vt := trace_valid _ _ _ _ _ htr
    have vp := valid_snake p (a.take p) (by simp; omega)
    -- the common suffix, as a suffix
    have hsuf : (a.drop p).drop ((a.drop p).length - s) = (b.drop p).drop ((b.drop p).length - s) := by
      have h1 := List.take_reverse (xs := a.drop p) (i := s)
      have h2 := List.take_reverse (xs := b.drop p) (i := s)
      rw [h1, h2] at s3
      exact List.reverse_inj.mp s3
    have vs := valid_snake s ((a.drop p).drop ((a.drop p).length - s)) (by
      simp only [List.length_drop] at s1 s2 ⊢; omega)
    have v := valid_append _ _ _ _ _ _ (valid_append _ _ _ _ _ _ vp vt) vs
    have ea : a = a.take p ++ (a.drop p).take ((a.drop p).length - s) ++
        (a.drop p).drop ((a.drop p).length - s) := by
      rw [List.append_assoc, List.take_append_drop, List.take_append_drop]
    have eb : b = a.take p ++ (b.drop p).take ((b.drop p).length - s) ++
        (a.drop p).drop ((a.drop p).length - s) := by
      rw [hsuf, p3, List.append_assoc, List.take_append_drop, List.take_append_drop]
    rw [← ea, ← eb] at v
    exact v

theorem lcs_valid (raw : List α → List α → Option (Nat × Nat × Nat)) (a b : List α)
    (t : List Chunk) (h : lcsWith raw a b = some t) : Valid t a b := by
  unfold lcsWith at h
  cases hr : lcsRawWith raw a b with
  | none => simp [hr] at h
  | some t0 =>
    simp [hr] at h
    subst h
    exact valid_optimize _ _ _ (lcsRaw_valid raw a b t0 hr)

/-! ### Part 2: the reference LCS length -/
open scoped List


theorem lcsRec_nil_right (a : List α) : lcsRec a [] = 0 := by
  cases a <;> simp [lcsRec]

theorem tail_sublist_of_cons {z x : α} {s a : List α} (h : z :: s <+ x :: a) : s <+ a := by
  rcases List.sublist_cons_iff.mp h with h | ⟨r, e, h⟩
  · exact (List.sublist_cons_self z s).trans h
  · cases e; exact h

/-- every common subsequence is at most `lcsRec` long -/
theorem lcsRec_upper (a b s : List α) (ha : s <+ a) (hb : s <+ b) : s.length ≤ lcsRec a b := by
  fun_induction lcsRec a b generalizing s with
  | case1 b => simp_all
  | case2 x a => simp_all
  | case3 a x b ih =>
    cases s with
    | nil => simp
    | cons z s =>
      have := ih s (tail_sublist_of_cons ha) (tail_sublist_of_cons hb)
      simp; omega
  | case4 x a y b hxy ih1 ih2 =>
    rcases List.sublist_cons_iff.mp ha with h | ⟨r, e, h⟩
    · have := ih1 s h hb
      omega
    · subst e
      rcases List.sublist_cons_iff.mp hb with h' | ⟨r', e', h'⟩
      · have := ih2 _ ha h'
        omega
      · cases e'; exact absurd rfl hxy

/-- `lcsRec` is the length of some common subsequence -/
theorem lcsRec_witness (a b : List α) : ∃ s, s <+ a ∧ s <+ b ∧ s.length = lcsRec a b := by
  fun_induction lcsRec a b with
  | case1 b => exact ⟨[], by simp⟩
  | case2 x a => exact ⟨[], by simp⟩
  | case3 a x b ih =>
    obtain ⟨s, h1, h2, h3⟩ := ih
    exact ⟨x :: s, List.cons_sublist_cons.mpr h1, List.cons_sublist_cons.mpr h2, by simp [h3]⟩
  | case4 x a y b hxy ih1 ih2 =>
    obtain ⟨s1, h1, h2, h3⟩ := ih1
    obtain ⟨s2, g1, g2, g3⟩ := ih2
    by_cases hle : lcsRec a (y :: b) ≤ lcsRec (x :: a) b
    · exact ⟨s2, g1, g2.cons y, by omega⟩
    · exact ⟨s1, h1.cons x, h2, by omega⟩

/-- the row of the table that belongs to `a`: `L(a, b.drop j)` for `j = 0..|b|` -/
def rowOf (a : List α) : List α → List Nat
  | [] => [lcsRec a []]
  | y :: ys => lcsRec a (y :: ys) :: rowOf a ys

theorem rowOf_headD (a b : List α) : (rowOf a b).headD 0 = lcsRec a b := by
  cases b <;> simp [rowOf]

theorem rowOf_nil (b : List α) : rowOf ([] : List α) b = List.replicate (b.length + 1) 0 := by
  induction b with
  | nil => simp [rowOf, lcsRec]
  | cons y ys ih => simp [rowOf, lcsRec, ih, List.replicate_succ]

theorem dpRow_rowOf (x : α) (a b : List α) : dpRow x b (rowOf a b) = rowOf (x :: a) b := by
  induction b with
  | nil => simp [dpRow, rowOf, lcsRec]
  | cons y ys ih =>
    simp only [dpRow, rowOf, List.tail_cons, ih, rowOf_headD, List.headD_cons]
    congr 1
    rw [lcsRec]

theorem dpTable_eq (a b : List α) : dpTable a b = rowOf a b := by
  induction a with
  | nil => simp [dpTable, rowOf_nil]
  | cons x a ih => simp [dpTable, ih, dpRow_rowOf]

theorem dpLcs_eq (a b : List α) : dpLcs a b = lcsRec a b := by
  rw [dpLcs, dpTable_eq, rowOf_headD]

/-! ### Part 3: no edit list is cheaper than `|a| + |b| - 2·LCS` -/

theorem applyEdits_common (es : List (Edit α)) (a b : List α) (h : applyEdits es a = some b) :
    ∃ s, s <+ a ∧ s <+ b ∧ a.length + b.length = editCost es + 2 * s.length := by
  induction es generalizing a b with
  | nil =>
    simp only [applyEdits] at h
    split at h
    · cases h; subst_vars; exact ⟨[], by simp [editCost]⟩
    · cases h
  | cons e es ih =>
    cases e with
    | del n =>
      simp only [applyEdits] at h
      split at h
      case isFalse => cases h
      case isTrue hn =>
        obtain ⟨s, h1, h2, h3⟩ := ih _ _ h
        refine ⟨s, h1.trans (List.drop_sublist n a), h2, ?_⟩
        simp only [List.length_drop] at h3
        simp only [editCost]; omega
    | ins l =>
      simp only [applyEdits] at h
      cases hr : applyEdits es a with
      | none => simp [hr] at h
      | some b' =>
        simp [hr] at h
        subst h
        obtain ⟨s, h1, h2, h3⟩ := ih _ _ hr
        refine ⟨s, h1, h2.trans (List.sublist_append_right l b'), ?_⟩
        simp only [editCost, List.length_append]; omega
    | keep n =>
      simp only [applyEdits] at h
      split at h
      case isFalse => cases h
      case isTrue hn =>
        cases hr : applyEdits es (a.drop n) with
        | none => simp [hr] at h
        | some b' =>
          simp [hr] at h
          subst h
          obtain ⟨s, h1, h2, h3⟩ := ih _ _ hr
          refine ⟨a.take n ++ s, ?_, ?_, ?_⟩
          · have := List.Sublist.append (List.Sublist.refl (a.take n)) h1
            rwa [List.take_append_drop] at this
          · exact List.Sublist.append (List.Sublist.refl _) h2
          · simp only [List.length_drop] at h3
            simp only [editCost, List.length_append, List.length_take]
            omega

theorem editCost_lower (es : List (Edit α)) (a b : List α) (h : applyEdits es a = some b) :
    a.length + b.length ≤ editCost es + 2 * lcsRec a b := by
  obtain ⟨s, h1, h2, h3⟩ := applyEdits_common es a b h
  have := lcsRec_upper a b s h1 h2
  omega

/-! ### Part 4: the script is minimal when every split point lies on an optimal path -/

def eqTotal : List Chunk → Nat
  | [] => 0
  | c :: cs => c.eq + eqTotal cs

theorem eqTotal_append (t1 t2 : List Chunk) : eqTotal (t1 ++ t2) = eqTotal t1 + eqTotal t2 := by
  induction t1 with
  | nil => simp [eqTotal]
  | cons c cs ih => simp [eqTotal, ih]; omega

theorem scriptCost_append (t1 t2 : List Chunk) :
    scriptCost (t1 ++ t2) = scriptCost t1 + scriptCost t2 := by
  induction t1 with
  | nil => simp [scriptCost]
  | cons c cs ih => simp [scriptCost, ih]; omega

theorem valid_lengths (cs : List Chunk) (a b : List α) (h : Valid cs a b) :
    a.length + b.length = scriptCost cs + 2 * eqTotal cs := by
  induction cs generalizing a b with
  | nil => obtain ⟨ha, hb⟩ := h; subst ha; subst hb; simp [scriptCost, eqTotal]
  | cons c cs ih =>
    obtain ⟨p1, p2, _, p4⟩ := h
    have := ih _ _ p4
    simp only [List.length_drop] at this
    simp only [scriptCost, eqTotal]; omega

theorem mergeInto_totals (cur : Chunk) (cs : List Chunk) :
    eqTotal (mergeInto cur cs) = eqTotal (cur :: cs) ∧
    scriptCost (mergeInto cur cs) = scriptCost (cur :: cs) := by
  induction cs generalizing cur with
  | nil => simp [mergeInto]
  | cons c cs ih =>
    unfold mergeInto
    split
    case h_1 m hm =>
      unfold Chunk.merge at hm
      split at hm
      · cases hm
        have := ih ⟨cur.del + c.del, cur.ins + c.ins, cur.eq + c.eq⟩
        simp only [eqTotal, scriptCost] at this ⊢
        omega
      · cases hm
    case h_2 =>
      have := ih c
      simp only [eqTotal, scriptCost] at this ⊢
      omega

theorem optimize_totals (cs : List Chunk) :
    eqTotal (optimize cs) = eqTotal cs ∧ scriptCost (optimize cs) = scriptCost cs := by
  cases cs with
  | nil => simp [optimize]
  | cons c cs => exact mergeInto_totals c cs

theorem lcsRec_le_left (a b : List α) : lcsRec a b ≤ a.length := by
  obtain ⟨s, h1, _, h3⟩ := lcsRec_witness a b
  have := h1.length_le
  omega

theorem lcsRec_le_right (a b : List α) : lcsRec a b ≤ b.length := by
  obtain ⟨s, _, h2, h3⟩ := lcsRec_witness a b
  have := h2.length_le
  omega

theorem lcsRec_single_mem (x : α) (b : List α) (h : x ∈ b) : lcsRec [x] b = 1 := by
  have h1 := lcsRec_le_left [x] b
  have h2 := lcsRec_upper [x] b [x] (List.Sublist.refl _) (List.singleton_sublist.mpr h)
  simp at h1 h2; omega

theorem lcsRec_single_not_mem (x : α) (b : List α) (h : x ∉ b) : lcsRec [x] b = 0 := by
  obtain ⟨s, h1, h2, h3⟩ := lcsRec_witness [x] b
  cases s with
  | nil => simpa using h3.symm
  | cons z s =>
    have : z = x := by
      have := h1.subset (List.mem_cons_self)
      simpa using this
    subst this
    exact absurd (h2.subset List.mem_cons_self) h

theorem lcsRec_comm (a b : List α) : lcsRec a b = lcsRec b a := by
  apply Nat.le_antisymm
  · obtain ⟨s, h1, h2, h3⟩ := lcsRec_witness a b
    have := lcsRec_upper b a s h2 h1; omega
  · obtain ⟨s, h1, h2, h3⟩ := lcsRec_witness b a
    have := lcsRec_upper a b s h2 h1; omega

theorem lcsRec_reverse_le (a b : List α) : lcsRec a.reverse b.reverse ≤ lcsRec a b := by
  obtain ⟨s, h1, h2, h3⟩ := lcsRec_witness a.reverse b.reverse
  have g1 : s.reverse <+ a := by
    have := List.reverse_sublist.mpr h1; simpa using this
  have g2 : s.reverse <+ b := by
    have := List.reverse_sublist.mpr h2; simpa using this
  have := lcsRec_upper a b s.reverse g1 g2
  simp at this; omega

theorem lcsRec_reverse (a b : List α) : lcsRec a.reverse b.reverse = lcsRec a b := by
  apply Nat.le_antisymm (lcsRec_reverse_le a b)
  have := lcsRec_reverse_le a.reverse b.reverse
  simpa using this

theorem lcsRec_prefix (k a b : List α) : lcsRec (k ++ a) (k ++ b) = k.length + lcsRec a b := by
  induction k with
  | nil => simp
  | cons x k ih =>
    simp only [List.cons_append, List.length_cons]
    rw [lcsRec]
    simp [ih]; omega

theorem lcsRec_suffix (k a b : List α) : lcsRec (a ++ k) (b ++ k) = lcsRec a b + k.length := by
  rw [← lcsRec_reverse (a ++ k) (b ++ k), List.reverse_append, List.reverse_append, lcsRec_prefix,
    lcsRec_reverse]
  simp; omega

/-- The assumption on the split-point oracle: the point it returns, followed by the snake that
`trace` re-checks, lies on an optimal path. Decidable per instance (`midVerdict` in the driver). -/
def OptimalSplit (raw : List α → List α → Option (Nat × Nat × Nat)) : Prop :=
  ∀ a b ai bi mx, raw a b = some (ai, bi, mx) → ai ≤ a.length → bi ≤ b.length →
    lcsRec (a.take ai) (b.take bi) + snakeLen mx (a.drop ai) (b.drop bi) +
      lcsRec (a.drop (ai + snakeLen mx (a.drop ai) (b.drop bi)))
        (b.drop (bi + snakeLen mx (a.drop ai) (b.drop bi))) = lcsRec a b

theorem trace_eqTotal (raw : List α → List α → Option (Nat × Nat × Nat)) (hraw : OptimalSplit raw)
    (fuel : Nat) (a b : List α) (t : List Chunk) (h : traceWith raw fuel a b = some t) :
    eqTotal t = lcsRec a b := by
  induction fuel generalizing a b t with
  | zero => simp [traceWith] at h
  | succ fuel ih =>
    unfold traceWith at h
    split at h
    case h_1 => cases h; simp [eqTotal, lcsRec]
    case h_2 => cases h; simp [eqTotal, lcsRec_nil_right]
    case h_3 x _ =>
      split at h
      case h_1 i hf =>
        cases h
        obtain ⟨l1, l2, e, hl⟩ := findFirst_some _ _ _ hf
        rw [lcsRec_single_mem x _ (by simp [e])]
        simp [eqTotal]
      case h_2 hf =>
        cases h
        rw [lcsRec_single_not_mem x _ (findFirst_none _ _ hf)]
        simp [eqTotal]
    case h_4 y _ _ =>
      split at h
      case h_1 i hf =>
        cases h
        obtain ⟨l1, l2, e, hl⟩ := findFirst_some _ _ _ hf
        rw [lcsRec_comm, lcsRec_single_mem y _ (by simp [e])]
        simp [eqTotal]
      case h_2 hf =>
        cases h
        rw [lcsRec_comm, lcsRec_single_not_mem y _ (findFirst_none _ _ hf)]
        simp [eqTotal]
    case h_5 =>
      split at h
      case h_1 => cases h
      case h_2 ai bi mx hr =>
        split at h
        case isTrue => cases h
        case isFalse hrange =>
          split at h
          case isTrue => cases h
          case isFalse hcorner =>
            simp only at h
            split at h
            case h_1 => cases h
            case h_2 l hl =>
              split at h
              case h_1 => cases h
              case h_2 r hrr =>
                cases h
                have hopt := hraw a b ai bi mx hr (by omega) (by omega)
                rw [eqTotal_append, eqTotal_append, ih _ _ _ hl, ih _ _ _ hrr, ← hopt]
                split <;> simp [eqTotal] <;> omega

theorem lcsRaw_eqTotal (raw : List α → List α → Option (Nat × Nat × Nat)) (hraw : OptimalSplit raw)
    (a b : List α) (t : List Chunk) (h : lcsRawWith raw a b = some t) :
    eqTotal t = lcsRec a b := by
  unfold lcsRawWith at h
  simp only at h
  split at h
  case h_1 => cases h
  case h_2 tr htr =>
    cases h
    have ⟨p1, p2, p3⟩ := commonPrefix_spec a b
    generalize commonPrefix a b = p at *
    have ⟨s1, s2, s3⟩ := commonPrefix_spec (a.drop p).reverse (b.drop p).reverse
    unfold commonSuffix at htr ⊢
    generalize commonPrefix (a.drop p).reverse (b.drop p).reverse = s at *
    simp only [List.length_reverse] at s1 s2
    have et := trace_eqTotal raw hraw _ _ _ _ htr
    have hsuf : (a.drop p).drop ((a.drop p).length - s) = (b.drop p).drop ((b.drop p).length - s) := by
      have h1 := List.take_reverse (xs := a.drop p) (i := s)
      have h2 := List.take_reverse (xs := b.drop p) (i := s)
      rw [h1, h2] at s3
      exact List.reverse_inj.mp s3
    have ea : a = a.take p ++ ((a.drop p).take ((a.drop p).length - s) ++
        (a.drop p).drop ((a.drop p).length - s)) := by
      rw [List.take_append_drop, List.take_append_drop]
    have eb : b = a.take p ++ ((b.drop p).take ((b.drop p).length - s) ++
        (a.drop p).drop ((a.drop p).length - s)) := by
      rw [hsuf, p3, List.take_append_drop, List.take_append_drop]
    have hl : ((a.drop p).drop ((a.drop p).length - s)).length = s := by
      simp only [List.length_drop] at s1 s2 ⊢; omega
    have key : lcsRec a b = p + (lcsRec ((a.drop p).take ((a.drop p).length - s))
        ((b.drop p).take ((b.drop p).length - s)) + s) := by
      conv => lhs; rw [ea, eb]
      rw [lcsRec_prefix, lcsRec_suffix, hl]
      simp; omega
    rw [eqTotal_append, eqTotal_append, et, key]
    split <;> split <;> simp [eqTotal] <;> omega

theorem lcs_minimal (raw : List α → List α → Option (Nat × Nat × Nat)) (hraw : OptimalSplit raw)
    (a b : List α) (t : List Chunk) (h : lcsWith raw a b = some t) :
    scriptCost t + 2 * lcsRec a b = a.length + b.length := by
  have hv := lcs_valid raw a b t h
  have hlen := valid_lengths t a b hv
  unfold lcsWith at h
  cases hr : lcsRawWith raw a b with
  | none => simp [hr] at h
  | some t0 =>
    simp [hr] at h
    subst h
    have := lcsRaw_eqTotal raw hraw a b t0 hr
    have ⟨o1, o2⟩ := optimize_totals t0
    omega

end TmVerif.Diff
