/-
Helper lemmas for C01, part 2: the stack invariant of the runtime model and its preservation by
`step`.
-/
import TmVerif.Proofs.LRSound
namespace TmVerif.LRSound
open TmVerif.LR TmVerif.CFG

/-! ### derivations of symbol strings -/

theorem derivesSeq_append {g : Grammar} : ∀ (α β : List Nat) (u v : List Nat),
    DerivesSeq g α u → DerivesSeq g β v → DerivesSeq g (α ++ β) (u ++ v)
  | [], β, u, v, h1, h2 => by
    cases h1; simpa using h2
  | X :: α, β, u, v, h1, h2 => by
    cases h1 with
    | cons _ _ u1 u2 hX hα =>
      have := derivesSeq_append α β u2 v hα h2
      simpa [List.append_assoc] using DerivesSeq.cons X (α ++ β) u1 (u2 ++ v) hX this

theorem derivesSeq_single {g : Grammar} {X : Nat} {y : List Nat} (h : Derives g X y) :
    DerivesSeq g [X] y := by
  simpa using DerivesSeq.cons X [] y [] h DerivesSeq.nil

/-! ### the stack -/

/-- `StackOk g t i stk s syms w`: `stk` (top first) was built from the entry state `i` along
edges of the automaton; `s` is the top state, `syms` the symbols (top first), `w` the
concatenated yields (bottom first), each symbol deriving its yield. -/
inductive StackOk (g : Grammar) (t : Tables) (i : Nat) :
    List Entry → Nat → List Int → List Nat → Prop
  | base (e : Entry) : e.state = (i : Int) → StackOk g t i [e] i [] []
  | push (e : Entry) (rest : List Entry) (p X q : Nat) (syms : List Int) (w y : List Nat) :
      StackOk g t i rest p syms w → e.sym = (X : Int) → e.state = (q : Int) →
      Edge t p X (q : Int) → Derives g X y →
      StackOk g t i (e :: rest) q ((X : Int) :: syms) (w ++ y)

theorem StackOk.top {g : Grammar} {t : Tables} {i : Nat} {stk : List Entry} {s : Nat}
    {syms : List Int} {w : List Nat} (h : StackOk g t i stk s syms w) :
    ∃ e rest, stk = e :: rest ∧ e.state = (s : Int) := by
  cases h with
  | base e he => exact ⟨e, [], rfl, he⟩
  | push e rest p X q syms w y _ _ hq _ _ => exact ⟨e, rest, rfl, hq⟩

theorem StackOk.length {g : Grammar} {t : Tables} {i : Nat} {stk : List Entry} {s : Nat}
    {syms : List Int} {w : List Nat} (h : StackOk g t i stk s syms w) :
    stk.length = syms.length + 1 := by
  induction h with
  | base e he => rfl
  | push e rest p X q syms w y _ _ _ _ _ ih => simp [ih]

theorem StackOk.lt {g : Grammar} {t : Tables} {cert : Cert} {i : Nat} (hc : CertFacts g t cert)
    (hi : i < g.inputs.size) {stk : List Entry} {s : Nat}
    {syms : List Int} {w : List Nat} (h : StackOk g t i stk s syms w) : s < t.nStates := by
  cases h with
  | base e he => have := hc.nIn; omega
  | push e rest p X q syms w y _ _ _ hE _ =>
    obtain ⟨q', h1, _, h3, _⟩ := edgeOk_elim (edge_ok hc hE)
    omega

theorem StackOk.past {g : Grammar} {t : Tables} {cert : Cert} {i : Nat} (hc : CertFacts g t cert)
    (hi : i < g.inputs.size) {stk : List Entry} {s : Nat}
    {syms : List Int} {w : List Nat} (h : StackOk g t i stk s syms w) :
    pastOf cert (s : Nat) <+: syms := by
  induction h with
  | base e he => rw [hc.pastEntry i hi]; exact List.nil_prefix
  | push e rest p X q syms w y _ _ _ hE _ ih =>
    obtain ⟨q', h1, _, _, h4⟩ := edgeOk_elim (edge_ok hc hE)
    have : q' = q := by omega
    subst this
    exact h4.trans ((List.prefix_cons_inj _).mpr ih)

/-- popping the entries of a right-hand side -/
theorem StackOk.pop {g : Grammar} {t : Tables} {i : Nat} : ∀ (β : List Nat) (stk : List Entry)
    (s : Nat) (syms syms' : List Int) (w : List Nat),
    StackOk g t i stk s syms w → syms = β.map Int.ofNat ++ syms' →
    ∃ s' w' v, StackOk g t i (stk.drop β.length) s' syms' w' ∧ DerivesSeq g β.reverse v ∧
      w = w' ++ v
  | [], stk, s, syms, syms', w, h, e => by
    simp only [List.map_nil, List.nil_append] at e
    subst e
    exact ⟨s, w, [], by simpa using h, by simpa using DerivesSeq.nil, by simp⟩
  | X :: β, stk, s, syms, syms', w, h, e => by
    cases h with
    | base e0 he => simp at e
    | push e0 rest p X' q syms0 w0 y h0 hX hq hE hD =>
      simp only [List.map_cons, List.cons_append, List.cons.injEq] at e
      obtain ⟨e1, e2⟩ := e
      have : X' = X := by
        have : (X' : Int) = (X : Int) := e1
        omega
      subst this
      obtain ⟨s', w', v, h1, h2, h3⟩ := StackOk.pop β rest p syms0 syms' w0 h0 e2
      refine ⟨s', w', v ++ y, by simpa using h1, ?_, by rw [h3, List.append_assoc]⟩
      rw [List.reverse_cons]
      exact derivesSeq_append _ _ _ _ h2 (derivesSeq_single hD)

/-! ### tokens -/

/-- the hypothesis on the token stream: symbols of real tokens are terminals other than EOI -/
def TokOk (t : Tables) (inp : Input) : Prop :=
  ∀ tk ∈ inp.toks.toList, 0 < tk.sym ∧ tk.sym < (t.nTerms : Int)

theorem tok_range {t : Tables} {inp : Input} (h : TokOk t inp) (h0 : 0 < t.nTerms) (j : Nat) :
    ∃ a : Nat, (inp.tok j).sym = (a : Int) ∧ a < t.nTerms := by
  unfold Input.tok
  cases hj : inp.toks[j]? with
  | none => exact ⟨0, rfl, h0⟩
  | some tk =>
    have hm : tk ∈ inp.toks.toList := by
      rw [Array.mem_toList_iff]; exact Array.mem_of_getElem? hj
    have := h tk hm
    exact ⟨tk.sym.toNat, by simp only; omega, by omega⟩

theorem tok_zero_next {t : Tables} {inp : Input} (h : TokOk t inp) (j : Nat)
    (hz : (inp.tok j).sym = 0) : inp.tok (j + 1) = inp.tok j := by
  unfold Input.tok at hz ⊢
  cases hj : inp.toks[j]? with
  | some tk =>
    have hm : tk ∈ inp.toks.toList := by
      rw [Array.mem_toList_iff]; exact Array.mem_of_getElem? hj
    have := h tk hm
    rw [hj] at hz
    simp only at hz
    omega
  | none =>
    have : inp.toks.size ≤ j := by
      rcases Nat.lt_or_ge j inp.toks.size with h' | h'
      · rw [Array.getElem?_eq_getElem h'] at hj; cases hj
      · exact h'
    rw [Array.getElem?_eq_none (by omega)]

/-! ### the invariant on configurations -/

def nshift : List Ev → Nat
  | [] => 0
  | .shift _ _ _ :: r => nshift r + 1
  | .reduce _ _ _ :: r => nshift r

/-- symbol of the `j`-th token of the stream (EOI = 0 for ever after the text) -/
def symAt (inp : Input) (j : Nat) : Nat := (inp.tok j).sym.toNat

/-- the first `m` symbols of the token stream -/
def consumed (inp : Input) (m : Nat) : List Nat := (List.range m).map (symAt inp)

theorem consumed_succ (inp : Input) (m : Nat) :
    consumed inp (m + 1) = consumed inp m ++ [symAt inp m] := by
  simp [consumed, List.range_succ]

/-- `next`/`pos` bookkeeping after `m` shifts -/
def NextOk (inp : Input) (c : Cfg) (m : Nat) : Prop :=
  match c.next with
  | some tk => tk = inp.tok m ∧ (tk.sym ≠ 0 → c.pos = m + 1)
  | none => c.pos = m

def Inv (g : Grammar) (t : Tables) (i : Nat) (inp : Input) (c : Cfg) : Prop :=
  ∃ s syms, StackOk g t i c.stack s syms (consumed inp (nshift c.evs)) ∧ c.state = (s : Int) ∧
    NextOk inp c (nshift c.evs)

theorem inv_init (g : Grammar) (t : Tables) (i : Nat) (inp : Input) :
    Inv g t i inp (initCfg inp i) :=
  ⟨i, [], StackOk.base _ rfl, rfl, by simp [NextOk, initCfg, nshift]⟩

theorem fetch_some {inp : Input} {c : Cfg} {tk : Tok} (h : c.next = some tk) :
    c.fetch inp = (c, tk) := by
  unfold Cfg.fetch; rw [h]

theorem fetch_none {inp : Input} {c : Cfg} (h : c.next = none) :
    c.fetch inp = ({ c with next := some (inp.tok c.pos), pos := c.pos + 1 }, inp.tok c.pos) := by
  unfold Cfg.fetch; rw [h]

theorem fetch_spec (inp : Input) (c : Cfg) (m : Nat) (h : NextOk inp c m) :
    (c.fetch inp).2 = inp.tok m ∧ (c.fetch inp).1.next = some (inp.tok m) ∧
    (c.fetch inp).1.stack = c.stack ∧ (c.fetch inp).1.state = c.state ∧
    (c.fetch inp).1.evs = c.evs ∧ NextOk inp (c.fetch inp).1 m := by
  cases hn : c.next with
  | some tk =>
    rw [fetch_some hn]
    have h' := h
    unfold NextOk at h'
    rw [hn] at h'
    exact ⟨h'.1, by rw [hn, h'.1], rfl, rfl, rfl, h⟩
  | none =>
    rw [fetch_none hn]
    unfold NextOk at h
    rw [hn] at h
    subst h
    refine ⟨rfl, rfl, rfl, rfl, rfl, ?_⟩
    simp [NextOk]

/-- `decode` on a certified table: the configuration only changes by a fetch, and the action is
the one the certificate has checked. -/
theorem decode_spec {g : Grammar} {t : Tables} {cert : Cert} {inp : Input}
    (hc : CertFacts g t cert) (htok : TokOk t inp) (h0 : 0 < t.nTerms)
    (c c1 : Cfg) (act : Act) (s m : Nat) (hs : s < t.nStates) (hst : c.state = (s : Int))
    (hn : NextOk inp c m) (hd : decode t inp c = some (c1, act)) :
    c1.stack = c.stack ∧ c1.state = c.state ∧ c1.evs = c.evs ∧ NextOk inp c1 m ∧
    ((∃ a : Nat, c1.next = some (inp.tok m) ∧ (inp.tok m).sym = (a : Int) ∧ a < t.nTerms ∧
        needsTok t s = some true ∧ actOf t noDeep s a = some act ∧
        actOk g t cert s (some a, some act) = true) ∨
     (actOk g t cert s (none, some act) = true)) := by
  unfold decode at hd
  rw [hst] at hd
  cases hnt : needsTok t (s : Int) with
  | none => rw [hnt] at hd; cases hd
  | some b =>
    rw [hnt] at hd
    cases b with
    | true =>
      simp only [Option.map_eq_some_iff] at hd
      obtain ⟨a', ha', he⟩ := hd
      obtain ⟨f1, f2, f3, f4, f5, f6⟩ := fetch_spec inp c m hn
      obtain ⟨a, ha1, ha2⟩ := tok_range htok h0 m
      injection he with e1 e2
      subst e1 e2
      refine ⟨f3, f4, f5, f6, Or.inl ⟨a, f2, ha1, ha2, rfl, ?_⟩⟩
      rw [f1, ha1] at ha'
      have hmem : (some a, actOf t noDeep s a) ∈ stateActs t s := by
        unfold stateActs
        rw [hnt]
        simp only [List.mem_map, List.mem_range]
        exact ⟨a, ha2, rfl⟩
      have hok := hc.acts s hs _ hmem
      cases hx : actOf t noDeep s a with
      | none => rw [hx] at hok; simp [actOk] at hok
      | some x =>
        rw [actOf_noDeep t _ s a x hx] at ha'
        injection ha' with ha'
        subst ha'
        rw [hx] at hok
        exact ⟨rfl, hok⟩
    | false =>
      simp only [Option.map_eq_some_iff] at hd
      obtain ⟨a', ha', he⟩ := hd
      injection he with e1 e2
      subst e1 e2
      refine ⟨rfl, rfl, rfl, hn, Or.inr ?_⟩
      have hmem : (none, actOf t noDeep s 0) ∈ stateActs t s := by
        unfold stateActs
        rw [hnt]
        simp
      have hok := hc.acts s hs _ hmem
      have e : actOf t noDeep s 0 = some a' := ha'
      rw [e] at hok
      exact hok

end TmVerif.LRSound
