/-
Helper lemmas for C19 panic-freedom, part 2: `reduceAll` (the simulated reductions of recovery)
neither reads out of range nor runs out of its fuel on certified state stacks.
-/
import TmVerif.Proofs.LRXSafe
namespace TmVerif.LRX
open TmVerif.LR TmVerif.CFG TmVerif.LRSound
variable {g : Grammar} {x : XTables} {cert : Cert} {xc : XCert} {i : Nat}

/-- `reduceAll`'s simulation on the combined stack of states (top first); `reduceAllLoop` computes
this for every way of splitting the stack into the copied part and the part pushed since -/
def simC (x : XTables) (a : Nat) (fin : Int) : Nat → List Nat → Option Bool
  | 0, _ => none
  | _ + 1, [] => none
  | n + 1, s :: rest =>
    if (s : Int) = fin then some (decide ((a : Int) = 0))
    else
      match actOf x.t noDeep s a with
      | some (.reduce r) =>
        match geti x.t.ruleLen r, geti x.t.ruleSymbol r with
        | some ln, some lhs =>
          match (s :: rest).drop ln.toNat with
          | [] => none
          | p' :: rest' =>
            match gotoState x.t p' lhs with
            | some q => if 0 ≤ q then simC x a fin n (q.toNat :: p' :: rest') else none
            | none => none
        | _, _ => none
      | some (.shift _) => some true
      | some .error => some false
      | none => none

/-- the potential of a chain of reductions under the lookahead `a` -/
def phi (xc : XCert) (i a : Nat) (sts : List Nat) : Nat :=
  xc.weight * sts.length + rankOf xc i a (sts.headD 0)

theorem reduceAll_progress (hc : CertFacts g x.t cert) (hx : XFacts g x cert xc)
    {a : Nat} (ha : a < x.t.nTerms) (fin : Int) (hfi : fin = finOf x i) {s : Nat} {rest : List Nat}
    {syms : List Int} {ss s2 : List Int} (h : StOk g x cert i (s :: rest) syms)
    (hcomb : s2 ++ ss = (s :: rest).map Int.ofNat) (hs2 : s2 ≠ []) :
    (∃ b, (∀ fuel, reduceAllLoop x a fin (fuel + 1) ss s2 s = some b) ∧
      (∀ fuel, simC x a fin (fuel + 1) (s :: rest) = some b) ∧
      (b = true → (s : Int) = fin ∨ ∃ q, actOf x.t noDeep s a = some (.shift q))) ∨
    (∃ (q p' : Nat) (rest' : List Nat) (syms' : List Int) (ss' s2' : List Int) (r : Int),
      StOk g x cert i (q :: p' :: rest') syms' ∧
      s2' ++ ss' = (q :: p' :: rest').map Int.ofNat ∧ s2' ≠ [] ∧
      phi xc i a (q :: p' :: rest') < phi xc i a (s :: rest) ∧
      (s : Int) ≠ fin ∧ actOf x.t noDeep s a = some (.reduce r) ∧
      (∀ fuel, reduceAllLoop x a fin (fuel + 1) ss s2 s = reduceAllLoop x a fin fuel ss' s2' q) ∧
      (∀ fuel, simC x a fin (fuel + 1) (s :: rest) = simC x a fin fuel (q :: p' :: rest'))) := by
  have hs : s < x.t.nStates := h.lt hc s (by simp)
  by_cases hfin : (s : Int) = fin
  · left
    exact ⟨decide ((a : Int) = 0), fun fuel => by rw [reduceAllLoop]; simp only [hfin, if_true],
      fun fuel => by rw [simC]; simp only [hfin, if_true], fun _ => Or.inl hfin⟩
  obtain ⟨act, hact, hnt⟩ := actOk_of_act hc hs ha
  have hact' : actOf x.t (fun _ => none) (s : Int) (a : Int) = some act := hact
  obtain ⟨b, hb⟩ : ∃ b, needsTok x.t (s : Int) = some b := by
    rcases hnt with ⟨h1, _⟩ | ⟨h1, _⟩ <;> exact ⟨_, h1⟩
  cases act with
  | error =>
    left
    exact ⟨false, fun fuel => by rw [reduceAllLoop]; simp only [hfin, if_false, hb, hact'],
      fun fuel => by rw [simC]; simp only [hfin, if_false, hact], fun h => nomatch h⟩
  | shift q =>
    left
    exact ⟨true, fun fuel => by rw [reduceAllLoop]; simp only [hfin, if_false, hb, hact'],
      fun fuel => by rw [simC]; simp only [hfin, if_false, hact], fun _ => Or.inr ⟨q, hact⟩⟩
  | reduce r =>
    right
    obtain ⟨rule, p', rest', q, hr0, hrule, hlen, hsym, hdrop, hg, hnew, hrank⟩ :=
      h.reduce hc hx.rk (hx.closed hc) ha (by rw [← hfi]; exact hfin) hact
    have hcd : (s2 ++ ss).drop rule.rhs.length = ((p' : Int)) :: rest'.map Int.ofNat := by
      rw [hcomb, ← List.map_drop, hdrop]; rfl
    have hlen1 : rule.rhs.length < (s :: rest).length := by
      have := congrArg List.length hdrop
      simp only [List.length_drop, List.length_cons] at this ⊢
      omega
    have hphi : phi xc i a (q :: p' :: rest') < phi xc i a (s :: rest) := by
      have h1 := congrArg List.length hdrop
      simp only [List.length_drop, List.length_cons] at h1
      have h2 : (q :: p' :: rest').length + rule.rhs.length = (s :: rest).length + 1 := by
        simp only [List.length_cons]; omega
      have h3 : xc.weight * (q :: p' :: rest').length + xc.weight * rule.rhs.length =
          xc.weight * (s :: rest).length + xc.weight := by
        rw [← Nat.mul_add, h2, Nat.mul_add, Nat.mul_one]
      unfold phi
      simp only [List.headD_cons]
      omega
    have hsim : ∀ fuel, simC x a fin (fuel + 1) (s :: rest) = simC x a fin fuel (q :: p' :: rest') := by
      intro fuel
      rw [simC]
      have hg' : gotoState x.t (p' : Nat) (rule.lhs : Nat) = some (q : Int) := hg
      have hq0 : (0 : Int) ≤ (q : Int) := by omega
      simp only [hfin, if_false, hact, hlen, hsym, Int.toNat_natCast, hdrop, hg', hq0, if_true]
    have hhead : s2.head? = some (s : Int) := by
      cases s2 with
      | nil => exact absurd rfl hs2
      | cons z zs =>
        simp only [List.cons_append, List.map_cons, List.cons.injEq] at hcomb
        rw [List.head?_cons, hcomb.1]; rfl
    by_cases h0 : rule.rhs.length = 0
    · -- epsilon rule: the goto is taken from the current state
      have hp : p' = s := by
        rw [h0] at hdrop
        simp only [List.drop_zero, List.cons.injEq] at hdrop
        exact hdrop.1.symm
      subst hp
      refine ⟨q, p', rest', _, ss, (q : Int) :: s2, r, hnew, ?_, by simp, hphi, hfin, hact, ?_, hsim⟩
      · rw [List.cons_append, hcomb]
        rw [h0] at hdrop
        simp only [List.drop_zero, List.cons.injEq] at hdrop
        rw [← hdrop.2]; rfl
      · intro fuel
        rw [reduceAllLoop]
        simp only [hfin, if_false, hb, hact', hlen, hsym, Int.toNat_natCast, h0, if_true, hg]
    · by_cases h1 : rule.rhs.length < s2.length
      · have hd : s2.drop rule.rhs.length ++ ss = (p' : Int) :: rest'.map Int.ofNat := by
          rw [← hcd, List.drop_append_of_le_length (Nat.le_of_lt h1)]
        have hne : s2.drop rule.rhs.length ≠ [] := by
          intro e
          have := congrArg List.length e
          simp only [List.length_drop, List.length_nil] at this
          omega
        have hh : (s2.drop rule.rhs.length).head? = some (p' : Int) := by
          cases hz : s2.drop rule.rhs.length with
          | nil => exact absurd hz hne
          | cons z zs =>
            rw [hz] at hd
            simp only [List.cons_append, List.cons.injEq] at hd
            rw [List.head?_cons, hd.1]
        refine ⟨q, p', rest', _, ss, (q : Int) :: s2.drop rule.rhs.length, r, hnew, ?_, by simp, hphi, hfin, hact, ?_, hsim⟩
        · rw [List.cons_append, hd]; rfl
        · intro fuel
          rw [reduceAllLoop]
          simp only [hfin, if_false, hb, hact', hlen, hsym, Int.toNat_natCast, h0, h1, if_true, hh, hg]
      · have hd : ss.drop (rule.rhs.length - s2.length) = (p' : Int) :: rest'.map Int.ofNat := by
          have e : (s2 ++ ss).drop rule.rhs.length = ss.drop (rule.rhs.length - s2.length) := by
            rw [List.drop_append, List.drop_eq_nil_of_le (as := s2) (by omega), List.nil_append]
          rw [← e]; exact hcd
        have hh : (ss.drop (rule.rhs.length - s2.length)).head? = some (p' : Int) := by
          rw [hd]; rfl
        refine ⟨q, p', rest', _, ss.drop (rule.rhs.length - s2.length), [(q : Int)], r, hnew, ?_,
          by simp, hphi, hfin, hact, ?_, hsim⟩
        · rw [hd]; rfl
        · intro fuel
          rw [reduceAllLoop]
          simp only [hfin, if_false, hb, hact', hlen, hsym, Int.toNat_natCast, h0, h1, hh, hg]

/-- with more fuel than the potential the simulated reductions return, the result does not
depend on the surplus, and it is the result of the simulation on the combined stack -/
theorem reduceAllLoop_total (hc : CertFacts g x.t cert) (hx : XFacts g x cert xc)
    {a : Nat} (ha : a < x.t.nTerms) (fin : Int) (hfi : fin = finOf x i) :
    ∀ (n : Nat) {s : Nat} {rest : List Nat} {syms : List Int} {ss s2 : List Int},
      StOk g x cert i (s :: rest) syms → s2 ++ ss = (s :: rest).map Int.ofNat → s2 ≠ [] →
      phi xc i a (s :: rest) < n →
      ∃ b, (∀ extra, reduceAllLoop x a fin (n + extra) ss s2 s = some b) ∧
        (∀ extra, simC x a fin (n + extra) (s :: rest) = some b)
  | 0, _, _, _, _, _, _, _, _, hn => by omega
  | n + 1, s, rest, syms, ss, s2, h, hcomb, hs2, hn => by
    rcases reduceAll_progress hc hx ha fin hfi h hcomb hs2 with ⟨b, hb, hb', _⟩ |
      ⟨q, p', rest', syms', ss', s2', r, h', hc', hs2', hphi, _, _, hstep, hstep'⟩
    · exact ⟨b, fun extra => by rw [show n + 1 + extra = (n + extra) + 1 by omega]; exact hb _,
        fun extra => by rw [show n + 1 + extra = (n + extra) + 1 by omega]; exact hb' _⟩
    · obtain ⟨b, hb, hb'⟩ := reduceAllLoop_total hc hx ha fin hfi n h' hc' hs2' (by omega)
      exact ⟨b, fun extra => by
          rw [show n + 1 + extra = (n + extra) + 1 by omega, hstep]; exact hb extra,
        fun extra => by
          rw [show n + 1 + extra = (n + extra) + 1 by omega, hstep']; exact hb' extra⟩

/-- `reduceAll` on a certified stack: defined, its fuel is sufficient, and the result is the one
of the simulation on the combined stack -/
theorem reduceAll_total (hc : CertFacts g x.t cert) (hx : XFacts g x cert xc)
    {a : Nat} (ha : a < x.t.nTerms) (fin : Int) (hfi : fin = finOf x i) {s : Nat} {rest : List Nat}
    {syms : List Int} (h : StOk g x cert i (s :: rest) syms) :
    ∃ b, reduceAll x (rest.map Int.ofNat) s a fin = some b ∧
      (∀ extra, reduceAllLoop x a fin
        (4 * ((rest.map Int.ofNat).length + x.t.nStates + 4) + extra) (rest.map Int.ofNat) [(s : Int)] s
        = some b) ∧
      (∀ extra, simC x a fin (4 * ((rest.map Int.ofNat).length + x.t.nStates + 4) + extra)
        (s :: rest) = some b) := by
  have hs : s < x.t.nStates := h.lt hc s (by simp)
  have hr := hx.rk.rankB i a s h.input_lt ha hs
  unfold rankBound at hr
  have hw := hx.weightLe
  have hphi : phi xc i a (s :: rest) < 4 * ((rest.map Int.ofNat).length + x.t.nStates + 4) := by
    unfold phi
    simp only [List.length_cons, List.length_map, List.headD_cons]
    have : xc.weight * (rest.length + 1) ≤ 4 * (rest.length + 1) := Nat.mul_le_mul_right _ hw
    omega
  obtain ⟨b, hb, hb'⟩ := reduceAllLoop_total hc hx ha fin hfi
    (4 * ((rest.map Int.ofNat).length + x.t.nStates + 4)) h
    (ss := rest.map Int.ofNat) (s2 := [(s : Int)]) rfl (by simp) hphi
  refine ⟨b, ?_, hb, hb'⟩
  unfold reduceAll
  have : ¬ ((s : Int) < 0) := by omega
  simp only [this, if_false]
  exact hb 0

end TmVerif.LRX
