/-
Helper lemmas for the run-level theorems of C05/C06, part 2: the per-cell observations
`obsDefault`/`obsOpt` of the validators are the actions `actOf` of the runtime model; unpacking of
the side conditions `tablesWf`, `noBlindShift`, `inputOk`.
-/
import TmVerif.Proofs.LRCheck
namespace TmVerif.LRCheck
open TmVerif.LR

/-- the action the runtime takes on an observed cell (`none` = undecodable) -/
def Obs.toAct : Obs → Option Act
  | .shift q => some (.shift q)
  | .reduce r => some (.reduce r)
  | .errExplicit => some .error
  | .err => some .error
  | .bad => none

/-! ### the two encodings live in the same record -/

theorem gotoDefault_with (t : Tables) (b : Bool) (s x : Int) :
    gotoDefault { t with optimized := b } s x = gotoDefault t s x := rfl

theorem gotoOpt_with (t : Tables) (b : Bool) (s x : Int) :
    gotoOpt { t with optimized := b } s x = gotoOpt t s x := rfl

theorem lalrLookup_with (t : Tables) (b : Bool) (v a : Int) :
    lalrLookup { t with optimized := b } v a = lalrScan t.lalr a (t.lalr.size + 1) (-v - 3) := rfl

theorem optLookup_with (t : Tables) (b : Bool) (s v a : Int) :
    optLookup { t with optimized := b } s v a = optLookup t s v a := rfl

theorem gotoState_false (t : Tables) (s x : Int) :
    gotoState { t with optimized := false } s x = gotoDefault t s x := rfl

theorem gotoState_true (t : Tables) (s x : Int) :
    gotoState { t with optimized := true } s x = gotoOpt t s x := rfl

/-! ### lookahead lists -/

theorem lalrScan_of_entry (l : Array Int) (a : Int) :
    ∀ (fuel : Nat) (i : Int), lalrEndOk l fuel i = true →
      (lalrEntry l a fuel i = some none → lalrScan l a fuel i = some (-2)) ∧
      (∀ act, lalrEntry l a fuel i = some (some act) → lalrScan l a fuel i = some act)
  | 0, i, h => by simp [lalrEndOk] at h
  | fuel + 1, i, h => by
    rw [lalrEndOk] at h
    rw [lalrEntry, lalrScan]
    cases hg : geti l i with
    | none => simp [hg] at h
    | some term =>
      simp only [hg] at h ⊢
      cases hg1 : geti l (i + 1) with
      | none => exact ⟨fun h' => (by simp at h'), fun _ h' => (by simp at h')⟩
      | some act0 =>
        simp only
        by_cases ht : term < 0
        · rw [if_pos ht, hg1] at h
          have h2 : act0 = -2 := by simpa using h
          have h1 : ¬ (term ≥ 0 ∧ term ≠ a) := by omega
          rw [if_pos ht, if_neg h1, h2]
          exact ⟨fun _ => rfl, fun _ h' => (by cases h')⟩
        · rw [if_neg ht] at h
          by_cases hta : term = a
          · have h1 : ¬ (term ≥ 0 ∧ term ≠ a) := fun h' => h'.2 hta
            rw [if_neg ht, if_pos hta, if_neg h1]
            refine ⟨fun h' => (by cases h'), fun act h' => ?_⟩
            simp only [Option.some.injEq] at h'
            rw [h']
          · have h1 : term ≥ 0 ∧ term ≠ a := ⟨by omega, hta⟩
            rw [if_neg ht, if_neg hta, if_pos h1]
            exact lalrScan_of_entry l a fuel (i + 2) h

/-! ### default encoding -/

/-- the condition of `tablesWf` on the lookahead list of state `s` -/
def LalrOkAt (t : Tables) (s : Nat) : Prop :=
  ∀ v, geti t.action s = some v → v < -2 → lalrEndOk t.lalr (t.lalr.size + 1) (-v - 3) = true

theorem actOf_default_obs (t : Tables) (s a : Nat) (deep : Int → Option Int)
    (hl : LalrOkAt t s) (hb : obsDefault t s a ≠ .bad) :
    actOf { t with optimized := false } deep s a = (obsDefault t s a).toAct := by
  unfold actOf obsDefault at *
  simp only [Bool.false_eq_true, if_false]
  cases hg : geti t.action s with
  | none => simp [hg] at hb
  | some v =>
    simp only [hg] at hb ⊢
    by_cases h0 : v ≥ 0
    · have : ¬ v < -2 := by omega
      simp [h0, this, Obs.toAct]
    · by_cases h1 : v = -1
      · subst h1
        simp only [gotoDefault_with]
        cases hgt : gotoDefault t s a with
        | none => simp [hgt] at hb
        | some q =>
          by_cases hq : q ≥ 0 <;> simp [hq, Obs.toAct]
      · by_cases h2 : v = -2
        · subst h2; simp [Obs.toAct]
        · have hlt : v < -2 := by omega
          have hend := hl v hg hlt
          have hscan := lalrScan_of_entry t.lalr a _ _ hend
          simp only [h0, if_false, h1, h2, hlt, if_true, lalrLookup_with] at hb ⊢
          cases he : lalrEntry t.lalr a (t.lalr.size + 1) (-v - 3) with
          | none => simp [he] at hb
          | some o =>
            cases o with
            | none =>
              rw [hscan.1 he]
              simp [Obs.toAct]
            | some act =>
              rw [hscan.2 act he]
              simp only [he] at hb ⊢
              by_cases ha0 : act ≥ 0
              · have : ¬ act < -2 := by omega
                simp [ha0, this, Obs.toAct]
              · by_cases ha1 : act = -1
                · subst ha1
                  simp only [gotoDefault_with]
                  cases hgt : gotoDefault t s a with
                  | none => simp [hgt] at hb
                  | some q =>
                    by_cases hq : q ≥ 0
                    · simp [hq, Obs.toAct]
                    · simp [hgt, hq] at hb
                · by_cases ha2 : act = -2
                  · subst ha2; simp [Obs.toAct]
                  · simp [ha0, ha1, ha2] at hb

/-- a shift of the default encoding goes to the `gotoState` target on the token, and the state
consults the token -/
theorem actOf_default_shift {t : Tables} {s a q : Int} {deep : Int → Option Int}
    (h : actOf { t with optimized := false } deep s a = some (.shift q)) :
    gotoDefault t s a = some q ∧ 0 ≤ q ∧ needsTok { t with optimized := false } s = some true := by
  unfold actOf at h
  unfold needsTok
  simp only [Bool.false_eq_true, if_false] at h ⊢
  cases hg : geti t.action s with
  | none => simp [hg] at h
  | some v =>
    simp only [hg, Option.map_some, Option.some.injEq, decide_eq_true_eq] at h ⊢
    split at h
    · cases h
    · rename_i x hx
      split at h
      · cases h
      · split at h
        · rename_i hx1
          simp only [gotoDefault_with] at h
          split at h
          · cases h
          · rename_i q' hq'
            split at h
            · rename_i hq0
              simp only [Option.some.injEq, Act.shift.injEq] at h
              subst h
              refine ⟨hq', hq0, ?_⟩
              by_cases hlt : v < -2
              · exact Or.inl hlt
              · simp only [hlt, if_false, Option.some.injEq] at hx
                right; omega
            · cases h
        · cases h

/-! ### displacement encoding -/

theorem actOf_opt_obs (t : Tables) (s a : Nat) (deep : Int → Option Int) :
    actOf { t with optimized := true } deep s a = (obsOpt t s a).toAct := by
  unfold actOf obsOpt
  simp only [if_true, optLookup_with]
  cases hg : geti t.oAction s with
  | none => rfl
  | some v =>
    simp only
    by_cases hv : v > t.oBase
    · simp only [hv, if_true]
      cases optLookup t s v a with
      | none => rfl
      | some x =>
        simp only [Option.map_some, actOfOptValue]
        by_cases h0 : x ≥ 0
        · simp [h0, Obs.toAct]
        · by_cases h1 : x < -1 <;> simp [h0, h1, Obs.toAct]
    · simp only [hv, if_false]
      cases geti t.oDefAct s with
      | none => rfl
      | some x =>
        simp only [Option.map_some, actOfOptValue]
        by_cases h0 : x ≥ 0
        · simp [h0, Obs.toAct]
        · by_cases h1 : x < -1 <;> simp [h0, h1, Obs.toAct]

/-- the condition of `noBlindShift` on state `s` -/
def NoBlindAt (t : Tables) (s : Nat) : Prop :=
  ∀ v d, geti t.oAction s = some v → geti t.oDefAct s = some d → v > t.oBase ∨ d ≥ -1

theorem actOf_opt_shift {t : Tables} {s : Nat} {a q : Int} {deep : Int → Option Int}
    (hnb : NoBlindAt t s)
    (h : actOf { t with optimized := true } deep s a = some (.shift q)) :
    needsTok { t with optimized := true } s = some true := by
  unfold actOf at h
  unfold needsTok
  simp only [if_true] at h ⊢
  cases hg : geti t.oAction s with
  | none => simp [hg] at h
  | some v =>
    simp only [hg, Option.map_some, Option.some.injEq, decide_eq_true_eq] at h ⊢
    by_cases hv : v > t.oBase
    · exact hv
    · simp only [hv, if_false] at h
      cases hd : geti t.oDefAct s with
      | none => simp [hd] at h
      | some d =>
        rcases hnb v d hg hd with h1 | h1
        · exact absurd h1 hv
        · simp only [hd, Option.map_some, actOfOptValue, Option.some.injEq] at h
          split at h
          · cases h
          · split at h
            · omega
            · cases h

/-! ### goto targets -/

theorem gotoLinear_range (ft : Array Int) (state : Int) :
    ∀ (fuel : Nat) (i max q : Int), gotoLinear ft state fuel i max = some q →
      q = -1 ∨ ∃ j, geti ft j = some q
  | 0, _, _, q, h => by rw [gotoLinear] at h; left; cases h; rfl
  | fuel + 1, i, max, q, h => by
    rw [gotoLinear] at h
    split at h
    · split at h
      · cases h
      · split at h
        · exact Or.inr ⟨_, h⟩
        · exact gotoLinear_range ft state fuel _ _ q h
    · left; cases h; rfl

theorem gotoBinary_range (ft : Array Int) (state : Int) :
    ∀ (fuel : Nat) (min max q : Int), gotoBinary ft state fuel min max = some q →
      q = -1 ∨ ∃ j, geti ft j = some q
  | 0, _, _, q, h => by rw [gotoBinary] at h; left; cases h; rfl
  | fuel + 1, min, max, q, h => by
    rw [gotoBinary] at h
    split at h
    · simp only at h
      split at h
      · cases h
      · split at h
        · exact Or.inr ⟨_, h⟩
        · split at h
          · exact gotoBinary_range ft state fuel _ _ q h
          · exact gotoBinary_range ft state fuel _ _ q h
    · left; cases h; rfl

theorem gotoDefault_range {t : Tables} {s x q : Int} (h : gotoDefault t s x = some q) :
    q = -1 ∨ ∃ j, geti t.fromTo j = some q := by
  unfold gotoDefault at h
  cases h1 : geti t.goto_ x with
  | none => simp [h1] at h
  | some mn =>
    cases h2 : geti t.goto_ (x + 1) with
    | none => simp [h1, h2] at h
    | some mx =>
      simp only [h1, h2, Option.bind_eq_bind, Option.bind_some] at h
      split at h
      · exact gotoLinear_range _ _ _ _ _ _ h
      · exact gotoBinary_range _ _ _ _ _ _ h

/-! ### unpacking the side conditions -/

theorem geti_mem {a : Array Int} {i v : Int} (h : geti a i = some v) : v ∈ a := by
  unfold geti at h
  split at h
  · cases h
  · exact Array.mem_of_getElem? h

structure WfFacts (t : Tables) : Prop where
  nTermsPos : 0 < t.nTerms
  nTermsLe : t.nTerms ≤ t.nSyms
  fin : t.finalStates.size ≤ t.nStates
  fromTo : ∀ j v, geti t.fromTo j = some v → 0 ≤ v ∧ v < (t.nStates : Int)
  ruleSym : ∀ r lhs, geti t.ruleSymbol r = some lhs → (t.nTerms : Int) ≤ lhs ∧ lhs < (t.nSyms : Int)
  lalr : ∀ s, s < t.nStates → LalrOkAt t s

theorem wfFacts {t : Tables} (h : tablesWf t = true) : WfFacts t := by
  unfold tablesWf at h
  simp only [Bool.and_eq_true, decide_eq_true_eq, Array.all_eq_true_iff_forall_mem,
    List.all_eq_true, List.mem_range] at h
  obtain ⟨⟨⟨⟨⟨h1, h2⟩, h3⟩, h4⟩, h5⟩, h6⟩ := h
  refine ⟨h1, h2, h3, fun j v hj => h4 v (geti_mem hj), fun r lhs hr => h5 lhs (geti_mem hr), ?_⟩
  intro s hs v hv hlt
  have := h6 s hs
  rw [hv] at this
  simp only [Bool.or_eq_true, decide_eq_true_eq] at this
  rcases this with h' | h'
  · omega
  · exact h'

theorem noBlindFacts {t : Tables} (h : noBlindShift t = true) (s : Nat) (hs : s < t.nStates) :
    NoBlindAt t s := by
  unfold noBlindShift at h
  simp only [List.all_eq_true, List.mem_range] at h
  intro v d hv hd
  have := h s hs
  rw [hv, hd] at this
  simpa using this

/-- every token the source delivers is a terminal -/
theorem tok_in {t : Tables} {inp : Input} (h : inputOk t inp = true) (h0 : 0 < t.nTerms) (j : Nat) :
    0 ≤ (inp.tok j).sym ∧ (inp.tok j).sym < (t.nTerms : Int) := by
  unfold inputOk at h
  simp only [Array.all_eq_true_iff_forall_mem, Bool.and_eq_true, decide_eq_true_eq] at h
  unfold Input.tok
  cases hj : inp.toks[j]? with
  | none => simp only; omega
  | some tk => exact h tk (Array.mem_of_getElem? hj)

/-- a valid goto target is a state -/
theorem goto_valid {t : Tables} (hw : WfFacts t) {s x q : Int} (h : gotoDefault t s x = some q) :
    q = -1 ∨ (0 ≤ q ∧ q < (t.nStates : Int)) := by
  rcases gotoDefault_range h with h1 | ⟨j, hj⟩
  · exact Or.inl h1
  · exact Or.inr (hw.fromTo j q hj)

end TmVerif.LRCheck
