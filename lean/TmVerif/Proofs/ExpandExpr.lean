import TmVerif.Proofs.ExpandLang
/-!
C13 helper lemmas, part 2: `expandExpr` preserves the language, for every environment that binds each
extracted nonterminal to the language of its defining expression.
-/
namespace TmVerif.Expand

/-- `ρ` binds every extracted nonterminal to the denotation of its defining expression -/
def Consistent (cx : Ctx) (ρ : Nat → Lang) (ext : List NT) : Prop :=
  ∀ k nt, ext[k]? = some nt → ρ (cx.base + k) = den cx.sets ρ nt.value

theorem Consistent.prefix {cx : Ctx} {ρ : Nat → Lang} {a b : List NT} (h : a <+: b)
    (hc : Consistent cx ρ b) : Consistent cx ρ a := by
  intro k nt hk
  obtain ⟨t, rfl⟩ := h
  apply hc k nt
  have hlt : k < a.length := by
    rcases Nat.lt_or_ge k a.length with h | h
    · exact h
    · rw [List.getElem?_eq_none h] at hk; cases hk
  rw [List.getElem?_append_left hlt]; exact hk

/-- what `extract` guarantees: the state only grows, and the returned reference denotes `⟦e⟧` -/
theorem extract_spec (cx : Ctx) (curr : String) (ext : List NT) (e : Expr) :
    ext <+: (extract cx curr ext e).2 ∧
    ∀ ρ, Consistent cx ρ (extract cx curr ext e).2 →
      den cx.sets ρ (extract cx curr ext e).1 = den cx.sets ρ e := by
  unfold extract
  simp only
  split
  · next k hreuse =>
    refine ⟨List.prefix_refl _, ?_⟩
    intro ρ hc
    -- reuse: `ext[k] = nt` with `equal e nt.value`
    split at hreuse
    · next k' hfound =>
      split at hreuse
      · next nt hnt =>
        split at hreuse
        · next heq =>
          cases hreuse
          simp only [den]
          rw [hc k nt hnt, equal_eq _ _ heq]
        · cases hreuse
      · cases hreuse
    · cases hreuse
  · next hreuse =>
    refine ⟨List.prefix_append _ _, ?_⟩
    intro ρ hc
    simp only [den]
    have hget : ∀ nt : NT, (ext ++ [nt])[ext.length]? = some nt := by intro nt; simp
    have := hc ext.length _ (hget _)
    simpa using this

theorem isEmptyExpr_eq {e : Expr} (h : isEmptyExpr e = true) : e = .empty := by
  cases e <;> simp [isEmptyExpr] at h ⊢

variable (cx : Ctx) (curr : String)

mutual
theorem expandExpr_spec : ∀ (e : Expr) (ext : List NT),
    ext <+: (expandExpr cx curr ext e).2 ∧
    ∀ ρ, Consistent cx ρ (expandExpr cx curr ext e).2 →
      denAlts cx.sets ρ (expandExpr cx curr ext e).1 = den cx.sets ρ e
  | .empty, ext => by
    simp only [expandExpr]
    exact ⟨List.prefix_refl _, fun ρ _ => by simp [denAlts_singleton]⟩
  | .ref s, ext => by
    simp only [expandExpr]
    exact ⟨List.prefix_refl _, fun ρ _ => by simp [denAlts_singleton]⟩
  | .command _, ext => by
    simp only [expandExpr]
    exact ⟨List.prefix_refl _, fun ρ _ => by simp [denAlts_singleton]⟩
  | .marker _, ext => by
    simp only [expandExpr]
    exact ⟨List.prefix_refl _, fun ρ _ => by simp [denAlts_singleton]⟩
  | .prec _ _, ext => by
    simp only [expandExpr]
    exact ⟨List.prefix_refl _, fun ρ _ => by simp [denAlts_singleton]⟩
  | .opt e, ext => by
    have ih := expandExpr_spec e ext
    simp only [expandExpr]
    refine ⟨ih.1, fun ρ hc => ?_⟩
    rw [denAlts_append, denAlts_singleton, ih.2 ρ hc]
    simp [den]
  | .seq es, ext => by
    have ih := expandSeq_spec es ext [.empty]
    simp only [expandExpr]
    refine ⟨ih.1, fun ρ hc => ?_⟩
    rw [ih.2 ρ hc, denAlts_singleton]
    simp [den, Lang.eps_cat]
  | .choice es, ext => by
    have ih := expandAlt_spec es ext
    simp only [expandExpr]
    refine ⟨ih.1, fun ρ hc => ?_⟩
    rw [ih.2 ρ hc]; simp [den]
  | .arrow n e, ext => by
    have ih := expandExpr_spec e ext
    simp only [expandExpr]
    refine ⟨ih.1, fun ρ hc => ?_⟩
    rw [denAlts_map _ _ _ (fun v => by simp [den]), ih.2 ρ hc]; simp [den]
  | .assign n e, ext => by
    have ih := expandExpr_spec e ext
    simp only [expandExpr]
    refine ⟨ih.1, fun ρ hc => ?_⟩
    rw [denAlts_map _ _ _ (fun v => by split <;> simp [den]), ih.2 ρ hc]; simp [den]
  | .append n e, ext => by
    have ih := expandExpr_spec e ext
    simp only [expandExpr]
    refine ⟨ih.1, fun ρ hc => ?_⟩
    rw [denAlts_map _ _ _ (fun v => by split <;> simp [den]), ih.2 ρ hc]; simp [den]
  | .set i, ext => by
    have hx := extract_spec cx curr ext (.set i)
    simp only [expandExpr]
    refine ⟨hx.1, fun ρ hc => ?_⟩
    rw [denAlts_singleton, hx.2 ρ hc]
  | .lookahead ps, ext => by
    have hx := extract_spec cx curr ext (.lookahead ps)
    simp only [expandExpr]
    refine ⟨hx.1, fun ρ hc => ?_⟩
    rw [denAlts_singleton, hx.2 ρ hc]
  | .list ne rr e s, ext => by
    have ih1 := expandExpr_spec e ext
    simp only [expandExpr]
    generalize h1 : expandExpr cx curr ext e = r1 at ih1 ⊢
    obtain ⟨alts, ext1⟩ := r1
    -- the separator
    have hsep : ∃ sepAlts ext2,
        (if (!isEmptyExpr s) = true then expandExpr cx curr ext1 s else ([Expr.empty], ext1)) = (sepAlts, ext2) ∧
        ext1 <+: ext2 ∧ ∀ ρ, Consistent cx ρ ext2 → denAlts cx.sets ρ sepAlts = den cx.sets ρ s := by
      by_cases hs : (!isEmptyExpr s) = true
      · have ih2 := expandExpr_spec s ext1
        simp only [hs, if_true]
        exact ⟨_, _, rfl, ih2.1, ih2.2⟩
      · simp only [hs]
        refine ⟨_, _, rfl, List.prefix_refl _, fun ρ _ => ?_⟩
        have : s = .empty := isEmptyExpr_eq (by simpa using hs)
        subst this; simp [denAlts_singleton]
    obtain ⟨sepAlts, ext2, hsepEq, hle2, hden2⟩ := hsep
    simp only [hsepEq]
    -- the list nonterminal
    have hx := extract_spec cx curr ext2
      (Expr.list (ne || !isEmptyExpr s) rr (wrapChoice alts) (wrapChoice sepAlts))
    generalize h3 : extract cx curr ext2
      (Expr.list (ne || !isEmptyExpr s) rr (wrapChoice alts) (wrapChoice sepAlts)) = r3 at hx ⊢
    obtain ⟨r, ext3⟩ := r3
    simp only at hx ih1
    have hr : ∀ ρ, Consistent cx ρ ext3 →
        den cx.sets ρ r =
          if (ne || !isEmptyExpr s) = true then Lang.sepIter (den cx.sets ρ e) (den cx.sets ρ s)
          else Lang.union (Lang.sepIter (den cx.sets ρ e) (den cx.sets ρ s)) Lang.eps := by
      intro ρ hc
      have hc2 : Consistent cx ρ ext2 := hc.prefix hx.1
      have hc1 : Consistent cx ρ ext1 := hc2.prefix hle2
      rw [hx.2 ρ hc]
      simp only [den, den_wrapChoice, ih1.2 ρ hc1, hden2 ρ hc2]
    by_cases hopt : (!ne && !isEmptyExpr s) = true
    · -- `(e separator s)*`: an optional wrapper nonterminal
      rw [if_pos hopt]
      have hy := extract_spec cx curr ext3 (.opt r)
      generalize h4 : extract cx curr ext3 (.opt r) = r4 at hy ⊢
      obtain ⟨r', ext4⟩ := r4
      simp only at hy ⊢
      refine ⟨ih1.1.trans (hle2.trans (hx.1.trans hy.1)), fun ρ hc => ?_⟩
      have hc3 : Consistent cx ρ ext3 := hc.prefix hy.1
      rw [denAlts_singleton, hy.2 ρ hc]
      simp only [Bool.and_eq_true, Bool.not_eq_true'] at hopt
      simp only [den, hr ρ hc3, hopt.1, hopt.2]
      simp
    · rw [if_neg hopt]
      refine ⟨ih1.1.trans (hle2.trans hx.1), fun ρ hc => ?_⟩
      have hne' : (ne || !isEmptyExpr s) = ne := by
        cases ne <;> cases hs : isEmptyExpr s <;> simp_all
      rw [denAlts_singleton, hr ρ hc, hne']
      simp only [den]
  termination_by structural e => e
theorem expandSeq_spec : ∀ (es : List Expr) (ext : List NT) (acc : List Expr),
    ext <+: (expandSeq cx curr ext acc es).2 ∧
    ∀ ρ, Consistent cx ρ (expandSeq cx curr ext acc es).2 →
      denAlts cx.sets ρ (expandSeq cx curr ext acc es).1 =
        Lang.cat (denAlts cx.sets ρ acc) (denSeq cx.sets ρ es)
  | [], ext, acc => by
    simp only [expandSeq]
    exact ⟨List.prefix_refl _, fun ρ _ => by simp [denSeq, Lang.cat_eps]⟩
  | e :: es, ext, acc => by
    have ih1 := expandExpr_spec e ext
    simp only [expandSeq]
    generalize h1 : expandExpr cx curr ext e = r1 at ih1 ⊢
    obtain ⟨r, ext1⟩ := r1
    have ih2 := expandSeq_spec es ext1 (multiConcat acc r)
    simp only at ih1 ih2 ⊢
    refine ⟨ih1.1.trans ih2.1, fun ρ hc => ?_⟩
    rw [ih2.2 ρ hc, denAlts_multiConcat, ih1.2 ρ (hc.prefix ih2.1)]
    simp [denSeq, Lang.cat_assoc]
  termination_by structural es => es
theorem expandAlt_spec : ∀ (es : List Expr) (ext : List NT),
    ext <+: (expandAlt cx curr ext es).2 ∧
    ∀ ρ, Consistent cx ρ (expandAlt cx curr ext es).2 →
      denAlts cx.sets ρ (expandAlt cx curr ext es).1 = denAlt cx.sets ρ es
  | [], ext => by
    simp only [expandAlt]
    exact ⟨List.prefix_refl _, fun ρ _ => by simp [denAlt, denAlts_nil]⟩
  | e :: es, ext => by
    have ih1 := expandExpr_spec e ext
    simp only [expandAlt]
    generalize h1 : expandExpr cx curr ext e = r1 at ih1 ⊢
    obtain ⟨r, ext1⟩ := r1
    have ih2 := expandAlt_spec es ext1
    generalize h2 : expandAlt cx curr ext1 es = r2 at ih2 ⊢
    obtain ⟨rs, ext2⟩ := r2
    simp only at ih1 ih2 ⊢
    refine ⟨ih1.1.trans ih2.1, fun ρ hc => ?_⟩
    rw [denAlts_append, ih2.2 ρ hc, ih1.2 ρ (hc.prefix ih2.1)]
    simp [denAlt]
  termination_by structural es => es
end

end TmVerif.Expand
