/-
Helper lemmas for C01 completeness, part 2: small-step execution of the runtime model
(`Steps` = finitely many `step`s), `runLoop` follows the steps, and what one shift / one reduce
does to a configuration whose next unread token is `inp.tok m` (`NextOk`, fetched or not).
-/
import TmVerif.Proofs.LRComplete
namespace TmVerif.LRComplete
open TmVerif.LR TmVerif.CFG TmVerif.LRSound TmVerif.LRRef

/-- finitely many iterations of the loop body, none of which stops -/
inductive Steps (t : Tables) (inp : Input) : Cfg → Cfg → Prop
  | refl (c : Cfg) : Steps t inp c c
  | head (c c' c'' : Cfg) : step t inp c = .cont c' → Steps t inp c' c'' → Steps t inp c c''

theorem Steps.single {t : Tables} {inp : Input} {c c' : Cfg} (h : step t inp c = .cont c') :
    Steps t inp c c' := .head c c' c' h (.refl c')

theorem Steps.trans {t : Tables} {inp : Input} {c c' c'' : Cfg} (h1 : Steps t inp c c')
    (h2 : Steps t inp c' c'') : Steps t inp c c'' := by
  induction h1 with
  | refl c => exact h2
  | head c c1 c2 hs _ ih => exact .head c c1 c'' hs (ih h2)

/-- the loop follows the steps and accepts when it meets the final state (possibly earlier) -/
theorem runLoop_of_steps {t : Tables} {inp : Input} (fin : Int) {c c' : Cfg}
    (h : Steps t inp c c') (hfin : c'.state = fin) :
    ∃ fuel c'', runLoop t inp fin fuel c = (.accept, c'') := by
  induction h with
  | refl c => exact ⟨1, c, by rw [runLoop, if_pos hfin]⟩
  | head c c1 c2 hs _ ih =>
    by_cases hc : c.state = fin
    · exact ⟨1, c, by rw [runLoop, if_pos hc]⟩
    · obtain ⟨fuel, c'', hr⟩ := ih hfin
      refine ⟨fuel + 1, c'', ?_⟩
      rw [runLoop, if_neg hc, hs]
      exact hr

/-! ### tokens -/

theorem tok_sym {t : Tables} {inp : Input} (htok : TokOk t inp) (h0 : 0 < t.nTerms) (j : Nat) :
    (inp.tok j).sym = (symAt inp j : Int) ∧ symAt inp j < t.nTerms := by
  obtain ⟨a, h1, h2⟩ := tok_range htok h0 j
  unfold symAt
  rw [h1]
  exact ⟨by simp, by simpa using h2⟩

/-- the token stream reads `u` from position `m` on -/
def Reads (inp : Input) : Nat → List Nat → Prop
  | _, [] => True
  | m, a :: u => symAt inp m = a ∧ Reads inp (m + 1) u

theorem reads_append (inp : Input) : ∀ (u v : List Nat) (m : Nat),
    Reads inp m (u ++ v) ↔ Reads inp m u ∧ Reads inp (m + u.length) v
  | [], v, m => by simp [Reads]
  | a :: u, v, m => by
    simp only [List.cons_append, Reads, List.length_cons, reads_append inp u v (m + 1)]
    have : m + 1 + u.length = m + (u.length + 1) := by omega
    rw [this, and_assoc]

/-! ### top of the stack -/

/-- the current state is `s` and it is the state of the topmost stack entry -/
def TopState (c : Cfg) (s : Nat) : Prop :=
  c.state = (s : Int) ∧ ∃ e rest, c.stack = e :: rest ∧ e.state = (s : Int)

/-- `c'` is `c` with one entry for state `q` pushed on the stack `stk` -/
def Pushed (c' : Cfg) (q : Nat) (stk : List Entry) : Prop :=
  c'.state = (q : Int) ∧ ∃ e, e.state = (q : Int) ∧ c'.stack = e :: stk

theorem Pushed.top {c' : Cfg} {q : Nat} {stk : List Entry} (h : Pushed c' q stk) :
    TopState c' q := by
  obtain ⟨h1, e, h2, h3⟩ := h
  exact ⟨h1, e, stk, h3, h2⟩

/-! ### one shift -/

theorem shift_step {t : Tables} {inp : Input} (htok : TokOk t inp) {c : Cfg} {m s a q : Nat}
    (hn : NextOk inp c m) (hst : c.state = (s : Int)) (hneeds : needsTok t s = some true)
    (ha : (inp.tok m).sym = (a : Int)) (hact : actOf t noDeep s a = some (.shift q)) :
    ∃ c', step t inp c = .cont c' ∧ Pushed c' q c.stack ∧ NextOk inp c' (m + 1) := by
  obtain ⟨f1, f2, f3, f4, f5, f6⟩ := fetch_spec inp c m hn
  have hd : decode t inp c = some ((c.fetch inp).1, .shift q) := by
    unfold decode
    rw [hst, hneeds]
    simp only
    rw [f1, ha, actOf_noDeep t _ s a _ hact]
    rfl
  unfold step
  rw [hd]
  simp only
  rw [apply, f2]
  simp only
  refine ⟨_, rfl, ⟨rfl, _, rfl, by rw [f3]⟩, ?_⟩
  unfold NextOk at f6 ⊢
  rw [f2] at f6
  by_cases hz : (inp.tok m).sym = 0
  · simp only [hz, ne_eq, not_true_eq_false, if_false]
    exact ⟨(tok_zero_next htok _ hz).symm, fun h => h.elim⟩
  · simp only [ne_eq, hz, not_false_eq_true, if_true]
    exact f6.2 hz

/-! ### one reduction -/

theorem reduce_apply {t : Tables} {inp : Input} {c1 : Cfg} {m n X q : Nat} {r : Int}
    {ents rest0 : List Entry} {e0 : Entry}
    (hn : NextOk inp c1 m)
    (hlen : geti t.ruleLen r = some (n : Int)) (hsym : geti t.ruleSymbol r = some (X : Int))
    (hstk : c1.stack = ents ++ e0 :: rest0) (hents : ents.length = n)
    (hgoto : gotoState t e0.state X = some (q : Int)) :
    ∃ c', apply t inp c1 (.reduce r) = .cont c' ∧ Pushed c' q (e0 :: rest0) ∧
      NextOk inp c' m := by
  obtain ⟨_, _, f3, _, _, f6⟩ := fetch_spec inp c1 m hn
  rw [apply, hlen, hsym]
  simp only [Int.toNat_natCast]
  have hl : ¬ n > c1.stack.length := by rw [hstk, List.length_append, hents]; omega
  rw [if_neg hl]
  have hdrop : c1.stack.drop n = e0 :: rest0 := by
    rw [hstk, ← hents, List.drop_left]
  have hq : ¬ (q : Int) = -1 := by omega
  by_cases h0 : n = 0
  · simp only [h0, if_true]
    rw [f3, ← h0, hdrop]
    simp only
    rw [hgoto]
    simp only [hq, if_false]
    exact ⟨_, rfl, ⟨rfl, _, rfl, rfl⟩, f6⟩
  · simp only [h0, if_false]
    rw [hdrop]
    simp only
    rw [hgoto]
    simp only [hq, if_false]
    exact ⟨_, rfl, ⟨rfl, _, rfl, rfl⟩, hn⟩

theorem reduce_step {t : Tables} {inp : Input} (htok : TokOk t inp) (h0 : 0 < t.nTerms)
    {c : Cfg} {m s n X q : Nat} {r : Int} {b : Bool}
    {ents rest0 : List Entry} {e0 : Entry}
    (hn : NextOk inp c m) (hst : c.state = (s : Int)) (hneeds : needsTok t s = some b)
    (hact : actOf t noDeep s (if b then (symAt inp m : Int) else 0) = some (.reduce r))
    (hlen : geti t.ruleLen r = some (n : Int)) (hsym : geti t.ruleSymbol r = some (X : Int))
    (hstk : c.stack = ents ++ e0 :: rest0) (hents : ents.length = n)
    (hgoto : gotoState t e0.state X = some (q : Int)) :
    ∃ c', step t inp c = .cont c' ∧ Pushed c' q (e0 :: rest0) ∧ NextOk inp c' m := by
  obtain ⟨f1, f2, f3, f4, f5, f6⟩ := fetch_spec inp c m hn
  cases b with
  | true =>
    have hd : decode t inp c = some ((c.fetch inp).1, .reduce r) := by
      unfold decode
      rw [hst, hneeds]
      simp only
      rw [f1, (tok_sym htok h0 m).1]
      simp only [if_true] at hact
      rw [actOf_noDeep t _ s _ _ hact]
      rfl
    unfold step
    rw [hd]
    exact reduce_apply f6 hlen hsym (by rw [f3]; exact hstk) hents hgoto
  | false =>
    have hd : decode t inp c = some (c, .reduce r) := by
      unfold decode
      rw [hst, hneeds]
      simp only [Bool.false_eq_true, if_false] at hact ⊢
      rw [actOf_noDeep t _ s _ _ hact]
      rfl
    unfold step
    rw [hd]
    exact reduce_apply hn hlen hsym hstk hents hgoto

end TmVerif.LRComplete
