/-
Helper lemmas for C07 soundness (tables with deep lookahead), part 1: how `actOf` depends on the
deep-lookahead oracle, the leaves of a lookahead automaton, unpacking of `certKOk`, the edge
relation. Adapted from Proofs/LRSound.lean.
-/
import TmVerif.Model.LRSoundK
import TmVerif.Proofs.LRSoundAccept
namespace TmVerif.LRSoundK
open TmVerif.LR TmVerif.CFG TmVerif.LRSound

/-! ### `actOf` and the deep-lookahead oracle -/

theorem actOf_ptr_none {t : Tables} {s a : Int} (deep : Int → Option Int)
    (h : cellPtr t s a = none) : actOf t deep s a = actOf t noDeep s a := by
  unfold cellPtr at h
  unfold actOf
  split
  · rfl
  · rename_i hopt
    simp only [hopt] at h
    cases hg : geti t.action s with
    | none => rfl
    | some action =>
      simp only [hg] at h ⊢
      by_cases hlt : action < -2
      · simp only [hlt, if_true] at h ⊢
        cases hl : lalrLookup t action a with
        | none => rfl
        | some y =>
          simp only [hl] at h ⊢
          by_cases hy : y < -2
          · simp [hy] at h
          · simp only [hy, if_false]
      · simp only [hlt, if_false]

theorem actOf_ptr_some {t : Tables} {s a x : Int} (deep : Int → Option Int)
    (h : cellPtr t s a = some x) :
    actOf t deep s a = match deep x with
      | none => none
      | some r => actOf t (fun _ => some r) s a := by
  unfold cellPtr at h
  unfold actOf
  split
  · rename_i hopt; simp [hopt] at h
  · rename_i hopt
    simp only [hopt] at h
    cases hg : geti t.action s with
    | none => simp [hg] at h
    | some action =>
      simp only [hg] at h ⊢
      by_cases hlt : action < -2
      · simp only [hlt, if_true] at h ⊢
        cases hl : lalrLookup t action a with
        | none => simp [hl] at h
        | some y =>
          simp only [hl] at h ⊢
          by_cases hy : y < -2
          · simp only [hy, if_true] at h ⊢
            simp only [Bool.false_eq_true, if_false, Option.some.injEq] at h
            subst h
            cases deep y <;> rfl
          · simp [hy] at h
      · simp [hlt] at h

/-- in a deep cell only the decision `-1` shifts -/
theorem actOf_const_shift {t : Tables} {s a x r q : Int} (h : cellPtr t s a = some x)
    (hs : actOf t (fun _ => some r) s a = some (.shift q)) : r = -1 := by
  unfold cellPtr at h
  unfold actOf at hs
  split at hs
  · rename_i hopt; simp [hopt] at h
  · rename_i hopt
    simp only [hopt] at h
    cases hg : geti t.action s with
    | none => simp [hg] at h
    | some action =>
      simp only [hg] at h hs
      by_cases hlt : action < -2
      · simp only [hlt, if_true] at h hs
        cases hl : lalrLookup t action a with
        | none => simp [hl] at h
        | some y =>
          simp only [hl] at h hs
          by_cases hy : y < -2
          · simp only [hy, if_true] at hs
            by_cases h0 : r ≥ 0
            · simp [h0] at hs
            · by_cases h1 : r = -1
              · exact h1
              · simp [h0, h1] at hs
          · simp [hy] at h
      · simp [hlt] at h

/-- every decision of the runtime's deep lookahead is a leaf -/
theorem allLeaves_deepLA {P : Int → Bool} {t : Tables} {inp : Input}
    (htok : ∀ j, ∃ a : Nat, (inp.tok j).sym = (a : Int) ∧ a < t.nTerms) :
    ∀ (fuel : Nat) (x : Int) (fuel' pos : Nat) (r : Int),
      allLeaves P t fuel x = true → deepLA t inp fuel' pos x = some r → P r = true
  | 0, _, _, _, _, h, _ => by simp [allLeaves] at h
  | fuel + 1, x, 0, _, _, _, hd => by simp [deepLA] at hd
  | fuel + 1, x, fuel' + 1, pos, r, h, hd => by
    unfold allLeaves at h
    unfold deepLA at hd
    by_cases hx : x < -2
    · simp only [hx, if_true, List.all_eq_true, List.mem_range] at h hd
      obtain ⟨a, ha1, ha2⟩ := htok pos
      have := h a ha2
      rw [ha1] at hd
      cases hl : lalrLookup t x (a : Nat) with
      | none => simp [hl] at hd
      | some y =>
        simp only [hl] at this hd
        exact allLeaves_deepLA htok fuel y fuel' (pos + 1) r this hd
    · simp only [hx, if_false, Option.some.injEq] at h hd
      rw [← hd]; exact h

/-! ### unpacking the checker -/

structure CertFactsK (g : Grammar) (t : Tables) (cert : Cert) : Prop where
  wf : g.wf = true
  nTerms : t.nTerms = g.nTerms
  nSyms : t.nSyms = g.nSyms
  nIn : g.inputs.size ≤ t.nStates
  fin : t.finalStates.size = g.inputs.size
  pastEntry : ∀ i, i < g.inputs.size → pastOf cert (i : Nat) = []
  acts : ∀ s, s < t.nStates → actsOk g t cert s = true
  tedges : ∀ s, s < t.nStates → ∀ e ∈ termEdges t s,
    edgeOk g.inputs.size t cert s (e.2.1 : Nat) e.2.2 = true
  gotos : ∀ s, s < t.nStates → ∀ k, k < t.nSyms - t.nTerms →
    gotoOk g.inputs.size t cert s (t.nTerms + k) = true
  finals : ∀ i, i < g.inputs.size → finalOk g t cert i = true

theorem certFactsK {g : Grammar} {t : Tables} {cert : Cert} (h : certKOk g t cert = true) :
    CertFactsK g t cert := by
  unfold certKOk at h
  simp only [Bool.and_eq_true, decide_eq_true_eq, List.all_eq_true, List.mem_range,
    beq_iff_eq] at h
  obtain ⟨⟨⟨⟨⟨⟨⟨⟨h1, h2⟩, h3⟩, h4⟩, h5⟩, _⟩, h7⟩, h8⟩, h9⟩ := h
  exact ⟨h1, h2, h3, h4, h5, h7, fun s hs => (h8 s hs).1.1,
    fun s hs e he => (h8 s hs).1.2 e he, fun s hs => (h8 s hs).2, h9⟩

def TermEdgeK (t : Tables) (p a : Nat) (q : Int) : Prop :=
  p < t.nStates ∧ a < t.nTerms ∧ needsTok t p = some true ∧ shiftOf t p a = some (.shift q)

def NtEdgeK (t : Tables) (p X : Nat) (q : Int) : Prop :=
  p < t.nStates ∧ t.nTerms ≤ X ∧ X < t.nSyms ∧ gotoState t p X = some q ∧ 0 ≤ q

def EdgeK (t : Tables) (p X : Nat) (q : Int) : Prop := TermEdgeK t p X q ∨ NtEdgeK t p X q

theorem EdgeK.lt {t : Tables} {p X : Nat} {q : Int} (h : EdgeK t p X q) : p < t.nStates := by
  rcases h with h | h <;> exact h.1

theorem termEdge_memK' {t : Tables} {p a : Nat} {q : Int} (h : TermEdgeK t p a q) :
    (p, a, q) ∈ termEdges t p := by
  obtain ⟨hp, ha, hn, hact⟩ := h
  unfold termEdges
  rw [hn]
  simp only [beq_self_eq_true, if_true, List.mem_filterMap, List.mem_range]
  exact ⟨a, ha, by rw [hact]⟩

theorem termEdge_memK {t : Tables} {p a : Nat} {q : Int} (h : TermEdgeK t p a q) :
    (p, a, q) ∈ edges t := by
  unfold edges
  rw [List.mem_flatMap]
  exact ⟨p, List.mem_range.mpr h.1, List.mem_append_left _ (termEdge_memK' h)⟩

theorem ntEdge_memK {t : Tables} {p X : Nat} {q : Int} (h : NtEdgeK t p X q) :
    (p, X, q) ∈ edges t := by
  obtain ⟨hp, hX1, hX2, hg, hq⟩ := h
  unfold edges
  rw [List.mem_flatMap]
  refine ⟨p, List.mem_range.mpr hp, List.mem_append_right _ ?_⟩
  rw [List.mem_filterMap]
  refine ⟨X - t.nTerms, List.mem_range.mpr (by omega), ?_⟩
  have e : t.nTerms + (X - t.nTerms) = X := by omega
  rw [e, hg]
  simp [hq]

theorem edge_memK {t : Tables} {p X : Nat} {q : Int} (h : EdgeK t p X q) : (p, X, q) ∈ edges t :=
  h.elim termEdge_memK ntEdge_memK

theorem edge_okK {g : Grammar} {t : Tables} {cert : Cert} (hc : CertFactsK g t cert)
    {p X : Nat} {q : Int} (h : EdgeK t p X q) :
    edgeOk g.inputs.size t cert p (X : Nat) q = true := by
  rcases h with hT | ⟨hp, hX1, hX2, hg, hq⟩
  · exact hc.tedges p hT.1 _ (termEdge_memK' hT)
  · have := hc.gotos p hp (X - t.nTerms) (by omega)
    have e : t.nTerms + (X - t.nTerms) = X := by omega
    unfold gotoOk at this
    rw [e, hg] at this
    simp only [Bool.or_eq_true, beq_iff_eq] at this
    rcases this with h | h
    · omega
    · exact h


end TmVerif.LRSoundK
