import TmVerif.Model.Regex
import TmVerif.Proofs.Charset
/-!
Helper lemmas for `Model/Regex.lean` (C10): digit decoders, escape decoding on witnesses, error
ranges of the reference parser, language preservation of the canonical form.
-/
namespace TmVerif.Regex
open TmVerif.Charset

/-! ### digits -/

theorem ch_0 : ch '0' = 48 := by decide
theorem ch_7 : ch '7' = 55 := by decide
theorem ch_9 : ch '9' = 57 := by decide
theorem ch_a : ch 'a' = 97 := by decide
theorem ch_f : ch 'f' = 102 := by decide
theorem ch_A : ch 'A' = 65 := by decide
theorem ch_F : ch 'F' = 70 := by decide
theorem ch_Z : ch 'Z' = 90 := by decide

theorem hexval_spec (r : Int) : hexval false r ≠ -1 ↔ isHexDigit r := by
  unfold hexval isHexDigit
  simp only [Bool.false_eq_true, if_false, ch_0, ch_9, ch_a, ch_f, ch_A, ch_F]
  split
  · constructor <;> intro _ <;> omega
  · split
    · constructor <;> intro _ <;> omega
    · split
      · constructor <;> intro _ <;> omega
      · constructor
        · intro h; exact absurd rfl h
        · intro h; omega

theorem hexval_value (r : Int) (h : isHexDigit r) :
    hexval false r = (if 48 ≤ r ∧ r ≤ 57 then r - 48 else if 97 ≤ r then r - 87 else r - 55) ∧
    0 ≤ hexval false r ∧ hexval false r < 16 := by
  unfold isHexDigit at h
  unfold hexval
  simp only [Bool.false_eq_true, if_false, ch_0, ch_9, ch_a, ch_f, ch_A, ch_F] at *
  split <;> split <;> (try split) <;> (try split) <;> omega

theorem octval_spec (r : Int) : octval r ≠ -1 ↔ (48 ≤ r ∧ r ≤ 55) := by
  unfold octval
  simp only [ch_0, ch_7]
  split
  · constructor <;> intro _ <;> omega
  · constructor
    · intro h; exact absurd rfl h
    · intro h; omega

theorem octval_value (r : Int) (h : 48 ≤ r ∧ r ≤ 55) : octval r = r - 48 := by
  unfold octval
  simp only [ch_0, ch_7]
  simp [h]

/-! ### error ranges -/

theorem parse_error_in_pattern (env : Env) (v : Variant) (fold bytes : Bool) (pat : List Nat)
    (msg : String) (lo hi : Nat) (h : parse env v fold bytes pat = .error msg lo hi) :
    lo ≤ hi ∧ hi ≤ pat.length := by
  unfold parse at h
  simp only at h
  split at h
  · injection h with _ h1 h2; omega
  · split at h
    · injection h with _ h1 h2; omega
    · split at h
      · cases h
      · injection h with _ h1 h2; omega

/-! ### witnesses for the escape decoders -/

theorem escape_U_strict (env : Env) :
    ∃ msg lo hi, refParse env false false [0x5C, 0x55, 0x46, 0x46, 0x46, 0x46, 0x46, 0x46, 0x46, 0x46] =
      .error msg lo hi := ⟨_, _, _, rfl⟩

theorem escape_U_wrap (env : Env) :
    parse env ⟨true, true, true, true⟩ false false [0x5C, 0x55, 0x46, 0x46, 0x46, 0x46, 0x46, 0x46, 0x46, 0x46] =
      .ok (.cc [(-1, -1)]) := rfl

theorem escape_xZZ (env : Env) :
    (∃ msg lo hi, refParse env false false [0x5C, 0x78, 0x5A, 0x5A] = .error msg lo hi) ∧
    parse env ⟨true, true, true, true⟩ false false [0x5C, 0x78, 0x5A, 0x5A] = .ok (.cc [(0x253, 0x253)]) :=
  ⟨⟨_, _, _, rfl⟩, rfl⟩

/-! ### canonical form -/

theorem pow_congr {L L' : List Int → Prop} (h : ∀ w, L w ↔ L' w) (k : Nat) (w : List Int) :
    Pow L k w ↔ Pow L' k w := by
  induction k generalizing w with
  | zero => exact Iff.rfl
  | succ k ih =>
    simp only [Pow]
    constructor
    · rintro ⟨u, v, e, hu, hv⟩; exact ⟨u, v, e, (h u).1 hu, (ih v).1 hv⟩
    · rintro ⟨u, v, e, hu, hv⟩; exact ⟨u, v, e, (h u).2 hu, (ih v).2 hv⟩

theorem lang_cat (ρ : List Nat → List Int → Prop) (a b : Regex) (w : List Int) :
    Lang ρ (.cat a b) w ↔ ∃ u v, w = u ++ v ∧ Lang ρ a u ∧ Lang ρ b v := Iff.rfl

theorem lang_catC (ρ : List Nat → List Int → Prop) (a b : Regex) (w : List Int) :
    Lang ρ (catC a b) w ↔ Lang ρ (.cat a b) w := by
  induction a generalizing w with
  | eps =>
    simp only [catC, lang_cat]
    constructor
    · intro h; exact ⟨[], w, rfl, rfl, h⟩
    · rintro ⟨u, v, e, hu, hv⟩
      have : u = [] := hu
      subst this; simpa [e] using hv
  | cat a1 a2 _ ih2 =>
    simp only [catC, lang_cat]
    constructor
    · rintro ⟨u, v, e, hu, hv⟩
      obtain ⟨u2, v2, e2, hu2, hv2⟩ := (ih2 v).1 hv
      exact ⟨u ++ u2, v2, by rw [e, e2, List.append_assoc], ⟨u, u2, rfl, hu, hu2⟩, hv2⟩
    · rintro ⟨u, v, e, ⟨u1, u2, e1, h1, h2⟩, hv⟩
      exact ⟨u1, u2 ++ v, by rw [e, e1, List.append_assoc], h1, (ih2 _).2 ⟨u2, v, rfl, h2, hv⟩⟩
  | cc c | alt _ _ | rep _ _ _ | ext _ =>
    cases b <;> simp only [catC, lang_cat]
    all_goals first
      | exact Iff.rfl
      | (constructor
         · intro h; exact ⟨w, [], by simp, h, rfl⟩
         · rintro ⟨u, v, e, hu, hv⟩
           have : v = [] := hv
           subst this; simpa [e] using hu)

theorem lang_altC (ρ : List Nat → List Int → Prop) (a b : Regex) (w : List Int) :
    Lang ρ (altC a b) w ↔ Lang ρ (.alt a b) w := by
  induction a generalizing w with
  | alt a1 a2 _ ih2 =>
    simp only [altC]
    show Lang ρ a1 w ∨ Lang ρ (altC a2 b) w ↔ (Lang ρ a1 w ∨ Lang ρ a2 w) ∨ Lang ρ b w
    rw [ih2]
    show Lang ρ a1 w ∨ (Lang ρ a2 w ∨ Lang ρ b w) ↔ _
    rw [or_assoc]
  | eps | cc _ | cat _ _ | rep _ _ _ | ext _ => simp only [altC]

theorem canon_lang (ρ : List Nat → List Int → Prop) (r : Regex) (w : List Int) :
    Lang ρ (canon r) w ↔ Lang ρ r w := by
  induction r generalizing w with
  | eps => exact Iff.rfl
  | cc c =>
    show (∃ s, w = [s] ∧ Mem s (newCharset c)) ↔ (∃ s, w = [s] ∧ Mem s c)
    constructor
    · rintro ⟨s, e, h⟩; exact ⟨s, e, (mem_newCharset c s).1 h⟩
    · rintro ⟨s, e, h⟩; exact ⟨s, e, (mem_newCharset c s).2 h⟩
  | cat a b iha ihb =>
    simp only [canon]
    rw [lang_catC, lang_cat, lang_cat]
    constructor
    · rintro ⟨u, v, e, hu, hv⟩; exact ⟨u, v, e, (iha u).1 hu, (ihb v).1 hv⟩
    · rintro ⟨u, v, e, hu, hv⟩; exact ⟨u, v, e, (iha u).2 hu, (ihb v).2 hv⟩
  | alt a b iha ihb =>
    simp only [canon]
    rw [lang_altC]
    show Lang ρ (canon a) w ∨ Lang ρ (canon b) w ↔ Lang ρ a w ∨ Lang ρ b w
    rw [iha, ihb]
  | rep r mn mx ih =>
    simp only [canon]
    split
    · rename_i h
      simp only [Bool.and_eq_true, beq_iff_eq] at h
      obtain ⟨h1, h2⟩ := h
      subst h1; subst h2
      show w = [] ↔ ∃ k, 0 ≤ k ∧ (∀ m, some 0 = some m → k ≤ m) ∧ Pow (Lang ρ r) k w
      constructor
      · intro e; exact ⟨0, Nat.le_refl _, fun m _ => Nat.zero_le _, e⟩
      · rintro ⟨k, _, hk, hp⟩
        have : k = 0 := Nat.le_zero.1 (hk 0 rfl)
        subst this; exact hp
    · show (∃ k, mn ≤ k ∧ (∀ m, mx = some m → k ≤ m) ∧ Pow (Lang ρ (canon r)) k w) ↔
          (∃ k, mn ≤ k ∧ (∀ m, mx = some m → k ≤ m) ∧ Pow (Lang ρ r) k w)
      constructor
      · rintro ⟨k, h1, h2, h3⟩; exact ⟨k, h1, h2, (pow_congr ih k w).1 h3⟩
      · rintro ⟨k, h1, h2, h3⟩; exact ⟨k, h1, h2, (pow_congr ih k w).2 h3⟩
  | ext n => exact Iff.rfl

/-! ### `\xHH` -/

theorem nextRune_ascii (b : Nat) (rest : List Nat) (h : b < 0x80) : nextRune (b :: rest) = some ((b : Int), rest) := by
  simp [nextRune, decodeRune, h]

theorem escape_x2 (env : Env) (bytes standalone : Bool) (h1 h2 : Nat) (rest : List Nat)
    (d1 : isHexDigit h1) (d2 : isHexDigit h2) :
    parseEscape env Variant.strict false bytes standalone (0x78 :: h1 :: h2 :: rest) =
      .ok ([(hexval false h1 * 16 + hexval false h2, hexval false h1 * 16 + hexval false h2)], rest) := by
  have v1 := hexval_value h1 d1
  have v2 := hexval_value h2 d2
  have b1 : h1 < 0x80 := by
    unfold isHexDigit at d1; simp only [ch_0, ch_9, ch_a, ch_f, ch_A, ch_F] at d1; omega
  have b2 : h2 < 0x80 := by
    unfold isHexDigit at d2; simp only [ch_0, ch_9, ch_a, ch_f, ch_A, ch_F] at d2; omega
  have n1 : h1 ≠ 0x7B := by
    unfold isHexDigit at d1; simp only [ch_0, ch_9, ch_a, ch_f, ch_A, ch_F] at d1; omega
  have hv1 : hexval false (h1 : Int) ≠ -1 := (hexval_spec _).2 d1
  have hv2 : hexval false (h2 : Int) ≠ -1 := (hexval_spec _).2 d2
  unfold parseEscape
  rw [nextRune_ascii 0x78 _ (by decide)]
  have c1 : ¬ (ch '0' ≤ ((0x78 : Nat) : Int) ∧ ((0x78 : Nat) : Int) ≤ ch '7') := by simp only [ch_0, ch_7]; omega
  have e1 : ((((0x78 : Nat) : Int) == ch 'p' || ((0x78 : Nat) : Int) == ch 'P')) = false := by decide
  have e2 : (((0x78 : Nat) : Int) == ch 'd') = false := by decide
  have e3 : (((0x78 : Nat) : Int) == ch 'D') = false := by decide
  have e4 : (((0x78 : Nat) : Int) == ch 'w') = false := by decide
  have e5 : (((0x78 : Nat) : Int) == ch 'W') = false := by decide
  have e6 : (((0x78 : Nat) : Int) == ch 's') = false := by decide
  have e7 : (((0x78 : Nat) : Int) == ch 'S') = false := by decide
  have e8 : (((0x78 : Nat) : Int) == ch 'x') = true := by decide
  have e9 : (((0x78 : Nat) : Int) == ch 'u') = false := by decide
  have e10 : (((0x78 : Nat) : Int) == ch 'U') = false := by decide
  simp only [c1, if_false, e1, e2, e3, e4, e5, e6, e7, e8, e9, e10, Bool.false_eq_true, if_true, Bool.or_false]
  have hr : hexval false ↑h1 * 16 + hexval false ↑h2 ≤ 255 := by omega
  have hm : (255 : Int) ≤ maxRune bytes := by unfold maxRune; split <;> omega
  have g1 : decide (hexval false ↑h1 * 16 + hexval false ↑h2 > maxRune bytes) = false := by
    simp; omega
  have g2 : decide (hexval false ↑h1 * 16 + hexval false ↑h2 > 1114111) = false := by
    simp; omega
  split
  · rename_i heq
    split at heq
    · rename_i heq2; injection heq2 with heq2 _; exact absurd heq2 n1
    · simp only [fixedDigits, nextRune_ascii _ _ b1, nextRune_ascii _ _ b2, Variant.strict, shiftAdd] at heq
      simp [hv1, hv2] at heq
  · rename_i r rest' heq
    split at heq
    · rename_i heq2; injection heq2 with heq2 _; exact absurd heq2 n1
    · simp only [fixedDigits, nextRune_ascii _ _ b1, nextRune_ascii _ _ b2, Variant.strict, shiftAdd] at heq
      simp [hv1, hv2] at heq
      obtain ⟨hr', hrest⟩ := heq
      subst hrest
      rw [← hr']
      simp [g1, g2, runeSet]

end TmVerif.Regex
