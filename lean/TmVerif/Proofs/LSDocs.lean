import TmVerif.Model.LS
/-!
C23 — the document map of the language server model refines the abstract map `latest`
(`Model/LS.lean`, part (b)).
-/
namespace TmVerif.LS

theorem Docs.get_erase (d : Docs) (n m : Nat) :
    (Docs.erase d n).get m = if m = n then none else d.get m := by
  unfold Docs.erase Docs.get
  induction d with
  | nil => simp
  | cons p d ih =>
    obtain ⟨a, x⟩ := p
    simp only [List.filter_cons]
    by_cases hp : a = n
    · subst hp
      simp only [bne_self_eq_false, Bool.false_eq_true, if_false, ih, List.lookup_cons]
      by_cases hm : m = a
      · simp [hm]
      · have : (m == a) = false := by simpa using hm
        simp [hm, this]
    · have h1 : (a != n) = true := by simpa using hp
      simp only [h1, if_true, List.lookup_cons, ih]
      by_cases hma : m = a
      · subst hma
        simp [hp]
      · have : (m == a) = false := by simpa using hma
        simp [this]

theorem Docs.get_set (d : Docs) (n m : Nat) (x : Doc) :
    (Docs.set d n x).get m = if m = n then some x else d.get m := by
  unfold Docs.set
  by_cases hm : m = n
  · subst hm
    simp [Docs.get, List.lookup_cons]
  · have : (m == n) = false := by simpa using hm
    have e := Docs.get_erase d n m
    unfold Docs.get at e ⊢
    rw [List.lookup_cons, this]
    simp only [e, hm, if_false]

/-- The document map agrees with the abstract map on every file name. -/
def Agrees (d : Docs) (past : List Op) : Prop := ∀ n, d.get n = latest n past

theorem agrees_nil : Agrees [] [] := fun _ => rfl

theorem step_spec (e : Env) (d : Docs) (past : List Op) (op : Op) (ha : Agrees d past)
    (hc : ¬ Crashes e op) :
    ∃ d', step e d op = some (d', specOut e past op) ∧ Agrees d' (op :: past) := by
  cases op with
  | openDoc u v text =>
    simp only [Crashes] at hc
    cases ht : typecheck e.mode text (e.problems text) with
    | none => exact absurd ht hc
    | some rs =>
      refine ⟨d.set u.name ⟨text, toU32 v⟩, by simp [step, store, ht, specOut], ?_⟩
      intro n
      rw [Docs.get_set]
      simp only [latest]
      by_cases hn : n = u.name
      · simp [hn]
      · have : ¬ u.name = n := fun e => hn e.symm
        simp [hn, this, ha n]
  | change u v changes =>
    cases changes with
    | nil =>
      simp only [Crashes] at hc
      have : e.mode.emptyIgnored = true := by simpa using hc
      exact ⟨d, by simp [step, this, specOut], fun n => by simp [latest, ha n]⟩
    | cons text rest =>
      simp only [Crashes] at hc
      cases ht : typecheck e.mode text (e.problems text) with
      | none => exact absurd ht hc
      | some rs =>
        refine ⟨d.set u.name ⟨text, toU32 v⟩, by simp [step, store, ht, specOut], ?_⟩
        intro n
        rw [Docs.get_set]
        simp only [latest]
        by_cases hn : n = u.name
        · simp [hn]
        · have : ¬ u.name = n := fun e => hn e.symm
          simp [hn, this, ha n]
  | close u =>
    refine ⟨d.erase u.name, by simp [step, specOut], ?_⟩
    intro n
    rw [Docs.get_erase]
    simp only [latest]
    by_cases hn : n = u.name
    · simp [hn]
    · have : ¬ u.name = n := fun e => hn e.symm
      simp [hn, this, ha n]
  | definition u line ch =>
    refine ⟨d, ?_, fun n => by simp [latest, ha n]⟩
    simp only [step, specOut, ha u.name]
    cases latest u.name past with
    | none => rfl
    | some doc =>
      simp only
      cases definition e.mode doc.content (e.idents doc.content) line ch <;> rfl

theorem step_crash (e : Env) (d : Docs) (op : Op) (hc : Crashes e op) : step e d op = none := by
  cases op with
  | openDoc u v text => simp only [Crashes] at hc; simp [step, store, hc]
  | change u v changes =>
    cases changes with
    | nil => simp only [Crashes] at hc; simp [step, hc]
    | cons text rest => simp only [Crashes] at hc; simp [step, store, hc]
  | close u => exact absurd hc id
  | definition u line ch => exact absurd hc id

theorem step_some (e : Env) (d : Docs) (op : Op) (hc : ¬ Crashes e op) : ∃ p, step e d op = some p := by
  cases op with
  | openDoc u v text =>
    simp only [Crashes] at hc
    cases ht : typecheck e.mode text (e.problems text) with
    | none => exact absurd ht hc
    | some rs => simp [step, store, ht]
  | change u v changes =>
    cases changes with
    | nil =>
      simp only [Crashes] at hc
      have : e.mode.emptyIgnored = true := by simpa using hc
      simp [step, this]
    | cons text rest =>
      simp only [Crashes] at hc
      cases ht : typecheck e.mode text (e.problems text) with
      | none => exact absurd ht hc
      | some rs => simp [step, store, ht]
  | close u => simp [step]
  | definition u line ch =>
    simp only [step]
    cases d.get u.name with
    | none => exact ⟨_, rfl⟩
    | some doc =>
      simp only
      cases definition e.mode doc.content (e.idents doc.content) line ch <;> exact ⟨_, rfl⟩

theorem run_spec (e : Env) (ops : List Op) : ∀ (d : Docs) (past : List Op), Agrees d past →
    (∀ op ∈ ops, ¬ Crashes e op) → run e d ops = (specRun e past ops, true) := by
  induction ops with
  | nil => intro d past _ _; rfl
  | cons op ops ih =>
    intro d past ha hc
    obtain ⟨d', hs, ha'⟩ := step_spec e d past op ha (hc op (by simp))
    simp only [run, hs, specRun]
    rw [ih d' (op :: past) ha' (fun o ho => hc o (by simp [ho]))]

theorem run_alive_iff (e : Env) (ops : List Op) : ∀ (d : Docs),
    (run e d ops).2 = true ↔ ∀ op ∈ ops, ¬ Crashes e op := by
  induction ops with
  | nil => intro d; simp [run]
  | cons op ops ih =>
    intro d
    by_cases hc : Crashes e op
    · simp only [run, step_crash e d op hc]
      constructor
      · intro h; exact nomatch h
      · intro h; exact absurd hc (h op (by simp))
    · cases hs : step e d op with
      | none =>
        obtain ⟨p, hp⟩ := step_some e d op hc
        rw [hs] at hp; exact nomatch hp
      | some p =>
        obtain ⟨d', out⟩ := p
        simp only [run, hs]
        rw [ih d']
        constructor
        · intro h o ho
          simp only [List.mem_cons] at ho
          rcases ho with rfl | ho
          · exact hc
          · exact h o ho
        · intro h o ho; exact h o (by simp [ho])

end TmVerif.LS
