import TmVerif.Proofs.LRXInv
/-!
Cancellation (C29): the run with `cancelAt = k` against the run with `cancelAt = 0`, and the bound on
the number of shifts after the cancellation.
-/
namespace TmVerif.LRX
open TmVerif.LR

theorem xrunLoop_succ_fin {x : XTables} {inp : Input} {fin : Int} {stop : Bool} {k n : Nat} {c : XCfg}
    (h : c.state = fin) : xrunLoop x inp fin stop k (n + 1) c = (.accept, c) := by
  rw [xrunLoop, if_pos h]

theorem xrunLoop_succ_cont {x : XTables} {inp : Input} {fin : Int} {stop : Bool} {k n : Nat} {c c' : XCfg}
    (h : c.state ≠ fin) (hs : xstep x inp fin stop k c = .cont c') :
    xrunLoop x inp fin stop k (n + 1) c = xrunLoop x inp fin stop k n c' := by
  rw [xrunLoop, if_neg h, hs]

theorem xrunLoop_succ_done {x : XTables} {inp : Input} {fin : Int} {stop : Bool} {k n : Nat} {c c' : XCfg}
    {r : XResult} (h : c.state ≠ fin) (hs : xstep x inp fin stop k c = .done r c') :
    xrunLoop x inp fin stop k (n + 1) c = (r, c') := by
  rw [xrunLoop, if_neg h, hs]

theorem xrunLoop_cancel (x : XTables) (inp : Input) (fin : Int) (stop : Bool) (k : Nat) (fuel : Nat)
    (c : XCfg) :
    xrunLoop x inp fin stop k fuel c = xrunLoop x inp fin stop 0 fuel c ∨
      ((xrunLoop x inp fin stop k fuel c).1 = .cancelled ∧
        (xrunLoop x inp fin stop k fuel c).2.evs <:+ (xrunLoop x inp fin stop 0 fuel c).2.evs) := by
  induction fuel generalizing c with
  | zero => exact .inl rfl
  | succ n ih =>
    by_cases hfin : c.state = fin
    · left; rw [xrunLoop_succ_fin hfin, xrunLoop_succ_fin hfin]
    · rcases xstep_cancel x inp fin stop k c with h | ⟨c', h, he⟩
      · cases hs : xstep x inp fin stop 0 c with
        | cont c' =>
          rw [xrunLoop_succ_cont hfin (h.trans hs), xrunLoop_succ_cont hfin hs]
          exact ih c'
        | done r c' =>
          rw [xrunLoop_succ_done hfin (h.trans hs), xrunLoop_succ_done hfin hs]
          exact .inl rfl
      · right
        rw [xrunLoop_succ_done hfin h]
        refine ⟨rfl, ?_⟩
        show c'.evs <:+ _
        rw [he]
        exact (xrunLoop_moves x inp fin stop 0 (n + 1) c).evs_suffix

end TmVerif.LRX
