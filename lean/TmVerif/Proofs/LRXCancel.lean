import TmVerif.Proofs.LRXInv
/-!
Cancellation (C29): the run with `cancelAt = k` against the run with `cancelAt = 0`, and the bound on
the number of shifts after the cancellation.
-/
namespace TmVerif.LRX
open TmVerif.LR

theorem xrunLoop_succ_fin {x : XTables} {inp : Input} {fin : Int} {stop : Bool} {k n : Nat} {c : XCfg}
    (h : c.state = fin) : xrunLoop x inp fin stop k (n + 1) c = (.accept, c) := by
  rw [xrunLoop, if_pos h]

theorem xrunLoop_succ_cont {x : XTables} {inp : Input} {fin : Int} {stop : Bool} {k n : Nat} {c c' : XCfg}
    (h : c.state ≠ fin) (hs : xstep x inp fin stop k c = .cont c') :
    xrunLoop x inp fin stop k (n + 1) c = xrunLoop x inp fin stop k n c' := by
  rw [xrunLoop, if_neg h, hs]

theorem xrunLoop_succ_done {x : XTables} {inp : Input} {fin : Int} {stop : Bool} {k n : Nat} {c c' : XCfg}
    {r : XResult} (h : c.state ≠ fin) (hs : xstep x inp fin stop k c = .done r c') :
    xrunLoop x inp fin stop k (n + 1) c = (r, c') := by
  rw [xrunLoop, if_neg h, hs]

theorem xrunLoop_cancel (x : XTables) (inp : Input) (fin : Int) (stop : Bool) (k : Nat) (fuel : Nat)
    (c : XCfg) :
    xrunLoop x inp fin stop k fuel c = xrunLoop x inp fin stop 0 fuel c ∨
      ((xrunLoop x inp fin stop k fuel c).1 = .cancelled ∧
        (xrunLoop x inp fin stop k fuel c).2.evs <:+ (xrunLoop x inp fin stop 0 fuel c).2.evs) := by
  induction fuel generalizing c with
  | zero => exact .inl rfl
  | succ n ih =>
    by_cases hfin : c.state = fin
    · left; rw [xrunLoop_succ_fin hfin, xrunLoop_succ_fin hfin]
    · rcases xstep_cancel x inp fin stop k c with h | ⟨c', h, he⟩
      · cases hs : xstep x inp fin stop 0 c with
        | cont c' =>
          rw [xrunLoop_succ_cont hfin (h.trans hs), xrunLoop_succ_cont hfin hs]
          exact ih c'
        | done r c' =>
          rw [xrunLoop_succ_done hfin (h.trans hs), xrunLoop_succ_done hfin hs]
          exact .inl rfl
      · right
        rw [xrunLoop_succ_done hfin h]
        refine ⟨rfl, ?_⟩
        show c'.evs <:+ _
        rw [he]
        exact (xrunLoop_moves x inp fin stop 0 (n + 1) c).evs_suffix

/-! ### the shift counter -/

theorem xdecode_nodeCount {x : XTables} {inp : Input} {c c1 : XCfg} {a : Act}
    (h : xdecode x inp c = some (c1, a)) : c1.nodeCount = c.nodeCount :=
  nodeCount_congr (xdecode_evs h)

/-- One pre-step leaves `shiftCounter` alone or increments it; once the context is cancelled
(`nodeCount ≥ k`), an increment to a multiple of 512 ends the run with `cancelled`. -/
theorem xpre_sc (x : XTables) (inp : Input) (k : Nat) (c : XCfg)
    (hc : x.cancellable = true) (hk : k ≠ 0) (hn : c.nodeCount ≥ k) :
    (xpre x inp k c).cfg.shiftCounter = c.shiftCounter ∨
      ((xpre x inp k c).cfg.shiftCounter = c.shiftCounter + 1 ∧
        ((c.shiftCounter + 1) % 512 = 0 → ∃ c', xpre x inp k c = .done .cancelled c')) := by
  unfold xpre
  split
  · exact .inl rfl
  · next c1 rule h =>
    left
    rw [(xreducePre_moves x inp (false, false) c1 rule).shiftCounter_eq, xdecode_shiftCounter h]
  · next c1 q h =>
    have hs := xdecode_shiftCounter h
    have hn1 : c1.nodeCount ≥ k := by rw [xdecode_nodeCount h]; exact hn
    unfold xshiftPre
    by_cases hp : x.cancellable = true ∧ pollHit k c1
    · right
      rw [if_pos hp]
      exact ⟨by show c1.shiftCounter + 1 = _; rw [hs], fun _ => ⟨_, rfl⟩⟩
    · rw [if_neg hp]
      split
      · exact .inl hs
      · right
        refine ⟨by show (if x.cancellable = true then c1.shiftCounter + 1 else c1.shiftCounter) = _;
                   rw [if_pos hc, hs], ?_⟩
        intro hm
        exact absurd ⟨hc, by rw [hs]; exact hm, hk, hn1⟩ hp
  · next c1 h =>
    have hs := xdecode_shiftCounter h
    have hn1 : c1.nodeCount ≥ k := by rw [xdecode_nodeCount h]; exact hn
    unfold xerrorPre
    by_cases hf : failedShift x c1 = true
    · rw [if_pos hf]
      by_cases hp : pollHit k c1
      · right
        rw [if_pos hp]
        exact ⟨by show c1.shiftCounter + 1 = _; rw [hs], fun _ => ⟨_, rfl⟩⟩
      · right
        rw [if_neg hp]
        refine ⟨by show c1.shiftCounter + 1 = _; rw [hs], ?_⟩
        intro hm
        exact absurd ⟨by rw [hs]; exact hm, hk, hn1⟩ hp
    · rw [if_neg hf]
      exact .inl hs

theorem XPre.run_shiftCounter {x : XTables} (inp : Input) (fin : Int) (stop : Bool) (p : XPre) :
    (p.run (onError x inp fin stop)).cfg.shiftCounter = p.cfg.shiftCounter := by
  cases p with
  | cont c => rfl
  | done r c => rfl
  | err c => exact (onError_moves inp false fin stop c).shiftCounter_eq

theorem xstep_sc (x : XTables) (inp : Input) (fin : Int) (stop : Bool) (k : Nat) (c : XCfg)
    (hc : x.cancellable = true) (hk : k ≠ 0) (hn : c.nodeCount ≥ k) :
    (xstep x inp fin stop k c).cfg.shiftCounter = c.shiftCounter ∨
      ((xstep x inp fin stop k c).cfg.shiftCounter = c.shiftCounter + 1 ∧
        ((c.shiftCounter + 1) % 512 = 0 → ∃ c', xstep x inp fin stop k c = .done .cancelled c')) := by
  rw [xstep_pre, XPre.run_shiftCounter]
  rcases xpre_sc x inp k c hc hk hn with h | ⟨h, hm⟩
  · exact .inl h
  · refine .inr ⟨h, fun h5 => ?_⟩
    obtain ⟨c', hc'⟩ := hm h5
    exact ⟨c', by rw [hc']; rfl⟩

theorem xrunLoop_sc_bound (x : XTables) (inp : Input) (fin : Int) (stop : Bool) (k : Nat)
    (hc : x.cancellable = true) (hk : k ≠ 0) (fuel : Nat) (c : XCfg) (B : Nat)
    (hB : B % 512 = 0) (hlt : c.shiftCounter < B) (hn : c.nodeCount ≥ k) :
    (xrunLoop x inp fin stop k fuel c).2.shiftCounter ≤ B ∧
      ((xrunLoop x inp fin stop k fuel c).2.shiftCounter = B →
        (xrunLoop x inp fin stop k fuel c).1 = .cancelled) := by
  induction fuel generalizing c with
  | zero =>
    show c.shiftCounter ≤ B ∧ (c.shiftCounter = B → _)
    exact ⟨Nat.le_of_lt hlt, fun h => absurd h (Nat.ne_of_lt hlt)⟩
  | succ n ih =>
    by_cases hfin : c.state = fin
    · rw [xrunLoop_succ_fin hfin]
      show c.shiftCounter ≤ B ∧ (c.shiftCounter = B → _)
      exact ⟨Nat.le_of_lt hlt, fun h => absurd h (Nat.ne_of_lt hlt)⟩
    · have hsc := xstep_sc x inp fin stop k c hc hk hn
      have hmv := xstep_moves x inp fin stop k c
      cases hs : xstep x inp fin stop k c with
      | cont c' =>
        rw [hs] at hsc hmv
        rw [xrunLoop_succ_cont hfin hs]
        have hn' : c'.nodeCount ≥ k := Nat.le_trans hn (nodeCount_mono hmv.evs_suffix)
        refine ih c' ?_ hn'
        rcases hsc with h | ⟨h, hm⟩
        · show c'.shiftCounter < B
          have : c'.shiftCounter = c.shiftCounter := h
          omega
        · have h' : c'.shiftCounter = c.shiftCounter + 1 := h
          have hne : (c.shiftCounter + 1) % 512 ≠ 0 := by
            intro h5
            obtain ⟨c'', hc''⟩ := hm h5
            cases hc''
          show c'.shiftCounter < B
          have : c.shiftCounter + 1 ≠ B := fun hh => hne (hh ▸ hB)
          omega
      | done r c' =>
        rw [hs] at hsc
        rw [xrunLoop_succ_done hfin hs]
        show c'.shiftCounter ≤ B ∧ (c'.shiftCounter = B → r = .cancelled)
        rcases hsc with h | ⟨h, hm⟩
        · have : c'.shiftCounter = c.shiftCounter := h
          exact ⟨by omega, fun hh => by omega⟩
        · have h' : c'.shiftCounter = c.shiftCounter + 1 := h
          refine ⟨by omega, fun hh => ?_⟩
          have h5 : (c.shiftCounter + 1) % 512 = 0 := by rw [← h', hh]; exact hB
          obtain ⟨c'', hc''⟩ := hm h5
          cases hc''
          rfl

/-! ### `cancelled` needs a cancellable parser and `cancelAt ≠ 0` -/

theorem xreduceTail_done {x : XTables} {c2 : XCfg} {rule : Int} {ln : Nat} {lhs : Int} {off endo : Nat}
    {r : XResult} {c' : XCfg} (h : xreduceTail x c2 rule ln lhs off endo = .done r c') : r = .panic := by
  unfold xreduceTail at h
  repeat' split at h
  all_goals first | (cases h; rfl) | cases h

theorem xreducePre_done {x : XTables} {inp : Input} {c1 : XCfg} {rule : Int}
    {r : XResult} {c' : XCfg} (h : xreducePre x inp c1 rule = .done r c') : r = .panic := by
  unfold xreducePre at h
  split at h
  · split at h
    · cases h; rfl
    · split at h
      · exact xreduceTail_done h
      · exact xreduceTail_done h
  · cases h; rfl

theorem failedShift_cancellable {x : XTables} {c1 : XCfg} (h : failedShift x c1 = true) :
    x.cancellable = true := by
  unfold failedShift at h
  simp only [Bool.and_eq_true] at h
  exact h.1.1

theorem xpre_cancelled {x : XTables} {inp : Input} {k : Nat} {c c' : XCfg}
    (h : xpre x inp k c = .done .cancelled c') : x.cancellable = true ∧ k ≠ 0 := by
  unfold xpre at h
  split at h
  · cases h
  · cases xreducePre_done h
  · unfold xshiftPre at h
    split at h
    · next hp => exact ⟨hp.1, hp.2.2.1⟩
    · split at h <;> cases h
  · unfold xerrorPre at h
    split at h
    · next hf =>
      split at h
      · next hp => exact ⟨failedShift_cancellable hf, hp.2.1⟩
      · cases h
    · cases h

theorem onError_ne_cancelled {x : XTables} (inp : Input) (fin : Int) (stop : Bool) (c c' : XCfg) :
    onError x inp fin stop c ≠ .done .cancelled c' := by
  intro h
  cases hr : x.recovering
  · rw [onError_eq_norec inp fin stop c hr] at h; cases h
  · rw [onError_eq_rec inp fin stop c hr] at h
    split at h
    · cases h
    · split at h <;> cases h

theorem xstep_cancelled {x : XTables} {inp : Input} {fin : Int} {stop : Bool} {k : Nat} {c c' : XCfg}
    (h : xstep x inp fin stop k c = .done .cancelled c') : x.cancellable = true ∧ k ≠ 0 := by
  rw [xstep_pre] at h
  cases hp : xpre x inp k c with
  | cont c1 => rw [hp] at h; cases h
  | done r c1 =>
    rw [hp] at h
    cases h
    exact xpre_cancelled hp
  | err c1 => rw [hp] at h; exact absurd h (onError_ne_cancelled inp fin stop c1 c')

theorem xrunLoop_cancelled {x : XTables} {inp : Input} {fin : Int} {stop : Bool} {k : Nat} (fuel : Nat)
    (c : XCfg) (h : (xrunLoop x inp fin stop k fuel c).1 = .cancelled) :
    x.cancellable = true ∧ k ≠ 0 := by
  induction fuel generalizing c with
  | zero => cases h
  | succ n ih =>
    by_cases hfin : c.state = fin
    · rw [xrunLoop_succ_fin hfin] at h; cases h
    · cases hs : xstep x inp fin stop k c with
      | cont c' => rw [xrunLoop_succ_cont hfin hs] at h; exact ih c' h
      | done r c' =>
        rw [xrunLoop_succ_done hfin hs] at h
        have : r = .cancelled := h
        subst this
        exact xstep_cancelled hs

end TmVerif.LRX
