import TmVerif.Proofs.DiffMyersOverlap
/-!
C27, Myers search, part 7: the rounds of `middle`.
-/
namespace TmVerif.Diff
set_option linter.unusedSectionVars false
variable {α : Type} [DecidableEq α]

/-! ### the equality tests of the two directions -/

theorem eqF_spec (a b : List α) : EqSpec (midEnv a.toArray b.toArray).eqF a b := by
  intro x y hx hy
  simp [midEnv, hx, hy]

theorem eqR_spec (a b : List α) : EqSpec (midEnv a.toArray b.toArray).eqR a.reverse b.reverse := by
  intro x y hx hy
  simp only [List.length_reverse] at hx hy
  rw [List.getElem_reverse, List.getElem_reverse]
  have e1 : a.length - x - 1 = a.length - 1 - x := by omega
  have e2 : b.length - y - 1 = b.length - 1 - y := by omega
  have h1 : a.length - 1 - x < a.length := by omega
  have h2 : b.length - 1 - y < b.length := by omega
  simp only [midEnv, List.size_toArray, decide_eq_true_eq, List.getElem?_toArray, e1, e2]
  rw [List.getElem?_eq_getElem h1, List.getElem?_eq_getElem h2]
  simp

/-! ### enumeration of the diagonals of a round -/

theorem inRange_of_index (m n d i : Nat)
    (hi : i < roundCount (roundStart n d) (roundLimit m d)) :
    InRange m n d (roundStart n d + 2 * (i : Int)) := by
  unfold roundCount at hi
  unfold InRange
  unfold roundStart roundLimit at *
  split at hi <;> split at hi <;> split at hi <;> omega

theorem roundStart_parity (n d : Nat) : (roundStart n d - (d : Int)) % 2 = 0 := by
  unfold roundStart; split <;> omega

theorem index_of_inRange (m n d : Nat) (k : Int) (h : InRange m n d k) :
    ∃ i : Nat, i < roundCount (roundStart n d) (roundLimit m d) ∧
      k = roundStart n d + 2 * (i : Int) := by
  obtain ⟨h1, h2, h3⟩ := h
  have hp := roundStart_parity n d
  generalize roundStart n d = s at *
  generalize roundLimit m d = l at *
  refine ⟨((k - s) / 2).toNat, ?_, by omega⟩
  unfold roundCount
  split <;> omega

theorem roundStart_ge (n d : Nat) : -(d : Int) ≤ roundStart n d := by
  unfold roundStart; split <;> omega

theorem inRange_zero (m n : Nat) (k : Int) (h : InRange m n 0 k) : k = 0 := by
  have := inRange_abs m n 0 k h
  omega

/-! ### what a call of `middle` fixes -/

structure EnvOK (e : MidEnv) (a b : List α) : Prop where
  hm : e.m = a.length
  hn : e.n = b.length
  hbase : e.base = (a.length + b.length + 2) / 2
  hdelta : e.delta = (b.length : Int) - a.length
  hodd : e.odd = true ↔ e.delta % 2 ≠ 0
  hF : EqSpec e.eqF a b
  hR : EqSpec e.eqR a.reverse b.reverse

theorem midEnv_ok (a b : List α) : EnvOK (midEnv a.toArray b.toArray) a b where
  hm := by simp [midEnv]
  hn := by simp [midEnv]
  hbase := by simp [midEnv]
  hdelta := by simp [midEnv]
  hodd := by simp [midEnv]
  hF := eqF_spec a b
  hR := eqR_spec a b

/-- the values a round computes are the furthest reaching points -/
theorem round_fr (eqAt : Nat → Nat → Bool) (A B : List α) (hs : EqSpec eqAt A B) (base d : Nat)
    (v : Array Nat) (h0 : d = 0 → v.getD (vidx base 1) 0 = 0)
    (hsucc : ∀ d0, d = d0 + 1 → VInv A B base v d0) (k : Int)
    (hk : InRange A.length B.length d k) :
    FR A B d k (stepX eqAt A.length B.length base d v k) := by
  cases d with
  | zero =>
    have := inRange_zero _ _ _ hk
    subst this
    exact stepX_fr_zero eqAt A B hs base v (h0 rfl)
  | succ d0 => exact stepX_fr eqAt A B hs base d0 v k (hsucc d0 rfl) hk

/-- one loop over the diagonals of round `d`, started on the array `v0` -/
theorem loop_facts (eqAt : Nat → Nat → Bool) (m n base d : Nat)
    (check : Int → Nat → Option (Int × Int × Int)) (v0 : Array Nat) (hd : d ≤ base) :
    (diagLoop eqAt m n base d check (roundCount (roundStart n d) (roundLimit m d))
        (roundStart n d) v0).1.size = v0.size ∧
    ((diagLoop eqAt m n base d check (roundCount (roundStart n d) (roundLimit m d))
        (roundStart n d) v0).2 = none →
      (∀ k, InRange m n d k → check k (stepX eqAt m n base d v0 k) = none) ∧
      (∀ k, InRange m n d k → vidx base k < v0.size →
        (diagLoop eqAt m n base d check (roundCount (roundStart n d) (roundLimit m d))
          (roundStart n d) v0).1.getD (vidx base k) 0 = stepX eqAt m n base d v0 k)) ∧
    (∀ res, (diagLoop eqAt m n base d check (roundCount (roundStart n d) (roundLimit m d))
        (roundStart n d) v0).2 = some res →
      ∃ k, InRange m n d k ∧ check k (stepX eqAt m n base d v0 k) = some res) := by
  obtain ⟨s1, _, s3, s4⟩ := diagLoop_spec eqAt m n base d check v0 hd
    (roundCount (roundStart n d) (roundLimit m d)) (roundStart n d) v0 (roundStart_ge n d)
    (fun _ _ _ => rfl)
  refine ⟨s1, ?_, ?_⟩
  · intro hnone
    obtain ⟨t1, t2⟩ := s3 hnone
    constructor
    · intro k hk
      obtain ⟨i, hi, rfl⟩ := index_of_inRange m n d k hk
      exact t1 i hi
    · intro k hk hb
      obtain ⟨i, hi, rfl⟩ := index_of_inRange m n d k hk
      exact t2 i hi hb
  · intro res h
    obtain ⟨i, hi, c1, _⟩ := s4 res h
    exact ⟨_, inRange_of_index m n d i hi, c1⟩

end TmVerif.Diff
