import TmVerif.Proofs.DiffMyersTop
/-!
C27, Myers search, part 10: `lcs` always returns (`log.Fatal` in `trace`/`middle`, an out-of-range
split and the fuel of the model are never reached).
-/
namespace TmVerif.Diff
set_option linter.unusedSectionVars false
variable {α : Type} [DecidableEq α]

/-! ### `NoMatch` under `take`/`drop`/`reverse` -/

theorem noMatch_take (a b : List α) (i j x y : Nat) (h : NoMatch a b x y) : NoMatch (a.take i) (b.take j) x y := by
  intro ⟨h1, h2, he⟩
  simp only [List.length_take] at h1 h2
  apply h
  refine ⟨by omega, by omega, ?_⟩
  simpa [List.getElem_take] using he

theorem noMatch_drop (a b : List α) (p q x y : Nat) (h : NoMatch a b (p + x) (q + y)) :
    NoMatch (a.drop p) (b.drop q) x y := by
  intro ⟨h1, h2, he⟩
  simp only [List.length_drop] at h1 h2
  apply h
  refine ⟨by omega, by omega, ?_⟩
  simpa [List.getElem_drop] using he

theorem noMatch_of_drop (a b : List α) (p q x y : Nat) (h : NoMatch (a.drop p) (b.drop q) x y) :
    NoMatch a b (p + x) (q + y) := by
  intro ⟨h1, h2, he⟩
  apply h
  refine ⟨by simp; omega, by simp; omega, ?_⟩
  simpa [List.getElem_drop] using he

/-! ### where the comparison loops stop -/

theorem commonPrefix_stop (a b : List α) :
    NoMatch a b (commonPrefix a b) (commonPrefix a b) := by
  fun_induction commonPrefix a b with
  | case1 x xs ys ih =>
    intro ⟨h1, h2, he⟩
    apply ih
    simp only [List.length_cons] at h1 h2
    exact ⟨by omega, by omega, by simpa using he⟩
  | case2 x xs y ys hne =>
    intro ⟨h1, h2, he⟩
    simp at he
    exact hne he
  | case3 a b hn =>
    intro ⟨h1, h2, he⟩
    cases a with
    | nil => simp at h1
    | cons x xs =>
      cases b with
      | nil => simp at h2
      | cons y ys => exact hn x xs y ys rfl rfl

theorem snakeLen_stop (mx : Nat) (xs ys : List α) :
    snakeLen mx xs ys = mx ∨ NoMatch xs ys (snakeLen mx xs ys) (snakeLen mx xs ys) := by
  fun_induction snakeLen mx xs ys with
  | case1 mx x xs ys ih =>
    rcases ih with ih | ih
    · left; omega
    · right
      intro ⟨h1, h2, he⟩
      apply ih
      simp only [List.length_cons] at h1 h2
      exact ⟨by omega, by omega, by simpa using he⟩
  | case2 mx x xs y ys hne =>
    right
    intro ⟨h1, h2, he⟩
    simp at he
    exact hne he
  | case3 mx xs ys hn =>
    cases mx with
    | zero => left; rfl
    | succ mx =>
      right
      intro ⟨h1, h2, he⟩
      cases xs with
      | nil => simp at h1
      | cons x xs =>
        cases ys with
        | nil => simp at h2
        | cons y ys => exact hn mx x xs y ys rfl rfl rfl

/-! ### the inputs `trace` is called with -/

/-- no common first element and no common last element (or one side is empty) -/
def Pre (a b : List α) : Prop :=
  a = [] ∨ b = [] ∨ (NoMatch a b 0 0 ∧ NoMatch a b (a.length - 1) (b.length - 1))

/-- such inputs are at distance at least 2 -/
theorem dist_ge_two (a b : List α) (ha : 0 < a.length) (hb : 0 < b.length)
    (h0 : NoMatch a b 0 0) (h1 : NoMatch a b (a.length - 1) (b.length - 1)) :
    2 + 2 * lcsRec a b ≤ a.length + b.length := by
  apply Classical.byContradiction
  intro hlt
  have hd : Dle a b 1 (a.length - 1 + 1) (b.length - 1 + 1) := by
    have e1 : a.length - 1 + 1 = a.length := by omega
    have e2 : b.length - 1 + 1 = b.length := by omega
    unfold Dle
    rw [e1, e2, Lp_full]
    omega
  have hz : ∀ x : Nat, 0 < x → ¬ Dle a b 0 x x := by
    intro x hx hdx
    have e : x = 0 + 1 + (x - 1) := by omega
    have : Dle a b 0 (0 + 1 + (x - 1)) (0 + 1 + (x - 1)) := by rw [← e]; exact hdx
    exact dle_nomatch_zero a b 0 0 h0 (dle_diag_n a b 0 (0 + 1) (0 + 1) (x - 1) this)
  rcases dle_nomatch_succ a b 0 _ _ h1 hd with h | h
  · have hb' := dle_diagonal_bound a b 0 _ _ h
    have e : a.length - 1 = b.length - 1 + 1 := by omega
    rw [e] at h
    exact hz _ (by omega) h
  · have hb' := dle_diagonal_bound a b 0 _ _ h
    have e : b.length - 1 = a.length - 1 + 1 := by omega
    rw [e] at h
    exact hz _ (by omega) h

/-- the search returns natural numbers with the facts of `SplitFacts` -/
theorem middleRaw_total (a b : List α) :
    ∃ ai bi mx : Nat, middleRaw a b = some (ai, bi, mx) ∧
      ∃ (d d' : Nat) (k : Int), (d = d' ∨ d = d' + 1) ∧
        a.length + b.length = d + d' + 2 * lcsRec a b ∧ (ai : Int) - bi = k ∧
        SplitFacts a b d d' k (ai + mx) ai bi := by
  obtain ⟨res, hres, h1, h2, h3, hg⟩ := midLoop_result a b
  obtain ⟨x, y, s⟩ := res
  simp only at h1 h2 h3
  refine ⟨x.toNat, y.toNat, s.toNat, ?_, hg x.toNat y.toNat s.toNat (by simp only; omega)
    (by simp only; omega) (by simp only; omega)⟩
  unfold middleRaw middleRawArr
  simp only
  rw [hres]
  simp only
  rw [if_neg (by omega)]

theorem length_ge_two (a : List α) (h1 : a = [] → False) (h2 : ∀ x, a = [x] → False) :
    2 ≤ a.length := by
  cases a with
  | nil => exact absurd rfl h1
  | cons x a =>
    cases a with
    | nil => exact absurd rfl (h2 x)
    | cons y a => simp

/-- `trace` returns on every input without common first/last element, with the fuel of the model -/
theorem trace_total (fuel : Nat) (a b : List α) (hf : a.length + b.length < fuel) (hp : Pre a b) :
    ∃ t, traceWith middleRaw fuel a b = some t := by
  induction fuel generalizing a b with
  | zero => omega
  | succ fuel ih =>
    unfold traceWith
    split
    case h_1 => exact ⟨_, rfl⟩
    case h_2 => exact ⟨_, rfl⟩
    case h_3 => split <;> exact ⟨_, rfl⟩
    case h_4 => split <;> exact ⟨_, rfl⟩
    case h_5 hna hna1 hnb hnb1 =>
      have hla := length_ge_two a hna hna1
      have hlb := length_ge_two b hnb hnb1
      obtain ⟨hnm0, hnm1⟩ : NoMatch a b 0 0 ∧ NoMatch a b (a.length - 1) (b.length - 1) := by
        rcases hp with h | h | h
        · exact absurd h hna
        · exact absurd h hnb
        · exact h
      have hdist := dist_ge_two a b (by omega) (by omega) hnm0 hnm1
      obtain ⟨ai, bi, mx, hmid, d, d', k, hdd, htot, hk, hsf⟩ := middleRaw_total a b
      obtain ⟨s1, s2, s3, s4, s5, s6, s7⟩ := hsf
      rw [hmid]
      simp only
      have hlp0 : Lp a b 0 0 = 0 := Lp_zero_left a b 0
      have hcorner : ¬ ((ai = a.length ∧ bi = b.length) ∨ (ai = 0 ∧ bi = 0)) := by
        intro h
        rcases h with ⟨h1, h2⟩ | ⟨h1, h2⟩
        · subst h1; subst h2
          rw [Lp_full] at s4
          omega
        · subst h1; subst h2
          rw [hlp0] at s4
          omega
      rw [if_neg (by omega), if_neg hcorner]
      -- the snake
      generalize hs : snakeLen mx (a.drop ai) (b.drop bi) = s
      have hstop := snakeLen_stop mx (a.drop ai) (b.drop bi)
      rw [hs] at hstop
      have hsn : NoMatch a b (ai + s) (bi + s) := by
        rcases hstop with h | h
        · subst h; exact s7 (bi + s) (by omega)
        · exact noMatch_of_drop a b ai bi s s h
      -- left part
      have hleft : Pre (a.take ai) (b.take bi) := by
        by_cases h1 : ai = 0
        · left; simp [h1]
        · by_cases h2 : bi = 0
          · right; left; simp [h2]
          · right; right
            refine ⟨noMatch_take a b ai bi 0 0 hnm0, ?_⟩
            have e1 : (a.take ai).length - 1 = ai - 1 := by simp; omega
            have e2 : (b.take bi).length - 1 = bi - 1 := by simp; omega
            rw [e1, e2]
            exact noMatch_take a b ai bi _ _ (s5 (by omega) (by omega))
      obtain ⟨l, hl⟩ := ih (a.take ai) (b.take bi) (by simp; omega) hleft
      rw [hl]
      simp only
      -- right part
      have hright : Pre (a.drop (ai + s)) (b.drop (bi + s)) := by
        by_cases h1 : a.length ≤ ai + s
        · left; exact List.drop_eq_nil_of_le h1
        · by_cases h2 : b.length ≤ bi + s
          · right; left; exact List.drop_eq_nil_of_le h2
          · right; right
            refine ⟨noMatch_drop a b _ _ 0 0 (by simpa using hsn), ?_⟩
            apply noMatch_drop
            have e1 : ai + s + ((a.drop (ai + s)).length - 1) = a.length - 1 := by simp; omega
            have e2 : bi + s + ((b.drop (bi + s)).length - 1) = b.length - 1 := by simp; omega
            rw [e1, e2]
            exact hnm1
      obtain ⟨r, hr⟩ := ih (a.drop (ai + s)) (b.drop (bi + s)) (by simp; omega) hright
      rw [hr]
      exact ⟨_, rfl⟩

theorem noMatch_of_reverse (a b : List α) (s : Nat) (hs1 : s < a.length) (hs2 : s < b.length)
    (h : NoMatch a.reverse b.reverse s s) :
    NoMatch a b (a.length - s - 1) (b.length - s - 1) := by
  intro ⟨h1, h2, he⟩
  apply h
  refine ⟨by simpa using hs1, by simpa using hs2, ?_⟩
  rw [List.getElem_reverse, List.getElem_reverse]
  have i1 : a.length - 1 - s = a.length - s - 1 := by omega
  have i2 : b.length - 1 - s = b.length - s - 1 := by omega
  simp only [i1, i2]
  exact he

/-- `lcs` (the mirror of the Go function) returns an edit script for every pair of inputs. -/
theorem lcs_total (a b : List α) : ∃ cs, lcs a b = some cs := by
  unfold lcs lcsWith lcsRawWith
  simp only
  generalize hp : commonPrefix a b = p
  have hstop := commonPrefix_stop a b
  rw [hp] at hstop
  generalize hs : commonSuffix (a.drop p) (b.drop p) = s
  have hstop2 := commonPrefix_stop (a.drop p).reverse (b.drop p).reverse
  have hsle := commonPrefix_spec (a.drop p).reverse (b.drop p).reverse
  unfold commonSuffix at hs
  rw [hs] at hstop2 hsle
  simp only [List.length_reverse] at hsle
  have hpre : Pre ((a.drop p).take ((a.drop p).length - s)) ((b.drop p).take ((b.drop p).length - s)) := by
    by_cases h1 : (a.drop p).length - s = 0
    · left; rw [h1]; rfl
    · by_cases h2 : (b.drop p).length - s = 0
      · right; left; rw [h2]; rfl
      · right; right
        refine ⟨noMatch_take _ _ _ _ 0 0 (noMatch_drop a b p p 0 0 (by simpa using hstop)), ?_⟩
        have e1 : ((a.drop p).take ((a.drop p).length - s)).length - 1 = (a.drop p).length - s - 1 := by
          simp
        have e2 : ((b.drop p).take ((b.drop p).length - s)).length - 1 = (b.drop p).length - s - 1 := by
          simp
        rw [e1, e2]
        exact noMatch_take _ _ _ _ _ _ (noMatch_of_reverse _ _ s (by omega) (by omega) hstop2)
  obtain ⟨t, ht⟩ := trace_total _ _ _ (Nat.lt_succ_self _) hpre
  rw [ht]
  exact ⟨_, rfl⟩

end TmVerif.Diff
