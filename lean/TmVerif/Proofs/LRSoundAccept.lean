/-
Helper lemmas for C01, part 4: what the stack looks like in the final state, and what the
consumed token string is.
-/
import TmVerif.Proofs.LRSoundStep
namespace TmVerif.LRSound
open TmVerif.LR TmVerif.CFG

/-! ### EOI does not occur in yields of nonterminals -/

mutual
theorem derives_no_zero {g : Grammar} (hwf : WfFacts g) :
    ∀ {X : Nat} {u : List Nat}, Derives g X u → 0 < X → 0 ∉ u
  | _, _, .term a _, h => by simp; omega
  | _, _, .rule r w hm hs, _ =>
    derivesSeq_no_zero hwf hs (fun s hs => ((hwf.rules r hm).2.2 s hs).1)
theorem derivesSeq_no_zero {g : Grammar} (hwf : WfFacts g) :
    ∀ {α : List Nat} {w : List Nat}, DerivesSeq g α w → (∀ s ∈ α, 0 < s) → 0 ∉ w
  | _, _, .nil, _ => by simp
  | _, _, .cons X α u v hX hα, h => by
    have h1 := derives_no_zero hwf hX (h X (by simp))
    have h2 := derivesSeq_no_zero hwf hα (fun s hs => h s (by simp [hs]))
    simp [h1, h2]
end

theorem derives_zero {g : Grammar} (hwf : WfFacts g) {y : List Nat} (h : Derives g 0 y) :
    y = [0] := by
  generalize hX : (0 : Nat) = X at h
  cases h with
  | term a _ => rfl
  | rule r w hm _ =>
    have := (hwf.rules r hm).1
    have := hwf.nTermsPos
    omega

/-! ### the stack in the final state -/

theorem finalOk_elim {g : Grammar} {t : Tables} {cert : Cert} {i : Nat}
    (h : finalOk g t cert i = true) :
    ∃ (gi : GInput) (f l : Int), g.inputs[i]? = some gi ∧ t.finalStates[i]? = some f ∧
      gotoState t i gi.sym = some l ∧ (g.inputs.size : Int) ≤ l ∧ (g.inputs.size : Int) ≤ f ∧
      reachOk t cert i = true ∧
      (∀ p x q, (p, x, q) ∈ edges t → p ∈ reachOf cert i → q = l → p = i ∧ x = gi.sym) ∧
      ((gi.eoi = true ∧ f ≠ l ∧
          ∀ p x q, (p, x, q) ∈ edges t → p ∈ reachOf cert i → q = f → (p : Int) = l ∧ x = 0) ∨
       (gi.eoi = false ∧ f = l)) := by
  unfold finalOk at h
  split at h
  · rename_i gi f hgi hf
    split at h
    · rename_i l hl
      simp only [Bool.and_eq_true, decide_eq_true_eq, List.all_eq_true] at h
      obtain ⟨⟨⟨⟨h1, h2⟩, hr⟩, h3⟩, h4⟩ := h
      refine ⟨gi, f, l, hgi, hf, hl, h1, h2, hr, ?_, ?_⟩
      · intro p x q hm hp hq
        have := h3 (p, x, q) hm
        simp only [Bool.or_eq_true, Bool.not_eq_true', List.contains_eq_mem, decide_eq_false_iff_not,
          bne_iff_ne, ne_eq, Bool.and_eq_true, beq_iff_eq] at this
        rcases this with (h | h) | h
        · exact absurd hp h
        · exact absurd hq h
        · exact h
      · cases he : gi.eoi with
        | true =>
          rw [he] at h4
          simp only [if_true, Bool.and_eq_true, decide_eq_true_eq, List.all_eq_true] at h4
          refine Or.inl ⟨rfl, h4.1, ?_⟩
          intro p x q hm hp hq
          have := h4.2 (p, x, q) hm
          simp only [Bool.or_eq_true, Bool.not_eq_true', List.contains_eq_mem,
            decide_eq_false_iff_not, bne_iff_ne, ne_eq, Bool.and_eq_true, beq_iff_eq] at this
          rcases this with (h | h) | h
          · exact absurd hp h
          · exact absurd hq h
          · exact h
        | false =>
          rw [he] at h4
          simp only [Bool.false_eq_true, if_false, beq_iff_eq] at h4
          exact Or.inr ⟨rfl, h4⟩
    · cases h
  · cases h

theorem reachOk_elim {t : Tables} {cert : Cert} {i : Nat} (h : reachOk t cert i = true) :
    i ∈ reachOf cert i ∧
    ∀ p x (q : Nat), (p, x, (q : Int)) ∈ edges t → p ∈ reachOf cert i → q ∈ reachOf cert i := by
  unfold reachOk at h
  simp only [Bool.and_eq_true, List.contains_eq_mem, decide_eq_true_eq, List.all_eq_true] at h
  refine ⟨h.1, ?_⟩
  intro p x q hm hp
  have := h.2 (p, x, (q : Int)) hm
  simp only [Bool.or_eq_true, Bool.not_eq_true', decide_eq_false_iff_not,
    decide_eq_true_eq, Int.toNat_natCast] at this
  rcases this with (h | h) | h
  · exact absurd hp h
  · omega
  · exact h

/-- every state on the stack is in the reachable set of the certificate -/
theorem StackOk.reach {g : Grammar} {t : Tables} {cert : Cert} {i : Nat}
    (hr : reachOk t cert i = true)
    {stk : List Entry} {s : Nat} {syms : List Int} {w : List Nat}
    (h : StackOk g t i stk s syms w) : s ∈ reachOf cert i := by
  induction h with
  | base e he => exact (reachOk_elim hr).1
  | push e rest p X q syms w y _ _ _ hE _ ih => exact (reachOk_elim hr).2 p X q (edge_mem hE) ih

/-- below an entry state there is nothing -/
theorem StackOk.entry {g : Grammar} {t : Tables} {cert : Cert} {i : Nat} (hc : CertFacts g t cert)
    {stk : List Entry} {s : Nat} {syms : List Int} {w : List Nat}
    (h : StackOk g t i stk s syms w) (hs : s < g.inputs.size) : w = [] := by
  cases h with
  | base e he => rfl
  | push e rest p X q syms w y _ _ _ hE _ =>
    obtain ⟨q', h1, h2, _, _⟩ := edgeOk_elim (edge_ok hc hE)
    omega

theorem final_yield {g : Grammar} {t : Tables} {cert : Cert} {i : Nat} (hc : CertFacts g t cert)
    (hi : i < g.inputs.size) {stk : List Entry} {s : Nat} {syms : List Int} {w : List Nat}
    (hstk : StackOk g t i stk s syms w) (f : Int) (hf : t.finalStates[i]? = some f)
    (hsf : (s : Int) = f) :
    ∃ gi u, g.inputs[i]? = some gi ∧ Derives g gi.sym u ∧
      ((gi.eoi = true ∧ w = u ++ [0]) ∨ (gi.eoi = false ∧ w = u)) := by
  obtain ⟨gi, f', l, hgi, hf', hl, hl1, hf1, hr, hedge, hcase⟩ := finalOk_elim (hc.finals i hi)
  rw [hf] at hf'
  injection hf' with hf'
  subst hf' hsf
  cases hstk with
  | base e he => omega
  | push e rest p X q syms w y hrest _ _ hE hD =>
    have hm := edge_mem hE
    have hpr := hrest.reach hr
    rcases hcase with ⟨he, hne, hedge2⟩ | ⟨he, hfl⟩
    · obtain ⟨hp, hX⟩ := hedge2 _ _ _ hm hpr rfl
      subst hX
      have hy := derives_zero (wfFacts hc.wf) hD
      subst hy
      cases hrest with
      | base e he => omega
      | push e' rest' p' X' q' syms' w' y' hrest' _ _ hE' hD' =>
        obtain ⟨hp', hX'⟩ := hedge _ _ _ (edge_mem hE') (hrest'.reach hr) hp
        subst hp' hX'
        have := hrest'.entry hc hi
        subst this
        exact ⟨gi, y', hgi, hD', Or.inl ⟨he, by simp⟩⟩
    · obtain ⟨hp, hX⟩ := hedge _ _ _ hm hpr hfl
      subst hp hX
      have := hrest.entry hc hi
      subst this
      exact ⟨gi, y, hgi, hD, Or.inr ⟨he, by simp⟩⟩

/-! ### the consumed token string -/

theorem symAt_ge (inp : Input) {j : Nat} (h : inp.toks.size ≤ j) : symAt inp j = 0 := by
  unfold symAt Input.tok
  rw [Array.getElem?_eq_none h]
  rfl

theorem symAt_lt (inp : Input) {j : Nat} (h : j < inp.toks.size) :
    symAt inp j = inp.toks[j].sym.toNat := by
  unfold symAt Input.tok
  rw [Array.getElem?_eq_getElem h]

theorem symAt_pos {t : Tables} {inp : Input} (htok : TokOk t inp) {j : Nat}
    (h : j < inp.toks.size) : 0 < symAt inp j := by
  rw [symAt_lt inp h]
  have := htok inp.toks[j] (by rw [Array.mem_toList_iff]; exact Array.getElem_mem h)
  omega

theorem consumed_le (inp : Input) : ∀ m, m ≤ inp.toks.size →
    consumed inp m = (inp.toks.toList.take m).map (fun tk => tk.sym.toNat)
  | 0, _ => by simp [consumed]
  | m + 1, h => by
    have hm : m < inp.toks.toList.length := by rw [Array.length_toList]; omega
    rw [consumed_succ, consumed_le inp m (by omega), symAt_lt inp h, List.take_add_one,
      List.getElem?_eq_getElem hm]
    simp

theorem consumed_length (inp : Input) (m : Nat) : (consumed inp m).length = m := by
  simp [consumed]

theorem consumed_no_zero {inp : Input} (m : Nat)
    (hz : 0 ∉ consumed inp m) : m ≤ inp.toks.size := by
  rcases Nat.lt_or_ge inp.toks.size m with h | h
  · exfalso
    apply hz
    unfold consumed
    rw [List.mem_map]
    exact ⟨inp.toks.size, List.mem_range.mpr h, symAt_ge inp (Nat.le_refl _)⟩
  · exact h

theorem consumed_eoi {t : Tables} {inp : Input} (htok : TokOk t inp) (m : Nat) (u : List Nat)
    (h : consumed inp m = u ++ [0]) (hz : 0 ∉ u) :
    u = (inp.toks.toList.take inp.toks.size).map (fun tk => tk.sym.toNat) := by
  cases m with
  | zero => simp [consumed] at h
  | succ k =>
    rw [consumed_succ] at h
    obtain ⟨h1, h2⟩ := List.append_inj' h rfl
    have hk : k ≤ inp.toks.size := by
      apply consumed_no_zero; rw [h1]; exact hz
    have hk2 : ¬ k < inp.toks.size := by
      intro hlt
      have := symAt_pos htok hlt
      simp at h2
      omega
    have : k = inp.toks.size := by omega
    subst this
    rw [← h1]
    exact consumed_le inp _ hk

end TmVerif.LRSound
