/-
Helper lemmas for C01 error position, part 2: the run only takes relevant transitions
(`RelStack`), hence all items of the top state are valid for the consumed word, and the consumed
word is a prefix of a word of the language in every configuration the loop reaches.
-/
import TmVerif.Proofs.LRViable
import TmVerif.Proofs.LRSoundPanic
namespace TmVerif.LRViable
open TmVerif.LR TmVerif.CFG TmVerif.LRSound TmVerif.LRRef
open TmVerif.LRComplete (rhsOf_rule rhsOf_input rule_index)

/-- every transition recorded in the stack is relevant: a terminal shift, or a goto on a
nonterminal that some item of the source state has after its dot -/
def RelStack (g : Grammar) (vc : VCert) : List Entry → Prop
  | e :: e' :: rest =>
    relevant g vc e'.state.toNat e.sym.toNat = true ∧ RelStack g vc (e' :: rest)
  | _ => True

theorem RelStack.tail {g : Grammar} {vc : VCert} : ∀ {e : Entry} {rest : List Entry},
    RelStack g vc (e :: rest) → RelStack g vc rest
  | _, [], _ => trivial
  | _, _ :: _, h => h.2

theorem RelStack.drop {g : Grammar} {vc : VCert} : ∀ (n : Nat) {stk : List Entry},
    RelStack g vc stk → RelStack g vc (stk.drop n)
  | 0, _, h => h
  | _ + 1, [], _ => trivial
  | n + 1, _ :: _, h => RelStack.drop n (RelStack.tail h)

section stack
variable {g : Grammar} {t : Tables} {cert : Cert} {vc : VCert} {i : Nat}
  (hc : CertFacts g t cert) (hv : ViableFacts g t vc) (hi : i < g.inputs.size)
include hc hv hi

/-- all items of the top state are valid for the yield of the stack, and there is one -/
theorem stack_valid {stk : List Entry} {s : Nat} {syms : List Int} {w : List Nat}
    (h : StackOk g t i stk s syms w) (hrel : RelStack g vc stk) :
    itemsOf vc s ≠ [] ∧ ∀ it ∈ itemsOf vc s, Valid g i it w := by
  have hwf := wfFacts hv.wf
  induction h with
  | base e he =>
    have hent := hv.entry i hi
    refine ⟨List.ne_nil_of_mem hent.1, ?_⟩
    refine justFrom_valid hwf hv.prod (fun _ => ⟨rfl, rfl⟩) _ [] (hv.just i)
      (fun _ h => by cases h) ?_
    intro it hm hd
    exact absurd (hent.2 it hm) hd
  | push e rest p X q syms w y hrest hX hq hE hD ih =>
    obtain ⟨e', rest', hr, hes⟩ := hrest.top
    subst hr
    have hrelE : relevant g vc p X = true := by
      have := hrel.1
      rw [hes, hX] at this
      simpa using this
    obtain ⟨_, hne, hker⟩ := kernelOk_elim (hv.edges p X q (edge_mem hE) hrelE)
    rw [Int.toNat_natCast] at hne hker
    obtain ⟨_, ihv⟩ := ih hrel.2
    obtain ⟨q', hq', hq1, _, _⟩ := edgeOk_elim (edge_ok hc hE)
    have hqq : q' = q := by omega
    refine ⟨hne, ?_⟩
    refine justFrom_valid hwf hv.prod (fun hlt => by omega) _ [] (hv.just q)
      (fun _ h => by cases h) ?_
    intro it hm hd
    obtain ⟨hx, hpm⟩ := hker it hm hd
    have := valid_goto (ihv _ hpm) hx hD
    have e : it.2 - 1 + 1 = it.2 := by omega
    rw [e] at this
    exact this

omit hc in
/-- following an item back through the stack: `n` entries below a state holding `(r, d)` lies a
state holding `(r, d - n)` -/
theorem traceback {stk : List Entry} {s : Nat} {syms : List Int} {w : List Nat}
    (h : StackOk g t i stk s syms w) (hrel : RelStack g vc stk) :
    ∀ (r d n : Nat), (r, d) ∈ itemsOf vc s → n ≤ d →
      ∃ e rest, stk.drop n = e :: rest ∧ (r, d - n) ∈ itemsOf vc e.state.toNat := by
  induction h with
  | base e he =>
    intro r d n hm hn
    have := (hv.entry i hi).2 _ hm
    simp only at this
    have hn0 : n = 0 := by omega
    subst hn0
    refine ⟨e, [], rfl, ?_⟩
    rw [he, Int.toNat_natCast]
    exact hm
  | push e rest p X q syms w y hrest hX hq hE hD ih =>
    intro r d n hm hn
    cases n with
    | zero =>
      refine ⟨e, rest, rfl, ?_⟩
      rw [hq, Int.toNat_natCast]
      exact hm
    | succ n' =>
      obtain ⟨e', rest', hr, hes⟩ := hrest.top
      have hrelE : relevant g vc p X = true := by
        subst hr
        have := hrel.1
        rw [hes, hX] at this
        simpa using this
      obtain ⟨_, _, hker⟩ := kernelOk_elim (hv.edges p X q (edge_mem hE) hrelE)
      rw [Int.toNat_natCast] at hker
      obtain ⟨_, hpm⟩ := hker (r, d) hm (by simp only; omega)
      obtain ⟨e2, rest2, hd2, hm2⟩ := ih (RelStack.tail hrel) r (d - 1) n' hpm (by omega)
      refine ⟨e2, rest2, hd2, ?_⟩
      have : d - 1 - n' = d - (n' + 1) := by omega
      rw [← this]
      exact hm2

end stack

/-! ### the action the loop decodes is one of the state's actions -/

theorem decode_mem {g : Grammar} {t : Tables} {cert : Cert} {inp : Input}
    (hc : CertFacts g t cert) (htok : TokOk t inp) (h0 : 0 < t.nTerms)
    (c c1 : Cfg) (act : Act) (s m : Nat) (hs : s < t.nStates) (hst : c.state = (s : Int))
    (hn : NextOk inp c m) (hd : decode t inp c = some (c1, act)) :
    ∃ a, (a, some act) ∈ stateActs t s := by
  unfold decode at hd
  rw [hst] at hd
  cases hnt : needsTok t (s : Int) with
  | none => rw [hnt] at hd; cases hd
  | some b =>
    rw [hnt] at hd
    cases b with
    | true =>
      simp only [Option.map_eq_some_iff] at hd
      obtain ⟨a', ha', he⟩ := hd
      obtain ⟨f1, _⟩ := fetch_spec inp c m hn
      obtain ⟨a, ha1, ha2⟩ := tok_range htok h0 m
      injection he with e1 e2
      subst e1 e2
      rw [f1, ha1] at ha'
      have hmem : (some a, actOf t noDeep s a) ∈ stateActs t s := by
        unfold stateActs
        rw [hnt]
        simp only [List.mem_map, List.mem_range]
        exact ⟨a, ha2, rfl⟩
      have hok := hc.acts s hs _ hmem
      cases hx : actOf t noDeep s a with
      | none => rw [hx] at hok; simp [actOk] at hok
      | some x =>
        rw [actOf_noDeep t _ s a x hx] at ha'
        injection ha' with ha'
        subst ha'
        rw [hx] at hmem
        exact ⟨_, hmem⟩
    | false =>
      simp only [Option.map_eq_some_iff] at hd
      obtain ⟨a', ha', he⟩ := hd
      injection he with e1 e2
      subst e1 e2
      have hmem : (none, actOf t noDeep s 0) ∈ stateActs t s := by
        unfold stateActs
        rw [hnt]
        simp
      have e : actOf t noDeep s 0 = some a' := ha'
      rw [e] at hmem
      exact ⟨_, hmem⟩

theorem reduceOk_elim {g : Grammar} {t : Tables} {vc : VCert} {s : Nat}
    (h : reduceOk g t vc s = true) {a : Option Nat} {r : Int}
    (hm : (a, some (Act.reduce r)) ∈ stateActs t s) :
    0 ≤ r ∧ (r.toNat, (rhsOf g r.toNat).length) ∈ itemsOf vc s := by
  unfold reduceOk at h
  rw [List.all_eq_true] at h
  have := h _ hm
  simpa using this

/-! ### the invariant -/

/-- the soundness invariant plus: only relevant transitions on the stack -/
def VInv (g : Grammar) (t : Tables) (vc : VCert) (i : Nat) (inp : Input) (c : Cfg) : Prop :=
  Inv g t i inp c ∧ RelStack g vc c.stack

theorem vinv_init (g : Grammar) (t : Tables) (vc : VCert) (i : Nat) (inp : Input) :
    VInv g t vc i inp (initCfg inp i) := ⟨inv_init g t i inp, trivial⟩

section inv
variable {g : Grammar} {t : Tables} {cert : Cert} {vc : VCert} {i : Nat} {inp : Input}
  (hc : CertFacts g t cert) (hv : ViableFacts g t vc) (htok : TokOk t inp)
  (hi : i < g.inputs.size)
include hc hv htok hi

theorem step_vinv (c c' : Cfg) (h : VInv g t vc i inp c) (hs : step t inp c = .cont c') :
    VInv g t vc i inp c' := by
  refine ⟨step_inv hc htok hi c c' h.1 hs, ?_⟩
  obtain ⟨⟨s, syms, hstk, hst, hn⟩, hrel⟩ := h
  have hlt := hstk.lt hc hi
  have h0 : 0 < t.nTerms := by have := (wfFacts hc.wf).nTermsPos; have := hc.nTerms; omega
  unfold step at hs
  cases hd : decode t inp c with
  | none => rw [hd] at hs; cases hs
  | some p =>
    obtain ⟨c1, act⟩ := p
    rw [hd] at hs
    simp only at hs
    obtain ⟨e1, e2, e3, hn1, hact⟩ := decode_spec hc htok h0 c c1 act s _ hlt hst hn hd
    obtain ⟨a?, hmem⟩ := decode_mem hc htok h0 c c1 act s _ hlt hst hn hd
    obtain ⟨etop, erest, hstk0, hetop⟩ := hstk.top
    cases act with
    | error => rw [apply] at hs; cases hs
    | shift q =>
      rcases hact with ⟨a, ha1, ha2, ha3, _, _, _⟩ | hact
      · rw [apply, ha1] at hs
        simp only at hs
        injection hs with hs
        subst hs
        show RelStack g vc (_ :: c1.stack)
        rw [e1, hstk0]
        refine ⟨?_, hstk0 ▸ hrel⟩
        unfold relevant
        simp only [ha2, Int.toNat_natCast, Bool.or_eq_true, decide_eq_true_eq]
        left
        rw [← hc.nTerms]; exact ha3
      · simp [actOk] at hact
    | reduce r =>
      have hok : ruleOk g t cert s r = true := by
        rcases hact with ⟨a, _, _, _, _, _, hact⟩ | hact
        · exact hact
        · exact hact
      obtain ⟨hr0, hitem⟩ := reduceOk_elim (hv.red s hlt) hmem
      unfold ruleOk at hok
      simp only [Bool.and_eq_true, decide_eq_true_eq] at hok
      cases hrule : g.rules[r.toNat]? with
      | none => rw [hrule] at hok; cases hok.2
      | some rule =>
        rw [hrule] at hok
        simp only [Bool.and_eq_true, beq_iff_eq] at hok
        obtain ⟨_, ⟨hlen, hsym⟩, _⟩ := hok
        obtain ⟨ln, lhs, c2, off, endo, top, rest, q, h1, h2, h3, h4, h5, h6, h7⟩ :=
          apply_reduce_cont hs
        rw [hlen] at h1; rw [hsym] at h2
        injection h1 with h1; injection h2 with h2
        subst h1 h2
        have hc2 : c2.stack = c.stack := by
          rcases h3 with h3 | h3
          · rw [h3, e1]
          · rw [h3, fetch_stack, e1]
        rw [hc2, Int.toNat_natCast] at h4
        rw [rhsOf_rule hrule] at hitem
        obtain ⟨e, rest', hdrop, hm0⟩ :=
          traceback hv hi hstk hrel r.toNat rule.rhs.length rule.rhs.length hitem
            (Nat.le_refl _)
        rw [h4] at hdrop
        injection hdrop with he1 he2
        subst he1 he2
        rw [Nat.sub_self] at hm0
        obtain ⟨p, hp, hsym'⟩ := justFrom_mem _ [] (hv.just top.state.toNat) _ hm0 rfl rule hrule
        have hp' : p ∈ itemsOf vc top.state.toNat := by
          rcases hp with hp | hp
          · cases hp
          · exact hp
        rw [h7]
        show RelStack g vc (_ :: top :: rest)
        refine ⟨?_, ?_⟩
        · unfold relevant
          simp only [Int.toNat_natCast, Bool.or_eq_true, List.any_eq_true, beq_iff_eq]
          exact Or.inr ⟨p, hp', hsym'⟩
        · rw [← h4]; exact RelStack.drop _ hrel

omit htok in
/-- in every configuration satisfying the invariant the consumed word is a prefix of a word of
the language of input `i` -/
theorem vinv_prefix (c : Cfg) (h : VInv g t vc i inp c) :
    ∃ z, Lang g i (consumed inp (nshift c.evs) ++ z) := by
  obtain ⟨⟨s, syms, hstk, _, _⟩, hrel⟩ := h
  obtain ⟨hne, hval⟩ := stack_valid hc hv hi hstk hrel
  obtain ⟨it, rest, hl⟩ := List.exists_cons_of_ne_nil hne
  exact valid_prefix (wfFacts hv.wf) hv.prod (hval it (by rw [hl]; exact List.mem_cons_self))

end inv

end TmVerif.LRViable
