import TmVerif.Model.SetClosure
import TmVerif.Proofs.IntSet
import TmVerif.Proofs.SetClosureTarjan
import TmVerif.Proofs.SetClosureMeasure
/-!
Specification of set-equation systems and the basic facts about the mirror of util/set/closure.go.

* `Asg` — an assignment of subsets of ℤ to the nodes; `St.asg` the one stored in a state.
* `EqAt sys a v` — node `v` satisfies its equation under `a`:
    union node         `a v = init v ∪ ⋃ a w`   over its edges `w`
    intersection node  `a v = ⋂ a w`            (everything when it has no edge: what `slowClosure` computes)
    complement node    `a v = ℤ \ a w`          for its single edge `w`
* `Sol sys a` — every node satisfies its equation.
-/
namespace TmVerif.SetClosure
open TmVerif.IntSet TmVerif.Graph

abbrev Asg := Nat → Int → Prop

def St.asg (s : St) : Asg := fun v x => (s.get v).Mem x

def EqAt (sys : Sys) (a : Asg) (v : Nat) : Prop :=
  match opOf sys v with
  | .union => ∀ x, a v x ↔ (x ∈ initOf sys v ∨ ∃ w ∈ edgesOf sys v, a w x)
  | .inter => ∀ x, a v x ↔ ∀ w ∈ edgesOf sys v, a w x
  | .compl => ∃ w, edgesOf sys v = [w] ∧ ∀ x, a v x ↔ ¬ a w x

def Sol (sys : Sys) (a : Asg) : Prop := ∀ v, v < sys.length → EqAt sys a v

theorem eqAt_union {sys : Sys} {a : Asg} {v : Nat} (h : opOf sys v = .union) :
    EqAt sys a v ↔ ∀ x, a v x ↔ (x ∈ initOf sys v ∨ ∃ w ∈ edgesOf sys v, a w x) := by
  unfold EqAt; rw [h]

theorem eqAt_inter {sys : Sys} {a : Asg} {v : Nat} (h : opOf sys v = .inter) :
    EqAt sys a v ↔ ∀ x, a v x ↔ ∀ w ∈ edgesOf sys v, a w x := by
  unfold EqAt; rw [h]

theorem eqAt_compl {sys : Sys} {a : Asg} {v : Nat} (h : opOf sys v = .compl) :
    EqAt sys a v ↔ ∃ w, edgesOf sys v = [w] ∧ ∀ x, a v x ↔ ¬ a w x := by
  unfold EqAt; rw [h]

/-- the equation of a node only reads the node and its successors -/
theorem eqAt_congr {sys : Sys} {a b : Asg} {v : Nat} (hv : ∀ x, a v x ↔ b v x)
    (hw : ∀ w ∈ edgesOf sys v, ∀ x, a w x ↔ b w x) : EqAt sys a v ↔ EqAt sys b v := by
  unfold EqAt
  split
  · constructor
    · intro h x; rw [← hv x, h x]
      constructor
      · rintro (h1 | ⟨w, hw1, h1⟩)
        · exact .inl h1
        · exact .inr ⟨w, hw1, (hw w hw1 x).1 h1⟩
      · rintro (h1 | ⟨w, hw1, h1⟩)
        · exact .inl h1
        · exact .inr ⟨w, hw1, (hw w hw1 x).2 h1⟩
    · intro h x; rw [hv x, h x]
      constructor
      · rintro (h1 | ⟨w, hw1, h1⟩)
        · exact .inl h1
        · exact .inr ⟨w, hw1, (hw w hw1 x).2 h1⟩
      · rintro (h1 | ⟨w, hw1, h1⟩)
        · exact .inl h1
        · exact .inr ⟨w, hw1, (hw w hw1 x).1 h1⟩
  · constructor
    · intro h x; rw [← hv x, h x]
      exact ⟨fun h1 w hw1 => (hw w hw1 x).1 (h1 w hw1), fun h1 w hw1 => (hw w hw1 x).2 (h1 w hw1)⟩
    · intro h x; rw [hv x, h x]
      exact ⟨fun h1 w hw1 => (hw w hw1 x).2 (h1 w hw1), fun h1 w hw1 => (hw w hw1 x).1 (h1 w hw1)⟩
  · constructor
    · rintro ⟨w, he, h⟩
      refine ⟨w, he, fun x => ?_⟩
      rw [← hv x, h x, hw w (by rw [he]; simp) x]
    · rintro ⟨w, he, h⟩
      refine ⟨w, he, fun x => ?_⟩
      rw [hv x, h x, hw w (by rw [he]; simp) x]

/-- the representation invariant of systems (`wfB`) as propositions -/
structure Wf (sys : Sys) : Prop where
  edges : ∀ v w, w ∈ edgesOf sys v → w < sys.length
  sorted : ∀ v, Sorted (initOf sys v)
  initE : ∀ v, opOf sys v ≠ .union → initOf sys v = []
  compl1 : ∀ v, v < sys.length → opOf sys v = .compl → ∃ w, edgesOf sys v = [w]

theorem edgesOf_eq (sys : Sys) (v : Nat) : edgesOf sys v = (sys[v]?.map (·.edges)).getD [] := by
  simp [edgesOf, succs, graphOf]

theorem wf_of_wfB {sys : Sys} (h : wfB sys = true) : Wf sys := by
  unfold wfB at h
  rw [List.all_eq_true] at h
  have hn : ∀ v (hv : v < sys.length), _ := fun v hv => h sys[v] (List.getElem_mem hv)
  refine ⟨?_, ?_, ?_, ?_⟩
  · intro v w hw
    rw [edgesOf_eq] at hw
    by_cases hv : v < sys.length
    · have := hn v hv
      simp only [Bool.and_eq_true, List.all_eq_true, decide_eq_true_eq] at this
      simp only [List.getElem?_eq_getElem hv, Option.map_some, Option.getD_some] at hw
      exact this.1.1.1 w hw
    · simp [List.getElem?_eq_none (Nat.le_of_not_lt hv)] at hw
  · intro v
    unfold initOf
    by_cases hv : v < sys.length
    · have := hn v hv
      simp only [Bool.and_eq_true] at this
      simp only [List.getElem?_eq_getElem hv, Option.map_some, Option.getD_some]
      exact (sortedB_iff _).1 this.1.1.2
    · simp [List.getElem?_eq_none (Nat.le_of_not_lt hv), Sorted]
  · intro v hop
    unfold initOf
    unfold opOf at hop
    by_cases hv : v < sys.length
    · have := hn v hv
      simp only [Bool.and_eq_true, Bool.or_eq_true, beq_iff_eq, List.isEmpty_iff] at this
      simp only [List.getElem?_eq_getElem hv, Option.map_some, Option.getD_some] at hop ⊢
      rcases this.1.2 with h1 | h1
      · exact absurd h1 hop
      · exact h1
    · simp [List.getElem?_eq_none (Nat.le_of_not_lt hv)]
  · intro v hv hop
    unfold opOf at hop
    have := hn v hv
    simp only [Bool.and_eq_true, Bool.or_eq_true, bne_iff_ne, ne_eq, beq_iff_eq] at this
    simp only [List.getElem?_eq_getElem hv, Option.map_some, Option.getD_some] at hop
    rcases this.2 with h1 | h1
    · exact absurd hop h1
    · rw [edgesOf_eq]
      simp only [List.getElem?_eq_getElem hv, Option.map_some, Option.getD_some]
      match hs : sys[v].edges, h1 with
      | [w], _ => exact ⟨w, rfl⟩

theorem Wf.graph {sys : Sys} (h : Wf sys) : Graph.Wf (graphOf sys) := by
  intro a b e
  have := h.edges a b e
  simpa [graphOf] using this

theorem graphOf_length (sys : Sys) : (graphOf sys).length = sys.length := by simp [graphOf]

/-! ### reading and writing the stored sets -/

theorem get_set (s : St) (v u : Nat) (r : IntSet) :
    ({ s with sets := s.sets.set v r } : St).get u = if u = v ∧ v < s.sets.length then r else s.get u := by
  unfold St.get
  simp only [List.getElem?_set]
  by_cases huv : v = u
  · subst huv
    by_cases hv : v < s.sets.length
    · simp [hv]
    · simp [hv]
  · have : ¬ u = v := fun e => huv e.symm
    simp [huv, this]

theorem assignAll_length (sets : List IntSet) (comp : List Nat) (res : IntSet) :
    (assignAll sets comp res).length = sets.length := by
  unfold assignAll
  induction comp generalizing sets with
  | nil => rfl
  | cons v comp ih => simp only [List.foldl_cons]; rw [ih]; simp

theorem assignAll_getD (sets : List IntSet) (comp : List Nat) (res : IntSet) (u : Nat) (d : IntSet) :
    (assignAll sets comp res)[u]?.getD d = if u ∈ comp ∧ u < sets.length then res else sets[u]?.getD d := by
  unfold assignAll
  induction comp generalizing sets with
  | nil => simp
  | cons v comp ih =>
    simp only [List.foldl_cons]
    rw [ih]
    simp only [List.length_set, List.mem_cons, List.getElem?_set]
    by_cases h1 : u ∈ comp
    · by_cases h3 : u < sets.length
      · simp [h1, h3]
      · have h4 : sets[u]? = none := List.getElem?_eq_none (Nat.le_of_not_lt h3)
        by_cases h2 : v = u
        · subst h2; simp [h1, h3]
        · simp [h1, h3, h2]
    · by_cases h2 : u = v
      · subst h2
        by_cases h3 : u < sets.length <;> simp [h1, h3]
      · have : ¬ v = u := fun e => h2 e.symm
        simp [h1, h2, this]

/-! ### the explicit elements of all stored sets come from the slices given to `Add` -/

/-- every element mentioned by the system -/
def mlist (sys : Sys) : List Int := sys.flatMap (·.init)

theorem mlist_length (sys : Sys) : (mlist sys).length = mentioned sys := by
  unfold mlist mentioned
  induction sys with
  | nil => rfl
  | cons n sys ih => simp [List.flatMap_cons, ih]

theorem initOf_sub (sys : Sys) (v : Nat) : ∀ e ∈ initOf sys v, e ∈ mlist sys := by
  intro e he
  unfold initOf at he
  cases h : sys[v]? with
  | none => rw [h] at he; simp at he
  | some n =>
    rw [h] at he
    simp only [Option.map_some, Option.getD_some] at he
    unfold mlist
    rw [List.mem_flatMap]
    exact ⟨n, List.mem_of_getElem? h, he⟩

def Bounded (sys : Sys) (x : St) : Prop := ∀ v, ∀ e ∈ (x.get v).set, e ∈ mlist sys

/-! ### strongly connected components -/

theorem transGen_head_cases {α : Type} {r : α → α → Prop} {a c : α} (p : Relation.TransGen r a c) :
    ∃ b, r a b ∧ (b = c ∨ Relation.TransGen r b c) := by
  induction p with
  | single e => exact ⟨_, e, .inl rfl⟩
  | tail _ e ih =>
    obtain ⟨b, hab, h⟩ := ih
    rcases h with rfl | q
    · exact ⟨b, hab, .inr (.single e)⟩
    · exact ⟨b, hab, .inr (.tail q e)⟩

/-- A member of a strongly connected component either has an edge into the component or is alone. -/
theorem scc_edge_or_single {g : Graph} {comp : List Nat}
    (hscc : ∀ u ∈ comp, ∀ w, w ∈ comp ↔ SC g u w) {v : Nat} (hv : v ∈ comp) :
    (∃ w, Edge g v w ∧ w ∈ comp) ∨ ∀ u ∈ comp, u = v := by
  by_cases h : ∃ w, Edge g v w ∧ w ∈ comp
  · exact .inl h
  · right
    intro u hu
    have hsc := (hscc v hv u).1 hu
    rcases hsc.1 with e | p
    · exact e.symm
    · exfalso
      obtain ⟨w, hvw, hwu'⟩ := transGen_head_cases p
      exact h ⟨w, hvw, (hscc v hv w).2 ⟨Reach.edge hvw, Reach.trans (show Reach g w u from hwu') hsc.2⟩⟩

/-- Inside a component whose members with an inner edge all pass their successors' elements up
(`hup`), every member contains every other member. -/
theorem scc_flow {g : Graph} {comp : List Nat} (hscc : ∀ u ∈ comp, ∀ w, w ∈ comp ↔ SC g u w)
    (b : Asg) (hup : ∀ z ∈ comp, ∀ w, Edge g z w → w ∈ comp → ∀ x, b w x → b z x)
    {v u : Nat} (hv : v ∈ comp) (hu : u ∈ comp) (x : Int) (hx : b u x) : b v x := by
  have hsc := (hscc v hv u).1 hu
  rcases hsc.1 with e | p
  · subst e; exact hx
  · have key : ∀ y, Relation.TransGen (Edge g) v y → Reach g y v → b y x → b v x := by
      intro y q
      induction q with
      | single e =>
        intro hyv hy
        exact hup v hv _ e ((hscc v hv _).2 ⟨Reach.edge e, hyv⟩) x hy
      | tail q e ih =>
        rename_i z y
        intro hyv hy
        have hzv : Reach g z v := (Reach.edge e).trans hyv
        have hz : z ∈ comp := (hscc v hv z).2 ⟨.inr q, hzv⟩
        have hy' : y ∈ comp := (hscc v hv y).2 ⟨.inr (q.tail e), hyv⟩
        exact ih hzv (hup z hz y e hy' x hy)
    exact key u p hsc.2 hx

end TmVerif.SetClosure
