import TmVerif.Proofs.DiffMyersSearch
/-!
C27, Myers search, part 9: `middleRaw` (the mirror of `middle` up to the re-check loop) returns a
point on a shortest edit path; hence the split-point oracle of `lcs` satisfies `OptimalSplit`.
-/
namespace TmVerif.Diff
set_option linter.unusedSectionVars false
variable {α : Type} [DecidableEq α]

theorem getD_replicate_zero (n i : Nat) : (Array.replicate n (0 : Nat)).getD i 0 = 0 := by
  simp [Array.getD_eq_getD_getElem?, Array.getElem?_replicate]
  split <;> rfl

theorem midInv_init (a b : List α) :
    MidInv (midEnv a.toArray b.toArray) a b 0
      (Array.replicate (2 * (midEnv a.toArray b.toArray).base) 0)
      (Array.replicate (2 * (a.toArray.size + b.toArray.size + 2) -
        2 * (midEnv a.toArray b.toArray).base) 0) 0 0 := by
  have hb : (midEnv a.toArray b.toArray).base = (a.length + b.length + 2) / 2 := by simp [midEnv]
  have := lcs_le_sum a b
  refine ⟨by simp, ?_, by omega, ?_, ?_⟩
  · simp only [Array.size_replicate, List.size_toArray]
    rw [hb]; omega
  · intro _
    exact ⟨getD_replicate_zero _ _, getD_replicate_zero _ _, rfl, rfl⟩
  · intro d0 h; omega

/-- the search of `middle` always finds a split, and it lies on a shortest path -/
theorem midLoop_result (a b : List α) :
    ∃ res, midLoop (midEnv a.toArray b.toArray) ((midEnv a.toArray b.toArray).base + 1) 0
      (Array.replicate (2 * (midEnv a.toArray b.toArray).base) 0)
      (Array.replicate (2 * (a.toArray.size + b.toArray.size + 2) -
        2 * (midEnv a.toArray b.toArray).base) 0) 0 0 = some res ∧ GoodSplit a b res :=
  midLoop_spec _ a b (midEnv_ok a b) _ 0 _ _ 0 0 (by omega) (midInv_init a b)

theorem middleRaw_optimal (a b : List α) (ai bi mx : Nat) (h : middleRaw a b = some (ai, bi, mx)) :
    ai ≤ a.length ∧ bi ≤ b.length ∧ Lp a b ai bi + Ls a b ai bi = lcsRec a b := by
  obtain ⟨res, hres, hgood⟩ := midLoop_result a b
  unfold middleRaw middleRawArr at h
  simp only at h
  rw [hres] at h
  obtain ⟨x, y, s⟩ := res
  simp only at h
  split at h
  · cases h
  · rename_i hneg
    simp only [Option.some.injEq, Prod.mk.injEq] at h
    obtain ⟨rfl, rfl, rfl⟩ := h
    obtain ⟨_, _, _, hg⟩ := hgood
    obtain ⟨d, d', k, _, _, _, hf⟩ := hg x.toNat y.toNat s.toNat (by simp only; omega)
      (by simp only; omega) (by simp only; omega)
    exact ⟨hf.1, hf.2.1, hf.2.2.1⟩

/-- along the re-checked snake the suffix LCS decreases by one per step -/
theorem snakeLen_Ls (mx : Nat) (xs ys : List α) :
    lcsRec xs ys = snakeLen mx xs ys +
      lcsRec (xs.drop (snakeLen mx xs ys)) (ys.drop (snakeLen mx xs ys)) := by
  fun_induction snakeLen mx xs ys with
  | case1 mx x xs ys ih =>
    rw [lcsRec]
    simp only [if_true, List.drop_succ_cons]
    omega
  | case2 => simp
  | case3 => simp

/-- the mirrored Myers search satisfies the hypothesis of `C27_script_minimal_partial` -/
theorem optimalSplit_middleRaw : OptimalSplit (middleRaw (α := α)) := by
  intro a b ai bi mx h _ _
  obtain ⟨h1, h2, h3⟩ := middleRaw_optimal a b ai bi mx h
  have hs := snakeLen_Ls mx (a.drop ai) (b.drop bi)
  simp only [List.drop_drop] at hs
  unfold Lp Ls at h3
  omega

end TmVerif.Diff
