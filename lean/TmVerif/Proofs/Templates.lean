/-
Helper lemmas for C14: predicate evaluation, argument resolution, the rule sets of the
instantiated grammar, and the two directions of `instantiate_lang`.
-/
import TmVerif.Model.Templates
namespace TmVerif.Templates
open TmVerif.CFG

/-! ### inversion of the derivation relations -/

theorem Der.inv {imp : Implicit} {g : TGrammar} {N : Nat} {env : Env} {w : List Nat} (h : Der imp g N env w) :
    ∃ nt a, g.nts[N]? = some nt ∧ a ∈ nt.alts ∧ a.enabled env = true ∧ DerSeq imp g N env true a.rhs w := by
  cases h with
  | alt _ _ nt a _ hnt ha hen hs => exact ⟨nt, a, hnt, ha, hen, hs⟩

theorem DerSeq.nil_inv {imp : Implicit} {g : TGrammar} {N : Nat} {env : Env} {first : Bool} {w : List Nat}
    (h : DerSeq imp g N env first [] w) : w = [] := by
  cases h; rfl

theorem DerSeq.t_inv {imp : Implicit} {g : TGrammar} {N : Nat} {env : Env} {first : Bool} {a : Nat}
    {rest : List Sym} {w : List Nat} (h : DerSeq imp g N env first (.t a :: rest) w) :
    ∃ v, w = a :: v ∧ a < g.nTerms ∧ DerSeq imp g N env false rest v := by
  cases h with
  | t _ _ _ _ _ v ha hr => exact ⟨v, rfl, ha, hr⟩

theorem DerSeq.n_inv {imp : Implicit} {g : TGrammar} {N : Nat} {env : Env} {first : Bool} {m : Nat}
    {args : List Arg} {rest : List Sym} {w : List Nat} (h : DerSeq imp g N env first (.n m args :: rest) w) :
    ∃ u v, w = u ++ v ∧ Der imp g m (callEnv imp N first m env args) u ∧ DerSeq imp g N env false rest v := by
  cases h with
  | n _ _ _ _ _ _ u v hd hr => exact ⟨u, v, rfl, hd, hr⟩

/-! ### check = eval -/

theorem lookupB_envOf {ctx : Bound} {p : Nat} {v : Val} (h : lookupB ctx p = some v) : envOf ctx p = v := by
  simp [envOf, h]

mutual
theorem check_eval (ctx : Bound) : ∀ (p : Pred) (b : Bool), check ctx p = some b → p.eval (envOf ctx) = b
  | .eq p v, b, h => by
    simp only [check, Option.map_eq_some_iff] at h
    obtain ⟨x, hx, hb⟩ := h
    simp [Pred.eval, lookupB_envOf hx, hb]
  | .not a, b, h => by
    simp only [check, Option.map_eq_some_iff] at h
    obtain ⟨x, hx, hb⟩ := h
    simp [Pred.eval, check_eval ctx a x hx, hb]
  | .and l, b, h => by
    simp only [check] at h
    simp [Pred.eval, checkAnd_eval ctx l b h]
  | .or l, b, h => by
    simp only [check] at h
    simp [Pred.eval, checkOr_eval ctx l b h]
theorem checkAnd_eval (ctx : Bound) : ∀ (l : List Pred) (b : Bool), checkAnd ctx l = some b → Pred.evalAll (envOf ctx) l = b
  | [], b, h => by
    simp [checkAnd] at h
    simp [Pred.evalAll, h]
  | a :: l, b, h => by
    simp only [checkAnd] at h
    cases hc : check ctx a with
    | none => simp [hc] at h
    | some x =>
      cases x with
      | false =>
        simp [hc] at h
        simp [Pred.evalAll, check_eval ctx a false hc, h]
      | true =>
        simp [hc] at h
        simp [Pred.evalAll, check_eval ctx a true hc, checkAnd_eval ctx l b h]
theorem checkOr_eval (ctx : Bound) : ∀ (l : List Pred) (b : Bool), checkOr ctx l = some b → Pred.evalAny (envOf ctx) l = b
  | [], b, h => by
    simp [checkOr] at h
    simp [Pred.evalAny, h]
  | a :: l, b, h => by
    simp only [checkOr] at h
    cases hc : check ctx a with
    | none => simp [hc] at h
    | some x =>
      cases x with
      | true =>
        simp [hc] at h
        simp [Pred.evalAny, check_eval ctx a true hc, h]
      | false =>
        simp [hc] at h
        simp [Pred.evalAny, check_eval ctx a false hc, checkOr_eval ctx l b h]
end

mutual
/-- `check` is defined (no `log.Fatal`) when every parameter of the predicate is bound. -/
theorem check_isSome (ctx : Bound) : ∀ (p : Pred), (∀ q ∈ p.params, (lookupB ctx q).isSome) → (check ctx p).isSome
  | .eq p v, h => by
    have := h p (by simp [Pred.params])
    simp [check, this]
  | .not a, h => by
    have := check_isSome ctx a (fun q hq => h q (by simpa [Pred.params] using hq))
    simp [check, this]
  | .and l, h => by
    simpa [check] using checkAnd_isSome ctx l (fun q hq => h q (by simpa [Pred.params] using hq))
  | .or l, h => by
    simpa [check] using checkOr_isSome ctx l (fun q hq => h q (by simpa [Pred.params] using hq))
theorem checkAnd_isSome (ctx : Bound) : ∀ (l : List Pred), (∀ q ∈ Pred.paramsL l, (lookupB ctx q).isSome) → (checkAnd ctx l).isSome
  | [], _ => by simp [checkAnd]
  | a :: l, h => by
    have h1 := check_isSome ctx a (fun q hq => h q (by simp [Pred.paramsL, hq]))
    have h2 := checkAnd_isSome ctx l (fun q hq => h q (by simp [Pred.paramsL, hq]))
    simp only [checkAnd]
    cases hc : check ctx a with
    | none => simp [hc] at h1
    | some x => cases x <;> simp [h2]
theorem checkOr_isSome (ctx : Bound) : ∀ (l : List Pred), (∀ q ∈ Pred.paramsL l, (lookupB ctx q).isSome) → (checkOr ctx l).isSome
  | [], _ => by simp [checkOr]
  | a :: l, h => by
    have h1 := check_isSome ctx a (fun q hq => h q (by simp [Pred.paramsL, hq]))
    have h2 := checkOr_isSome ctx l (fun q hq => h q (by simp [Pred.paramsL, hq]))
    simp only [checkOr]
    cases hc : check ctx a with
    | none => simp [hc] at h1
    | some x => cases x <;> simp [h2]
end

theorem checkAlt_enabled {ctx : Bound} {a : Alt} {b : Bool} (h : checkAlt ctx a = some b) :
    a.enabled (envOf ctx) = b := by
  unfold checkAlt at h
  unfold Alt.enabled
  cases hp : a.pred with
  | none => simp [hp] at h; simp [h]
  | some p => simp [hp] at h; simpa using check_eval ctx p b h

/-! ### enabledAlts -/

theorem enabledAlts_mem {ctx : Bound} : ∀ {l alts : List Alt}, enabledAlts ctx l = some alts →
    ∀ a, a ∈ alts ↔ (a ∈ l ∧ checkAlt ctx a = some true)
  | [], alts, h, a => by
    simp [enabledAlts] at h
    subst h
    simp
  | x :: l, alts, h, a => by
    simp only [enabledAlts] at h
    cases hc : checkAlt ctx x with
    | none => simp [hc] at h
    | some b =>
      cases b with
      | true =>
        simp [hc] at h
        obtain ⟨r, hr, rfl⟩ := h
        have ih := enabledAlts_mem hr a
        constructor
        · intro ha
          rcases List.mem_cons.mp ha with rfl | ha
          · exact ⟨List.mem_cons_self, hc⟩
          · exact ⟨List.mem_cons_of_mem _ (ih.mp ha).1, (ih.mp ha).2⟩
        · rintro ⟨ha, hca⟩
          rcases List.mem_cons.mp ha with rfl | ha
          · exact List.mem_cons_self
          · exact List.mem_cons_of_mem _ (ih.mpr ⟨ha, hca⟩)
      | false =>
        simp [hc] at h
        have ih := enabledAlts_mem h a
        constructor
        · intro ha
          exact ⟨List.mem_cons_of_mem _ (ih.mp ha).1, (ih.mp ha).2⟩
        · rintro ⟨ha, hca⟩
          rcases List.mem_cons.mp ha with rfl | ha
          · rw [hc] at hca; cases hca
          · exact ih.mpr ⟨ha, hca⟩

theorem enabledAlts_defined {ctx : Bound} : ∀ {l alts : List Alt}, enabledAlts ctx l = some alts →
    ∀ a ∈ l, ∃ b, checkAlt ctx a = some b
  | [], _, _, a, ha => by cases ha
  | x :: l, alts, h, a, ha => by
    simp only [enabledAlts] at h
    cases hc : checkAlt ctx x with
    | none => simp [hc] at h
    | some b =>
      rcases List.mem_cons.mp ha with rfl | ha
      · exact ⟨b, hc⟩
      · cases b with
        | true =>
          simp [hc] at h
          obtain ⟨r, hr, _⟩ := h
          exact enabledAlts_defined hr a ha
        | false =>
          simp [hc] at h
          exact enabledAlts_defined h a ha

/-! ### argument resolution = callEnv -/

theorem resolveArgs_env {ctx : Bound} (imp0 : Nat) (f : Bool) (m : Nat) :
    ∀ {args : List Arg} {b : Bound}, resolveArgs ctx args = some b →
      envOf b = callEnv noImp imp0 f m (envOf ctx) args
  | [], b, h => by
    simp [resolveArgs] at h
    subst h
    funext p
    simp [envOf, lookupB, callEnv, findArg, noImp]
  | a :: l, b, h => by
    simp only [resolveArgs] at h
    cases h1 : resolveArg ctx a with
    | none => simp [h1] at h
    | some x =>
      cases h2 : resolveArgs ctx l with
      | none => simp [h1, h2] at h
      | some xs =>
        simp [h1, h2] at h
        subst h
        have ih := resolveArgs_env imp0 f m h2
        funext p
        have ihp := congrFun ih p
        -- what `resolveArg` returned
        have hx : x.1 = a.param ∧ x.2 = a.v.get (envOf ctx) := by
          unfold resolveArg at h1
          cases hv : a.v with
          | value v => simp [hv] at h1; simp [← h1, ArgV.get]
          | takeFrom q =>
            simp [hv] at h1
            obtain ⟨v, hv', rfl⟩ := h1
            simp [ArgV.get, lookupB_envOf hv']
        by_cases hp : a.param = p
        · simp [envOf, lookupB, callEnv, findArg, List.find?, hx.1, hp, hx.2]
        · have hp' : (a.param == p) = false := by simpa using hp
          have hp'' : (x.1 == p) = false := by simpa [hx.1] using hp
          simp only [envOf, lookupB, callEnv, findArg, List.find?, hp', hp''] at ihp ⊢
          exact ihp

/-! ### indexOf -/

theorem indexOf_get {k : Inst} : ∀ {l : List Inst} {j : Nat}, indexOf k l = some j → l[j]? = some k
  | [], j, h => by simp [indexOf] at h
  | x :: l, j, h => by
    simp only [indexOf] at h
    by_cases hx : x = k
    · simp [hx] at h
      subst h
      simp [hx]
    · simp [hx] at h
      obtain ⟨j', hj', rfl⟩ := h
      simpa using indexOf_get hj'

theorem indexOf_of_mem {k : Inst} : ∀ {l : List Inst}, k ∈ l → ∃ j, indexOf k l = some j
  | [], h => by cases h
  | x :: l, h => by
    simp only [indexOf]
    by_cases hx : x = k
    · exact ⟨0, by simp [hx]⟩
    · rcases List.mem_cons.mp h with rfl | h
      · exact absurd rfl hx
      · obtain ⟨j, hj⟩ := indexOf_of_mem h
        exact ⟨j + 1, by simp [hx, hj]⟩

/-! ### the rules of the instantiated grammar -/

theorem altRules_mem {g : TGrammar} {insts : List Inst} {i : Nat} {ctx : Bound} :
    ∀ {l : List Alt} {rs : List Rule}, altRules g insts i ctx l = some rs →
      (∀ r ∈ rs, ∃ a ∈ l, symsOf g insts ctx a.rhs = some r.rhs ∧ r.lhs = g.nTerms + i) ∧
      (∀ a ∈ l, ∃ rhs, symsOf g insts ctx a.rhs = some rhs ∧ ({ lhs := g.nTerms + i, rhs := rhs } : Rule) ∈ rs)
  | [], rs, h => by
    simp [altRules] at h
    subst h
    simp
  | a :: l, rs, h => by
    simp only [altRules] at h
    cases h1 : symsOf g insts ctx a.rhs with
    | none => simp [h1] at h
    | some rhs =>
      cases h2 : altRules g insts i ctx l with
      | none => simp [h1, h2] at h
      | some rs' =>
        simp [h1, h2] at h
        subst h
        obtain ⟨ih1, ih2⟩ := altRules_mem h2
        constructor
        · intro r hr
          rcases List.mem_cons.mp hr with rfl | hr
          · exact ⟨a, List.mem_cons_self, h1, rfl⟩
          · obtain ⟨a', ha', h'⟩ := ih1 r hr
            exact ⟨a', List.mem_cons_of_mem _ ha', h'⟩
        · intro a' ha'
          rcases List.mem_cons.mp ha' with rfl | ha'
          · exact ⟨rhs, h1, List.mem_cons_self⟩
          · obtain ⟨rhs', h', hm⟩ := ih2 a' ha'
            exact ⟨rhs', h', List.mem_cons_of_mem _ hm⟩

theorem rulesFrom_mem {g : TGrammar} {insts : List Inst} :
    ∀ {l : List Inst} {k : Nat} {rs : List Rule}, rulesFrom g insts k l = some rs →
      (∀ r ∈ rs, ∃ j it rsj, l[j]? = some it ∧ instRules g insts (k + j) it = some rsj ∧ r ∈ rsj) ∧
      (∀ j it, l[j]? = some it → ∃ rsj, instRules g insts (k + j) it = some rsj ∧ ∀ r ∈ rsj, r ∈ rs)
  | [], k, rs, h => by
    simp [rulesFrom] at h
    subst h
    simp
  | it :: l, k, rs, h => by
    simp only [rulesFrom] at h
    cases h1 : instRules g insts k it with
    | none => simp [h1] at h
    | some a =>
      cases h2 : rulesFrom g insts (k + 1) l with
      | none => simp [h1, h2] at h
      | some b =>
        simp [h1, h2] at h
        subst h
        obtain ⟨ih1, ih2⟩ := rulesFrom_mem h2
        constructor
        · intro r hr
          rcases List.mem_append.mp hr with hr | hr
          · exact ⟨0, it, a, by simp, by simpa using h1, hr⟩
          · obtain ⟨j, it', rsj, hj, hi, hm⟩ := ih1 r hr
            refine ⟨j + 1, it', rsj, by simpa using hj, ?_, hm⟩
            have : k + (j + 1) = k + 1 + j := by omega
            rw [this]; exact hi
        · intro j it' hj
          cases j with
          | zero =>
            simp at hj
            subst hj
            exact ⟨a, by simpa using h1, fun r hr => List.mem_append_left _ hr⟩
          | succ j =>
            simp at hj
            obtain ⟨rsj, hi, hm⟩ := ih2 j it' hj
            refine ⟨rsj, ?_, fun r hr => List.mem_append_right _ (hm r hr)⟩
            have : k + (j + 1) = k + 1 + j := by omega
            rw [this]; exact hi

/-- No reachable instance has all its alternatives disabled. -/
def NoDead (g : TGrammar) (insts : List Inst) : Prop := ∀ it ∈ insts, deadInst g it = false

theorem symsOf_cons {g : TGrammar} {insts : List Inst} {ctx : Bound} {s : Sym} {l : List Sym} {α : List Nat}
    (h : symsOf g insts ctx (s :: l) = some α) :
    ∃ x xs, symOf g insts ctx s = some x ∧ symsOf g insts ctx l = some xs ∧ α = x :: xs := by
  simp only [symsOf] at h
  cases h1 : symOf g insts ctx s with
  | none => simp [h1] at h
  | some x =>
    cases h2 : symsOf g insts ctx l with
    | none => simp [h1, h2] at h
    | some xs =>
      simp [h1, h2] at h
      exact ⟨x, xs, rfl, rfl, h.symm⟩

theorem symOf_n {g : TGrammar} {insts : List Inst} {ctx : Bound} {m : Nat} {args : List Arg} {x : Nat}
    (h : symOf g insts ctx (.n m args) = some x) :
    ∃ b j, resolveArgs ctx args = some b ∧ insts[j]? = some ⟨m, b⟩ ∧ x = g.nTerms + j := by
  simp only [symOf, instKey] at h
  cases h1 : resolveArgs ctx args with
  | none => simp [h1] at h
  | some b =>
    simp [h1] at h
    obtain ⟨j, hj, rfl⟩ := h
    exact ⟨b, j, rfl, indexOf_get hj, rfl⟩

/-- Facts about the rule set: where a rule comes from, and that every enabled alternative has its rule. -/
theorem rules_sound {g : TGrammar} {insts : List Inst} {rs : List Rule} (h : rulesOf g insts = some rs)
    (hd : NoDead g insts) : ∀ r ∈ rs, ∃ i it nt a, insts[i]? = some it ∧ r.lhs = g.nTerms + i ∧
      g.nts[it.nt]? = some nt ∧ a ∈ nt.alts ∧ checkAlt it.args a = some true ∧
      symsOf g insts it.args a.rhs = some r.rhs := by
  intro r hr
  obtain ⟨j, it, rsj, hj, hi, hm⟩ := (rulesFrom_mem h).1 r hr
  simp only [Nat.zero_add] at hi
  have hdead := hd it (List.mem_of_getElem? hj)
  unfold instRules at hi
  unfold deadInst at hdead
  cases hnt : g.nts[it.nt]? with
  | none => simp [hnt] at hi
  | some nt =>
    simp only [hnt] at hi hdead
    cases hen : enabledAlts it.args nt.alts with
    | none => simp [hen] at hi
    | some alts =>
      cases alts with
      | nil => simp [hen] at hdead
      | cons a0 alts =>
        simp only [hen] at hi
        obtain ⟨a, ha, hs, hl⟩ := (altRules_mem hi).1 r hm
        have := (enabledAlts_mem hen a).mp ha
        exact ⟨j, it, nt, a, hj, hl, hnt, this.1, this.2, hs⟩

theorem rules_lhs_ge {g : TGrammar} {insts : List Inst} {rs : List Rule} (h : rulesOf g insts = some rs) :
    ∀ r ∈ rs, g.nTerms ≤ r.lhs := by
  intro r hr
  obtain ⟨j, it, rsj, hj, hi, hm⟩ := (rulesFrom_mem h).1 r hr
  unfold instRules at hi
  cases hnt : g.nts[it.nt]? with
  | none => simp [hnt] at hi
  | some nt =>
    simp only [hnt] at hi
    cases hen : enabledAlts it.args nt.alts with
    | none => simp [hen] at hi
    | some alts =>
      cases alts with
      | nil =>
        simp [hen] at hi
        subst hi
        simp at hm
        subst hm
        simp
      | cons a0 alts =>
        simp only [hen] at hi
        obtain ⟨a, _, _, hl⟩ := (altRules_mem hi).1 r hm
        omega

theorem rules_complete {g : TGrammar} {insts : List Inst} {rs : List Rule} (h : rulesOf g insts = some rs) :
    ∀ i it nt a, insts[i]? = some it → g.nts[it.nt]? = some nt → a ∈ nt.alts →
      a.enabled (envOf it.args) = true →
      ∃ rhs, symsOf g insts it.args a.rhs = some rhs ∧ ({ lhs := g.nTerms + i, rhs := rhs } : Rule) ∈ rs := by
  intro i it nt a hi hnt ha hen
  obtain ⟨rsj, hir, hm⟩ := (rulesFrom_mem h).2 i it hi
  simp only [Nat.zero_add] at hir
  unfold instRules at hir
  simp only [hnt] at hir
  cases hea : enabledAlts it.args nt.alts with
  | none => simp [hea] at hir
  | some alts =>
    obtain ⟨b, hb⟩ := enabledAlts_defined hea a ha
    have hb' := checkAlt_enabled hb
    rw [hen] at hb'
    subst hb'
    have hmem : a ∈ alts := (enabledAlts_mem hea a).mpr ⟨ha, hb⟩
    cases alts with
    | nil => cases hmem
    | cons a0 alts =>
      simp only [hea] at hir
      obtain ⟨rhs, hs, hr⟩ := (altRules_mem hir).2 a hmem
      exact ⟨rhs, hs, hm _ hr⟩

/-! ### the two directions -/

theorem plain_rules {g : TGrammar} {insts : List Inst} {rs : List Rule} {ins : List GInput} :
    (plain g insts rs ins).rules.toList = rs := by simp [plain]

theorem derives_to_der {g : TGrammar} {insts : List Inst} {rs : List Rule} {ins : List GInput}
    (h : rulesOf g insts = some rs) (hd : NoDead g insts) {X : Nat} {w : List Nat}
    (hder : Derives (plain g insts rs ins) X w) :
    (X < g.nTerms → w = [X]) ∧
    ∀ i it, X = g.nTerms + i → insts[i]? = some it → Der noImp g it.nt (envOf it.args) w := by
  refine @Derives.rec (plain g insts rs ins)
    (fun X w _ => (X < g.nTerms → w = [X]) ∧
      ∀ i it, X = g.nTerms + i → insts[i]? = some it → Der noImp g it.nt (envOf it.args) w)
    (fun α w _ => ∀ (ctx : Bound) (N : Nat) (first : Bool) (syms : List Sym),
      symsOf g insts ctx syms = some α → DerSeq noImp g N (envOf ctx) first syms w)
    ?_ ?_ ?_ ?_ X w hder
  · -- terminal
    intro a ha
    refine ⟨fun _ => rfl, ?_⟩
    intro i it hX _
    have : a < g.nTerms := ha
    omega
  · -- rule
    intro r w hr _ ih
    rw [plain_rules] at hr
    refine ⟨fun hlt => ?_, ?_⟩
    · have := rules_lhs_ge h r hr
      omega
    · intro i it hX hi
      obtain ⟨i', it', nt, a, hi', hl, hnt, ha, hc, hs⟩ := rules_sound h hd r hr
      have hii : i' = i := by omega
      subst hii
      rw [hi] at hi'
      cases hi'
      exact Der.alt _ _ nt a w hnt ha (checkAlt_enabled hc) (ih it.args it.nt true a.rhs hs)
  · -- nil
    intro ctx N first syms hs
    cases syms with
    | nil => exact DerSeq.nil _ _ _
    | cons s l =>
      obtain ⟨x, xs, _, _, hα⟩ := symsOf_cons hs
      cases hα
  · -- cons
    intro X α u v _ _ ih1 ih2 ctx N first syms hs
    cases syms with
    | nil => simp [symsOf] at hs
    | cons s l =>
      obtain ⟨x, xs, hx, hxs, hα⟩ := symsOf_cons hs
      cases hα
      cases s with
      | t a =>
        simp only [symOf] at hx
        by_cases ha : a < g.nTerms
        · simp [ha] at hx
          subst hx
          have hu := ih1.1 ha
          subst hu
          exact DerSeq.t _ _ _ a l v ha (ih2 ctx N false l hxs)
        · simp [ha] at hx
      | n m args =>
        obtain ⟨b, j, hb, hj, rfl⟩ := symOf_n hx
        have hder' := ih1.2 j ⟨m, b⟩ rfl hj
        have henv := resolveArgs_env (ctx := ctx) N first m hb
        simp only at hder'
        rw [henv] at hder'
        exact DerSeq.n _ _ _ m args l u v hder' (ih2 ctx N false l hxs)

theorem der_to_derives {g : TGrammar} {insts : List Inst} {rs : List Rule} {ins : List GInput}
    (h : rulesOf g insts = some rs) {N : Nat} {env : Env} {w : List Nat}
    (hder : Der noImp g N env w) :
    ∀ i it, insts[i]? = some it → it.nt = N → envOf it.args = env →
      Derives (plain g insts rs ins) (g.nTerms + i) w := by
  refine @Der.rec noImp g
    (fun N env w _ => ∀ i it, insts[i]? = some it → it.nt = N → envOf it.args = env →
      Derives (plain g insts rs ins) (g.nTerms + i) w)
    (fun N env first syms w _ => ∀ (ctx : Bound), envOf ctx = env → ∀ α, symsOf g insts ctx syms = some α →
      DerivesSeq (plain g insts rs ins) α w)
    ?_ ?_ ?_ ?_ N env w hder
  · -- alternative
    intro N env nt a w hnt ha hen _ ih i it hi hN henv
    subst hN; subst henv
    obtain ⟨rhs, hs, hr⟩ := rules_complete h i it nt a hi hnt ha hen
    have := Derives.rule (g := plain g insts rs ins) { lhs := g.nTerms + i, rhs := rhs } w
      (by rw [plain_rules]; exact hr) (ih it.args rfl rhs hs)
    exact this
  · -- nil
    intro N env first ctx _ α hs
    simp [symsOf] at hs
    subst hs
    exact DerivesSeq.nil
  · -- terminal
    intro N env first a rest v ha _ ih ctx henv α hs
    obtain ⟨x, xs, hx, hxs, rfl⟩ := symsOf_cons hs
    simp [symOf, ha] at hx
    subst hx
    have := DerivesSeq.cons (g := plain g insts rs ins) a xs [a] v (Derives.term a (by simpa [plain] using ha))
      (ih ctx henv xs hxs)
    simpa using this
  · -- nonterminal
    intro N env first m args rest u v _ _ ih1 ih2 ctx henv α hs
    obtain ⟨x, xs, hx, hxs, rfl⟩ := symsOf_cons hs
    obtain ⟨b, j, hb, hj, rfl⟩ := symOf_n hx
    have henv' := resolveArgs_env (ctx := ctx) N first m hb
    rw [henv] at henv'
    exact DerivesSeq.cons _ xs u v (ih1 j ⟨m, b⟩ hj rfl henv') (ih2 ctx henv xs hxs)

/-! ### inputs -/

theorem plainInputs_get {g : TGrammar} {insts : List Inst} :
    ∀ {l : List (Nat × Bool)} {ins : List GInput}, plainInputs g insts l = some ins →
      ∀ (k : Nat) (i : Nat × Bool), l[k]? = some i → ∃ j, ins[k]? = some (GInput.mk (g.nTerms + j) i.2) ∧ insts[j]? = some (Inst.mk i.1 [])
  | [], ins, _, k, i, hk => by simp at hk
  | x :: l, ins, h, k, i, hk => by
    simp only [plainInputs] at h
    cases h1 : indexOf ⟨x.1, []⟩ insts with
    | none => simp [h1] at h
    | some j =>
      cases h2 : plainInputs g insts l with
      | none => simp [h1, h2] at h
      | some r =>
        simp [h1, h2] at h
        subst h
        cases k with
        | zero =>
          simp at hk
          subst hk
          exact ⟨j, by simp, indexOf_get h1⟩
        | succ k =>
          simp at hk
          obtain ⟨j', hj', hi'⟩ := plainInputs_get h2 k i hk
          exact ⟨j', by simpa using hj', hi'⟩

theorem envOf_nil : envOf [] = env0 := by
  funext p
  simp [envOf, lookupB, env0]

end TmVerif.Templates
