import TmVerif.Proofs.DiffMyersL
/-!
C27, Myers search, part 5: points on shortest edit paths.
`Opt A B x y`: `(x, y)` lies on a shortest path (`LCS(A[:x],B[:y]) + LCS(A[x:],B[y:]) = LCS(A,B)`).
Walking along a shortest path the distance from the origin grows by 0 or 1 per step, so every
distance `t` between 0 and the total is attained at some point of a shortest path.
-/
namespace TmVerif.Diff
set_option linter.unusedSectionVars false
variable {α : Type} [DecidableEq α]

theorem drop_eq_cons (A : List α) (x : Nat) (h : x < A.length) :
    A.drop x = A[x] :: A.drop (x + 1) := by
  rw [List.drop_eq_getElem_cons h]

theorem Ls_right_border (A B : List α) (x y : Nat) (h : A.length ≤ x) : Ls A B x y = 0 := by
  unfold Ls; rw [List.drop_eq_nil_of_le h]; simp [lcsRec]

theorem Ls_bottom_border (A B : List α) (x y : Nat) (h : B.length ≤ y) : Ls A B x y = 0 := by
  unfold Ls; rw [List.drop_eq_nil_of_le h]; exact lcsRec_nil_right _

theorem Ls_match (A B : List α) (x y : Nat) (hx : x < A.length) (hy : y < B.length)
    (he : A[x] = B[y]) : Ls A B x y = Ls A B (x + 1) (y + 1) + 1 := by
  unfold Ls
  rw [drop_eq_cons A x hx, drop_eq_cons B y hy, he, lcsRec]
  simp

theorem Ls_nomatch (A B : List α) (x y : Nat) (hx : x < A.length) (hy : y < B.length)
    (he : A[x] ≠ B[y]) : Ls A B x y = max (Ls A B (x + 1) y) (Ls A B x (y + 1)) := by
  unfold Ls
  rw [drop_eq_cons A x hx, drop_eq_cons B y hy, lcsRec_cons_cons_ne _ _ _ _ he,
    ← drop_eq_cons A x hx, ← drop_eq_cons B y hy]

/-- prefixes of the reversed lists are suffixes of the lists -/
theorem Lp_reverse (A B : List α) (x y : Nat) :
    Lp A.reverse B.reverse x y = Ls A B (A.length - x) (B.length - y) := by
  unfold Lp Ls
  rw [List.take_reverse, List.take_reverse, lcsRec_reverse]

/-- `(x, y)` is a grid point on a shortest edit path -/
def Opt (A B : List α) (x y : Nat) : Prop :=
  x ≤ A.length ∧ y ≤ B.length ∧ Lp A B x y + Ls A B x y = lcsRec A B

theorem opt_origin (A B : List α) : Opt A B 0 0 := by
  refine ⟨by omega, by omega, ?_⟩
  rw [Lp_zero_left, Ls_zero]; omega

/-- one step along a shortest path -/
theorem opt_step (A B : List α) (x y : Nat) (h : Opt A B x y)
    (hne : x < A.length ∨ y < B.length) :
    ∃ x' y', Opt A B x' y' ∧ x ≤ x' ∧ y ≤ y' ∧ x + y < x' + y' ∧
      x' + y' + 2 * Lp A B x y ≤ x + y + 2 * Lp A B x' y' + 1 := by
  obtain ⟨hx, hy, ho⟩ := h
  by_cases hxm : x = A.length
  · -- on the right border: go down
    have hyn : y < B.length := by omega
    have z1 := Ls_right_border A B x y (by omega)
    have z2 := Ls_right_border A B x (y + 1) (by omega)
    have t1 := Lp_add_Ls_le A B x (y + 1)
    have t2 := (Lp_succ_y A B x y).1
    exact ⟨x, y + 1, ⟨hx, by omega, by omega⟩, by omega, by omega, by omega, by omega⟩
  · by_cases hyn : y = B.length
    · have z1 := Ls_bottom_border A B x y (by omega)
      have z2 := Ls_bottom_border A B (x + 1) y (by omega)
      have t1 := Lp_add_Ls_le A B (x + 1) y
      have t2 := (Lp_succ_x A B x y).1
      exact ⟨x + 1, y, ⟨by omega, hy, by omega⟩, by omega, by omega, by omega, by omega⟩
    · have hx' : x < A.length := by omega
      have hy' : y < B.length := by omega
      by_cases he : A[x] = B[y]
      · have s1 := Ls_match A B x y hx' hy' he
        have p1 := Lp_match A B x y hx' hy' he
        exact ⟨x + 1, y + 1, ⟨by omega, by omega, by omega⟩, by omega, by omega, by omega, by omega⟩
      · have s1 := Ls_nomatch A B x y hx' hy' he
        by_cases hc : Ls A B x (y + 1) ≤ Ls A B (x + 1) y
        · have t1 := Lp_add_Ls_le A B (x + 1) y
          have t2 := (Lp_succ_x A B x y).1
          exact ⟨x + 1, y, ⟨by omega, hy, by omega⟩, by omega, by omega, by omega, by omega⟩
        · have t1 := Lp_add_Ls_le A B x (y + 1)
          have t2 := (Lp_succ_y A B x y).1
          exact ⟨x, y + 1, ⟨hx, by omega, by omega⟩, by omega, by omega, by omega, by omega⟩

/-- every distance up to the total is attained on a shortest path -/
theorem opt_reach (A B : List α) (t : Nat) (ht : t + 2 * lcsRec A B ≤ A.length + B.length) :
    ∀ N x y, A.length - x + (B.length - y) = N → Opt A B x y → x + y ≤ t + 2 * Lp A B x y →
      ∃ x' y', Opt A B x' y' ∧ x' + y' = t + 2 * Lp A B x' y' := by
  intro N
  induction N using Nat.strongRecOn with
  | ind N ih =>
    intro x y hN ho hle
    by_cases heq : x + y = t + 2 * Lp A B x y
    · exact ⟨x, y, ho, heq⟩
    · have hne : x < A.length ∨ y < B.length := by
        apply Classical.byContradiction
        intro hc
        obtain ⟨hx, hy, hs⟩ := ho
        have ex : x = A.length := by omega
        have ey : y = B.length := by omega
        subst ex; subst ey
        rw [Lp_full] at hle heq
        omega
      obtain ⟨x', y', ho', h1, h2, h3, h4⟩ := opt_step A B x y ho hne
      have hx' := ho'.1
      have hy' := ho'.2.1
      exact ih (A.length - x' + (B.length - y')) (by omega) x' y' rfl ho' (by omega)

theorem opt_midpoint (A B : List α) (t : Nat) (ht : t + 2 * lcsRec A B ≤ A.length + B.length) :
    ∃ x y, Opt A B x y ∧ x + y = t + 2 * Lp A B x y := by
  refine opt_reach A B t ht _ 0 0 rfl (opt_origin A B) ?_
  rw [Lp_zero_left]; omega

end TmVerif.Diff
