import TmVerif.Model.AstTypes
/-!
C21: with a closed nullable set, `nodesNonEmpty` guarantees that every node range (rule type or nested
reported range) spans at least one token in every derivation.
-/
namespace TmVerif.AstTypes

def NullOK (nul : List Bool) : Tgt → Prop
  | .sym s => nul.getD s false = true
  | .seq is => itemsNullable nul is = true

theorem nullable_sound {g : AGrammar} {nul : List Bool} (hc : nullClosed g nul = true)
    {tgt : Tgt} {n : Nat} (h : Toks g tgt n) : n = 0 → NullOK nul tgt := by
  induction h with
  | term s _ => intro h0; cases h0
  | rule r n hr _ ih =>
    intro h0
    have := List.all_eq_true.mp hc r hr
    have hb : itemsNullable nul r.body = true := ih h0
    simpa [NullOK, hb] using this
  | nil => intro _; rfl
  | consSym s rest m n _ _ ih1 ih2 =>
    intro h0
    have h1 : m = 0 := by omega
    have h2 : n = 0 := by omega
    have a1 : nul.getD s false = true := ih1 h1
    have a2 : itemsNullable nul rest = true := ih2 h2
    simp only [NullOK, itemsNullable, a1, a2, Bool.and_self]
  | consNode t kids rest m n _ _ ih1 ih2 =>
    intro h0
    have h1 : m = 0 := by omega
    have h2 : n = 0 := by omega
    have a1 : itemsNullable nul kids = true := ih1 h1
    have a2 : itemsNullable nul rest = true := ih2 h2
    simp only [NullOK, itemsNullable, a1, a2, Bool.and_self]

theorem nodes_nonempty {g : AGrammar} {nul : List Bool} (hc : nullClosed g nul = true)
    (hn : nodesNonEmpty g nul = true) {r : ARule} (hr : r ∈ g.rules) :
    (r.ruleType ≠ 0 → ∀ n, Toks g (.seq r.body) n → 0 < n) ∧
    (∀ t kids, (t, kids) ∈ r.body.occs → ∀ n, Toks g (.seq kids) n → 0 < n) := by
  have h := List.all_eq_true.mp hn r hr
  rw [Bool.and_eq_true] at h
  constructor
  · intro ht n hT
    cases n with
    | succ n => omega
    | zero =>
      have hb : itemsNullable nul r.body = true := nullable_sound hc hT rfl
      have := h.1
      simp [hb] at this
      exact absurd this ht
  · intro t kids hk n hT
    cases n with
    | succ n => omega
    | zero =>
      have hb : itemsNullable nul kids = true := nullable_sound hc hT rfl
      have := List.all_eq_true.mp h.2 (t, kids) hk
      simp [hb] at this

end TmVerif.AstTypes
