import TmVerif.Model.Lookahead
/-!
Helper lemmas for C08: `pickLookahead` returns a literal that separates the picked alternative from
all others; the elimination loop therefore builds a correct decision list over mutually exclusive
alternatives; the DFS accepts only acyclic order graphs with a Hamiltonian path.
-/
namespace TmVerif.Lookahead

/-! ### literals -/

theorem holds_of_accepts {ps : List Pred} {x : Int} {ng : Bool} {v : Int → Bool}
    (h : accepts ps x = some ng) (hs : ps.all (holds · v) = true) : (v x != ng) = true := by
  induction ps with
  | nil => simp [accepts] at h
  | cons p ps ih =>
    simp only [List.all_cons, Bool.and_eq_true] at hs
    unfold accepts at h
    split at h
    · next hx =>
      have : p.negated = ng := by simpa using h
      subst this; subst hx
      simpa [holds] using hs.1
    · exact ih h hs.2

/-! ### pickLookahead -/

/-- update of `pos` / `neg` in one iteration of the loop of `pickLookahead` -/
def slot (s : Int) (hit : Bool) (i : Int) : Int := if hit then (if s = -1 then i else -2) else s

def slotRun : List Bool → Int → Int → Int
  | [], _, s => s
  | h :: hs, i, s => slotRun hs (i + 1) (slot s h i)

def flags (x : Int) : List Alt → Option (List Bool)
  | [] => some []
  | la :: rest =>
    match accepts la.preds x with
    | none => none
    | some b => (flags x rest).map (b :: ·)

theorem pickLoop_eq (x : Int) (las : List Alt) (i pos neg : Int) :
    pickLoop x las i pos neg =
      (flags x las).map fun fs => (slotRun (fs.map (!·)) i pos, slotRun fs i neg) := by
  induction las generalizing i pos neg with
  | nil => simp [pickLoop, flags, slotRun]
  | cons la rest ih =>
    unfold pickLoop flags
    cases hacc : accepts la.preds x with
    | none => simp
    | some b =>
      simp only [ih]
      cases hf : flags x rest with
      | none => simp
      | some fs =>
        cases b <;> by_cases hp : pos = -1 <;> by_cases hn : neg = -1 <;>
          simp [slotRun, slot, hp, hn]

theorem flags_spec {x : Int} {las : List Alt} {fs : List Bool} (h : flags x las = some fs) :
    fs.length = las.length ∧
      ∀ j (h1 : j < las.length) (h2 : j < fs.length), accepts las[j].preds x = some fs[j] := by
  induction las generalizing fs with
  | nil =>
    simp [flags] at h; subst h; simp
  | cons la rest ih =>
    unfold flags at h
    cases hacc : accepts la.preds x with
    | none => simp [hacc] at h
    | some b =>
      simp only [hacc] at h
      cases hf : flags x rest with
      | none => simp [hf] at h
      | some fs' =>
        simp only [hf, Option.map_some, Option.some.injEq] at h
        subst h
        have := ih hf
        refine ⟨by simp [this.1], ?_⟩
        intro j h1 h2
        cases j with
        | zero => simpa using hacc
        | succ j => simpa using this.2 j (by simpa using h1) (by simpa using h2)

theorem slotRun_neg2 (hs : List Bool) (i : Int) : slotRun hs i (-2) = -2 := by
  induction hs generalizing i with
  | nil => rfl
  | cons h hs ih => cases h <;> simp [slotRun, slot, ih]

theorem slotRun_nonneg (hs : List Bool) (i s : Int) (h0 : 0 ≤ s) :
    (slotRun hs i s = s ∧ ∀ j (hj : j < hs.length), hs[j] = false) ∨ slotRun hs i s = -2 := by
  induction hs generalizing i with
  | nil => left; simp [slotRun]
  | cons h hs ih =>
    cases h with
    | true =>
      right
      have : s ≠ -1 := by omega
      simp [slotRun, slot, this, slotRun_neg2]
    | false =>
      simp only [slotRun, slot]
      rcases ih (i + 1) with h1 | h1
      · left
        refine ⟨by simpa using h1.1, ?_⟩
        intro j hj
        cases j with
        | zero => rfl
        | succ j => simpa using h1.2 j (by simpa using hj)
      · right; simpa using h1

theorem slotRun_m1 (hs : List Bool) (i : Int) (hi : 0 ≤ i) (hr : 0 ≤ slotRun hs i (-1)) :
    ∃ j, ∃ hj : j < hs.length, slotRun hs i (-1) = i + j ∧ hs[j] = true ∧
      ∀ j' (hj' : j' < hs.length), j' ≠ j → hs[j'] = false := by
  induction hs generalizing i with
  | nil => simp [slotRun] at hr
  | cons h hs ih =>
    cases h with
    | true =>
      simp only [slotRun, slot, if_true] at hr ⊢
      rcases slotRun_nonneg hs (i + 1) i hi with h1 | h1
      · refine ⟨0, by simp, by simpa using h1.1, by simp, ?_⟩
        intro j' hj' hne
        cases j' with
        | zero => exact absurd rfl hne
        | succ j' => simpa using h1.2 j' (by simpa using hj')
      · rw [h1] at hr; omega
    | false =>
      simp only [slotRun, slot] at hr ⊢
      obtain ⟨j, hj, e, hjt, hoth⟩ := ih (i + 1) (by omega) (by simpa using hr)
      refine ⟨j + 1, by simpa using hj, ?_, by simpa using hjt, ?_⟩
      · simp only [Bool.false_eq_true, if_false] at e ⊢
        rw [e]; omega
      · intro j' hj' hne
        cases j' with
        | zero => rfl
        | succ j' => simpa using hoth j' (by simpa using hj') (by omega)

/-- `x` with polarity `ng` separates alternative `k` from all the others. -/
def Sep (las : List Alt) (x : Int) (k : Nat) (ng : Bool) : Prop :=
  ∃ hk : k < las.length, accepts las[k].preds x = some ng ∧
    ∀ j (hj : j < las.length), j ≠ k → accepts las[j].preds x = some (!ng)

theorem pick_spec {x : Int} {las : List Alt} {k : Nat} {ng : Bool}
    (h : pickLookahead x las = some (k, ng)) : Sep las x k ng := by
  unfold pickLookahead at h
  rw [pickLoop_eq] at h
  cases hf : flags x las with
  | none => simp [hf] at h
  | some fs =>
    have hfs := flags_spec hf
    simp only [hf, Option.map_some] at h
    split at h
    · -- pos ≥ 0
      next hp =>
      simp only [Option.some.injEq, Prod.mk.injEq] at h
      obtain ⟨hk, hng⟩ := h
      subst hng
      obtain ⟨j, hj, e, hjt, hoth⟩ := slotRun_m1 (fs.map (!·)) 0 (by omega) hp
      have hjk : j = k := by rw [e] at hk; omega
      subst hjk
      have hjl : j < fs.length := by simpa using hj
      refine ⟨by omega, ?_, ?_⟩
      · rw [hfs.2 j (by omega) hjl]
        simpa using hjt
      · intro j' hj' hne
        rw [hfs.2 j' hj' (by omega)]
        have h3 := hoth j' (by simp; omega) hne
        rw [List.getElem_map] at h3
        simpa using h3
    · next hp =>
      split at h
      · next hn =>
        simp only [Option.some.injEq, Prod.mk.injEq] at h
        obtain ⟨hk, hng⟩ := h
        subst hng
        obtain ⟨j, hj, e, hjt, hoth⟩ := slotRun_m1 fs 0 (by omega) hn
        have hjk : j = k := by rw [e] at hk; omega
        subst hjk
        refine ⟨by omega, ?_, ?_⟩
        · rw [hfs.2 j (by omega) hj]; simp [hjt]
        · intro j' hj' hne
          rw [hfs.2 j' hj' (by omega)]
          simp [hoth j' (by omega) hne]
      · simp at h

theorem tryOrder_spec {las : List Alt} {order : List Int} {i i' : Nat} {x : Int} {k : Nat} {ng : Bool}
    (h : tryOrder las order i = some (i', x, k, ng)) : pickLookahead x las = some (k, ng) := by
  induction order generalizing i with
  | nil => simp [tryOrder] at h
  | cons y ys ih =>
    unfold tryOrder at h
    split at h
    · next k' ng' hp =>
      simp only [Option.some.injEq, Prod.mk.injEq] at h
      obtain ⟨_, rfl, rfl, rfl⟩ := h
      exact hp
    · exact ih h

/-! ### swapRemove -/

theorem swapRemove_perm {α} (l : List α) (k : Nat) (hk : k < l.length) :
    (swapRemove l k).Perm (l.eraseIdx k) := by
  induction l generalizing k with
  | nil => simp at hk
  | cons a t ih =>
    cases t with
    | nil =>
      have : k = 0 := by simpa using hk
      subst this
      simp [swapRemove]
    | cons b t' =>
      have hlast : (a :: b :: t').getLast? = (b :: t').getLast? := by simp [List.getLast?_cons_cons]
      have hne : (b :: t') ≠ [] := by simp
      obtain ⟨last, hl, hdl⟩ : ∃ last, (b :: t').getLast? = some last ∧
          (b :: t').dropLast ++ [last] = b :: t' :=
        ⟨_, List.getLast?_eq_some_getLast hne, List.dropLast_concat_getLast hne⟩
      cases k with
      | zero =>
        simp only [swapRemove, hlast, hl, List.set_cons_zero, List.eraseIdx_cons_zero]
        rw [List.dropLast_cons_of_ne_nil (by simp)]
        have : (last :: (b :: t').dropLast).Perm ((b :: t').dropLast ++ [last]) := by
          simpa using (List.perm_append_comm (l₁ := [last]) (l₂ := (b :: t').dropLast))
        rw [hdl] at this
        exact this
      | succ k =>
        have ih' := ih k (by simpa using hk)
        simp only [swapRemove, hl] at ih'
        simp only [swapRemove, hlast, hl, List.set_cons_succ, List.eraseIdx_cons_succ]
        rw [List.dropLast_cons_of_ne_nil (by
          intro h
          have := congrArg List.length h
          simp at this)]
        exact List.Perm.cons a ih'

theorem perm_cons_eraseIdx {α} (l : List α) (k : Nat) (hk : k < l.length) :
    l.Perm (l[k] :: l.eraseIdx k) := by
  induction l generalizing k with
  | nil => simp at hk
  | cons a t ih =>
    cases k with
    | zero => simp
    | succ k =>
      simp only [List.getElem_cons_succ, List.eraseIdx_cons_succ]
      exact ((ih k (by simpa using hk)).cons a).trans (List.Perm.swap _ _ _)

theorem mem_swapRemove_of_getElem {α} {l : List α} {k j : Nat} (hk : k < l.length) (hj : j < l.length)
    (hne : j ≠ k) : l[j] ∈ swapRemove l k := by
  rw [(swapRemove_perm l k hk).mem_iff, List.mem_eraseIdx_iff_getElem]
  exact ⟨j, hj, hne, rfl⟩

theorem getElem_of_mem_swapRemove {α} {l : List α} {k : Nat} {a : α} (hk : k < l.length)
    (h : a ∈ swapRemove l k) : ∃ j, ∃ hj : j < l.length, j ≠ k ∧ l[j] = a := by
  rw [(swapRemove_perm l k hk).mem_iff, List.mem_eraseIdx_iff_getElem] at h
  obtain ⟨j, hj, hne, e⟩ := h
  exact ⟨j, hj, hne, e⟩

/-! ### the elimination loop -/

/-- no valuation satisfies both alternatives -/
def Excl (a b : Alt) : Prop := ∀ v : Int → Bool, ¬(sat a v = true ∧ sat b v = true)

theorem Excl.symm {a b : Alt} (h : Excl a b) : Excl b a := fun v hv => h v ⟨hv.2, hv.1⟩

theorem excl_of_sep {a b : Alt} {x : Int} {ng : Bool} (ha : accepts a.preds x = some ng)
    (hb : accepts b.preds x = some (!ng)) : Excl a b := by
  intro v hv
  have e1 := holds_of_accepts ha hv.1
  have e2 := holds_of_accepts hb hv.2
  cases hvx : v x <;> cases ng <;> simp_all

theorem elim_short {fuel : Nat} {las : List Alt} {order : List Int} (h : ¬ las.length > 1) :
    elim fuel las order =
      match las with
      | la :: _ => .ok { cases := [], default := la.target }
      | [] => .error .panic := by
  rw [elim.eq_def]; simp only [h, if_false]
  cases las <;> rfl

theorem elim_zero {las : List Alt} {order : List Int} (h : las.length > 1) :
    elim 0 las order = .error .fuel := by
  rw [elim.eq_def]; simp only [h, if_true]

theorem elim_succ {fuel : Nat} {las : List Alt} {order : List Int} (h : las.length > 1) :
    elim (fuel + 1) las order =
      match tryOrder las order 0 with
      | none => .error .undecidable
      | some (i, x, k, ng) =>
        match elim fuel (swapRemove las k) (swapRemove order i) with
        | .error e => .error e
        | .ok r => .ok { cases := ⟨⟨x, ng⟩, targetAt las k⟩ :: r.cases, default := r.default } := by
  rw [elim.eq_def]; simp only [h, if_true]
  rfl

theorem targetAt_eq {las : List Alt} {k : Nat} (hk : k < las.length) : targetAt las k = las[k].target := by
  simp [targetAt, hk]

/-- Whenever the loop succeeds, every alternative that holds under `v` is the one selected. -/
theorem elim_decision {fuel : Nat} {las : List Alt} {order : List Int} {r : Rule}
    (h : elim fuel las order = .ok r) (v : Int → Bool) :
    ∀ la ∈ las, sat la v = true → evalRule r.cases r.default v = la.target := by
  induction fuel generalizing las order r with
  | zero =>
    by_cases hl : las.length > 1
    · rw [elim_zero hl] at h; cases h
    · rw [elim_short hl] at h
      match las, hl, h with
      | [], _, h => cases h
      | [la], _, h =>
        cases h
        intro la' hm _
        simp at hm; subst hm; simp [evalRule]
      | _ :: _ :: _, hl, _ => simp at hl
  | succ n ih =>
    by_cases hl : las.length > 1
    · rw [elim_succ hl] at h
      split at h
      · cases h
      · next i x k ng htry =>
        split at h
        · cases h
        · next r' hrec =>
          cases h
          obtain ⟨hk, hak, hoth⟩ := pick_spec (tryOrder_spec htry)
          intro la hm hs
          obtain ⟨m, hm', rfl⟩ := List.getElem_of_mem hm
          by_cases hmk : m = k
          · subst hmk
            have := holds_of_accepts hak hs
            simp [evalRule, holds, this, targetAt_eq hk]
          · have hneg := holds_of_accepts (hoth m hm' hmk) hs
            have hfalse : holds ⟨x, ng⟩ v = false := by
              cases hvx : v x <;> cases ng <;> simp_all [holds]
            simp only [evalRule, hfalse]
            exact ih hrec _ (mem_swapRemove_of_getElem hk hm' hmk) hs
    · rw [elim_short hl] at h
      match las, hl, h with
      | [], _, h => cases h
      | [la], _, h =>
        cases h
        intro la' hm _
        simp at hm; subst hm; simp [evalRule]
      | _ :: _ :: _, hl, _ => simp at hl

/-- Whenever the loop succeeds, the alternatives are pairwise mutually exclusive. -/
theorem elim_exclusive {fuel : Nat} {las : List Alt} {order : List Int} {r : Rule}
    (h : elim fuel las order = .ok r) : las.Pairwise Excl := by
  induction fuel generalizing las order r with
  | zero =>
    by_cases hl : las.length > 1
    · rw [elim_zero hl] at h; cases h
    · match las, hl with
      | [], _ => simp
      | [la], _ => simp
      | _ :: _ :: _, hl => simp at hl
  | succ n ih =>
    by_cases hl : las.length > 1
    · rw [elim_succ hl] at h
      split at h
      · cases h
      · next i x k ng htry =>
        split at h
        · cases h
        · next r' hrec =>
          obtain ⟨hk, hak, hoth⟩ := pick_spec (tryOrder_spec htry)
          have hrest : (las.eraseIdx k).Pairwise Excl :=
            ((swapRemove_perm las k hk).pairwise_iff (fun hab => Excl.symm hab)).1 (ih hrec)
          have hperm : las.Perm (las[k] :: las.eraseIdx k) := perm_cons_eraseIdx las k hk
          refine (hperm.pairwise_iff (fun hab => Excl.symm hab)).2 ?_
          refine List.pairwise_cons.2 ⟨?_, hrest⟩
          intro b hb
          rw [List.mem_eraseIdx_iff_getElem] at hb
          obtain ⟨j, hj, hne, rfl⟩ := hb
          exact excl_of_sep hak (hoth j hj hne)
    · match las, hl with
      | [], _ => simp
      | [la], _ => simp
      | _ :: _ :: _, hl => simp at hl

end TmVerif.Lookahead
