import TmVerif.Proofs.LexTables
import TmVerif.Model.ShiftDfa
/-!
Helper lemmas for C24: bit fields of the packed rows, the byte classes computed by `Pack`,
the invariant of the packing loops and the simulation of `Tables.Scan` by `Scanner.Scan`.
-/
namespace TmVerif.ShiftDfa
open TmVerif.LexTables

/-! ### bit fields -/


/-- 6-bit field `q` of a table row. -/
def field (q x : Nat) : Nat := (x >>> (q * 6)) &&& 63

theorem field_or (q x y : Nat) : field q (x ||| y) = field q x ||| field q y := by
  unfold field
  rw [Nat.shiftRight_or_distrib, Nat.and_or_distrib_right]

theorem field_zero (q : Nat) : field q 0 = 0 := by simp [field]

theorem field_shiftLeft (q q' v : Nat) (hv : v < 64) :
    field q (v <<< (q' * 6)) = if q = q' then v else 0 := by
  unfold field
  apply Nat.eq_of_testBit_eq
  intro i
  have h63 : (63 : Nat) = 2 ^ 6 - 1 := by decide
  rw [Nat.testBit_and, Nat.testBit_shiftRight, Nat.testBit_shiftLeft, h63, Nat.testBit_two_pow_sub_one]
  by_cases hi : i < 6
  · by_cases hq : q = q'
    · subst hq
      simp [hi]
    · simp only [hq, if_false, Nat.zero_testBit]
      by_cases hlt : q < q'
      · have : ¬ (q * 6 + i ≥ q' * 6) := by omega
        simp [this]
      · have h6 : v < 2 ^ (q * 6 + i - q' * 6) := by
          have : 2 ^ 6 ≤ 2 ^ (q * 6 + i - q' * 6) := Nat.pow_le_pow_right (by decide) (by omega)
          omega
        simp [Nat.testBit_lt_two_pow h6]
  · simp only [hi, decide_false, Bool.and_false]
    have hv' : v < 2 ^ i := by
      have : 2 ^ 6 ≤ 2 ^ i := Nat.pow_le_pow_right (by decide) (by omega)
      omega
    split
    · exact (Nat.testBit_lt_two_pow hv').symm
    · simp

theorem shiftLeft_lt (q v : Nat) (hv : v < 64) (hq : q ≤ 9) : v <<< (q * 6) < 2 ^ 64 := by
  rw [Nat.shiftLeft_eq]
  have h1 : 2 ^ (q * 6) ≤ 2 ^ 54 := Nat.pow_le_pow_right (by decide) (by omega)
  have h2 : v * 2 ^ (q * 6) ≤ 63 * 2 ^ 54 := Nat.mul_le_mul (by omega) h1
  have : 63 * 2 ^ 54 < 2 ^ 64 := by decide
  omega

theorem field_eq_mod (q x : Nat) : field q x = (x >>> (q * 6)) % 64 := by
  unfold field
  have h63 : (63 : Nat) = 2 ^ 6 - 1 := by decide
  rw [h63, Nat.and_two_pow_sub_one_eq_mod]


/-! ### byte classes -/


theorem orBytes_size (l : List Nat) (v : Nat) (tb : Array Nat) : (orBytes tb l v).size = tb.size := by
  unfold orBytes
  induction l generalizing tb with
  | nil => rfl
  | cons a l ih => simp only [List.foldl_cons]; rw [ih]; exact Array.size_modify

theorem orBytes_getD (l : List Nat) (v : Nat) (tb : Array Nat) (i : Nat) (hi : i < tb.size) :
    (orBytes tb l v).getD i 0 = if i ∈ l then tb.getD i 0 ||| v else tb.getD i 0 := by
  unfold orBytes
  induction l generalizing tb with
  | nil => simp
  | cons a l ih =>
    simp only [List.foldl_cons]
    rw [ih _ (by rw [Array.size_modify]; exact hi)]
    simp only [Array.getD_eq_getD_getElem?, Array.getElem?_modify, List.mem_cons]
    rw [Array.getElem?_eq_getElem hi]
    by_cases hia : a = i
    · subst hia
      by_cases hil : a ∈ l
      · simp [hil, Nat.or_assoc]
      · simp [hil]
    · have : ¬ i = a := fun h => hia h.symm
      simp [hia, this]

/-- `e` before byte `k` is processed by the loop `for i := uint8(0); i < 128; i++` of `Pack`. -/
def walk (t : Tables) : Nat → Nat
  | 0 => 0
  | k + 1 => walkStep t (walk t k) k

theorem walkStep_lt (t : Tables) (e i : Nat) (h1 : e + 1 < t.symbolMap.size) :
    walkStep t e i = if t.symbolMap[e + 1].start = (i : Int) then e + 1 else e := by
  unfold walkStep
  rw [Array.getElem?_eq_getElem h1]

theorem walkStep_last (t : Tables) (e i : Nat) (h1 : ¬ e + 1 < t.symbolMap.size) :
    walkStep t e i = e := by
  unfold walkStep
  rw [Array.getElem?_eq_none (by omega)]

/-- after byte `k`, `e` is the segment of `k` -/
theorem walk_spec (t : Tables) (w : WF t) (k : Nat) :
    ∃ h : walk t (k + 1) < t.symbolMap.size,
      t.symbolMap[walk t (k + 1)].start ≤ (k : Int) ∧
      (∀ h1 : walk t (k + 1) + 1 < t.symbolMap.size, (k : Int) < t.symbolMap[walk t (k + 1) + 1].start) := by
  induction k with
  | zero =>
    have h0 := w.start0 w.map_ne
    have hw : walk t (0 + 1) = 0 := by
      simp only [walk]
      by_cases h1 : 0 + 1 < t.symbolMap.size
      · rw [walkStep_lt t 0 0 h1]
        have hs := w.sorted 0 1 (by omega) h1
        have hne : ¬ t.symbolMap[0 + 1].start = ((0 : Nat) : Int) := by
          simp only [Nat.zero_add]; omega
        simp only [hne, if_false]
      · exact walkStep_last t 0 0 h1
    rw [hw]
    refine ⟨w.map_ne, by omega, ?_⟩
    intro h1
    have hs := w.sorted 0 1 (by omega) h1
    simp only [Nat.zero_add]; omega
  | succ k ih =>
    obtain ⟨he, hlo, hhi⟩ := ih
    have hw : walk t (k + 1 + 1) = walkStep t (walk t (k + 1)) (k + 1) := rfl
    rw [hw]
    generalize walk t (k + 1) = e at *
    by_cases h1 : e + 1 < t.symbolMap.size
    · rw [walkStep_lt t e (k + 1) h1]
      have hh := hhi h1
      by_cases heq : t.symbolMap[e + 1].start = ((k + 1 : Nat) : Int)
      · simp only [heq, if_true]
        refine ⟨h1, by omega, ?_⟩
        intro h2
        have := w.sorted (e + 1) (e + 1 + 1) (by omega) h2
        omega
      · simp only [heq, if_false]
        refine ⟨he, by omega, ?_⟩
        intro _
        omega
    · rw [walkStep_last t e (k + 1) h1]
      refine ⟨he, by omega, ?_⟩
      intro h; omega

theorem walk_eq_symIndex (t : Tables) (w : WF t) (k : Nat) : walk t (k + 1) = symIndex t k := by
  obtain ⟨he, hlo, hhi⟩ := walk_spec t w k
  exact (symIndex_eq t w k _ he (Or.inr hlo) hhi).symm



/-- target (as a natural number) of segment `e` -/
def tgtN (t : Tables) (e : Nat) : Nat := ((t.symbolMap[e]?).map (·.target.toNat)).getD 0

theorem symBytes_fold (t : Tables) (n : Nat)
    (hw : ∀ k, ∃ h : walk t (k + 1) < t.symbolMap.size,
      0 ≤ t.symbolMap[walk t (k + 1)].target ∧ t.symbolMap[walk t (k + 1)].target.toNat < n) :
    ∀ k, ∃ sb, (List.range k).foldlM (symBytesStep t) (0, Array.replicate n []) = some (walk t k, sb) ∧
      sb.size = n ∧ ∀ s i, i ∈ sb.getD s [] ↔ (i < k ∧ tgtN t (walk t (i + 1)) = s) := by
  intro k
  induction k with
  | zero =>
    refine ⟨Array.replicate n [], rfl, by simp, ?_⟩
    intro s i
    simp [Array.getD_eq_getD_getElem?, Array.getElem?_replicate]
    split <;> simp
  | succ k ih =>
    obtain ⟨sb, hf, hsz, hmem⟩ := ih
    obtain ⟨he, ht0, htn⟩ := hw k
    rw [List.range_succ, List.foldlM_append, hf]
    simp only [Option.bind_eq_bind, Option.bind_some, List.foldlM_cons, List.foldlM_nil]
    have hstep : symBytesStep t (walk t k, sb) k =
        some (walk t (k + 1), sb.modify (t.symbolMap[walk t (k + 1)].target.toNat) (· ++ [k])) := by
      unfold symBytesStep
      show (match t.symbolMap[walk t (k + 1)]? with
        | none => none
        | some en => if 0 ≤ en.target ∧ en.target.toNat < sb.size
            then some (walk t (k + 1), sb.modify en.target.toNat (· ++ [k])) else none) = _
      rw [Array.getElem?_eq_getElem he]
      simp only [ht0, hsz, htn, and_self, if_true]
    rw [hstep]
    refine ⟨_, rfl, by rw [Array.size_modify]; exact hsz, ?_⟩
    intro s i
    have htg : tgtN t (walk t (k + 1)) = t.symbolMap[walk t (k + 1)].target.toNat := by
      unfold tgtN; rw [Array.getElem?_eq_getElem he]; rfl
    generalize t.symbolMap[walk t (k + 1)].target.toNat = tg at *
    simp only [Array.getD_eq_getD_getElem?, Array.getElem?_modify]
    have hm := hmem s i
    simp only [Array.getD_eq_getD_getElem?] at hm
    by_cases hs : tg = s
    · subst hs
      simp only [if_true]
      rw [Array.getElem?_eq_getElem (by omega)] at hm ⊢
      simp only [Option.map_some, Option.getD_some, List.mem_append, List.mem_singleton] at hm ⊢
      rw [hm]
      constructor
      · rintro (⟨h1, h2⟩ | h)
        · exact ⟨by omega, h2⟩
        · subst h; exact ⟨by omega, htg⟩
      · rintro ⟨h1, h2⟩
        by_cases hik : i = k
        · exact Or.inr hik
        · exact Or.inl ⟨by omega, h2⟩
    · simp only [hs, if_false]
      rw [hm]
      constructor
      · rintro ⟨h1, h2⟩; exact ⟨by omega, h2⟩
      · rintro ⟨h1, h2⟩
        by_cases hik : i = k
        · subst hik; rw [htg] at h2; exact absurd h2 hs
        · exact ⟨by omega, h2⟩


/-! ### the packing loops -/


/-- value of `encodeTarget` when it succeeds -/
def encVal (x : Int) : Nat := if x < 0 then ((-1 - x) * 2 + 1).toNat else (x * 6).toNat

theorem encodeTarget_ok (x : Int) (v : Nat) (h : encodeTarget x = .ok v) :
    v = encVal x ∧ (x < 0 → -1 - x < 32) := by
  unfold encodeTarget at h
  unfold encVal
  by_cases hx : x < 0
  · simp only [hx, if_true] at h ⊢
    by_cases ha : -1 - x ≥ 32
    · simp [ha] at h
    · simp only [ha, if_false, Except.ok.injEq] at h
      exact ⟨h.symm, fun _ => by omega⟩
  · simp only [hx, if_false, Except.ok.injEq] at h ⊢
    exact ⟨h.symm, fun h' => h'.elim⟩

/-- symbol of byte `b` according to the lookup of `Tables.Scan` -/
def symN (t : Tables) (b : Nat) : Nat := ((symOf t b).getD 0).toNat

/-- encoded content of the cell `(q, s)` -/
def cellVal (t : Tables) (n q s : Nat) : Nat := encVal (t.dfa.getD (q * n + s) 0)

/-- `cls b` is the symbol whose cells `Pack` ORs into row `b`. -/
structure ByteClasses (cls : Nat → Nat) (sb : Array (List Nat)) (uni : Int) : Prop where
  low : ∀ s b, b ∈ sb.getD s [] ↔ (b < 128 ∧ cls b = s)
  uni_nonneg : 0 ≤ uni
  high : ∀ b, 128 ≤ b → b < 256 → cls b = uni.toNat

structure Inv (t : Tables) (n : Nat) (cls : Nat → Nat) (done : List (Nat × Nat)) (r : Scanner) : Prop where
  tsize : r.table.size = 256
  esize : r.onEoi.size = 11
  fld : ∀ b q, b < 256 → field q (r.table.getD b 0) =
    if (q, cls b) ∈ done then cellVal t n q (cls b) else 0
  eoi : ∀ q, (q, 0) ∈ done → r.onEoi.getD q 0 = cellVal t n q 0 / 2 ∧ cellVal t n q 0 % 2 = 1

theorem packCell_inv (t : Tables) (n : Nat) (cls : Nat → Nat) (sb : Array (List Nat)) (uni : Int)
    (bc : ByteClasses cls sb uni) (done : List (Nat × Nat)) (r r' : Scanner) (q s : Nat)
    (hq : q ≤ 9) (hlt : ∀ x, t.dfa[q * n + s]? = some x → x ≤ 9)
    (inv : Inv t n cls done r) (h : packCell t n sb uni r (q, s) = .ok r') :
    Inv t n cls (done ++ [(q, s)]) r' := by
  unfold packCell at h
  simp only at h
  cases hx : t.dfa[q * n + s]? with
  | none => rw [hx] at h; simp at h
  | some x =>
    rw [hx] at h
    simp only at h
    cases he : encodeTarget x with
    | error e => rw [he] at h; simp at h
    | ok v =>
      rw [he] at h
      simp only at h
      obtain ⟨hv, hact⟩ := encodeTarget_ok x v he
      have hx9 := hlt x hx
      have hcv : cellVal t n q s = v := by
        unfold cellVal
        rw [Array.getD_eq_getD_getElem?, hx, hv]; rfl
      have hv64 : v < 64 := by
        rw [hv]; unfold encVal
        by_cases hx0 : x < 0
        · have := hact hx0; simp only [hx0, if_true]; omega
        · simp only [hx0, if_false]; omega
      have hmod : (v <<< (q * 6)) % 2 ^ 64 = v <<< (q * 6) := Nat.mod_eq_of_lt (shiftLeft_lt q v hv64 hq)
      rw [hmod] at h
      by_cases hc : s = 0 ∧ v % 2 = 0
      · simp [hc] at h
      · simp only [hc, if_false] at h
        -- the new table, whichever branch
        have htab : ∀ b, b < 256 → r'.table.size = 256 ∧
            r'.table.getD b 0 = if cls b = s then r.table.getD b 0 ||| v <<< (q * 6) else r.table.getD b 0 := by
          intro b hb
          have h1 := orBytes_getD (sb.getD s []) (v <<< (q * 6)) r.table b (by rw [inv.tsize]; exact hb)
          have hs1 := orBytes_size (sb.getD s []) (v <<< (q * 6)) r.table
          by_cases hu : (s : Int) ≠ uni
          · simp only [hu, ne_eq, not_false_eq_true, if_true, Except.ok.injEq] at h
            subst h
            simp only
            refine ⟨by rw [hs1, inv.tsize], ?_⟩
            rw [h1]
            by_cases hb128 : b < 128
            · simp only [bc.low s b, hb128, true_and]
            · have := bc.high b (by omega) hb
              have hne : ¬ cls b = s := by
                intro h'; apply hu; rw [← h', this]; exact Int.toNat_of_nonneg bc.uni_nonneg
              simp only [bc.low s b, hb128, false_and, if_false, hne]
          · have hu' : (s : Int) = uni := by
              by_cases h' : (s : Int) = uni
              · exact h'
              · exact absurd h' hu
            simp only [hu', ne_eq, not_true_eq_false, if_false, Except.ok.injEq] at h
            subst h
            simp only
            refine ⟨by rw [orBytes_size, hs1, inv.tsize], ?_⟩
            rw [orBytes_getD _ _ _ b (by rw [hs1, inv.tsize]; exact hb), h1]
            by_cases hb128 : b < 128
            · have : ¬ b ∈ List.range' 128 128 := by rw [List.mem_range'_1]; omega
              simp only [this, if_false, bc.low s b, hb128, true_and]
            · have hm : b ∈ List.range' 128 128 := by rw [List.mem_range'_1]; omega
              have := bc.high b (by omega) hb
              have hs : cls b = s := by rw [this, ← hu']; rfl
              simp only [hm, if_true, bc.low s b, hb128, false_and, if_false, hs]
        have heoi : r'.onEoi = if s = 0 then r.onEoi.setIfInBounds q (v % 256 / 2) else r.onEoi := by
          by_cases hu : (s : Int) ≠ uni
          · simp only [hu, ne_eq, not_false_eq_true, if_true, Except.ok.injEq] at h
            subst h; rfl
          · simp only [hu, if_false, Except.ok.injEq] at h
            subst h; rfl
        refine ⟨(htab 0 (by omega)).1, ?_, ?_, ?_⟩
        · rw [heoi]; split
          · rw [Array.size_setIfInBounds]; exact inv.esize
          · exact inv.esize
        · intro b q' hb
          rw [(htab b hb).2]
          have hold := inv.fld b q' hb
          by_cases hsb : cls b = s
          · simp only [hsb, if_true, field_or, field_shiftLeft q' q v hv64] at hold ⊢
            rw [hold]
            by_cases hqq : q' = q
            · subst hqq
              simp only [List.mem_append, List.mem_singleton, or_true, if_true, hcv]
              split <;> simp
            · have : ¬ ((q', s) = (q, s)) := by
                intro h'; apply hqq; exact (Prod.mk.injEq _ _ _ _ ▸ h').1
              simp only [hqq, if_false, Nat.or_zero, List.mem_append, List.mem_singleton, this, or_false]
          · simp only [hsb, if_false]
            rw [hold]
            have : ¬ ((q', cls b) = (q, s)) := by
              intro h'; apply hsb; exact (Prod.mk.injEq _ _ _ _ ▸ h').2
            simp only [List.mem_append, List.mem_singleton, this, or_false]
        · intro q' hmem
          rw [heoi]
          simp only [List.mem_append, List.mem_singleton, Prod.mk.injEq] at hmem
          by_cases hs0 : s = 0
          · subst hs0
            simp only [if_true]
            by_cases hqq : q' = q
            · subst hqq
              rw [Array.getD_eq_getD_getElem?, Array.getElem?_setIfInBounds]
              simp only [if_true, inv.esize]
              have hq11 : q' < 11 := by omega
              simp only [hq11, if_true, Option.getD_some, hcv]
              have : ¬ v % 2 = 0 := fun h' => hc ⟨rfl, h'⟩
              omega
            · rw [Array.getD_eq_getD_getElem?, Array.getElem?_setIfInBounds]
              have : ¬ q = q' := fun h' => hqq h'.symm
              simp only [this, if_false]
              rw [← Array.getD_eq_getD_getElem?]
              rcases hmem with hm | ⟨h1, _⟩
              · exact inv.eoi q' hm
              · exact absurd h1 hqq
          · simp only [hs0, if_false]
            rcases hmem with hm | ⟨_, h2⟩
            · exact inv.eoi q' hm
            · exact absurd h2.symm hs0



theorem foldlM_inv {ε σ α : Type} (f : σ → α → Except ε σ) (I : List α → σ → Prop) (l : List α)
    (step : ∀ d s a s', a ∈ l → I d s → f s a = .ok s' → I (d ++ [a]) s') :
    ∀ (done : List α) (init r : σ), I done init → l.foldlM f init = .ok r → I (done ++ l) r := by
  induction l with
  | nil =>
    intro done init r hi h
    simp only [List.foldlM_nil, pure, Except.pure, Except.ok.injEq] at h
    subst h; simpa using hi
  | cons a l ih =>
    intro done init r hi h
    simp only [List.foldlM_cons, bind, Except.bind] at h
    cases hf : f init a with
    | error e => rw [hf] at h; simp at h
    | ok s1 =>
      rw [hf] at h
      simp only at h
      have h1 := step done init a s1 (List.mem_cons_self) hi hf
      have := ih (fun d s a s' ha => step d s a s' (List.mem_cons_of_mem _ ha)) (done ++ [a]) s1 r h1 h
      simpa using this

theorem mem_cells (S n q s : Nat) : (q, s) ∈ cells S n ↔ q < S ∧ s < n := by
  unfold cells
  simp only [List.mem_flatMap, List.mem_range, List.mem_map, Prod.mk.injEq]
  constructor
  · rintro ⟨a, ha, b, hb, h1, h2⟩
    omega
  · rintro ⟨h1, h2⟩
    exact ⟨q, h1, s, h2, rfl, rfl⟩

theorem symN_eq_tgtN (t : Tables) (b : Nat) : symN t b = tgtN t (symIndex t b) := by
  unfold symN tgtN symOf
  cases t.symbolMap[symIndex t (b : Int)]? <;> simp

theorem inv_empty (t : Tables) (n : Nat) (cls : Nat → Nat) : Inv t n cls [] Scanner.empty := by
  refine ⟨by simp [Scanner.empty], by simp [Scanner.empty], ?_, ?_⟩
  · intro b q hb
    have : Scanner.empty.table.getD b 0 = 0 := by
      simp [Scanner.empty, Array.getD_eq_getD_getElem?, Array.getElem?_replicate]
      split <;> simp
    rw [this, field_zero]; simp
  · intro q hq; simp at hq

/-- The symbol whose cells `Pack` ORs into row `b`: the segment reached by the walk for `b < 128`,
the last segment for `b ≥ 128`. -/
def packCls (t : Tables) (b : Nat) : Nat :=
  if b < 128 then tgtN t (walk t (b + 1)) else tgtN t (t.symbolMap.size - 1)

/-- What a successful `Pack` establishes on well-formed tables (no assumption on the guard). -/
structure PackSpec (guard : Int) (t : Tables) (s : Scanner) : Prop where
  states_le : numStates t ≤ 10
  no_bt : t.backtrack.size = 0
  start0 : t.stateMap[0]? = some 0
  last_le : ∀ e, t.symbolMap.back? = some e → e.start ≤ guard
  sym_lt : ∀ b : Nat, b < 256 → symIndex t (b : Int) < t.symbolMap.size
  fld : ∀ b q, b < 256 → q < numStates t →
    field q (s.table.getD b 0) = cellVal t t.numSymbols.toNat q (packCls t b)
  eoi : ∀ q, q < numStates t →
    s.onEoi.getD q 0 = cellVal t t.numSymbols.toNat q 0 / 2 ∧ cellVal t t.numSymbols.toNat q 0 % 2 = 1

theorem packWith_spec (guard : Int) (t : Tables) (s : Scanner) (w : WF t)
    (h : packWith guard t = .ok s) : PackSpec guard t s := by
  unfold packWith at h
  have hns := w.ns_pos
  have hns0 : ¬ t.numSymbols = 0 := by omega
  simp only [hns0, if_false] at h
  obtain ⟨n, hn⟩ : ∃ n : Nat, t.numSymbols = (n : Int) := ⟨t.numSymbols.toNat, (Int.toNat_of_nonneg (by omega)).symm⟩
  have hnpos : 0 < n := by omega
  have hst : (Int.tdiv (t.dfa.size : Int) t.numSymbols) = ((t.dfa.size / n : Nat) : Int) := by
    rw [hn, Int.tdiv_eq_ediv_of_nonneg (by omega), Int.natCast_ediv]
  have hS : numStates t = t.dfa.size / n := by unfold numStates; rw [hn]; rfl
  rw [hst] at h
  have hnn : t.numSymbols.toNat = n := by rw [hn]; rfl
  rw [hnn] at h
  by_cases h10 : ((t.dfa.size / n : Nat) : Int) > 10
  · rw [if_pos h10] at h; exact nomatch h
  rw [if_neg h10] at h
  by_cases hbt : t.backtrack.size ≠ 0
  · rw [if_pos hbt] at h; exact nomatch h
  rw [if_neg hbt] at h
  by_cases hsm : t.stateMap.size ≠ 1 ∨ t.stateMap[0]? ≠ some 0
  · rw [if_pos hsm] at h; exact nomatch h
  rw [if_neg hsm] at h
  have hmne := w.map_ne
  have hLlt : t.symbolMap.size - 1 < t.symbolMap.size := by omega
  have hlast : t.symbolMap.back? = some (t.symbolMap[t.symbolMap.size - 1]) := by
    rw [Array.back?_eq_getElem?, Array.getElem?_eq_getElem]
  cases hb : t.symbolMap.back? with
  | none => rw [hb] at hlast; exact nomatch hlast
  | some last =>
  rw [hb] at h hlast
  have hlastE : t.symbolMap[t.symbolMap.size - 1] = last := (Option.some.inj hlast).symm
  simp only at h
  by_cases hgd : last.start > guard
  · rw [if_pos hgd] at h; exact nomatch h
  rw [if_neg hgd] at h
  have hneg : ¬ t.numSymbols < 0 := by omega
  rw [if_neg hneg, Int.toNat_natCast] at h
  -- the byte classes
  have hwk : ∀ k, ∃ hh : walk t (k + 1) < t.symbolMap.size,
      0 ≤ t.symbolMap[walk t (k + 1)].target ∧ t.symbolMap[walk t (k + 1)].target.toNat < n := by
    intro k
    obtain ⟨he, _, _⟩ := walk_spec t w k
    have := w.targets _ he
    exact ⟨he, this.1, by omega⟩
  obtain ⟨sb0, hfold, hsz, hmem⟩ := symBytes_fold t n hwk 128
  have hsb : symBytes t n = some sb0 := by unfold symBytes; rw [hfold]; rfl
  rw [hsb] at h
  simp only at h
  have bc : ByteClasses (packCls t) sb0 last.target := by
    refine ⟨?_, by rw [← hlastE]; exact (w.targets _ hLlt).1, ?_⟩
    · intro s b
      rw [hmem s b]
      unfold packCls
      constructor
      · rintro ⟨h1, h2⟩; exact ⟨h1, by rw [if_pos h1]; exact h2⟩
      · rintro ⟨h1, h2⟩; rw [if_pos h1] at h2; exact ⟨h1, h2⟩
    · intro b hb _
      unfold packCls tgtN
      rw [if_neg (by omega), Array.getElem?_eq_getElem hLlt, hlastE]; rfl
  have hS10 : t.dfa.size / n ≤ 10 := by omega
  have hinv := foldlM_inv (packCell t n sb0 last.target) (Inv t n (packCls t)) (cells (t.dfa.size / n) n)
    (by
      intro d r a r' ha hi hf
      obtain ⟨q, s'⟩ := a
      rw [mem_cells] at ha
      apply packCell_inv t n (packCls t) sb0 _ bc d r r' q s' (by omega) _ hi hf
      intro x hx
      have hx' := Array.getElem?_eq_some_iff.mp hx
      obtain ⟨hlt, hxe⟩ := hx'
      have := w.dfa_lt _ hlt
      rw [hxe, hS] at this
      omega)
    [] Scanner.empty s (inv_empty t n (packCls t)) h
  simp only [List.nil_append] at hinv
  have hsymlt : ∀ b, b < 256 → packCls t b < n := by
    intro b _
    unfold packCls
    split
    · obtain ⟨he, _, h2⟩ := hwk b
      unfold tgtN
      rw [Array.getElem?_eq_getElem he]; exact h2
    · unfold tgtN
      rw [Array.getElem?_eq_getElem hLlt]
      have := w.targets _ hLlt
      simp only [Option.map_some, Option.getD_some]
      omega
  refine ⟨by rw [hS]; exact hS10, by omega, ?_, ?_, ?_, ?_, ?_⟩
  · by_cases h0 : t.stateMap[0]? = some 0
    · exact h0
    · exact absurd (Or.inr h0) hsm
  · intro e he
    rw [hb] at he
    cases he
    omega
  · intro b _
    obtain ⟨he, _, _⟩ := walk_spec t w b
    rw [← walk_eq_symIndex t w b]; exact he
  · intro b q hb hq
    rw [hS] at hq
    rw [hnn, hinv.fld b q hb]
    have : (q, packCls t b) ∈ cells (t.dfa.size / n) n := by rw [mem_cells]; exact ⟨hq, hsymlt b hb⟩
    simp only [this, if_true]
  · intro q hq
    rw [hS] at hq
    rw [hnn]
    apply hinv.eoi q
    rw [mem_cells]; exact ⟨hq, hnpos⟩


/-- When the last symbol-map entry starts at or below 0x80, `Pack` classifies every byte as `Scan` does. -/
theorem packCls_eq_symN (t : Tables) (w : WF t)
    (hl : ∀ e, t.symbolMap.back? = some e → e.start ≤ 0x80) (b : Nat) : packCls t b = symN t b := by
  have hmne := w.map_ne
  have hLlt : t.symbolMap.size - 1 < t.symbolMap.size := by omega
  rw [symN_eq_tgtN]
  unfold packCls
  split
  · rw [walk_eq_symIndex t w b]
  · have hlast : t.symbolMap.back? = some (t.symbolMap[t.symbolMap.size - 1]) := by
      rw [Array.back?_eq_getElem?, Array.getElem?_eq_getElem]
    have := hl _ hlast
    have : symIndex t (b : Int) = t.symbolMap.size - 1 := by
      apply symIndex_eq t w _ _ hLlt
      · right; omega
      · intro h1; omega
    rw [this]

/-! ### the two scan loops -/


/-- The part of `Scanner.Scan` after the loop. -/
def Scanner.fin (d : Scanner) (total : Nat) (r : Nat × Nat) : Nat × Nat :=
  if r.2 &&& 1 = 0 then (total, d.onEoi.getD ((r.2 &&& 63) / 6) 0)
  else (r.1 - 1, (r.2 &&& 63) % 256 / 2)

theorem scan_eq_fin (d : Scanner) (input : List UInt8) :
    d.scan input = d.fin input.length (d.scanLoop input 0 0) := rfl

theorem scanLoop_odd (d : Scanner) (input : List UInt8) (i st : Nat) (h : st % 2 = 1) :
    d.scanLoop input i st = (i, st) := by
  cases input with
  | nil => rfl
  | cons b rest =>
    unfold Scanner.scanLoop
    have : ¬ st &&& 1 = 0 := by rw [Nat.and_one_is_mod]; omega
    simp only [this, if_false]

theorem and63 (x : Nat) : x &&& 63 = x % 64 := by
  have h63 : (63 : Nat) = 2 ^ 6 - 1 := by decide
  rw [h63, Nat.and_two_pow_sub_one_eq_mod]

theorem encVal_neg (x : Int) (hx : x < 0) : encVal x % 2 = 1 ∧ ((encVal x / 2 : Nat) : Int) = -1 - x := by
  unfold encVal
  simp only [hx, if_true]
  omega

theorem encVal_nonneg (x : Int) (hx : ¬ x < 0) : encVal x = 6 * x.toNat := by
  unfold encVal
  simp only [hx, if_false]
  omega

/-- Simulation: the packed state is `6 * q` (mod 64) while the lexer is in state `q`. -/
theorem scan_sim (guard : Int) (t : Tables) (s : Scanner) (w : WF t) (ps : PackSpec guard t s)
    (hcls : ∀ b, packCls t b = symN t b) :
    ∀ (input : List UInt8) (i st q : Nat), q < numStates t → st % 64 = 6 * q →
      LexTables.scanLoop t (input.map fun b => ((b.toNat : Int), 1)) i (q : Int) 0 0 =
        some ((s.fin (i + input.length) (s.scanLoop input i st)).1,
          ((s.fin (i + input.length) (s.scanLoop input i st)).2 : Int)) := by
  have hns := w.ns_pos
  obtain ⟨n, hn⟩ : ∃ n : Nat, t.numSymbols = (n : Int) :=
    ⟨t.numSymbols.toNat, (Int.toNat_of_nonneg (by omega)).symm⟩
  have hnn : t.numSymbols.toNat = n := by rw [hn]; rfl
  have hS : numStates t = t.dfa.size / n := by unfold numStates; rw [hnn]
  have hnpos : 0 < n := by omega
  have hact : actionStart t = -1 := by unfold actionStart; rw [ps.no_bt]; rfl
  -- reading a cell that exists
  have hcell : ∀ q c : Nat, q < numStates t → c < n →
      ∃ x, getI t.dfa ((q : Int) * t.numSymbols + (c : Int)) = some x ∧ t.dfa.getD (q * n + c) 0 = x ∧
        x < (numStates t : Int) := by
    intro q c hq hc
    have hlt : q * n + c < t.dfa.size := by
      rw [hS] at hq
      have h1 : (q + 1) * n ≤ (t.dfa.size / n) * n := Nat.mul_le_mul_right n (by omega)
      have h2 : (t.dfa.size / n) * n ≤ t.dfa.size := Nat.div_mul_le_self _ _
      rw [Nat.add_mul] at h1
      omega
    refine ⟨t.dfa[q * n + c], ?_, ?_, w.dfa_lt _ hlt⟩
    · unfold getI
      rw [hn]
      have h0 : (0 : Int) ≤ (q : Int) * (n : Int) + (c : Int) := by
        have : (0 : Int) ≤ ((q * n + c : Nat) : Int) := Int.natCast_nonneg _
        simpa using this
      have hto : ((q : Int) * (n : Int) + (c : Int)).toNat = q * n + c := by
        have : ((q : Int) * (n : Int) + (c : Int)) = ((q * n + c : Nat) : Int) := by simp
        rw [this]; rfl
      rw [if_pos h0, hto, Array.getElem?_eq_getElem hlt]
    · rw [Array.getD_eq_getD_getElem?, Array.getElem?_eq_getElem hlt]; rfl
  intro input
  induction input with
  | nil =>
    intro i st q hq hst
    have hev : st &&& 1 = 0 := by rw [Nat.and_one_is_mod]; omega
    obtain ⟨x, hx1, hx2, _⟩ := hcell q 0 hq hnpos
    have heoi := ps.eoi q hq
    unfold cellVal at heoi
    rw [hnn, hx2] at heoi
    have hxneg : x < 0 := by
      by_cases hx : x < 0
      · exact hx
      · have := encVal_nonneg x hx; omega
    obtain ⟨_, hdiv⟩ := encVal_neg x hxneg
    simp only [List.map_nil, LexTables.scanLoop, Scanner.scanLoop, Scanner.fin, hev, if_true]
    have hx1' : getI t.dfa ((q : Int) * t.numSymbols) = some x := by simpa using hx1
    rw [hx1']
    simp only [hact]
    have hno : ¬ ((-1 : Int) = x ∧ 0 > 0) := by omega
    rw [if_neg hno]
    have hidx : (st &&& 63) / 6 = q := by rw [and63]; omega
    rw [hidx, heoi.1, hdiv]
    simp
  | cons b rest ih =>
    intro i st q hq hst
    have hev : st &&& 1 = 0 := by rw [Nat.and_one_is_mod]; omega
    have hb : b.toNat < 256 := UInt8.toNat_lt b
    -- the symbol of the byte
    have hsi := ps.sym_lt b.toNat hb
    have hsym : symOf t (b.toNat : Int) = some ((symN t b.toNat : Nat) : Int) := by
      unfold symN symOf
      rw [Array.getElem?_eq_getElem hsi]
      simp only [Option.map_some, Option.getD_some]
      rw [Int.toNat_of_nonneg (w.targets _ hsi).1]
    have hsymlt : symN t b.toNat < n := by
      unfold symN symOf
      rw [Array.getElem?_eq_getElem hsi]
      simp only [Option.map_some, Option.getD_some]
      have := w.targets _ hsi
      omega
    obtain ⟨x, hx1, hx2, hxS⟩ := hcell q (symN t b.toNat) hq hsymlt
    have hfld := ps.fld b.toNat q hb hq
    rw [hcls] at hfld
    unfold cellVal at hfld
    rw [hnn, hx2, field_eq_mod] at hfld
    have hsh : st &&& 63 = q * 6 := by rw [and63]; omega
    simp only [List.map_cons, LexTables.scanLoop, hsym, hx1, hact]
    rw [Scanner.scanLoop]
    simp only [hev, if_true, hsh]
    generalize hst' : s.table.getD b.toNat 0 >>> (q * 6) = st' at *
    by_cases hx : x < 0
    · obtain ⟨hodd, hdiv⟩ := encVal_neg x hx
      have hno1 : ¬ x > -1 := by omega
      have hno2 : ¬ ((-1 : Int) = x ∧ 0 > 0) := by omega
      simp only [hx, if_true, hno1, if_false, hno2]
      rw [scanLoop_odd s rest (i + 1) st' (by omega)]
      have hne : ¬ st' &&& 1 = 0 := by rw [Nat.and_one_is_mod]; omega
      simp only [Scanner.fin, hne, if_false, and63, hfld]
      have h64 : encVal x < 64 := by rw [← hfld]; exact Nat.mod_lt _ (by decide)
      have : encVal x % 256 / 2 = encVal x / 2 := by omega
      rw [this, hdiv]
      simp
    · have henc := encVal_nonneg x hx
      simp only [hx, if_false]
      have hq' : x.toNat < numStates t := by omega
      have hxe : ((x.toNat : Nat) : Int) = x := Int.toNat_of_nonneg (by omega)
      have := ih (i + 1) st' x.toNat hq' (by omega)
      rw [hxe] at this
      rw [this]
      have hlen : i + 1 + rest.length = i + (b :: rest).length := by simp; omega
      rw [hlen]


/-- `Pack` with a guard constant `≤ 0x80` (or tables whose last map entry starts at or below 0x80):
the packed scanner returns what `Tables.Scan(0, ·)` returns, on every byte string. -/
theorem packWith_agrees (guard : Int) (t : Tables) (s : Scanner)
    (hg : guard ≤ 0x80 ∨ ∀ e, t.symbolMap.back? = some e → e.start ≤ 0x80)
    (hwf : t.wf = true) (h : packWith guard t = .ok s) (input : List UInt8) :
    lexScanBytes t 0 input = some ((s.scan input).1, ((s.scan input).2 : Int)) := by
  have w := wf_of_wf t hwf
  have ps := packWith_spec guard t s w h
  have hl : ∀ e, t.symbolMap.back? = some e → e.start ≤ 0x80 := by
    intro e he
    rcases hg with hg | hg
    · have := ps.last_le e he; omega
    · exact hg e he
  unfold lexScanBytes lexScanChars
  have h0 : getI t.stateMap 0 = some 0 := by
    unfold getI; simpa using ps.start0
  rw [h0]
  have hsz : 0 < t.stateMap.size := (Array.getElem?_eq_some_iff.mp ps.start0).1
  have hq : 0 < numStates t := by
    have h1 := (w.start_states 0 hsz).2
    have h2 : t.stateMap[0] = 0 := (Array.getElem?_eq_some_iff.mp ps.start0).2
    rw [h2] at h1
    omega
  have := scan_sim guard t s w ps (packCls_eq_symN t w hl) input 0 0 0 hq (by omega)
  simp only [Nat.zero_add] at this
  rw [scan_eq_fin]
  exact this

/-- If field 0 of the row of the first byte is an (odd) action code `v`, `Scan` stops there:
it returns size 0 and token `v / 2`. -/
theorem scan_first_odd (d : Scanner) (b : UInt8) (rest : List UInt8) (v : Nat)
    (h : field 0 (d.table.getD b.toNat 0) = v) (hodd : v % 2 = 1) :
    d.scan (b :: rest) = (0, v % 256 / 2) := by
  rw [field_eq_mod] at h
  simp only [Nat.zero_mul, Nat.shiftRight_zero] at h
  unfold Scanner.scan
  have h0 : (0 : Nat) &&& 1 = 0 := by decide
  have h1 : (0 : Nat) &&& 63 = 0 := by decide
  rw [Scanner.scanLoop]
  simp only [h0, h1, if_true, Nat.shiftRight_zero]
  rw [scanLoop_odd d rest (0 + 1) _ (by omega)]
  have hne : ¬ d.table.getD b.toNat 0 &&& 1 = 0 := by rw [Nat.and_one_is_mod]; omega
  simp only [hne, if_false, and63, h]

end TmVerif.ShiftDfa
