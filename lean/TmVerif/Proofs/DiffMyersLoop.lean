import TmVerif.Proofs.DiffMyersFR
/-!
C27, Myers search, part 3: what one `for k := start; k <= limit; k += 2` loop does to the array
(independent of what the values mean).
-/
namespace TmVerif.Diff

theorem getD_set_ne (v : Array Nat) (i j x : Nat) (h : j ≠ i) :
    (v.setIfInBounds i x).getD j 0 = v.getD j 0 := by
  simp [Array.getD_eq_getD_getElem?, Ne.symm h]

theorem getD_set_eq (v : Array Nat) (i x : Nat) (h : i < v.size) :
    (v.setIfInBounds i x).getD i 0 = x := by
  simp [Array.getD_eq_getD_getElem?, h]

theorem vidx_inj (base : Nat) (j k : Int) (hj : 0 ≤ (base : Int) + j) (hk : 0 ≤ (base : Int) + k)
    (h : vidx base j = vidx base k) : j = k := by
  unfold vidx at h; omega

/-- the value the loop body computes for diagonal `k` from the array `v` -/
def stepX (eqAt : Nat → Nat → Bool) (m n base d : Nat) (v : Array Nat) (k : Int) : Nat :=
  slide eqAt m n k (m + 1) (pickX v base d k)

theorem pickX_congr (v v0 : Array Nat) (base d : Nat) (k : Int)
    (hp : v.getD (vidx base (k + 1)) 0 = v0.getD (vidx base (k + 1)) 0)
    (hm : k ≠ -(d : Int) → v.getD (vidx base (k - 1)) 0 = v0.getD (vidx base (k - 1)) 0) :
    pickX v base d k = pickX v0 base d k := by
  unfold pickX
  by_cases hk : k = -(d : Int)
  · simp [hk] at hp ⊢
    exact hp
  · rw [hp, hm hk]

/-- Result of the loop started at diagonal `k` with `r` iterations on an array `v` that agrees with
`v0` on the diagonals of the other parity: every iteration computes `stepX … v0`. -/
theorem diagLoop_spec (eqAt : Nat → Nat → Bool) (m n base d : Nat)
    (check : Int → Nat → Option (Int × Int × Int)) (v0 : Array Nat) (hd : d ≤ base)
    (r : Nat) (k : Int) (v : Array Nat) (hk : -(d : Int) ≤ k)
    (hagree : ∀ j : Int, 0 ≤ (base : Int) + j → (j - k) % 2 ≠ 0 →
      v.getD (vidx base j) 0 = v0.getD (vidx base j) 0) :
    (diagLoop eqAt m n base d check r k v).1.size = v.size ∧
    (∀ j : Int, 0 ≤ (base : Int) + j → j < k →
      (diagLoop eqAt m n base d check r k v).1.getD (vidx base j) 0 = v.getD (vidx base j) 0) ∧
    ((diagLoop eqAt m n base d check r k v).2 = none →
      (∀ i : Nat, i < r → check (k + 2 * i) (stepX eqAt m n base d v0 (k + 2 * i)) = none) ∧
      (∀ i : Nat, i < r → vidx base (k + 2 * i) < v.size →
        (diagLoop eqAt m n base d check r k v).1.getD (vidx base (k + 2 * i)) 0 =
          stepX eqAt m n base d v0 (k + 2 * i))) ∧
    (∀ res, (diagLoop eqAt m n base d check r k v).2 = some res →
      ∃ i : Nat, i < r ∧ check (k + 2 * i) (stepX eqAt m n base d v0 (k + 2 * i)) = some res ∧
        ∀ i' : Nat, i' < i → check (k + 2 * i') (stepX eqAt m n base d v0 (k + 2 * i')) = none) := by
  induction r generalizing k v with
  | zero =>
    unfold diagLoop
    refine ⟨rfl, fun _ _ _ => rfl, fun _ => ⟨fun i hi => absurd hi (by omega),
      fun i hi => absurd hi (by omega)⟩, ?_⟩
    intro res h; cases h
  | succ r ih =>
    have hx : slide eqAt m n k (m + 1) (pickX v base d k) = stepX eqAt m n base d v0 k := by
      unfold stepX
      rw [pickX_congr v v0 base d k (hagree (k + 1) (by omega) (by omega))
        (fun hne => hagree (k - 1) (by omega) (by omega))]
    unfold diagLoop
    simp only [hx]
    cases hc : check k (stepX eqAt m n base d v0 k) with
    | some res =>
      simp only
      refine ⟨by simp, ?_, fun h => (by cases h), ?_⟩
      · intro j hj hlt
        exact getD_set_ne _ _ _ _ (fun e => by have := vidx_inj base j k hj (by omega) e; omega)
      · intro res' h
        cases h
        exact ⟨0, by omega, by simpa using hc, fun i' hi' => by omega⟩
    | none =>
      simp only
      have hagree' : ∀ j : Int, 0 ≤ (base : Int) + j → (j - (k + 2)) % 2 ≠ 0 →
          (v.setIfInBounds (vidx base k) (stepX eqAt m n base d v0 k)).getD (vidx base j) 0 =
            v0.getD (vidx base j) 0 := by
        intro j hj hpar
        rw [getD_set_ne _ _ _ _ (fun e => by
          have := vidx_inj base j k hj (by omega) e; omega)]
        exact hagree j hj (by omega)
      obtain ⟨s1, s2, s3, s4⟩ := ih (k + 2) _ (by omega) hagree'
      refine ⟨by rw [s1]; simp, ?_, ?_, ?_⟩
      · intro j hj hlt
        rw [s2 j hj (by omega)]
        exact getD_set_ne _ _ _ _ (fun e => by have := vidx_inj base j k hj (by omega) e; omega)
      · intro hnone
        obtain ⟨t1, t2⟩ := s3 hnone
        constructor
        · intro i hi
          cases i with
          | zero => simpa using hc
          | succ i =>
            have := t1 i (by omega)
            have e : k + 2 * ((i + 1 : Nat) : Int) = k + 2 + 2 * (i : Int) := by omega
            rw [e]; exact this
        · intro i hi hb
          cases i with
          | zero =>
            simp only [Int.natCast_zero, Int.mul_zero, Int.add_zero] at hb ⊢
            rw [s2 k (by omega) (by omega)]
            exact getD_set_eq _ _ _ hb
          | succ i =>
            have e : k + 2 * ((i + 1 : Nat) : Int) = k + 2 + 2 * (i : Int) := by omega
            rw [e] at hb ⊢
            exact t2 i (by omega) (by simpa using hb)
      · intro res h
        obtain ⟨i, hi, c1, c2⟩ := s4 res h
        refine ⟨i + 1, by omega, ?_, ?_⟩
        · have e : k + 2 * ((i + 1 : Nat) : Int) = k + 2 + 2 * (i : Int) := by omega
          rw [e]; exact c1
        · intro i' hi'
          cases i' with
          | zero => simpa using hc
          | succ i' =>
            have e : k + 2 * ((i' + 1 : Nat) : Int) = k + 2 + 2 * (i' : Int) := by omega
            rw [e]; exact c2 i' (by omega)

end TmVerif.Diff
