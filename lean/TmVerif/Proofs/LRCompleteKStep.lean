/-
Helper lemmas for C07 completeness, part 2: the runtime's deep lookahead (`deepLA` reading from
the lexer copy) takes the decision of the structural walk `trieWalkZ` over the same tokens; the
position of the lexer copy (`PosOk`); one shift / one reduction with deep-lookahead decoding.
-/
import TmVerif.Proofs.LRCompleteK
namespace TmVerif.LRCompleteK
open TmVerif.LR TmVerif.CFG TmVerif.LRSound TmVerif.LRRef TmVerif.LRK
open TmVerif.LRComplete (Reads Steps TopState Pushed tok_sym reduce_apply)

/-! ### `actOf` is monotone in the deep-lookahead oracle -/

theorem actOf_mono (t : Tables) (deep deep' : Int → Option Int) (s a : Int) (x : Act)
    (hd : ∀ p r, deep p = some r → deep' p = some r)
    (h : actOf t deep s a = some x) : actOf t deep' s a = some x := by
  unfold actOf at h ⊢
  split
  · simpa [*] using h
  · rename_i hopt
    simp only [hopt] at h
    cases hg : geti t.action s with
    | none => simp [hg] at h
    | some action =>
      simp only [hg] at h ⊢
      by_cases hlt : action < -2
      · simp only [hlt, if_true] at h ⊢
        cases hl : lalrLookup t action a with
        | none => simp [hl] at h
        | some y =>
          simp only [hl] at h ⊢
          by_cases hy : y < -2
          · simp only [hy, if_true] at h ⊢
            cases hdy : deep y with
            | none => simp [hdy] at h
            | some r =>
              rw [hd y r hdy]
              simpa [hdy] using h
          · simpa [hy] using h
      · simpa [hlt] using h

/-- the runtime's deep lookahead follows the structural walk -/
theorem deep_of_walk (t : Tables) (inp : Input) : ∀ (rest : Str) (x r : Int) (fuel pos : Nat),
    trieWalkZ t x rest = some r →
    (∀ j (h : j < rest.length), (inp.tok (pos + j)).sym = (rest[j] : Nat)) →
    inp.toks.size + 2 ≤ pos + fuel → 2 ≤ fuel →
    deepLA t inp fuel pos x = some r
  | [], x, r, fuel, pos, h, _, _, hf => by
    obtain ⟨f, rfl⟩ : ∃ f, fuel = f + 1 := ⟨fuel - 1, by omega⟩
    unfold trieWalkZ at h
    unfold deepLA
    by_cases hx : x < -2
    · simp [hx] at h
    · simpa [hx] using h
  | a :: rest, x, r, fuel, pos, h, htoks, hsum, hf => by
    obtain ⟨f, rfl⟩ : ∃ f, fuel = f + 1 := ⟨fuel - 1, by omega⟩
    unfold trieWalkZ at h
    unfold deepLA
    by_cases hx : x < -2
    · simp only [hx, if_true] at h ⊢
      have h0 := htoks 0 (by simp)
      simp only [Nat.add_zero, List.getElem_cons_zero] at h0
      rw [h0]
      cases hl : lalrLookup t x (a : Nat) with
      | none => simp [hl] at h
      | some act =>
        simp only [hl] at h ⊢
        by_cases ha : a = 0
        · simp only [ha, if_true] at h
          obtain ⟨f', rfl⟩ : ∃ f', f = f' + 1 := ⟨f - 1, by omega⟩
          unfold deepLA
          by_cases hact : act < -2
          · simp [hact] at h
          · simpa [hact] using h
        · simp only [ha, if_false] at h
          -- a real token was read: the position is inside the text
          have hpos : pos < inp.toks.size := by
            rcases Nat.lt_or_ge pos inp.toks.size with hp | hp
            · exact hp
            · exfalso
              unfold Input.tok at h0
              rw [Array.getElem?_eq_none hp] at h0
              simp only at h0
              omega
          apply deep_of_walk t inp rest act r f (pos + 1) h
          · intro j hj
            have := htoks (j + 1) (by simp; omega)
            simpa [Nat.add_assoc, Nat.add_comm 1 j] using this
          · omega
          · omega
    · simpa [hx] using h

/-! ### the position of the lexer copy -/

/-- once EOI has been fetched the lexer position is at or beyond the end of the text -/
def PosOk (inp : Input) (c : Cfg) : Prop :=
  ∀ tk, c.next = some tk → tk.sym = 0 → inp.toks.size ≤ c.pos

/-- `NextOk` plus `PosOk` -/
def NextKOk (inp : Input) (c : Cfg) (m : Nat) : Prop := NextOk inp c m ∧ PosOk inp c

theorem tok_zero_ge {t : Tables} {inp : Input} (htok : TokOk t inp) {j : Nat}
    (h : (inp.tok j).sym = 0) : inp.toks.size ≤ j := by
  rcases Nat.lt_or_ge j inp.toks.size with hj | hj
  · exfalso
    unfold Input.tok at h
    rw [Array.getElem?_eq_getElem hj] at h
    have := htok inp.toks[j] (by rw [Array.mem_toList_iff]; exact Array.getElem_mem hj)
    simp only at h
    omega
  · exact hj

theorem tok_ge (inp : Input) {j : Nat} (h : inp.toks.size ≤ j) :
    inp.tok j = ⟨0, inp.endOff, inp.endOff⟩ := by
  unfold Input.tok
  rw [Array.getElem?_eq_none h]

theorem initCfg_nextK {t : Tables} {inp : Input} (htok : TokOk t inp) (i : Nat) :
    NextKOk inp (initCfg inp i) 0 := by
  refine ⟨LRComplete.initCfg_next inp i, ?_⟩
  intro tk hn hz
  simp only [initCfg, Option.some.injEq] at hn
  subst hn
  have := tok_zero_ge htok hz
  simp only [initCfg]
  omega

section fetch
variable {t : Tables} {inp : Input} (htok : TokOk t inp)
include htok

theorem fetch_nextK {c : Cfg} {m : Nat} (h : NextKOk inp c m) :
    NextKOk inp (c.fetch inp).1 m := by
  obtain ⟨hn, hp⟩ := h
  obtain ⟨_, _, _, _, _, f6⟩ := fetch_spec inp c m hn
  refine ⟨f6, ?_⟩
  cases hnext : c.next with
  | some tk => rw [fetch_some hnext]; exact hp
  | none =>
    rw [fetch_none hnext]
    intro tk htk hz
    simp only [Option.some.injEq] at htk
    subst htk
    have := tok_zero_ge htok hz
    simp only
    omega

/-- the lexer copy used by the deep lookahead reads the tokens after the current one -/
theorem fetch_tokens {c : Cfg} {m : Nat} (h : NextKOk inp c m) (j : Nat) :
    inp.tok ((c.fetch inp).1.pos + j) = inp.tok (m + 1 + j) := by
  obtain ⟨hn, hp⟩ := h
  cases hnext : c.next with
  | none =>
    unfold NextOk at hn
    rw [hnext] at hn
    rw [fetch_none hnext, hn]
  | some tk =>
    rw [fetch_some hnext]
    unfold NextOk at hn
    rw [hnext] at hn
    by_cases hz : tk.sym = 0
    · have h1 := hp tk hnext hz
      have h2 : inp.toks.size ≤ m := tok_zero_ge htok (by rw [← hn.1]; exact hz)
      rw [tok_ge inp (by omega : inp.toks.size ≤ c.pos + j),
        tok_ge inp (by omega : inp.toks.size ≤ m + 1 + j)]
    · rw [hn.2 hz]

/-- what `decode` returns in a state that consults the token, when the certificate's decision on
the next `k` symbols is `act` -/
theorem decode_K {c : Cfg} {m s k : Nat} {act : Act} (h0 : 0 < t.nTerms) (hk : 1 ≤ k)
    (hn : NextKOk inp c m) (hst : c.state = (s : Int)) (hneeds : needsTok t s = some true)
    (hact : actOfU t s (nextK inp m k) = some act) :
    decode t inp c = some ((c.fetch inp).1, act) := by
  obtain ⟨f1, _⟩ := fetch_spec inp c m hn.1
  obtain ⟨k', rfl⟩ : ∃ k', k = k' + 1 := ⟨k - 1, by omega⟩
  rw [nextK] at hact
  unfold actOfU at hact
  unfold decode
  rw [hst, hneeds]
  simp only
  rw [f1, (tok_sym htok h0 m).1]
  rw [actOf_mono t _ _ _ _ _ ?_ hact]
  · rfl
  · intro p r hw
    apply deep_of_walk t inp _ p r _ _ hw
    · intro j hj
      rw [fetch_tokens htok hn j, (tok_sym htok h0 (m + 1 + j)).1, nextK_get]
    · omega
    · omega

end fetch

/-! ### one shift, one reduction -/

theorem shift_stepK {t : Tables} {inp : Input} (htok : TokOk t inp) (h0 : 0 < t.nTerms)
    {c : Cfg} {m s q k : Nat} (hk : 1 ≤ k)
    (hn : NextKOk inp c m) (hst : c.state = (s : Int)) (hneeds : needsTok t s = some true)
    (hact : actOfU t s (nextK inp m k) = some (.shift q)) :
    ∃ c', step t inp c = .cont c' ∧ Pushed c' q c.stack ∧ NextKOk inp c' (m + 1) := by
  obtain ⟨_, f2, f3, _, _, _⟩ := fetch_spec inp c m hn.1
  obtain ⟨f6, f7⟩ := fetch_nextK htok hn
  have hd := decode_K htok h0 hk hn hst hneeds hact
  unfold step
  rw [hd]
  simp only
  rw [apply, f2]
  simp only
  refine ⟨_, rfl, ⟨rfl, _, rfl, by rw [f3]⟩, ?_, ?_⟩
  · unfold NextOk at f6 ⊢
    rw [f2] at f6
    by_cases hz : (inp.tok m).sym = 0
    · simp only [hz, ne_eq, not_true_eq_false, if_false]
      exact ⟨(tok_zero_next htok _ hz).symm, fun h => h.elim⟩
    · simp only [ne_eq, hz, not_false_eq_true, if_true]
      exact f6.2 hz
  · intro tk htk hz
    by_cases hz' : (inp.tok m).sym = 0
    · simp only [hz', ne_eq, not_true_eq_false, if_false] at htk
      exact f7 tk (by rw [f2]; exact htk) hz
    · simp [hz'] at htk

theorem reduce_applyK {t : Tables} {inp : Input} (htok : TokOk t inp) {c1 : Cfg}
    {m n X q : Nat} {r : Int} {ents rest0 : List Entry} {e0 : Entry}
    (hn : NextKOk inp c1 m)
    (hlen : geti t.ruleLen r = some (n : Int)) (hsym : geti t.ruleSymbol r = some (X : Int))
    (hstk : c1.stack = ents ++ e0 :: rest0) (hents : ents.length = n)
    (hgoto : gotoState t e0.state X = some (q : Int)) :
    ∃ c', apply t inp c1 (.reduce r) = .cont c' ∧ Pushed c' q (e0 :: rest0) ∧
      NextKOk inp c' m := by
  obtain ⟨_, _, f3, _, _, _⟩ := fetch_spec inp c1 m hn.1
  obtain ⟨f6, f7⟩ := fetch_nextK htok hn
  rw [apply, hlen, hsym]
  simp only [Int.toNat_natCast]
  have hl : ¬ n > c1.stack.length := by rw [hstk, List.length_append, hents]; omega
  rw [if_neg hl]
  have hdrop : c1.stack.drop n = e0 :: rest0 := by
    rw [hstk, ← hents, List.drop_left]
  have hq : ¬ (q : Int) = -1 := by omega
  by_cases h0 : n = 0
  · simp only [h0, if_true]
    rw [f3, ← h0, hdrop]
    simp only
    rw [hgoto]
    simp only [hq, if_false]
    exact ⟨_, rfl, ⟨rfl, _, rfl, rfl⟩, f6, f7⟩
  · simp only [h0, if_false]
    rw [hdrop]
    simp only
    rw [hgoto]
    simp only [hq, if_false]
    exact ⟨_, rfl, ⟨rfl, _, rfl, rfl⟩, hn.1, hn.2⟩

theorem reduce_stepK {t : Tables} {inp : Input} (htok : TokOk t inp) (h0 : 0 < t.nTerms)
    {c : Cfg} {m s n X q k : Nat} {r : Int} (hk : 1 ≤ k)
    {ents rest0 : List Entry} {e0 : Entry}
    (hn : NextKOk inp c m) (hst : c.state = (s : Int))
    (hact : (needsTok t s = some true ∧ actOfU t s (nextK inp m k) = some (.reduce r)) ∨
            (needsTok t s = some false ∧ actOf t noDeep s 0 = some (.reduce r)))
    (hlen : geti t.ruleLen r = some (n : Int)) (hsym : geti t.ruleSymbol r = some (X : Int))
    (hstk : c.stack = ents ++ e0 :: rest0) (hents : ents.length = n)
    (hgoto : gotoState t e0.state X = some (q : Int)) :
    ∃ c', step t inp c = .cont c' ∧ Pushed c' q (e0 :: rest0) ∧ NextKOk inp c' m := by
  rcases hact with ⟨hneeds, hact⟩ | ⟨hneeds, hact⟩
  · have hd := decode_K htok h0 hk hn hst hneeds hact
    obtain ⟨_, _, f3, _, _, _⟩ := fetch_spec inp c m hn.1
    unfold step
    rw [hd]
    exact reduce_applyK htok (fetch_nextK htok hn) hlen hsym (by rw [f3]; exact hstk) hents hgoto
  · have hd : decode t inp c = some (c, .reduce r) := by
      unfold decode
      rw [hst, hneeds]
      simp only
      rw [actOf_noDeep t _ s _ _ hact]
      rfl
    unfold step
    rw [hd]
    exact reduce_applyK htok hn hlen hsym hstk hents hgoto

end TmVerif.LRCompleteK
