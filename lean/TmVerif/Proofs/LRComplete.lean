/-
Helper lemmas for C01 completeness, part 1: unpacking of `complOk`, bit masks, and the fact that
closed `nullable`/`first` over-approximate the true nullable/FIRST of the grammar.
-/
import TmVerif.Model.LRComplete
import TmVerif.Proofs.LRSoundInv
namespace TmVerif.LRComplete
open TmVerif.LR TmVerif.CFG TmVerif.LRSound TmVerif.LRRef

/-! ### bit masks -/

/-- `a ⊆ b` as sets of bits -/
def Sub (a b : Nat) : Prop := ∀ i, a.testBit i = true → b.testBit i = true

theorem Sub.refl (a : Nat) : Sub a a := fun _ h => h

theorem Sub.trans {a b c : Nat} (h1 : Sub a b) (h2 : Sub b c) : Sub a c :=
  fun i h => h2 i (h1 i h)

theorem subMask_sub {a b : Nat} (h : subMask a b = true) : Sub a b := by
  unfold subMask at h
  have h : a &&& b = a := by simpa using h
  intro i hi
  have : (a &&& b).testBit i = true := by rw [h]; exact hi
  rw [Nat.testBit_and] at this
  simp only [Bool.and_eq_true] at this
  exact this.2

theorem sub_or_left (a b : Nat) : Sub a (a ||| b) := by
  intro i h; rw [Nat.testBit_or, h]; rfl

theorem sub_or_right (a b : Nat) : Sub b (a ||| b) := by
  intro i h; rw [Nat.testBit_or, h]; simp

theorem testBit_one_shl (s : Nat) : (1 <<< s).testBit s = true := by
  rw [Nat.one_shiftLeft, Nat.testBit_two_pow_self]

theorem allTerms_bit (g : Grammar) {a : Nat} (h : a < g.nTerms) :
    (allTerms g).testBit a = true := by
  unfold allTerms
  rw [Nat.one_shiftLeft, Nat.testBit_two_pow_sub_one]
  simpa using h

/-! ### unpacking the checker -/

theorem hasItem_elim {cc : CCert} {s r d L : Nat} (h : hasItem cc s r d L = true) :
    ∃ it ∈ itemsOf cc s, it.rule = r ∧ it.dot = d ∧ Sub L it.la := by
  unfold hasItem at h
  rw [List.any_eq_true] at h
  obtain ⟨it, hm, h⟩ := h
  simp only [Bool.and_eq_true, beq_iff_eq] at h
  exact ⟨it, hm, h.1.1, h.1.2, subMask_sub h.2⟩

structure ComplFacts (g : Grammar) (t : Tables) (cc : CCert) : Prop where
  wf : g.wf = true
  nTerms : t.nTerms = g.nTerms
  nullC : ∀ r ∈ g.rules.toList, seqNullable cc.nullable r.rhs = true →
    cc.nullable.contains r.lhs = true
  firstC : ∀ r ∈ g.rules.toList,
    Sub (firstOfSeq g cc.nullable cc.first r.rhs) (cc.first.getD r.lhs 0)
  start : ∀ i inp, g.inputs[i]? = some inp →
    ∃ it ∈ itemsOf cc i, it.rule = g.rules.size + i ∧ it.dot = 0 ∧
      Sub (if inp.eoi then 0 else allTerms g) it.la
  item : ∀ s it, it ∈ itemsOf cc s → itemOk g t cc s it = true

theorem complFacts {g : Grammar} {t : Tables} {cc : CCert} (h : complOk g t cc = true) :
    ComplFacts g t cc := by
  unfold complOk at h
  simp only [Bool.and_eq_true, decide_eq_true_eq] at h
  obtain ⟨⟨⟨⟨⟨⟨h1, h2⟩, h3⟩, h4⟩, h5⟩, _⟩, h7⟩ := h
  refine ⟨h1, h2, ?_, ?_, ?_, ?_⟩
  · intro r hr hn
    unfold nullOk at h3
    rw [List.all_eq_true] at h3
    have := h3 r hr
    rw [hn] at this
    simpa using this
  · intro r hr
    unfold firstOk at h4
    rw [List.all_eq_true] at h4
    exact subMask_sub (h4 r hr)
  · intro i inp hi
    unfold startOk at h5
    rw [List.all_eq_true] at h5
    have hlt : i < g.inputs.size := by
      rcases Nat.lt_or_ge i g.inputs.size with h | h
      · exact h
      · rw [Array.getElem?_eq_none h] at hi; cases hi
    have := h5 i (List.mem_range.mpr hlt)
    rw [hi] at this
    exact hasItem_elim this
  · intro s it hm
    rw [List.all_eq_true] at h7
    have hlt : s < cc.items.size := by
      rcases Nat.lt_or_ge s cc.items.size with h | h
      · exact h
      · unfold itemsOf at hm
        rw [Array.getD_eq_getD_getElem?, Array.getElem?_eq_none h] at hm
        cases hm
    have := h7 s (List.mem_range.mpr hlt)
    rw [List.all_eq_true] at this
    exact this it hm

/-- an item with the same rule, the dot moved by `k`, and a lookahead set at least as large -/
def Adv (cc : CCert) (q : Nat) (it : CItem) (k : Nat) (it' : CItem) : Prop :=
  it' ∈ itemsOf cc q ∧ it'.rule = it.rule ∧ it'.dot = it.dot + k ∧ Sub it.la it'.la

theorem hasItem_adv {cc : CCert} {q : Nat} {it : CItem}
    (h : hasItem cc q it.rule (it.dot + 1) it.la = true) : ∃ it', Adv cc q it 1 it' := by
  obtain ⟨it', h1, h2, h3, h4⟩ := hasItem_elim h
  exact ⟨it', h1, h2, h3, h4⟩

section facts
variable {g : Grammar} {t : Tables} {cc : CCert} (hf : ComplFacts g t cc)
include hf

theorem move_term {s : Nat} {it : CItem} (hm : it ∈ itemsOf cc s) {x : Nat}
    (hx : (rhsOf g it.rule)[it.dot]? = some x) (hlt : x < g.nTerms) :
    needsTok t s = some true ∧ ∃ q : Nat, actOf t noDeep s x = some (.shift q) ∧
      ∃ it', Adv cc q it 1 it' := by
  have h := hf.item s it hm
  unfold itemOk at h
  simp only [Bool.and_eq_true] at h
  have h := h.1.1.2
  unfold moveOk at h
  rw [hx] at h
  simp only [hlt, if_true, Bool.and_eq_true, beq_iff_eq] at h
  refine ⟨h.1, ?_⟩
  have h := h.2
  split at h
  · rename_i q hq
    simp only [Bool.and_eq_true, decide_eq_true_eq] at h
    refine ⟨q.toNat, ?_, hasItem_adv h.2⟩
    rw [hq, Int.toNat_of_nonneg h.1]
  · cases h

theorem move_nt {s : Nat} {it : CItem} (hm : it ∈ itemsOf cc s) {x : Nat}
    (hx : (rhsOf g it.rule)[it.dot]? = some x) (hge : g.nTerms ≤ x) :
    ∃ q : Nat, gotoState t s x = some (q : Int) ∧ ∃ it', Adv cc q it 1 it' := by
  have h := hf.item s it hm
  unfold itemOk at h
  simp only [Bool.and_eq_true] at h
  have h := h.1.1.2
  unfold moveOk at h
  rw [hx] at h
  have hn : ¬ x < g.nTerms := by omega
  simp only [hn, if_false] at h
  split at h
  · rename_i q hq
    simp only [Bool.and_eq_true, decide_eq_true_eq] at h
    refine ⟨q.toNat, ?_, hasItem_adv h.2⟩
    rw [hq, Int.toNat_of_nonneg h.1]
  · cases h

theorem clos {s : Nat} {it : CItem} (hm : it ∈ itemsOf cc s) {x : Nat}
    (hx : (rhsOf g it.rule)[it.dot]? = some x) (hge : g.nTerms ≤ x)
    {r' : Nat} {rule : Rule} (hr : g.rules[r']? = some rule) (hl : rule.lhs = x) :
    ∃ it' ∈ itemsOf cc s, it'.rule = r' ∧ it'.dot = 0 ∧ Sub (contrib g cc it) it'.la := by
  have h := hf.item s it hm
  unfold itemOk at h
  simp only [Bool.and_eq_true] at h
  have h := h.1.1.1
  unfold closOk at h
  rw [hx] at h
  have hn : ¬ x < g.nTerms := by omega
  simp only [Bool.or_eq_true, decide_eq_true_eq, hn, false_or, List.all_eq_true] at h
  have hlt : r' < g.rules.size := by
    rcases Nat.lt_or_ge r' g.rules.size with h | h
    · exact h
    · rw [Array.getElem?_eq_none h] at hr; cases hr
  have hmem : r' ∈ rulesOf g x := by
    unfold rulesOf
    rw [List.mem_filter]
    exact ⟨List.mem_range.mpr hlt, by rw [hr]; simp [hl]⟩
  exact hasItem_elim (h r' hmem)

theorem red {s : Nat} {it : CItem} (hm : it ∈ itemsOf cc s) {rule : Rule}
    (hr : g.rules[it.rule]? = some rule) (hd : it.dot = rule.rhs.length) :
    geti t.ruleLen it.rule = some (rule.rhs.length : Int) ∧
    geti t.ruleSymbol it.rule = some (rule.lhs : Int) ∧
    ∃ b, needsTok t s = some b ∧ ∀ a, a < g.nTerms → it.la.testBit a = true →
      actOf t noDeep s (if b then (a : Int) else 0) = some (.reduce (it.rule : Int)) := by
  have h := hf.item s it hm
  unfold itemOk at h
  simp only [Bool.and_eq_true] at h
  have h := h.1.2
  unfold redOk at h
  rw [hr] at h
  simp only [Bool.or_eq_true, bne_iff_ne, ne_eq, hd, not_true_eq_false, false_or,
    Bool.and_eq_true, beq_iff_eq] at h
  refine ⟨h.1.1, h.1.2, ?_⟩
  have h := h.2
  split at h
  · cases h
  · rename_i b hb
    refine ⟨b, hb, ?_⟩
    intro a ha hbit
    rw [List.all_eq_true] at h
    have := h a (List.mem_range.mpr ha)
    simpa [hbit] using this

theorem fin {s : Nat} {it : CItem} (hm : it ∈ itemsOf cc s)
    (hr : g.rules.size ≤ it.rule) (hd : it.dot = (rhsOf g it.rule).length) :
    t.finalStates[it.rule - g.rules.size]? = some (s : Int) := by
  have h := hf.item s it hm
  unfold itemOk at h
  simp only [Bool.and_eq_true] at h
  have h := h.2
  unfold finOk at h
  have hn : ¬ it.rule < g.rules.size := by omega
  simpa [hn, hd] using h

end facts

/-! ### nullable and FIRST -/

theorem rhsOf_rule {g : Grammar} {r : Nat} {rule : Rule} (h : g.rules[r]? = some rule) :
    rhsOf g r = rule.rhs := by
  have hlt : r < g.rules.size := by
    rcases Nat.lt_or_ge r g.rules.size with h' | h'
    · exact h'
    · rw [Array.getElem?_eq_none h'] at h; cases h
  unfold rhsOf
  rw [if_pos hlt, h]
  rfl

theorem rhsOf_input {g : Grammar} {i : Nat} {inp : GInput} (h : g.inputs[i]? = some inp) :
    rhsOf g (g.rules.size + i) = if inp.eoi then [inp.sym, 0] else [inp.sym] := by
  unfold rhsOf
  have : ¬ g.rules.size + i < g.rules.size := by omega
  rw [if_neg this, Nat.add_sub_cancel_left, h]

section closed
variable {g : Grammar} {t : Tables} {cc : CCert} (hf : ComplFacts g t cc)
include hf

mutual
theorem derives_nil_nullable :
    ∀ {X : Nat} {u : List Nat}, Derives g X u → u = [] → cc.nullable.contains X = true
  | _, _, .term a _, h => by cases h
  | _, _, .rule r w hm hs, h => hf.nullC r hm (derivesSeq_nil_nullable hs h)
theorem derivesSeq_nil_nullable :
    ∀ {α : List Nat} {u : List Nat}, DerivesSeq g α u → u = [] →
      seqNullable cc.nullable α = true
  | _, _, .nil, _ => by have := hf.wf; rfl
  | _, _, .cons X α u v hX hα, h => by
    have hu : u = [] := (List.append_eq_nil_iff.mp h).1
    have hv : v = [] := (List.append_eq_nil_iff.mp h).2
    have h1 := derives_nil_nullable hX hu
    have h2 := derivesSeq_nil_nullable hα hv
    unfold seqNullable at h2 ⊢
    rw [List.all_cons, h1, h2]
    rfl
end

theorem derives_nil_nt {X : Nat} (h : Derives g X []) : g.nTerms ≤ X := by
  generalize hu : ([] : List Nat) = u at h
  cases h with
  | term a _ => cases hu
  | rule r w hm _ => exact ((wfFacts hf.wf).rules r hm).1

/-- the mask of a single symbol inside `firstOfSeq` -/
def symFirst (g : Grammar) (first : Array Nat) (s : Nat) : Nat :=
  if s < g.nTerms then 1 <<< s else first.getD s 0

omit hf in
theorem firstOfSeq_head (nl : List Nat) (first : Array Nat) (s : Nat) (rest : List Nat) :
    Sub (symFirst g first s) (firstOfSeq g nl first (s :: rest)) := by
  rw [firstOfSeq]
  by_cases hc : (decide (s ≥ g.nTerms) && nl.contains s) = true
  · rw [if_pos hc]; exact sub_or_left _ _
  · rw [if_neg hc]; exact Sub.refl _

omit hf in
theorem firstOfSeq_tail (nl : List Nat) (first : Array Nat) (s : Nat) (rest : List Nat)
    (h1 : g.nTerms ≤ s) (h2 : nl.contains s = true) :
    Sub (firstOfSeq g nl first rest) (firstOfSeq g nl first (s :: rest)) := by
  rw [firstOfSeq]
  have : (decide (s ≥ g.nTerms) && nl.contains s) = true := by
    rw [Bool.and_eq_true]; exact ⟨decide_eq_true h1, h2⟩
  rw [if_pos this]
  exact sub_or_right _ _

mutual
theorem derives_first :
    ∀ {X : Nat} {u : List Nat}, Derives g X u → ∀ b u', u = b :: u' →
      (symFirst g cc.first X).testBit b = true
  | _, _, .term a ha, b, u', h => by
    injection h with h1 _
    subst h1
    unfold symFirst
    rw [if_pos ha]
    exact testBit_one_shl a
  | _, _, .rule r w hm hs, b, u', h => by
    have h1 := derivesSeq_first hs b u' h
    have hge := ((wfFacts hf.wf).rules r hm).1
    unfold symFirst
    rw [if_neg (by omega)]
    exact hf.firstC r hm b h1
theorem derivesSeq_first :
    ∀ {α : List Nat} {u : List Nat}, DerivesSeq g α u → ∀ b u', u = b :: u' →
      (firstOfSeq g cc.nullable cc.first α).testBit b = true
  | _, _, .nil, b, u', h => by cases h
  | _, _, .cons X α u v hX hα, b, u', h => by
    by_cases hu : u = []
    · have h1 := derives_nil_nullable hf hX hu
      have h2 : g.nTerms ≤ X := derives_nil_nt hf (hu ▸ hX)
      rw [hu, List.nil_append] at h
      exact firstOfSeq_tail _ _ X α h2 h1 b (derivesSeq_first hα b u' h)
    · obtain ⟨b', u'', hu'⟩ := List.exists_cons_of_ne_nil hu
      have hb : b' = b := by rw [hu'] at h; injection h
      exact firstOfSeq_head _ _ X α b (derives_first hX b u'' (hb ▸ hu'))
end

theorem contrib_bit_nil (it : CItem) (a : Nat)
    (hd : DerivesSeq g ((rhsOf g it.rule).drop (it.dot + 1)) [])
    (ha : it.la.testBit a = true) : (contrib g cc it).testBit a = true := by
  unfold contrib closureContribution
  simp only
  rw [derivesSeq_nil_nullable hf hd rfl, if_pos rfl]
  exact sub_or_right _ _ a ha

theorem contrib_bit_cons (it : CItem) (b : Nat) (u' : List Nat)
    (hd : DerivesSeq g ((rhsOf g it.rule).drop (it.dot + 1)) (b :: u')) :
    (contrib g cc it).testBit b = true := by
  unfold contrib closureContribution
  simp only
  exact sub_or_left _ _ b (derivesSeq_first hf hd b u' rfl)

end closed

end TmVerif.LRComplete
