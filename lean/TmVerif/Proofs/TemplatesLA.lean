/-
C14, lookahead flags: when the propagation certificate `propCertB g F g'` holds, the meaning of `g`
with IMPLICIT lookahead flags (`laImp g`: a flag flows through the first symbol of an alternative,
is `false` elsewhere) is the meaning of `g'` where every parameter is passed explicitly (`noImp`).
-/
import TmVerif.Proofs.TemplatesArgs
namespace TmVerif.Templates
open TmVerif.CFG

/-! ### predicates -/

mutual
theorem Pred.beq_eq : ∀ (a b : Pred), a.beq b = true → a = b
  | .eq p v, .eq p' v', h => by simp [Pred.beq] at h; simp [h.1, h.2]
  | .not a, .not b, h => by simp only [Pred.beq] at h; rw [Pred.beq_eq a b h]
  | .and l, .and l', h => by simp only [Pred.beq] at h; rw [Pred.beqL_eq l l' h]
  | .or l, .or l', h => by simp only [Pred.beq] at h; rw [Pred.beqL_eq l l' h]
  | .eq _ _, .not _, h | .eq _ _, .and _, h | .eq _ _, .or _, h
  | .not _, .eq _ _, h | .not _, .and _, h | .not _, .or _, h
  | .and _, .eq _ _, h | .and _, .not _, h | .and _, .or _, h
  | .or _, .eq _ _, h | .or _, .not _, h | .or _, .and _, h => by simp [Pred.beq] at h
theorem Pred.beqL_eq : ∀ (l l' : List Pred), Pred.beqL l l' = true → l = l'
  | [], [], _ => rfl
  | a :: l, b :: l', h => by
    simp only [Pred.beqL, Bool.and_eq_true] at h
    rw [Pred.beq_eq a b h.1, Pred.beqL_eq l l' h.2]
  | [], _ :: _, h | _ :: _, [], h => by simp [Pred.beqL] at h
end

theorem optPredBeq_eq {a b : Option Pred} (h : optPredBeq a b = true) : a = b := by
  cases a <;> cases b <;> simp [optPredBeq] at h ⊢
  exact Pred.beq_eq _ _ h

mutual
theorem Pred.eval_congr (e e' : Env) : ∀ (p : Pred), (∀ q ∈ p.params, e q = e' q) → p.eval e = p.eval e'
  | .eq p v, h => by simp [Pred.eval, h p (by simp [Pred.params])]
  | .not a, h => by
    simp [Pred.eval, Pred.eval_congr e e' a (fun q hq => h q (by simpa [Pred.params] using hq))]
  | .and l, h => by
    simp [Pred.eval, Pred.evalAll_congr e e' l (fun q hq => h q (by simpa [Pred.params] using hq))]
  | .or l, h => by
    simp [Pred.eval, Pred.evalAny_congr e e' l (fun q hq => h q (by simpa [Pred.params] using hq))]
theorem Pred.evalAll_congr (e e' : Env) : ∀ (l : List Pred), (∀ q ∈ Pred.paramsL l, e q = e' q) →
    Pred.evalAll e l = Pred.evalAll e' l
  | [], _ => rfl
  | a :: l, h => by
    simp [Pred.evalAll, Pred.eval_congr e e' a (fun q hq => h q (by simp [Pred.paramsL, hq])),
      Pred.evalAll_congr e e' l (fun q hq => h q (by simp [Pred.paramsL, hq]))]
theorem Pred.evalAny_congr (e e' : Env) : ∀ (l : List Pred), (∀ q ∈ Pred.paramsL l, e q = e' q) →
    Pred.evalAny e l = Pred.evalAny e' l
  | [], _ => rfl
  | a :: l, h => by
    simp [Pred.evalAny, Pred.eval_congr e e' a (fun q hq => h q (by simp [Pred.paramsL, hq])),
      Pred.evalAny_congr e e' l (fun q hq => h q (by simp [Pred.paramsL, hq]))]
end

/-! ### the simulation relation -/

/-- `e` (implicit flags, grammar `g`) and `e'` (explicit parameters `P'`, grammar `g'`) describe the same
situation inside a nonterminal whose flag set is `FN`. -/
def EnvRel (g : TGrammar) (FN P' : List Nat) (e e' : Env) : Prop :=
  ∀ p, (p ∈ P' → e p = e' p) ∧ (p ∉ P' → e' p = 0 ∧ (g.isLA p = true → p ∈ FN → e p = 0))

structure ParamsCert (g : TGrammar) (FN : List Nat) (nt nt' : Nonterm) : Prop where
  sub : ∀ p ∈ nt.params, g.isLA p = false ∧ p ∈ nt'.params
  ext : ∀ p ∈ nt'.params, p ∈ nt.params ∨ (g.isLA p = true ∧ p ∈ FN)

theorem paramsCert_of {g : TGrammar} {FN : List Nat} {nt nt' : Nonterm} (h : paramsCertB g FN nt nt' = true) :
    ParamsCert g FN nt nt' := by
  simp only [paramsCertB, Bool.and_eq_true, List.all_eq_true, Bool.not_eq_true', Bool.or_eq_true,
    List.contains_iff_mem] at h
  exact ⟨fun p hp => h.1 p hp, fun p hp => h.2 p hp⟩

theorem relevant_eq {g : TGrammar} {FN : List Nat} {nt nt' : Nonterm} {e e' : Env}
    (hc : ParamsCert g FN nt nt') (hR : EnvRel g FN nt'.params e e') {q : Nat}
    (hq : relevantB g nt.params FN q = true) : e q = e' q := by
  by_cases hm : q ∈ nt'.params
  · exact (hR q).1 hm
  · obtain ⟨h0, hla⟩ := (hR q).2 hm
    simp only [relevantB, Bool.or_eq_true, Bool.and_eq_true, List.contains_iff_mem] at hq
    rcases hq with hq | ⟨hl, hf⟩
    · exact absurd (hc.sub q hq).2 hm
    · rw [h0, hla hl hf]

/-- the per-parameter content of `refCertB` -/
theorem refCert_point {g : TGrammar} {FN FT ntp ntp' tp' : List Nat} {first : Bool} {args args' : List Arg}
    (h : refCertB g FN FT ntp ntp' tp' first args args' = true) (p : Nat) :
    match findArg args p, findArg args' p with
    | some x, some y => x = y ∧ (match x with
        | .takeFrom q => relevantB g ntp FN q = true
        | .value _ => True)
    | none, some y => g.isLA p = true ∧ ((first = true ∧ y = .takeFrom p) ∨ (y = .value 0 ∧ (first = false ∨ p ∉ ntp')))
    | some _, none => False
    | none, none => True := by
  simp only [refCertB, Bool.and_eq_true, List.all_eq_true] at h
  obtain ⟨⟨_, hall⟩, _⟩ := h
  by_cases hp : p ∈ args.map (·.param) ++ args'.map (·.param)
  · have := hall p hp
    cases h1 : findArg args p <;> cases h2 : findArg args' p <;> simp only [h1, h2] at this ⊢
    · simp only [Bool.and_eq_true, Bool.or_eq_true, beq_iff_eq, Bool.not_eq_true', List.contains_iff_mem,
        Bool.eq_false_iff, ne_eq] at this
      refine ⟨this.1, ?_⟩
      rcases this.2 with h | h
      · exact Or.inl h
      · refine Or.inr ⟨h.1, ?_⟩
        rcases h.2 with h | h
        · exact Or.inl (by simpa using h)
        · exact Or.inr (by simpa using h)
    · exact absurd this (by simp)
    · rename_i x y
      simp only [Bool.and_eq_true, beq_iff_eq] at this
      refine ⟨this.1, ?_⟩
      cases x with
      | value v => trivial
      | takeFrom q => simpa using this.2
  · have h1 : findArg args p = none := findArg_none_iff.mpr (fun hm => hp (List.mem_append_left _ hm))
    have h2 : findArg args' p = none := findArg_none_iff.mpr (fun hm => hp (List.mem_append_right _ hm))
    simp [h1, h2]

theorem refCert_pars {g : TGrammar} {FN FT ntp ntp' tp' : List Nat} {first : Bool} {args args' : List Arg}
    (h : refCertB g FN FT ntp ntp' tp' first args args' = true) : pars args' = tp' := by
  simp only [refCertB, Bool.and_eq_true, beq_iff_eq] at h
  exact h.1.1

theorem refCert_entry {g : TGrammar} {FN FT ntp ntp' tp' : List Nat} {args args' : List Arg}
    (h : refCertB g FN FT ntp ntp' tp' true args args' = true) (p : Nat) (hF : p ∈ FT) (hla : g.isLA p = true)
    (hn : findArg args p = none) : p ∈ FN ∧ (p ∈ ntp' → p ∈ tp') := by
  simp only [refCertB, Bool.and_eq_true, Bool.not_true, Bool.false_or, List.all_eq_true] at h
  have := h.2 p hF
  have hnp : p ∉ args.map (·.param) := findArg_none_iff.mp hn
  simp only [hla, Bool.not_true, Bool.false_or, Bool.or_eq_true, List.contains_iff_mem, Bool.and_eq_true,
    Bool.not_eq_true', Bool.eq_false_iff, ne_eq] at this
  rcases this with h1 | h1
  · exact absurd h1 hnp
  · refine ⟨h1.1, fun hm => ?_⟩
    rcases h1.2 with h2 | h2
    · exact absurd (by simpa using hm) (by simpa using h2)
    · exact h2

/-- The relation is preserved along a reference whose certificate holds. -/
theorem ref_preserve {g : TGrammar} {FN FT : List Nat} {nt nt' t t' : Nonterm} {first : Bool}
    {args args' : List Arg} (N k : Nat)
    (hcN : ParamsCert g FN nt nt') (hcT : ParamsCert g FT t t')
    (href : refCertB g FN FT nt.params nt'.params t'.params first args args' = true)
    {e e' : Env} (hR : EnvRel g FN nt'.params e e') :
    EnvRel g FT t'.params (callEnv (laImp g) N first k e args) (callEnv noImp N first k e' args') := by
  intro p
  have hpt := refCert_point href p
  have hpars := refCert_pars href
  constructor
  · -- a parameter of the target: it has an argument on the right
    intro hp
    have hsome : findArg args' p ≠ none := by
      rw [Ne, findArg_none_iff, hpars]; exact fun h => h hp
    simp only [callEnv]
    cases h2 : findArg args' p with
    | none => exact absurd h2 hsome
    | some y =>
      cases h1 : findArg args p with
      | some x =>
        simp only [h1, h2] at hpt
        obtain ⟨rfl, hx⟩ := hpt
        cases x with
        | value v => rfl
        | takeFrom q => exact relevant_eq hcN hR hx
      | none =>
        simp only [h1, h2] at hpt
        obtain ⟨hla, hcase⟩ := hpt
        -- p is a lookahead parameter of the target, hence in FT
        have hFT : p ∈ FT := by
          rcases hcT.ext p hp with h | h
          · have := (hcT.sub p h).1; rw [hla] at this; cases this
          · exact h.2
        rcases hcase with ⟨hf, rfl⟩ | ⟨rfl, hcase⟩
        · subst hf
          have hFN := (refCert_entry href p hFT hla h1).1
          have hrel : relevantB g nt.params FN p = true := by
            simp [relevantB, hla, hFN]
          simp only [laImp, hla, Bool.and_self, if_true, ArgV.get]
          exact relevant_eq hcN hR hrel
        · simp only [laImp, hla, Bool.and_true, ArgV.get]
          cases first with
          | false => simp
          | true =>
            simp only [if_true]
            rcases hcase with h | h
            · cases h
            · have hFN := (refCert_entry href p hFT hla h1).1
              exact ((hR p).2 h).2 hla hFN
  · -- not a parameter of the target
    intro hp
    have hnone : findArg args' p = none := by
      rw [findArg_none_iff, hpars]; exact hp
    refine ⟨by simp [callEnv, hnone, noImp], ?_⟩
    intro hla hFT
    cases h1 : findArg args p with
    | some x => simp only [h1, hnone] at hpt
    | none =>
      simp only [callEnv, h1, laImp, hla, Bool.and_true]
      cases first with
      | false => simp
      | true =>
        simp only [if_true]
        obtain ⟨hFN, himp⟩ := refCert_entry href p hFT hla h1
        have : p ∉ nt'.params := fun hm => hp (himp hm)
        exact ((hR p).2 this).2 hla hFN

/-! ### looking nonterminals up in both grammars -/

theorem ntsCert_get {g : TGrammar} {F : List (List Nat)} {g' : TGrammar} :
    ∀ {l l' : List Nonterm} {k : Nat}, ntsCertB g F g' k l l' = true →
      (∀ (i : Nat) (nt : Nonterm), l[i]? = some nt → ∃ nt', l'[i]? = some nt' ∧ ntCertB g F g' (k + i) nt nt' = true) ∧
      (∀ (i : Nat) (nt' : Nonterm), l'[i]? = some nt' → ∃ nt, l[i]? = some nt ∧ ntCertB g F g' (k + i) nt nt' = true)
  | [], [], _, _ => by simp
  | [], _ :: _, _, h => by simp [ntsCertB] at h
  | _ :: _, [], _, h => by simp [ntsCertB] at h
  | nt :: l, nt' :: l', k, h => by
    simp only [ntsCertB, Bool.and_eq_true] at h
    obtain ⟨ih1, ih2⟩ := ntsCert_get h.2
    constructor
    · intro i x hi
      cases i with
      | zero => simp at hi; subst hi; exact ⟨nt', by simp, by simpa using h.1⟩
      | succ i =>
        simp at hi
        obtain ⟨y, hy, hc⟩ := ih1 i x hi
        exact ⟨y, by simpa using hy, by rw [show k + (i + 1) = k + 1 + i by omega]; exact hc⟩
    · intro i x hi
      cases i with
      | zero => simp at hi; subst hi; exact ⟨nt, by simp, by simpa using h.1⟩
      | succ i =>
        simp at hi
        obtain ⟨y, hy, hc⟩ := ih2 i x hi
        exact ⟨y, by simpa using hy, by rw [show k + (i + 1) = k + 1 + i by omega]; exact hc⟩

theorem altsCert_mem {g : TGrammar} {F : List (List Nat)} {g' : TGrammar} {FN ntp ntp' : List Nat} :
    ∀ {l l' : List Alt}, altsCertB g F g' FN ntp ntp' l l' = true →
      (∀ a ∈ l, ∃ a' ∈ l', altCertB g F g' FN ntp ntp' a a' = true) ∧
      (∀ a' ∈ l', ∃ a ∈ l, altCertB g F g' FN ntp ntp' a a' = true)
  | [], [], _ => by simp
  | [], _ :: _, h => by simp [altsCertB] at h
  | _ :: _, [], h => by simp [altsCertB] at h
  | a :: l, a' :: l', h => by
    simp only [altsCertB, Bool.and_eq_true] at h
    obtain ⟨ih1, ih2⟩ := altsCert_mem h.2
    constructor
    · intro x hx
      rcases List.mem_cons.mp hx with rfl | hx
      · exact ⟨a', List.mem_cons_self, h.1⟩
      · obtain ⟨y, hy, hc⟩ := ih1 x hx
        exact ⟨y, List.mem_cons_of_mem _ hy, hc⟩
    · intro x hx
      rcases List.mem_cons.mp hx with rfl | hx
      · exact ⟨a, List.mem_cons_self, h.1⟩
      · obtain ⟨y, hy, hc⟩ := ih2 x hx
        exact ⟨y, List.mem_cons_of_mem _ hy, hc⟩

theorem altCert_enabled {g : TGrammar} {F : List (List Nat)} {g' : TGrammar} {FN : List Nat} {nt nt' : Nonterm}
    {a a' : Alt} (hc : ParamsCert g FN nt nt') (h : altCertB g F g' FN nt.params nt'.params a a' = true)
    {e e' : Env} (hR : EnvRel g FN nt'.params e e') : a.enabled e = a'.enabled e' := by
  simp only [altCertB, Bool.and_eq_true] at h
  have hp := optPredBeq_eq h.1.1
  unfold Alt.enabled
  rw [← hp]
  cases hpa : a.pred with
  | none => rfl
  | some p =>
    have hrel := h.1.2
    simp only [hpa, List.all_eq_true] at hrel
    exact Pred.eval_congr e e' p (fun q hq => relevant_eq hc hR (hrel q hq))

section
variable {g : TGrammar} {F : List (List Nat)} {g' : TGrammar}

/-- everything the certificate says about nonterminal `N` -/
theorem cert_nt (h : propCertB g F g' = true) :
    (∀ N nt, g.nts[N]? = some nt → ∃ nt', g'.nts[N]? = some nt' ∧ ntCertB g F g' N nt nt' = true) ∧
    (∀ N nt', g'.nts[N]? = some nt' → ∃ nt, g.nts[N]? = some nt ∧ ntCertB g F g' N nt nt' = true) := by
  simp only [propCertB, Bool.and_eq_true] at h
  obtain ⟨h1, h2⟩ := ntsCert_get h.2
  exact ⟨fun N nt hN => by simpa using h1 N nt hN, fun N nt' hN => by simpa using h2 N nt' hN⟩

theorem ntCert_parts {N : Nat} {nt nt' : Nonterm} (h : ntCertB g F g' N nt nt' = true) :
    ParamsCert g (Fof F N) nt nt' ∧ altsCertB g F g' (Fof F N) nt.params nt'.params nt.alts nt'.alts = true := by
  simp only [ntCertB, Bool.and_eq_true] at h
  exact ⟨paramsCert_of h.1, h.2⟩

theorem propagate_forward (hcert : propCertB g F g' = true) {N : Nat} {e : Env} {w : List Nat}
    (hder : Der (laImp g) g N e w) :
    ∀ (nt' : Nonterm) (e' : Env), g'.nts[N]? = some nt' → EnvRel g (Fof F N) nt'.params e e' → Der noImp g' N e' w := by
  have hT : g'.nTerms = g.nTerms := by
    simp only [propCertB, Bool.and_eq_true, beq_iff_eq] at hcert; exact hcert.1
  obtain ⟨hfw, _⟩ := cert_nt hcert
  refine @Der.rec (laImp g) g
    (fun N e w _ => ∀ (nt' : Nonterm) (e' : Env), g'.nts[N]? = some nt' → EnvRel g (Fof F N) nt'.params e e' →
      Der noImp g' N e' w)
    (fun N e first syms w _ => ∀ (nt nt' : Nonterm) (e' : Env) (syms' : List Sym),
      g.nts[N]? = some nt → g'.nts[N]? = some nt' → ParamsCert g (Fof F N) nt nt' →
      EnvRel g (Fof F N) nt'.params e e' →
      seqCertB g F g' (Fof F N) nt.params nt'.params first syms syms' = true →
      DerSeq noImp g' N e' first syms' w)
    ?_ ?_ ?_ ?_ N e w hder
  · intro N e nt a w hnt ha hen _ ih nt' e' hnt' hR
    obtain ⟨nt'', hnt'', hc⟩ := hfw N nt hnt
    rw [hnt'] at hnt''
    cases hnt''
    obtain ⟨hpc, hac⟩ := ntCert_parts hc
    obtain ⟨a', ha', hca⟩ := (altsCert_mem hac).1 a ha
    have hen' : a'.enabled e' = true := by rw [← altCert_enabled hpc hca hR]; exact hen
    have hseq : seqCertB g F g' (Fof F N) nt.params nt'.params true a.rhs a'.rhs = true := by
      simp only [altCertB, Bool.and_eq_true] at hca; exact hca.2
    exact Der.alt _ _ nt' a' w hnt' ha' hen' (ih nt nt' e' a'.rhs hnt hnt' hpc hR hseq)
  · intro N e first nt nt' e' syms' _ _ _ _ hs
    cases syms' with
    | nil => exact DerSeq.nil _ _ _
    | cons s r => simp [seqCertB] at hs
  · intro N e first a rest v ha _ ih nt nt' e' syms' hnt hnt' hpc hR hs
    cases syms' with
    | nil => simp [seqCertB] at hs
    | cons s r =>
      cases s with
      | t b =>
        simp only [seqCertB, Bool.and_eq_true, beq_iff_eq] at hs
        obtain ⟨rfl, hs⟩ := hs
        exact DerSeq.t _ _ _ a r v (by rw [hT]; exact ha) (ih nt nt' e' r hnt hnt' hpc hR hs)
      | n k args => simp [seqCertB] at hs
  · intro N e first m args rest u v hd _ ih1 ih2 nt nt' e' syms' hnt hnt' hpc hR hs
    cases syms' with
    | nil => simp [seqCertB] at hs
    | cons s r =>
      cases s with
      | t b => simp [seqCertB] at hs
      | n k args' =>
        simp only [seqCertB, Bool.and_eq_true, beq_iff_eq] at hs
        obtain ⟨⟨rfl, href⟩, hs⟩ := hs
        -- the target nonterminal exists on both sides
        obtain ⟨t, _, ht, _, _, _⟩ := hd.inv
        obtain ⟨t', ht', hct⟩ := hfw m t ht
        obtain ⟨hpct, _⟩ := ntCert_parts hct
        have hpar : g'.ntParams m = t'.params := by simp [TGrammar.ntParams, ht']
        rw [hpar] at href
        have hR' := ref_preserve N m hpc hpct href hR
        exact DerSeq.n _ _ _ m args' r u v (ih1 t' _ ht' hR') (ih2 nt nt' e' r hnt hnt' hpc hR hs)

theorem propagate_backward (hcert : propCertB g F g' = true) {N : Nat} {e' : Env} {w : List Nat}
    (hder : Der noImp g' N e' w) :
    ∀ (nt' : Nonterm) (e : Env), g'.nts[N]? = some nt' → EnvRel g (Fof F N) nt'.params e e' → Der (laImp g) g N e w := by
  have hT : g'.nTerms = g.nTerms := by
    simp only [propCertB, Bool.and_eq_true, beq_iff_eq] at hcert; exact hcert.1
  obtain ⟨_, hbw⟩ := cert_nt hcert
  refine @Der.rec noImp g'
    (fun N e' w _ => ∀ (nt' : Nonterm) (e : Env), g'.nts[N]? = some nt' → EnvRel g (Fof F N) nt'.params e e' →
      Der (laImp g) g N e w)
    (fun N e' first syms' w _ => ∀ (nt nt' : Nonterm) (e : Env) (syms : List Sym),
      g.nts[N]? = some nt → g'.nts[N]? = some nt' → ParamsCert g (Fof F N) nt nt' →
      EnvRel g (Fof F N) nt'.params e e' →
      seqCertB g F g' (Fof F N) nt.params nt'.params first syms syms' = true →
      DerSeq (laImp g) g N e first syms w)
    ?_ ?_ ?_ ?_ N e' w hder
  · intro N e' nt'' a' w hnt'' ha' hen' _ ih nt' e hnt' hR
    have hnn : nt' = nt'' := by rw [hnt'] at hnt''; exact Option.some.inj hnt''
    subst hnn
    obtain ⟨nt, hnt, hc⟩ := hbw N nt' hnt'
    obtain ⟨hpc, hac⟩ := ntCert_parts hc
    obtain ⟨a, ha, hca⟩ := (altsCert_mem hac).2 a' ha'
    have hen : a.enabled e = true := by rw [altCert_enabled hpc hca hR]; exact hen'
    have hseq : seqCertB g F g' (Fof F N) nt.params nt'.params true a.rhs a'.rhs = true := by
      simp only [altCertB, Bool.and_eq_true] at hca; exact hca.2
    exact Der.alt _ _ nt a w hnt ha hen (ih nt nt' e a.rhs hnt hnt' hpc hR hseq)
  · intro N e' first nt nt' e syms _ _ _ _ hs
    cases syms with
    | nil => exact DerSeq.nil _ _ _
    | cons s r => cases s <;> simp [seqCertB] at hs
  · intro N e' first a rest' v ha _ ih nt nt' e syms hnt hnt' hpc hR hs
    cases syms with
    | nil => simp [seqCertB] at hs
    | cons s r =>
      cases s with
      | t b =>
        simp only [seqCertB, Bool.and_eq_true, beq_iff_eq] at hs
        obtain ⟨rfl, hs⟩ := hs
        exact DerSeq.t _ _ _ b r v (by rw [← hT]; exact ha) (ih nt nt' e r hnt hnt' hpc hR hs)
      | n k args => simp [seqCertB] at hs
  · intro N e' first m args' rest' u v hd _ ih1 ih2 nt nt' e syms hnt hnt' hpc hR hs
    cases syms with
    | nil => simp [seqCertB] at hs
    | cons s r =>
      cases s with
      | t b => simp [seqCertB] at hs
      | n k args =>
        simp only [seqCertB, Bool.and_eq_true, beq_iff_eq] at hs
        obtain ⟨⟨rfl, href⟩, hs⟩ := hs
        obtain ⟨t', _, ht', _, _, _⟩ := hd.inv
        obtain ⟨t, ht, hct⟩ := hbw k t' ht'
        obtain ⟨hpct, _⟩ := ntCert_parts hct
        have hpar : g'.ntParams k = t'.params := by simp [TGrammar.ntParams, ht']
        rw [hpar] at href
        have hR' := ref_preserve N k hpc hpct href hR
        exact DerSeq.n _ _ _ k args r u v (ih1 t' _ ht' hR') (ih2 nt nt' e r hnt hnt' hpc hR hs)

/-- An input (no parameters) evaluated with all flags unset is related to itself. -/
theorem envRel_env0 (FN : List Nat) : EnvRel g FN [] env0 env0 := by
  intro p
  simp [env0]

end

theorem propagate_ok_spec {q : Quirks} {g g' : TGrammar} (h : propagate q g = (.ok, g')) :
    g'.inputs = g.inputs ∧ checkModel g' = true := by
  unfold propagate at h
  simp only at h
  split at h
  · cases h
  · split at h
    · cases h
    · split at h
      · cases h
      · rename_i hc
        have := (Prod.mk.inj h).2
        subst this
        exact ⟨rfl, by simpa using hc⟩


end TmVerif.Templates
