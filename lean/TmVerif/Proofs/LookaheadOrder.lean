import TmVerif.Proofs.Lookahead
/-!
C08, order part: invariants of the DFS of `newLookaheadRule`.

When neither `cycle` nor the fuel flag is raised, the post-order list `order` contains every
predecessor of a node before the node (so position in `order` is a rank compatible with every
alternative), and `depth x` is witnessed by a descending path of that many nodes (so
`top.depth = len(nodes)+1` yields a path through all nodes, which pins the total order down).
-/
namespace TmVerif.Lookahead

def Dfs.bad (st : Dfs) : Bool := st.cycle || st.fuelOut

/-- `x₀ :: x₁ :: …` with `xᵢ₊₁ ∈ prev xᵢ` -/
def DescP (prev : Int → List Int) : List Int → Prop
  | [] => True
  | [_] => True
  | b :: a :: t => a ∈ prev b ∧ DescP prev (a :: t)

def HasPath (prev : Int → List Int) (x : Int) (d : Nat) : Prop :=
  ∃ t : List Int, DescP prev (x :: t) ∧ t.length + 1 = d

structure Inv (prev : Int → List Int) (st : Dfs) : Prop where
  mem_iff : ∀ x, x ∈ st.order ↔ st.state x = 2
  nodup : st.order.Nodup
  before : st.bad = false → ∀ x ∈ st.order, ∀ p ∈ prev x,
    p ∈ st.order ∧ st.order.idxOf p < st.order.idxOf x
  path : st.bad = false → ∀ x ∈ st.order, HasPath prev x (st.depth x)

structure Step (st st' : Dfs) : Prop where
  ext : ∃ e, st'.order = st.order ++ e
  inprog : ∀ y, st.state y = 1 → st'.state y = 1
  bad : st.bad = true → st'.bad = true

theorem Step.refl (st : Dfs) : Step st st := ⟨⟨[], by simp⟩, fun _ h => h, fun h => h⟩

theorem Step.trans {a b c : Dfs} (h1 : Step a b) (h2 : Step b c) : Step a c := by
  obtain ⟨e1, he1⟩ := h1.ext
  obtain ⟨e2, he2⟩ := h2.ext
  exact ⟨⟨e1 ++ e2, by rw [he2, he1, List.append_assoc]⟩,
    fun y h => h2.inprog y (h1.inprog y h), fun h => h2.bad (h1.bad h)⟩

theorem Step.good {a b : Dfs} (h : Step a b) (hb : b.bad = false) : a.bad = false := by
  cases ha : a.bad with
  | false => rfl
  | true => rw [h.bad ha] at hb; cases hb

theorem Step.mem {a b : Dfs} (h : Step a b) {x : Int} (hx : x ∈ a.order) : x ∈ b.order := by
  obtain ⟨e, he⟩ := h.ext
  rw [he]; exact List.mem_append_left _ hx

/-- loop-carried depth of the node whose predecessor list `ps0` is being traversed -/
def DInv (prev : Int → List Int) (ps0 : List Int) (s : Dfs) (d : Nat) : Prop :=
  s.bad = false → d = 1 ∨ ∃ p ∈ ps0, ∃ d', HasPath prev p d' ∧ d = d' + 1

def DfsSpec (prev : Int → List Int) (rec : Int → Dfs → Dfs) : Prop :=
  ∀ p s, Inv prev s →
    Inv prev (rec p s) ∧ Step s (rec p s) ∧ ((rec p s).bad = false → p ∈ (rec p s).order)

theorem loop_spec {prev : Int → List Int} {rec : Int → Dfs → Dfs} (H : DfsSpec prev rec)
    (ps0 : List Int) :
    ∀ (ps : List Int), (∀ p ∈ ps, p ∈ ps0) → ∀ (s : Dfs) (d : Nat), Inv prev s → DInv prev ps0 s d →
      Inv prev (ps.foldl (visit rec) (s, d)).1 ∧ Step s (ps.foldl (visit rec) (s, d)).1 ∧
      DInv prev ps0 (ps.foldl (visit rec) (s, d)).1 (ps.foldl (visit rec) (s, d)).2 ∧
      ((ps.foldl (visit rec) (s, d)).1.bad = false →
        ∀ p ∈ ps, p ∈ (ps.foldl (visit rec) (s, d)).1.order) := by
  intro ps
  induction ps with
  | nil =>
    intro _ s d hinv hd
    exact ⟨hinv, Step.refl s, hd, by simp⟩
  | cons p ps ih =>
    intro hsub s d hinv hd
    obtain ⟨hinv2, hstep2, hmem2⟩ := H p s hinv
    have hd2 : DInv prev ps0 (visit rec (s, d) p).1 (visit rec (s, d) p).2 := by
      intro hb
      simp only [visit] at hb ⊢
      split
      · right
        exact ⟨p, hsub p (by simp), _, hinv2.path hb p (hmem2 hb), rfl⟩
      · exact hd (hstep2.good hb)
    have hrec := ih (fun q hq => hsub q (by simp [hq])) (visit rec (s, d) p).1 (visit rec (s, d) p).2
      (by simpa [visit] using hinv2) hd2
    simp only [List.foldl_cons]
    obtain ⟨h1, h2, h3, h4⟩ := hrec
    have hstep : Step s (visit rec (s, d) p).1 := by simpa [visit] using hstep2
    refine ⟨h1, hstep.trans h2, h3, ?_⟩
    intro hb q hq
    rcases List.mem_cons.1 hq with rfl | hq'
    · have hb2 : (rec q s).bad = false := by
        have := h2.good hb
        simpa [visit] using this
      have : q ∈ (visit rec (s, d) q).1.order := by simpa [visit] using hmem2 hb2
      exact h2.mem this
    · exact h4 hb q hq'

theorem hasPath_one (prev : Int → List Int) (x : Int) : HasPath prev x 1 := ⟨[], trivial, rfl⟩

theorem hasPath_succ {prev : Int → List Int} {n p : Int} {d : Nat} (hp : p ∈ prev n)
    (h : HasPath prev p d) : HasPath prev n (d + 1) := by
  obtain ⟨t, ht, hl⟩ := h
  exact ⟨p :: t, ⟨hp, ht⟩, by simp [hl]⟩

def dfsStart (n : Int) (s : Dfs) : Dfs := { s with state := upd s.state n 1 }

def dfsFinish (n : Int) (r : Dfs × Nat) : Dfs :=
  { r.1 with state := upd r.1.state n 2, depth := upd r.1.depth n r.2, order := r.1.order ++ [n] }

theorem dfs_new {prev : Int → List Int} {fuel : Nat} {n : Int} {s : Dfs} (h1 : ¬ s.state n = 1)
    (h2 : ¬ s.state n = 2) :
    dfs prev (fuel + 1) n s =
      dfsFinish n ((prev n).foldl (visit (dfs prev fuel)) (dfsStart n s, 1)) := by
  simp [dfs, h1, h2, dfsStart, dfsFinish]

theorem dfs_spec (prev : Int → List Int) : ∀ fuel, DfsSpec prev (dfs prev fuel) := by
  intro fuel
  induction fuel with
  | zero =>
    intro p s hinv
    simp only [dfs]
    refine ⟨⟨hinv.mem_iff, hinv.nodup, ?_, ?_⟩, ⟨⟨[], by simp⟩, fun _ h => h, ?_⟩, ?_⟩ <;>
      simp [Dfs.bad]
  | succ fuel ih =>
    intro n s hinv
    by_cases h1 : s.state n = 1
    · -- state 1: cycle
      simp only [dfs, h1, if_true]
      refine ⟨⟨hinv.mem_iff, hinv.nodup, ?_, ?_⟩, ⟨⟨[], by simp⟩, fun _ h => h, ?_⟩, ?_⟩ <;>
        simp [Dfs.bad]
    · by_cases h2 : s.state n = 2
      · -- state 2: done
        simp only [dfs, h2, if_true]
        exact ⟨hinv, Step.refl s, fun _ => (hinv.mem_iff n).2 h2⟩
      · -- new node
        rw [dfs_new h1 h2]
        have hinv1 : Inv prev (dfsStart n s) := by
          refine ⟨?_, hinv.nodup, hinv.before, hinv.path⟩
          intro x
          by_cases hx : x = n
          · subst hx
            simp only [dfsStart, upd, if_true]
            constructor
            · intro hm; exact absurd ((hinv.mem_iff x).1 hm) h2
            · intro h; cases h
          · simp only [dfsStart, upd, hx, if_false]; exact hinv.mem_iff x
        have hd1 : DInv prev (prev n) (dfsStart n s) 1 := fun _ => Or.inl rfl
        obtain ⟨hI, hS, hD, hM⟩ := loop_spec ih (prev n) (prev n) (fun _ h => h) _ 1 hinv1 hd1
        generalize (prev n).foldl (visit (dfs prev fuel)) (dfsStart n s, 1) = r at hI hS hD hM ⊢
        simp only [dfsFinish]
        have hn1 : r.1.state n = 1 := hS.inprog n (by simp [dfsStart, upd])
        have hnot : n ∉ r.1.order := fun hm => by
          have := (hI.mem_iff n).1 hm
          omega
        obtain ⟨e, he⟩ := hS.ext
        simp only [dfsStart] at he
        refine ⟨⟨?_, ?_, ?_, ?_⟩, ⟨⟨e ++ [n], by simp [he]⟩, ?_, ?_⟩, ?_⟩
        · intro x
          by_cases hx : x = n
          · subst hx; simp [upd]
          · simp only [upd, hx, if_false, List.mem_append, List.mem_singleton, or_false]
            exact hI.mem_iff x
        · exact List.nodup_append.2 ⟨hI.nodup, by simp, by
            intro a ha b hb
            simp at hb; subst hb
            intro hab; subst hab; exact hnot ha⟩
        · intro hb x hx p hp
          have hb' : r.1.bad = false := by simpa [Dfs.bad] using hb
          simp only [List.mem_append, List.mem_singleton] at hx
          rcases hx with hx | hx
          · obtain ⟨hpm, hlt⟩ := hI.before hb' x hx p hp
            refine ⟨List.mem_append_left _ hpm, ?_⟩
            simp only [List.idxOf_append, hpm, hx, if_true]
            exact hlt
          · subst hx
            have hpm := hM hb' p hp
            refine ⟨List.mem_append_left _ hpm, ?_⟩
            simp only [List.idxOf_append, hpm, hnot, if_true, if_false]
            have := List.idxOf_lt_length_of_mem hpm
            omega
        · intro hb x hx
          have hb' : r.1.bad = false := by simpa [Dfs.bad] using hb
          simp only [List.mem_append, List.mem_singleton] at hx
          rcases hx with hx | hx
          · have hne : x ≠ n := fun h => hnot (h ▸ hx)
            simp only [upd, hne, if_false]
            exact hI.path hb' x hx
          · subst hx
            simp only [upd, if_true]
            rcases hD hb' with h1' | ⟨p, hp, d', hpath, hd'⟩
            · rw [h1']; exact hasPath_one prev x
            · rw [hd']; exact hasPath_succ hp hpath
        · intro y hy
          have hyn : y ≠ n := fun h => h1 (h ▸ hy)
          have : r.1.state y = 1 := hS.inprog y (by simp [dfsStart, upd, hyn, hy])
          simp [upd, hyn, this]
        · intro hb
          have : r.1.bad = true := hS.bad (by simpa [Dfs.bad, dfsStart] using hb)
          simpa [Dfs.bad] using this
        · intro _; simp

/-! ### the order graph of a list of alternatives -/

theorem mem_prevOf {las : List Alt} {a b : Int} : a ∈ prevOf las b ↔ (a, b) ∈ edges las := by
  simp only [prevOf, List.mem_filterMap]
  constructor
  · rintro ⟨⟨a', b'⟩, he, h⟩
    simp only at h
    split at h
    · next hb => simp only [Option.some.injEq] at h; subst h; subst hb; exact he
    · cases h
  · intro he
    exact ⟨(a, b), he, by simp⟩

theorem mem_edges {las : List Alt} {e : Int × Int} :
    e ∈ edges las ↔ ∃ la ∈ las, e ∈ pairsOf (inputsOf la) := by
  simp [edges, List.mem_flatMap]

theorem pairsOf_mem {xs : List Int} {e : Int × Int} (h : e ∈ pairsOf xs) : e.1 ∈ xs ∧ e.2 ∈ xs := by
  induction xs with
  | nil => simp [pairsOf] at h
  | cons a t ih =>
    cases t with
    | nil => simp [pairsOf] at h
    | cons b t' =>
      simp only [pairsOf, List.mem_cons] at h
      rcases h with h | h
      · subst h; simp
      · have := ih h
        exact ⟨List.mem_cons_of_mem _ this.1, List.mem_cons_of_mem _ this.2⟩

theorem pairsOf_of_pairwise {R : Int → Int → Prop} {xs : List Int} (h : xs.Pairwise R) :
    ∀ e ∈ pairsOf xs, R e.1 e.2 := by
  induction xs with
  | nil => simp [pairsOf]
  | cons a t ih =>
    cases t with
    | nil => simp [pairsOf]
    | cons b t' =>
      intro e he
      simp only [pairsOf, List.mem_cons] at he
      rw [List.pairwise_cons] at h
      rcases he with he | he
      · subst he; exact h.1 b (by simp)
      · exact ih h.2 e he

theorem mem_inputs_of_edge {las : List Alt} {a b : Int} (h : a ∈ prevOf las b) :
    a ∈ las.flatMap inputsOf ∧ b ∈ las.flatMap inputsOf := by
  obtain ⟨la, hla, he⟩ := mem_edges.1 (mem_prevOf.1 h)
  have := pairsOf_mem he
  exact ⟨List.mem_flatMap.2 ⟨la, hla, this.1⟩, List.mem_flatMap.2 ⟨la, hla, this.2⟩⟩

theorem mem_inputs_of_topPrev {las : List Alt} {z : Int} (h : z ∈ topPrev las) :
    z ∈ las.flatMap inputsOf := by
  simp only [topPrev, List.mem_filterMap] at h
  obtain ⟨la, hla, hl⟩ := h
  exact List.mem_flatMap.2 ⟨la, hla, List.mem_of_getLast? hl⟩

theorem foldl_insertNew_mem (l : List Int) (acc : List Int) (x : Int) (h : x ∈ acc ∨ x ∈ l) :
    x ∈ l.foldl insertNew acc := by
  induction l generalizing acc with
  | nil => simpa using h
  | cons y t ih =>
    simp only [List.foldl_cons]
    apply ih
    rcases h with h | h
    · left
      unfold insertNew
      split
      · exact h
      · exact List.mem_append_left _ h
    · rcases List.mem_cons.1 h with rfl | h
      · left
        unfold insertNew
        split
        · next hc => simpa using hc
        · simp
      · right; exact h

theorem mem_nodesOf {las : List Alt} {x : Int} (h : x ∈ las.flatMap inputsOf) : x ∈ nodesOf las :=
  foldl_insertNew_mem _ [] x (Or.inr h)

/-- an edge chain ending inside `order` lies in `order` with increasing positions -/
theorem chain_ranked {prev : Int → List Int} {st : Dfs} (hinv : Inv prev st) (hb : st.bad = false) :
    ∀ xs : List Int, (∀ e ∈ pairsOf xs, e.1 ∈ prev e.2) → (∀ z, xs.getLast? = some z → z ∈ st.order) →
      (∀ x ∈ xs, x ∈ st.order) ∧ xs.Pairwise (fun a b => st.order.idxOf a < st.order.idxOf b) := by
  intro xs
  induction xs with
  | nil => intro _ _; simp
  | cons a t ih =>
    cases t with
    | nil =>
      intro _ hl
      have := hl a (by simp)
      simp [this]
    | cons b t' =>
      intro hp hl
      obtain ⟨hm, hpw⟩ := ih (fun e he => hp e (by simp [pairsOf, he]))
        (fun z hz => hl z (by simpa [List.getLast?_cons_cons] using hz))
      have hab : a ∈ prev b := hp (a, b) (by simp [pairsOf])
      obtain ⟨ham, hlt⟩ := hinv.before hb b (hm b (by simp)) a hab
      refine ⟨?_, List.pairwise_cons.2 ⟨?_, hpw⟩⟩
      · intro x hx
        rcases List.mem_cons.1 hx with rfl | hx
        · exact ham
        · exact hm x hx
      · intro y hy
        rcases List.mem_cons.1 hy with rfl | hy
        · exact hlt
        · have := (List.pairwise_cons.1 hpw).1 y hy
          omega

/-! ### the call `dfs(&top)` -/

def dfsTopRaw (las : List Alt) : Dfs × Nat :=
  (topPrev las).foldl (visit (dfs (prevOf las) ((nodesOf las).length + 2))) (dfsInit, 1)

theorem dfsTop_eq (las : List Alt) :
    dfsTop las = ({ (dfsTopRaw las).1 with order := (dfsTopRaw las).1.order ++ [0] }, (dfsTopRaw las).2) := rfl

theorem inv_init (prev : Int → List Int) : Inv prev dfsInit :=
  ⟨by simp [dfsInit], by simp [dfsInit], by simp [dfsInit], by simp [dfsInit]⟩

theorem dfsTopRaw_spec (las : List Alt) :
    Inv (prevOf las) (dfsTopRaw las).1 ∧
      DInv (prevOf las) (topPrev las) (dfsTopRaw las).1 (dfsTopRaw las).2 ∧
      ((dfsTopRaw las).1.bad = false → ∀ p ∈ topPrev las, p ∈ (dfsTopRaw las).1.order) := by
  obtain ⟨h1, _, h3, h4⟩ := loop_spec (dfs_spec (prevOf las) ((nodesOf las).length + 2)) (topPrev las)
    (topPrev las) (fun _ h => h) dfsInit 1 (inv_init _) (fun _ => Or.inl rfl)
  exact ⟨h1, h3, h4⟩

/-- Acyclic (no `cycle` flag) ⇒ position in the DFS post-order is a rank compatible with every alternative. -/
theorem orderedBy_of_good (las : List Alt) (hb : (dfsTopRaw las).1.bad = false) :
    OrderedBy las fun x => (dfsTopRaw las).1.order.idxOf x := by
  obtain ⟨hinv, _, hmem⟩ := dfsTopRaw_spec las
  intro la hla
  have hch := chain_ranked hinv hb (inputsOf la)
    (fun e he => mem_prevOf.2 (mem_edges.2 ⟨la, hla, he⟩))
    (fun z hz => hmem hb z (by
      simp only [topPrev, List.mem_filterMap]
      exact ⟨la, hla, hz⟩))
  exact hch.2

/-! ### uniqueness of the order -/

theorem subset_of_nodup_length {l₁ l₂ : List Int} (hn : l₁.Nodup) (hs : ∀ x ∈ l₁, x ∈ l₂)
    (hl : l₂.length ≤ l₁.length) : ∀ x ∈ l₂, x ∈ l₁ := by
  induction l₁ generalizing l₂ with
  | nil =>
    have : l₂ = [] := List.eq_nil_of_length_eq_zero (by simpa using hl)
    subst this; simp
  | cons a t ih =>
    rw [List.nodup_cons] at hn
    have ha : a ∈ l₂ := hs a (by simp)
    have hlen : (l₂.erase a).length = l₂.length - 1 := List.length_erase_of_mem ha
    have hsub : ∀ x ∈ t, x ∈ l₂.erase a := by
      intro x hx
      have hne : x ≠ a := fun h => hn.1 (h ▸ hx)
      exact (List.mem_erase_of_ne hne).2 (hs x (List.mem_cons_of_mem _ hx))
    have := ih hn.2 hsub (by simp at hl; omega)
    intro x hx
    by_cases hxa : x = a
    · simp [hxa]
    · exact List.mem_cons_of_mem _ (this x ((List.mem_erase_of_ne hxa).2 hx))

theorem desc_pairwise {prev : Int → List Int} {rank : Int → Nat}
    (hr : ∀ a b, a ∈ prev b → rank a < rank b) :
    ∀ l : List Int, DescP prev l → l.Pairwise fun b a => rank a < rank b := by
  intro l
  induction l with
  | nil => intro _; simp
  | cons b t ih =>
    cases t with
    | nil => intro _; simp
    | cons a t' =>
      intro h
      obtain ⟨hab, hrest⟩ := h
      have hpw := ih hrest
      refine List.pairwise_cons.2 ⟨?_, hpw⟩
      intro y hy
      rcases List.mem_cons.1 hy with rfl | hy
      · exact hr _ _ hab
      · have := (List.pairwise_cons.1 hpw).1 y hy
        have := hr _ _ hab
        omega

theorem desc_mem {prev : Int → List Int} {S : List Int} (hS : ∀ a b, a ∈ prev b → a ∈ S) :
    ∀ l : List Int, DescP prev l → (∀ z, l.head? = some z → z ∈ S) → ∀ y ∈ l, y ∈ S := by
  intro l
  induction l with
  | nil => intro _ _; simp
  | cons b t ih =>
    cases t with
    | nil =>
      intro _ hh y hy
      simp at hy; subst hy; exact hh y (by simp)
    | cons a t' =>
      intro h hh y hy
      obtain ⟨hab, hrest⟩ := h
      rcases List.mem_cons.1 hy with rfl | hy
      · exact hh y (by simp)
      · exact ih hrest (fun z hz => by simp at hz; subst hz; exact hS _ _ hab) y hy

theorem agree_on_chain {r1 r2 : Int → Nat} :
    ∀ l : List Int, (l.Pairwise fun b a => r1 a < r1 b) → (l.Pairwise fun b a => r2 a < r2 b) →
      ∀ x ∈ l, ∀ y ∈ l, (r1 x < r1 y ↔ r2 x < r2 y) := by
  intro l
  induction l with
  | nil => intro _ _ x hx; simp at hx
  | cons h t ih =>
    intro h1 h2 x hx y hy
    rw [List.pairwise_cons] at h1 h2
    rcases List.mem_cons.1 hx with hx' | hx' <;> rcases List.mem_cons.1 hy with hy' | hy'
    · subst hx'; subst hy'; simp
    · subst hx'
      have a1 := h1.1 y hy'; have a2 := h2.1 y hy'
      constructor <;> intro <;> omega
    · subst hy'
      have a1 := h1.1 x hx'; have a2 := h2.1 x hx'
      constructor <;> intro <;> assumption
    · exact ih h1.2 h2.2 x hx' y hy'

/-- Acyclic and `top.depth = len(nodes)+1` ⇒ any two ranks compatible with all alternatives order
the predicate inputs identically. -/
theorem order_unique (las : List Alt) (hb : (dfsTopRaw las).1.bad = false)
    (hd : (dfsTopRaw las).2 = (nodesOf las).length + 1) (r1 r2 : Int → Nat)
    (h1 : OrderedBy las r1) (h2 : OrderedBy las r2) :
    ∀ x ∈ las.flatMap inputsOf, ∀ y ∈ las.flatMap inputsOf, (r1 x < r1 y ↔ r2 x < r2 y) := by
  obtain ⟨_, hD, _⟩ := dfsTopRaw_spec las
  have edge_lt : ∀ (r : Int → Nat), OrderedBy las r → ∀ a b, a ∈ prevOf las b → r a < r b := by
    intro r hr a b hab
    obtain ⟨la, hla, he⟩ := mem_edges.1 (mem_prevOf.1 hab)
    exact pairsOf_of_pairwise (hr la hla) (a, b) he
  intro x hx y hy
  rcases hD hb with h0 | ⟨p, hp, d', ⟨t, hdesc, hlen⟩, hdd⟩
  · -- no node at all
    have : (nodesOf las).length = 0 := by omega
    have hnil : nodesOf las = [] := List.eq_nil_of_length_eq_zero this
    have := mem_nodesOf hx
    rw [hnil] at this; simp at this
  · have hp1 := desc_pairwise (edge_lt r1 h1) _ hdesc
    have hp2 := desc_pairwise (edge_lt r2 h2) _ hdesc
    have hnd : (p :: t).Nodup := hp1.imp (fun {a b} h => by intro hab; subst hab; omega)
    have hsub : ∀ z ∈ p :: t, z ∈ nodesOf las := fun z hz =>
      mem_nodesOf (desc_mem (S := las.flatMap inputsOf) (fun a b h => (mem_inputs_of_edge h).1) _ hdesc
        (fun z hz => by simp at hz; subst hz; exact mem_inputs_of_topPrev hp) z hz)
    have hall := subset_of_nodup_length hnd hsub (by simp; omega)
    exact agree_on_chain _ hp1 hp2 x (hall x (mem_nodesOf hx)) y (hall y (mem_nodesOf hy))

/-! ### what acceptance by `newLookaheadRule` entails -/

deriving instance DecidableEq for Except

theorem newLookaheadRule_ok {las : List Alt} {r : Rule} (h : newLookaheadRule las = .ok r) :
    (dfsTopRaw las).1.bad = false ∧ (dfsTopRaw las).2 = (nodesOf las).length + 1 ∧
      elim las.length las (dfsTop las).1.order = .ok r := by
  unfold newLookaheadRule at h
  simp only at h
  split at h
  · cases h
  · next hf =>
    split at h
    · cases h
    · next hc =>
      split at h
      · cases h
      · next hd =>
        rw [dfsTop_eq] at hf hc hd
        simp only [Bool.not_eq_true] at hf hc
        simp only [ne_eq, Decidable.not_not] at hd
        exact ⟨by simp [Dfs.bad, hf, hc], hd, h⟩

end TmVerif.Lookahead
