import TmVerif.Proofs.Lookahead
/-!
C08, order part: invariants of the DFS of `newLookaheadRule`.

When neither `cycle` nor the fuel flag is raised, the post-order list `order` contains every
predecessor of a node before the node (so position in `order` is a rank compatible with every
alternative), and `depth x` is witnessed by a descending path of that many nodes (so
`top.depth = len(nodes)+1` yields a path through all nodes, which pins the total order down).
-/
namespace TmVerif.Lookahead

def Dfs.bad (st : Dfs) : Bool := st.cycle || st.fuelOut

/-- `x₀ :: x₁ :: …` with `xᵢ₊₁ ∈ prev xᵢ` -/
def DescP (prev : Int → List Int) : List Int → Prop
  | [] => True
  | [_] => True
  | b :: a :: t => a ∈ prev b ∧ DescP prev (a :: t)

def HasPath (prev : Int → List Int) (x : Int) (d : Nat) : Prop :=
  ∃ t : List Int, DescP prev (x :: t) ∧ t.length + 1 = d

structure Inv (prev : Int → List Int) (st : Dfs) : Prop where
  mem_iff : ∀ x, x ∈ st.order ↔ st.state x = 2
  nodup : st.order.Nodup
  before : st.bad = false → ∀ x ∈ st.order, ∀ p ∈ prev x,
    p ∈ st.order ∧ st.order.idxOf p < st.order.idxOf x
  path : st.bad = false → ∀ x ∈ st.order, HasPath prev x (st.depth x)

structure Step (st st' : Dfs) : Prop where
  ext : ∃ e, st'.order = st.order ++ e
  inprog : ∀ y, st.state y = 1 → st'.state y = 1
  bad : st.bad = true → st'.bad = true

theorem Step.refl (st : Dfs) : Step st st := ⟨⟨[], by simp⟩, fun _ h => h, fun h => h⟩

theorem Step.trans {a b c : Dfs} (h1 : Step a b) (h2 : Step b c) : Step a c := by
  obtain ⟨e1, he1⟩ := h1.ext
  obtain ⟨e2, he2⟩ := h2.ext
  exact ⟨⟨e1 ++ e2, by rw [he2, he1, List.append_assoc]⟩,
    fun y h => h2.inprog y (h1.inprog y h), fun h => h2.bad (h1.bad h)⟩

theorem Step.good {a b : Dfs} (h : Step a b) (hb : b.bad = false) : a.bad = false := by
  cases ha : a.bad with
  | false => rfl
  | true => rw [h.bad ha] at hb; cases hb

theorem Step.mem {a b : Dfs} (h : Step a b) {x : Int} (hx : x ∈ a.order) : x ∈ b.order := by
  obtain ⟨e, he⟩ := h.ext
  rw [he]; exact List.mem_append_left _ hx

/-- loop-carried depth of the node whose predecessor list `ps0` is being traversed -/
def DInv (prev : Int → List Int) (ps0 : List Int) (s : Dfs) (d : Nat) : Prop :=
  s.bad = false → d = 1 ∨ ∃ p ∈ ps0, ∃ d', HasPath prev p d' ∧ d = d' + 1

def DfsSpec (prev : Int → List Int) (rec : Int → Dfs → Dfs) : Prop :=
  ∀ p s, Inv prev s →
    Inv prev (rec p s) ∧ Step s (rec p s) ∧ ((rec p s).bad = false → p ∈ (rec p s).order)

theorem loop_spec {prev : Int → List Int} {rec : Int → Dfs → Dfs} (H : DfsSpec prev rec)
    (ps0 : List Int) :
    ∀ (ps : List Int), (∀ p ∈ ps, p ∈ ps0) → ∀ (s : Dfs) (d : Nat), Inv prev s → DInv prev ps0 s d →
      Inv prev (ps.foldl (visit rec) (s, d)).1 ∧ Step s (ps.foldl (visit rec) (s, d)).1 ∧
      DInv prev ps0 (ps.foldl (visit rec) (s, d)).1 (ps.foldl (visit rec) (s, d)).2 ∧
      ((ps.foldl (visit rec) (s, d)).1.bad = false →
        ∀ p ∈ ps, p ∈ (ps.foldl (visit rec) (s, d)).1.order) := by
  intro ps
  induction ps with
  | nil =>
    intro _ s d hinv hd
    exact ⟨hinv, Step.refl s, hd, by simp⟩
  | cons p ps ih =>
    intro hsub s d hinv hd
    obtain ⟨hinv2, hstep2, hmem2⟩ := H p s hinv
    have hd2 : DInv prev ps0 (visit rec (s, d) p).1 (visit rec (s, d) p).2 := by
      intro hb
      simp only [visit] at hb ⊢
      split
      · right
        exact ⟨p, hsub p (by simp), _, hinv2.path hb p (hmem2 hb), rfl⟩
      · exact hd (hstep2.good hb)
    have hrec := ih (fun q hq => hsub q (by simp [hq])) (visit rec (s, d) p).1 (visit rec (s, d) p).2
      (by simpa [visit] using hinv2) hd2
    simp only [List.foldl_cons]
    obtain ⟨h1, h2, h3, h4⟩ := hrec
    have hstep : Step s (visit rec (s, d) p).1 := by simpa [visit] using hstep2
    refine ⟨h1, hstep.trans h2, h3, ?_⟩
    intro hb q hq
    rcases List.mem_cons.1 hq with rfl | hq'
    · have hb2 : (rec q s).bad = false := by
        have := h2.good hb
        simpa [visit] using this
      have : q ∈ (visit rec (s, d) q).1.order := by simpa [visit] using hmem2 hb2
      exact h2.mem this
    · exact h4 hb q hq'

theorem hasPath_one (prev : Int → List Int) (x : Int) : HasPath prev x 1 := ⟨[], trivial, rfl⟩

theorem hasPath_succ {prev : Int → List Int} {n p : Int} {d : Nat} (hp : p ∈ prev n)
    (h : HasPath prev p d) : HasPath prev n (d + 1) := by
  obtain ⟨t, ht, hl⟩ := h
  exact ⟨p :: t, ⟨hp, ht⟩, by simp [hl]⟩

def dfsStart (n : Int) (s : Dfs) : Dfs := { s with state := upd s.state n 1 }

def dfsFinish (n : Int) (r : Dfs × Nat) : Dfs :=
  { r.1 with state := upd r.1.state n 2, depth := upd r.1.depth n r.2, order := r.1.order ++ [n] }

theorem dfs_new {prev : Int → List Int} {fuel : Nat} {n : Int} {s : Dfs} (h1 : ¬ s.state n = 1)
    (h2 : ¬ s.state n = 2) :
    dfs prev (fuel + 1) n s =
      dfsFinish n ((prev n).foldl (visit (dfs prev fuel)) (dfsStart n s, 1)) := by
  simp [dfs, h1, h2, dfsStart, dfsFinish]

theorem dfs_spec (prev : Int → List Int) : ∀ fuel, DfsSpec prev (dfs prev fuel) := by
  intro fuel
  induction fuel with
  | zero =>
    intro p s hinv
    simp only [dfs]
    refine ⟨⟨hinv.mem_iff, hinv.nodup, ?_, ?_⟩, ⟨⟨[], by simp⟩, fun _ h => h, ?_⟩, ?_⟩ <;>
      simp [Dfs.bad]
  | succ fuel ih =>
    intro n s hinv
    by_cases h1 : s.state n = 1
    · -- state 1: cycle
      simp only [dfs, h1, if_true]
      refine ⟨⟨hinv.mem_iff, hinv.nodup, ?_, ?_⟩, ⟨⟨[], by simp⟩, fun _ h => h, ?_⟩, ?_⟩ <;>
        simp [Dfs.bad]
    · by_cases h2 : s.state n = 2
      · -- state 2: done
        simp only [dfs, h1, h2, if_true, if_false]
        exact ⟨hinv, Step.refl s, fun _ => (hinv.mem_iff n).2 h2⟩
      · -- new node
        rw [dfs_new h1 h2]
        have hinv1 : Inv prev (dfsStart n s) := by
          refine ⟨?_, hinv.nodup, hinv.before, hinv.path⟩
          intro x
          by_cases hx : x = n
          · subst hx
            simp only [dfsStart, upd, if_true]
            constructor
            · intro hm; exact absurd ((hinv.mem_iff x).1 hm) h2
            · intro h; cases h
          · simp only [dfsStart, upd, hx, if_false]; exact hinv.mem_iff x
        have hd1 : DInv prev (prev n) (dfsStart n s) 1 := fun _ => Or.inl rfl
        obtain ⟨hI, hS, hD, hM⟩ := loop_spec ih (prev n) (prev n) (fun _ h => h) _ 1 hinv1 hd1
        generalize (prev n).foldl (visit (dfs prev fuel)) (dfsStart n s, 1) = r at hI hS hD hM ⊢
        simp only [dfsFinish]
        have hn1 : r.1.state n = 1 := hS.inprog n (by simp [dfsStart, upd])
        have hnot : n ∉ r.1.order := fun hm => by
          have := (hI.mem_iff n).1 hm
          omega
        obtain ⟨e, he⟩ := hS.ext
        simp only [dfsStart] at he
        refine ⟨⟨?_, ?_, ?_, ?_⟩, ⟨⟨e ++ [n], by simp [he]⟩, ?_, ?_⟩, ?_⟩
        · intro x
          by_cases hx : x = n
          · subst hx; simp [upd]
          · simp only [upd, hx, if_false, List.mem_append, List.mem_singleton, or_false]
            exact hI.mem_iff x
        · exact List.nodup_append.2 ⟨hI.nodup, by simp, by
            intro a ha b hb
            simp at hb; subst hb
            intro hab; subst hab; exact hnot ha⟩
        · intro hb x hx p hp
          have hb' : r.1.bad = false := by simpa [Dfs.bad] using hb
          simp only [List.mem_append, List.mem_singleton] at hx
          rcases hx with hx | hx
          · obtain ⟨hpm, hlt⟩ := hI.before hb' x hx p hp
            refine ⟨List.mem_append_left _ hpm, ?_⟩
            simp only [List.idxOf_append, hpm, hx, if_true]
            exact hlt
          · subst hx
            have hpm := hM hb' p hp
            refine ⟨List.mem_append_left _ hpm, ?_⟩
            simp only [List.idxOf_append, hpm, hnot, if_true, if_false]
            have := List.idxOf_lt_length_of_mem hpm
            omega
        · intro hb x hx
          have hb' : r.1.bad = false := by simpa [Dfs.bad] using hb
          simp only [List.mem_append, List.mem_singleton] at hx
          rcases hx with hx | hx
          · have hne : x ≠ n := fun h => hnot (h ▸ hx)
            simp only [upd, hne, if_false]
            exact hI.path hb' x hx
          · subst hx
            simp only [upd, if_true]
            rcases hD hb' with h1' | ⟨p, hp, d', hpath, hd'⟩
            · rw [h1']; exact hasPath_one prev x
            · rw [hd']; exact hasPath_succ hp hpath
        · intro y hy
          have hyn : y ≠ n := fun h => h1 (h ▸ hy)
          have : r.1.state y = 1 := hS.inprog y (by simp [dfsStart, upd, hyn, hy])
          simp [upd, hyn, this]
        · intro hb
          have : r.1.bad = true := hS.bad (by simpa [Dfs.bad, dfsStart] using hb)
          simpa [Dfs.bad] using this
        · intro _; simp

end TmVerif.Lookahead
