import TmVerif.Proofs.GraphBasic
/-!
Soundness of the validator `checkScc` (C26, Mode V): if it accepts `comps` for `g`, then `comps`
are exactly the strongly connected components of `g`, each once, in reverse topological order.
-/
namespace TmVerif.Graph

/-- `b` is reachable from `a` by zero or more edges -/
def Reach (g : Graph) (a b : Nat) : Prop := a = b ∨ Relation.TransGen (Edge g) a b

/-- mutually reachable -/
def SC (g : Graph) (a b : Nat) : Prop := Reach g a b ∧ Reach g b a

theorem Reach.refl (g : Graph) (a : Nat) : Reach g a a := .inl rfl

theorem Reach.trans {g : Graph} {a b c : Nat} (h1 : Reach g a b) (h2 : Reach g b c) : Reach g a c := by
  rcases h1 with rfl | h1
  · exact h2
  · rcases h2 with rfl | h2
    · exact .inr h1
    · exact .inr (transGen_trans h1 h2)

theorem Reach.edge {g : Graph} {a b : Nat} (h : Edge g a b) : Reach g a b := .inr (.single h)

theorem transGen_lt {g : Graph} (hwf : Wf g) {a b : Nat} (h : Relation.TransGen (Edge g) a b) :
    a < g.length ∧ b < g.length := by
  induction h with
  | single e => exact ⟨e.lt_left, hwf _ _ e⟩
  | tail _ e ih => exact ⟨ih.1, hwf _ _ e⟩

/-- What "the strongly connected components, once each, in reverse topological order" means. -/
structure IsSccOrder (g : Graph) (comps : List (List Nat)) : Prop where
  /-- no vertex is listed twice (neither inside a component nor in two components) -/
  nodup : comps.flatten.Nodup
  /-- exactly the vertices of the graph are listed -/
  cover : ∀ v, v ∈ comps.flatten ↔ v < g.length
  nonempty : ∀ c ∈ comps, c ≠ []
  /-- a component is exactly the set of vertices mutually reachable with any of its members -/
  scc : ∀ c ∈ comps, ∀ u ∈ c, ∀ v, v ∈ c ↔ SC g u v
  /-- whatever a vertex reaches lies in the same or an earlier reported component -/
  order : ∀ (i j : Nat) (hi : i < comps.length) (hj : j < comps.length) (u v : Nat),
    u ∈ comps[i] → v ∈ comps[j] → Reach g u v → j ≤ i

theorem nodupB_iff (l : List Nat) : nodupB l = true ↔ l.Nodup := by
  induction l with
  | nil => simp [nodupB]
  | cons a l ih => simp [nodupB, ih, List.nodup_cons]

theorem compOf_some {comps : List (List Nat)} {v i : Nat} (h : compOf comps v = some i) :
    ∃ hi : i < comps.length, v ∈ comps[i] := by
  unfold compOf at h
  rw [List.findIdx?_eq_some_iff_getElem] at h
  obtain ⟨hi, h1, _⟩ := h
  exact ⟨hi, by simpa using h1⟩

theorem compOf_of_mem {comps : List (List Nat)} (hnd : comps.flatten.Nodup) {v i : Nat}
    (hi : i < comps.length) (hv : v ∈ comps[i]) : compOf comps v = some i := by
  unfold compOf
  rw [List.findIdx?_eq_some_iff_getElem]
  refine ⟨hi, by simpa using hv, ?_⟩
  intro j hji hc
  have hc : v ∈ comps[j] := by simpa using hc
  have := (List.pairwise_flatten.1 hnd).2
  rw [List.pairwise_iff_getElem] at this
  exact this j i (by omega) hi hji v hc v hv rfl

theorem edgesBack_transGen {g : Graph} {comps : List (List Nat)} (h : edgesBackB g comps = true)
    {a b : Nat} (p : Relation.TransGen (Edge g) a b) :
    ∃ i j, compOf comps a = some i ∧ compOf comps b = some j ∧ j ≤ i := by
  have hedge : ∀ a b, Edge g a b → ∃ i j, compOf comps a = some i ∧ compOf comps b = some j ∧ j ≤ i := by
    intro a b e
    unfold edgesBackB at h
    simp only [List.all_eq_true, List.mem_range] at h
    have := h a e.lt_left b e
    split at this
    · rename_i j i hj hi
      exact ⟨i, j, hi, hj, by simpa using this⟩
    · cases this
  induction p with
  | single e => exact hedge _ _ e
  | tail _ e ih =>
    obtain ⟨i, j, h1, h2, h3⟩ := ih
    obtain ⟨j', k, h4, h5, h6⟩ := hedge _ _ e
    rw [h2] at h4
    cases h4
    exact ⟨i, k, h1, h5, by omega⟩

theorem checkScc_sound (g : Graph) (comps : List (List Nat)) (h : checkScc g comps = true) :
    Wf g ∧ IsSccOrder g comps := by
  unfold checkScc at h
  simp only [Bool.and_eq_true] at h
  obtain ⟨⟨⟨⟨⟨⟨hwf, hnd⟩, hlt⟩, hcov⟩, hne⟩, hback⟩, hsc⟩ := h
  have hwf : Wf g := (wfB_iff g).1 hwf
  have hnd : comps.flatten.Nodup := (nodupB_iff _).1 hnd
  simp only [List.all_eq_true, decide_eq_true_eq] at hlt
  simp only [List.all_eq_true, List.mem_range, List.contains_iff_mem] at hcov
  rw [List.all_eq_true] at hne hsc
  have hcomp_of_mem : ∀ c ∈ comps, ∀ u ∈ c, ∃ i, ∃ hi : i < comps.length, comps[i] = c ∧ compOf comps u = some i := by
    intro c hc u hu
    obtain ⟨i, hi, rfl⟩ := List.getElem_of_mem hc
    exact ⟨i, hi, rfl, compOf_of_mem hnd hi hu⟩
  have horder : ∀ (i j : Nat) (hi : i < comps.length) (hj : j < comps.length) (u v : Nat),
      u ∈ comps[i] → v ∈ comps[j] → Reach g u v → j ≤ i := by
    intro i j hi hj u v hu hv r
    have cu := compOf_of_mem hnd hi hu
    have cv := compOf_of_mem hnd hj hv
    rcases r with rfl | p
    · rw [cu] at cv; cases cv; exact Nat.le_refl _
    · obtain ⟨i', j', h1, h2, h3⟩ := edgesBack_transGen hback p
      rw [cu] at h1; rw [cv] at h2; cases h1; cases h2; exact h3
  refine ⟨hwf, ⟨hnd, ?_, ?_, ?_, horder⟩⟩
  · intro v
    exact ⟨hlt v, hcov v⟩
  · intro c hc
    have := hne c hc
    intro h0
    subst h0
    simp at this
  · intro c hc u hu v
    have hun : u < g.length := hlt u (List.mem_flatten.2 ⟨c, hc, hu⟩)
    constructor
    · intro hv
      have hvn : v < g.length := hlt v (List.mem_flatten.2 ⟨c, hc, hv⟩)
      have huv : ∀ x ∈ c, ∀ y ∈ c, Reach g x y := by
        intro x hx y hy
        have := hsc c hc
        simp only [List.all_eq_true, Bool.or_eq_true, beq_iff_eq] at this
        rcases this x hx y hy with rfl | h
        · exact .inl rfl
        · exact .inr ((Matrix.closure_ofGraph g hwf x y (hlt x (List.mem_flatten.2 ⟨c, hc, hx⟩))
            (hlt y (List.mem_flatten.2 ⟨c, hc, hy⟩))).1 h)
      exact ⟨huv u hu v hv, huv v hv u hu⟩
    · rintro ⟨r1, r2⟩
      obtain ⟨i, hi, rfl, cu⟩ := hcomp_of_mem c hc u hu
      have hvn : v < g.length := by
        rcases r1 with rfl | p
        · exact hun
        · exact (transGen_lt hwf p).2
      obtain ⟨c', hc', hv'⟩ := List.mem_flatten.1 (hcov v hvn)
      obtain ⟨j, hj, rfl, cv⟩ := hcomp_of_mem c' hc' v hv'
      have h1 := horder i j hi hj u v hu hv' r1
      have h2 := horder j i hj hi v u hv' hu r2
      have : i = j := by omega
      subst this
      exact hv'


/-- The validator is complete: it accepts every correct answer (so a harmless rewrite of the
implementation that reports the components in another valid order is still accepted). -/
theorem checkScc_complete (g : Graph) (comps : List (List Nat)) (hwf : Wf g) (h : IsSccOrder g comps) :
    checkScc g comps = true := by
  have hidx : ∀ v, v < g.length → ∃ i, ∃ hi : i < comps.length, v ∈ comps[i] ∧ compOf comps v = some i := by
    intro v hv
    obtain ⟨c, hc, hvc⟩ := List.mem_flatten.1 ((h.cover v).2 hv)
    obtain ⟨i, hi, rfl⟩ := List.getElem_of_mem hc
    exact ⟨i, hi, hvc, compOf_of_mem h.nodup hi hvc⟩
  unfold checkScc
  simp only [Bool.and_eq_true]
  refine ⟨⟨⟨⟨⟨⟨(wfB_iff g).2 hwf, (nodupB_iff _).2 h.nodup⟩, ?_⟩, ?_⟩, ?_⟩, ?_⟩, ?_⟩
  · simp only [List.all_eq_true, decide_eq_true_eq]
    intro v hv; exact (h.cover v).1 hv
  · simp only [List.all_eq_true, List.mem_range, List.contains_iff_mem]
    intro v hv; exact (h.cover v).2 hv
  · rw [List.all_eq_true]
    intro c hc
    have := h.nonempty c hc
    cases c with
    | nil => exact absurd rfl this
    | cons a l => rfl
  · unfold edgesBackB
    simp only [List.all_eq_true, List.mem_range]
    intro v hv w hw
    obtain ⟨i, hi, hvi, ci⟩ := hidx v hv
    obtain ⟨j, hj, hwj, cj⟩ := hidx w (hwf v w hw)
    rw [cj, ci]
    simp only [decide_eq_true_eq]
    exact h.order i j hi hj v w hvi hwj (Reach.edge hw)
  · rw [List.all_eq_true]
    intro c hc
    rw [List.all_eq_true]
    intro u hu
    rw [List.all_eq_true]
    intro v hv
    simp only [Bool.or_eq_true, beq_iff_eq]
    have hun : u < g.length := (h.cover u).1 (List.mem_flatten.2 ⟨c, hc, hu⟩)
    have hvn : v < g.length := (h.cover v).1 (List.mem_flatten.2 ⟨c, hc, hv⟩)
    rcases ((h.scc c hc u hu v).1 hv).1 with e | p
    · exact .inl e
    · exact .inr ((Matrix.closure_ofGraph g hwf u v hun hvn).2 p)

end TmVerif.Graph
