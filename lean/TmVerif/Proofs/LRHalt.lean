/-
Helper lemmas for `C01_lr_halts`: under the soundness certificate and the rank certificate
(`LRX.coreRankOk`, Model/LRXSafe.lean) the potential
`W · (tokens left) + weight · (stack height) + rank (next token's symbol) (top state)` decreases
with every iteration of the core loop `LR.runLoop`.
-/
import TmVerif.Proofs.LRXSafeReduce
import TmVerif.Proofs.LRSoundAccept
namespace TmVerif.LRSound
open TmVerif.LR TmVerif.CFG TmVerif.LRX

/-- the core tables as tables of the extended runtime (no recovery, no rule actions) -/
def coreX (t : Tables) : XTables := { t := t, rules := #[] }

theorem xedges_core (t : Tables) : xedges (coreX t) = edges t := by
  unfold xedges errEdges coreX
  simp

theorem reachClosed_core {g : Grammar} {t : Tables} {cert : Cert} (hc : CertFacts g t cert) :
    ReachClosed g (coreX t) cert :=
  reachClosed (x := coreX t) hc (fun i _ p X q hm _ => by
    unfold errEdges coreX at hm; simp at hm)

variable {g : Grammar} {t : Tables} {cert : Cert}

/-- the C01 stack invariant gives the state-stack invariant -/
theorem StackOk.toStOk (hc : CertFacts g t cert) {i : Nat} (hi : i < g.inputs.size)
    {stk : List Entry} {s : Nat} {syms : List Int} {w : List Nat}
    (h : StackOk g t i stk s syms w) :
    ∃ rest, StOk g (coreX t) cert i (s :: rest) syms ∧
      stk.map (·.state) = (s :: rest).map Int.ofNat := by
  have hcl := reachClosed_core hc
  induction h with
  | base e he => exact ⟨[], .base hi (hcl i hi).1, by simp [he]⟩
  | push e rest p X q syms w y _ _ hq hE _ ih =>
    obtain ⟨rest', h1, h2⟩ := ih
    obtain ⟨q', hq', _, hq2, hq3⟩ := edgeOk_elim (edge_ok hc hE)
    have : q' = q := by omega
    subst this
    have hedge : (p, X, (q' : Int)) ∈ xedges (coreX t) := by rw [xedges_core]; exact edge_mem hE
    refine ⟨p :: rest', StOk.push q' p rest' X syms h1 hedge hq2 hq3
      ((hcl i hi).2 p X q' hedge (h1.mem_reach p (by simp))), ?_⟩
    simp only [List.map_cons, List.cons.injEq]
    exact ⟨hq, by simpa using h2⟩


/-- the decoded action is the table's action on the symbol of the next token -/
theorem decode_act (hc : CertFacts g t cert) {inp : Input} (htok : TokOk t inp)
    (h0 : 0 < t.nTerms) (c c1 : Cfg) (act : Act) (s m : Nat) (hs : s < t.nStates)
    (hst : c.state = (s : Int)) (hn : NextOk inp c m) (hd : decode t inp c = some (c1, act)) :
    ∃ a : Nat, a < t.nTerms ∧ (inp.tok m).sym = (a : Int) ∧ actOf t noDeep s a = some act := by
  obtain ⟨a, ha1, ha2⟩ := tok_range htok h0 m
  refine ⟨a, ha2, ha1, ?_⟩
  obtain ⟨act', hact', hnt⟩ := actOk_of_act (x := coreX t) hc hs ha2
  have hact'' : actOf t noDeep s a = some act' := hact'
  unfold decode at hd
  rw [hst] at hd
  rcases hnt with ⟨hnt, _⟩ | ⟨hnt, _⟩
  · have hnt' : needsTok t (s : Int) = some true := hnt
    rw [hnt'] at hd
    simp only [Option.map_eq_some_iff] at hd
    obtain ⟨a', ha', he⟩ := hd
    obtain ⟨f1, _⟩ := fetch_spec inp c m hn
    rw [f1, ha1, actOf_noDeep t _ s a act' hact''] at ha'
    injection ha' with ha'
    injection he with _ e2
    rw [hact'', ha', e2]
  · have hnt' : needsTok t (s : Int) = some false := hnt
    rw [hnt'] at hd
    simp only [Option.map_eq_some_iff] at hd
    obtain ⟨a', ha', he⟩ := hd
    injection he with _ e2
    have : actOf t noDeep (s : Int) 0 = some a' := ha'
    rw [actOf_ignores t noDeep s a hnt', this, e2]


/-! ### the potential of the main loop -/

/-- the weight of one token in the potential -/
def rankW (t : Tables) (rc : XCert) : Nat := 4 * t.nStates + 12 + rc.weight

/-- `W · (tokens left) + weight · (stack height) + rank of the top state under the next token's
symbol` -/
def psi (t : Tables) (rc : XCert) (i : Nat) (inp : Input) (c : Cfg) : Nat :=
  rankW t rc * (inp.toks.size - nshift c.evs) + rc.weight * c.stack.length +
    rankOf rc i (symAt inp (nshift c.evs)) c.state.toNat

/-- a shift of EOI decreases the rank -/
theorem _root_.TmVerif.LRX.RankFacts.eoi {g : Grammar} {x : XTables} {cert : Cert} {xc : XCert}
    (h : RankFacts g x cert xc) {i s : Nat}
    {q : Int} (hi : i < g.inputs.size) (hs : s < x.t.nStates) (h0 : 0 < x.t.nTerms)
    (hsr : s ∈ reachOf cert i) (hfin : (s : Int) ≠ finOf x i)
    (hact : actOf x.t noDeep s (0 : Nat) = some (.shift q)) :
    0 ≤ q ∧ rankOf xc i 0 q.toNat + xc.weight + 1 ≤ rankOf xc i 0 s := by
  have := h.red i 0 s hi h0 hs
  unfold reduceOk at this
  rw [hact] at this
  simp only [Bool.or_eq_true, Bool.not_eq_true', List.contains_eq_mem, decide_eq_false_iff_not,
    beq_iff_eq, bne_self_eq_false, Bool.false_or, Bool.and_eq_true, decide_eq_true_eq] at this
  rcases this with (h1 | h1) | h1
  · exact absurd hsr h1
  · exact absurd h1 hfin
  · exact h1

theorem symAt_eq {inp : Input} {m a : Nat} (h : (inp.tok m).sym = (a : Int)) : symAt inp m = a := by
  unfold symAt; rw [h]; rfl

theorem step_psi (hc : CertFacts g t cert) {rc : XCert} (hx : RankFacts g (coreX t) cert rc)
    {inp : Input} (htok : TokOk t inp) {i : Nat} (hi : i < g.inputs.size) (c c' : Cfg)
    (hinv : Inv g t i inp c) (hne : c.state ≠ finOf (coreX t) i)
    (hs : step t inp c = .cont c') : psi t rc i inp c' < psi t rc i inp c := by
  obtain ⟨s, syms, hstk, hst, hn⟩ := hinv
  obtain ⟨rest, hst1, hmap⟩ := hstk.toStOk hc hi
  have hne' : (s : Int) ≠ finOf (coreX t) i := by rw [← hst]; exact hne
  have hsr : s ∈ reachOf cert i := hst1.mem_reach s (by simp)
  have hlt : s < t.nStates := hstk.lt hc hi
  have h0 : 0 < t.nTerms := by have := (wfFacts hc.wf).nTermsPos; have := hc.nTerms; omega
  have hlen : c.stack.length = rest.length + 1 := by
    have := congrArg List.length hmap; simpa using this
  unfold step at hs
  cases hd : decode t inp c with
  | none => rw [hd] at hs; cases hs
  | some p =>
    obtain ⟨c1, act⟩ := p
    rw [hd] at hs
    simp only at hs
    obtain ⟨e1, e2, e3, hn1, _⟩ := decode_spec hc htok h0 c c1 act s _ hlt hst hn hd
    obtain ⟨a, ha, hsym, hact⟩ := decode_act hc htok h0 c c1 act s _ hlt hst hn hd
    have hsa := symAt_eq hsym
    have hpsi : psi t rc i inp c = rankW t rc * (inp.toks.size - nshift c.evs) +
        rc.weight * (rest.length + 1) + rankOf rc i a s := by
      unfold psi; rw [hsa, hst, hlen]; rfl
    cases act with
    | error => rw [apply] at hs; cases hs
    | shift q =>
      rw [apply] at hs
      cases hnx : c1.next with
      | none => rw [hnx] at hs; cases hs
      | some tk =>
        rw [hnx] at hs
        simp only at hs
        injection hs with hs
        subst hs
        -- the target is a state
        obtain ⟨act', hact', hnt⟩ := actOk_of_act (x := coreX t) hc hlt ha
        have e : act' = .shift q := by
          have h1 : actOf t noDeep s a = some act' := hact'
          rw [hact] at h1; injection h1 with h1; exact h1.symm
        subst e
        have hedge : edgeOk g.inputs.size t cert s (a : Nat) q = true := by
          rcases hnt with ⟨_, h⟩ | ⟨_, h⟩
          · exact h
          · simp [actOk] at h
        obtain ⟨q', hq', _, hq2, _⟩ := edgeOk_elim hedge
        subst hq'
        obtain ⟨a', ha1', ha2'⟩ := tok_range htok h0 (nshift c.evs + 1)
        have hsa' := symAt_eq ha1'
        have hrb : rankOf rc i a' q' ≤ 4 * t.nStates + 11 := hx.rankB i a' q' hi ha2' hq2
        have hmul : rc.weight * (rest.length + 1 + 1) = rc.weight * (rest.length + 1) + rc.weight := by
          rw [Nat.mul_add, Nat.mul_one]
        rw [hpsi]
        unfold psi
        simp only [nshift, e3, List.length_cons, e1, hlen, hsa', Int.toNat_natCast]
        clear hpsi
        by_cases hz : a = 0
        · subst hz
          have hge : inp.toks.size ≤ nshift c.evs := by
            rcases Nat.lt_or_ge (nshift c.evs) inp.toks.size with h | h
            · have := symAt_pos htok h; omega
            · exact h
          have ha0 : a' = 0 := by rw [← hsa']; exact symAt_ge inp (by omega)
          subst ha0
          have := (hx.eoi (x := coreX t) hi hlt h0 hsr hne' hact).2
          rw [Int.toNat_natCast] at this
          have e1 : inp.toks.size - nshift c.evs = 0 := by omega
          have e2 : inp.toks.size - (nshift c.evs + 1) = 0 := by omega
          rw [e1, e2]
          omega
        · have hm : nshift c.evs < inp.toks.size := by
            rcases Nat.lt_or_ge (nshift c.evs) inp.toks.size with h | h
            · exact h
            · have := symAt_ge inp h; omega
          have e4 : inp.toks.size - nshift c.evs = (inp.toks.size - (nshift c.evs + 1)) + 1 := by
            omega
          rw [e4, Nat.mul_add (rankW t rc) _ 1, Nat.mul_one]
          unfold rankW
          omega
    | reduce r =>
      obtain ⟨ln, lhs, c2, off, endo, top, rest2, q, h1, h2, h3, h4, h5, h6, h7⟩ :=
        apply_reduce_cont hs
      obtain ⟨rule, p', rest', q0, hr0, hrule, hl, hsy, hdrop, hg, hnew, hrank⟩ :=
        hst1.reduce (x := coreX t) hc hx (reachClosed_core hc) ha hne' hact
      have hl' : geti t.ruleLen r = some (rule.rhs.length : Int) := hl
      have hsy' : geti t.ruleSymbol r = some (rule.lhs : Int) := hsy
      rw [hl'] at h1; rw [hsy'] at h2
      injection h1 with h1; injection h2 with h2
      subst h1 h2
      have hc2 : c2.stack = c.stack ∧ c2.evs = c.evs := by
        rcases h3 with h3 | h3
        · subst h3; exact ⟨e1, e3⟩
        · obtain ⟨_, _, f3, _, f5, _⟩ := fetch_spec inp c1 _ hn1
          subst h3; exact ⟨f3.trans e1, f5.trans e3⟩
      rw [hc2.1, Int.toNat_natCast] at h4
      have hd2 : (top :: rest2).map (·.state) = (p' :: rest').map Int.ofNat := by
        rw [← h4, List.map_drop, hmap, ← List.map_drop, hdrop]
      simp only [List.map_cons, List.cons.injEq] at hd2
      have hq : q = (q0 : Int) := by
        have hg' : gotoState t (p' : Nat) (rule.lhs : Nat) = some (q0 : Int) := hg
        have e : top.state = ((p' : Nat) : Int) := hd2.1
        rw [e, hg'] at h5
        injection h5 with h5; exact h5.symm
      have hlen2 : (top :: rest2).length + rule.rhs.length = c.stack.length := by
        have := congrArg List.length h4
        have h8 := congrArg List.length hdrop
        simp only [List.length_drop, List.length_cons] at this h8 ⊢
        omega
      subst h7
      rw [hpsi]
      unfold psi
      simp only [nshift, hc2.2, hsa, hq, Int.toNat_natCast, List.length_cons]
      simp only [List.length_cons] at hlen2 ⊢
      have h3 : rc.weight * (rest2.length + 1 + 1) + rc.weight * rule.rhs.length =
          rc.weight * (rest.length + 1) + rc.weight := by
        rw [← Nat.mul_add, show rest2.length + 1 + 1 + rule.rhs.length = rest.length + 1 + 1 by omega,
          Nat.mul_add _ _ 1, Nat.mul_one]
      omega


theorem apply_not_fuel {inp : Input} {c1 c' : Cfg} (a : Act) :
    apply t inp c1 a ≠ .done .fuel c' := by
  intro h
  cases a with
  | error => rw [apply] at h; cases h
  | shift q => rw [apply] at h; split at h <;> cases h
  | reduce r =>
    rw [apply] at h
    split at h
    · rename_i ln lhs hln hlhs
      simp only at h
      split at h
      · cases h
      · generalize (if ln.toNat = 0 then ((Cfg.fetch inp c1).fst, (Cfg.fetch inp c1).snd.off, (Cfg.fetch inp c1).snd.off)
            else
              (c1, (Option.map (fun x => x.off) (List.take ln.toNat c1.stack).getLast?).getD 0,
                (Option.map (fun x => x.endo) (List.take ln.toNat c1.stack).head?).getD 0)) = P at h
        split at h
        · cases h
        · split at h
          · cases h
          · split at h <;> cases h
    · cases h

theorem step_not_fuel {inp : Input} {c c' : Cfg} : step t inp c ≠ .done .fuel c' := by
  unfold step
  split
  · intro h; cases h
  · exact apply_not_fuel _

theorem runLoop_halts (hc : CertFacts g t cert) {rc : XCert} (hx : RankFacts g (coreX t) cert rc)
    {inp : Input} (htok : TokOk t inp) {i : Nat} (hi : i < g.inputs.size) (fin : Int)
    (hfi : fin = finOf (coreX t) i) :
    ∀ (fuel : Nat) (c : Cfg), Inv g t i inp c → psi t rc i inp c < fuel →
      (runLoop t inp fin fuel c).1 ≠ .fuel
  | 0, _, _, h => by omega
  | fuel + 1, c, hinv, h => by
    rw [runLoop]
    split
    · exact fun h => nomatch h
    · rename_i hne
      split
      · rename_i c1 hstep
        have := step_psi hc hx htok hi c c1 hinv (by rw [← hfi]; exact hne) hstep
        exact runLoop_halts hc hx htok hi fin hfi fuel c1 (step_inv hc htok hi c c1 hinv hstep)
          (by omega)
      · unfold errorAt; exact fun h => nomatch h
      · rename_i r c1 _ hstep
        intro hr
        simp only at hr
        subst hr
        exact step_not_fuel hstep

theorem psi_init (hc : CertFacts g t cert) {rc : XCert} (hx : RankFacts g (coreX t) cert rc)
    {inp : Input} (htok : TokOk t inp) {i : Nat} (hi : i < g.inputs.size) :
    psi t rc i inp (initCfg inp i) < (inp.toks.size + 1) * rankW t rc := by
  have h0 : 0 < t.nTerms := by have := (wfFacts hc.wf).nTermsPos; have := hc.nTerms; omega
  obtain ⟨a, ha1, ha2⟩ := tok_range htok h0 0
  have hsa := symAt_eq ha1
  have hrb : rankOf rc i a i ≤ 4 * t.nStates + 11 :=
    hx.rankB i a i hi ha2 (show i < t.nStates by have := hc.nIn; omega)
  unfold psi
  simp only [initCfg, nshift, List.length_cons, List.length_nil, Nat.sub_zero, hsa,
    Int.toNat_natCast]
  rw [Nat.add_mul, Nat.mul_comm]
  unfold rankW
  omega

end TmVerif.LRSound
