import TmVerif.Model.LexTables
/-!
Helper lemmas about the model of `lex.Tables`:
* `sortSearch` (the literal binary search of Go's `sort.Search`) returns the least index satisfying a
  monotone predicate;
* under the well-formedness predicate `Tables.wf` the symbol lookup of `Scan` returns the unique
  segment `e` with `Start[e] ≤ r < Start[e+1]`.
-/
namespace TmVerif.LexTables

/-! ### sort.Search -/

theorem sortSearchLoop_spec (f : Nat → Bool) (n : Nat)
    (mono : ∀ a b, a ≤ b → b < n → f a = true → f b = true) :
    ∀ fuel i j, i ≤ j → j ≤ n → j - i ≤ fuel → (∀ k, k < i → f k = false) →
      (∀ k, j ≤ k → k < n → f k = true) →
      sortSearchLoop f fuel i j ≤ n ∧ (∀ k, k < sortSearchLoop f fuel i j → f k = false) ∧
        (∀ k, sortSearchLoop f fuel i j ≤ k → k < n → f k = true) := by
  intro fuel
  induction fuel with
  | zero =>
    intro i j hij hjn hf hlo hhi
    have : i = j := by omega
    subst this
    simp only [sortSearchLoop]
    exact ⟨hjn, hlo, hhi⟩
  | succ fuel ih =>
    intro i j hij hjn hf hlo hhi
    simp only [sortSearchLoop]
    by_cases hlt : i < j
    · simp only [hlt, if_true]
      have hh1 : i ≤ (i + j) / 2 := by omega
      have hh2 : (i + j) / 2 < j := by omega
      cases hfh : f ((i + j) / 2) with
      | false =>
        simp only [Bool.not_false, if_true]
        apply ih ((i + j) / 2 + 1) j (by omega) hjn (by omega) _ hhi
        intro k hk
        cases hfk : f k with
        | false => rfl
        | true =>
          have := mono k ((i + j) / 2) (by omega) (by omega) hfk
          rw [hfh] at this
          exact absurd this (by simp)
      | true =>
        simp only [Bool.not_true, Bool.false_eq_true, if_false]
        apply ih i ((i + j) / 2) hh1 (by omega) (by omega) hlo
        intro k hk hkn
        exact mono _ k hk hkn hfh
    · have : i = j := by omega
      subst this
      simp only [hlt, if_false]
      exact ⟨hjn, hlo, hhi⟩

/-- `sort.Search` finds the least index satisfying a monotone predicate. -/
theorem sortSearch_eq (f : Nat → Bool) (n e : Nat)
    (mono : ∀ a b, a ≤ b → b < n → f a = true → f b = true)
    (he : e < n) (hlo : ∀ k, k < e → f k = false) (hhi : f e = true) : sortSearch n f = e := by
  have h := sortSearchLoop_spec f n mono n 0 n (Nat.zero_le _) (Nat.le_refl _) (by omega)
    (by intro k hk; omega) (by intro k hk hkn; omega)
  unfold sortSearch
  obtain ⟨_, h2, h3⟩ := h
  generalize sortSearchLoop f n 0 n = r at *
  by_cases h : r < e
  · have := h3 r (Nat.le_refl _) (by omega)
    rw [hlo r h] at this
    exact absurd this (by simp)
  · by_cases h' : e < r
    · have := h2 e h'
      rw [hhi] at this
      exact absurd this (by simp)
    · omega

/-! ### sorted symbol maps -/

theorem startsIncreasing_lt : ∀ (l : List RangeEntry), startsIncreasing l = true →
    ∀ i j (hi : i < j) (hj : j < l.length), (l[i]'(by omega)).start < (l[j]).start
  | [], _, _, _, _, hj => by simp at hj
  | [_], _, i, j, hi, hj => by simp at hj; omega
  | a :: b :: rest, h, i, j, hi, hj => by
    simp only [startsIncreasing, Bool.and_eq_true, decide_eq_true_eq] at h
    have ih := startsIncreasing_lt (b :: rest) h.2
    match i, j with
    | _, 0 => omega
    | 0, 1 => simpa using h.1
    | 0, j + 2 =>
      have := ih 0 (j + 1) (by omega) (by simp at hj ⊢; omega)
      simp only [List.getElem_cons_zero, List.getElem_cons_succ] at this ⊢
      omega
    | i + 1, j + 1 =>
      have := ih i j (by omega) (by simp at hj ⊢; omega)
      simpa using this

/-- The facts the proofs use, extracted from the boolean `Tables.wf`. -/
structure WF (t : Tables) : Prop where
  ns_pos : 0 < t.numSymbols
  map_ne : 0 < t.symbolMap.size
  start0 : ∀ h : 0 < t.symbolMap.size, t.symbolMap[0].start = 0
  sorted : ∀ i j (_ : i < j) (hj : j < t.symbolMap.size), (t.symbolMap[i]).start < (t.symbolMap[j]).start
  targets : ∀ i (h : i < t.symbolMap.size), 0 ≤ t.symbolMap[i].target ∧ t.symbolMap[i].target < t.numSymbols
  dfa_lt : ∀ i (h : i < t.dfa.size), t.dfa[i] < (numStates t : Int)
  start_states : ∀ i (h : i < t.stateMap.size), 0 ≤ t.stateMap[i] ∧ t.stateMap[i] < (numStates t : Int)

theorem wf_of_wf (t : Tables) (h : t.wf = true) : WF t := by
  simp only [Tables.wf, Bool.and_eq_true, decide_eq_true_eq, Array.all_eq_true] at h
  obtain ⟨⟨⟨⟨⟨⟨h1, h2⟩, h3⟩, h4⟩, h5⟩, h6⟩, _⟩ := h
  have hne : 0 < t.symbolMap.size := by
    cases hs : t.symbolMap[0]? with
    | none => rw [hs] at h2; simp at h2
    | some e =>
      have := Array.getElem?_eq_some_iff.mp hs
      obtain ⟨hlt, _⟩ := this
      exact hlt
  refine ⟨h1, hne, ?_, ?_, ?_, ?_, ?_⟩
  · intro h0
    rw [Array.getElem?_eq_getElem h0] at h2
    simpa using h2
  · intro i j hij hj
    have := startsIncreasing_lt t.symbolMap.toList h3 i j hij (by simpa using hj)
    simpa using this
  · intro i hi
    exact h4 i hi
  · intro i hi
    exact h5 i hi
  · intro i hi
    exact h6 i hi

/-! ### the symbol lookup -/

theorem symPred_mono (t : Tables) (w : WF t) (r : Int) :
    ∀ a b, a ≤ b → b < t.symbolMap.size → symPred t r a = true → symPred t r b = true := by
  intro a b hab hb ha
  unfold symPred at *
  by_cases hb1 : b + 1 < t.symbolMap.size
  · have ha1 : a + 1 < t.symbolMap.size := by omega
    rw [Array.getElem?_eq_getElem hb1]
    rw [Array.getElem?_eq_getElem ha1] at ha
    simp only [gt_iff_lt, decide_eq_true_eq] at ha ⊢
    by_cases hab' : a = b
    · subst hab'; exact ha
    · have := w.sorted (a + 1) (b + 1) (by omega) hb1
      omega
  · rw [Array.getElem?_eq_none (by omega)]

/-- The lookup of `Scan` returns the segment containing `r`. -/
theorem symIndex_eq (t : Tables) (w : WF t) (r : Int) (e : Nat) (he : e < t.symbolMap.size)
    (hlo : e = 0 ∨ t.symbolMap[e].start ≤ r)
    (hhi : ∀ h : e + 1 < t.symbolMap.size, r < t.symbolMap[e + 1].start) :
    symIndex t r = e := by
  unfold symIndex
  apply sortSearch_eq _ _ _ (symPred_mono t w r) he
  · intro k hk
    unfold symPred
    have hk1 : k + 1 < t.symbolMap.size := by omega
    rw [Array.getElem?_eq_getElem hk1]
    simp only [gt_iff_lt, decide_eq_false_iff_not, Int.not_lt]
    rcases hlo with h0 | hlo
    · omega
    · by_cases hke : k + 1 = e
      · subst hke; exact hlo
      · have := w.sorted (k + 1) e (by omega) he
        omega
  · unfold symPred
    by_cases h1 : e + 1 < t.symbolMap.size
    · rw [Array.getElem?_eq_getElem h1]
      simpa using hhi h1
    · rw [Array.getElem?_eq_none (by omega)]

end TmVerif.LexTables
