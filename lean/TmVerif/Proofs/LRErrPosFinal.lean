/-
Helper lemmas for C01 error position, part 4: from "the consumed word is a prefix of a word of the
(augmented) language" to the statement about sentences of the token string, and the extension
argument: a run that stops with an error after `k` shifts stops in the same way on every token
string with the same first `k + 1` tokens, so none of them is a sentence.
-/
import TmVerif.Proofs.LRErrPos
namespace TmVerif.LRViable
open TmVerif.LR TmVerif.CFG TmVerif.LRSound TmVerif.LRRef
open TmVerif.LRComplete (rhsOf_input ComplFacts accept_eoi accept_noeoi reads_take)

/-! ### words -/

mutual
theorem derives_terms {g : Grammar} :
    ∀ {X : Nat} {u : List Nat}, Derives g X u → ∀ a ∈ u, a < g.nTerms
  | _, _, .term a ha, b, hb => by
    simp only [List.mem_singleton] at hb
    rw [hb]; exact ha
  | _, _, .rule _ _ _ hs, b, hb => derivesSeq_terms hs b hb
theorem derivesSeq_terms {g : Grammar} :
    ∀ {α : List Nat} {u : List Nat}, DerivesSeq g α u → ∀ a ∈ u, a < g.nTerms
  | _, _, .nil, _, hb => by cases hb
  | _, _, .cons _ _ _ _ hX hα, b, hb => by
    rcases List.mem_append.mp hb with h | h
    · exact derives_terms hX b h
    · exact derivesSeq_terms hα b h
end

/-! inversion -/

theorem derivesSeq_cons_inv {g : Grammar} {X : Nat} {α w : List Nat}
    (h : DerivesSeq g (X :: α) w) : ∃ u v, w = u ++ v ∧ Derives g X u ∧ DerivesSeq g α v := by
  generalize hb : X :: α = β at h
  cases h with
  | nil => cases hb
  | cons X' α' u v hX hα =>
    injection hb with h1 h2
    subst h1 h2
    exact ⟨u, v, rfl, hX, hα⟩

theorem derivesSeq_nil_inv {g : Grammar} {w : List Nat} (h : DerivesSeq g [] w) : w = [] := by
  generalize hb : ([] : List Nat) = β at h
  cases h with
  | nil => rfl
  | cons _ _ _ _ _ _ => cases hb

theorem derives_inv {g : Grammar} {X : Nat} {w : List Nat} (h : Derives g X w) :
    (X < g.nTerms ∧ w = [X]) ∨
    ∃ r, r ∈ g.rules.toList ∧ r.lhs = X ∧ DerivesSeq g r.rhs w := by
  cases h with
  | term a ha => exact Or.inl ⟨ha, rfl⟩
  | rule r w hm hs => exact Or.inr ⟨r, hm, rfl, hs⟩

/-- the words of the augmented rule of input `i` -/
theorem lang_elim {g : Grammar} (hwf : WfFacts g) {i : Nat} {gi : GInput}
    (hgi : g.inputs[i]? = some gi) {x : List Nat} (h : Lang g i x) :
    (gi.eoi = true ∧ ∃ s, x = s ++ [0] ∧ Derives g gi.sym s) ∨
    (gi.eoi = false ∧ Derives g gi.sym x) := by
  unfold Lang at h
  rw [rhsOf_input hgi] at h
  cases heoi : gi.eoi with
  | true =>
    rw [heoi] at h
    simp only [if_true] at h
    cases h with
    | cons _ _ u v hS hrest =>
      cases hrest with
      | cons _ _ u' v' h0 hnil =>
        cases hnil
        have := derives_zero hwf h0
        subst this
        exact Or.inl ⟨rfl, u, by simp, hS⟩
  | false =>
    rw [heoi] at h
    simp only [Bool.false_eq_true, if_false] at h
    cases h with
    | cons _ _ u v hS hnil =>
      cases hnil
      exact Or.inr ⟨rfl, by simpa using hS⟩

theorem zero_split : ∀ (a s c : List Nat), a ++ 0 :: c = s ++ [0] → 0 ∉ s → a = s ∧ c = []
  | [], [], c, h, _ => by simpa using h
  | [], x :: s, c, h, hs => by
    simp only [List.nil_append, List.cons_append, List.cons.injEq] at h
    exact absurd (by rw [← h.1]; exact List.mem_cons_self) hs
  | x :: a, [], c, h, _ => by
    simp only [List.cons_append, List.nil_append, List.cons.injEq] at h
    have := h.2
    simp at this
  | x :: a, y :: s, c, h, hs => by
    simp only [List.cons_append, List.cons.injEq] at h
    obtain ⟨e1, e2⟩ := zero_split a s c h.2 (fun hm => hs (List.mem_cons_of_mem _ hm))
    exact ⟨by rw [h.1, e1], e2⟩

theorem consumed_split (inp : Input) (n : Nat) : ∀ d,
    ∃ b, consumed inp (n + 1 + d) = consumed inp n ++ symAt inp n :: b
  | 0 => ⟨[], by rw [Nat.add_zero, consumed_succ]⟩
  | d + 1 => by
    obtain ⟨b, hb⟩ := consumed_split inp n d
    refine ⟨b ++ [symAt inp (n + 1 + d)], ?_⟩
    rw [← Nat.add_assoc, consumed_succ, hb]
    simp

/-- the token string as symbols -/
def word (inp : Input) : List Nat := inp.toks.toList.map (fun tk => tk.sym.toNat)

theorem word_length (inp : Input) : (word inp).length = inp.toks.size := by simp [word]

theorem consumed_word {inp : Input} {k : Nat} (h : k ≤ inp.toks.size) :
    consumed inp k = (word inp).take k := by
  rw [consumed_le inp k h, word, List.map_take]

theorem word_no_zero {t : Tables} {inp : Input} (htok : TokOk t inp) : 0 ∉ word inp := by
  intro h
  unfold word at h
  rw [List.mem_map] at h
  obtain ⟨tk, hm, he⟩ := h
  have := htok tk hm
  omega

/-- from the invariant's conclusion to sentences of the token string -/
theorem prefix_sentence {g : Grammar} {t : Tables} (hwf : WfFacts g) {i : Nat} {gi : GInput}
    (hgi : g.inputs[i]? = some gi) {inp : Input} (htok : TokOk t inp) {k : Nat}
    (h : ∃ z, Lang g i (consumed inp k ++ z)) (hns : ¬ Sentence g i (word inp)) :
    k ≤ inp.toks.size ∧ ∃ z, Sentence g i ((word inp).take k ++ z) := by
  obtain ⟨z', hz'⟩ := h
  have hSnt : g.nTerms ≤ gi.sym :=
    (hwf.inputs gi (by rw [Array.mem_toList_iff]; exact Array.mem_of_getElem? hgi)).1
  have hSpos : 0 < gi.sym := by have := hwf.nTermsPos; omega
  rcases Nat.lt_or_ge inp.toks.size k with hk | hk
  · -- EOI has been shifted: the whole token string would be a sentence
    exfalso
    obtain ⟨b, hb⟩ := consumed_split inp inp.toks.size (k - inp.toks.size - 1)
    have e : inp.toks.size + 1 + (k - inp.toks.size - 1) = k := by omega
    rw [e, symAt_ge inp (Nat.le_refl _), consumed_word (Nat.le_refl _),
      List.take_of_length_le (by rw [word_length]; exact Nat.le_refl _)] at hb
    rw [hb] at hz'
    rcases lang_elim hwf hgi hz' with ⟨_, s, hs, hD⟩ | ⟨_, hD⟩
    · have h0 : 0 ∉ s := derives_no_zero hwf hD hSpos
      rw [List.append_assoc, List.cons_append] at hs
      obtain ⟨e1, _⟩ := zero_split _ _ _ hs h0
      exact hns ⟨gi, hgi, e1 ▸ hD⟩
    · exact derives_no_zero hwf hD hSpos (by simp)
  · refine ⟨hk, ?_⟩
    rw [consumed_word hk] at hz'
    rcases lang_elim hwf hgi hz' with ⟨_, s, hs, hD⟩ | ⟨_, hD⟩
    · rcases List.eq_nil_or_concat z' with hnil | ⟨z'', l, hl⟩
      · exfalso
        rw [hnil, List.append_nil] at hs
        have : 0 ∈ (word inp).take k := by rw [hs]; simp
        exact word_no_zero htok (List.mem_of_mem_take this)
      · rw [hl, List.concat_eq_append, ← List.append_assoc] at hs
        have := (List.append_inj' hs rfl).1
        exact ⟨z'', gi, hgi, this ▸ hD⟩
    · exact ⟨z', gi, hgi, hD⟩

/-! ### the extension argument -/

theorem complete_accept {g : Grammar} {t : Tables} {cc : LRComplete.CCert} {inp : Input}
    {i : Nat} (hf : ComplFacts g t cc) (htok : TokOk t inp)
    (hsent : Sentence g i (word inp)) : ∃ fuel c, run t inp i fuel = (Result.accept, c) := by
  obtain ⟨gi, hgi, hD⟩ := hsent
  have hr := reads_take inp inp.toks.size
  rw [List.take_of_length_le (by simp)] at hr
  cases heoi : gi.eoi with
  | true =>
    refine accept_eoi hf htok hgi heoi hD hr ?_
    apply symAt_ge
    rw [word_length]
    exact Nat.le_refl _
  | false => exact accept_noeoi hf htok hgi heoi hD hr

/-- the token string `first k+1 tokens of inp, then the symbols z` -/
def extend (inp : Input) (k : Nat) (z : List Nat) : Input :=
  { toks := (inp.toks.toList.take (k + 1) ++ z.map fun (a : Nat) => Tok.mk (a : Int) 0 0).toArray,
    endOff := inp.endOff }

theorem extend_agree (inp : Input) {k : Nat} (hk : k < inp.toks.size) (z : List Nat) :
    Agree k inp (extend inp k z) := by
  intro j hj
  unfold Input.tok extend
  have hj' : j < inp.toks.size := by omega
  have : (inp.toks.toList.take (k + 1) ++ z.map fun (a : Nat) => Tok.mk (a : Int) 0 0).toArray[j]?
      = inp.toks[j]? := by
    rw [List.getElem?_toArray, List.getElem?_append_left (by simp; omega),
      List.getElem?_take_of_lt (by omega), Array.getElem?_toList]
  simp only [this]

theorem extend_word (inp : Input) (k : Nat) (z : List Nat) :
    word (extend inp k z) = (word inp).take (k + 1) ++ z := by
  unfold word extend
  simp only [List.map_append, List.map_map, List.map_take]
  congr 1
  conv => rhs; rw [← List.map_id z]
  apply List.map_congr_left
  intro a _
  simp

theorem extend_tokOk {t : Tables} {inp : Input} (htok : TokOk t inp) (k : Nat) {z : List Nat}
    (hz : ∀ a ∈ z, 0 < a ∧ a < t.nTerms) : TokOk t (extend inp k z) := by
  intro tk hm
  unfold extend at hm
  simp only [List.mem_append, List.mem_map] at hm
  rcases hm with hm | ⟨a, ha, he⟩
  · exact htok tk (List.mem_of_mem_take hm)
  · subst he
    have := hz a ha
    simp only
    omega

section ext
variable {g : Grammar} {t : Tables} {cert : Cert} {cc : LRComplete.CCert} {i : Nat} {inp : Input}
  (hc : CertFacts g t cert) (hf : ComplFacts g t cc) (htok : TokOk t inp)
  (hi : i < g.inputs.size)
include hc hf htok hi

omit hc hi in
/-- a run that stops with a syntax error: the token string is not a sentence -/
theorem err_not_sentence {fuel off endo : Nat} {c : Cfg}
    (hrun : run t inp i fuel = (Result.syntaxError off endo, c)) :
    ¬ Sentence g i (word inp) := by
  intro hs
  obtain ⟨fuel', c', hacc⟩ := complete_accept hf htok hs
  have := run_det t inp i hrun (by simp) hacc (by simp)
  cases this

/-- … and no token string with the same first `k + 1` tokens is, `k` the number of shifts -/
theorem err_not_extension {fuel off endo : Nat} {c : Cfg}
    (hrun : run t inp i fuel = (Result.syntaxError off endo, c))
    (hk : nshift c.evs < inp.toks.size) :
    ¬ ∃ z, Sentence g i ((word inp).take (nshift c.evs + 1) ++ z) := by
  rintro ⟨z, hs⟩
  have hwf := wfFacts hc.wf
  -- the symbols of `z` are terminals other than EOI
  have hz : ∀ a ∈ z, 0 < a ∧ a < t.nTerms := by
    obtain ⟨gi, hgi, hD⟩ := hs
    have hSnt : g.nTerms ≤ gi.sym :=
      (hwf.inputs gi (by rw [Array.mem_toList_iff]; exact Array.mem_of_getElem? hgi)).1
    have hSpos : 0 < gi.sym := by have := hwf.nTermsPos; omega
    intro a ha
    have hm : a ∈ (word inp).take (nshift c.evs + 1) ++ z := List.mem_append_right _ ha
    refine ⟨?_, by rw [hc.nTerms]; exact derives_terms hD a hm⟩
    rcases Nat.eq_zero_or_pos a with h0 | h0
    · exact absurd (h0 ▸ hm) (derives_no_zero hwf hD hSpos)
    · exact h0
  have hag := extend_agree inp hk z
  have htok' := extend_tokOk htok (nshift c.evs) hz
  rw [← extend_word] at hs
  obtain ⟨fuel', c', hacc⟩ := complete_accept hf htok' hs
  -- the same run on the extended token string
  have hrun' : run t (extend inp (nshift c.evs) z) i fuel = (Result.syntaxError off endo, c) := by
    unfold run at hrun ⊢
    cases hfin : t.finalStates[i]? with
    | none => rw [hfin] at hrun; cases hrun
    | some fin =>
      rw [hfin] at hrun
      simp only at hrun ⊢
      have hinit : initCfg (extend inp (nshift c.evs) z) i = initCfg inp i := by
        unfold initCfg
        rw [hag 0 (Nat.zero_le _)]
      rw [hinit]
      exact (runLoop_agree hc htok hi fin fuel _ c off endo (inv_init g t i inp) hrun hag).2
  have := run_det t _ i hrun' (by simp) hacc (by simp)
  cases this

end ext

end TmVerif.LRViable
