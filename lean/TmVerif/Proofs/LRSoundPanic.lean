/-
Helper lemmas for C01, part 5: on certified tables the runtime model never panics (no slice or
array access of the generated parser is out of range).
-/
import TmVerif.Proofs.LRSoundAccept
namespace TmVerif.LRSound
open TmVerif.LR TmVerif.CFG

theorem fetch_stack (inp : Input) (c : Cfg) : (c.fetch inp).1.stack = c.stack := by
  unfold Cfg.fetch; split <;> rfl

/-- the ways `apply` of a reduction can panic -/
theorem apply_reduce_panic {t : Tables} {inp : Input} {c1 c' : Cfg} {r : Int}
    (h : apply t inp c1 (.reduce r) = .done .panic c') :
    (∀ ln lhs, geti t.ruleLen r = some ln → geti t.ruleSymbol r = some lhs → False) ∨
    ∃ ln lhs, geti t.ruleLen r = some ln ∧ geti t.ruleSymbol r = some lhs ∧
      (ln.toNat > c1.stack.length ∨ c1.stack.drop ln.toNat = [] ∨
       ∃ top rest, c1.stack.drop ln.toNat = top :: rest ∧ gotoState t top.state lhs = none) := by
  rw [apply] at h
  split at h
  · rename_i ln lhs hln hlhs
    right
    refine ⟨ln, lhs, hln, hlhs, ?_⟩
    simp only at h
    split at h
    · left; assumption
    · right
      generalize hP : (if ln.toNat = 0 then ((Cfg.fetch inp c1).fst, (Cfg.fetch inp c1).snd.off, (Cfg.fetch inp c1).snd.off)
            else
              (c1, (Option.map (fun x => x.off) (List.take ln.toNat c1.stack).getLast?).getD 0,
                (Option.map (fun x => x.endo) (List.take ln.toNat c1.stack).head?).getD 0)) = P at h
      have hP1 : P.1.stack = c1.stack := by
        rw [← hP]; split
        · exact fetch_stack inp c1
        · rfl
      rw [hP1] at h
      split at h
      · left; assumption
      · rename_i top rest hrest
        right
        refine ⟨top, rest, hrest, ?_⟩
        split at h
        · assumption
        · split at h <;> cases h
  · left; assumption

theorem reduce_no_panic {g : Grammar} {t : Tables} {cert : Cert} {inp : Input} {i : Nat}
    (hc : CertFacts g t cert) (hi : i < g.inputs.size)
    (c1 c' : Cfg) (s : Nat) (r : Int) (syms : List Int) (w : List Nat)
    (hstk : StackOk g t i c1.stack s syms w)
    (hok : ruleOk g t cert s r = true) :
    apply t inp c1 (.reduce r) ≠ .done .panic c' := by
  intro happ
  unfold ruleOk at hok
  simp only [Bool.and_eq_true, decide_eq_true_eq] at hok
  obtain ⟨hr0, hok⟩ := hok
  cases hrule : g.rules[r.toNat]? with
  | none => rw [hrule] at hok; cases hok
  | some rule =>
    rw [hrule] at hok
    simp only [Bool.and_eq_true, beq_iff_eq, List.isPrefixOf_iff_prefix] at hok
    obtain ⟨⟨hlen, hsym⟩, hpre⟩ := hok
    have hmem : rule ∈ g.rules.toList := by
      rw [Array.mem_toList_iff]; exact Array.mem_of_getElem? hrule
    have hwf := (wfFacts hc.wf).rules rule hmem
    obtain ⟨syms', hsyms⟩ := hpre.trans (hstk.past hc hi)
    obtain ⟨s', w', v, hrest, _, _⟩ :=
      StackOk.pop rule.rhs.reverse _ s syms syms' _ hstk hsyms.symm
    rw [List.length_reverse] at hrest
    have hl1 := hstk.length
    have hl2 : syms.length = rule.rhs.length + syms'.length := by rw [← hsyms]; simp
    obtain ⟨e, rest', he, hes⟩ := hrest.top
    rcases apply_reduce_panic happ with h | ⟨ln, lhs, h1, h2, h⟩
    · exact h _ _ hlen hsym
    · rw [hlen] at h1; rw [hsym] at h2
      injection h1 with h1; injection h2 with h2
      subst h1 h2
      rw [Int.toNat_natCast] at h
      rcases h with h | h | ⟨top, rest, h3, h4⟩
      · omega
      · rw [h] at he; cases he
      · rw [h3] at he
        injection he with he1 he2
        subst he1 he2
        have hs' := hrest.lt hc hi
        have hg := hc.gotos s' hs' (rule.lhs - t.nTerms)
          (by have := hc.nTerms; have := hc.nSyms; omega)
        have e4 : t.nTerms + (rule.lhs - t.nTerms) = rule.lhs := by have := hc.nTerms; omega
        unfold gotoOk at hg
        rw [e4, ← hes, h4] at hg
        cases hg

theorem decode_some {g : Grammar} {t : Tables} {cert : Cert} {inp : Input}
    (hc : CertFacts g t cert) (htok : TokOk t inp) (h0 : 0 < t.nTerms)
    (c : Cfg) (s m : Nat) (hs : s < t.nStates) (hst : c.state = (s : Int))
    (hn : NextOk inp c m) : decode t inp c ≠ none := by
  intro hd
  unfold decode at hd
  rw [hst] at hd
  cases hnt : needsTok t (s : Int) with
  | none =>
    have hmem : (none, none) ∈ stateActs t s := by
      unfold stateActs; rw [hnt]; simp
    have := hc.acts s hs _ hmem
    simp [actOk] at this
  | some b =>
    rw [hnt] at hd
    cases b with
    | true =>
      simp only [Option.map_eq_none_iff] at hd
      obtain ⟨f1, _⟩ := fetch_spec inp c m hn
      obtain ⟨a, ha1, ha2⟩ := tok_range htok h0 m
      rw [f1, ha1] at hd
      have hmem : (some a, actOf t noDeep s a) ∈ stateActs t s := by
        unfold stateActs
        rw [hnt]
        simp only [List.mem_map, List.mem_range]
        exact ⟨a, ha2, rfl⟩
      have hok := hc.acts s hs _ hmem
      cases hx : actOf t noDeep s a with
      | none => rw [hx] at hok; simp [actOk] at hok
      | some x =>
        rw [actOf_noDeep t _ s a x hx] at hd
        cases hd
    | false =>
      simp only [Option.map_eq_none_iff] at hd
      have hmem : (none, actOf t noDeep s 0) ∈ stateActs t s := by
        unfold stateActs; rw [hnt]; simp
      have hok := hc.acts s hs _ hmem
      have e : actOf t noDeep s 0 = none := hd
      rw [e] at hok
      simp [actOk] at hok

theorem step_no_panic {g : Grammar} {t : Tables} {cert : Cert} {inp : Input} {i : Nat}
    (hc : CertFacts g t cert) (htok : TokOk t inp) (hi : i < g.inputs.size)
    (c c' : Cfg) (h : Inv g t i inp c) : step t inp c ≠ .done .panic c' := by
  intro hs
  obtain ⟨s, syms, hstk, hst, hn⟩ := h
  have hlt := hstk.lt hc hi
  have h0 : 0 < t.nTerms := by have := (wfFacts hc.wf).nTermsPos; have := hc.nTerms; omega
  unfold step at hs
  cases hd : decode t inp c with
  | none => exact decode_some hc htok h0 c s _ hlt hst hn hd
  | some p =>
    obtain ⟨c1, act⟩ := p
    rw [hd] at hs
    simp only at hs
    obtain ⟨e1, e2, e3, hn1, hact⟩ := decode_spec hc htok h0 c c1 act s _ hlt hst hn hd
    rw [← e1] at hstk
    cases act with
    | error => rw [apply] at hs; cases hs
    | shift q =>
      rcases hact with ⟨a, ha1, _⟩ | hact
      · rw [apply, ha1] at hs; cases hs
      · simp [actOk] at hact
    | reduce r =>
      have hok : ruleOk g t cert s r = true := by
        rcases hact with ⟨a, _, _, _, _, _, hact⟩ | hact
        · exact hact
        · exact hact
      exact reduce_no_panic hc hi c1 c' s r syms _ hstk hok hs

theorem errorAt_not_panic {inp : Input} {c c' : Cfg} : errorAt inp c ≠ (.panic, c') := by
  unfold errorAt
  intro h
  cases h

theorem runLoop_no_panic {g : Grammar} {t : Tables} {cert : Cert} {inp : Input} {i : Nat}
    (hc : CertFacts g t cert) (htok : TokOk t inp) (hi : i < g.inputs.size) (fin : Int) :
    ∀ (fuel : Nat) (c c' : Cfg), Inv g t i inp c → runLoop t inp fin fuel c ≠ (.panic, c')
  | 0, c, c', _, h => by rw [runLoop] at h; cases h
  | fuel + 1, c, c', hinv, h => by
    rw [runLoop] at h
    split at h
    · cases h
    · split at h
      · rename_i c1 hstep
        exact runLoop_no_panic hc htok hi fin fuel c1 c' (step_inv hc htok hi c c1 hinv hstep) h
      · exact absurd h errorAt_not_panic
      · rename_i r c1 _ hstep
        injection h with h1 h2
        subst h1 h2
        exact absurd hstep (step_no_panic hc htok hi c c1 hinv)

end TmVerif.LRSound
