/-
Helper lemmas for C19 panic-freedom, part 1: unpacking of `xwf`, the state-stack invariant `StOk`
(every stack the recovering runtime builds or simulates is a path of transitions of the tables
that respects the `past` certificate), and the generic reduction step on such stacks.
-/
import TmVerif.Model.LRXSafe
import TmVerif.Proofs.LRSoundInv
namespace TmVerif.LRX
open TmVerif.LR TmVerif.CFG TmVerif.LRSound

structure XFacts (g : Grammar) (x : XTables) (cert : Cert) (xc : XCert) : Prop where
  reports : ∀ (i : Nat) (info : RuleInfo) (ln : Int), x.rules[i]? = some info →
    geti x.t.ruleLen i = some ln → ∀ r ∈ info.reports,
      r.start ≤ r.stop ∧ r.stop ≤ ln.toNat ∧ (r.start = r.stop → r.stop < ln.toNat)
  errNonneg : x.recovering = true → 0 ≤ x.errSym
  errGoto : x.recovering = true → ∀ p : Nat, p < x.t.nStates →
    ∃ q, gotoState x.t p x.errSym = some q ∧
      (q = -1 ∨ edgeOk g.inputs.size x.t cert p x.errSym q = true)
  rankB : ∀ a s, a < x.t.nTerms → s < x.t.nStates → rankOf xc a s ≤ rankBound x
  weightPos : 1 ≤ xc.weight
  weightLe : xc.weight ≤ 4
  red : ∀ a s, a < x.t.nTerms → s < x.t.nStates → reduceOk g x xc (xedges x) a s = true

/-- what `ranksOk` says -/
structure RankFacts (g : Grammar) (x : XTables) (xc : XCert) : Prop where
  rankB : ∀ a s, a < x.t.nTerms → s < x.t.nStates → rankOf xc a s ≤ rankBound x
  weightPos : 1 ≤ xc.weight
  red : ∀ a s, a < x.t.nTerms → s < x.t.nStates → reduceOk g x xc (xedges x) a s = true

theorem rankFacts {g : Grammar} {x : XTables} {xc : XCert} (h3 : ranksOk g x xc = true) :
    RankFacts g x xc := by
  unfold ranksOk at h3
  simp only [List.all_eq_true, List.mem_range, Bool.and_eq_true, decide_eq_true_eq] at h3
  exact ⟨fun a s ha hs => (h3.2 a ha s hs).1, h3.1, fun a s ha hs => (h3.2 a ha s hs).2⟩

theorem XFacts.rk {g : Grammar} {x : XTables} {cert : Cert} {xc : XCert}
    (h : XFacts g x cert xc) : RankFacts g x xc := ⟨h.rankB, h.weightPos, h.red⟩

theorem xFacts {g : Grammar} {x : XTables} {cert : Cert} {xc : XCert}
    (h : xwf g x cert xc = true) : XFacts g x cert xc := by
  unfold xwf at h
  simp only [Bool.and_eq_true, decide_eq_true_eq] at h
  obtain ⟨⟨⟨h1, h2⟩, h3⟩, h4⟩ := h
  refine ⟨?_, ?_, ?_, ?_, ?_, h4, ?_⟩
  · intro i info ln hi hl r hr
    unfold reportsOk at h1
    simp only [List.all_eq_true, List.mem_range] at h1
    have hlt : i < x.rules.size := by
      rcases Nat.lt_or_ge i x.rules.size with h | h
      · exact h
      · rw [Array.getElem?_eq_none h] at hi; cases hi
    have := h1 i hlt
    rw [hi, hl] at this
    simp only [List.all_eq_true, Bool.and_eq_true, decide_eq_true_eq, Bool.or_eq_true,
      bne_iff_ne, ne_eq] at this
    obtain ⟨⟨a, b⟩, c⟩ := this r hr
    refine ⟨a, b, fun e => ?_⟩
    rcases c with c | c
    · exact absurd e c
    · exact c
  · intro hr
    unfold errOk at h2
    simp only [hr, Bool.not_true, Bool.false_or, Bool.and_eq_true, decide_eq_true_eq] at h2
    exact h2.1
  · intro hr p hp
    unfold errOk at h2
    simp only [hr, Bool.not_true, Bool.false_or, Bool.and_eq_true, decide_eq_true_eq,
      List.all_eq_true, List.mem_range] at h2
    have := h2.2 p hp
    cases hg : gotoState x.t p x.errSym with
    | none => rw [hg] at this; cases this
    | some q =>
      rw [hg] at this
      simp only [Bool.or_eq_true, beq_iff_eq] at this
      exact ⟨q, rfl, this⟩
  · intro a s ha hs
    unfold ranksOk at h3
    simp only [List.all_eq_true, List.mem_range, Bool.and_eq_true, decide_eq_true_eq] at h3
    exact (h3.2 a ha s hs).1
  · unfold ranksOk at h3
    simp only [List.all_eq_true, List.mem_range, Bool.and_eq_true, decide_eq_true_eq] at h3
    exact h3.1
  · intro a s ha hs
    unfold ranksOk at h3
    simp only [List.all_eq_true, List.mem_range, Bool.and_eq_true, decide_eq_true_eq] at h3
    exact (h3.2 a ha s hs).2

/-! ### the state-stack invariant -/

/-- `StOk g x cert sts syms`: `sts` (top first) is a path of transitions of the tables from an entry
state, with symbols `syms` (top first), each transition respecting the `past` certificate. -/
inductive StOk (g : Grammar) (x : XTables) (cert : Cert) : List Nat → List Int → Prop
  | base (s : Nat) : s < g.inputs.size → StOk g x cert [s] []
  | push (q p : Nat) (rest : List Nat) (X : Nat) (syms : List Int) :
      StOk g x cert (p :: rest) syms → (p, X, (q : Int)) ∈ xedges x → q < x.t.nStates →
      pastOf cert (q : Nat) <+: (X : Int) :: pastOf cert (p : Nat) →
      StOk g x cert (q :: p :: rest) ((X : Int) :: syms)

variable {g : Grammar} {x : XTables} {cert : Cert}

theorem StOk.length {sts : List Nat} {syms : List Int} (h : StOk g x cert sts syms) :
    sts.length = syms.length + 1 := by
  induction h with
  | base s _ => rfl
  | push q p rest X syms _ _ _ _ ih => simp [ih]

theorem StOk.ne_nil {sts : List Nat} {syms : List Int} (h : StOk g x cert sts syms) : sts ≠ [] := by
  cases h <;> simp

theorem StOk.lt (hc : CertFacts g x.t cert) {sts : List Nat} {syms : List Int}
    (h : StOk g x cert sts syms) : ∀ s ∈ sts, s < x.t.nStates := by
  induction h with
  | base s hs => intro s' hs'; simp at hs'; subst hs'; have := hc.nIn; omega
  | push q p rest X syms _ _ hq _ ih =>
    intro s hs
    rcases List.mem_cons.1 hs with h | h
    · subst h; exact hq
    · exact ih s h

theorem StOk.past (hc : CertFacts g x.t cert) {s : Nat} {rest : List Nat} {syms : List Int}
    (h : StOk g x cert (s :: rest) syms) : pastOf cert (s : Nat) <+: syms := by
  generalize hsts : s :: rest = sts at h
  induction h generalizing s rest with
  | base s' hs' =>
    injection hsts with h1 _
    subst h1
    rw [hc.pastEntry s hs']; exact List.nil_prefix
  | push q p rest' X syms _ _ _ hp ih =>
    injection hsts with h1 _
    subst h1
    exact hp.trans ((List.prefix_cons_inj _).mpr (ih rfl))

/-- every suffix (the stack after pops) satisfies the invariant -/
theorem StOk.drop {sts : List Nat} {syms : List Int} (h : StOk g x cert sts syms) :
    ∀ k, k < sts.length → StOk g x cert (sts.drop k) (syms.drop k) := by
  induction h with
  | base s hs =>
    intro k hk
    have : k = 0 := by simpa using hk
    subst this; exact .base s hs
  | push q p rest X syms h0 he hq hp ih =>
    intro k hk
    cases k with
    | zero => exact .push q p rest X syms h0 he hq hp
    | succ k => simpa using ih k (by simpa using hk)

/-- walking the top symbols backwards stays inside `backStates` -/
theorem StOk.back : ∀ (β : List Int) (sts : List Nat) (syms syms' : List Int) (s : Nat)
    (rest : List Nat) (S : List Nat), StOk g x cert sts syms → sts = s :: rest →
    syms = β ++ syms' → s ∈ S →
    ∃ p' rest', sts.drop β.length = p' :: rest' ∧ p' ∈ backStates (xedges x) β S
  | [], sts, syms, syms', s, rest, S, _, hs, _, hS => by
    subst hs; exact ⟨s, rest, rfl, hS⟩
  | X :: β, sts, syms, syms', s, rest, S, h, hs, he, hS => by
    cases h with
    | base s0 _ => simp at he
    | push q p rest0 X' syms0 h0 hedge hq hp =>
      injection hs with h1 h2
      subst h1
      simp only [List.cons_append, List.cons.injEq] at he
      obtain ⟨e1, e2⟩ := he
      have hp' : p ∈ preds (xedges x) X S := by
        unfold preds
        rw [List.mem_filterMap]
        refine ⟨(p, X', (q : Int)), hedge, ?_⟩
        simp only [e1, Int.toNat_natCast, true_and]
        have : (0 : Int) ≤ (q : Int) := by omega
        simp [this, hS]
      obtain ⟨p', rest', hd, hb⟩ := StOk.back β (p :: rest0) syms0 syms' p rest0 _ h0 rfl e2 hp'
      exact ⟨p', rest', by simpa using hd, hb⟩

/-! ### actions of certified tables; the generic reduction step -/

theorem actOf_ignores (t : Tables) (deep : Int → Option Int) (s a : Int)
    (h : needsTok t s = some false) : actOf t deep s a = actOf t deep s 0 := by
  unfold needsTok at h
  unfold actOf
  cases ho : t.optimized with
  | true =>
    simp only [ho, ↓reduceIte] at h ⊢
    cases hg : geti t.oAction s with
    | none => rfl
    | some action =>
      rw [hg] at h
      simp only [Option.map_some, Option.some.injEq, decide_eq_false_iff_not] at h
      simp only [h, ↓reduceIte]
  | false =>
    simp only [ho, Bool.false_eq_true, ↓reduceIte] at h ⊢
    cases hg : geti t.action s with
    | none => rfl
    | some action =>
      rw [hg] at h
      simp only [Option.map_some, Option.some.injEq, decide_eq_false_iff_not, not_or] at h
      have h1 : ¬ action < -2 := h.1
      simp only [h1, ↓reduceIte]
      by_cases h3 : action ≥ 0
      · simp only [h3, ↓reduceIte]
      · simp only [h3, ↓reduceIte, h.2]

variable {xc : XCert}

/-- the action of a certified table in state `s` on terminal `a`, whether or not the state
consults the token -/
theorem actOk_of_act (hc : CertFacts g x.t cert) {s a : Nat} (hs : s < x.t.nStates)
    (ha : a < x.t.nTerms) :
    ∃ act, actOf x.t noDeep s a = some act ∧
      ((needsTok x.t s = some true ∧ actOk g x.t cert s (some a, some act) = true) ∨
       (needsTok x.t s = some false ∧ actOk g x.t cert s (none, some act) = true)) := by
  cases hnt : needsTok x.t (s : Int) with
  | none =>
    have hmem : (none, none) ∈ stateActs x.t s := by unfold stateActs; rw [hnt]; simp
    have := hc.acts s hs _ hmem
    simp [actOk] at this
  | some b =>
    cases b with
    | true =>
      have hmem : (some a, actOf x.t noDeep s a) ∈ stateActs x.t s := by
        unfold stateActs; rw [hnt]
        simp only [List.mem_map, List.mem_range]
        exact ⟨a, ha, rfl⟩
      have hok := hc.acts s hs _ hmem
      cases hx : actOf x.t noDeep s a with
      | none => rw [hx] at hok; simp [actOk] at hok
      | some act => rw [hx] at hok; exact ⟨act, rfl, Or.inl ⟨rfl, hok⟩⟩
    | false =>
      have hmem : (none, actOf x.t noDeep s 0) ∈ stateActs x.t s := by
        unfold stateActs; rw [hnt]; simp
      have hok := hc.acts s hs _ hmem
      rw [actOf_ignores x.t noDeep s a hnt]
      cases hx : actOf x.t noDeep s 0 with
      | none =>
        have e : actOf x.t noDeep (s : Int) 0 = none := hx
        rw [e] at hok; simp [actOk] at hok
      | some act =>
        have e : actOf x.t noDeep (s : Int) 0 = some act := hx
        rw [e] at hok; exact ⟨act, rfl, Or.inr ⟨rfl, hok⟩⟩

theorem ruleOk_of_act (hc : CertFacts g x.t cert) {s a : Nat} {r : Int} (hs : s < x.t.nStates)
    (ha : a < x.t.nTerms) (hact : actOf x.t noDeep s a = some (.reduce r)) :
    ruleOk g x.t cert s r = true := by
  obtain ⟨act, h1, h2⟩ := actOk_of_act hc hs ha
  rw [hact] at h1
  injection h1 with h1
  subst h1
  rcases h2 with ⟨_, h⟩ | ⟨_, h⟩ <;> exact h

theorem ruleOk_elim {s : Nat} {r : Int} (h : ruleOk g x.t cert s r = true) :
    ∃ rule, 0 ≤ r ∧ g.rules[r.toNat]? = some rule ∧
      geti x.t.ruleLen r = some (rule.rhs.length : Int) ∧
      geti x.t.ruleSymbol r = some (rule.lhs : Int) ∧
      rule.rhs.reverse.map Int.ofNat <+: pastOf cert (s : Nat) := by
  unfold ruleOk at h
  simp only [Bool.and_eq_true, decide_eq_true_eq] at h
  obtain ⟨hr0, h⟩ := h
  cases hrule : g.rules[r.toNat]? with
  | none => rw [hrule] at h; cases h
  | some rule =>
    rw [hrule] at h
    simp only [Bool.and_eq_true, beq_iff_eq, List.isPrefixOf_iff_prefix] at h
    exact ⟨rule, hr0, rfl, h.1.1, h.1.2, h.2⟩

/-- one reduction on a certified state stack: no underflow, the goto is a state, the new stack is
certified again and the potential `height + rank` decreases -/
theorem StOk.reduce (hc : CertFacts g x.t cert) (hx : RankFacts g x xc)
    {s a : Nat} {rest : List Nat} {syms : List Int} {r : Int}
    (h : StOk g x cert (s :: rest) syms) (ha : a < x.t.nTerms)
    (hact : actOf x.t noDeep s a = some (.reduce r)) :
    ∃ (rule : Rule) (p' : Nat) (rest' : List Nat) (q : Nat),
      0 ≤ r ∧ g.rules[r.toNat]? = some rule ∧
      geti x.t.ruleLen r = some (rule.rhs.length : Int) ∧
      geti x.t.ruleSymbol r = some (rule.lhs : Int) ∧
      (s :: rest).drop rule.rhs.length = p' :: rest' ∧
      gotoState x.t p' rule.lhs = some (q : Int) ∧
      StOk g x cert (q :: p' :: rest') ((rule.lhs : Int) :: syms.drop rule.rhs.length) ∧
      rankOf xc a q + xc.weight + 1 ≤ rankOf xc a s + xc.weight * rule.rhs.length := by
  have hs : s < x.t.nStates := h.lt hc s (by simp)
  obtain ⟨rule, hr0, hrule, hlen, hsym, hpre⟩ := ruleOk_elim (ruleOk_of_act hc hs ha hact)
  obtain ⟨syms', hsyms⟩ := hpre.trans (h.past hc)
  obtain ⟨p', rest', hdrop, hback⟩ :=
    StOk.back (rule.rhs.reverse.map Int.ofNat) (s :: rest) syms syms' s rest [s] h rfl hsyms.symm
      (by simp)
  have hn : (rule.rhs.reverse.map Int.ofNat).length = rule.rhs.length := by simp
  rw [hn] at hdrop
  have hred := hx.red a s ha hs
  unfold reduceOk at hred
  rw [hact] at hred
  simp only at hred
  rw [hrule] at hred
  simp only [List.all_eq_true] at hred
  have hq := hred p' hback
  have hmem : rule ∈ g.rules.toList := by
    rw [Array.mem_toList_iff]; exact Array.mem_of_getElem? hrule
  have hwf := (wfFacts hc.wf).rules rule hmem
  have hlen1 := h.length
  have hl2 : syms.length = rule.rhs.length + syms'.length := by rw [← hsyms]; simp
  have hk : rule.rhs.length < (s :: rest).length := by omega
  have hrest := h.drop rule.rhs.length hk
  rw [hdrop] at hrest
  have hp' : p' < x.t.nStates := hrest.lt hc p' (by simp)
  cases hg : gotoState x.t (p' : Nat) (rule.lhs : Nat) with
  | none => rw [hg] at hq; cases hq
  | some q =>
    rw [hg] at hq
    simp only [Bool.and_eq_true, decide_eq_true_eq] at hq
    have hgo := hc.gotos p' hp' (rule.lhs - x.t.nTerms)
      (by have := hc.nTerms; have := hc.nSyms; omega)
    have e4 : x.t.nTerms + (rule.lhs - x.t.nTerms) = rule.lhs := by have := hc.nTerms; omega
    unfold gotoOk at hgo
    rw [e4, hg] at hgo
    simp only [Bool.or_eq_true, beq_iff_eq] at hgo
    rcases hgo with hgo | hgo
    · omega
    · obtain ⟨q', hq', _, hq2, hq3⟩ := edgeOk_elim hgo
      subst hq'
      have hE : NtEdge x.t p' rule.lhs (q' : Int) :=
        ⟨hp', by have := hc.nTerms; omega, by have := hc.nSyms; omega, hg, by omega⟩
      refine ⟨rule, p', rest', q', hr0, hrule, hlen, hsym, hdrop, hg, ?_, ?_⟩
      · exact StOk.push q' p' rest' rule.lhs _ hrest
          (List.mem_append_left _ (ntEdge_mem hE)) hq2 hq3
      · simpa using hq.2

end TmVerif.LRX
