/-
Helper lemmas for C19 panic-freedom, part 1: unpacking of `xwf`, the state-stack invariant `StOk`
(every stack the recovering runtime builds or simulates is a path of transitions of the tables
that respects the `past` certificate), and the generic reduction step on such stacks.
-/
import TmVerif.Model.LRXSafe
import TmVerif.Proofs.LRSoundAccept
namespace TmVerif.LRX
open TmVerif.LR TmVerif.CFG TmVerif.LRSound

/-- what `ranksOk` says -/
structure RankFacts (g : Grammar) (x : XTables) (cert : Cert) (xc : XCert) : Prop where
  rankB : ∀ i a s, i < g.inputs.size → a < x.t.nTerms → s < x.t.nStates →
    rankOf xc i a s ≤ rankBound x
  weightPos : 1 ≤ xc.weight
  red : ∀ i a s, i < g.inputs.size → a < x.t.nTerms → s < x.t.nStates →
    reduceOk g x cert xc (xedges x) i a s = true

theorem rankFacts {g : Grammar} {x : XTables} {cert : Cert} {xc : XCert}
    (h3 : ranksOk g x cert xc = true) : RankFacts g x cert xc := by
  unfold ranksOk at h3
  simp only [List.all_eq_true, List.mem_range, Bool.and_eq_true, decide_eq_true_eq] at h3
  exact ⟨fun i a s hi ha hs => (h3.2 i hi a ha s hs).1, h3.1,
    fun i a s hi ha hs => (h3.2 i hi a ha s hs).2⟩

structure XFacts (g : Grammar) (x : XTables) (cert : Cert) (xc : XCert) : Prop where
  reports : ∀ (i : Nat) (info : RuleInfo) (ln : Int), x.rules[i]? = some info →
    geti x.t.ruleLen i = some ln → ∀ r ∈ info.reports,
      r.start ≤ r.stop ∧ r.stop ≤ ln.toNat ∧ (r.start = r.stop → r.stop < ln.toNat)
  errNonneg : x.recovering = true → 0 ≤ x.errSym
  errGoto : x.recovering = true → ∀ p : Nat, p < x.t.nStates →
    ∃ q, gotoState x.t p x.errSym = some q ∧
      (q = -1 ∨ edgeOk g.inputs.size x.t cert p x.errSym q = true)
  reachX : ∀ i, i < g.inputs.size → ∀ p X q, (p, X, q) ∈ errEdges x → p ∈ reachOf cert i →
    q.toNat ∈ reachOf cert i
  weightLe : xc.weight ≤ 4
  rk : RankFacts g x cert xc

theorem xFacts {g : Grammar} {x : XTables} {cert : Cert} {xc : XCert}
    (h : xwf g x cert xc = true) : XFacts g x cert xc := by
  unfold xwf at h
  simp only [Bool.and_eq_true, decide_eq_true_eq] at h
  obtain ⟨⟨⟨⟨h1, h2⟩, hrx⟩, h3⟩, h4⟩ := h
  refine ⟨?_, ?_, ?_, ?_, h4, rankFacts h3⟩
  · intro i info ln hi hl r hr
    unfold reportsOk at h1
    simp only [List.all_eq_true, List.mem_range] at h1
    have hlt : i < x.rules.size := by
      rcases Nat.lt_or_ge i x.rules.size with h | h
      · exact h
      · rw [Array.getElem?_eq_none h] at hi; cases hi
    have := h1 i hlt
    rw [hi, hl] at this
    simp only [List.all_eq_true, Bool.and_eq_true, decide_eq_true_eq, Bool.or_eq_true,
      bne_iff_ne, ne_eq] at this
    obtain ⟨⟨a, b⟩, c⟩ := this r hr
    refine ⟨a, b, fun e => ?_⟩
    rcases c with c | c
    · exact absurd e c
    · exact c
  · intro hr
    unfold errOk at h2
    simp only [hr, Bool.not_true, Bool.false_or, Bool.and_eq_true, decide_eq_true_eq] at h2
    exact h2.1
  · intro hr p hp
    unfold errOk at h2
    simp only [hr, Bool.not_true, Bool.false_or, Bool.and_eq_true, decide_eq_true_eq,
      List.all_eq_true, List.mem_range] at h2
    have := h2.2 p hp
    cases hg : gotoState x.t p x.errSym with
    | none => rw [hg] at this; cases this
    | some q =>
      rw [hg] at this
      simp only [Bool.or_eq_true, beq_iff_eq] at this
      exact ⟨q, rfl, this⟩
  · intro i hi p X q hm hp
    unfold reachXOk at hrx
    simp only [List.all_eq_true, List.mem_range] at hrx
    have := hrx i hi (p, X, q) hm
    simp only [Bool.or_eq_true, Bool.not_eq_true', List.contains_eq_mem, decide_eq_false_iff_not,
      decide_eq_true_eq] at this
    rcases this with h | h
    · exact absurd hp h
    · exact h

/-- the reachable sets of the soundness certificate contain the entry states and are closed under
all transitions of the extended runtime -/
def ReachClosed (g : Grammar) (x : XTables) (cert : Cert) : Prop :=
  ∀ i, i < g.inputs.size → i ∈ reachOf cert i ∧
    ∀ p X (q : Nat), (p, X, (q : Int)) ∈ xedges x → p ∈ reachOf cert i → q ∈ reachOf cert i

theorem reachClosed {g : Grammar} {x : XTables} {cert : Cert}
    (hc : CertFacts g x.t cert)
    (hrx : ∀ i, i < g.inputs.size → ∀ p X q, (p, X, q) ∈ errEdges x → p ∈ reachOf cert i →
      q.toNat ∈ reachOf cert i) : ReachClosed g x cert := by
  intro i hi
  obtain ⟨_, _, _, _, _, _, _, _, hr, _⟩ := finalOk_elim (hc.finals i hi)
  obtain ⟨h1, h2⟩ := reachOk_elim hr
  refine ⟨h1, fun p X q hm hp => ?_⟩
  unfold xedges at hm
  rcases List.mem_append.1 hm with hm | hm
  · exact h2 p X q hm hp
  · have := hrx i hi p X _ hm hp
    simpa using this

theorem XFacts.closed {g : Grammar} {x : XTables} {cert : Cert} {xc : XCert}
    (hc : CertFacts g x.t cert) (h : XFacts g x cert xc) : ReachClosed g x cert :=
  reachClosed hc h.reachX

/-! ### the state-stack invariant -/

/-- `StOk g x cert i sts syms`: `sts` (top first) is a path of transitions of the tables from the
entry state `i`, with symbols `syms` (top first), each transition respecting the `past`
certificate, inside the reachable set of `i`. -/
inductive StOk (g : Grammar) (x : XTables) (cert : Cert) (i : Nat) : List Nat → List Int → Prop
  | base : i < g.inputs.size → i ∈ reachOf cert i → StOk g x cert i [i] []
  | push (q p : Nat) (rest : List Nat) (X : Nat) (syms : List Int) :
      StOk g x cert i (p :: rest) syms → (p, X, (q : Int)) ∈ xedges x → q < x.t.nStates →
      pastOf cert (q : Nat) <+: (X : Int) :: pastOf cert (p : Nat) → q ∈ reachOf cert i →
      StOk g x cert i (q :: p :: rest) ((X : Int) :: syms)

variable {g : Grammar} {x : XTables} {cert : Cert} {i : Nat}

theorem StOk.length {sts : List Nat} {syms : List Int} (h : StOk g x cert i sts syms) :
    sts.length = syms.length + 1 := by
  induction h with
  | base _ _ => rfl
  | push q p rest X syms _ _ _ _ _ ih => simp [ih]

theorem StOk.ne_nil {sts : List Nat} {syms : List Int} (h : StOk g x cert i sts syms) : sts ≠ [] := by
  cases h <;> simp

theorem StOk.lt (hc : CertFacts g x.t cert) {sts : List Nat} {syms : List Int}
    (h : StOk g x cert i sts syms) : ∀ s ∈ sts, s < x.t.nStates := by
  induction h with
  | base hs _ => intro s' hs'; simp at hs'; subst hs'; have := hc.nIn; omega
  | push q p rest X syms _ _ hq _ _ ih =>
    intro s hs
    rcases List.mem_cons.1 hs with h | h
    · subst h; exact hq
    · exact ih s h

theorem StOk.past (hc : CertFacts g x.t cert) {s : Nat} {rest : List Nat} {syms : List Int}
    (h : StOk g x cert i (s :: rest) syms) : pastOf cert (s : Nat) <+: syms := by
  generalize hsts : s :: rest = sts at h
  induction h generalizing s rest with
  | base hs' _ =>
    injection hsts with h1 _
    subst h1
    rw [hc.pastEntry s hs']; exact List.nil_prefix
  | push q p rest' X syms _ _ _ hp _ ih =>
    injection hsts with h1 _
    subst h1
    exact hp.trans ((List.prefix_cons_inj _).mpr (ih rfl))

/-- every suffix (the stack after pops) satisfies the invariant -/
theorem StOk.drop {sts : List Nat} {syms : List Int} (h : StOk g x cert i sts syms) :
    ∀ k, k < sts.length → StOk g x cert i (sts.drop k) (syms.drop k) := by
  induction h with
  | base hs hr =>
    intro k hk
    have : k = 0 := by simpa using hk
    subst this; exact .base hs hr
  | push q p rest X syms h0 he hq hp hr ih =>
    intro k hk
    cases k with
    | zero => exact .push q p rest X syms h0 he hq hp hr
    | succ k => simpa using ih k (by simpa using hk)

theorem StOk.mem_reach {sts : List Nat} {syms : List Int} (h : StOk g x cert i sts syms) :
    ∀ s ∈ sts, s ∈ reachOf cert i := by
  induction h with
  | base _ hr => intro s hs; simp at hs; subst hs; exact hr
  | push q p rest X syms _ _ _ _ hr ih =>
    intro s hs
    rcases List.mem_cons.1 hs with h | h
    · subst h; exact hr
    · exact ih s h

theorem StOk.input_lt {sts : List Nat} {syms : List Int} (h : StOk g x cert i sts syms) :
    i < g.inputs.size := by
  induction h with
  | base hs _ => exact hs
  | push _ _ _ _ _ _ _ _ _ _ ih => exact ih

/-- walking the top symbols backwards stays inside `backStates` -/
theorem StOk.back : ∀ (β : List Int) (sts : List Nat) (syms syms' : List Int) (s : Nat)
    (rest : List Nat) (S : List Nat), StOk g x cert i sts syms → sts = s :: rest →
    syms = β ++ syms' → s ∈ S →
    ∃ p' rest', sts.drop β.length = p' :: rest' ∧ p' ∈ backStates (xedges x) β S
  | [], sts, syms, syms', s, rest, S, _, hs, _, hS => by
    subst hs; exact ⟨s, rest, rfl, hS⟩
  | X :: β, sts, syms, syms', s, rest, S, h, hs, he, hS => by
    cases h with
    | base _ _ => simp at he
    | push q p rest0 X' syms0 h0 hedge hq hp _ =>
      injection hs with h1 h2
      subst h1
      simp only [List.cons_append, List.cons.injEq] at he
      obtain ⟨e1, e2⟩ := he
      have hp' : p ∈ preds (xedges x) X S := by
        unfold preds
        rw [List.mem_filterMap]
        refine ⟨(p, X', (q : Int)), hedge, ?_⟩
        simp only [e1, Int.toNat_natCast, true_and]
        have : (0 : Int) ≤ (q : Int) := by omega
        simp [this, hS]
      obtain ⟨p', rest', hd, hb⟩ := StOk.back β (p :: rest0) syms0 syms' p rest0 _ h0 rfl e2 hp'
      exact ⟨p', rest', by simpa using hd, hb⟩

/-! ### actions of certified tables; the generic reduction step -/

theorem actOf_ignores (t : Tables) (deep : Int → Option Int) (s a : Int)
    (h : needsTok t s = some false) : actOf t deep s a = actOf t deep s 0 := by
  unfold needsTok at h
  unfold actOf
  cases ho : t.optimized with
  | true =>
    simp only [ho, ↓reduceIte] at h ⊢
    cases hg : geti t.oAction s with
    | none => rfl
    | some action =>
      rw [hg] at h
      simp only [Option.map_some, Option.some.injEq, decide_eq_false_iff_not] at h
      simp only [h, ↓reduceIte]
  | false =>
    simp only [ho, Bool.false_eq_true, ↓reduceIte] at h ⊢
    cases hg : geti t.action s with
    | none => rfl
    | some action =>
      rw [hg] at h
      simp only [Option.map_some, Option.some.injEq, decide_eq_false_iff_not, not_or] at h
      have h1 : ¬ action < -2 := h.1
      simp only [h1, ↓reduceIte]
      by_cases h3 : action ≥ 0
      · simp only [h3, ↓reduceIte]
      · simp only [h3, ↓reduceIte, h.2]

variable {xc : XCert}

/-- the action of a certified table in state `s` on terminal `a`, whether or not the state
consults the token -/
theorem actOk_of_act (hc : CertFacts g x.t cert) {s a : Nat} (hs : s < x.t.nStates)
    (ha : a < x.t.nTerms) :
    ∃ act, actOf x.t noDeep s a = some act ∧
      ((needsTok x.t s = some true ∧ actOk g x.t cert s (some a, some act) = true) ∨
       (needsTok x.t s = some false ∧ actOk g x.t cert s (none, some act) = true)) := by
  cases hnt : needsTok x.t (s : Int) with
  | none =>
    have hmem : (none, none) ∈ stateActs x.t s := by unfold stateActs; rw [hnt]; simp
    have := hc.acts s hs _ hmem
    simp [actOk] at this
  | some b =>
    cases b with
    | true =>
      have hmem : (some a, actOf x.t noDeep s a) ∈ stateActs x.t s := by
        unfold stateActs; rw [hnt]
        simp only [List.mem_map, List.mem_range]
        exact ⟨a, ha, rfl⟩
      have hok := hc.acts s hs _ hmem
      cases hx : actOf x.t noDeep s a with
      | none => rw [hx] at hok; simp [actOk] at hok
      | some act => rw [hx] at hok; exact ⟨act, rfl, Or.inl ⟨rfl, hok⟩⟩
    | false =>
      have hmem : (none, actOf x.t noDeep s 0) ∈ stateActs x.t s := by
        unfold stateActs; rw [hnt]; simp
      have hok := hc.acts s hs _ hmem
      rw [actOf_ignores x.t noDeep s a hnt]
      cases hx : actOf x.t noDeep s 0 with
      | none =>
        have e : actOf x.t noDeep (s : Int) 0 = none := hx
        rw [e] at hok; simp [actOk] at hok
      | some act =>
        have e : actOf x.t noDeep (s : Int) 0 = some act := hx
        rw [e] at hok; exact ⟨act, rfl, Or.inr ⟨rfl, hok⟩⟩

theorem ruleOk_of_act (hc : CertFacts g x.t cert) {s a : Nat} {r : Int} (hs : s < x.t.nStates)
    (ha : a < x.t.nTerms) (hact : actOf x.t noDeep s a = some (.reduce r)) :
    ruleOk g x.t cert s r = true := by
  obtain ⟨act, h1, h2⟩ := actOk_of_act hc hs ha
  rw [hact] at h1
  injection h1 with h1
  subst h1
  rcases h2 with ⟨_, h⟩ | ⟨_, h⟩ <;> exact h

theorem ruleOk_elim {s : Nat} {r : Int} (h : ruleOk g x.t cert s r = true) :
    ∃ rule, 0 ≤ r ∧ g.rules[r.toNat]? = some rule ∧
      geti x.t.ruleLen r = some (rule.rhs.length : Int) ∧
      geti x.t.ruleSymbol r = some (rule.lhs : Int) ∧
      rule.rhs.reverse.map Int.ofNat <+: pastOf cert (s : Nat) := by
  unfold ruleOk at h
  simp only [Bool.and_eq_true, decide_eq_true_eq] at h
  obtain ⟨hr0, h⟩ := h
  cases hrule : g.rules[r.toNat]? with
  | none => rw [hrule] at h; cases h
  | some rule =>
    rw [hrule] at h
    simp only [Bool.and_eq_true, beq_iff_eq, List.isPrefixOf_iff_prefix] at h
    exact ⟨rule, hr0, rfl, h.1.1, h.1.2, h.2⟩

/-- one reduction on a certified state stack: no underflow, the goto is a state, the new stack is
certified again and the potential `height + rank` decreases -/
theorem StOk.reduce (hc : CertFacts g x.t cert) (hx : RankFacts g x cert xc)
    (hcl : ReachClosed g x cert)
    {s a : Nat} {rest : List Nat} {syms : List Int} {r : Int}
    (h : StOk g x cert i (s :: rest) syms) (ha : a < x.t.nTerms)
    (hfin : (s : Int) ≠ finOf x i)
    (hact : actOf x.t noDeep s a = some (.reduce r)) :
    ∃ (rule : Rule) (p' : Nat) (rest' : List Nat) (q : Nat),
      0 ≤ r ∧ g.rules[r.toNat]? = some rule ∧
      geti x.t.ruleLen r = some (rule.rhs.length : Int) ∧
      geti x.t.ruleSymbol r = some (rule.lhs : Int) ∧
      (s :: rest).drop rule.rhs.length = p' :: rest' ∧
      gotoState x.t p' rule.lhs = some (q : Int) ∧
      StOk g x cert i (q :: p' :: rest') ((rule.lhs : Int) :: syms.drop rule.rhs.length) ∧
      rankOf xc i a q + xc.weight + 1 ≤ rankOf xc i a s + xc.weight * rule.rhs.length := by
  have hs : s < x.t.nStates := h.lt hc s (by simp)
  have hi := h.input_lt
  have hsr : s ∈ reachOf cert i := h.mem_reach s (by simp)
  obtain ⟨rule, hr0, hrule, hlen, hsym, hpre⟩ := ruleOk_elim (ruleOk_of_act hc hs ha hact)
  obtain ⟨syms', hsyms⟩ := hpre.trans (h.past hc)
  obtain ⟨p', rest', hdrop, hback⟩ :=
    StOk.back (rule.rhs.reverse.map Int.ofNat) (s :: rest) syms syms' s rest [s] h rfl hsyms.symm
      (by simp)
  have hn : (rule.rhs.reverse.map Int.ofNat).length = rule.rhs.length := by simp
  rw [hn] at hdrop
  have hmem : rule ∈ g.rules.toList := by
    rw [Array.mem_toList_iff]; exact Array.mem_of_getElem? hrule
  have hwf := (wfFacts hc.wf).rules rule hmem
  have hlen1 := h.length
  have hl2 : syms.length = rule.rhs.length + syms'.length := by rw [← hsyms]; simp
  have hk : rule.rhs.length < (s :: rest).length := by omega
  have hrest := h.drop rule.rhs.length hk
  rw [hdrop] at hrest
  have hp' : p' < x.t.nStates := hrest.lt hc p' (by simp)
  have hpr : p' ∈ reachOf cert i := hrest.mem_reach p' (by simp)
  have hred := hx.red i a s hi ha hs
  unfold reduceOk at hred
  rw [hact] at hred
  simp only [Bool.or_eq_true, Bool.not_eq_true', List.contains_eq_mem, decide_eq_false_iff_not,
    beq_iff_eq] at hred
  rcases hred with (hred | hred) | hred
  · exact absurd hsr hred
  · exact absurd hred hfin
  rw [hrule] at hred
  simp only [List.all_eq_true, Bool.or_eq_true, Bool.not_eq_true', decide_eq_false_iff_not] at hred
  have hq := (hred p' hback).resolve_left (fun h => h hpr)
  cases hg : gotoState x.t (p' : Nat) (rule.lhs : Nat) with
  | none => rw [hg] at hq; cases hq
  | some q =>
    rw [hg] at hq
    simp only [Bool.and_eq_true, decide_eq_true_eq] at hq
    have hgo := hc.gotos p' hp' (rule.lhs - x.t.nTerms)
      (by have := hc.nTerms; have := hc.nSyms; omega)
    have e4 : x.t.nTerms + (rule.lhs - x.t.nTerms) = rule.lhs := by have := hc.nTerms; omega
    unfold gotoOk at hgo
    rw [e4, hg] at hgo
    simp only [Bool.or_eq_true, beq_iff_eq] at hgo
    rcases hgo with hgo | hgo
    · omega
    · obtain ⟨q', hq', _, hq2, hq3⟩ := edgeOk_elim hgo
      subst hq'
      have hE : NtEdge x.t p' rule.lhs (q' : Int) :=
        ⟨hp', by have := hc.nTerms; omega, by have := hc.nSyms; omega, hg, by omega⟩
      have hedge : (p', rule.lhs, (q' : Int)) ∈ xedges x :=
        List.mem_append_left _ (ntEdge_mem hE)
      refine ⟨rule, p', rest', q', hr0, hrule, hlen, hsym, hdrop, hg, ?_, ?_⟩
      · exact StOk.push q' p' rest' rule.lhs _ hrest hedge hq2 hq3
          ((hcl i hi).2 p' rule.lhs q' hedge hpr)
      · simpa using hq.2

end TmVerif.LRX
