/-
Helper lemmas for C07 soundness, part 2: the stack invariant (adapted from Proofs/LRSoundInv.lean).
-/
import TmVerif.Proofs.LRSoundK
namespace TmVerif.LRSoundK
open TmVerif.LR TmVerif.CFG TmVerif.LRSound

/-! ### the stack -/

/-- `StackOkK g t i stk s syms w`: `stk` (top first) was built from the entry state `i` along
edges of the automaton; `s` is the top state, `syms` the symbols (top first), `w` the
concatenated yields (bottom first), each symbol deriving its yield. -/
inductive StackOkK (g : Grammar) (t : Tables) (i : Nat) :
    List Entry → Nat → List Int → List Nat → Prop
  | base (e : Entry) : e.state = (i : Int) → StackOkK g t i [e] i [] []
  | push (e : Entry) (rest : List Entry) (p X q : Nat) (syms : List Int) (w y : List Nat) :
      StackOkK g t i rest p syms w → e.sym = (X : Int) → e.state = (q : Int) →
      EdgeK t p X (q : Int) → Derives g X y →
      StackOkK g t i (e :: rest) q ((X : Int) :: syms) (w ++ y)

theorem StackOkK.top {g : Grammar} {t : Tables} {i : Nat} {stk : List Entry} {s : Nat}
    {syms : List Int} {w : List Nat} (h : StackOkK g t i stk s syms w) :
    ∃ e rest, stk = e :: rest ∧ e.state = (s : Int) := by
  cases h with
  | base e he => exact ⟨e, [], rfl, he⟩
  | push e rest p X q syms w y _ _ hq _ _ => exact ⟨e, rest, rfl, hq⟩

theorem StackOkK.length {g : Grammar} {t : Tables} {i : Nat} {stk : List Entry} {s : Nat}
    {syms : List Int} {w : List Nat} (h : StackOkK g t i stk s syms w) :
    stk.length = syms.length + 1 := by
  induction h with
  | base e he => rfl
  | push e rest p X q syms w y _ _ _ _ _ ih => simp [ih]

theorem StackOkK.lt {g : Grammar} {t : Tables} {cert : Cert} {i : Nat} (hc : CertFactsK g t cert)
    (hi : i < g.inputs.size) {stk : List Entry} {s : Nat}
    {syms : List Int} {w : List Nat} (h : StackOkK g t i stk s syms w) : s < t.nStates := by
  cases h with
  | base e he => have := hc.nIn; omega
  | push e rest p X q syms w y _ _ _ hE _ =>
    obtain ⟨q', h1, _, h3, _⟩ := edgeOk_elim (edge_okK hc hE)
    omega

theorem StackOkK.past {g : Grammar} {t : Tables} {cert : Cert} {i : Nat} (hc : CertFactsK g t cert)
    (hi : i < g.inputs.size) {stk : List Entry} {s : Nat}
    {syms : List Int} {w : List Nat} (h : StackOkK g t i stk s syms w) :
    pastOf cert (s : Nat) <+: syms := by
  induction h with
  | base e he => rw [hc.pastEntry i hi]; exact List.nil_prefix
  | push e rest p X q syms w y _ _ _ hE _ ih =>
    obtain ⟨q', h1, _, _, h4⟩ := edgeOk_elim (edge_okK hc hE)
    have : q' = q := by omega
    subst this
    exact h4.trans ((List.prefix_cons_inj _).mpr ih)

/-- popping the entries of a right-hand side -/
theorem StackOkK.pop {g : Grammar} {t : Tables} {i : Nat} : ∀ (β : List Nat) (stk : List Entry)
    (s : Nat) (syms syms' : List Int) (w : List Nat),
    StackOkK g t i stk s syms w → syms = β.map Int.ofNat ++ syms' →
    ∃ s' w' v, StackOkK g t i (stk.drop β.length) s' syms' w' ∧ DerivesSeq g β.reverse v ∧
      w = w' ++ v
  | [], stk, s, syms, syms', w, h, e => by
    simp only [List.map_nil, List.nil_append] at e
    subst e
    exact ⟨s, w, [], by simpa using h, by simpa using DerivesSeq.nil, by simp⟩
  | X :: β, stk, s, syms, syms', w, h, e => by
    cases h with
    | base e0 he => simp at e
    | push e0 rest p X' q syms0 w0 y h0 hX hq hE hD =>
      simp only [List.map_cons, List.cons_append, List.cons.injEq] at e
      obtain ⟨e1, e2⟩ := e
      have : X' = X := by
        have : (X' : Int) = (X : Int) := e1
        omega
      subst this
      obtain ⟨s', w', v, h1, h2, h3⟩ := StackOkK.pop β rest p syms0 syms' w0 h0 e2
      refine ⟨s', w', v ++ y, by simpa using h1, ?_, by rw [h3, List.append_assoc]⟩
      rw [List.reverse_cons]
      exact derivesSeq_append _ _ _ _ h2 (derivesSeq_single hD)

def InvK (g : Grammar) (t : Tables) (i : Nat) (inp : Input) (c : Cfg) : Prop :=
  ∃ s syms, StackOkK g t i c.stack s syms (consumed inp (nshift c.evs)) ∧ c.state = (s : Int) ∧
    NextOk inp c (nshift c.evs)

theorem inv_initK (g : Grammar) (t : Tables) (i : Nat) (inp : Input) :
    InvK g t i inp (initCfg inp i) :=
  ⟨i, [], StackOkK.base _ rfl, rfl, by simp [NextOk, initCfg, nshift]⟩

/-- `decode` on a certified table with deep lookahead: the configuration only changes by a fetch,
and the action — whatever the lookahead automaton decided — is one the certificate has checked. -/
theorem decode_specK {g : Grammar} {t : Tables} {cert : Cert} {inp : Input}
    (hc : CertFactsK g t cert) (htok : TokOk t inp) (h0 : 0 < t.nTerms)
    (c c1 : Cfg) (act : Act) (s m : Nat) (hs : s < t.nStates) (hst : c.state = (s : Int))
    (hn : NextOk inp c m) (hd : decode t inp c = some (c1, act)) :
    c1.stack = c.stack ∧ c1.state = c.state ∧ c1.evs = c.evs ∧ NextOk inp c1 m ∧
    ((∃ a : Nat, c1.next = some (inp.tok m) ∧ (inp.tok m).sym = (a : Int) ∧ a < t.nTerms ∧
        needsTok t s = some true ∧
        (∀ q, act = .shift q → shiftOf t s a = some (.shift q)) ∧
        actOk g t cert s (some a, some act) = true) ∨
     (actOk g t cert s (none, some act) = true)) := by
  have hacts := hc.acts s hs
  unfold actsOk at hacts
  unfold decode at hd
  rw [hst] at hd
  cases hnt : needsTok t (s : Int) with
  | none => rw [hnt] at hd; cases hd
  | some b =>
    rw [hnt] at hd hacts
    cases b with
    | true =>
      simp only [Option.map_eq_some_iff] at hd
      obtain ⟨a', ha', he⟩ := hd
      obtain ⟨f1, f2, f3, f4, f5, f6⟩ := fetch_spec inp c m hn
      obtain ⟨a, ha1, ha2⟩ := tok_range htok h0 m
      injection he with e1 e2
      subst e1 e2
      refine ⟨f3, f4, f5, f6, Or.inl ⟨a, f2, ha1, ha2, rfl, ?_⟩⟩
      rw [f1, ha1] at ha'
      simp only [List.all_eq_true, List.mem_range] at hacts
      have hcell := hacts a ha2
      unfold cellOk at hcell
      cases hp : cellPtr t (s : Int) (a : Int) with
      | none =>
        rw [hp] at hcell
        simp only at hcell
        rw [actOf_ptr_none _ hp] at ha'
        rw [ha'] at hcell
        refine ⟨?_, hcell⟩
        intro q hq
        unfold shiftOf
        rw [hp]
        simp only
        rw [ha', hq]
      | some x =>
        rw [hp] at hcell
        simp only at hcell
        rw [actOf_ptr_some _ hp] at ha'
        split at ha'
        · cases ha'
        · rename_i r hr
          have hP := allLeaves_deepLA (P := fun r =>
              actOk g t cert s (some a, actOf t (fun _ => some r) (s : Int) (a : Int)))
            (fun j => tok_range htok h0 j) _ x _ _ r hcell hr
          rw [ha'] at hP
          refine ⟨?_, hP⟩
          intro q hq
          rw [hq] at ha'
          have hr1 := actOf_const_shift hp ha'
          unfold shiftOf
          rw [hp]
          simp only
          rw [← hr1]
          exact ha'
    | false =>
      simp only [Option.map_eq_some_iff] at hd
      obtain ⟨a', ha', he⟩ := hd
      injection he with e1 e2
      subst e1 e2
      refine ⟨rfl, rfl, rfl, hn, Or.inr ?_⟩
      simp only at hacts
      have e : actOf t noDeep s 0 = some a' := ha'
      rw [e] at hacts
      exact hacts

end TmVerif.LRSoundK
