import TmVerif.Proofs.LexSim
/-!
C09 helper lemmas, part 4: from the boolean validator to the statement about `Tables.Scan`; the characters of
a byte string are characters `Scan` can meet.
-/
namespace TmVerif.LexSpec
open TmVerif.Charset TmVerif.Regex TmVerif.LexTables

theorem checkDfa_closed (rules : List Rule) (t : Tables) (h : checkDfa rules t = true) :
    t.wf = true ∧ ∃ V, closedOk rules t V = true := by
  unfold checkDfa checkDfaV at h
  split at h
  · simp at h
  · rename_i hwf
    split at h
    · simp at h
    · rename_i V _
      split at h
      · rename_i hc
        exact ⟨by simpa using hwf, V, hc⟩
      · simp at h

theorem scan_eq_spec (rules : List Rule) (t : Tables) (hc : checkClasses rules t = true)
    (hd : checkDfa rules t = true) (he : noEoiShift t = true) (sc : Nat) (hsc : sc < t.stateMap.size)
    (chars : List (Int × Nat)) (hok : CharsOk t chars) :
    lexScanChars t (sc : Int) chars = some (scanSpec rules (sc : Int) chars) := by
  obtain ⟨hwf, V, hV⟩ := checkDfa_closed rules t hd
  have hV' := hV
  simp only [closedOk, Bool.and_eq_true] at hV'
  obtain ⟨⟨_, hst⟩, _⟩ := hV'
  unfold startsOk at hst
  have := List.all_eq_true.1 hst sc (List.mem_range.2 hsc)
  unfold lexScanChars getI
  rw [if_pos (by omega)]
  simp only [Int.toNat_natCast]
  cases hq : t.stateMap[sc]? with
  | none => rw [hq] at this; cases this
  | some q =>
    rw [hq] at this
    simp only [Bool.and_eq_true, List.contains_iff_mem, Option.isNone_iff_eq_none] at this
    obtain ⟨hm, hacc⟩ := this
    simp only
    unfold scanSpec
    apply scanLoop_eq rules t V hwf hc hV he chars hok q _ 0 none 0 0 hm (vecSub_initVec rules _)
    unfold Rel
    rw [hacc]
    exact Or.inl ⟨rfl, rfl⟩

/-! ### characters of a text -/

theorem charsOk_bytes (t : Tables) (hb : t.scanBytes = true) (text : List Nat) (h : ∀ b ∈ text, b < 256) :
    CharsOk t (charsOf true text) := by
  intro c hc
  simp only [charsOf, if_true, List.mem_map] at hc
  obtain ⟨b, hb', rfl⟩ := hc
  have := h b hb'
  simp only [maxRune, hb, if_true]
  omega

theorem decodeRune_range (inp : List Nat) (r : Int) (w : Nat) (h : decodeRune inp = some (r, w)) :
    0 ≤ r ∧ r ≤ 0x10FFFF ∧ 1 ≤ w := by
  unfold decodeRune at h
  simp only at h
  repeat' split at h
  all_goals (try cases h)
  all_goals
    try simp only [isCont, Bool.and_eq_true, decide_eq_true_eq, beq_iff_eq, Int.ofNat_eq_natCast] at *
  all_goals (refine ⟨by omega, ?_, by omega⟩)
  all_goals omega

theorem decodeText_ok (fuel : Nat) (text : List Nat) :
    ∀ c ∈ decodeText fuel text, 0 ≤ c.1 ∧ c.1 ≤ 0x10FFFF ∧ 1 ≤ c.2 := by
  induction fuel generalizing text with
  | zero => intro c hc; simp [decodeText] at hc
  | succ fuel ih =>
    intro c hc
    cases text with
    | nil => simp [decodeText] at hc
    | cons b rest =>
      simp only [decodeText] at hc
      split at hc
      · rename_i r w hd
        rcases List.mem_cons.1 hc with rfl | hc
        · exact decodeRune_range _ r w hd
        · exact ih _ c hc
      · rcases List.mem_cons.1 hc with rfl | hc
        · simp
        · exact ih _ c hc

theorem charsOk_runes (t : Tables) (hb : t.scanBytes = false) (text : List Nat) :
    CharsOk t (charsOf false text) := by
  intro c hc
  simp only [charsOf, Bool.false_eq_true, if_false] at hc
  have := decodeText_ok _ _ c hc
  simp only [maxRune, hb, Bool.false_eq_true, if_false]
  exact this

theorem charsOk_charsOf (t : Tables) (text : List Nat) (h : ∀ b ∈ text, b < 256) :
    CharsOk t (charsOf t.scanBytes text) := by
  cases hb : t.scanBytes with
  | true => exact charsOk_bytes t hb text h
  | false => exact charsOk_runes t hb text

end TmVerif.LexSpec
