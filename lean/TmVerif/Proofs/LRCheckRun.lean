/-
Helper lemmas for C05, part 3: an accepted `checkOptimized` lifts from cells to whole runs — the
runs of the default and of the displacement encoding of one table set proceed in lock step up to
the moment at which the lookahead token is fetched.
-/
import TmVerif.Proofs.LRCheckObs
namespace TmVerif.LRCheck
open TmVerif.LR

set_option quotPrecheck false in
local notation "D[" t "]" => ({ t with optimized := false } : Tables)
set_option quotPrecheck false in
local notation "O[" t "]" => ({ t with optimized := true } : Tables)

theorem cellOk_of_check (t : Tables) (dr : Bool) (h : checkOptimized t dr = true)
    (s a : Nat) (hs : s < t.nStates) (ha : a < t.nTerms) : cellOk t dr s a = true := by
  unfold checkOptimized at h
  simp only [List.all_eq_true, List.mem_range, Bool.and_eq_true] at h
  exact (h s hs).1 a ha

theorem gotoOk_of_check (t : Tables) (dr : Bool) (h : checkOptimized t dr = true)
    (s k : Nat) (hs : s < t.nStates) (hk : k < t.nSyms - t.nTerms) :
    gotoOk t s (t.nTerms + k) = true := by
  unfold checkOptimized at h
  simp only [List.all_eq_true, List.mem_range, Bool.and_eq_true] at h
  exact (h s hs).2 k hk

/-- what an accepted cell says about the two decoded actions -/
theorem cell_acts {t : Tables} {dr : Bool} (hchk : checkOptimized t dr = true)
    {s a : Nat} (hs : s < t.nStates) (ha : a < t.nTerms) :
    ∃ x, obsDefault t s a ≠ .bad ∧ (obsDefault t s a).toAct = some x ∧
      ((obsOpt t s a).toAct = some x ∨
       (dr = true ∧ x = .error ∧ ∃ r, (obsOpt t s a).toAct = some (.reduce r))) := by
  have h := cellOk_of_check t dr hchk s a hs ha
  unfold cellOk at h
  cases hd : obsDefault t s a with
  | bad => simp [hd] at h
  | shift q =>
    simp only [hd, beq_iff_eq] at h
    exact ⟨.shift q, by simp, rfl, Or.inl (by rw [h]; rfl)⟩
  | reduce r =>
    simp only [hd, beq_iff_eq] at h
    exact ⟨.reduce r, by simp, rfl, Or.inl (by rw [h]; rfl)⟩
  | errExplicit =>
    simp only [hd, beq_iff_eq] at h
    exact ⟨.error, by simp, rfl, Or.inl (by rw [h]; rfl)⟩
  | err =>
    simp only [hd, Bool.or_eq_true, beq_iff_eq, Bool.and_eq_true] at h
    refine ⟨.error, by simp, rfl, ?_⟩
    rcases h with h | ⟨⟨h1, _⟩, h3⟩
    · exact Or.inl (by rw [h]; rfl)
    · right
      refine ⟨h1, rfl, ?_⟩
      cases hm : mostFrequent t s with
      | none => simp [hm] at h3
      | some r =>
        simp only [hm, beq_iff_eq] at h3
        exact ⟨r, by rw [h3]; rfl⟩

/-! ### the invariant of the default run -/

def ValidState (t : Tables) (q : Int) : Prop := 0 ≤ q ∧ q < (t.nStates : Int)

/-- the stack is a path of the automaton -/
def StackPath (t : Tables) : List Entry → Prop
  | [] => True
  | e :: rest =>
    ValidState t e.state ∧
    (match rest with
     | [] => True
     | e' :: _ => 0 ≤ e.sym ∧ e.sym < (t.nSyms : Int) ∧ gotoDefault t e'.state e.sym = some e.state) ∧
    StackPath t rest

theorem StackPath.tail {t : Tables} {e : Entry} {rest : List Entry} (h : StackPath t (e :: rest)) :
    StackPath t rest := h.2.2

theorem StackPath.drop {t : Tables} : ∀ (n : Nat) {stk : List Entry}, StackPath t stk →
    StackPath t (stk.drop n)
  | 0, _, h => h
  | _ + 1, [], h => h
  | n + 1, _ :: _, h => StackPath.drop n h.tail

theorem StackPath.valid {t : Tables} : ∀ {stk : List Entry}, StackPath t stk → ∀ e ∈ stk,
    ValidState t e.state
  | [], _, _, he => by cases he
  | e0 :: rest, h, e, he => by
    rcases List.mem_cons.mp he with h1 | h1
    · subst h1; exact h.1
    · exact StackPath.valid h.tail e h1

structure CfgOk (t : Tables) (c : Cfg) : Prop where
  top : ∃ e rest, c.stack = e :: rest ∧ e.state = c.state
  path : StackPath t c.stack
  next : ∀ tk, c.next = some tk → 0 ≤ tk.sym ∧ tk.sym < (t.nTerms : Int)

theorem CfgOk.state {t : Tables} {c : Cfg} (h : CfgOk t c) : ValidState t c.state := by
  obtain ⟨e, rest, hs, he⟩ := h.top
  rw [← he]
  exact h.path.valid e (by rw [hs]; exact List.mem_cons_self)

theorem fetch_tok_in {t : Tables} {inp : Input} (hin : inputOk t inp = true) (h0 : 0 < t.nTerms)
    {c : Cfg} (h : CfgOk t c) :
    0 ≤ (c.fetch inp).2.sym ∧ (c.fetch inp).2.sym < (t.nTerms : Int) := by
  cases hn : c.next with
  | some tk => rw [fetch_some hn]; exact h.next tk hn
  | none => rw [fetch_none hn]; exact tok_in hin h0 _

theorem CfgOk.fetch {t : Tables} {inp : Input} (hin : inputOk t inp = true) (h0 : 0 < t.nTerms)
    {c : Cfg} (h : CfgOk t c) : CfgOk t (c.fetch inp).1 := by
  refine ⟨?_, ?_, ?_⟩
  · rw [fetch_stack, fetch_state]; exact h.top
  · rw [fetch_stack]; exact h.path
  · intro tk htk
    rw [fetch_next] at htk
    cases htk
    exact fetch_tok_in hin h0 h

/-- a reduction never finds the goto entry missing -/
def NoMiss (t : Tables) : Prop :=
  ∀ (stk : List Entry) (s a : Nat) (r ln lhs : Int) (e : Entry) (q : Int),
    StackPath t stk → (∃ e0 rest, stk = e0 :: rest ∧ e0.state = (s : Int)) → s < t.nStates →
    a < t.nTerms → obsDefault t s a = .reduce r → geti t.ruleLen r = some ln →
    geti t.ruleSymbol r = some lhs → (stk.drop ln.toNat).head? = some e →
    gotoDefault t e.state lhs = some q → 0 ≤ q

/-! ### one step -/

/-- outcome of one step of the default run against one step of the displacement run; `evsO` is
the trace of the displacement run before the step -/
inductive StepSim (t : Tables) (inp : Input) (dr : Bool) (evsO : List Ev) : Step → Step → Prop
  | cont (c c' : Cfg) : Eqv inp c c' → CfgOk t c → StepSim t inp dr evsO (.cont c) (.cont c')
  | done (r : Result) (c c' : Cfg) : Eqv inp c c' → StepSim t inp dr evsO (.done r c) (.done r c')
  | miss (c : Cfg) (s' : Step) : c.state = -1 → ¬ NoMiss t →
      StepSim t inp dr evsO (.done (.syntaxError 0 0) c) s'
  | dflt (c : Cfg) (s' : Step) : dr = true → c.evs = evsO →
      StepSim t inp dr evsO (.done (.syntaxError 0 0) c) s'

theorem reduce_sim {t : Tables} {dr : Bool} {inp : Input} (hchk : checkOptimized t dr = true)
    (hw : WfFacts t) (hin : inputOk t inp = true) {c1 c1' : Cfg} (he : Eqv inp c1 c1')
    (hok : CfgOk t c1) (evsO : List Ev) {s a : Nat} (hst : c1.state = (s : Int))
    (ha : a < t.nTerms) {r ln lhs : Int} (hobs : obsDefault t s a = .reduce r)
    (hln : geti t.ruleLen r = some ln) (hlhs : geti t.ruleSymbol r = some lhs) :
    StepSim t inp dr evsO (reduceWith inp c1 r ln.toNat lhs (fun p => gotoDefault t p lhs))
      (reduceWith inp c1' r ln.toNat lhs (fun p => gotoOpt t p lhs)) := by
  unfold reduceWith
  rw [← he.stack]
  split
  · exact .done _ _ _ he
  · obtain ⟨heP, hP2⟩ := redParts_congr he ln.toNat
    have hs1 : (redParts inp c1 ln.toNat).1.stack = c1.stack := redParts_stack _ _ _
    have hs2 : (redParts inp c1' ln.toNat).1.stack = c1.stack := by
      rw [redParts_stack, he.stack]
    simp only [hs1, hs2]
    cases hdrop : c1.stack.drop ln.toNat with
    | nil => exact .done _ _ _ heP
    | cons top rest =>
      simp only
      have hpd : StackPath t (top :: rest) := by rw [← hdrop]; exact hok.path.drop _
      have hv : ValidState t top.state := hpd.1
      obtain ⟨hl1, hl2⟩ := hw.ruleSym r lhs hlhs
      -- the goto cell of `checkOptimized`
      have hgo := gotoOk_of_check t dr hchk top.state.toNat (lhs.toNat - t.nTerms)
        (by have := hv.1; have := hv.2; omega) (by omega)
      have e1 : ((top.state.toNat : Nat) : Int) = top.state := by have := hv.1; omega
      have e2 : ((t.nTerms + (lhs.toNat - t.nTerms) : Nat) : Int) = lhs := by omega
      unfold gotoOk at hgo
      rw [e1, e2] at hgo
      cases hg : gotoDefault t top.state lhs with
      | none => simp [hg] at hgo
      | some q =>
        simp only [hg, Bool.or_eq_true, decide_eq_true_eq, beq_iff_eq] at hgo ⊢
        rcases goto_valid hw hg with hq | hq
        · -- the goto entry is missing
          subst hq
          simp only [if_true]
          refine .miss _ _ rfl ?_
          intro hnm
          obtain ⟨e0, rest0, hstk, he0⟩ := hok.top
          have := hnm c1.stack s a r ln lhs top (-1) hok.path ⟨e0, rest0, hstk, by rw [he0, hst]⟩
            (by have := hok.state; unfold ValidState at this; omega) ha hobs hln hlhs
            (by rw [hdrop]; rfl) hg
          omega
        · have hgo' : gotoOpt t top.state lhs = some q := by
            rcases hgo with h | h
            · omega
            · exact h
          have hq1 : q ≠ -1 := by omega
          simp only [hgo', hq1, if_false]
          refine .cont _ _ ?_ ?_
          · rw [hP2, heP.evs]
            exact heP.upd _ _ _
          · refine ⟨⟨_, _, rfl, rfl⟩, ⟨hq, ⟨?_, hl2, hg⟩, hpd⟩, ?_⟩
            · show 0 ≤ lhs
              omega
            intro tk htk
            rcases redParts_fst inp c1 ln.toNat with h | h
            · rw [h] at htk; exact hok.next tk htk
            · rw [h] at htk; exact (hok.fetch hin hw.nTermsPos).next tk htk

theorem obs_of_toAct_reduce {o : Obs} {r : Int} (h : o.toAct = some (.reduce r)) : o = .reduce r := by
  cases o <;> simp [Obs.toAct] at h
  subst h; rfl

theorem step_sim {t : Tables} {dr : Bool} {inp : Input} (hchk : checkOptimized t dr = true)
    (hw : WfFacts t) (hnb : ∀ s, s < t.nStates → NoBlindAt t s) (hin : inputOk t inp = true)
    {cD cO : Cfg} (he : Eqv inp cD cO) (hok : CfgOk t cD) :
    StepSim t inp dr cO.evs (step D[t] inp cD) (step O[t] inp cO) := by
  have hv := hok.state
  obtain ⟨hv0, hv1⟩ := hv
  obtain ⟨ht0, ht1⟩ := fetch_tok_in hin hw.nTermsPos hok
  generalize hs : cD.state.toNat = s at *
  generalize ha : (cD.fetch inp).2.sym.toNat = a at *
  have hsE : cD.state = (s : Int) := by omega
  have haE : (cD.fetch inp).2.sym = (a : Int) := by omega
  have hs' : s < t.nStates := by omega
  have ha' : a < t.nTerms := by omega
  obtain ⟨x, hb, hx, hopt⟩ := cell_acts hchk hs' ha'
  have hD : ∀ deep, actOf D[t] deep cD.state (cD.fetch inp).2.sym = some x := by
    intro deep
    rw [hsE, haE, actOf_default_obs t s a deep (hw.lalr s hs') hb, hx]
  obtain ⟨c1, hdec, hc1, hc1n⟩ := decode_of_act hD
  have he1 : Eqv inp c1 cD := by
    rcases hc1 with h | h <;> rw [h]
    · exact Eqv.refl _ _
    · exact eqv_fetch_left _ _
  have hok1 : CfgOk t c1 := by
    rcases hc1 with h | h <;> rw [h]
    · exact hok
    · exact hok.fetch hin hw.nTermsPos
  have hst1 : c1.state = (s : Int) := by rw [he1.state, hsE]
  have hstep : step D[t] inp cD = apply D[t] inp c1 x := by unfold step; rw [hdec]
  rw [hstep]
  rcases hopt with hopt | ⟨hdr, hxe, _⟩
  · have hO : ∀ deep, actOf O[t] deep cO.state (cO.fetch inp).2.sym = some x := by
      intro deep
      rw [← he.state, ← he.tok, hsE, haE, actOf_opt_obs, hopt]
    obtain ⟨c1', hdec', hc1', hc1n'⟩ := decode_of_act hO
    have he1' : Eqv inp c1' cO := by
      rcases hc1' with h | h <;> rw [h]
      · exact Eqv.refl _ _
      · exact eqv_fetch_left _ _
    have hee : Eqv inp c1 c1' := by
      unfold Eqv at *; rw [he1, he1', he]
    have hstep' : step O[t] inp cO = apply O[t] inp c1' x := by unfold step; rw [hdec']
    rw [hstep']
    cases x with
    | error =>
      rw [apply, apply]
      exact .done _ _ _ hee
    | shift q =>
      have hDq := hD (fun _ => none)
      rw [hsE, haE] at hDq
      obtain ⟨hg, hq0, hnt⟩ := actOf_default_shift hDq
      have hOq := hO (fun _ => none)
      rw [← he.state, hsE] at hOq
      have hnt' := actOf_opt_shift (hnb s hs') hOq
      have h1 : c1 = (cD.fetch inp).1 := hc1n (by rw [hsE]; exact hnt)
      have h1' : c1' = (cO.fetch inp).1 := hc1n' (by rw [← he.state, hsE]; exact hnt')
      have hcc : c1' = c1 := by rw [h1, h1']; exact he.symm
      have hnx : c1.next = some (cD.fetch inp).2 := by rw [h1]; exact fetch_next _ _
      rw [hcc, apply, apply, hnx]
      simp only
      refine .cont _ _ (Eqv.refl _ _) ?_
      obtain ⟨e0, rest0, hstk, he0⟩ := hok1.top
      have hqv : ValidState t q := by
        rcases goto_valid hw hg with h | h
        · omega
        · exact h
      refine ⟨⟨_, _, rfl, rfl⟩, ?_, ?_⟩
      · simp only
        rw [hstk]
        refine ⟨hqv, ⟨ht0, ?_, ?_⟩, ?_⟩
        · show (cD.fetch inp).2.sym < (t.nSyms : Int)
          have := hw.nTermsLe; omega
        · show gotoDefault t e0.state (cD.fetch inp).2.sym = some q
          rw [he0, hst1, haE]; exact hg
        · rw [← hstk]; exact hok1.path
      · intro tk htk
        simp only at htk
        split at htk
        · cases htk
        · cases htk; exact ⟨ht0, ht1⟩
    | reduce r =>
      rw [apply_reduce, apply_reduce]
      show StepSim t inp dr cO.evs
        (match geti t.ruleLen r, geti t.ruleSymbol r with
          | some ln, some lhs => reduceWith inp c1 r ln.toNat lhs (fun p => gotoDefault t p lhs)
          | _, _ => .done .panic c1)
        (match geti t.ruleLen r, geti t.ruleSymbol r with
          | some ln, some lhs => reduceWith inp c1' r ln.toNat lhs (fun p => gotoOpt t p lhs)
          | _, _ => .done .panic c1')
      cases hln : geti t.ruleLen r with
      | none => cases geti t.ruleSymbol r <;> exact .done _ _ _ hee
      | some ln =>
        cases hlhs : geti t.ruleSymbol r with
        | none => exact .done _ _ _ hee
        | some lhs =>
          exact reduce_sim hchk hw hin hee hok1 _ hst1 ha' (obs_of_toAct_reduce hx) hln hlhs
  · subst hxe
    rw [apply]
    refine .dflt _ _ hdr ?_
    rw [he1.evs, he.evs]

/-! ### whole runs -/

theorem errorAt_eqv {inp : Input} {c c' : Cfg} (h : Eqv inp c c') :
    (errorAt inp c).1 = (errorAt inp c').1 ∧ (errorAt inp c).2.evs = (errorAt inp c').2.evs := by
  unfold errorAt
  rw [h.fetch_eq]
  exact ⟨rfl, rfl⟩

/-- result of the comparison of two runs -/
def RunSim (t : Tables) (dr : Bool) (R1 R2 : Result × Cfg) : Prop :=
  (R1.1 = R2.1 ∧ R1.2.evs = R2.2.evs) ∨ (R1.2.state = -1 ∧ ¬ NoMiss t) ∨
  (dr = true ∧ (∃ o e, R1.1 = .syntaxError o e) ∧ R1.2.evs <:+ R2.2.evs)

theorem runLoop_sim {t : Tables} {dr : Bool} {inp : Input} (hchk : checkOptimized t dr = true)
    (hw : WfFacts t) (hnb : ∀ s, s < t.nStates → NoBlindAt t s) (hin : inputOk t inp = true)
    (fin : Int) : ∀ (fuel : Nat) (cD cO : Cfg), Eqv inp cD cO → CfgOk t cD →
      RunSim t dr (runLoop D[t] inp fin fuel cD) (runLoop O[t] inp fin fuel cO)
  | 0, cD, cO, he, _ => by
    rw [runLoop, runLoop]
    exact Or.inl ⟨rfl, he.evs⟩
  | fuel + 1, cD, cO, he, hok => by
    have hmono := runLoop_evs O[t] inp fin (fuel + 1) cO
    rw [runLoop, runLoop] at *
    rw [← he.state] at *
    split
    · exact Or.inl ⟨rfl, he.evs⟩
    · rename_i hne
      rw [if_neg hne] at hmono
      have hs := step_sim hchk hw hnb hin he hok
      generalize step D[t] inp cD = s1 at hs
      generalize step O[t] inp cO = s2 at hs hmono
      cases hs with
      | cont c c' hee hokc => exact runLoop_sim hchk hw hnb hin fin fuel c c' hee hokc
      | done r c c' hee =>
        cases r with
        | syntaxError o e =>
          simp only
          obtain ⟨h1, h2⟩ := errorAt_eqv hee
          exact Or.inl ⟨h1, h2⟩
        | accept => exact Or.inl ⟨rfl, hee.evs⟩
        | panic => exact Or.inl ⟨rfl, hee.evs⟩
        | fuel => exact Or.inl ⟨rfl, hee.evs⟩
      | miss c s' hst hnm =>
        simp only
        refine Or.inr (Or.inl ⟨?_, hnm⟩)
        unfold errorAt
        simp only [fetch_state, hst]
      | dflt c s' hdr hev =>
        simp only
        refine Or.inr (Or.inr ⟨hdr, ⟨_, _, by unfold errorAt; rfl⟩, ?_⟩)
        rw [errorAt_evs, hev]
        exact hmono

theorem cfgOk_init {t : Tables} {inp : Input} (hw : WfFacts t) (hin : inputOk t inp = true)
    {i : Nat} (hi : i < t.nStates) : CfgOk t (initCfg inp i) := by
  refine ⟨⟨_, _, rfl, rfl⟩, ⟨⟨by simp, by simpa using hi⟩, trivial, trivial⟩, ?_⟩
  intro tk htk
  simp only [initCfg, Option.some.injEq] at htk
  subst htk
  exact tok_in hin hw.nTermsPos 0

theorem run_sim {t : Tables} {dr : Bool} {inp : Input} (hchk : checkOptimized t dr = true)
    (hwf : tablesWf t = true) (hnb : noBlindShift t = true) (hin : inputOk t inp = true)
    (i fuel : Nat) : RunSim t dr (run D[t] inp i fuel) (run O[t] inp i fuel) := by
  have hw := wfFacts hwf
  unfold run
  show RunSim t dr
    (match t.finalStates[i]? with
      | none => (.panic, initCfg inp i)
      | some fin => runLoop D[t] inp fin fuel (initCfg inp i))
    (match t.finalStates[i]? with
      | none => (.panic, initCfg inp i)
      | some fin => runLoop O[t] inp fin fuel (initCfg inp i))
  cases hf : t.finalStates[i]? with
  | none => exact Or.inl ⟨rfl, rfl⟩
  | some fin =>
    have hi : i < t.finalStates.size := by
      rcases Nat.lt_or_ge i t.finalStates.size with h | h
      · exact h
      · rw [Array.getElem?_eq_none h] at hf; cases hf
    exact runLoop_sim hchk hw (noBlindFacts hnb) hin fin fuel _ _ (Eqv.refl _ _)
      (cfgOk_init hw hin (by have := hw.fin; omega))

/-! ### the goto certificate excludes missing goto entries -/

theorem backAll_sound {t : Tables} {preds : Array (List Nat)} (hp : predsOk t preds = true)
    (P : Nat → Bool) : ∀ (n : Nat) (stk : List Entry) (s : Nat), StackPath t stk →
      (∃ e0 rest, stk = e0 :: rest ∧ e0.state = (s : Int)) → backAll preds P n s = true →
      ∀ e, (stk.drop n).head? = some e → ∃ p : Nat, e.state = (p : Int) ∧ P p = true
  | 0, stk, s, _, ⟨e0, rest, hstk, he0⟩, hb, e, he => by
    subst hstk
    simp only [List.drop_zero, List.head?_cons, Option.some.injEq] at he
    subst he
    exact ⟨s, he0, hb⟩
  | n + 1, stk, s, hpath, ⟨e0, rest, hstk, he0⟩, hb, e, he => by
    subst hstk
    simp only [List.drop_succ_cons] at he
    cases rest with
    | nil => simp at he
    | cons e1 rest' =>
      obtain ⟨_, ⟨hx0, hx1, hg⟩, hrest⟩ := hpath
      have hv1 : ValidState t e1.state := hrest.1
      obtain ⟨hv10, hv11⟩ := hv1
      have hp' := hp
      unfold predsOk at hp'
      simp only [List.all_eq_true, List.mem_range] at hp'
      have := hp' e1.state.toNat (by omega) e0.sym.toNat (by omega)
      have e1E : ((e1.state.toNat : Nat) : Int) = e1.state := by omega
      have e0E : ((e0.sym.toNat : Nat) : Int) = e0.sym := by omega
      rw [e1E, e0E, hg, he0] at this
      simp only [Bool.or_eq_true, decide_eq_true_eq, Int.toNat_natCast, List.contains_eq_mem,
        decide_eq_true_eq] at this
      have hmem : e1.state.toNat ∈ preds.getD s [] := by
        rcases this with h | h
        · omega
        · exact h
      rw [backAll] at hb
      simp only [List.all_eq_true] at hb
      exact backAll_sound hp P n (e1 :: rest') e1.state.toNat hrest ⟨e1, rest', rfl, e1E.symm⟩
        (hb _ hmem) e he

theorem noMiss_of_gotoClosed {t : Tables} {preds : Array (List Nat)}
    (h : gotoClosed t preds = true) : NoMiss t := by
  unfold gotoClosed at h
  simp only [Bool.and_eq_true, List.all_eq_true, List.mem_range] at h
  obtain ⟨hp, hall⟩ := h
  intro stk s a r ln lhs e q hpath htop hs ha hobs hln hlhs he hg
  have := hall s hs a ha
  rw [hobs] at this
  simp only [ruleGotoOk, hln, hlhs] at this
  obtain ⟨p, hpe, hP⟩ := backAll_sound hp _ ln.toNat stk s hpath htop this e he
  rw [← hpe, hg] at hP
  simpa using hP

end TmVerif.LRCheck
