import TmVerif.Proofs.GraphBasic
/-!
Helper lemmas for C26: `LongestPath` (path.go). The DFS is proved by induction on the fuel with
  * `Inv`   — finished vertices carry a local certificate `Cert` (height = 1 + max over successors,
              link realises the maximum) unless the `cycle` flag is set; the flag is only set when a
              cycle really exists (every active vertex reaches the vertex being entered);
  * `Ext`   — a call never touches finished or active vertices and creates no active vertex;
  * fuel    — strictly more fuel than unvisited vertices always suffices (`len+1` at top level).
From the certificates: the graph is acyclic, following links yields a walk with `height` vertices,
and no walk from `v` has more than `height v` vertices.
-/
namespace TmVerif.Graph
open Relation
/-! accessors -/
theorem LP.height_set (s : LP) (i v : Nat) (d : Int × Option Nat) (c : Bool) :
    (LP.mk (s.data.set i d) c).height v = if v = i ∧ i < s.data.length then d.1 else s.height v := by
  unfold LP.height
  simp only [List.getElem?_set]
  by_cases h1 : i = v
  · subst h1
    by_cases h2 : i < s.data.length <;> simp [h2]
  · have : ¬ v = i := fun h => h1 h.symm
    simp [h1, this]

theorem LP.link_set (s : LP) (i v : Nat) (d : Int × Option Nat) (c : Bool) :
    (LP.mk (s.data.set i d) c).link v = if v = i ∧ i < s.data.length then d.2 else s.link v := by
  unfold LP.link
  simp only [List.getElem?_set]
  by_cases h1 : i = v
  · subst h1
    by_cases h2 : i < s.data.length <;> simp [h2]
  · have : ¬ v = i := fun h => h1 h.symm
    simp [h1, this]

/-- number of vertices with height 0 -/
def LP.whites (s : LP) : Nat := s.data.countP (fun d => d.1 == 0)

theorem LP.whites_set (s : LP) (i : Nat) (d : Int × Option Nat) (c : Bool) (hi : i < s.data.length) :
    (LP.mk (s.data.set i d) c).whites + (if s.height i = 0 then 1 else 0)
      = s.whites + (if d.1 = 0 then 1 else 0) := by
  unfold LP.whites LP.height
  simp only [List.countP_set hi, List.getElem?_eq_getElem hi, Option.getD_some, beq_iff_eq]
  have : (if s.data[i].1 = 0 then 1 else 0) ≤ List.countP (fun d => d.1 == 0) s.data := by
    split
    · apply List.countP_pos_iff.2
      exact ⟨s.data[i], List.getElem_mem hi, by simpa using ‹_›⟩
    · omega
  omega

/-- local certificate of a finished vertex: its height is 1 + the maximum over its successors
(all finished), and its link is a successor realising the maximum (none for a sink) -/
def Cert (g : Graph) (s : LP) (v : Nat) : Prop :=
  1 ≤ s.height v ∧
  (∀ w ∈ succs g v, 1 ≤ s.height w ∧ s.height w + 1 ≤ s.height v) ∧
  ((s.height v = 1 ∧ s.link v = none) ∨
    ∃ w ∈ succs g v, s.link v = some w ∧ s.height v = s.height w + 1)

theorem Cert.congr {g : Graph} {s s' : LP} {v : Nat}
    (h : ∀ x, 1 ≤ s.height x → s'.height x = s.height x ∧ s'.link x = s.link x)
    (c : Cert g s v) : Cert g s' v := by
  obtain ⟨c1, c2, c3⟩ := c
  have hv := h v c1
  refine ⟨by omega, ?_, ?_⟩
  · intro w hw
    have := c2 w hw
    have hw' := h w this.1
    omega
  · rcases c3 with ⟨a, b⟩ | ⟨w, hw, a, b⟩
    · left; exact ⟨by omega, by rw [hv.2]; exact b⟩
    · right
      have hw' := h w (c2 w hw).1
      exact ⟨w, hw, by rw [hv.2]; exact a, by omega⟩

structure Inv (g : Graph) (s : LP) : Prop where
  len : s.data.length = g.length
  ge : ∀ v, -1 ≤ s.height v
  cert : s.cycle = false → ∀ v, 1 ≤ s.height v → Cert g s v
  cyc : s.cycle = true → ∃ v, TransGen (Edge g) v v

/-- `s'` extends `s`: finished and active vertices are untouched, no new active vertex -/
structure Ext (s s' : LP) : Prop where
  frameH : ∀ v, s.height v ≠ 0 → s'.height v = s.height v
  frameL : ∀ v, s.height v ≠ 0 → s'.link v = s.link v
  nogray : ∀ v, s'.height v = -1 → s.height v = -1
  whites : s'.whites ≤ s.whites
  cyc : s.cycle = true → s'.cycle = true

theorem Ext.refl (s : LP) : Ext s s := ⟨fun _ _ => rfl, fun _ _ => rfl, fun _ h => h, Nat.le_refl _, fun h => h⟩

theorem Ext.trans {a b c : LP} (h1 : Ext a b) (h2 : Ext b c) : Ext a c := by
  refine ⟨?_, ?_, ?_, Nat.le_trans h2.whites h1.whites, fun h => h2.cyc (h1.cyc h)⟩
  · intro v hv
    have e1 := h1.frameH v hv
    rw [h2.frameH v (by rw [e1]; exact hv), e1]
  · intro v hv
    have e1 := h1.frameH v hv
    rw [h2.frameL v (by rw [e1]; exact hv), h1.frameL v hv]
  · intro v hv
    exact h1.nogray v (h2.nogray v hv)

/-- what one call `dfs(i)` guarantees -/
def DfsSpec (g : Graph) (fuel : Nat) : Prop :=
  ∀ i s, i < g.length → Inv g s → s.whites < fuel →
    (∀ u, s.height u = -1 → TransGen (Edge g) u i) →
    Inv g (dfs g fuel i s) ∧ Ext s (dfs g fuel i s) ∧
      (s.height i ≠ -1 → 1 ≤ (dfs g fuel i s).height i) ∧
      (s.height i = -1 → (dfs g fuel i s).cycle = true)

structure LInv (g : Graph) (s1 : LP) (done : List Nat) (acc : LP × (Int × Option Nat)) : Prop where
  inv : Inv g acc.1
  ext : Ext s1 acc.1
  ret1 : 1 ≤ acc.2.1
  le : acc.1.cycle = false → ∀ w ∈ done, 1 ≤ acc.1.height w ∧ acc.1.height w + 1 ≤ acc.2.1
  arg : acc.1.cycle = false →
    (acc.2 = (1, none) ∨ ∃ w ∈ done, acc.2.2 = some w ∧ acc.2.1 = acc.1.height w + 1)

theorem foldl_inv {α β : Type} (P : List α → β → Prop) (f : β → α → β) (l : List α) :
    ∀ (done : List α) (b : β), P done b →
      (∀ done x b, x ∈ l → P done b → P (done ++ [x]) (f b x)) → P (done ++ l) (l.foldl f b) := by
  induction l with
  | nil => intro done b h _; simpa using h
  | cons x l ih =>
    intro done b h hs
    have := ih (done ++ [x]) (f b x) (hs done x b (by simp) h)
      (fun d y b hy hp => hs d y b (by simp [hy]) hp)
    simpa using this

theorem dfs_loop {g : Graph} (hwf : Wf g) {fuel : Nat} (ih : DfsSpec g fuel) {i : Nat}
    {s1 : LP} (hreach : ∀ u, s1.height u = -1 → u = i ∨ TransGen (Edge g) u i)
    (hw : s1.whites < fuel) (es : List Nat) (hes : ∀ w ∈ es, w ∈ succs g i)
    (done : List Nat) (acc : LP × (Int × Option Nat)) (h0 : LInv g s1 done acc) :
    LInv g s1 (done ++ es) (es.foldl (dfsStep (dfs g fuel)) acc) := by
  apply foldl_inv (LInv g s1) (dfsStep (dfs g fuel)) es done acc h0
  intro done next acc hnext hl
  obtain ⟨t, ret⟩ := acc
  have hedge : Edge g i next := hes next hnext
  have hn : next < g.length := hwf _ _ hedge
  obtain ⟨p1, p2, p3, p4⟩ := ih next t hn hl.inv (Nat.lt_of_le_of_lt hl.ext.whites hw) (by
    intro u hu
    rcases hreach u (hl.ext.nogray u hu) with rfl | p
    · exact .single hedge
    · exact .tail p hedge)
  have hcyc : (dfs g fuel next t).cycle = false → t.cycle = false := by
    intro h
    cases hc : t.cycle
    · rfl
    · rw [p2.cyc hc] at h; cases h
  have hle' : (dfs g fuel next t).cycle = false → ∀ w ∈ done ++ [next],
      1 ≤ (dfs g fuel next t).height w ∧
        ((dfs g fuel next t).height w + 1 ≤ ret.1 ∨ w = next) := by
    intro hc w hw
    simp only [List.mem_append, List.mem_singleton] at hw
    rcases hw with hw | rfl
    · have := hl.le (hcyc hc) w hw
      simp only at this
      rw [p2.frameH w (by omega)]
      exact ⟨this.1, .inl this.2⟩
    · refine ⟨?_, .inr rfl⟩
      apply p3
      intro hneg
      rw [p4 hneg] at hc
      cases hc
  simp only [dfsStep]
  split
  · rename_i hge
    refine ⟨p1, hl.ext.trans p2, ?_, ?_, ?_⟩
    · have := hl.ret1; simp only at this ⊢; omega
    · intro hc w hw
      have := hle' hc w hw
      simp only at hge ⊢
      rcases this with ⟨a, b | rfl⟩
      · exact ⟨a, by omega⟩
      · exact ⟨a, by omega⟩
    · intro _
      right
      exact ⟨next, by simp, rfl, rfl⟩
  · rename_i hge
    refine ⟨p1, hl.ext.trans p2, hl.ret1, ?_, ?_⟩
    · intro hc w hw
      have := hle' hc w hw
      simp only at hge ⊢
      rcases this with ⟨a, b | rfl⟩
      · exact ⟨a, b⟩
      · exact ⟨a, by omega⟩
    · intro hc
      rcases hl.arg (hcyc hc) with h | ⟨w, hw, a, b⟩
      · exact .inl h
      · right
        refine ⟨w, by simp [hw], a, ?_⟩
        have := hl.le (hcyc hc) w hw
        simp only at this a b ⊢
        rw [p2.frameH w (by omega)]
        exact b

theorem LP.height_cycle (s : LP) (c : Bool) (v : Nat) : (LP.mk s.data c).height v = s.height v := rfl
theorem LP.link_cycle (s : LP) (c : Bool) (v : Nat) : (LP.mk s.data c).link v = s.link v := rfl

theorem dfs_spec {g : Graph} (hwf : Wf g) : ∀ fuel, DfsSpec g fuel := by
  intro fuel
  induction fuel with
  | zero => intro i s _ _ hw; omega
  | succ fuel ih =>
    intro i s hi hinv hw hgray
    simp only [dfs]
    by_cases h0 : s.height i = 0
    · -- white vertex: the loop
      simp only [h0, ne_eq, not_true_eq_false, if_false]
      have hilen : i < s.data.length := by rw [hinv.len]; exact hi
      -- s1
      have hs1H : ∀ v, (LP.mk (s.data.set i (-1, s.link i)) s.cycle).height v = if v = i then -1 else s.height v := by
        intro v; rw [LP.height_set]; simp [hilen]
      have hs1L : ∀ v, (LP.mk (s.data.set i (-1, s.link i)) s.cycle).link v = s.link v := by
        intro v; rw [LP.link_set]
        split
        · rename_i h; rw [h.1]
        · rfl
      generalize hs1 : (LP.mk (s.data.set i (-1, s.link i)) s.cycle) = s1 at hs1H hs1L
      have hs1w : s1.whites + 1 = s.whites := by
        have := LP.whites_set s i (-1, s.link i) s.cycle hilen
        rw [hs1] at this
        simp [h0] at this
        omega
      have hs1inv : Inv g s1 := by
        refine ⟨by rw [← hs1]; simp [hinv.len], ?_, ?_, ?_⟩
        · intro v; rw [hs1H]; split; omega; exact hinv.ge v
        · intro hc v hv
          have hc' : s.cycle = false := by rw [← hs1] at hc; exact hc
          rw [hs1H] at hv
          split at hv
          · omega
          · apply (hinv.cert hc' v hv).congr
            intro x hx
            have : x ≠ i := by intro h; rw [h] at hx; omega
            rw [hs1H, hs1L]; simp [this]
        · intro hc; apply hinv.cyc; rw [← hs1] at hc; exact hc
      have hl0 : LInv g s1 [] (s1, (1, none)) :=
        ⟨hs1inv, Ext.refl s1, Int.le_refl 1, fun _ w hw => (by cases hw), fun _ => .inl rfl⟩
      have hloop := dfs_loop hwf ih (i := i) (s1 := s1) (by
          intro u hu
          rw [hs1H] at hu
          split at hu
          · left; assumption
          · right; exact hgray u hu) (by omega) (succs g i) (fun w hw => hw) [] _ hl0
      simp only [List.nil_append] at hloop
      generalize (succs g i).foldl (dfsStep (dfs g fuel)) (s1, (1, none)) = r at hloop
      obtain ⟨t, ret⟩ := r
      obtain ⟨linv, lext, lret, lle, larg⟩ := hloop
      simp only at linv lext lret lle larg ⊢
      have hti : t.height i = -1 := by
        rw [lext.frameH i (by rw [hs1H]; simp), hs1H]; simp
      have htlen : i < t.data.length := by rw [linv.len]; exact hi
      have hH : ∀ v, (LP.mk (t.data.set i ret) t.cycle).height v = if v = i then ret.1 else t.height v := by
        intro v; rw [LP.height_set]; simp [htlen]
      have hL : ∀ v, (LP.mk (t.data.set i ret) t.cycle).link v = if v = i then ret.2 else t.link v := by
        intro v; rw [LP.link_set]; simp [htlen]
      have hsame : ∀ x, 1 ≤ t.height x →
          (LP.mk (t.data.set i ret) t.cycle).height x = t.height x ∧
          (LP.mk (t.data.set i ret) t.cycle).link x = t.link x := by
        intro x hx
        have : x ≠ i := by intro h; rw [h] at hx; omega
        rw [hH, hL]; simp [this]
      refine ⟨⟨?_, ?_, ?_, ?_⟩, ⟨?_, ?_, ?_, ?_, ?_⟩, ?_, ?_⟩
      · simp [linv.len]
      · intro v; rw [hH]; split; omega; exact linv.ge v
      · intro hc v hv
        have hc : t.cycle = false := hc
        by_cases hvi : v = i
        · subst hvi
          refine ⟨hv, ?_, ?_⟩
          · intro w hw
            have := lle hc w hw
            rw [(hsame w this.1).1, hH]
            simp only [if_true]
            exact this
          · rcases larg hc with h | ⟨w, hw, a, b⟩
            · left; rw [hH, hL]; simp [h]
            · right
              have := lle hc w hw
              refine ⟨w, hw, ?_, ?_⟩
              · rw [hL]; simp [a]
              · rw [(hsame w this.1).1, hH]; simp [b]
        · rw [hH] at hv
          simp only [hvi, if_false] at hv
          exact (linv.cert hc v hv).congr hsame
      · intro hc; exact linv.cyc hc
      · intro v hv
        have hvi : v ≠ i := by intro h; rw [h] at hv; exact hv h0
        rw [hH]; simp only [hvi, if_false]
        rw [lext.frameH v (by rw [hs1H]; simp [hvi, hv]), hs1H]; simp [hvi]
      · intro v hv
        have hvi : v ≠ i := by intro h; rw [h] at hv; exact hv h0
        rw [hL]; simp only [hvi, if_false]
        rw [lext.frameL v (by rw [hs1H]; simp [hvi, hv]), hs1L]
      · intro v hv
        rw [hH] at hv
        split at hv
        · omega
        · rename_i hvi
          have := lext.nogray v hv
          rw [hs1H] at this
          simpa [hvi] using this
      · have := LP.whites_set t i ret t.cycle htlen
        have h2 := lext.whites
        simp [hti] at this
        have h3 : ¬ ret.1 = 0 := by omega
        simp [h3] at this
        omega
      · intro hc
        apply lext.cyc
        rw [← hs1]; exact hc
      · intro _; rw [hH]; simp; exact lret
      · intro h; omega
    · simp only [ne_eq, h0, not_false_eq_true, if_true]
      by_cases h1 : s.height i = -1
      · rw [if_pos h1]
        refine ⟨⟨hinv.len, hinv.ge, ?_, ?_⟩, ⟨fun _ _ => rfl, fun _ _ => rfl, fun _ h => h, Nat.le_refl _, fun _ => rfl⟩, ?_, ?_⟩
        · intro hc; cases hc
        · intro _; exact ⟨i, hgray i h1⟩
        · intro h; exact absurd h1 h
        · intro _; rfl
      · rw [if_neg h1]
        refine ⟨hinv, Ext.refl s, ?_, ?_⟩
        · intro _; have := hinv.ge i; omega
        · intro h; exact absurd h h1

/-- a walk of the graph, as its list of vertices -/
def IsPath (g : Graph) : List Nat → Prop
  | [] => True
  | [a] => a < g.length
  | a :: b :: rest => Edge g a b ∧ IsPath g (b :: rest)

structure TopInv (g : Graph) (k : Nat) (acc : LP × Option Nat) : Prop where
  inv : Inv g acc.1
  nogray : ∀ v, acc.1.height v ≠ -1
  black : ∀ v, v < k → 1 ≤ acc.1.height v
  first0 : k = 0 → acc.2 = none
  first : 0 < k → ∃ f, acc.2 = some f ∧ f < k ∧ ∀ v, v < k → acc.1.height v ≤ acc.1.height f

theorem LP.whites_le (s : LP) : s.whites ≤ s.data.length := List.countP_le_length

theorem lpInit_height (g : Graph) (v : Nat) : (lpInit g).1.height v = 0 := by
  simp only [lpInit, LP.height, List.getElem?_replicate]
  split <;> rfl

theorem topInv_init (g : Graph) : TopInv g 0 (lpInit g) := by
  refine ⟨⟨by simp [lpInit], ?_, ?_, ?_⟩, ?_, ?_, fun _ => rfl, fun h => absurd h (Nat.lt_irrefl 0)⟩
  · intro v; rw [lpInit_height]; omega
  · intro _ v hv; rw [lpInit_height] at hv; omega
  · intro h; simp [lpInit] at h
  · intro v; rw [lpInit_height]; omega
  · intro v hv; omega

theorem topInv_step {g : Graph} (hwf : Wf g) (k : Nat) (hk : k < g.length) (acc : LP × Option Nat)
    (h : TopInv g k acc) : TopInv g (k + 1) (lpStep g k acc) := by
  obtain ⟨s, first⟩ := acc
  obtain ⟨hinv, hng, hbl, hf0, hf⟩ := h
  simp only at hinv hng hbl hf0 hf
  obtain ⟨p1, p2, p3, _⟩ := dfs_spec hwf (g.length + 1) k s hk hinv
    (by have := s.whites_le; rw [hinv.len] at this; omega)
    (fun u hu => absurd hu (hng u))
  have p3 := p3 (hng k)
  have hng' : ∀ v, (dfs g (g.length + 1) k s).height v ≠ -1 := fun v hv => hng v (p2.nogray v hv)
  have hbl' : ∀ v, v < k + 1 → 1 ≤ (dfs g (g.length + 1) k s).height v := by
    intro v hv
    by_cases hvk : v = k
    · subst hvk; exact p3
    · have := hbl v (by omega)
      rw [p2.frameH v (by omega)]; exact this
  have hkeep : ∀ v, v < k → (dfs g (g.length + 1) k s).height v = s.height v := by
    intro v hv
    have := hbl v hv
    exact p2.frameH v (by omega)
  simp only [lpStep]
  cases first with
  | none =>
    have hk0 : k = 0 := by
      rcases Nat.eq_zero_or_pos k with h | h
      · exact h
      · obtain ⟨f, hf1, _⟩ := hf h; cases hf1
    subst hk0
    refine ⟨p1, hng', hbl', fun h => by omega, fun _ => ⟨0, rfl, by omega, ?_⟩⟩
    intro v hv
    have : v = 0 := by omega
    subst this
    exact Int.le_refl _
  | some f =>
    have hkpos : 0 < k := by
      rcases Nat.eq_zero_or_pos k with h | h
      · have := hf0 h; cases this
      · exact h
    obtain ⟨f', hf1, hf2, hf3⟩ := hf hkpos
    cases hf1
    simp only
    split
    · rename_i hlt
      refine ⟨p1, hng', hbl', fun h => by omega, fun _ => ⟨k, rfl, by omega, ?_⟩⟩
      intro v hv
      dsimp only
      by_cases hvk : v = k
      · subst hvk; exact Int.le_refl _
      · have := hf3 v (by omega)
        rw [hkeep v (by omega)]
        rw [hkeep f hf2] at hlt
        omega
    · rename_i hlt
      refine ⟨p1, hng', hbl', fun h => by omega, fun _ => ⟨f, rfl, by omega, ?_⟩⟩
      intro v hv
      dsimp only
      by_cases hvk : v = k
      · subst hvk; omega
      · have := hf3 v (by omega)
        rw [hkeep v (by omega), hkeep f hf2]
        exact this

theorem topInv_final {g : Graph} (hwf : Wf g) :
    TopInv g g.length (forUpTo g.length (lpStep g) (lpInit g)) :=
  forUpTo_inv (fun k acc => TopInv g k acc) g.length (lpStep g) (lpInit g) (topInv_init g)
    (fun k acc hk h => topInv_step hwf k hk acc h)

/-- all vertices finished, with certificates -/
def AllCert (g : Graph) (s : LP) : Prop := ∀ v, v < g.length → Cert g s v

theorem AllCert.desc {g : Graph} {s : LP} (h : AllCert g s) {a b : Nat}
    (p : TransGen (Edge g) a b) : s.height b < s.height a := by
  induction p with
  | single e => have := ((h _ e.lt_left).2.1 _ e).2; omega
  | tail _ e ih => have := ((h _ e.lt_left).2.1 _ e).2; omega

theorem AllCert.follow_spec {g : Graph} {s : LP} (hwf : Wf g) (h : AllCert g s) :
    ∀ (fuel v : Nat), v < g.length → s.height v = (fuel : Int) →
      IsPath g (follow s fuel (some v)) ∧ (follow s fuel (some v)).length = fuel ∧
        (follow s fuel (some v)).head? = some v := by
  intro fuel
  induction fuel with
  | zero => intro v hv hh; have := (h v hv).1; omega
  | succ fuel ih =>
    intro v hv hh
    obtain ⟨c1, c2, c3⟩ := h v hv
    have hfo : follow s (fuel + 1) (some v) = v :: follow s fuel (s.link v) := rfl
    rw [hfo]
    rcases c3 with ⟨a, b⟩ | ⟨w, hw, a, b⟩
    · rw [b]
      have : fuel = 0 := by omega
      subst this
      simp [follow, IsPath, hv]
    · rw [a]
      have hwn : w < g.length := hwf _ _ hw
      obtain ⟨i1, i2, i3⟩ := ih w hwn (by omega)
      refine ⟨?_, by simp [i2], rfl⟩
      cases hf : follow s fuel (some w) with
      | nil => rw [hf] at i3; cases i3
      | cons x rest =>
        rw [hf] at i1 i3
        simp at i3
        subst i3
        exact ⟨hw, i1⟩

theorem AllCert.path_le {g : Graph} {s : LP} (h : AllCert g s) :
    ∀ (q : List Nat) (v : Nat), IsPath g (v :: q) → ((v :: q).length : Int) ≤ s.height v := by
  intro q
  induction q with
  | nil => intro v hp; have := (h v hp).1; simpa using this
  | cons b rest ih =>
    intro v hp
    obtain ⟨e, hp'⟩ := hp
    have := ih b hp'
    have h2 := ((h v e.lt_left).2.1 b e).2
    simp only [List.length_cons] at this ⊢
    omega

theorem IsPath.head_lt {g : Graph} {v : Nat} {q : List Nat} (h : IsPath g (v :: q)) : v < g.length := by
  cases q with
  | nil => exact h
  | cons b rest => exact h.1.lt_left

/-- `LongestPath` returns nil exactly for the graphs with a cycle. -/
theorem longestPath_none_iff {g : Graph} (hwf : Wf g) :
    longestPath g = none ↔ ∃ v, TransGen (Edge g) v v := by
  have ht := topInv_final hwf
  unfold longestPath
  generalize forUpTo g.length (lpStep g) (lpInit g) = r at ht
  obtain ⟨s, first⟩ := r
  simp only
  cases hc : s.cycle
  · simp only [Bool.false_eq_true, if_false]
    have hall : AllCert g s := fun v hv => ht.inv.cert hc v (ht.black v hv)
    constructor
    · intro h; split at h <;> cases h
    · rintro ⟨v, p⟩
      have := hall.desc p
      omega
  · simp only [if_true, true_iff]
    exact ht.inv.cyc hc

/-- On an acyclic graph the result is a walk of the graph, non-empty unless the graph is empty, and
no walk of the graph has more vertices. -/
theorem longestPath_some {g : Graph} (hwf : Wf g) {p : List Nat} (h : longestPath g = some p) :
    IsPath g p ∧ (g ≠ [] → p ≠ []) ∧ ∀ q, IsPath g q → q.length ≤ p.length := by
  have ht := topInv_final hwf
  unfold longestPath at h
  generalize forUpTo g.length (lpStep g) (lpInit g) = r at ht h
  obtain ⟨s, first⟩ := r
  simp only at h
  cases hc : s.cycle
  · rw [hc] at h
    simp only [Bool.false_eq_true, if_false] at h
    have hall : AllCert g s := fun v hv => ht.inv.cert hc v (ht.black v hv)
    cases first with
    | none =>
      simp only [Option.some.injEq] at h
      subst h
      have hn : g.length = 0 := by
        rcases Nat.eq_zero_or_pos g.length with h | h
        · exact h
        · obtain ⟨f, hf, _⟩ := ht.first h; cases hf
      refine ⟨trivial, fun hg => absurd (List.length_eq_zero_iff.1 hn) hg, ?_⟩
      intro q hq
      cases q with
      | nil => simp
      | cons v q => have := hq.head_lt; omega
    | some f =>
      simp only [Option.some.injEq] at h
      have hpos : 0 < g.length := by
        rcases Nat.eq_zero_or_pos g.length with h0 | h0
        · have := ht.first0 h0; cases this
        · exact h0
      obtain ⟨f', hf1, hf2, hf3⟩ := ht.first hpos
      cases hf1
      simp only at hf3 h
      have hfh := (hall f hf2).1
      obtain ⟨i1, i2, i3⟩ := hall.follow_spec hwf (s.height f).toNat f hf2 (by omega)
      rw [h] at i1 i2 i3
      refine ⟨i1, ?_, ?_⟩
      · intro _ hp; rw [hp] at i3; cases i3
      · intro q hq
        cases q with
        | nil => simp
        | cons v q =>
          have h1 := hall.path_le q v hq
          have h2 := hf3 v hq.head_lt
          omega
  · rw [hc] at h; simp at h

end TmVerif.Graph
