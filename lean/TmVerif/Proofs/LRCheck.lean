/-
Helper lemmas for the run-level theorems of C05/C06, part 1: facts about the runtime model that
hold for every table set — `fetch` normalisation, an explicit form of `apply`, the action of a
state that does not consult the token, traces only grow.
-/
import TmVerif.Model.LRCheck
namespace TmVerif.LRCheck
open TmVerif.LR

/-! ### fetch -/

theorem fetch_some {inp : Input} {c : Cfg} {tk : Tok} (h : c.next = some tk) :
    c.fetch inp = (c, tk) := by
  unfold Cfg.fetch; rw [h]

theorem fetch_none {inp : Input} {c : Cfg} (h : c.next = none) :
    c.fetch inp = ({ c with next := some (inp.tok c.pos), pos := c.pos + 1 }, inp.tok c.pos) := by
  unfold Cfg.fetch; rw [h]

theorem fetch_stack (inp : Input) (c : Cfg) : (c.fetch inp).1.stack = c.stack := by
  unfold Cfg.fetch; split <;> rfl

theorem fetch_state (inp : Input) (c : Cfg) : (c.fetch inp).1.state = c.state := by
  unfold Cfg.fetch; split <;> rfl

theorem fetch_evs (inp : Input) (c : Cfg) : (c.fetch inp).1.evs = c.evs := by
  unfold Cfg.fetch; split <;> rfl

theorem fetch_next (inp : Input) (c : Cfg) : (c.fetch inp).1.next = some (c.fetch inp).2 := by
  unfold Cfg.fetch; split
  · rename_i tk h; exact h
  · rfl

theorem fetch_idem (inp : Input) (c : Cfg) : (c.fetch inp).1.fetch inp = c.fetch inp := by
  have h := fetch_next inp c
  rw [fetch_some h]

/-- configurations that agree after forcing a fetch of the lookahead token -/
def Eqv (inp : Input) (c c' : Cfg) : Prop := (c.fetch inp).1 = (c'.fetch inp).1

theorem Eqv.refl (inp : Input) (c : Cfg) : Eqv inp c c := rfl

theorem Eqv.tok {inp : Input} {c c' : Cfg} (h : Eqv inp c c') : (c.fetch inp).2 = (c'.fetch inp).2 := by
  have h1 := fetch_next inp c
  have h2 := fetch_next inp c'
  rw [h] at h1
  rw [h1] at h2
  exact Option.some.inj h2

theorem Eqv.fetch_eq {inp : Input} {c c' : Cfg} (h : Eqv inp c c') : c.fetch inp = c'.fetch inp :=
  Prod.ext h h.tok

theorem Eqv.stack {inp : Input} {c c' : Cfg} (h : Eqv inp c c') : c.stack = c'.stack := by
  rw [← fetch_stack inp c, ← fetch_stack inp c', h]

theorem Eqv.state {inp : Input} {c c' : Cfg} (h : Eqv inp c c') : c.state = c'.state := by
  rw [← fetch_state inp c, ← fetch_state inp c', h]

theorem Eqv.evs {inp : Input} {c c' : Cfg} (h : Eqv inp c c') : c.evs = c'.evs := by
  rw [← fetch_evs inp c, ← fetch_evs inp c', h]

theorem eqv_fetch_left (inp : Input) (c : Cfg) : Eqv inp (c.fetch inp).1 c := by
  unfold Eqv; rw [fetch_idem]

/-- updating stack, state and trace commutes with `fetch` -/
theorem fetch_upd (inp : Input) (c : Cfg) (stk : List Entry) (q : Int) (evs : List Ev) :
    ({ c with stack := stk, state := q, evs := evs } : Cfg).fetch inp =
      ({ (c.fetch inp).1 with stack := stk, state := q, evs := evs }, (c.fetch inp).2) := by
  cases c with
  | mk s st p n e => cases n <;> rfl

theorem Eqv.upd {inp : Input} {c c' : Cfg} (h : Eqv inp c c') (stk : List Entry) (q : Int)
    (evs : List Ev) :
    Eqv inp { c with stack := stk, state := q, evs := evs }
      { c' with stack := stk, state := q, evs := evs } := by
  unfold Eqv at h ⊢
  rw [fetch_upd inp c, fetch_upd inp c']
  simp only
  rw [h]

/-! ### explicit form of `apply` -/

/-- the configuration and the range of the new entry of a reduction of `ln` symbols -/
def redParts (inp : Input) (c1 : Cfg) (ln : Nat) : Cfg × Nat × Nat :=
  if ln = 0 then ((c1.fetch inp).1, (c1.fetch inp).2.off, (c1.fetch inp).2.off)
  else (c1, (((c1.stack.take ln).getLast?).map (·.off)).getD 0,
        (((c1.stack.take ln).head?).map (·.endo)).getD 0)

/-- a reduction once rule length, left-hand side and the goto function are known -/
def reduceWith (inp : Input) (c1 : Cfg) (rule : Int) (ln : Nat) (lhs : Int)
    (gotoF : Int → Option Int) : Step :=
  if ln > c1.stack.length then .done .panic c1
  else
    let P := redParts inp c1 ln
    match P.1.stack.drop ln with
    | [] => .done .panic P.1
    | top :: _ =>
      match gotoF top.state with
      | none => .done .panic P.1
      | some q =>
        let c3 : Cfg := { P.1 with stack := ⟨lhs, P.2.1, P.2.2, q⟩ :: P.1.stack.drop ln, state := q,
                                   evs := .reduce rule P.2.1 P.2.2 :: P.1.evs }
        if q = -1 then .done (.syntaxError 0 0) c3 else .cont c3

theorem apply_reduce (t : Tables) (inp : Input) (c1 : Cfg) (r : Int) :
    apply t inp c1 (.reduce r) =
      match geti t.ruleLen r, geti t.ruleSymbol r with
      | some ln, some lhs => reduceWith inp c1 r ln.toNat lhs (fun s => gotoState t s lhs)
      | _, _ => .done .panic c1 := by
  rw [apply]
  cases hln : geti t.ruleLen r with
  | none => cases hlhs : geti t.ruleSymbol r <;> rfl
  | some ln =>
    cases hlhs : geti t.ruleSymbol r with
    | none => rfl
    | some lhs =>
      simp only [reduceWith, redParts]
      by_cases h0 : ln.toNat = 0
      · simp only [h0, if_true]; rfl
      · simp only [h0, if_false]; rfl

theorem redParts_fst (inp : Input) (c1 : Cfg) (ln : Nat) :
    (redParts inp c1 ln).1 = c1 ∨ (redParts inp c1 ln).1 = (c1.fetch inp).1 := by
  unfold redParts; split
  · right; rfl
  · left; rfl

theorem redParts_stack (inp : Input) (c1 : Cfg) (ln : Nat) :
    (redParts inp c1 ln).1.stack = c1.stack := by
  rcases redParts_fst inp c1 ln with h | h <;> rw [h]
  exact fetch_stack inp c1

theorem redParts_evs (inp : Input) (c1 : Cfg) (ln : Nat) :
    (redParts inp c1 ln).1.evs = c1.evs := by
  rcases redParts_fst inp c1 ln with h | h <;> rw [h]
  exact fetch_evs inp c1

theorem redParts_eqv (inp : Input) (c1 : Cfg) (ln : Nat) : Eqv inp (redParts inp c1 ln).1 c1 := by
  rcases redParts_fst inp c1 ln with h | h <;> rw [h]
  · exact Eqv.refl _ _
  · exact eqv_fetch_left inp c1

/-- equivalent configurations reduce to equivalent parts -/
theorem redParts_congr {inp : Input} {c c' : Cfg} (h : Eqv inp c c') (ln : Nat) :
    Eqv inp (redParts inp c ln).1 (redParts inp c' ln).1 ∧
    (redParts inp c ln).2 = (redParts inp c' ln).2 := by
  refine ⟨?_, ?_⟩
  · have h1 := redParts_eqv inp c ln
    have h2 := redParts_eqv inp c' ln
    unfold Eqv at *
    rw [h1, h2, h]
  · unfold redParts
    split
    · rw [h.fetch_eq]
    · rw [h.stack]

/-! ### decoding -/

theorem actOf_of_needsTok_none {t : Tables} {s : Int} (h : needsTok t s = none)
    (deep : Int → Option Int) (a : Int) : actOf t deep s a = none := by
  unfold needsTok at h
  unfold actOf
  split at h
  · rename_i ho
    simp only [ho, if_true]
    cases hg : geti t.oAction s with
    | none => rfl
    | some v => simp [hg] at h
  · rename_i ho
    simp only [ho, Bool.false_eq_true, if_false]
    cases hg : geti t.action s with
    | none => rfl
    | some v => simp [hg] at h

/-- a state that does not consult the token acts the same on every token -/
theorem actOf_of_needsTok_false {t : Tables} {s : Int} (h : needsTok t s = some false)
    (deep deep' : Int → Option Int) (a a' : Int) : actOf t deep s a = actOf t deep' s a' := by
  unfold needsTok at h
  unfold actOf
  split at h
  · rename_i ho
    simp only [ho, if_true]
    cases hg : geti t.oAction s with
    | none => rfl
    | some v =>
      simp only [hg, Option.map_some, Option.some.injEq, decide_eq_false_iff_not] at h
      simp only [h, if_false]
  · rename_i ho
    simp only [ho, Bool.false_eq_true, if_false]
    cases hg : geti t.action s with
    | none => rfl
    | some v =>
      simp only [hg, Option.map_some, Option.some.injEq, decide_eq_false_iff_not] at h
      have h1 : ¬ v < -2 := fun h' => h (Or.inl h')
      have h2 : ¬ v = -1 := fun h' => h (Or.inr h')
      simp only [h1, if_false, h2]

/-- `decode` when the action on the (normalised) next token is known -/
theorem decode_of_act {t : Tables} {inp : Input} {c : Cfg} {x : Act}
    (hact : ∀ deep, actOf t deep c.state (c.fetch inp).2.sym = some x) :
    ∃ c1, decode t inp c = some (c1, x) ∧ (c1 = c ∨ c1 = (c.fetch inp).1) ∧
      (needsTok t c.state = some true → c1 = (c.fetch inp).1) := by
  unfold decode
  cases hn : needsTok t c.state with
  | none =>
    have := actOf_of_needsTok_none hn (fun _ => none) (c.fetch inp).2.sym
    rw [hact] at this
    cases this
  | some b =>
    cases b with
    | true =>
      rcases hf : c.fetch inp with ⟨c1, tk⟩
      rw [hf] at hact
      simp only [hact, Option.map_some]
      exact ⟨c1, rfl, Or.inr rfl, fun _ => rfl⟩
    | false =>
      have := actOf_of_needsTok_false hn (fun _ => none) (fun _ => none) 0 (c.fetch inp).2.sym
      simp only [this, hact, Option.map_some]
      exact ⟨c, rfl, Or.inl rfl, fun h => by cases h⟩

theorem decode_none_of_act {t : Tables} {inp : Input} {c : Cfg}
    (hact : ∀ deep, actOf t deep c.state (c.fetch inp).2.sym = none) : decode t inp c = none := by
  unfold decode
  cases hn : needsTok t c.state with
  | none => rfl
  | some b =>
    cases b with
    | true =>
      rcases hf : c.fetch inp with ⟨c1, tk⟩
      rw [hf] at hact
      simp only [hact, Option.map_none]
    | false =>
      have := actOf_of_needsTok_false hn (fun _ => none) (fun _ => none) 0 (c.fetch inp).2.sym
      simp only [this, hact, Option.map_none]

/-! ### the trace only grows -/

/-- the configuration a step ends in -/
def _root_.TmVerif.LR.Step.cfg : Step → Cfg
  | .cont c => c
  | .done _ c => c

theorem apply_evs (t : Tables) (inp : Input) (c1 : Cfg) (a : Act) :
    c1.evs <:+ (apply t inp c1 a).cfg.evs := by
  cases a with
  | error => rw [apply]; exact List.suffix_refl _
  | shift q =>
    rw [apply]
    split
    · exact List.suffix_refl _
    · exact List.suffix_cons _ _
  | reduce r =>
    rw [apply_reduce]
    split
    · unfold reduceWith
      split
      · exact List.suffix_refl _
      · simp only
        split
        · simp only [Step.cfg]; rw [redParts_evs]; exact List.suffix_refl _
        · split
          · simp only [Step.cfg]; rw [redParts_evs]; exact List.suffix_refl _
          · split
            · simp only [Step.cfg]; rw [redParts_evs]; exact List.suffix_cons _ _
            · simp only [Step.cfg]; rw [redParts_evs]; exact List.suffix_cons _ _
    · exact List.suffix_refl _

theorem decode_evs {t : Tables} {inp : Input} {c c1 : Cfg} {a : Act}
    (h : decode t inp c = some (c1, a)) : c1.evs = c.evs := by
  unfold decode at h
  split at h
  · cases h
  · rcases hf : c.fetch inp with ⟨c2, tk⟩
    rw [hf] at h
    simp only [Option.map_eq_some_iff, Prod.mk.injEq] at h
    obtain ⟨_, _, h1, _⟩ := h
    rw [← h1, ← fetch_evs inp c, hf]
  · simp only [Option.map_eq_some_iff, Prod.mk.injEq] at h
    obtain ⟨_, _, h1, _⟩ := h
    rw [h1]

theorem step_evs (t : Tables) (inp : Input) (c : Cfg) : c.evs <:+ (step t inp c).cfg.evs := by
  unfold step
  split
  · exact List.suffix_refl _
  · rename_i c1 a hd
    rw [← decode_evs hd]
    exact apply_evs t inp c1 a

theorem errorAt_evs (inp : Input) (c : Cfg) : (errorAt inp c).2.evs = c.evs := by
  unfold errorAt; exact fetch_evs inp c

theorem runLoop_evs (t : Tables) (inp : Input) (fin : Int) :
    ∀ (fuel : Nat) (c : Cfg), c.evs <:+ (runLoop t inp fin fuel c).2.evs
  | 0, c => by rw [runLoop]; exact List.suffix_refl _
  | fuel + 1, c => by
    rw [runLoop]
    split
    · exact List.suffix_refl _
    · have hs := step_evs t inp c
      split
      · rename_i c' he
        rw [he] at hs
        exact hs.trans (runLoop_evs t inp fin fuel c')
      · rename_i c' he
        rw [he] at hs
        rw [errorAt_evs]
        exact hs
      · rename_i r c' _ he
        rw [he] at hs
        exact hs

end TmVerif.LRCheck
