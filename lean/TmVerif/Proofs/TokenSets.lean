import TmVerif.Model.TokenSets
/-!
Helper lemmas for C15:
* the mirror of syntax/nullable.go computes exactly the nonterminals that derive ε (`nullable_sound`,
  `nullable_complete`);
* the one-step operator `F cx c ·` of the token-set equations is monotone, its Kleene iterates from ⊥
  stay below every closed assignment (`iter_le_of_closed`), and what `solve` returns is a checked
  fixpoint reached by such an iteration (`solve_some`).
-/
namespace TmVerif.TokenSets
open TmVerif.CFG

/-! ### nullable -/

theorem getD_set_bool (l : List Bool) (n X : Nat) :
    (l.set n true).getD X false = if X = n ∧ n < l.length then true else l.getD X false := by
  simp only [List.getD_eq_getElem?_getD, List.getElem?_set]
  by_cases h : n = X
  · subst h
    by_cases hn : n < l.length
    · simp [hn]
    · simp [hn]
  · have : ¬ X = n := fun e => h e.symm
    simp [h, this]

theorem derivesSeq_nil_of_all {g : Grammar} :
    ∀ (rhs : List Nat), (∀ s ∈ rhs, Derives g s []) → DerivesSeq g rhs []
  | [], _ => .nil
  | X :: rest, h => by
    have h1 := h X (by simp)
    have h2 := derivesSeq_nil_of_all rest (fun s hs => h s (by simp [hs]))
    exact DerivesSeq.cons X rest [] [] h1 h2

/-- every symbol marked nullable derives ε -/
def NlSound (g : Grammar) (nl : List Bool) : Prop := ∀ X, nl.getD X false = true → Derives g X []

theorem isNullableNt_sound {g : Grammar} {nl : List Bool} (hs : NlSound g nl) {n : Nat}
    (h : isNullableNt g nl n = true) : Derives g n [] := by
  unfold isNullableNt at h
  rw [List.any_eq_true] at h
  obtain ⟨r, hr, h⟩ := h
  simp only [Bool.and_eq_true, beq_iff_eq] at h
  obtain ⟨rfl, h2⟩ := h
  unfold seqNullable at h2
  rw [List.all_eq_true] at h2
  exact Derives.rule r [] hr (derivesSeq_nil_of_all r.rhs (fun s hs' => hs s (h2 s hs')))

theorem nullStep_sound {g : Grammar} {acc : List Bool × Bool} (hs : NlSound g acc.1) (n : Nat) :
    NlSound g (nullStep g acc n).1 := by
  unfold nullStep
  split
  · exact hs
  · split
    · rename_i hn
      intro X hX
      simp only at hX
      rw [getD_set_bool] at hX
      split at hX
      · rename_i hc; rw [hc.1]; exact isNullableNt_sound hs hn
      · exact hs X hX
    · exact hs

theorem nullPass_sound {g : Grammar} : ∀ (ns : List Nat) (acc : List Bool × Bool),
    NlSound g acc.1 → NlSound g (ns.foldl (nullStep g) acc).1
  | [], _, h => h
  | n :: ns, acc, h => by
    simp only [List.foldl_cons]
    exact nullPass_sound ns _ (nullStep_sound h n)

theorem nullStep_flag {g : Grammar} (acc : List Bool × Bool) (n : Nat) (h : acc.2 = true) :
    (nullStep g acc n).2 = true := by
  unfold nullStep
  split
  · exact h
  · split
    · rfl
    · exact h

theorem nullPass_flag {g : Grammar} : ∀ (ns : List Nat) (acc : List Bool × Bool),
    acc.2 = true → (ns.foldl (nullStep g) acc).2 = true
  | [], _, h => h
  | n :: ns, acc, h => by
    simp only [List.foldl_cons]
    exact nullPass_flag ns _ (nullStep_flag acc n h)

/-- a pass that does not set `keepGoing` changed nothing and found nothing to add -/
theorem nullPass_clean {g : Grammar} : ∀ (ns : List Nat) (acc : List Bool × Bool),
    (ns.foldl (nullStep g) acc).2 = false →
      (ns.foldl (nullStep g) acc).1 = acc.1 ∧
      ∀ n ∈ ns, acc.1.getD n false = true ∨ isNullableNt g acc.1 n = false
  | [], _, _ => ⟨rfl, by simp⟩
  | n :: ns, acc, h => by
    simp only [List.foldl_cons] at h ⊢
    have hstep : (nullStep g acc n).2 = false := by
      cases hh : (nullStep g acc n).2 with
      | false => rfl
      | true => rw [nullPass_flag ns _ hh] at h; cases h
    obtain ⟨h1, h2⟩ := nullPass_clean ns _ h
    have hsame : (nullStep g acc n).1 = acc.1 ∧ (acc.1.getD n false = true ∨ isNullableNt g acc.1 n = false) := by
      unfold nullStep at hstep ⊢
      split
      · rename_i hc; exact ⟨rfl, .inl hc⟩
      · rename_i hc
        rw [if_neg hc] at hstep
        split
        · rename_i hn; rw [if_pos hn] at hstep; cases hstep
        · rename_i hn
          refine ⟨rfl, .inr ?_⟩
          cases hh : isNullableNt g acc.1 n with
          | false => rfl
          | true => exact absurd hh hn
    rw [hsame.1] at h1 h2
    refine ⟨h1, fun m hm => ?_⟩
    simp only [List.mem_cons] at hm
    rcases hm with rfl | hm
    · exact hsame.2
    · exact h2 m hm

theorem nullLoop_spec {g : Grammar} : ∀ (fuel : Nat) (nl res : List Bool), NlSound g nl →
    nullLoop g fuel nl = some res →
      NlSound g res ∧ ∀ n ∈ nonterms g, res.getD n false = true ∨ isNullableNt g res n = false
  | 0, _, _, _, h => by simp [nullLoop] at h
  | fuel + 1, nl, res, hs, h => by
    simp only [nullLoop] at h
    split at h
    · exact nullLoop_spec fuel _ res (nullPass_sound _ (nl, false) hs) h
    · rename_i hd
      have hd' : ((nonterms g).foldl (nullStep g) (nl, false)).2 = false := by
        cases hh : ((nonterms g).foldl (nullStep g) (nl, false)).2 with
        | false => rfl
        | true => exact absurd hh hd
      obtain ⟨h1, h2⟩ := nullPass_clean (nonterms g) (nl, false) hd'
      simp only [Option.some.injEq] at h
      subst h
      simp only at h1 h2
      rw [h1]
      exact ⟨hs, h2⟩

theorem nlSound_init (g : Grammar) : NlSound g (List.replicate g.nSyms false) := by
  intro X hX
  simp [List.getD_eq_getElem?_getD, List.getElem?_replicate] at hX
  split at hX <;> simp at hX

theorem nullable_sound {g : Grammar} {nl : List Bool} (h : nullable g = some nl) {X : Nat}
    (hX : nl.getD X false = true) : Derives g X [] :=
  (nullLoop_spec _ _ nl (nlSound_init g) h).1 X hX

theorem mem_nonterms (g : Grammar) (n : Nat) : n ∈ nonterms g ↔ g.nTerms ≤ n ∧ n < g.nSyms := by
  unfold nonterms
  simp only [List.mem_map, List.mem_range]
  constructor
  · rintro ⟨a, ha, rfl⟩; omega
  · intro h; exact ⟨n - g.nTerms, by omega, by omega⟩

mutual
theorem derives_nil_marked {g : Grammar} {nl : List Bool}
    (hlhs : ∀ r ∈ g.rules.toList, r.lhs ∈ nonterms g)
    (hcl : ∀ n ∈ nonterms g, nl.getD n false = true ∨ isNullableNt g nl n = false) :
    ∀ {X : Nat} {w : List Nat}, Derives g X w → w = [] → nl.getD X false = true
  | _, _, .term a _, h => by cases h
  | _, _, .rule r w hm hs, h => by
    have hall := derivesSeq_nil_marked hlhs hcl hs h
    have hn : isNullableNt g nl r.lhs = true := by
      unfold isNullableNt
      rw [List.any_eq_true]
      refine ⟨r, hm, ?_⟩
      simp only [Bool.and_eq_true, beq_self_eq_true, true_and]
      unfold seqNullable
      rw [List.all_eq_true]
      exact hall
    rcases hcl r.lhs (hlhs r hm) with h1 | h1
    · exact h1
    · rw [hn] at h1; cases h1
theorem derivesSeq_nil_marked {g : Grammar} {nl : List Bool}
    (hlhs : ∀ r ∈ g.rules.toList, r.lhs ∈ nonterms g)
    (hcl : ∀ n ∈ nonterms g, nl.getD n false = true ∨ isNullableNt g nl n = false) :
    ∀ {α : List Nat} {w : List Nat}, DerivesSeq g α w → w = [] → ∀ s ∈ α, nl.getD s false = true
  | _, _, .nil, _ => by simp
  | _, _, .cons X α u v hX hα, h => by
    have hu : u = [] := (List.append_eq_nil_iff.1 h).1
    have hv : v = [] := (List.append_eq_nil_iff.1 h).2
    have h1 := derives_nil_marked hlhs hcl hX hu
    have h2 := derivesSeq_nil_marked hlhs hcl hα hv
    intro s hs
    simp only [List.mem_cons] at hs
    rcases hs with rfl | hs
    · exact h1
    · exact h2 s hs
end

theorem nullable_complete {g : Grammar} {nl : List Bool} (h : nullable g = some nl)
    (hlhs : ∀ r ∈ g.rules.toList, r.lhs ∈ nonterms g) {X : Nat} (hX : Derives g X []) :
    nl.getD X false = true :=
  derives_nil_marked hlhs (nullLoop_spec _ _ nl (nlSound_init g) h).2 hX rfl

/-! ### the equations: membership, monotonicity -/

/-- pointwise inclusion of assignments -/
def Le (x y : State) : Prop := ∀ u t, x.mem u t = true → y.mem u t = true

theorem le_bot (y : State) : Le [] y := by
  intro u t h; simp [State.mem] at h

theorem mem_F (cx : Ctx) (c x : State) (u t : Nat) :
    (F cx c x).mem u t = true ↔ u < cx.nU ∧ t < cx.sg.nT ∧ rhsMem cx c x u t = true := by
  unfold F State.mem
  by_cases hu : u < cx.nU
  · simp [hu]
  · simp [hu]

theorem firstSeq_mono {cx : Ctx} {x y : State} (h : Le x y) (k t : Nat) :
    ∀ (l : List Nat), firstSeq cx x k t l = true → firstSeq cx y k t l = true
  | [], hx => by simp [firstSeq] at hx
  | X :: rest, hx => by
    simp only [firstSeq, Bool.or_eq_true, Bool.and_eq_true] at hx ⊢
    rcases hx with hx | ⟨h1, h2⟩
    · exact .inl (h _ _ hx)
    · exact .inr ⟨h1, firstSeq_mono h k t rest h2⟩

theorem follScan_mono {cx : Ctx} {x y : State} (h : Le x y) (kF kW lhs X t : Nat) :
    ∀ (l : List Nat), follScan cx x kF kW lhs X t l = true → follScan cx y kF kW lhs X t l = true
  | [], hx => by simp [follScan] at hx
  | Y :: rest, hx => by
    simp only [follScan, Bool.or_eq_true, Bool.and_eq_true] at hx ⊢
    rcases hx with ⟨h1, h2⟩ | hx
    · refine .inl ⟨h1, ?_⟩
      rcases h2 with h2 | ⟨h2, h3⟩
      · exact .inl (firstSeq_mono h kF t rest h2)
      · exact .inr ⟨h2, h _ _ h3⟩
    · exact .inr (follScan_mono h kF kW lhs X t rest hx)

theorem evalMem_mono {cx : Ctx} {c x y : State} (h : Le x y) (t : Nat) :
    ∀ (e : SExpr), evalMem cx c x t e = true → evalMem cx c y t e = true
  | .any s, hx => h _ _ hx
  | .first s, hx => h _ _ hx
  | .last s, hx => h _ _ hx
  | .precede s, hx => h _ _ hx
  | .follow s, hx => h _ _ hx
  | .ref i, hx => h _ _ hx
  | .compl a, hx => hx
  | .union a b, hx => by
    simp only [evalMem, Bool.or_eq_true] at hx ⊢
    rcases hx with hx | hx
    · exact .inl (evalMem_mono h t a hx)
    · exact .inr (evalMem_mono h t b hx)
  | .inter a b, hx => by
    simp only [evalMem, Bool.and_eq_true] at hx ⊢
    exact ⟨evalMem_mono h t a hx.1, evalMem_mono h t b hx.2⟩

theorem setPart_mono {cx : Ctx} {x y : State} (h : Le x y) (s t : Nat)
    (hx : setPart cx x s t = true) : setPart cx y s t = true := by
  unfold setPart at hx ⊢
  rw [List.any_eq_true] at hx ⊢
  obtain ⟨p, hp, hx⟩ := hx
  simp only [Bool.and_eq_true] at hx
  exact ⟨p, hp, by simp only [Bool.and_eq_true]; exact ⟨hx.1, h _ _ hx.2⟩⟩

theorem rhsMem_mono {cx : Ctx} {c x y : State} (h : Le x y) (u t : Nat)
    (hx : rhsMem cx c x u t = true) : rhsMem cx c y u t = true := by
  unfold rhsMem at hx ⊢
  simp only at hx ⊢
  split
  · rename_i hu
    rw [if_pos hu] at hx
    split
    · rename_i hk
      rw [if_pos hk] at hx
      split
      · rename_i hs; rw [if_pos hs] at hx; exact hx
      · rename_i hs
        rw [if_neg hs] at hx
        simp only [Bool.or_eq_true, List.any_eq_true, Bool.and_eq_true] at hx ⊢
        rcases hx with ⟨r, hr, h1, X, hX, h2⟩ | hx
        · exact .inl ⟨r, hr, h1, X, hX, h _ _ h2⟩
        · exact .inr (setPart_mono h _ _ hx)
    · rename_i hk
      rw [if_neg hk] at hx
      split
      · rename_i hk1
        rw [if_pos hk1] at hx
        split
        · rename_i hs; rw [if_pos hs] at hx; exact hx
        · rename_i hs
          rw [if_neg hs] at hx
          simp only [Bool.or_eq_true, List.any_eq_true, Bool.and_eq_true] at hx ⊢
          rcases hx with ⟨r, hr, h1, h2⟩ | hx
          · exact .inl ⟨r, hr, h1, firstSeq_mono h _ _ _ h2⟩
          · exact .inr (setPart_mono h _ _ hx)
      · rename_i hk1
        rw [if_neg hk1] at hx
        split
        · rename_i hk2
          rw [if_pos hk2] at hx
          split
          · rename_i hs; rw [if_pos hs] at hx; exact hx
          · rename_i hs
            rw [if_neg hs] at hx
            simp only [Bool.or_eq_true, List.any_eq_true, Bool.and_eq_true] at hx ⊢
            rcases hx with ⟨r, hr, h1, h2⟩ | hx
            · exact .inl ⟨r, hr, h1, firstSeq_mono h _ _ _ h2⟩
            · exact .inr (setPart_mono h _ _ hx)
        · rename_i hk2
          rw [if_neg hk2] at hx
          split
          · rename_i hk3
            rw [if_pos hk3] at hx
            rw [List.any_eq_true] at hx ⊢
            obtain ⟨r, hr, h2⟩ := hx
            exact ⟨r, hr, follScan_mono h _ _ _ _ _ _ h2⟩
          · rename_i hk3
            rw [if_neg hk3] at hx
            rw [List.any_eq_true] at hx ⊢
            obtain ⟨r, hr, h2⟩ := hx
            exact ⟨r, hr, follScan_mono h _ _ _ _ _ _ h2⟩
  · rename_i hu
    rw [if_neg hu] at hx
    split
    · rename_i e he
      rw [he] at hx
      exact evalMem_mono h t e hx
    · rename_i he
      rw [he] at hx
      exact hx

/-- `y` is closed under the equations in which complements read `c` -/
def ClosedUnder (cx : Ctx) (c y : State) : Prop :=
  ∀ u t, u < cx.nU → t < cx.sg.nT → rhsMem cx c y u t = true → y.mem u t = true

theorem F_le_of_closed {cx : Ctx} {c x y : State} (h : Le x y) (hy : ClosedUnder cx c y) :
    Le (F cx c x) y := by
  intro u t hm
  obtain ⟨hu, ht, hr⟩ := (mem_F cx c x u t).1 hm
  exact hy u t hu ht (rhsMem_mono h u t hr)

/-- every Kleene iterate from below a closed assignment stays below it -/
theorem iter_le_of_closed {cx : Ctx} {c y : State} (hy : ClosedUnder cx c y) :
    ∀ (n : Nat) (x : State), Le x y → Le (iterF cx c n x) y
  | 0, _, h => h
  | n + 1, x, h => by
    simp only [iterF]
    exact iter_le_of_closed hy n _ (F_le_of_closed h hy)

/-! ### what `solve` returns -/

theorem lfpG_some {cx : Ctx} {c x : State} (h : lfpG cx c = some x) :
    F cx c x = x ∧ ∃ n, x = iterF cx c n [] := by
  unfold lfpG at h
  simp only at h
  split at h
  · rename_i hf
    simp only [Option.some.injEq] at h
    subst h
    exact ⟨by simpa using hf, _, rfl⟩
  · cases h

theorem rounds_some {cx : Ctx} : ∀ (k : Nat) (c x : State), rounds cx k c = some x →
    F cx x x = x ∧ ∃ n, x = iterF cx x n []
  | 0, _, _, h => by simp [rounds] at h
  | k + 1, c, x, h => by
    simp only [rounds] at h
    split at h
    · cases h
    · rename_i x' hl
      split at h
      · rename_i he
        simp only [Option.some.injEq] at h
        subst h
        have hxc : x' = c := by simpa using he
        subst hxc
        exact lfpG_some hl
      · exact rounds_some k x' x h

theorem solve_some {sg : SG} {cx : Ctx} {x : State} (h : solve sg = some (cx, x)) :
    (∃ nl, nullable sg.g = some nl ∧ cx = mkCtx sg nl) ∧ F cx x x = x ∧ ∃ n, x = iterF cx x n [] := by
  unfold solve at h
  split at h
  · cases h
  · rename_i nl hn
    simp only at h
    split at h
    · cases h
    · rename_i x' hr
      simp only [Option.some.injEq, Prod.mk.injEq] at h
      obtain ⟨rfl, rfl⟩ := h
      exact ⟨⟨nl, hn, rfl⟩, rounds_some _ _ _ hr⟩

end TmVerif.TokenSets
