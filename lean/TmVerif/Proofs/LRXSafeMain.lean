/-
Helper lemmas for C19 panic-freedom, part 5: `onError`, `xstep`, `xrunLoop` under the invariant.
-/
import TmVerif.Proofs.LRXSafeRecover
import TmVerif.Proofs.LRXRecover
namespace TmVerif.LRX
open TmVerif.LR TmVerif.CFG TmVerif.LRSound
variable {g : Grammar} {x : XTables} {cert : Cert} {xc : XCert} {i : Nat}

/-- what a loop iteration may produce under the invariant -/
def XStep.Safe (g : Grammar) (x : XTables) (cert : Cert) (i : Nat) (inp : Input) : XStep → Prop
  | .cont c => XInv g x cert i inp c
  | .done r _ => r ≠ .panic

theorem errPrelude_inv {inp : Input} {c : XCfg} (h : XInv g x cert i inp c) :
    XInv g x cert i inp (errPrelude inp c) := by
  unfold errPrelude
  split
  · exact h.fetch.congr rfl rfl rfl rfl
  · exact h

theorem onError_safe (hc : CertFacts g x.t cert) (hx : XFacts g x cert xc) {inp : Input}
    (htok : TokOk x.t inp) (fin : Int) (hfi : fin = finOf x i) (stop : Bool) (c : XCfg)
    (h : XInv g x cert i inp c) : (onError x inp fin stop c).Safe g x cert i inp := by
  cases hr : x.recovering with
  | false =>
    rw [onError_eq_norec inp fin stop c hr]
    exact fun h => nomatch h
  | true =>
    rw [onError_eq_rec inp fin stop c hr]
    split
    · exact fun h => nomatch h
    · have hinv : XInv g x cert i inp { errPrelude inp c with recovering := 4 } :=
        (errPrelude_inv h).congr rfl rfl rfl rfl
      obtain ⟨res, hres, hok⟩ := recoverFromError_total hc hx hr htok fin hfi _ hinv
      rw [hres]
      cases res with
      | none => exact fun h => nomatch h
      | some c3 => exact (hok c3 rfl).1

theorem xstep_safe (hc : CertFacts g x.t cert) (hx : XFacts g x cert xc) {inp : Input}
    (htok : TokOk x.t inp) (fin : Int) (hfi : fin = finOf x i) (stop : Bool) (k : Nat) (c : XCfg)
    (h : XInv g x cert i inp c) (hne : c.state ≠ fin) :
    (xstep x inp fin stop k c).Safe g x cert i inp := by
  rw [xstep_pre]
  have hp := xpre_safe hc hx htok k c h (by rw [← hfi]; exact hne)
  cases hx' : xpre x inp k c with
  | cont c' => rw [hx'] at hp; exact hp
  | done r c' => rw [hx'] at hp; exact hp
  | err c' => rw [hx'] at hp; exact onError_safe hc hx htok fin hfi stop c' hp

theorem xrunLoop_no_panic (hc : CertFacts g x.t cert) (hx : XFacts g x cert xc) {inp : Input}
    (htok : TokOk x.t inp) (fin : Int) (hfi : fin = finOf x i) (stop : Bool) (k : Nat) :
    ∀ (fuel : Nat) (c : XCfg), XInv g x cert i inp c →
      (xrunLoop x inp fin stop k fuel c).1 ≠ .panic
  | 0, c, _ => by rw [xrunLoop]; exact fun h => nomatch h
  | fuel + 1, c, h => by
    rw [xrunLoop]
    split
    · exact fun h => nomatch h
    · next hne =>
      have hs := xstep_safe hc hx htok fin hfi stop k c h hne
      cases hst : xstep x inp fin stop k c with
      | cont c' =>
        rw [hst] at hs
        exact xrunLoop_no_panic hc hx htok fin hfi stop k fuel c' hs
      | done r c' =>
        rw [hst] at hs
        exact hs

/-- every configuration of a segment of the loop satisfies the invariant -/
theorem XIter.inv (hc : CertFacts g x.t cert) (hx : XFacts g x cert xc) {inp : Input}
    (htok : TokOk x.t inp) {fin : Int} (hfi : fin = finOf x i) {stop : Bool} {k : Nat}
    {c c' : XCfg} {m : Nat}
    (h : XIter x inp fin stop k c c' m) (hinv : XInv g x cert i inp c) : XInv g x cert i inp c' := by
  induction h with
  | refl => exact hinv
  | step hne hs _ ih =>
    apply ih
    have := xstep_safe hc hx htok fin hfi stop k _ hinv hne
    rw [hs] at this
    exact this

end TmVerif.LRX
