/-
Soundness of the guard decision procedure of Model/Guards.lean (C17).
-/
import TmVerif.Model.Guards
namespace TmVerif.Guards
open TmVerif.Facts

theorem isTT_eq {f : GF} (h : isTT f = true) : f = .tt := by
  cases f <;> simp [isTT] at h ⊢

theorem isFF_eq {f : GF} (h : isFF f = true) : f = .not .tt := by
  cases f with
  | not g => cases g <;> simp [isFF] at h ⊢
  | _ => simp [isFF] at h

@[simp] theorem isTT_tt : isTT GF.tt = true := rfl
@[simp] theorem isFF_tt : isFF GF.tt = false := rfl
@[simp] theorem isTT_nott : isTT (GF.not GF.tt) = false := rfl
@[simp] theorem isFF_nott : isFF (GF.not GF.tt) = true := rfl

theorem eval_ff (v : Nat → Bool) : eval v GF.ff = false := by simp [GF.ff, eval]

theorem eval_sNot (v : Nat → Bool) (f : GF) : eval v (sNot f) = !eval v f := by
  unfold sNot
  by_cases h1 : isTT f = true
  · have e := isTT_eq h1; subst e; simp [eval, GF.ff]
  · by_cases h2 : isFF f = true
    · have e := isFF_eq h2; subst e; simp [eval]
    · simp [h1, h2, eval]

theorem eval_sAnd (v : Nat → Bool) (f g : GF) : eval v (sAnd f g) = (eval v f && eval v g) := by
  unfold sAnd
  by_cases h1 : isFF f = true
  · have e := isFF_eq h1; subst e; simp [eval, GF.ff]
  · by_cases h2 : isFF g = true
    · have e := isFF_eq h2; subst e; simp [eval, GF.ff]
    · by_cases h3 : isTT f = true
      · have e := isTT_eq h3; subst e; simp [h2, eval]
      · by_cases h4 : isTT g = true
        · have e := isTT_eq h4; subst e; simp [h1, h3, eval]
        · simp [h1, h2, h3, h4, eval]

theorem eval_sOr (v : Nat → Bool) (f g : GF) : eval v (sOr f g) = (eval v f || eval v g) := by
  unfold sOr
  by_cases h1 : isTT f = true
  · have e := isTT_eq h1; subst e; simp [eval]
  · by_cases h2 : isTT g = true
    · have e := isTT_eq h2; subst e; simp [eval]
    · by_cases h3 : isFF f = true
      · have e := isFF_eq h3; subst e; simp [h2, eval]
      · by_cases h4 : isFF g = true
        · have e := isFF_eq h4; subst e; simp [h1, h3, eval]
        · simp [h1, h2, h3, h4, eval]

theorem assign_eval (v : Nat → Bool) (a : Nat) (b : Bool) (h : v a = b) :
    ∀ f : GF, eval v (assign a b f) = eval v f := by
  intro f
  induction f with
  | tt => simp [assign]
  | atom n =>
    simp only [assign]
    by_cases e : (n == a) = true
    · have : n = a := by simpa using e
      subst this
      cases b <;> simp [eval, eval_ff, h]
    · simp [e]
  | not f ih => simp [assign, eval_sNot, eval, ih]
  | and f g ihf ihg => simp [assign, eval_sAnd, eval, ihf, ihg]
  | or f g ihf ihg => simp [assign, eval_sOr, eval, ihf, ihg]

theorem simplify_eval (v : Nat → Bool) : ∀ f : GF, eval v (simplify f) = eval v f := by
  intro f
  induction f with
  | tt => simp [simplify]
  | atom n => simp [simplify]
  | not f ih => simp [simplify, eval_sNot, eval, ih]
  | and f g ihf ihg => simp [simplify, eval_sAnd, eval, ihf, ihg]
  | or f g ihf ihg => simp [simplify, eval_sOr, eval, ihf, ihg]

theorem conjuncts_eval (v : Nat → Bool) : ∀ f : GF, eval v f = true → ∀ g ∈ conjuncts f, eval v g = true := by
  intro f
  induction f with
  | tt => intro _ g hg; simp [conjuncts] at hg
  | atom n => intro h g hg; simp [conjuncts] at hg; subst hg; exact h
  | not f _ => intro h g hg; simp [conjuncts] at hg; subst hg; exact h
  | or f g _ _ => intro h k hk; simp [conjuncts] at hk; subst hk; exact h
  | and f g ihf ihg =>
    intro h k hk
    simp only [eval, Bool.and_eq_true] at h
    simp only [conjuncts, List.mem_append] at hk
    rcases hk with hk | hk
    · exact ihf h.1 k hk
    · exact ihg h.2 k hk

theorem closed_sound {axs : List GF} {u d : GF} {v : Nat → Bool}
    (hc : closed axs u d = true) (hax : ∀ a ∈ axs, eval v a = true) (hu : eval v u = true) :
    eval v d = true := by
  simp only [closed, Bool.or_eq_true, List.any_eq_true] at hc
  rcases hc with (hc | hc) | ⟨a, ha, hc⟩
  · rw [isFF_eq hc] at hu; simp [eval] at hu
  · rw [isTT_eq hc]; simp [eval]
  · have := hax a ha
    rw [isFF_eq hc] at this; simp [eval] at this

theorem step_sound {axs : List GF} {v : Nat → Bool} (a : Nat) (b : Bool) (h : v a = b)
    (hax : ∀ f ∈ axs, eval v f = true) : ∀ g ∈ step a b axs, eval v g = true := by
  intro g hg
  simp only [step, List.mem_flatMap] at hg
  obtain ⟨f, hf, hgf⟩ := hg
  exact conjuncts_eval v _ (by rw [assign_eval v a b h]; exact hax f hf) g hgf

theorem search_sound : ∀ (k : Nat) (axs : List GF) (u d : GF), search k axs u d = true →
    ∀ v : Nat → Bool, (∀ a ∈ axs, eval v a = true) → eval v u = true → eval v d = true := by
  intro k
  induction k with
  | zero =>
    intro axs u d hs v hax hu
    exact closed_sound (by simpa [search] using hs) hax hu
  | succ k ih =>
    intro axs u d hs v hax hu
    simp only [search, Bool.or_eq_true] at hs
    rcases hs with hc | hs
    · exact closed_sound hc hax hu
    · cases hp : pick axs u d with
      | none => simp [hp] at hs
      | some a =>
        simp only [hp, Bool.and_eq_true] at hs
        cases hva : v a with
        | true =>
          have := ih _ _ _ hs.1 v (step_sound a true hva hax) (by rw [assign_eval v a true hva]; exact hu)
          rwa [assign_eval v a true hva] at this
        | false =>
          have := ih _ _ _ hs.2 v (step_sound a false hva hax) (by rw [assign_eval v a false hva]; exact hu)
          rwa [assign_eval v a false hva] at this

/-- The checker is sound for ALL valuations of ALL atoms. -/
theorem checkImp_sound (axs : List Ax) (u d : GF) (h : checkImp axs u d = true) :
    ∀ v : Nat → Bool, (∀ a ∈ axs, eval v a.hyp = true → eval v a.concl = true) →
      eval v u = true → eval v d = true := by
  intro v hax hu
  unfold checkImp at h
  have := search_sound _ _ _ _ h v ?_ (by rw [simplify_eval]; exact hu)
  · rwa [simplify_eval] at this
  · intro g hg
    simp only [List.mem_flatMap] at hg
    obtain ⟨a, ha, hga⟩ := hg
    refine conjuncts_eval v _ ?_ g hga
    rw [simplify_eval]
    have := hax a ha
    simp only [Ax.formula, GF.imp, eval]
    cases hh : eval v a.hyp with
    | false => simp
    | true => simp [this hh]

/-- A counter-model found by `refutes` is one. -/
theorem refutes_sound (axs : List Ax) (u d : GF) (t : List Nat) (h : refutes axs u d t = true) :
    ∃ v : Nat → Bool, (∀ a ∈ axs, eval v a.hyp = true → eval v a.concl = true) ∧ eval v u = true ∧ eval v d = false := by
  refine ⟨valOf t, ?_, ?_, ?_⟩
  · intro a ha hh
    simp only [refutes, Bool.and_eq_true, List.all_eq_true] at h
    have := h.1.1 a ha
    simp only [Ax.formula, GF.imp, eval, hh, Bool.not_true, Bool.false_or] at this
    exact this
  · simp only [refutes, Bool.and_eq_true] at h; exact h.1.2
  · simp only [refutes, Bool.and_eq_true, Bool.not_eq_true'] at h; exact h.2

end TmVerif.Guards

