/-
Soundness of the guard tableau of Model/Guards.lean (C17).
-/
import TmVerif.Model.Guards
namespace TmVerif.Guards
open TmVerif.Facts

/-- `v` extends the partial assignment `σ`. -/
def Agrees (σ : Assign) (v : Nat → Bool) : Prop := ∀ n b, lookup σ n = some b → v n = b

theorem agrees_nil (v : Nat → Bool) : Agrees [] v := by
  intro n b h; simp [lookup] at h

theorem agrees_cons {σ : Assign} {v : Nat → Bool} (h : Agrees σ v) (a : Nat) : Agrees ((a, v a) :: σ) v := by
  intro n b hl
  simp only [lookup] at hl
  by_cases e : (a == n) = true
  · simp only [e, if_true, Option.some.injEq] at hl
    have : a = n := by simpa using e
    subst this; exact hl
  · simp only [e] at hl
    exact h n b hl

theorem peval_sound {σ : Assign} {v : Nat → Bool} (h : Agrees σ v) :
    ∀ (f : GF) (b : Bool), peval σ f = some b → eval v f = b := by
  intro f
  induction f with
  | tt => intro b hb; simp [peval] at hb; simp [eval, hb]
  | atom n => intro b hb; simp only [peval] at hb; simp only [eval]; exact h n b hb
  | not f ih =>
    intro b hb
    simp only [peval] at hb
    cases hf : peval σ f with
    | none => simp [hf] at hb
    | some c =>
      simp only [hf, Option.some.injEq] at hb
      simp only [eval, ih c hf]; exact hb
  | and f g ihf ihg =>
    intro b hb
    simp only [peval] at hb
    cases hf : peval σ f with
    | none =>
      cases hg : peval σ g with
      | none => simp [hf, hg] at hb
      | some d =>
        cases d with
        | true => simp [hf, hg] at hb
        | false =>
          simp only [hf, hg, Option.some.injEq] at hb
          simp [eval, ihg false hg, ← hb]
    | some c =>
      cases c with
      | false =>
        have : b = false := by
          cases hg : peval σ g with
          | none => simp [hf, hg] at hb; exact hb
          | some d => cases d <;> simp [hf, hg] at hb <;> exact hb
        simp [eval, ihf false hf, this]
      | true =>
        cases hg : peval σ g with
        | none => simp [hf, hg] at hb
        | some d =>
          cases d with
          | true =>
            simp only [hf, hg, Option.some.injEq] at hb
            simp [eval, ihf true hf, ihg true hg, ← hb]
          | false =>
            simp only [hf, hg, Option.some.injEq] at hb
            simp [eval, ihg false hg, ← hb]
  | or f g ihf ihg =>
    intro b hb
    simp only [peval] at hb
    cases hf : peval σ f with
    | none =>
      cases hg : peval σ g with
      | none => simp [hf, hg] at hb
      | some d =>
        cases d with
        | false => simp [hf, hg] at hb
        | true =>
          simp only [hf, hg, Option.some.injEq] at hb
          simp [eval, ihg true hg, ← hb]
    | some c =>
      cases c with
      | true =>
        have : b = true := by
          cases hg : peval σ g with
          | none => simp [hf, hg] at hb; exact hb
          | some d => cases d <;> simp [hf, hg] at hb <;> exact hb
        simp [eval, ihf true hf, this]
      | false =>
        cases hg : peval σ g with
        | none => simp [hf, hg] at hb
        | some d =>
          cases d with
          | false =>
            simp only [hf, hg, Option.some.injEq] at hb
            simp [eval, ihf false hf, ihg false hg, ← hb]
          | true =>
            simp only [hf, hg, Option.some.injEq] at hb
            simp [eval, ihg true hg, ← hb]

theorem closed_sound {axs : List GF} {u d : GF} {σ : Assign} {v : Nat → Bool} (h : Agrees σ v)
    (hc : closed axs u d σ = true) (hax : ∀ a ∈ axs, eval v a = true) (hu : eval v u = true) :
    eval v d = true := by
  simp only [closed, Bool.or_eq_true, beq_iff_eq, List.any_eq_true] at hc
  rcases hc with (hc | hc) | ⟨a, ha, hc⟩
  · have := peval_sound h u false hc
    rw [hu] at this; cases this
  · exact peval_sound h d true hc
  · have := peval_sound h a false hc
    rw [hax a ha] at this; cases this

theorem search_sound (axs : List GF) (u d : GF) :
    ∀ (as : List Nat) (σ : Assign), search axs u d as σ = true →
      ∀ v : Nat → Bool, Agrees σ v → (∀ a ∈ axs, eval v a = true) → eval v u = true → eval v d = true := by
  intro as
  induction as with
  | nil =>
    intro σ hs v hv hax hu
    exact closed_sound hv (by simpa [search] using hs) hax hu
  | cons a as ih =>
    intro σ hs v hv hax hu
    simp only [search, Bool.or_eq_true, Bool.and_eq_true] at hs
    rcases hs with hc | ⟨ht, hf⟩
    · exact closed_sound hv hc hax hu
    · cases hva : v a with
      | true => exact ih _ ht v (by have := agrees_cons hv a; rwa [hva] at this) hax hu
      | false => exact ih _ hf v (by have := agrees_cons hv a; rwa [hva] at this) hax hu

/-- The checker is sound for ALL valuations of ALL atoms. -/
theorem checkImp_sound (axs : List Ax) (u d : GF) (h : checkImp axs u d = true) :
    ∀ v : Nat → Bool, (∀ a ∈ axs, eval v a.hyp = true → eval v a.concl = true) →
      eval v u = true → eval v d = true := by
  intro v hax hu
  unfold checkImp at h
  refine search_sound _ u d _ [] h v (agrees_nil v) ?_ hu
  intro f hf
  simp only [List.mem_map, List.mem_filter] at hf
  obtain ⟨a, ⟨ha, _⟩, rfl⟩ := hf
  have := hax a ha
  simp only [Ax.formula, GF.imp, eval]
  cases hh : eval v a.hyp with
  | false => simp
  | true => simp [this hh]

/-- A counter-model found by `refutes` is one. -/
theorem refutes_sound (axs : List Ax) (u d : GF) (t : List Nat) (h : refutes axs u d t = true) :
    ∃ v : Nat → Bool, (∀ a ∈ axs, eval v a.hyp = true → eval v a.concl = true) ∧ eval v u = true ∧ eval v d = false := by
  refine ⟨valOf t, ?_, ?_, ?_⟩
  · intro a ha hh
    simp only [refutes, Bool.and_eq_true, List.all_eq_true] at h
    have := h.1.1 a ha
    simp only [Ax.formula, GF.imp, eval, hh, Bool.not_true, Bool.false_or] at this
    exact this
  · simp only [refutes, Bool.and_eq_true] at h; exact h.1.2
  · simp only [refutes, Bool.and_eq_true, Bool.not_eq_true'] at h; exact h.2

end TmVerif.Guards
