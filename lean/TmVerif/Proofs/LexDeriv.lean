import TmVerif.Model.LexSpec
import TmVerif.Proofs.Regex
/-!
C09 helper lemmas, part 1: the derivative matcher of `Model/LexSpec.lean` against the denotation `Lang`
of C10 (`Model/Regex.lean`) with no named patterns (`noExt`).
-/
namespace TmVerif.LexSpec
open TmVerif.Charset TmVerif.Regex

/-- The language of an expression without named patterns. -/
abbrev L (r : Regex) (w : List Int) : Prop := Lang noExt r w

theorem L_eps (w : List Int) : L .eps w ↔ w = [] := Iff.rfl
theorem L_cc (c : Charset) (w : List Int) : L (.cc c) w ↔ ∃ s, w = [s] ∧ Mem s c := Iff.rfl
theorem L_cat (a b : Regex) (w : List Int) : L (.cat a b) w ↔ ∃ u v, w = u ++ v ∧ L a u ∧ L b v := Iff.rfl
theorem L_alt (a b : Regex) (w : List Int) : L (.alt a b) w ↔ L a w ∨ L b w := Iff.rfl
theorem L_rep (r : Regex) (mn : Nat) (mx : Option Nat) (w : List Int) :
    L (.rep r mn mx) w ↔ ∃ k, mn ≤ k ∧ (∀ m, mx = some m → k ≤ m) ∧ Pow (L r) k w := Iff.rfl
theorem L_ext (n : List Nat) (w : List Int) : ¬ L (.ext n) w := id
theorem L_empty (w : List Int) : ¬ L empty w := by
  rintro ⟨s, _, h⟩
  exact mem_nil s h

theorem isEmptyCC_eq {r : Regex} (h : isEmptyCC r = true) : r = empty := by
  unfold isEmptyCC at h
  split at h
  · rfl
  · cases h

theorem isEps_eq {r : Regex} (h : isEps r = true) : r = .eps := by
  unfold isEps at h
  split at h
  · rfl
  · cases h

/-! ### alternation -/

theorem L_altOf (l : List Regex) (w : List Int) : L (altOf l) w ↔ ∃ r ∈ l, L r w := by
  induction l with
  | nil => simp [altOf, L_empty]
  | cons r rs ih =>
    cases rs with
    | nil => simp [altOf]
    | cons r2 rs2 =>
      show L (.alt r (altOf (r2 :: rs2))) w ↔ _
      rw [L_alt, ih]
      simp

theorem L_altList (a : Regex) (w : List Int) : (∃ r ∈ altList a, L r w) ↔ L a w := by
  induction a with
  | alt a b iha ihb =>
    simp only [altList, List.mem_append]
    rw [L_alt, ← iha, ← ihb]
    constructor
    · rintro ⟨r, hr | hr, h⟩
      · exact Or.inl ⟨r, hr, h⟩
      · exact Or.inr ⟨r, hr, h⟩
    · rintro (⟨r, hr, h⟩ | ⟨r, hr, h⟩)
      · exact ⟨r, Or.inl hr, h⟩
      · exact ⟨r, Or.inr hr, h⟩
  | eps | cc _ | cat _ _ | rep _ _ _ | ext _ => simp [altList]

theorem mem_insertU (x r : Regex) (l : List Regex) : r ∈ insertU x l ↔ r = x ∨ r ∈ l := by
  induction l with
  | nil => simp [insertU]
  | cons y ys ih =>
    simp only [insertU]
    split
    · simp
    · simp only [List.mem_cons, ih]
      constructor
      · rintro (h | h | h)
        · exact Or.inr (Or.inl h)
        · exact Or.inl h
        · exact Or.inr (Or.inr h)
      · rintro (h | h | h)
        · exact Or.inr (Or.inl h)
        · exact Or.inl h
        · exact Or.inr (Or.inr h)
    · split
      · rename_i heq
        have : x = y := by simpa using heq
        subst this
        simp
      · simp only [List.mem_cons, ih]
        constructor
        · rintro (h | h | h)
          · exact Or.inr (Or.inl h)
          · exact Or.inl h
          · exact Or.inr (Or.inr h)
        · rintro (h | h | h)
          · exact Or.inr (Or.inl h)
          · exact Or.inl h
          · exact Or.inr (Or.inr h)

theorem mem_foldr_insertU (r : Regex) (l : List Regex) : r ∈ l.foldr insertU [] ↔ r ∈ l := by
  induction l with
  | nil => simp
  | cons x xs ih => simp [List.foldr, mem_insertU, ih]

theorem mem_unionList (r : Regex) (l : List Regex) :
    r ∈ unionList l ↔ r ∈ l ∧ isEmptyCC r = false := by
  unfold unionList
  rw [mem_foldr_insertU]
  simp [List.mem_filter]

theorem L_unionList (l : List Regex) (w : List Int) :
    (∃ r ∈ unionList l, L r w) ↔ ∃ r ∈ l, L r w := by
  constructor
  · rintro ⟨r, hr, h⟩
    exact ⟨r, ((mem_unionList r l).1 hr).1, h⟩
  · rintro ⟨r, hr, h⟩
    refine ⟨r, (mem_unionList r l).2 ⟨hr, ?_⟩, h⟩
    cases he : isEmptyCC r with
    | false => rfl
    | true =>
      rw [isEmptyCC_eq he] at h
      exact absurd h (L_empty w)

theorem L_union (a b : Regex) (w : List Int) : L (union a b) w ↔ L a w ∨ L b w := by
  unfold union
  rw [L_altOf, L_unionList, ← L_altList a, ← L_altList b]
  simp only [List.mem_append]
  constructor
  · rintro ⟨r, hr | hr, h⟩
    · exact Or.inl ⟨r, hr, h⟩
    · exact Or.inr ⟨r, hr, h⟩
  · rintro (⟨r, hr, h⟩ | ⟨r, hr, h⟩)
    · exact ⟨r, Or.inl hr, h⟩
    · exact ⟨r, Or.inr hr, h⟩

/-! ### concatenation -/

theorem L_seqR (b a : Regex) (w : List Int) : L (seqR b a) w ↔ L (.cat a b) w := by
  induction a generalizing w with
  | eps =>
    simp only [seqR, L_cat, L_eps]
    constructor
    · intro h; exact ⟨[], w, rfl, rfl, h⟩
    · rintro ⟨u, v, e, hu, hv⟩
      subst hu; simpa [e] using hv
  | cat a1 a2 _ ih2 =>
    simp only [seqR, L_cat]
    constructor
    · rintro ⟨u, v, e, hu, hv⟩
      obtain ⟨u2, v2, e2, hu2, hv2⟩ := (ih2 v).1 hv
      exact ⟨u ++ u2, v2, by rw [e, e2, List.append_assoc], ⟨u, u2, rfl, hu, hu2⟩, hv2⟩
    · rintro ⟨u, v, e, ⟨u1, u2, e1, h1, h2⟩, hv⟩
      exact ⟨u1, u2 ++ v, by rw [e, e1, List.append_assoc], h1, (ih2 _).2 ⟨u2, v, rfl, h2, hv⟩⟩
  | cc c =>
    simp only [seqR]
    split
    · rename_i hc
      have : c = [] := by simpa using hc
      subst this
      constructor
      · intro h; exact absurd h (L_empty w)
      · rintro ⟨u, v, _, hu, _⟩; exact absurd hu (L_empty u)
    · exact Iff.rfl
  | alt x y ihx ihy =>
    simp only [seqR]
    rw [L_union, ihx, ihy]
    simp only [L_cat, L_alt]
    constructor
    · rintro (⟨u, v, e, hu, hv⟩ | ⟨u, v, e, hu, hv⟩)
      · exact ⟨u, v, e, Or.inl hu, hv⟩
      · exact ⟨u, v, e, Or.inr hu, hv⟩
    · rintro ⟨u, v, e, hu | hu, hv⟩
      · exact Or.inl ⟨u, v, e, hu, hv⟩
      · exact Or.inr ⟨u, v, e, hu, hv⟩
  | rep _ _ _ | ext _ => exact Iff.rfl

theorem L_seq (a b : Regex) (w : List Int) : L (seq a b) w ↔ ∃ u v, w = u ++ v ∧ L a u ∧ L b v := by
  unfold seq
  split
  · rename_i hb
    rw [isEmptyCC_eq hb]
    constructor
    · intro h; exact absurd h (L_empty w)
    · rintro ⟨u, v, _, _, hv⟩; exact absurd hv (L_empty v)
  · split
    · rename_i hb
      rw [isEps_eq hb]
      constructor
      · intro h; exact ⟨w, [], by simp, h, rfl⟩
      · rintro ⟨u, v, e, hu, hv⟩
        have : v = [] := hv
        subst this; simpa [e] using hu
    · rw [L_seqR]; exact Iff.rfl

theorem L_repS (r : Regex) (mn : Nat) (mx : Option Nat) (w : List Int) :
    L (repS r mn mx) w ↔ L (.rep r mn mx) w := by
  unfold repS
  split
  · split
    · rename_i hmn
      subst hmn
      rw [L_eps, L_rep]
      constructor
      · intro e; exact ⟨0, by omega, fun m hm => by simp, e⟩
      · rintro ⟨k, _, hk, hp⟩
        have : k = 0 := Nat.le_zero.1 (hk 0 rfl)
        subst this; exact hp
    · rename_i hmn
      rw [L_rep]
      constructor
      · intro h; exact absurd h (L_empty w)
      · rintro ⟨k, h1, hk, _⟩
        have : k = 0 := Nat.le_zero.1 (hk 0 rfl)
        omega
  · exact Iff.rfl

/-! ### powers -/

theorem pow_zero (P : List Int → Prop) (w : List Int) : Pow P 0 w ↔ w = [] := Iff.rfl

theorem pow_succ (P : List Int → Prop) (k : Nat) (w : List Int) :
    Pow P (k + 1) w ↔ ∃ u v, w = u ++ v ∧ P u ∧ Pow P k v := Iff.rfl

/-- a language containing the empty word: powers grow -/
theorem pow_mono_succ {P : List Int → Prop} (h0 : P []) (k : Nat) (w : List Int) (h : Pow P k w) :
    Pow P (k + 1) w := ⟨[], w, rfl, h0, h⟩

theorem pow_nil_iff (P : List Int → Prop) (k : Nat) : Pow P k [] ↔ k = 0 ∨ P [] := by
  induction k with
  | zero => simp [Regex.Pow]
  | succ k ih =>
    rw [pow_succ]
    constructor
    · rintro ⟨u, v, e, hu, _⟩
      have : u = [] := by
        cases u with
        | nil => rfl
        | cons _ _ => simp at e
      subst this
      exact Or.inr hu
    · rintro (h | h)
      · omega
      · refine ⟨[], [], rfl, h, ?_⟩
        rw [ih]
        by_cases hk : k = 0
        · exact Or.inl hk
        · exact Or.inr h

/-- the first non-empty factor of a non-empty word of `P^k` -/
theorem pow_cons {P : List Int → Prop} (k : Nat) (s : Int) (w : List Int) (h : Pow P k (s :: w)) :
    ∃ j u v, k = j + 1 ∧ w = u ++ v ∧ P (s :: u) ∧ Pow P j v := by
  induction k with
  | zero => cases h
  | succ k ih =>
    obtain ⟨u0, v0, e, hu, hv⟩ := h
    cases u0 with
    | nil =>
      simp only [List.nil_append] at e
      subst e
      obtain ⟨j, u, v, hk, e, h1, h2⟩ := ih hv
      exact ⟨j + 1, u, v, by omega, e, h1, pow_mono_succ hu j v h2⟩
    | cons s' u =>
      simp only [List.cons_append, List.cons.injEq] at e
      obtain ⟨rfl, rfl⟩ := e
      exact ⟨k, u, v0, rfl, rfl, hu, hv⟩

/-! ### the empty word -/

theorem nullable_iff (r : Regex) : nullable r = true ↔ L r [] := by
  induction r with
  | eps => simp [nullable, L_eps]
  | cc c => simp [nullable, L_cc]
  | cat a b iha ihb =>
    simp only [nullable, Bool.and_eq_true, iha, ihb, L_cat]
    constructor
    · rintro ⟨h1, h2⟩; exact ⟨[], [], rfl, h1, h2⟩
    · rintro ⟨u, v, e, hu, hv⟩
      have e' := e.symm
      rw [List.append_eq_nil_iff] at e'
      obtain ⟨rfl, rfl⟩ := e'
      exact ⟨hu, hv⟩
  | alt a b iha ihb => simp only [nullable, Bool.or_eq_true, iha, ihb, L_alt]
  | rep r mn mx ih =>
    simp only [nullable, Bool.and_eq_true, Bool.or_eq_true, decide_eq_true_eq, ih, L_rep]
    constructor
    · rintro ⟨hb, h⟩
      have hb' : ∀ m, mx = some m → mn ≤ m := by
        intro m hm; subst hm; simpa using hb
      rcases h with h | h
      · subst h
        exact ⟨0, Nat.le_refl _, fun m _ => Nat.zero_le _, rfl⟩
      · exact ⟨mn, Nat.le_refl _, hb', (pow_nil_iff _ _).2 (Or.inr h)⟩
    · rintro ⟨k, h1, h2, h3⟩
      refine ⟨?_, ?_⟩
      · cases mx with
        | none => rfl
        | some m => have := h2 m rfl; simp; omega
      · rcases (pow_nil_iff _ _).1 h3 with h | h
        · left; omega
        · right; exact h
  | ext n => simp [nullable]; exact L_ext n []

/-! ### derivatives -/

theorem L_cons_cat (a b : Regex) (s : Int) (w : List Int) :
    L (.cat a b) (s :: w) ↔ (L a [] ∧ L b (s :: w)) ∨ ∃ u v, w = u ++ v ∧ L a (s :: u) ∧ L b v := by
  rw [L_cat]
  constructor
  · rintro ⟨u, v, e, hu, hv⟩
    cases u with
    | nil => simp only [List.nil_append] at e; subst e; exact Or.inl ⟨hu, hv⟩
    | cons s' u =>
      simp only [List.cons_append, List.cons.injEq] at e
      obtain ⟨rfl, rfl⟩ := e
      exact Or.inr ⟨u, v, rfl, hu, hv⟩
  · rintro (⟨h1, h2⟩ | ⟨u, v, e, h1, h2⟩)
    · exact ⟨[], s :: w, rfl, h1, h2⟩
    · exact ⟨s :: u, v, by simp [e], h1, h2⟩

theorem deriv_correct (s : Int) (r : Regex) (w : List Int) : L (deriv s r) w ↔ L r (s :: w) := by
  induction r generalizing w with
  | eps =>
    simp only [deriv, L_eps]
    constructor
    · intro h; exact absurd h (L_empty w)
    · intro h; cases h
  | cc c =>
    simp only [deriv, L_cc]
    split
    · rename_i hm
      rw [L_eps]
      constructor
      · intro e; exact ⟨s, by rw [e], (memB_iff s c).1 hm⟩
      · rintro ⟨s', e, _⟩; simp at e; exact e.2
    · rename_i hm
      constructor
      · intro h; exact absurd h (L_empty w)
      · rintro ⟨s', e, h⟩
        simp at e
        obtain ⟨rfl, _⟩ := e
        exact absurd ((memB_iff _ _).2 h) hm
  | cat a b iha ihb =>
    rw [L_cons_cat]
    simp only [deriv]
    split
    · rename_i hn
      rw [L_union, L_seq, ihb]
      constructor
      · rintro (⟨u, v, e, hu, hv⟩ | h)
        · exact Or.inr ⟨u, v, e, (iha u).1 hu, hv⟩
        · exact Or.inl ⟨(nullable_iff a).1 hn, h⟩
      · rintro (⟨_, h⟩ | ⟨u, v, e, hu, hv⟩)
        · exact Or.inr h
        · exact Or.inl ⟨u, v, e, (iha u).2 hu, hv⟩
    · rename_i hn
      rw [L_seq]
      constructor
      · rintro ⟨u, v, e, hu, hv⟩
        exact Or.inr ⟨u, v, e, (iha u).1 hu, hv⟩
      · rintro (⟨h, _⟩ | ⟨u, v, e, hu, hv⟩)
        · exact absurd ((nullable_iff a).2 h) hn
        · exact ⟨u, v, e, (iha u).2 hu, hv⟩
  | alt a b iha ihb =>
    simp only [deriv]
    rw [L_union, iha, ihb, L_alt]
  | rep r mn mx ih =>
    simp only [deriv]
    split
    · rw [L_rep]
      constructor
      · intro h; exact absurd h (L_empty w)
      · rintro ⟨k, _, hk, hp⟩
        have : k = 0 := Nat.le_zero.1 (hk 0 rfl)
        subst this; cases hp
    · rename_i hmx
      rw [L_seq, L_rep]
      constructor
      · rintro ⟨u, v, e, hu, hv⟩
        rw [L_repS, L_rep] at hv
        obtain ⟨k', h1, h2, h3⟩ := hv
        refine ⟨k' + 1, by omega, ?_, s :: u, v, by simp [e], (ih u).1 hu, h3⟩
        intro m hm
        subst hm
        have := h2 (m - 1) rfl
        have hm0 : m ≠ 0 := by intro h0; subst h0; exact hmx rfl
        omega
      · rintro ⟨k, h1, h2, h3⟩
        obtain ⟨j, u, v, hk, e, hu, hv⟩ := pow_cons k s w h3
        refine ⟨u, v, e, (ih u).2 hu, ?_⟩
        rw [L_repS, L_rep]
        refine ⟨j, by omega, ?_, hv⟩
        intro m' hm'
        cases mx with
        | none => simp at hm'
        | some m =>
          simp at hm'
          have := h2 m rfl
          omega
  | ext n =>
    simp only [deriv]
    constructor
    · intro h; exact absurd h (L_empty w)
    · intro h; exact absurd h (L_ext n _)

theorem derivs_correct (r : Regex) (u w : List Int) : L (derivs r u) w ↔ L r (u ++ w) := by
  induction u generalizing r with
  | nil => exact Iff.rfl
  | cons s u ih =>
    show L (derivs (deriv s r) u) w ↔ _
    rw [ih, deriv_correct]
    rfl

theorem matchesB_iff (r : Regex) (w : List Int) : matchesB r w = true ↔ L r w := by
  unfold matchesB
  rw [nullable_iff, derivs_correct, List.append_nil]

/-! ### head normal form -/

/-- the non-empty words of `r{mn,mx}` start with a non-empty word of `r` -/
theorem L_rep_first (r hr : Regex) (hhr : ∀ w, L hr w ↔ L r w ∧ w ≠ []) (mn : Nat) (mx : Option Nat)
    (hmx : mx ≠ some 0) (w : List Int) :
    L (seq hr (repS r (mn - 1) (mx.map (· - 1)))) w ↔ L (.rep r mn mx) w ∧ w ≠ [] := by
  rw [L_seq, L_rep]
  constructor
  · rintro ⟨u, v, e, hu, hv⟩
    rw [hhr] at hu
    rw [L_repS, L_rep] at hv
    obtain ⟨k', h1, h2, h3⟩ := hv
    refine ⟨⟨k' + 1, by omega, ?_, u, v, e, hu.1, h3⟩, ?_⟩
    · intro m hm
      subst hm
      have := h2 (m - 1) rfl
      have hm0 : m ≠ 0 := by intro h0; subst h0; exact hmx rfl
      omega
    · intro hw
      rw [hw] at e
      have := (List.append_eq_nil_iff.1 e.symm).1
      exact hu.2 this
  · rintro ⟨⟨k, h1, h2, h3⟩, hne⟩
    cases w with
    | nil => exact absurd rfl hne
    | cons s w =>
      obtain ⟨j, u, v, hk, e, hu, hv⟩ := pow_cons k s w h3
      refine ⟨s :: u, v, by simp [e], (hhr _).2 ⟨hu, by simp⟩, ?_⟩
      rw [L_repS, L_rep]
      refine ⟨j, by omega, ?_, hv⟩
      intro m' hm'
      cases mx with
      | none => simp at hm'
      | some m =>
        simp at hm'
        have := h2 m rfl
        omega

theorem L_headsRep (r hr : Regex) (nr : Bool) (hhr : ∀ w, L hr w ↔ L r w ∧ w ≠ [])
    (hnr : nr = true → L r []) :
    ∀ (fuel mn : Nat) (mx : Option Nat) (w : List Int),
      L (headsRep hr nr r fuel mn mx) w ↔ L (.rep r mn mx) w ∧ w ≠ [] := by
  have hzero : ∀ (mn : Nat) (w : List Int), L empty w ↔ L (.rep r mn (some 0)) w ∧ w ≠ [] := by
    intro mn w
    constructor
    · intro h; exact absurd h (L_empty w)
    · rintro ⟨⟨k, _, hk, hp⟩, hne⟩
      have : k = 0 := Nat.le_zero.1 (hk 0 rfl)
      subst this
      exact absurd hp hne
  intro fuel
  induction fuel with
  | zero =>
    intro mn mx w
    simp only [headsRep]
    split
    · exact hzero mn w
    · rename_i hmx
      exact L_rep_first r hr hhr mn mx (fun h => hmx h) w
  | succ fuel ih =>
    intro mn mx w
    simp only [headsRep]
    split
    · exact hzero mn w
    · rename_i hmx
      have hmx' : mx ≠ some 0 := fun h => hmx h
      split
      · rename_i hcond
        simp only [Bool.and_eq_true] at hcond
        rw [L_union, ih, L_rep_first r hr hhr mn mx hmx' w]
        constructor
        · rintro (h | ⟨⟨k', h1, h2, h3⟩, hne⟩)
          · exact h
          · refine ⟨⟨k' + 1, by omega, ?_, pow_mono_succ (hnr hcond.1) _ _ h3⟩, hne⟩
            intro m hm
            subst hm
            have := h2 (m - 1) rfl
            have hm0 : m ≠ 0 := by intro h0; subst h0; exact hmx' rfl
            omega
        · intro h; exact Or.inl h
      · exact L_rep_first r hr hhr mn mx hmx' w

theorem L_heads (r : Regex) (w : List Int) : L (heads r) w ↔ L r w ∧ w ≠ [] := by
  induction r generalizing w with
  | eps =>
    simp only [heads, L_eps]
    constructor
    · intro h; exact absurd h (L_empty w)
    · rintro ⟨h, hne⟩; exact absurd h hne
  | cc c =>
    simp only [heads, L_cc]
    constructor
    · rintro ⟨s, e, h⟩; exact ⟨⟨s, e, h⟩, by rw [e]; simp⟩
    · rintro ⟨h, _⟩; exact h
  | cat a b iha ihb =>
    simp only [heads]
    split
    · rename_i hn
      rw [L_union, L_seq, ihb, L_cat]
      constructor
      · rintro (⟨u, v, e, hu, hv⟩ | ⟨h, hne⟩)
        · rw [iha] at hu
          refine ⟨⟨u, v, e, hu.1, hv⟩, ?_⟩
          intro hw
          rw [hw] at e
          exact hu.2 (List.append_eq_nil_iff.1 e.symm).1
        · exact ⟨⟨[], w, rfl, (nullable_iff a).1 hn, h⟩, hne⟩
      · rintro ⟨⟨u, v, e, hu, hv⟩, hne⟩
        by_cases hu0 : u = []
        · subst hu0
          simp only [List.nil_append] at e
          subst e
          exact Or.inr ⟨hv, hne⟩
        · exact Or.inl ⟨u, v, e, (iha u).2 ⟨hu, hu0⟩, hv⟩
    · rename_i hn
      rw [L_seq, L_cat]
      constructor
      · rintro ⟨u, v, e, hu, hv⟩
        rw [iha] at hu
        refine ⟨⟨u, v, e, hu.1, hv⟩, ?_⟩
        intro hw
        rw [hw] at e
        exact hu.2 (List.append_eq_nil_iff.1 e.symm).1
      · rintro ⟨⟨u, v, e, hu, hv⟩, _⟩
        refine ⟨u, v, e, (iha u).2 ⟨hu, ?_⟩, hv⟩
        intro hu0
        subst hu0
        exact hn ((nullable_iff a).2 hu)
  | alt a b iha ihb =>
    simp only [heads]
    rw [L_union, iha, ihb, L_alt]
    constructor
    · rintro (⟨h, hne⟩ | ⟨h, hne⟩)
      · exact ⟨Or.inl h, hne⟩
      · exact ⟨Or.inr h, hne⟩
    · rintro ⟨h | h, hne⟩
      · exact Or.inl ⟨h, hne⟩
      · exact Or.inr ⟨h, hne⟩
  | rep r mn mx ih =>
    simp only [heads]
    exact L_headsRep r (heads r) (nullable r) ih (nullable_iff r).1 _ mn mx w
  | ext n =>
    simp only [heads]
    constructor
    · intro h; exact absurd h (L_empty w)
    · rintro ⟨h, _⟩; exact absurd h (L_ext n w)

theorem L_norm (r : Regex) (w : List Int) : L (norm r) w ↔ L r w := by
  unfold norm
  split
  · rename_i hn
    rw [L_union, L_heads, L_eps]
    constructor
    · rintro (h | h)
      · subst h; exact (nullable_iff r).1 hn
      · exact h.1
    · intro h
      by_cases hw : w = []
      · exact Or.inl hw
      · exact Or.inr ⟨h, hw⟩
  · rename_i hn
    rw [L_heads]
    constructor
    · intro h; exact h.1
    · intro h
      refine ⟨h, ?_⟩
      intro hw
      subst hw
      exact hn ((nullable_iff r).2 h)

/-- The normalised derivative by a word (what `scanSpec` and the validator iterate). -/
def derivsN (r : Regex) (w : List Int) : Regex := w.foldl (fun r s => norm (deriv s r)) r

theorem derivsN_correct (r : Regex) (u w : List Int) : L (derivsN r u) w ↔ L r (u ++ w) := by
  induction u generalizing r with
  | nil => exact Iff.rfl
  | cons s u ih =>
    show L (derivsN (norm (deriv s r)) u) w ↔ _
    rw [ih, L_norm, deriv_correct]
    rfl

/-! ### emptiness -/

theorem pow_repeat {P : List Int → Prop} {u : List Int} (h : P u) (k : Nat) :
    ∃ w, Regex.Pow P k w := by
  induction k with
  | zero => exact ⟨[], rfl⟩
  | succ k ih =>
    obtain ⟨w, hw⟩ := ih
    exact ⟨u ++ w, u, w, rfl, h, hw⟩

theorem emptyB_false_iff (r : Regex) : emptyB r = false ↔ ∃ w, L r w := by
  induction r with
  | eps => simp only [emptyB, true_iff]; exact ⟨[], rfl⟩
  | cc c =>
    simp only [emptyB, Bool.not_eq_false', List.any_eq_true, decide_eq_true_eq]
    constructor
    · rintro ⟨p, hp, hle⟩
      exact ⟨[p.1], p.1, rfl, p, hp, Int.le_refl _, hle⟩
    · rintro ⟨w, s, _, p, hp, h1, h2⟩
      exact ⟨p, hp, by omega⟩
  | cat a b iha ihb =>
    simp only [emptyB, Bool.or_eq_false_iff, iha, ihb]
    constructor
    · rintro ⟨⟨u, hu⟩, ⟨v, hv⟩⟩
      exact ⟨u ++ v, u, v, rfl, hu, hv⟩
    · rintro ⟨w, u, v, _, hu, hv⟩
      exact ⟨⟨u, hu⟩, ⟨v, hv⟩⟩
  | alt a b iha ihb =>
    simp only [emptyB, Bool.and_eq_false_iff, iha, ihb]
    constructor
    · rintro (⟨w, h⟩ | ⟨w, h⟩)
      · exact ⟨w, Or.inl h⟩
      · exact ⟨w, Or.inr h⟩
    · rintro ⟨w, h | h⟩
      · exact Or.inl ⟨w, h⟩
      · exact Or.inr ⟨w, h⟩
  | rep r mn mx ih =>
    simp only [emptyB, Bool.or_eq_false_iff, Bool.and_eq_false_iff, decide_eq_false_iff_not, ih]
    constructor
    · rintro ⟨hb, h⟩
      have hb' : ∀ m, mx = some m → mn ≤ m := by
        intro m hm; subst hm; simpa using hb
      rcases h with h | ⟨u, hu⟩
      · have : mn = 0 := by omega
        subst this
        exact ⟨[], 0, Nat.le_refl _, fun m _ => Nat.zero_le _, rfl⟩
      · obtain ⟨w, hw⟩ := pow_repeat (P := L r) hu mn
        exact ⟨w, mn, Nat.le_refl _, hb', hw⟩
    · rintro ⟨w, k, h1, h2, h3⟩
      refine ⟨?_, ?_⟩
      · cases mx with
        | none => rfl
        | some m => have := h2 m rfl; simp; omega
      · by_cases hmn : 0 < mn
        · right
          cases k with
          | zero => omega
          | succ k =>
            obtain ⟨u, _, _, hu, _⟩ := h3
            exact ⟨u, hu⟩
        · left; exact hmn
  | ext n =>
    simp only [emptyB, Bool.true_eq_false, false_iff]
    rintro ⟨w, h⟩
    exact L_ext n w h

theorem emptyB_iff (r : Regex) : emptyB r = true ↔ ∀ w, ¬ L r w := by
  cases h : emptyB r with
  | true =>
    simp only [true_iff]
    intro w hw
    have := (emptyB_false_iff r).2 ⟨w, hw⟩
    rw [h] at this; cases this
  | false =>
    simp only [Bool.false_eq_true, false_iff]
    intro hall
    obtain ⟨w, hw⟩ := (emptyB_false_iff r).1 h
    exact hall w hw

end TmVerif.LexSpec
