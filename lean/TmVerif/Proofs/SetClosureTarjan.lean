import TmVerif.Proofs.GraphTarjan
/-!
What `set.Closure.closure` relies on when it asks `onStack.Get(w)` for a successor `w` of a vertex of the
component it was just given: the bit is set exactly when `w` belongs to that same component.
(`onStack` also contains the vertices of unfinished components further down the stack, but no edge of the
reported component leads there: such an edge would make the two components one.)
Proved for the mirror `tarjanRun` of `graph.Tarjan` on top of the invariants of Proofs/GraphTarjan.lean.
-/
namespace TmVerif.Graph

/-- the `onStack` argument of one callback invocation is exact on the successors of the component -/
def SnapOk (g : Graph) (e : List Nat × List Nat) : Prop :=
  ∀ v ∈ e.1, ∀ w, Edge g v w → (w ∈ e.2 ↔ w ∈ e.1)

def OutSnap (g : Graph) (s : TS) : Prop := ∀ e ∈ s.out, SnapOk g e

theorem OutSnap.setLow {g : Graph} {s : TS} (h : OutSnap g s) (v : Nat) (x : Int) : OutSnap g (s.setLow v x) := h

def SnapSpec (g : Graph) (fuel : Nat) : Prop :=
  ∀ gs v s, TInv g gs s → v < g.length → s.idx v = -1 → s.unv < fuel →
    (∀ y ∈ s.stack, Reach g y v) → OutSnap g s → OutSnap g (strongConnect g fuel v s)

theorem snap_step {g : Graph} (hwf : Wf g) {fuel : Nat} (ih : SnapSpec g fuel) {gs : List Nat} {u : Nat}
    {s0 : TS} (h0 : TInv g gs s0) (w : Nat) (t : TS) (hw : Edge g u w)
    {done : List Nat} {seg : List Nat} (L : SLoop g gs u s0 done t seg) (hfuel : s0.unv < fuel + 1)
    (ho : OutSnap g t) : OutSnap g (scStep (strongConnect g fuel) u t w) := by
  have hwn : w < g.length := hwf _ _ hw
  have hs0t : ∀ y ∈ s0.stack, y ∈ t.stack := by intro y hy; rw [L.stack]; simp [hy]
  unfold scStep
  by_cases hA : t.idx w = -1
  · rw [if_pos hA]
    have hreach : ∀ y ∈ t.stack, Reach g y w := by
      intro y hy
      obtain ⟨z, hz, _, hyz⟩ := L.inv.gray y hy
      simp only [List.mem_cons] at hz
      rcases hz with rfl | hz
      · exact hyz.trans (Reach.edge hw)
      · have hzs := h0.gsSub z hz
        have hzu : Reach g z u := by
          apply L.inv.stReach z (hs0t z hzs) u (L.inv.gsSub u (by simp))
          rw [L.frame.idx z (h0.stLt z hzs) (h0.stVis z hzs), L.idxU]
          rcases h0.idxR z (h0.stLt z hzs) with e | e
          · exact absurd e (h0.stVis z hzs)
          · omega
        exact (hyz.trans hzu).trans (Reach.edge hw)
    have := ih (u :: gs) w t L.inv hwn hA (by have := L.unv; omega) hreach ho
    simp only
    split
    · exact this.setLow _ _
    · exact this
  · rw [if_neg hA]
    split
    · exact ho.setLow _ _
    · exact ho

theorem snap_spec {g : Graph} (hwf : Wf g) : ∀ fuel, SnapSpec g fuel := by
  intro fuel
  induction fuel with
  | zero => intro gs v s _ _ _ hf; omega
  | succ fuel ih =>
    intro gs v s h hv hidx hfuel hreach ho
    simp only [strongConnect]
    have hcur := h.currNN
    have L0 : (∃ seg, SLoop g gs v s [] (s.push v) seg) ∧ OutSnap g (s.push v) := by
      have hI : (s.push v).idx v = s.curr := by rw [TS.push_idx]; simp [h.lenI, hv]
      have hLw : (s.push v).low v = s.curr := by rw [TS.push_low]; simp [h.lenL, hv]
      refine ⟨⟨[], h.push hv hidx hreach, Frame.push h hv hidx, rfl, fun x hx => (by cases hx), hI,
        (by show s.curr < s.curr + 1; omega), ?_,
        (by rw [hI, hLw]; exact Int.le_refl _), ⟨v, (by simp), (by rw [hI, hLw]), Reach.refl _ _⟩,
        fun x hx => (by cases hx), ?_⟩, ho⟩
      · have := s.push_unv v (by rw [h.lenI]; exact hv) hidx hcur; omega
      · intro x y _ _ hx
        rcases hx with hx | ⟨_, hx⟩ <;> cases hx
    have hloop := foldl_inv (fun done t => (∃ seg, SLoop g gs v s done t seg) ∧ OutSnap g t)
      (scStep (strongConnect g fuel) v) (succs g v) [] (s.push v) L0
      (fun done w t hw hL => by
        obtain ⟨seg, L⟩ := hL.1
        exact ⟨sc_step hwf (sc_spec hwf fuel) h hv hidx hfuel done w t hw hL.1,
          snap_step hwf ih h w t hw L hfuel hL.2⟩)
    simp only [List.nil_append] at hloop
    generalize (succs g v).foldl (scStep (strongConnect g fuel) v) (s.push v) = t at hloop
    obtain ⟨⟨seg, L⟩, ho'⟩ := hloop
    by_cases hroot : t.low v = t.idx v
    · rw [scPop_root L.stack hroot]
      intro e he
      simp only [TS.popped, List.mem_cons] at he
      rcases he with rfl | he
      · -- the new entry
        have hsorted := L.inv.stSorted
        rw [L.stack] at hsorted
        intro x hx y hxy
        have hyn : y < g.length := hwf _ _ hxy
        have hxc : x ∈ seg ∨ x = v := by
          simp only [List.mem_reverse, List.mem_append, List.mem_singleton] at hx; exact hx
        have hsnap : y ∈ (List.range t.onStack.length).filter t.on ↔ y ∈ t.stack := by
          rw [List.mem_filter, List.mem_range, L.inv.lenO]
          constructor
          · intro hh; exact (L.inv.onIff y hyn).1 hh.2
          · intro hh; exact ⟨hyn, (L.inv.onIff y hyn).2 hh⟩
        show y ∈ (List.range t.onStack.length).filter t.on ↔ y ∈ (seg ++ [v]).reverse
        rw [hsnap, L.stack]
        simp only [List.mem_reverse, List.mem_append, List.mem_cons, List.not_mem_nil, or_false]
        constructor
        · rintro (hy | rfl | hy)
          · exact .inl hy
          · exact .inr rfl
          · exfalso
            have h1 : t.low v ≤ t.idx y := by
              rcases hxc with hxs | rfl
              · exact L.edges x y hy hxy (.inl hxs)
              · exact L.edges x y hy hxy (.inr ⟨rfl, hxy⟩)
            have h2 : t.idx y < t.idx v := by
              have := (List.pairwise_append.1 hsorted).2.1
              rw [List.pairwise_cons] at this
              exact this.1 y hy
            omega
        · rintro (hy | rfl)
          · exact .inl hy
          · exact .inr (.inl rfl)
      · exact ho' e he
    · rw [scPop_nonroot _ hroot]
      exact ho'

/-- Every `(component, onStack)` pair handed to the callback by the mirror of `Tarjan`: a successor of
a vertex of the component is on the stack exactly when it lies in the component. -/
theorem tarjanRun_snap {g : Graph} (hwf : Wf g) : ∀ e ∈ tarjanRun g, SnapOk g e := by
  unfold tarjanRun
  split
  · intro e he; cases he
  · have key : ∀ k, k ≤ g.length →
        OutSnap g (forUpTo k (fun i s => if s.idx i = -1 then strongConnect g (g.length + 1) i s else s)
          (tarjanInit g.length)) := by
      intro k
      induction k with
      | zero => intro _ e he; simp [forUpTo, tarjanInit] at he
      | succ k ih =>
        intro hk
        have h1 := (tarjan_top hwf k (by omega)).1
        have ho := ih (by omega)
        simp only [forUpTo]
        generalize forUpTo k (fun i s => if s.idx i = -1 then strongConnect g (g.length + 1) i s else s)
          (tarjanInit g.length) = s at h1 ho
        by_cases hidx : s.idx k = -1
        · rw [if_pos hidx]
          have hst := h1.stack_nil
          exact snap_spec hwf (g.length + 1) [] k s h1 (by omega) hidx
            (by have := s.unv_le; rw [h1.lenI] at this; omega) (by rw [hst]; intro y hy; cases hy) ho
        · rw [if_neg hidx]; exact ho
    intro e he
    exact key g.length (Nat.le_refl _) e (List.mem_reverse.1 he)

theorem tarjanRun_comps (g : Graph) : (tarjanRun g).map (·.1) = tarjan g := rfl

end TmVerif.Graph
