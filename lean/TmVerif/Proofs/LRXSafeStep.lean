/-
Helper lemmas for C19 panic-freedom, part 3: the invariant `XInv` of the extended runtime and the
loop iteration up to the error branch (`xpre`): never a panic, the invariant is kept.
-/
import TmVerif.Proofs.LRXSafeReduce
import TmVerif.Proofs.LRX
namespace TmVerif.LRX
open TmVerif.LR TmVerif.CFG TmVerif.LRSound
variable {g : Grammar} {x : XTables} {cert : Cert} {xc : XCert} {i : Nat}

/-! ### folds over `Option` accumulators with absorbing `none` -/

theorem foldl_opt_inv {α β : Type} (f : Option β → α → Option β) (P : β → Prop) :
    ∀ (l : List α) (b0 : β), P b0 →
      (∀ b a, a ∈ l → P b → ∃ b', f (some b) a = some b' ∧ P b') →
      ∃ b, l.foldl f (some b0) = some b ∧ P b
  | [], b0, h0, _ => ⟨b0, rfl, h0⟩
  | a :: l, b0, h0, hstep => by
    obtain ⟨b1, e1, h1⟩ := hstep b0 a (by simp) h0
    obtain ⟨b, e, hb⟩ := foldl_opt_inv f P l b1 h1 (fun b a ha hb => hstep b a (by simp [ha]) hb)
    exact ⟨b, by rw [List.foldl_cons, e1]; exact e, hb⟩

theorem foldl_opt_ne_none {α β : Type} (f : Option β → α → Option β) (l : List α) (b0 : β)
    (hstep : ∀ b a, a ∈ l → ∃ b', f (some b) a = some b') : l.foldl f (some b0) ≠ none := by
  obtain ⟨b, hb, _⟩ := foldl_opt_inv f (fun _ => True) l b0 trivial
    (fun b a ha _ => let ⟨b', hb'⟩ := hstep b a ha; ⟨b', hb', trivial⟩)
  rw [hb]; exact fun h => nomatch h

/-! ### the listener calls of a reduction -/

theorem rhsAt_some (rhsTop : List Entry) (ln j : Nat) (h : rhsTop.length = ln) (hj : j < ln) :
    ∃ e, rhsAt rhsTop ln j = some e := by
  unfold rhsAt
  simp only [hj, if_true]
  have : ln - 1 - j < rhsTop.length := by omega
  exact ⟨rhsTop[ln - 1 - j], List.getElem?_eq_getElem this⟩

theorem trimTrailing_ne_nil : ∀ l : List Entry, l ≠ [] → trimTrailing l ≠ []
  | [], h => absurd rfl h
  | [e], _ => by simp [trimTrailing]
  | e :: e' :: rest, _ => by
    rw [trimTrailing]
    split
    · exact trimTrailing_ne_nil (e' :: rest) (by simp)
    · simp

theorem filterMap_length_of_some {α β : Type} (f : α → Option β) :
    ∀ l : List α, (∀ a ∈ l, ∃ b, f a = some b) → (l.filterMap f).length = l.length
  | [], _ => rfl
  | a :: l, h => by
    obtain ⟨b, hb⟩ := h a (by simp)
    rw [List.filterMap_cons, hb]
    simp only [List.length_cons]
    rw [filterMap_length_of_some f l (fun a ha => h a (by simp [ha]))]

theorem applyRuleEvents_some (hx : XFacts g x cert xc) {rule ln : Int} (hr0 : 0 ≤ rule)
    (hl : geti x.t.ruleLen rule = some ln) (stk : List Entry) (hlen : ln.toNat ≤ stk.length)
    (off endo : Nat) : ∃ r, applyRuleEvents x rule ln.toNat off endo stk = some r := by
  unfold applyRuleEvents
  have hneg : ¬ rule < 0 := by omega
  simp only [hneg, if_false]
  cases hinfo : x.rules[rule.toNat]? with
  | none => exact ⟨_, rfl⟩
  | some info =>
    simp -zeta only
    have hrep := hx.reports rule.toNat info ln hinfo (by rw [Int.toNat_of_nonneg hr0]; exact hl)
    have htl : (stk.take ln.toNat).length = ln.toNat := by
      rw [List.length_take]; omega
    split
    · next heq =>
      refine absurd heq (foldl_opt_ne_none _ _ _ (by

        intro evs r hr
        obtain ⟨h1, h2, h3⟩ := hrep r hr
        simp only
        by_cases he : r.start = r.stop
        · obtain ⟨e, hes⟩ := rhsAt_some (stk.take ln.toNat) ln.toNat r.stop htl (h3 he)
          simp only [he, if_true, hes]
          exact ⟨_, rfl⟩
        · simp only [he, if_false]
          by_cases hf : x.fixWhitespace = true
          · simp only [hf, if_true]
            have hlen2 : ((List.range (r.stop - r.start)).reverse.filterMap fun k =>
                rhsAt (stk.take ln.toNat) ln.toNat (r.start + k)).length = r.stop - r.start := by
              rw [filterMap_length_of_some]
              · simp
              · intro k hk
                simp only [List.mem_reverse, List.mem_range] at hk
                exact rhsAt_some _ _ _ htl (by omega)
            simp only [hlen2, ne_eq, not_true_eq_false, if_false]
            have hne : ((List.range (r.stop - r.start)).reverse.filterMap fun k =>
                rhsAt (stk.take ln.toNat) ln.toNat (r.start + k)) ≠ [] := by
              intro e
              have := congrArg List.length e
              rw [hlen2] at this
              simp only [List.length_nil] at this
              omega
            have := trimTrailing_ne_nil _ hne
            cases htt : trimTrailing ((List.range (r.stop - r.start)).reverse.filterMap fun k =>
                rhsAt (stk.take ln.toNat) ln.toNat (r.start + k)) with
            | nil => exact absurd htt this
            | cons last rest => exact ⟨_, rfl⟩
          · simp only [hf, Bool.false_eq_true, if_false]
            obtain ⟨a, ha⟩ := rhsAt_some (stk.take ln.toNat) ln.toNat r.start htl (by omega)
            obtain ⟨b, hb⟩ := rhsAt_some (stk.take ln.toNat) ln.toNat (r.stop - 1) htl (by omega)
            rw [ha, hb]
            exact ⟨_, rfl⟩))
    · exact ⟨_, rfl⟩
/-- a fetched token is the token at the position before `pos` -/
def XNextOk (inp : Input) (c : XCfg) : Prop :=
  ∀ tk, c.next = some tk → 1 ≤ c.pos ∧ tk = inp.tok (c.pos - 1)

/-- the invariant of the extended runtime: the states on the stack form a certified path -/
def XInv (g : Grammar) (x : XTables) (cert : Cert) (i : Nat) (inp : Input) (c : XCfg) : Prop :=
  ∃ (s : Nat) (rest : List Nat) (syms : List Int), StOk g x cert i (s :: rest) syms ∧
    c.stack.map (·.state) = (s :: rest).map Int.ofNat ∧ c.state = (s : Int) ∧ XNextOk inp c

theorem xinv_xinit (hcl : ReachClosed g x cert) (inp : Input) (hi : i < g.inputs.size) :
    XInv g x cert i inp (xinit inp i) :=
  ⟨i, [], [], .base hi (hcl i hi).1, rfl, rfl, by
    intro tk h
    simp only [xinit, Option.some.injEq] at h
    exact ⟨Nat.le_refl _, h.symm⟩⟩

theorem xfetch_some {inp : Input} {c : XCfg} {tk : Tok} (h : c.next = some tk) :
    c.fetch inp = (c, tk) := by
  unfold XCfg.fetch; rw [h]

theorem xfetch_none {inp : Input} {c : XCfg} (h : c.next = none) :
    c.fetch inp = ({ c with next := some (inp.tok c.pos), pos := c.pos + 1 }, inp.tok c.pos) := by
  unfold XCfg.fetch; rw [h]

theorem xfetch_spec (inp : Input) (c : XCfg) (h : XNextOk inp c) :
    (c.fetch inp).1.next = some (c.fetch inp).2 ∧ (∃ j, (c.fetch inp).2 = inp.tok j) ∧
    (c.fetch inp).1.stack = c.stack ∧ (c.fetch inp).1.state = c.state ∧
    XNextOk inp (c.fetch inp).1 := by
  cases hn : c.next with
  | some tk =>
    rw [xfetch_some hn]
    exact ⟨hn, ⟨_, (h tk hn).2⟩, rfl, rfl, h⟩
  | none =>
    rw [xfetch_none hn]
    refine ⟨rfl, ⟨_, rfl⟩, rfl, rfl, ?_⟩
    intro tk htk
    simp only [Option.some.injEq] at htk
    exact ⟨Nat.le_add_left _ _, by rw [← htk]; simp⟩

theorem XInv.fetch {inp : Input} {c : XCfg} (h : XInv g x cert i inp c) :
    XInv g x cert i inp (c.fetch inp).1 := by
  obtain ⟨s, rest, syms, h1, h2, h3, h4⟩ := h
  obtain ⟨_, _, f3, f4, f5⟩ := xfetch_spec inp c h4
  exact ⟨s, rest, syms, h1, by rw [f3]; exact h2, by rw [f4]; exact h3, f5⟩

/-- `xdecode` on certified tables: defined; the configuration changes by a fetch at most, and the
action is the one the certificate has checked -/
theorem xdecode_spec (hc : CertFacts g x.t cert) {inp : Input} (htok : TokOk x.t inp)
    (h0 : 0 < x.t.nTerms) (c : XCfg) (s : Nat) (hs : s < x.t.nStates) (hst : c.state = (s : Int))
    (hn : XNextOk inp c) :
    ∃ c1 act, xdecode x inp c = some (c1, act) ∧
      c1.stack = c.stack ∧ c1.state = c.state ∧ XNextOk inp c1 ∧
      ((∃ (a : Nat) (tk : Tok), c1.next = some tk ∧ tk.sym = (a : Int) ∧ a < x.t.nTerms ∧
          needsTok x.t s = some true ∧
          actOf x.t noDeep s a = some act ∧ actOk g x.t cert s (some a, some act) = true) ∨
       (actOf x.t noDeep s (0 : Nat) = some act ∧
          actOk g x.t cert s (none, some act) = true)) := by
  unfold xdecode
  rw [hst]
  cases hnt : needsTok x.t (s : Int) with
  | none =>
    have hmem : (none, none) ∈ stateActs x.t s := by unfold stateActs; rw [hnt]; simp
    have := hc.acts s hs _ hmem
    simp [actOk] at this
  | some b =>
    cases b with
    | true =>
      simp only
      obtain ⟨f1, ⟨j, f2⟩, f3, f4, f5⟩ := xfetch_spec inp c hn
      obtain ⟨a, ha1, ha2⟩ := tok_range htok h0 j
      rw [← f2] at ha1
      have hmem : (some a, actOf x.t noDeep s a) ∈ stateActs x.t s := by
        unfold stateActs; rw [hnt]
        simp only [List.mem_map, List.mem_range]
        exact ⟨a, ha2, rfl⟩
      have hok := hc.acts s hs _ hmem
      cases hx : actOf x.t noDeep s a with
      | none => rw [hx] at hok; simp [actOk] at hok
      | some act =>
        rw [hx] at hok
        rw [ha1, actOf_noDeep x.t _ s a act hx]
        exact ⟨_, act, rfl, f3, f4.trans hst, f5, Or.inl ⟨a, _, f1, ha1, ha2, trivial, hx, hok⟩⟩
    | false =>
      simp only
      have hmem : (none, actOf x.t noDeep s 0) ∈ stateActs x.t s := by
        unfold stateActs; rw [hnt]; simp
      have hok := hc.acts s hs _ hmem
      cases hx : actOf x.t noDeep (s : Int) 0 with
      | none => rw [hx] at hok; simp [actOk] at hok
      | some act =>
        rw [hx] at hok
        have e : actOf x.t (fun _ => none) (s : Int) 0 = some act := hx
        rw [e]
        exact ⟨c, act, rfl, rfl, hst, hn, Or.inr ⟨rfl, hok⟩⟩

theorem XInv.congr {inp : Input} {c c' : XCfg} (h : XInv g x cert i inp c)
    (h1 : c'.stack = c.stack) (h2 : c'.state = c.state) (h3 : c'.next = c.next)
    (h4 : c'.pos = c.pos) : XInv g x cert i inp c' := by
  obtain ⟨s, rest, syms, a, b, c0, d⟩ := h
  refine ⟨s, rest, syms, a, by rw [h1]; exact b, by rw [h2]; exact c0, ?_⟩
  intro tk htk
  rw [h3] at htk
  rw [h4]
  exact d tk htk

/-- the tail of the reduce branch under the invariant: always continues -/
theorem xreduceTail_safe (hx : XFacts g x cert xc) {inp : Input} {c2 : XCfg} {rule : Int}
    {r : Rule} {s p' q : Nat} {rest rest' : List Nat} {syms' : List Int} (off endo : Nat)
    (hr0 : 0 ≤ rule) (hlen : geti x.t.ruleLen rule = some (r.rhs.length : Int))
    (hstk : c2.stack.map (·.state) = (s :: rest).map Int.ofNat)
    (hdrop : (s :: rest).drop r.rhs.length = p' :: rest')
    (hg : gotoState x.t p' r.lhs = some (q : Int))
    (hnew : StOk g x cert i (q :: p' :: rest') syms') (hn : XNextOk inp c2) :
    ∃ c3, xreduceTail x c2 rule r.rhs.length r.lhs off endo = .cont c3 ∧ XInv g x cert i inp c3 ∧
      (∃ e, e.state = (q : Int) ∧ c3.stack = e :: c2.stack.drop r.rhs.length) ∧ c3.state = (q : Int) ∧
      c3.next = c2.next ∧ c3.pos = c2.pos := by
  have hl : r.rhs.length ≤ c2.stack.length := by
    have h1 := congrArg List.length hstk
    have h2 := congrArg List.length hdrop
    simp only [List.length_map, List.length_cons, List.length_drop] at h1 h2
    omega
  obtain ⟨⟨evs, endo'⟩, hev⟩ := applyRuleEvents_some hx hr0 hlen c2.stack
    (by rw [Int.toNat_natCast]; exact hl) off endo
  rw [Int.toNat_natCast] at hev
  have hd : (c2.stack.drop r.rhs.length).map (·.state) = (p' :: rest').map Int.ofNat := by
    rw [List.map_drop, hstk, ← List.map_drop, hdrop]
  unfold xreduceTail
  rw [hev]
  simp only
  cases hz : c2.stack.drop r.rhs.length with
  | nil => rw [hz] at hd; simp at hd
  | cons top tl =>
    rw [hz] at hd
    simp only [List.map_cons, List.cons.injEq] at hd
    simp only
    have e : top.state = ((p' : Nat) : Int) := hd.1
    rw [e, hg]
    have hq : ¬ ((q : Int) = -1) := by omega
    simp only [hq, if_false]
    refine ⟨_, rfl, ⟨q, p' :: rest', syms', hnew, ?_, rfl, ?_⟩, ⟨_, rfl, rfl⟩, rfl, rfl, rfl⟩
    · simp only [List.map_cons, List.cons.injEq]
      exact ⟨rfl, e, hd.2⟩
    · exact hn

/-- what a pre-step may produce under the invariant -/
def XPre.Safe (g : Grammar) (x : XTables) (cert : Cert) (i : Nat) (inp : Input) : XPre → Prop
  | .cont c => XInv g x cert i inp c
  | .err c => XInv g x cert i inp c
  | .done r _ => r ≠ .panic

theorem xpre_safe (hc : CertFacts g x.t cert) (hx : XFacts g x cert xc) {inp : Input}
    (htok : TokOk x.t inp) (k : Nat) (c : XCfg) (h : XInv g x cert i inp c)
    (hne : c.state ≠ finOf x i) :
    (xpre x inp k c).Safe g x cert i inp := by
  obtain ⟨s, rest, syms, hstk, hmap, hst, hn⟩ := h
  have hi := hstk.input_lt
  have hne' : (s : Int) ≠ finOf x i := by rw [← hst]; exact hne
  have hs : s < x.t.nStates := hstk.lt hc s (by simp)
  have h0 : 0 < x.t.nTerms := by have := (wfFacts hc.wf).nTermsPos; have := hc.nTerms; omega
  obtain ⟨c1, act, hd, e1, e2, hn1, hact⟩ := xdecode_spec hc htok h0 c s hs hst hn
  unfold xpre
  rw [hd]
  rw [← e1] at hmap
  cases act with
  | error =>
    simp only
    unfold xerrorPre
    have hinv : XInv g x cert i inp c1 := ⟨s, rest, syms, hstk, hmap, e2.trans hst, hn1⟩
    split
    · split
      · exact fun h => nomatch h
      · exact hinv.congr rfl rfl rfl rfl
    · exact hinv
  | shift q =>
    simp only
    rcases hact with ⟨a, tk, ha1, ha2, ha3, ha4, ha5, ha6⟩ | ⟨_, hact⟩
    · unfold xshiftPre
      split
      · exact fun h => nomatch h
      · rw [ha1]
        simp only
        have hE : TermEdge x.t s a q := ⟨hs, ha3, ha4, ha5⟩
        obtain ⟨q', hq', _, hq2, hq3⟩ := edgeOk_elim (show edgeOk g.inputs.size x.t cert s (a : Nat) q = true from ha6)
        subst hq'
        have hedge : (s, a, (q' : Int)) ∈ xedges x := List.mem_append_left _ (termEdge_mem hE)
        refine ⟨q', s :: rest, _, StOk.push q' s rest a syms hstk hedge hq2 hq3
          ((hx.closed hc i hi).2 s a q' hedge (hstk.mem_reach s (by simp))), ?_, rfl, ?_⟩
        · simp only [List.map_cons, List.cons.injEq]
          exact ⟨rfl, by simpa using hmap⟩
        · intro tk' htk'
          simp only at htk'
          split at htk'
          · cases htk'
          · exact hn1 tk' (ha1.trans htk')
    · simp [actOk] at hact
  | reduce r =>
    simp only
    have hact0 : ∃ a, a < x.t.nTerms ∧ actOf x.t noDeep s a = some (.reduce r) := by
      rcases hact with ⟨a, _, _, _, ha3, _, ha5, _⟩ | ⟨ha, _⟩
      · exact ⟨a, ha3, ha5⟩
      · exact ⟨0, h0, ha⟩
    obtain ⟨a, ha, hra⟩ := hact0
    obtain ⟨rule, p', rest', q, hr0, hrule, hlen, hsym, hdrop, hg, hnew, _⟩ :=
      hstk.reduce hc hx.rk (hx.closed hc) ha hne' hra
    have hl : rule.rhs.length < c1.stack.length := by
      have h1 := congrArg List.length hmap
      have h2 := congrArg List.length hdrop
      simp only [List.length_map, List.length_cons, List.length_drop] at h1 h2
      omega
    unfold xreducePre
    rw [hlen, hsym]
    simp only [Int.toNat_natCast]
    have hgt : ¬ rule.rhs.length > c1.stack.length := by omega
    simp only [hgt, if_false]
    by_cases hz : rule.rhs.length = 0
    · simp only [hz, if_true]
      obtain ⟨_, _, f3, _, f5⟩ := xfetch_spec inp c1 hn1
      obtain ⟨c3, hc3, hinv, _⟩ := xreduceTail_safe hx (inp := inp) (c2 := (c1.fetch inp).1)
        (c1.fetch inp).2.off (c1.fetch inp).2.off hr0 hlen (by rw [f3]; exact hmap) hdrop hg hnew f5
      rw [hz] at hc3
      rw [hc3]
      exact hinv
    · simp only [hz, if_false]
      obtain ⟨c3, hc3, hinv, _⟩ := xreduceTail_safe hx (inp := inp) (c2 := c1)
        (((c1.stack.take rule.rhs.length).getLast?.map (·.off)).getD 0)
        (((c1.stack.take rule.rhs.length).head?.map (·.endo)).getD 0) hr0 hlen hmap hdrop hg hnew hn1
      rw [hc3]
      exact hinv
end TmVerif.LRX
