import TmVerif.Model.Proto
import TmVerif.Model.LexTables
import TmVerif.Model.ShiftDfa
/-!
Line protocol of C24.

case:   `t <scanBytes> <numSymbols> <starts> <targets> <stateMap> <dfa> <btActions> <btNextStates> <input hex>…`
answer: `wf=<0|1> pack=<ok|states|bt|start|ascii|actions|eoi:N|panic> [tbl=<run-length table> eoi=<11 values>
         p=<size:token,…>] l=<size:action|panic,…>`
  (`p`: packed scanner on every input, `l`: `Tables.Scan(0, input)` on every input).
judge:  `judge <answer tokens of the implementation> :: <case tokens>` — the implementation's answer
  violates the property iff the tables are well-formed byte-mode tables, `Pack` accepted them, and the
  implementation's own `p` and `l` differ on some input.
-/
namespace TmVerif.DriverC24
open TmVerif.Proto TmVerif.LexTables TmVerif.ShiftDfa

def hexDigits (n : Nat) : List Char :=
  if _h : n < 16 then [hexChar n] else hexDigits (n / 16) ++ [hexChar (n % 16)]
termination_by n
decreasing_by omega

def showHexNat (n : Nat) : String := String.ofList (hexDigits n)

def parseTables (sb ns starts targets stateMap dfa btA btN : String) : Option Tables := do
  let sb ← parseBool? sb
  let ns ← parseInt? ns
  let starts ← parseInts starts
  let targets ← parseInts targets
  let stateMap ← parseInts stateMap
  let dfa ← parseInts dfa
  let btA ← parseInts btA
  let btN ← parseInts btN
  if starts.length ≠ targets.length ∨ btA.length ≠ btN.length then none
  else
    some {
      scanBytes := sb
      symbolMap := (starts.zipWith (fun s t => (⟨s, t⟩ : RangeEntry)) targets).toArray
      numSymbols := ns
      stateMap := stateMap.toArray
      dfa := dfa.toArray
      backtrack := (btA.zipWith (fun a n => (⟨a, n⟩ : Checkpoint)) btN).toArray }

def showErr : PackErr → String
  | .tooManyStates => "states"
  | .backtracking => "bt"
  | .startStates => "start"
  | .notAscii => "ascii"
  | .tooManyActions => "actions"
  | .eoiTransition q => s!"eoi:{q}"
  | .panic => "panic"

/-- run-length encoding of the 256 table rows: `start:hexvalue` for every run -/
def showTable (tb : Array Nat) : String :=
  let rows := (List.range 256).filter fun b => b == 0 || tb.getD b 0 != tb.getD (b - 1) 0
  ",".intercalate (rows.map fun b => s!"{b}:{showHexNat (tb.getD b 0)}")

def showPair (p : Nat × Nat) : String := s!"{p.1}:{p.2}"

def showLex : Option (Nat × Int) → String
  | some (s, a) => s!"{s}:{a}"
  | none => "panic"

def answer (t : Tables) (inputs : List (List UInt8)) : String :=
  let l := ",".intercalate (inputs.map fun i => showLex (lexScanBytes t 0 i))
  let wf := showBool t.wf
  match pack t with
  | .error e => s!"wf={wf} pack={showErr e} l={l}"
  | .ok s =>
    let eoi := ",".intercalate ((List.range 11).map fun i => toString (s.onEoi.getD i 0))
    let p := ",".intercalate (inputs.map fun i => showPair (s.scan i))
    s!"wf={wf} pack=ok tbl={showTable s.table} eoi={eoi} p={p} l={l}"

def parseInputs (l : List String) : Option (List (List UInt8)) :=
  l.mapM fun s => (parseHex s).map fun bs => bs.map UInt8.ofNat

def field? (pre : String) (toks : List String) : Option String :=
  (toks.find? (·.startsWith pre)).map fun s => (s.drop pre.length).toString

def splitAt (sep : String) : List String → List String × List String
  | [] => ([], [])
  | x :: rest => if x == sep then ([], rest) else let (a, b) := splitAt sep rest; (x :: a, b)

def judge (goToks caseToks : List String) : Option String :=
  match caseToks with
  | "t" :: sb :: ns :: starts :: targets :: stateMap :: dfa :: btA :: btN :: inputs => do
    let t ← parseTables sb ns starts targets stateMap dfa btA btN
    if field? "pack=" goToks != some "ok" then some "holds"
    else if !(t.wf && t.scanBytes) then some "holds"
    else
      let p := ((field? "p=" goToks).getD "").splitOn ","
      let l := ((field? "l=" goToks).getD "").splitOn ","
      let bad := ((p.zip l).zip inputs).find? fun x => x.1.1 != x.1.2
      match bad with
      | some ((p, l), i) =>
        some s!"violates: on input {i} the packed scanner returns {p} and the lexer tables return {l}"
      | none => if p.length != l.length then some "violates: answer lists differ in length" else some "holds"
  | _ => none

def handle (args : List String) : Option String :=
  match args with
  | "t" :: sb :: ns :: starts :: targets :: stateMap :: dfa :: btA :: btN :: inputs => do
    let t ← parseTables sb ns starts targets stateMap dfa btA btN
    let inputs ← parseInputs inputs
    some (answer t inputs)
  | "judge" :: rest =>
    let (goToks, caseToks) := splitAt "::" rest
    judge goToks caseToks
  | _ => none

end TmVerif.DriverC24
