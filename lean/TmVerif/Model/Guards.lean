/-
C17 (decidable fragment): propositional model of the `{{if}}` guards of the Go templates.

`GF` (Facts/Types.lean) is a formula over numbered atoms; `eval` its meaning under a valuation of ALL atoms.
`search` is a small DPLL-style procedure: it picks an atom, replaces it by `true` / `false` in the use guard, the
definition guard and the axioms (simplifying as it goes) and closes a branch as soon as the use guard has become
false, the definition guard true or an axiom false. `Proofs/Guards.lean` proves: `search … = true` implies
`use → def` under EVERY valuation of ALL atoms that satisfies the axioms (whatever atoms are picked).
Core Lean only (the driver links this file).
-/
import TmVerif.Facts.Types
namespace TmVerif.Guards
open TmVerif.Facts

/-- Meaning of a guard under a valuation of the atoms. -/
def eval (v : Nat → Bool) : GF → Bool
  | .tt => true
  | .atom n => v n
  | .not f => !eval v f
  | .and f g => eval v f && eval v g
  | .or f g => eval v f || eval v g

def GF.ff : GF := .not .tt
def GF.imp (f g : GF) : GF := .or (.not f) g

/-- Atoms of a formula, in order of occurrence (with repetitions). -/
def atomsOf : GF → List Nat
  | .tt => []
  | .atom n => [n]
  | .not f => atomsOf f
  | .and f g => atomsOf f ++ atomsOf g
  | .or f g => atomsOf f ++ atomsOf g

/-- Replaces the atoms selected by `p` by `true` (definitions: an `.Options.IsEnabled "x"` that is false means
that the user supplies the declaration, customImpl). -/
def substTrue (p : Nat → Bool) : GF → GF
  | .tt => .tt
  | .atom n => if p n then .tt else .atom n
  | .not f => .not (substTrue p f)
  | .and f g => .and (substTrue p f) (substTrue p g)
  | .or f g => .or (substTrue p f) (substTrue p g)

/-! ## The decision procedure: splitting with simplification and unit propagation -/

def isTT : GF → Bool
  | .tt => true
  | _ => false

def isFF : GF → Bool
  | .not .tt => true
  | _ => false

def sNot (f : GF) : GF := if isTT f then GF.ff else if isFF f then .tt else .not f
def sAnd (f g : GF) : GF := if isFF f || isFF g then GF.ff else if isTT f then g else if isTT g then f else .and f g
def sOr (f g : GF) : GF := if isTT f || isTT g then .tt else if isFF f then g else if isFF g then f else .or f g

/-- `f` with atom `a` replaced by the constant `b`, simplified. -/
def assign (a : Nat) (b : Bool) : GF → GF
  | .tt => .tt
  | .atom n => if n == a then (if b then .tt else GF.ff) else .atom n
  | .not f => sNot (assign a b f)
  | .and f g => sAnd (assign a b f) (assign a b g)
  | .or f g => sOr (assign a b f) (assign a b g)

/-- `f` simplified (constants folded). -/
def simplify : GF → GF
  | .tt => .tt
  | .atom n => .atom n
  | .not f => sNot (simplify f)
  | .and f g => sAnd (simplify f) (simplify g)
  | .or f g => sOr (simplify f) (simplify g)

/-- Top-level conjuncts of a formula, `true` dropped. -/
def conjuncts : GF → List GF
  | .tt => []
  | .and f g => conjuncts f ++ conjuncts g
  | f => [f]

def firstAtom : GF → Option Nat
  | .tt => none
  | .atom n => some n
  | .not f => firstAtom f
  | .and f g => (firstAtom f).orElse (fun _ => firstAtom g)
  | .or f g => (firstAtom f).orElse (fun _ => firstAtom g)

def unitAtom : GF → Option Nat
  | .atom n => some n
  | .not (.atom n) => some n
  | _ => none

/-- The next atom to split on: the atom of an axiom that has become a literal (unit propagation: one of the two
branches closes at once), else the first atom of the use guard, else of the definition guard. Axioms are never
split on otherwise, so a pair that does not hold is given up quickly. -/
def pick (axs : List GF) (u d : GF) : Option Nat :=
  ((axs.findSome? unitAtom).orElse (fun _ => firstAtom u)).orElse (fun _ => firstAtom d)

/-- No valuation satisfies the axioms and `u` and falsifies `d` — visibly. -/
def closed (axs : List GF) (u d : GF) : Bool := isFF u || isTT d || axs.any isFF

def step (a : Nat) (b : Bool) (axs : List GF) : List GF := axs.flatMap (fun f => conjuncts (assign a b f))

/-- `true` only if `u → d` under the axioms for every valuation (Proofs/Guards.lean); `false` = not shown. -/
def search : Nat → List GF → GF → GF → Bool
  | 0, axs, u, d => closed axs u d
  | k + 1, axs, u, d =>
    closed axs u d ||
      match pick axs u d with
      | none => false
      | some a =>
        search k (step a true axs) (assign a true u) (assign a true d) &&
          search k (step a false axs) (assign a false u) (assign a false d)

/-- An implication between guards that is known from outside the templates. -/
structure Ax where
  hyp : GF
  concl : GF
  deriving Repr

def Ax.formula (a : Ax) : GF := GF.imp a.hyp a.concl

/-- `use → def` under the axioms. -/
def checkImp (axs : List Ax) (u d : GF) : Bool :=
  search 64 (axs.flatMap (fun a => conjuncts (simplify a.formula))) (simplify u) (simplify d)

/-- Valuation that makes exactly the listed atoms true. -/
def valOf (trues : List Nat) : Nat → Bool := fun n => trues.contains n

/-- `v` is a counter-model: the axioms and the use-guard hold, the definition-guard does not. -/
def refutes (axs : List Ax) (u d : GF) (trues : List Nat) : Bool :=
  axs.all (fun a => eval (valOf trues) a.formula) && eval (valOf trues) u && !eval (valOf trues) d

end TmVerif.Guards
