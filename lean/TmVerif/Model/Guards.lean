/-
C17 (decidable fragment): propositional model of the `{{if}}` guards of the Go templates.

`GF` (Facts/Types.lean) is a formula over numbered atoms; `eval` its meaning under a valuation of ALL atoms.
`search` is a small tableau: it extends a partial assignment atom by atom and closes a branch as soon as the
three-valued `peval` shows that the use-guard is false, the definition-guard is true or one of the axioms is
false. `Proofs/Guards.lean` proves: `search … = true` implies `use → def` under EVERY valuation that satisfies the
axioms (whatever atom order and whatever subset of the axioms is handed to it; so the relevance filter below needs
no proof).  Core Lean only (the driver links this file).
-/
import TmVerif.Facts.Types
namespace TmVerif.Guards
open TmVerif.Facts

/-- Meaning of a guard under a valuation of the atoms. -/
def eval (v : Nat → Bool) : GF → Bool
  | .tt => true
  | .atom n => v n
  | .not f => !eval v f
  | .and f g => eval v f && eval v g
  | .or f g => eval v f || eval v g

def GF.ff : GF := .not .tt
def GF.imp (f g : GF) : GF := .or (.not f) g

/-- Atoms of a formula, in order of occurrence (with repetitions). -/
def atomsOf : GF → List Nat
  | .tt => []
  | .atom n => [n]
  | .not f => atomsOf f
  | .and f g => atomsOf f ++ atomsOf g
  | .or f g => atomsOf f ++ atomsOf g

/-- Replaces the atoms selected by `p` by `true` (definitions: an `.Options.IsEnabled "x"` that is false means
that the user supplies the declaration, customImpl). -/
def substTrue (p : Nat → Bool) : GF → GF
  | .tt => .tt
  | .atom n => if p n then .tt else .atom n
  | .not f => .not (substTrue p f)
  | .and f g => .and (substTrue p f) (substTrue p g)
  | .or f g => .or (substTrue p f) (substTrue p g)

/-- Partial assignment: the FIRST entry for an atom counts. -/
abbrev Assign := List (Nat × Bool)

def lookup (σ : Assign) (n : Nat) : Option Bool :=
  match σ with
  | [] => none
  | (m, b) :: rest => if m == n then some b else lookup rest n

/-- Three-valued evaluation under a partial assignment. -/
def peval (σ : Assign) : GF → Option Bool
  | .tt => some true
  | .atom n => lookup σ n
  | .not f => match peval σ f with
    | some b => some (!b)
    | none => none
  | .and f g => match peval σ f, peval σ g with
    | some false, _ => some false
    | _, some false => some false
    | some true, some true => some true
    | _, _ => none
  | .or f g => match peval σ f, peval σ g with
    | some true, _ => some true
    | _, some true => some true
    | some false, some false => some false
    | _, _ => none

/-- The branch is closed: no extension of `σ` satisfies the axioms and `u` and falsifies `d`. -/
def closed (axs : List GF) (u d : GF) (σ : Assign) : Bool :=
  peval σ u == some false || peval σ d == some true || axs.any (fun a => peval σ a == some false)

/-- Tableau over the atoms `as` (any list, any order). -/
def search (axs : List GF) (u d : GF) : List Nat → Assign → Bool
  | [], σ => closed axs u d σ
  | a :: as, σ => closed axs u d σ || (search axs u d as ((a, true) :: σ) && search axs u d as ((a, false) :: σ))

/-- An implication between guards that is known from outside the templates. -/
structure Ax where
  hyp : GF
  concl : GF
  deriving Repr

def Ax.formula (a : Ax) : GF := GF.imp a.hyp a.concl

def insertNew (n : Nat) (l : List Nat) : List Nat := if l.contains n then l else l ++ [n]

def dedup (l : List Nat) : List Nat := l.foldl (fun acc n => insertNew n acc) []

def shares (l m : List Nat) : Bool := l.any (fun n => m.contains n)

/-- Forward chaining from the atoms `s`: an axiom is relevant when its hypothesis has no atoms or shares one with
the atoms reached so far; its conclusion's atoms are then reached too. -/
def relevantStep (axs : List Ax) (s : List Nat) : List Nat :=
  axs.foldl (fun acc a =>
    if (atomsOf a.hyp).isEmpty || shares (atomsOf a.hyp) acc then dedup (acc ++ atomsOf a.hyp ++ atomsOf a.concl) else acc) s

def relevantAtoms (axs : List Ax) : Nat → List Nat → List Nat
  | 0, s => s
  | k + 1, s => relevantAtoms axs k (relevantStep axs s)

/-- `use → def` under the axioms, decided by `search` over the atoms of `u`, then `d`, then the atoms reached by
forward chaining (3 rounds) with the axioms whose hypothesis lies among them. -/
def checkImp (axs : List Ax) (u d : GF) : Bool :=
  let base := dedup (atomsOf u ++ atomsOf d)
  let reach := relevantAtoms axs 3 base
  let rel := axs.filter (fun a => (atomsOf a.hyp).isEmpty || shares (atomsOf a.hyp) reach)
  search (rel.map Ax.formula) u d reach []

/-- Valuation that makes exactly the listed atoms true. -/
def valOf (trues : List Nat) : Nat → Bool := fun n => trues.contains n

/-- `v` is a counter-model: the axioms and the use-guard hold, the definition-guard does not. -/
def refutes (axs : List Ax) (u d : GF) (trues : List Nat) : Bool :=
  axs.all (fun a => eval (valOf trues) a.formula) && eval (valOf trues) u && !eval (valOf trues) d

end TmVerif.Guards
