/-
C02 — the specification side: the listener events a derivation tree must produce according to the
documented range rules ("first to last token of the annotated part, empty parts positioned at the
following token"; reports of a rule in order, inner first, then the rule's own node; children
before parents = post-order).

`PTree` is a derivation tree of the compiled plain grammar; `layout` assigns every subtree its
range and collects the events, with NO reference to a parser stack. The driver rebuilds the tree
from the reduce sequence of the core runtime model and compares `eventsOf` with what the extended
runtime model (and the real generated parser) reported.
-/
import TmVerif.Model.LRX
namespace TmVerif.Events
open TmVerif.LR TmVerif.LRX

inductive PTree where
  | tok (t : Tok)
  | node (rule : Nat) (children : List PTree)
deriving Repr, Inhabited

structure Laid where
  off : Nat
  endo : Nat
  evs : List XEv      -- time order
deriving Repr, Inhabited

/-- entries of a child list (left to right), given the offset of the token following the list -/
structure LaidList where
  items : List (Nat × Nat)   -- (off, endo) per child, left to right
  evs : List XEv
deriving Repr, Inhabited

/-- events of one report over the children's ranges -/
def reportEvent (fixWhitespace : Bool) (items : List (Nat × Nat)) (after : Nat) (r : Report) : Option XEv :=
  if r.start = r.stop then
    -- empty part: positioned at the start of the following child (or the following token)
    match items[r.stop]? with
    | some (o, _) => some (.node r.type o o)
    | none => if r.stop = items.length then some (.node r.type after after) else none
  else
    let slice := (items.drop r.start).take (r.stop - r.start)
    if slice.length ≠ r.stop - r.start then none
    else
      let slice := if fixWhitespace then
          -- trailing empty children do not extend the range (at least one child is kept)
          let rec trim : List (Nat × Nat) → List (Nat × Nat)
            | e :: (e' :: rest) => if e.1 = e.2 then trim (e' :: rest) else e :: e' :: rest
            | l => l
          (trim slice.reverse).reverse
        else slice
      match slice.head?, slice.getLast? with
      | some (o, _), some (_, e) => some (.node r.type o e)
      | _, _ => none

mutual
/-- `layout x t after`: `after` is the offset of the first token following the subtree. -/
def layout (x : XTables) : PTree → Nat → Option Laid
  | .tok t, _ => some ⟨t.off, t.endo, []⟩
  | .node rule children, after =>
    match layoutList x children after with
    | none => none
    | some ll =>
      let off := match ll.items.head? with | some (o, _) => o | none => after
      let endo := match ll.items.getLast? with | some (_, e) => e | none => after
      let info := (x.rules[rule]?).getD {}
      let endo' := if info.fixWS then
          (match ll.items.reverse.find? (fun p => p.1 ≠ p.2) with
           | some p => p.2
           | none => if ll.items.isEmpty then endo else off)
        else endo
      let reps := info.reports.mapM (reportEvent x.fixWhitespace ll.items after)
      match reps with
      | none => none
      | some reps =>
        let own := if info.ruleType ≠ 0 then [XEv.node info.ruleType off endo'] else []
        some ⟨off, endo', ll.evs ++ reps ++ own⟩
def layoutList (x : XTables) : List PTree → Nat → Option LaidList
  | [], _ => some ⟨[], []⟩
  | c :: rest, after =>
    match layoutList x rest after with
    | none => none
    | some lr =>
      let afterC := match lr.items.head? with | some (o, _) => o | none => after
      match layout x c afterC with
      | none => none
      | some lc => some ⟨(lc.off, lc.endo) :: lr.items, lc.evs ++ lr.evs⟩
end

/-- rebuild the derivation forest from the core model's trace (shift = leaf, reduce = node) -/
def buildForest (ruleLen : Array Int) : List Ev → List PTree → Option (List PTree)
  | [], st => some st
  | .shift s o e :: rest, st => buildForest ruleLen rest (.tok ⟨s, o, e⟩ :: st)
  | .reduce r _ _ :: rest, st =>
    match geti ruleLen r with
    | none => none
    | some ln =>
      let ln := ln.toNat
      if ln > st.length then none
      else buildForest ruleLen rest (.node r.toNat (st.take ln).reverse :: st.drop ln)

/-- events the specification assigns to an accepted run of input `input` on `inp` -/
def eventsOf (x : XTables) (inp : Input) (input : Nat) (fuel : Nat) : Option (List XEv) :=
  let (res, c) := run x.t inp input fuel
  match res with
  | .accept =>
    match buildForest x.t.ruleLen c.evs.reverse [] with
    | some forest =>
      -- stack top first: optional EOI leaf, then the start symbol's tree
      let tree? := forest.find? fun t => match t with | .node _ _ => true | .tok _ => false
      let consumed := (c.evs.filter fun e => match e with | .shift s _ _ => s ≠ 0 | _ => false).length
      match tree? with
      | some tree => (layout x tree (inp.tok consumed).off).map (·.evs)
      | none => none
    | none => none
  | _ => none

end TmVerif.Events
