import TmVerif.Model.Proto
import TmVerif.Model.SourcePos
import TmVerif.Facts.ExpectC22
namespace TmVerif.DriverC22
open TmVerif.Proto TmVerif.SourcePos TmVerif.Facts

/-- `n` offsets with their ends are inside a text of `len` bytes of which `pre` bytes were sent. -/
def inRange (len pre : Nat) (offs ends : List Nat) : Bool :=
  offs.length == ends.length && (offs.zip ends).all fun (o, e) => o ≤ e && e ≤ len && o ≤ pre

/-- Evaluates one case; `none` = malformed.
* `outcome <id> <kind>` — one input given to the real `compiler.Compile` (+ `gen.Generate` when it compiled) in a
  child process; `kind` ∈ ok / errors / crash-… as observed. The model of `Compile` is total: the answer is
  always `total` (the harness answers `total` for ok/errors and `crash:<kind>` otherwise).
* `diag <len> <hex prefix> <offsets> <endoffsets>` — the diagnostics returned for one input whose text has
  `len` bytes; `prefix` = the text up to the largest reported end offset (`lineCol` only looks at the bytes
  before the offset, `C22_lineCol_spec`). Answer: `<lines> <columns>` as `lineCol` computes them, or
  `out-of-range`. The harness answers with the reported `status.SourceRange.Line/Column`.
* `synerr <len> <hex prefix> <offset> <endoffset>` — a `tm.SyntaxError` (line only). Answer: `<line>`.
* `maperr <offset> <endoffset> <line> <column> <textLen> <errOff> <errEnd>` — `parsePattern`'s translation of
  a `lex.ParseError` (computed by the harness with the real `lex.ParseRegexp`) for a pattern literal with the
  given source range. Answer: `<offset> <endoffset> <line> <column>` of `mapRegexError`.
* `site <file> <func> <callee> <idx> <hash> <ctx>` — a crash site found by the harness's own run of
  tools/factgen on the tree under test → `classified` / `unclassified`. -/
def eval : List String → Option String
  | ["outcome", _, _] => some "total"
  | ["diag", len, hex, offs, ends] => do
    let len ← parseNat? len
    let bs ← parseHex hex
    let offs ← parseNats offs
    let ends ← parseNats ends
    if !inRange len bs.length offs ends then some "out-of-range"
    else
      let lcs := offs.map (lineCol bs)
      some (showNats (lcs.map Prod.fst) ++ " " ++ showNats (lcs.map Prod.snd))
  | ["synerr", len, hex, off, e] => do
    let len ← parseNat? len
    let bs ← parseHex hex
    let off ← parseNat? off
    let e ← parseNat? e
    if !inRange len bs.length [off] [e] then some "out-of-range"
    else some (toString (lineCol bs off).1)
  | ["maperr", off, e, line, col, textLen, errOff, errEnd] => do
    let rng : SrcRange := ⟨← parseInt? off, ← parseInt? e, ← parseInt? line, ← parseInt? col⟩
    let r := mapRegexError rng (← parseInt? textLen) (← parseInt? errOff) (← parseInt? errEnd)
    some s!"{r.offset} {r.endOffset} {r.line} {r.column}"
  | ["site", file, func, callee, idx, hash, ctx] => do
    let idx ← parseNat? idx
    some (if (lookupFatal ⟨file, func, callee, idx, hash, "", ctx⟩).isSome then "classified" else "unclassified")
  | _ => none

/-- Independent verdict on the implementation's answer (uses `lineColSpec`, the direct recomputation, and the
bounds; `C22_lineCol_eq_spec` says the model agrees with it). -/
def judgeCase (goAns : List String) : List String → Option String
  | ["outcome", _, _] =>
    match goAns with
    | ["total"] => some "holds"
    | _ => some "violates: the compiler did not terminate normally (panic, log.Fatal, os.Exit or timeout)"
  | ["diag", len, hex, offs, ends] => do
    let len ← parseNat? len
    let bs ← parseHex hex
    let offs ← parseNats offs
    let ends ← parseNats ends
    if !inRange len bs.length offs ends then
      some "violates: a diagnostic's source range is not inside the text (need 0 <= offset <= endoffset <= len)"
    else
      match goAns with
      | [ls, cs] =>
        let spec := offs.map (lineColSpec bs)
        if parseNats ls == some (spec.map Prod.fst) && parseNats cs == some (spec.map Prod.snd) then some "holds"
        else some "violates: reported line/column differ from the line/column of the reported byte offset"
      | _ => some "violates: malformed answer"
  | ["synerr", len, hex, off, e] => do
    let len ← parseNat? len
    let bs ← parseHex hex
    let off ← parseNat? off
    let e ← parseNat? e
    if !inRange len bs.length [off] [e] then some "violates: the syntax error's range is not inside the text"
    else
      match goAns with
      | [l] => if parseNat? l == some (lineColSpec bs off).1 then some "holds"
               else some "violates: the syntax error's line differs from the line of its byte offset"
      | _ => some "violates: malformed answer"
  | ["maperr", off, e, _, _, textLen, errOff, _] => do
    -- the property only needs the range to stay inside the pattern literal
    let off ← parseInt? off
    let e ← parseInt? e
    let _ ← parseInt? textLen
    let _ ← parseInt? errOff
    match goAns.mapM parseInt? with
    | some [o', e', _, _] =>
      if off ≤ o' && o' ≤ e' && e' ≤ e then some "holds"
      else some "violates: the regexp diagnostic lies outside the pattern literal"
    | _ => some "violates: malformed answer"
  | ["site", _, _, _, _, _, _] => some "holds"
  | _ => none

def splitAtSep : List String → List String → List String × List String
  | acc, [] => (acc.reverse, [])
  | acc, "::" :: rest => (acc.reverse, rest)
  | acc, x :: rest => splitAtSep (x :: acc) rest

def handle (args : List String) : Option String :=
  match args with
  | "judge" :: rest =>
    let (goAns, case) := splitAtSep [] rest
    judgeCase goAns case
  | _ => eval args

end TmVerif.DriverC22
