/-
F2 — context-free grammars as `lalr.Grammar` has them after state markers are erased
(`lalr/compile.go: init`): symbols `0 .. nTerms-1` are terminals (0 = EOI), `nTerms .. nSyms-1`
nonterminals; several inputs, each with or without an end-of-input requirement.
-/
import TmVerif.Model.Proto
namespace TmVerif.CFG

structure Rule where
  lhs : Nat
  rhs : List Nat
  prec : Nat := 0          -- `%prec` terminal, 0 = none
deriving Repr, DecidableEq, Inhabited

structure GInput where
  sym : Nat
  eoi : Bool
deriving Repr, DecidableEq, Inhabited

structure Prec where
  assoc : Nat              -- 0 left, 1 right, 2 nonassoc
  terms : List Nat
deriving Repr, DecidableEq, Inhabited

structure Grammar where
  nTerms : Nat
  nSyms : Nat
  rules : Array Rule
  inputs : Array GInput
  prec : Array Prec := #[]
deriving Repr, Inhabited

def Grammar.isTerm (g : Grammar) (s : Nat) : Bool := s < g.nTerms

/-- Well-formedness (decidable): symbols in range, lhs are nonterminals, inputs are nonterminals,
terminal 0 (EOI) does not occur in rules. -/
def Grammar.wf (g : Grammar) : Bool :=
  g.nTerms ≥ 1 && g.nTerms ≤ g.nSyms &&
  g.rules.all (fun r => g.nTerms ≤ r.lhs && r.lhs < g.nSyms && r.rhs.all (fun s => 0 < s && s < g.nSyms)) &&
  g.inputs.all (fun i => g.nTerms ≤ i.sym && i.sym < g.nSyms)

/-! ### Derivations (the specification side) -/

mutual
/-- `Derives g X w`: symbol `X` derives the terminal string `w`. -/
inductive Derives (g : Grammar) : Nat → List Nat → Prop
  | term (a : Nat) : a < g.nTerms → Derives g a [a]
  | rule (r : Rule) (w : List Nat) : r ∈ g.rules.toList → DerivesSeq g r.rhs w → Derives g r.lhs w
/-- `DerivesSeq g α w`: the symbol string `α` derives `w`. -/
inductive DerivesSeq (g : Grammar) : List Nat → List Nat → Prop
  | nil : DerivesSeq g [] []
  | cons (X : Nat) (α : List Nat) (u v : List Nat) :
      Derives g X u → DerivesSeq g α v → DerivesSeq g (X :: α) (u ++ v)
end

/-- The sentences of input `i`. -/
def Sentence (g : Grammar) (i : Nat) (w : List Nat) : Prop :=
  ∃ inp, g.inputs[i]? = some inp ∧ Derives g inp.sym w

/-! ### Protocol parsing: `NT NN rules inputs prec ruleprec` (six tokens) -/
open TmVerif.Proto

def parseRule (s : String) : Option Rule :=
  match s.splitOn ":" with
  | [l, r] => do
    let l ← parseNat? l
    let r ← parseNats r
    pure { lhs := l, rhs := r }
  | _ => none

def parseInput (s : String) : Option GInput :=
  match s.splitOn ":" with
  | [l, e] => do
    let l ← parseNat? l
    let e ← parseBool? e
    pure { sym := l, eoi := e }
  | _ => none

def parsePrec (s : String) : Option Prec :=
  match s.splitOn ":" with
  | [a, t] => do
    let a ← parseNat? a
    let t ← parseNats t
    pure { assoc := a, terms := t }
  | _ => none

def parseGrammar (toks : List String) : Option Grammar :=
  match toks with
  | [nt, nn, rules, inputs, prec, rp] => do
    let nt ← parseNat? nt
    let nn ← parseNat? nn
    let rs ← if rules == "_" then some [] else (rules.splitOn ";").mapM parseRule
    let is ← (inputs.splitOn ";").mapM parseInput
    let ps ← if prec == "_" then some [] else (prec.splitOn ";").mapM parsePrec
    let rp ← parseNats rp
    let rs := (rs.zip (rp ++ List.replicate rs.length 0)).map fun (r, p) => { r with prec := p }
    pure { nTerms := nt, nSyms := nt + nn, rules := rs.toArray, inputs := is.toArray, prec := ps.toArray }
  | _ => none

end TmVerif.CFG
