import TmVerif.Model.Proto
import TmVerif.Model.CFG
import TmVerif.Model.Templates
/-!
Line protocol for C14 (all tokens separated by blanks).

A source-level templated grammar `<src>` is the token stream

  nT nP {name dflt la}*nP  nN {np p*np  na {pred  len sym*len}*na}*nN  nI {nt eoi}*nI

  dflt: `-` | value          la, eoi: 0 | 1
  pred: `-` | `E p v` | `N pred` | `A k pred*k` | `O k pred*k`
  sym : `T a` | `R m k {p V v | p F q}*k`        (explicit arguments only)

  inst <quirks> <src> :: err | fatal | <plain grammar, six tokens of CFG.parseGrammar>
        <quirks> = AS | A- | -S | -- : which of the two mirrored defects of PropagateLookaheads (requiredFlags Aliasing, entryPoints
        Short-circuit) the real code showed on the harness' probes; the mirror reproduces exactly those
        the mirror pipeline (resolveAll, propagate, instantiate) is run on <src>; answer `match` when
        its status equals the real one and, for `ok`, the instantiated rules are the real ones up to
        the naming of nonterminals and the order of nonterminal blocks (both grammars are renamed by
        breadth-first discovery from the inputs, alternatives in order, right-hand sides left to right;
        nonterminals unreachable from the inputs are ignored; of several empty rules of a nonterminal only the
        first counts, as `Expand` drops the others) AND the propagation certificate holds; otherwise `differ …`.
  instq <src> :: …   as `inst` without the certificate (used for the input class of finding C14-la-entry-shortcircuit)
  sem L <src>
        the languages of the inputs up to length L under the SOURCE-LEVEL semantics (`srcImp`), computed by
        a bounded fixpoint over (nonterminal, total valuation) pairs; independent of the mirror.
        answer: per input the strings (terminal numbers as digits) joined by `,`, inputs joined by `;`
  check <ctx: p=v,…|-> <pred>           → the mirror `check`: 1 | 0 | fatal      (debugging aid; predicates are tied through `inst`)
  judge <answer> :: inst <src> :: <real>
        `violates: …` when some string up to length 5 is in the source-level language of an input and not derivable
        from the same input of the REAL instantiated rules or vice versa (bounded fixpoint on both sides); `holds` otherwise.
-/
namespace TmVerif.DriverC14
open TmVerif.Proto TmVerif.CFG TmVerif.Templates

abbrev P := StateT (List String) Option

def tok : P String := do
  match (← get) with
  | [] => failure
  | t :: rest => set rest; pure t

def nat : P Nat := do
  let t ← tok
  match t.toNat? with
  | some n => pure n
  | none => failure

def rep {α} (p : P α) : Nat → P (List α)
  | 0 => pure []
  | n + 1 => do
    let a ← p
    let l ← rep p n
    pure (a :: l)

def counted {α} (p : P α) : P (List α) := do
  let n ← nat
  rep p n

def pPred : Nat → P Pred
  | 0 => failure
  | fuel + 1 => do
    let t ← tok
    if t == "E" then
      let p ← nat
      let v ← nat
      pure (.eq p v)
    else if t == "N" then
      let a ← pPred fuel
      pure (.not a)
    else if t == "A" then
      let l ← counted (pPred fuel)
      pure (.and l)
    else if t == "O" then
      let l ← counted (pPred fuel)
      pure (.or l)
    else failure

def pPredOpt : P (Option Pred) := do
  match (← get) with
  | "-" :: rest => set rest; pure none
  | l => (pPred l.length).map some

def pArg : P Arg := do
  let p ← nat
  let k ← tok
  let x ← nat
  if k == "V" then pure ⟨p, .value x⟩
  else if k == "F" then pure ⟨p, .takeFrom x⟩
  else failure

def pSym : P Sym := do
  let t ← tok
  if t == "T" then
    let a ← nat
    pure (.t a)
  else if t == "R" then
    let m ← nat
    let args ← counted pArg
    pure (.n m args)
  else failure

def pAlt : P Alt := do
  let pred ← pPredOpt
  let rhs ← counted pSym
  pure ⟨pred, rhs⟩

def pNt : P Nonterm := do
  let ps ← counted nat
  let alts ← counted pAlt
  pure ⟨ps, alts⟩

def pParam : P Param := do
  let name ← nat
  let d ← tok
  let la ← nat
  let dflt ← if d == "-" then pure none else match d.toNat? with
    | some v => pure (some v)
    | none => failure
  pure ⟨name, dflt, la != 0⟩

def pInput : P (Nat × Bool) := do
  let n ← nat
  let e ← nat
  pure (n, e != 0)

def pGrammar : P TGrammar := do
  let nT ← nat
  let ps ← counted pParam
  let nts ← counted pNt
  let ins ← counted pInput
  pure ⟨nT, ps, nts, ins⟩

def parseSrc (toks : List String) : Option (TGrammar × List String) :=
  (pGrammar.run toks)

/-! ### canonical form of a plain grammar -/

def discover (g : Grammar) : Nat → Nat → List Nat → List Nat
  | 0, _, order => order
  | fuel + 1, i, order =>
    match order[i]? with
    | none => order
    | some x =>
      let order := g.rules.toList.foldl (fun order r =>
        if r.lhs == x then r.rhs.foldl (fun order s => if s ≥ g.nTerms && !order.contains s then order ++ [s] else order) order
        else order) order
      discover g fuel (i + 1) order

def canon (g : Grammar) : String :=
  let roots := g.inputs.toList.foldl (fun o i => if o.contains i.sym then o else o ++ [i.sym]) []
  let order := discover g (g.nSyms + g.rules.size + 2) 0 roots
  let name := fun (s : Nat) => if s < g.nTerms then toString s else
    match order.idxOf? s with
    | some i => s!"N{i}"
    | none => "?"
  let ins := g.inputs.toList.map fun i => s!"{name i.sym}:{showBool i.eoi}"
  -- `Expand` (C13) keeps only the first of several empty rules of a nonterminal (`collapseEmpty`)
  let rs := order.flatMap fun x =>
    let rs := g.rules.toList.filter fun r => r.lhs == x
    let rs := (rs.foldl (fun (acc : List Rule × Bool) r =>
      if r.rhs.isEmpty then (if acc.2 then acc else (acc.1 ++ [r], true)) else (acc.1 ++ [r], acc.2)) ([], false)).1
    rs.map fun r => s!"{name x}>" ++ ".".intercalate (r.rhs.map name)
  " ".intercalate ins ++ " | " ++ " ".intercalate rs

/-! ### bounded languages of an equation system -/

abbrev Word := List Nat

def wordLt : Word → Word → Bool
  | [], [] => false
  | [], _ :: _ => true
  | _ :: _, [] => false
  | a :: u, b :: v => a < b || (a == b && wordLt u v)

def wordLe (u v : Word) : Bool := u.length < v.length || (u.length == v.length && !wordLt v u)

def insertW (w : Word) : List Word → List Word
  | [] => [w]
  | x :: l => if w == x then x :: l else if wordLe w x then w :: x :: l else x :: insertW w l

def unionW (a b : List Word) : List Word := b.foldl (fun acc w => insertW w acc) a

/-- right-hand side symbols: terminal or key index -/
abbrev ESym := Nat ⊕ Nat

def altLang (L : Nat) (cur : List (List Word)) (alt : List ESym) : List Word :=
  alt.foldl (fun acc s =>
    let ws : List Word := match s with
      | .inl a => [[a]]
      | .inr k => (cur[k]?).getD []
    acc.foldl (fun out u => ws.foldl (fun out v => if u.length + v.length ≤ L then insertW (u ++ v) out else out) out) []) [[]]

def langStep (L : Nat) (sys : List (List (List ESym))) (cur : List (List Word)) : List (List Word) :=
  (sys.zip cur).map fun (alts, c) => alts.foldl (fun acc alt => unionW acc (altLang L cur alt)) c

def langIter (L : Nat) (sys : List (List (List ESym))) : Nat → List (List Word) → List (List Word)
  | 0, cur => cur
  | fuel + 1, cur =>
    let nxt := langStep L sys cur
    if nxt.map List.length == cur.map List.length then cur else langIter L sys fuel nxt

def langs (L : Nat) (sys : List (List (List ESym))) : List (List Word) :=
  langIter L sys 100000 (sys.map fun _ => [])

/-- plain grammar as a system: key k = nonterminal nTerms + k -/
def plainSys (g : Grammar) : List (List (List ESym)) :=
  (List.range (g.nSyms - g.nTerms)).map fun k =>
    (g.rules.toList.filter fun r => r.lhs == g.nTerms + k).map fun r =>
      r.rhs.map fun s => if s < g.nTerms then .inl s else .inr (s - g.nTerms)

/-! ### source-level semantics, executable: keys are (nonterminal, total valuation) -/

structure SKey where
  nt : Nat
  vals : List Val
deriving DecidableEq, Inhabited

def vecEnv (vals : List Val) : Env := fun p => (vals[p]?).getD 0

def expandKey (g : TGrammar) (keys : List SKey) (k : SKey) : List SKey × List (List ESym) :=
  match g.nts[k.nt]? with
  | none => (keys, [])
  | some nt =>
    let env := vecEnv k.vals
    nt.alts.foldl (fun (acc : List SKey × List (List ESym)) a =>
      if !a.enabled env then acc else
      let (keys, out) := acc
      let (keys, rhs, _) := a.rhs.foldl (fun (st : List SKey × List ESym × Bool) s =>
        let (keys, rhs, first) := st
        match s with
        | .t x => (keys, rhs ++ [.inl x], false)
        | .n m args =>
          let env' := callEnv (srcImp g) k.nt first m env args
          let key : SKey := ⟨m, (List.range g.params.length).map env'⟩
          match keys.idxOf? key with
          | some i => (keys, rhs ++ [.inr i], false)
          | none => (keys ++ [key], rhs ++ [.inr keys.length], false)) (keys, [], true)
      (keys, out ++ [rhs])) (keys, [])

def explore (g : TGrammar) : Nat → Nat → List SKey → List (List (List ESym)) → List SKey × List (List (List ESym))
  | 0, _, keys, sys => (keys, sys)
  | fuel + 1, i, keys, sys =>
    match keys[i]? with
    | none => (keys, sys)
    | some k =>
      let (keys, alts) := expandKey g keys k
      explore g fuel (i + 1) keys (sys ++ [alts])

/-- languages of the inputs (in order) up to length L under the source-level semantics -/
def srcLangs (g : TGrammar) (L : Nat) : List (List Word) :=
  let zero := (List.range g.params.length).map fun _ => 0
  let roots := g.inputs.foldl (fun ks i => if ks.contains (⟨i.1, zero⟩ : SKey) then ks else ks ++ [⟨i.1, zero⟩]) []
  let (keys, sys) := explore g 100000 0 roots []
  let ls := langs L sys
  g.inputs.map fun i => match keys.idxOf? (⟨i.1, zero⟩ : SKey) with
    | some k => (ls[k]?).getD []
    | none => []

def plainLangs (g : Grammar) (L : Nat) : List (List Word) :=
  let ls := langs L (plainSys g)
  g.inputs.toList.map fun i => (ls[i.sym - g.nTerms]?).getD []

def showWord (w : Word) : String := if w.isEmpty then "e" else String.join (w.map toString)

def showLangs (ls : List (List Word)) : String :=
  ";".intercalate (ls.map fun l => if l.isEmpty then "-" else ",".intercalate (l.map showWord))

def splitAt (sep : String) (l : List String) : List String × List String :=
  (l.takeWhile (· != sep), (l.dropWhile (· != sep)).drop 1)

def showStatus : Status → String
  | .ok => "ok" | .err => "err" | .fatal => "fatal"

def fuelOf (_g : TGrammar) : Nat := 4000

def parseQuirks (t : String) : Option Quirks :=
  if t == "AS" then some ⟨true, true⟩ else if t == "A-" then some ⟨true, false⟩
  else if t == "-S" then some ⟨false, true⟩ else if t == "--" then some ⟨false, false⟩ else none

def handleInst (needCert : Bool) (srcToks realToks : List String) : Option String := do
  let (qt, srcToks) ← match srcToks with
    | t :: r => some (t, r)
    | [] => none
  let q ← parseQuirks qt
  let (src, rest) ← parseSrc srcToks
  if !rest.isEmpty then none
  let (st, out, cert) := compile q src (fuelOf src)
  match realToks with
  | ["err"] => pure (if st == .err then "match" else s!"differ mirror={showStatus st} real=err")
  | ["fatal"] => pure (if st == .fatal then "match" else s!"differ mirror={showStatus st} real=fatal")
  | _ =>
    let real ← parseGrammar realToks
    match st, out with
    | .ok, some (_, g) =>
      let a := canon g
      let b := canon real
      pure (if a != b then s!"differ mirror=[{a}] real=[{b}]"
            else if needCert && !cert then "differ certificate of the lookahead propagation does not hold (hypothesis of C14_propagate_sound)"
            else "match")
    | _, _ => pure s!"differ mirror={showStatus st} real=ok"

def firstDiff (a b : List Word) : Option (Word × Bool) :=
  match a.find? (fun w => !b.contains w) with
  | some w => some (w, true)
  | none => (b.find? (fun w => !a.contains w)).map fun w => (w, false)

def handleJudge (srcToks realToks : List String) : Option String := do
  let (src, _) ← parseSrc (srcToks.drop 1)
  match realToks with
  | ["err"] | ["fatal"] => pure "holds"
  | _ =>
    let real ← parseGrammar realToks
    if (resolveAll src).isNone then pure "holds" else
    let L := 5
    let a := srcLangs src L
    let b := plainLangs real L
    if a.length != b.length then pure s!"violates: {a.length} inputs in the source, {b.length} in the instantiated grammar" else
    let r := ((a.zip b).zipIdx.filterMap fun ((x, y), k) => (firstDiff x y).map fun d => (k, d)).head?
    match r with
    | none => pure "holds"
    | some (k, (w, inSrc)) =>
      pure (if inSrc then s!"violates: input {k}: `{showWord w}` is in the template language at the default valuation but is not derivable in the instantiated rules"
            else s!"violates: input {k}: `{showWord w}` is derivable in the instantiated rules but is not in the template language at the default valuation")

def parseCtx (s : String) : Option Bound :=
  if s == "-" then some [] else (s.splitOn ",").mapM fun kv =>
    match kv.splitOn "=" with
    | [k, v] => do
      let k ← k.toNat?
      let v ← v.toNat?
      pure (k, v)
    | _ => none

def handle (toks : List String) : Option String :=
  match toks with
  | "inst" :: rest =>
    let (a, b) := splitAt "::" rest
    handleInst true a b
  | "instq" :: rest =>
    let (a, b) := splitAt "::" rest
    handleInst false a b
  | "sem" :: l :: rest => do
    let L ← l.toNat?
    let (src, _) ← parseSrc rest
    pure (showLangs (srcLangs src L))
  | "check" :: ctx :: rest => do
    let ctx ← parseCtx ctx
    let (p, _) ← (pPred rest.length).run rest
    pure (match check ctx p with
      | some true => "1"
      | some false => "0"
      | none => "fatal")
  | "judge" :: rest =>
    let (_, c) := splitAt "::" rest
    match c with
    | "inst" :: rest =>
      let (a, b) := splitAt "::" rest
      handleJudge a b
    | "instq" :: rest =>
      let (a, b) := splitAt "::" rest
      handleJudge a b
    | _ => some "holds"
  | _ => none

end TmVerif.DriverC14
