/-
C20 — the listener stream of the extended runtime model as an event list of the tree builder, and the
decidable well-formedness conditions under which it is proved well nested (Props/C20.lean):

* `InputWF inp`: the tokens of the lexer are real tokens in source order (offsets non-decreasing,
  ranges disjoint, inside the text; only the end-of-input token has symbol 0);
* `XWF x`: the reports of every rule are listed inner first (what `traverse` in
  `compiler.generateTables` produces: a post-order walk of the arrow annotations) and `fixTrailingWS`
  is only emitted for grammars with `fixWhitespace = true`.

Both are evaluated by the harness on every real table and token stream (`DriverC20`, op `hyp`).
-/
import TmVerif.Model.LRX
import TmVerif.Model.TreeBuilder
namespace TmVerif.EventNesting
open TmVerif.LR TmVerif.LRX TmVerif.TreeBuilder

/-- listener calls of a trace (time order is preserved) -/
def nodeEvs : List XEv → List TreeBuilder.Ev
  | [] => []
  | .node t o e :: rest => ⟨t, o, e⟩ :: nodeEvs rest
  | .error _ _ :: rest => nodeEvs rest

/-- the listener stream of a run: `c.evs` is most recent first -/
def listenerStream (c : XCfg) : List TreeBuilder.Ev := nodeEvs c.evs.reverse

/-- tokens in source order, non-overlapping, inside `[0, endOff]`; symbol 0 is end-of-input only -/
def InputWF (inp : Input) : Prop :=
  ∀ i, i < inp.toks.size →
    (inp.tok i).sym ≠ 0 ∧ (inp.tok i).off ≤ (inp.tok i).endo ∧ (inp.tok i).endo ≤ (inp.tok (i + 1)).off

instance (inp : Input) : Decidable (InputWF inp) := by unfold InputWF; infer_instance

/-- two reports of one rule, `r1` listed before `r2`: disjoint parts of the right-hand side, or the
earlier one inside the later one -/
def RepNested (r1 r2 : Report) : Prop :=
  r1.stop ≤ r2.start ∨ r2.stop ≤ r1.start ∨ (r2.start ≤ r1.start ∧ r1.stop ≤ r2.stop)

instance (r1 r2 : Report) : Decidable (RepNested r1 r2) := by unfold RepNested; infer_instance

def RuleWF (fixWhitespace : Bool) (info : RuleInfo) : Prop :=
  (info.fixWS = true → fixWhitespace = true) ∧
  (∀ r ∈ info.reports, r.start ≤ r.stop) ∧
  info.reports.Pairwise RepNested

instance (fw : Bool) (info : RuleInfo) : Decidable (RuleWF fw info) := by unfold RuleWF; infer_instance

/-- `ReportsNested`: every rule lists its reports inner first -/
def XWF (x : XTables) : Prop := ∀ info ∈ x.rules.toList, RuleWF x.fixWhitespace info

instance (x : XTables) : Decidable (XWF x) := by unfold XWF; infer_instance

end TmVerif.EventNesting
