import TmVerif.Model.Proto
import TmVerif.Model.LexTables
import TmVerif.Model.LexRun
import TmVerif.Model.DriverC11
/-!
Line protocol of C12.

  lex …            same case and answer as C11 (`DriverC11`): `TablesWF` (with the `exempt` rule ids of
                   hand-written actions), class-map enumeration, and — when inputs are attached — the
                   token sequences of the table-driven model (json, simple, generated lexers).
  skip <variant> <offset> <hex>   → `<ok 0|1>:<offset>:<line>:<lineOffset>`   (`tm: skipAction`, entered
                   after `Init(source); rewind(offset)`)
  judge <go answer> :: <case>     → the implementation's answer against the stated contract itself:
      lex:  every sequence ends in EOI at `[len,len)` repeated, other tokens are non-empty, ordered,
            disjoint, gaps are tiled by space-rule matches of `Tables.Scan` after the BOM, `Line()` is
            `1 + newlines before the token`;
      skip: `line = 1 + newlines before the new offset` (and `lineOffset` = start of that line).
-/
namespace TmVerif.DriverC12
open TmVerif.Proto TmVerif.LexTables TmVerif.LexRun TmVerif.DriverC11

def parseTok (s : String) : Option Tok :=
  match (s.splitOn ":").mapM parseInt? with
  | some [t, a, b, l, c] => some ⟨t, a.toNat, b.toNat, l, c⟩
  | _ => none

def parseSeq (s : String) : Option (List Tok) :=
  if s == "" then some [] else (s.splitOn ",").mapM parseTok

/-- `[a, b)` is tiled by space-rule matches of the table scan. -/
def gapTiled (sp : Spec) (src : List UInt8) (state : Int) : Nat → Nat → Nat → Bool
  | 0, a, b => a == b
  | fuel + 1, a, b =>
    if a ≥ b then a == b
    else
      match specOnce sp src state a with
      | some (.restart a') => decide (a < a') && decide (a' ≤ b) && gapTiled sp src state fuel a' b
      | _ => false

/-- The contract of C12 on one observed token sequence; `none` = holds. -/
def contract (sp : Spec) (src : List UInt8) (state : Int) (toks : List Tok) : Option String :=
  let len := src.length
  let rec go (prevEnd : Nat) : List Tok → Option String
    | [] => some "no EOI within len+3 calls"
    | t :: rest =>
      if t.stop > len ∨ t.start > t.stop then some s!"token {t.tok} has offsets [{t.start},{t.stop}) outside the input"
      else if t.start < prevEnd then some s!"token {t.tok} at {t.start} overlaps the previous token ending at {prevEnd}"
      else if !gapTiled sp src state (len + 1) prevEnd t.start then
        some s!"the text between {prevEnd} and {t.start} is not a sequence of space-rule matches"
      else if sp.opts.tokenLine ∧ t.line ≠ 1 + (countNL (src.take t.start) : Int) then
        some s!"token {t.tok} at {t.start}: Line() = {t.line}, want {1 + countNL (src.take t.start)}"
      else if t.tok = 0 then
        if t.start ≠ len ∨ t.stop ≠ len then some s!"EOI reported at [{t.start},{t.stop}) before the end of the input"
        else if rest.any (fun u => u.tok ≠ 0 ∨ u.start ≠ len ∨ u.stop ≠ len) then some "EOI does not repeat"
        else none
      else if t.start = t.stop then some s!"empty token {t.tok} at {t.start}"
      else go t.stop rest
  go (startOffset sp.opts src) toks

def judge (goToks caseToks : List String) : Option String :=
  match caseToks with
  | "lex" :: rest => do
    let c ← parseCase rest
    match goToks with
    | [_, _, _, seqs] =>
      let got := seqs.splitOn "|"
      if got.length ≠ c.inputs.length then some "violates: wrong number of answers"
      else
        let bad := (got.zip c.inputs).findSome? fun (g, i) =>
          match parseSeq g with
          | none => some s!"input state={i.1} text={showHex (i.2.map (·.toNat))}: lexer answered {g}"
          | some toks => (contract c.sp i.2 i.1 toks).map fun why =>
              s!"input state={i.1} text={showHex (i.2.map (·.toNat))}: {why} (tokens {g})"
        match bad with
        | some why => some ("violates: " ++ why)
        | none => some "holds"
    | _ => some "holds"
  | ["skip", _, off, h] => do
    let _ ← parseNat? off
    let src ← parseBytes h
    match goToks with
    | [a] =>
      match (a.splitOn ":").mapM parseInt? with
      | some [_, o, line, lo] =>
        let wantLine := 1 + (countNL (src.take o.toNat) : Int)
        let wantLo := (lineStart src o.toNat : Int)
        if line ≠ wantLine then some s!"violates: skipAction leaves line = {line} at offset {o}, {wantLine - 1} newlines precede it"
        else if lo ≠ wantLo then some s!"violates: skipAction leaves lineOffset = {lo} at offset {o}, the line starts at {wantLo}"
        else some "holds"
      | _ => some "holds"
    | _ => some "holds"
  | _ => some "holds"

def handle (args : List String) : Option String :=
  match args with
  | "lex" :: _ => DriverC11.handle args
  | ["skip", variant, off, h] => do
    let v ← bits variant 3
    let off ← parseNat? off
    let src ← parseBytes h
    let var : Variant := ⟨v.getD 0 false, v.getD 1 false, v.getD 2 false⟩
    let l := rewind tmOpts var (init tmOpts var src) off
    match skipAction var l with
    | none => some "panic"
    | some (ok, l) => some s!"{showBool ok}:{l.offset}:{l.line}:{l.lineOffset}"
  | "judge" :: rest =>
    let (goToks, caseToks) := DriverC11.splitAt "::" rest
    judge goToks caseToks
  | _ => none

end TmVerif.DriverC12
