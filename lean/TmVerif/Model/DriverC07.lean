import TmVerif.Model.LRProto
import TmVerif.Model.LRK
import TmVerif.Model.LRAccept
namespace TmVerif.DriverC07
open TmVerif.Proto TmVerif.LR TmVerif.LRRef TmVerif.LRK TmVerif.CFG

def verdictK (g : Grammar) (t : Tables) (k : Nat) : String :=
  match phiWalk g t with
  | .error e => s!"mismatch {e}"
  | .ok phi =>
    let la := lakFix g t k phi
    match checkTries g t k la with
    | .error e => s!"mismatch {e}"
    | .ok _ => "ok"

/-- `lalrk <grammar 6> <k> <tables>` : every lookahead automaton in the tables answers, for every
LALR(k) lookahead string of a conflicting rule, that rule.
`accept <tables> <input> <spec>…` : sentences check (search). -/
def handle (args : List String) : Option String :=
  match args with
  | "lalrk" :: rest => do
    let g ← CFG.parseGrammar (rest.take 6)
    match rest.drop 6 with
    | k :: rest =>
      let k ← parseNat? k
      let (t, rest) ← parseTables rest
      if !rest.isEmpty then none else some (verdictK g t k)
    | _ => none
  | "accept" :: rest => do
    let (t, rest) ← parseTables rest
    match rest with
    | input :: specs =>
      let input ← parseNat? input
      match LRAccept.checkAll t input specs with
      | none => some "ok"
      | some e => some s!"mismatch {e}"
    | _ => none
  | "judge" :: _ :: "::" :: rest =>
    match handle rest with
    | some "ok" => some "holds"
    | some v => some s!"violates: {v}"
    | none => none
  | _ => none

end TmVerif.DriverC07
