import TmVerif.Model.LRProto
import TmVerif.Model.LRK
import TmVerif.Model.LRAccept
import TmVerif.Model.LRCompleteK
import TmVerif.Model.LRSoundK
namespace TmVerif.DriverC07
open TmVerif.Proto TmVerif.LR TmVerif.LRRef TmVerif.LRK TmVerif.CFG

def verdictK (g : Grammar) (t : Tables) (k : Nat) : String :=
  match phiWalk g t with
  | .error e => s!"mismatch {e}"
  | .ok phi =>
    let la := lakFix g t k phi
    match checkTries g t k la with
    | .error e => s!"mismatch {e}"
    | .ok _ =>
      -- completeness certificate (hypothesis of C07_lr_complete_k)
      match LRCompleteK.mkKCert g t k with
      | .error e => s!"mismatch completeness certificate: cannot be built: {e}"
      | .ok cc =>
        if !LRCompleteK.complKOk g t k cc then
          s!"mismatch completeness certificate: {LRCompleteK.complKFailure g t k cc}"
        else
          -- soundness certificate against every decision of the lookahead automata
          -- (hypothesis of C07_lr_sound_k)
          let cert := LRSoundK.computePastK g t
          if LRSoundK.certKOk g t cert then "ok"
          else s!"mismatch soundness certificate: {LRSoundK.firstFailureK g t cert}"

/-- `lalrk <grammar 6> <k> <tables>` : every lookahead automaton in the tables answers, for every
LALR(k) lookahead string of a conflicting rule, that rule; the LR(k)-item completeness certificate
(`complKOk`) and the deep-lookahead soundness certificate (`certKOk`), both built from the real
tables, hold (`ok` = every hypothesis of the C07 theorems about the tables).
`accept <tables> <input> <spec>…` : sentences check (search). -/
def handle (args : List String) : Option String :=
  match args with
  | "lalrk" :: rest => do
    let g ← CFG.parseGrammar (rest.take 6)
    match rest.drop 6 with
    | k :: rest =>
      let k ← parseNat? k
      let (t, rest) ← parseTables rest
      if !rest.isEmpty then none else some (verdictK g t k)
    | _ => none
  | "accept" :: rest => do
    let (t, rest) ← parseTables rest
    match rest with
    | input :: specs =>
      let input ← parseNat? input
      match LRAccept.checkAll t input specs with
      | none => some "ok"
      | some e => some s!"mismatch {e}"
    | _ => none
  | "judge" :: _ :: "::" :: rest =>
    match handle rest with
    | some "ok" => some "holds"
    | some v => some s!"violates: {v}"
    | none => none
  | _ => none

end TmVerif.DriverC07
