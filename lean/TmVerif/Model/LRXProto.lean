/- Protocol for the extended runtime model (shared by the C02/C19/C20/C29 drivers). -/
import TmVerif.Model.LRProto
import TmVerif.Model.LRX
namespace TmVerif.LRX
open TmVerif.Proto TmVerif.LR

def parseReport (s : String) : Option Report :=
  match s.splitOn ":" with
  | [a, b, c] => do
    let a ← parseInt? a; let b ← parseNat? b; let c ← parseNat? c
    pure ⟨a, b, c⟩
  | _ => none

/-- `type/fixws/rep,rep,…` (`-` = no reports) -/
def parseRuleInfo (s : String) : Option RuleInfo :=
  match s.splitOn "/" with
  | [ty, fw, reps] => do
    let ty ← parseInt? ty
    let fw ← parseBool? fw
    let reps ← if reps == "-" then some [] else (reps.splitOn ",").mapM parseReport
    pure { ruleType := ty, fixWS := fw, reports := reps }
  | _ => none

def parseTok (s : String) : Option Tok :=
  match s.splitOn ":" with
  | [a, b, c] => do
    let a ← parseInt? a; let b ← parseNat? b; let c ← parseNat? c
    pure ⟨a, b, c⟩
  | _ => none

def parseToks (s : String) : Option (List Tok) :=
  if s == "-" then some [] else (s.splitOn ",").mapM parseTok

/-- `<tables> <useOpt> <rules> <fixWhitespace> <recovering> <errSym> <afterErr> <cancellable>` -/
def parseXTables (toks : List String) : Option (XTables × List String) := do
  let (t, rest) ← parseTables toks
  match rest with
  | o :: rules :: fw :: rec :: es :: ae :: cn :: rest =>
    let o ← parseBool? o
    let rules ← if rules == "_" then some [] else (rules.splitOn ";").mapM parseRuleInfo
    let fw ← parseBool? fw; let rec ← parseBool? rec; let es ← parseInt? es
    let ae ← parseInts ae; let cn ← parseBool? cn
    pure ({ t := { t with optimized := o }, rules := rules.toArray, fixWhitespace := fw,
            recovering := rec, errSym := es, afterErr := ae, cancellable := cn }, rest)
  | _ => none

def showXRun (res : XResult) (c : XCfg) : String :=
  let evs := c.evs.reverse.map fun e => match e with
    | .node ty o e => s!"{ty}:{o}:{e}"
    | .error o e => s!"E:{o}:{e}"
  let r := match res with
    | .accept => "ok"
    | .syntaxError o e => s!"err:{o}:{e}"
    | .cancelled => "cancelled"
    | .panic => "panic"
    | .fuel => "loop"
  " ".intercalate (evs ++ [r])

/-- `xrun <xtables…> <input> <stopOnError> <cancelAt> <toks> <endOff>` -/
def handleXRun (args : List String) : Option String := do
  let (x, rest) ← parseXTables args
  match rest with
  | [input, stop, cancelAt, toks, endOff] =>
    let input ← parseNat? input; let stop ← parseBool? stop; let cancelAt ← parseNat? cancelAt
    let toks ← parseToks toks; let endOff ← parseNat? endOff
    let inp : Input := { toks := toks.toArray, endOff := endOff }
    let fuel := 80 * (toks.length + 2) * (x.t.nStates + 2) + 400
    let (res, c) := xrun x inp input stop cancelAt fuel
    some (showXRun res c)
  | _ => none

end TmVerif.LRX
