import TmVerif.Model.Proto
import TmVerif.Model.ActionRefs
/-!
Line protocol for C16 (strings are hex byte strings, `-` = empty):

  vars  := <names> <maxPos> <remap> <symRefCount> <types> <lhsType>
           names  `hexname:p,p;hexname:p` | `_`        remap `pos:idx,pos:idx` | `-`
           types  `pos:hextype,…` | `-`               lhsType hex
  rewrite <vars> <action>                 → `ok <hex of the Go text>` | `err:<kind>`      (goParserAction)
  meta <text>                             → `<d> <id> <prop>` | `err:<kind>`              (parseMeta)
  remap <elems>                           → `<rhs> <remap sorted by position> <SymRefCount> <mids>`
           elems `r<pos>` / `m` (state marker) / `c<maxPos>` (command), comma separated, `-` = none
           rhs   `s<pos>` / `x<k>` (k-th extracted mid-rule nonterminal); mids `symRefCount:maxPos;…` | `_`
  eval <vars> <refs> <stack> <lhs> <want> → what every reference evaluates to on the given parser stack, `,`-joined
           refs `hexid:prop;…` (prop v/s/o/e), stack `val:off:end,…` (bottom first; val = printed value with its
           dynamic type `s=`/`i=`/`t=`, `<nil>` for a nil interface; a typed reference applies the type assertion), lhs `val:off:end`; `<want>` is the source-level expectation computed by the
           harness (ignored by the model, used by `judge`)
  judge <go answer> :: <case>             → `holds` | `violates: why`; for `eval` the answer violates the property
           when it differs from `<want>`; for `remap` when the real Remap is not the position→index map of the
           real RHS; for `rewrite` an accepted action with a reference that denotes no symbol of the rule (number
           outside `[0, MaxPos-1)`, unknown name); other differences of the text are not by themselves violations.
-/
namespace TmVerif.DriverC16
open TmVerif.Proto TmVerif.ActionRefs

def hexStr (s : String) : Option Str := parseHex s

def parsePair (s : String) : Option (Nat × Nat) :=
  match s.splitOn ":" with
  | [a, b] => do pure ((← parseNat? a), (← parseNat? b))
  | _ => none

def parseRemap (s : String) : Option (List (Nat × Nat)) :=
  if s == "-" then some [] else (s.splitOn ",").mapM parsePair

def parseNames (s : String) : Option (List (Str × List Nat)) :=
  if s == "_" then some [] else
  (s.splitOn ";").mapM fun t =>
    match t.splitOn ":" with
    | [n, ps] => do pure ((← hexStr n), (← parseNats ps))
    | _ => none

def parseTypes (s : String) : Option (List (Nat × Str)) :=
  if s == "-" then some [] else
  (s.splitOn ",").mapM fun t =>
    match t.splitOn ":" with
    | [p, ty] => do pure ((← parseNat? p), (← hexStr ty))
    | _ => none

def parseVars (names maxPos remap src types lhs : String) : Option Vars := do
  pure ⟨← parseNames names, ← parseNat? maxPos, ← parseRemap remap, ← parseNat? src, ← parseTypes types, ← hexStr lhs⟩

def showProp : Prp → String
  | .value => "value" | .sym => "sym" | .offset => "offset" | .endoffset => "endoffset"

def parseProp (s : String) : Option Prp :=
  if s == "v" then some .value else if s == "s" then some .sym
  else if s == "o" then some .offset else if s == "e" then some .endoffset else none

/-! ### remap -/

def parseElem (s : String) : Option Elem :=
  if s == "m" then some .marker
  else if s.startsWith "r" then (parseNat? (s.drop 1).toString).map Elem.ref
  else if s.startsWith "c" then (parseNat? (s.drop 1).toString).map Elem.cmd
  else none

def parseElems (s : String) : Option (List Elem) :=
  if s == "-" then some [] else (s.splitOn ",").mapM parseElem

def showRSym : RSym → String
  | .sym p => s!"s{p}"
  | .mid k => s!"x{k}"

def sortPairs (l : List (Nat × Nat)) : List (Nat × Nat) := l.mergeSort fun a b => a.1 ≤ b.1

def showPairs (l : List (Nat × Nat)) : String :=
  if l.isEmpty then "-" else ",".intercalate ((sortPairs l).map fun e => s!"{e.1}:{e.2}")

def showState (st : TState) : String :=
  let rhs := if st.rhs.isEmpty then "-" else ",".intercalate (st.rhs.map showRSym)
  let mids := if st.mids.isEmpty then "_" else ";".intercalate (st.mids.map fun m => s!"{m.symRefCount}:{m.maxPos}")
  s!"{rhs} {showPairs st.actualPos} {st.symRefCount} {mids}"

def parseRhs (s : String) : Option (List RSym) :=
  if s == "-" then some [] else
  (s.splitOn ",").mapM fun t =>
    if t.startsWith "s" then (parseNat? (t.drop 1).toString).map RSym.sym
    else if t.startsWith "x" then (parseNat? (t.drop 1).toString).map RSym.mid
    else none

/-- the specification of `Remap` on the implementation's own RHS: `remap[pos] = i` iff `rhs[i]` is the symbol
with position `pos` (> 0). Positions are distinct in real rules; the last occurrence wins otherwise. -/
def remapOk (rhs : List RSym) (remap : List (Nat × Nat)) : Bool :=
  let idx := List.range rhs.length
  (remap.all fun e => e.1 > 0 && rhs[e.2]? == some (.sym e.1)) &&
  (idx.all fun i =>
    match rhs[i]? with
    | some (.sym p) =>
      p == 0 || (match remap.lookup p with
        | some j => j ≥ i && rhs[j]? == some (.sym p)
        | none => false)
    | _ => true)

/-! ### eval -/

structure RefQ where
  id : Str
  prop : Prp

def parseRefs (s : String) : Option (List RefQ) :=
  if s == "_" then some [] else
  (s.splitOn ";").mapM fun t =>
    match t.splitOn ":" with
    | [i, p] => do pure ⟨← hexStr i, ← parseProp p⟩
    | _ => none

def parseEntry (s : String) : Option (Entry String) :=
  match s.splitOn ":" with
  | [v, o, e] => do pure ⟨v, ← parseInt? o, ← parseInt? e⟩
  | _ => none

def parseStack (s : String) : Option (List (Entry String)) :=
  if s == "-" then some [] else (s.splitOn ",").mapM parseEntry

/-- `nn, _ := x.value.(T)` on a printed value. The harness prints a value with its dynamic type
(`s=…` string, `i=…` int, `t=…` *TV, `<nil>` nil interface); the assertion yields the value when the dynamic
type is the declared one and the zero value of the declared type otherwise (`s=`, `i=0`, `t=nil`). Declared
types other than the three used by the harness grammars leave the value unchanged. -/
def castTo (ty : Str) (o : Out String) : Out String :=
  match o with
  | .val a =>
    let pre := if ty == cs "string" then some ("s=", "s=") else if ty == cs "int" then some ("i=", "i=0")
      else if ty == cs "*TV" then some ("t=", "t=nil") else none
    match pre with
    | some (p, zero) => if a.startsWith p then .val a else .val zero
    | none => .val a
  | o => o

def showOut : Out String → String
  | .nil => "<nil>"
  | .neg1 => "-1"
  | .val a => a
  | .num n => toString n
  | .sym o e => s!"sym({o},{e})"
  | .oob => "oob"

def evalOne (v : Vars) (stack : List (Entry String)) (lhs : Entry String) (q : RefQ) : String :=
  match locate v q.id with
  | .error e => e.toString
  | .ok loc =>
    let ty : Str := if q.prop == .value then
      (match loc with
       | .span _ _ pos => typeOf v pos
       | .lhs raw => if raw then [] else v.lhsType
       | .absent => []) else []
    match evalLoc v stack lhs loc q.prop with
    | .error e => e.toString
    | .ok o => showOut (if ty == [] then o else castTo ty o)

def showRes (r : Except Err Str) : String :=
  match r with
  | .ok s => "ok " ++ showHex s
  | .error e => e.toString

def handle (args : List String) : Option String :=
  match args with
  | ["rewrite", names, maxPos, remap, src, types, lhs, act] => do
    let v ← parseVars names maxPos remap src types lhs
    let act ← hexStr act
    some (showRes (action v act))
  | ["meta", text] => do
    let t ← hexStr text
    match parseMeta t with
    | .ok (d, id, p) => some s!"{d} {showHex id} {showProp p}"
    | .error e => some e.toString
  | ["remap", elems] => do
    let es ← parseElems elems
    some (showState (build es))
  | ["eval", names, maxPos, remap, src, types, lhs, refs, stack, lhsE, _want] => do
    let v ← parseVars names maxPos remap src types lhs
    let refs ← parseRefs refs
    let stack ← parseStack stack
    let lhsE ← parseEntry lhsE
    some (if refs.isEmpty then "-" else ",".intercalate (refs.map (evalOne v stack lhsE)))
  | "judge" :: rest =>
    match rest with
    | [ans, "::", "eval", _, _, _, _, _, _, _, _, _, want] =>
      if ans == want then some "holds"
      else some s!"violates: the references evaluate to `{ans}` in the generated parser, the source-level reading of the rule gives `{want}`"
    | [rhs, remap, _src, _mids, "::", "remap", _] => do
      let rhs ← parseRhs rhs
      let remap ← parseRemap remap
      if remapOk rhs remap then some "holds"
      else some "violates: Remap of the compiled rule is not the position→index map of its right-hand side"
    | ["ok", _, "::", "rewrite", names, maxPos, remap, src, types, lhs, act] => do
      -- the implementation accepts the action: every reference in it must denote a symbol of the rule
      let v ← parseVars names maxPos remap src types lhs
      let act ← hexStr act
      match action v act with
      | .error .range => some "violates: the action is accepted although it contains a numbered reference outside the positions of the rule"
      | .error .name => some "violates: the action is accepted although it contains a name that is no alias of the rule"
      | _ => some "holds"
    | _ => some "holds"
  | _ => none

end TmVerif.DriverC16
