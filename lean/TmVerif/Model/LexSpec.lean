import TmVerif.Model.Regex
import TmVerif.Model.LexTables
/-!
C09 — specification of the lexer ("longest match with rule priority") and the validator of the
tables that `lex.Compile` produces.  Core Lean only (linked into `tmv`).

* Symbols are `Int`: code points (rune mode) or bytes (byte mode); the end-of-input pseudo-symbol of
  `{eoi}` is `eoiSym = -1` (the value the generated lexers use for `l.ch` at the end of the input).  The harness
  resolves named patterns (`{name}` is replaced by the pattern's AST, as `reCompiler.serialize` does) and sends
  `{eoi}` as the one-symbol class `[(-1,-1)]`, so rule expressions are `ext`-free; `Lang noExt` is
  the denotation of C10 with no named patterns left.
* `deriv`, `nullable`, `emptyB`, `norm`: Brzozowski derivatives with simplifying constructors, the empty-word
  test, the exact emptiness test and a language-preserving head normal form (`Proofs/LexDeriv.lean` proves
  them against `Lang`).
* `Rule`, `scanSpec`: the property as a definition (executable), `ScanResult`: the same as a relation
  stated with languages only.
* `checkClasses`, `checkDfa`: the validator (Mode V).
-/
namespace TmVerif.LexSpec
open TmVerif.Charset TmVerif.Regex TmVerif.LexTables

/-- The pseudo-symbol `{eoi}` consumes: one of it follows the last character of the text. -/
def eoiSym : Int := -1

/-- No named patterns (they are resolved before the rules reach the model). -/
def noExt : List Nat → List Int → Prop := fun _ _ => False

/-- The canonical expression of the empty language. -/
def empty : Regex := .cc []

/-! ### Derivatives -/

/-- Does the expression denote the empty language?  (exact, see `emptyB_iff`) -/
def emptyB : Regex → Bool
  | .eps => false
  | .cc c => !c.any fun p => decide (p.1 ≤ p.2)
  | .cat a b => emptyB a || emptyB b
  | .alt a b => emptyB a && emptyB b
  | .rep r mn mx =>
    (match mx with | some m => decide (m < mn) | none => false) || (decide (0 < mn) && emptyB r)
  | .ext _ => true

/-- Does the expression match the empty word? -/
def nullable : Regex → Bool
  | .eps => true
  | .cc _ => false
  | .cat a b => nullable a && nullable b
  | .alt a b => nullable a || nullable b
  | .rep r mn mx =>
    (match mx with | some m => decide (mn ≤ m) | none => true) && (decide (mn = 0) || nullable r)
  | .ext _ => false

def isEmptyCC : Regex → Bool
  | .cc [] => true
  | _ => false

def isEps : Regex → Bool
  | .eps => true
  | _ => false

/-! A total preorder on expressions, used only to keep alternations in a canonical order (nothing is
proved about it: two members are merged only when they are equal). -/

def cmpCs : Charset → Charset → Ordering
  | [], [] => .eq
  | [], _ :: _ => .lt
  | _ :: _, [] => .gt
  | p :: c, q :: d => (compare p.1 q.1).then ((compare p.2 q.2).then (cmpCs c d))

def tag : Regex → Nat
  | .eps => 0
  | .cc _ => 1
  | .cat _ _ => 2
  | .alt _ _ => 3
  | .rep _ _ _ => 4
  | .ext _ => 5

def cmpOptNat : Option Nat → Option Nat → Ordering
  | none, none => .eq
  | none, some _ => .gt
  | some _, none => .lt
  | some a, some b => compare a b

def cmp : Regex → Regex → Ordering
  | .cc c, .cc d => cmpCs c d
  | .cat a1 a2, .cat b1 b2 => (cmp a1 b1).then (cmp a2 b2)
  | .alt a1 a2, .alt b1 b2 => (cmp a1 b1).then (cmp a2 b2)
  | .rep r mn mx, .rep r' mn' mx' => (cmp r r').then ((compare mn mn').then (cmpOptNat mx mx'))
  | a, b => compare (tag a) (tag b)

/-- The members of a (nested) alternation. -/
def altList : Regex → List Regex
  | .alt a b => altList a ++ altList b
  | r => [r]

def altOf : List Regex → Regex
  | [] => empty
  | [r] => r
  | r :: rs => .alt r (altOf rs)

/-- Insert into a list kept in `cmp` order; an element already present is not inserted again. -/
def insertU (x : Regex) : List Regex → List Regex
  | [] => [x]
  | y :: ys =>
    match cmp x y with
    | .lt => x :: y :: ys
    | .gt => y :: insertU x ys
    | .eq => if x == y then y :: ys else y :: insertU x ys

/-- The members of both alternations: flattened, without `∅` members, without duplicates, in `cmp` order. -/
def unionList (l : List Regex) : List Regex :=
  (l.filter fun r => !isEmptyCC r).foldr insertU []

/-- Simplifying alternation. -/
def union (a b : Regex) : Regex := altOf (unionList (altList a ++ altList b))

/-- `a · b` for a fixed right operand (neither `∅` nor `ε`): drops `ε`, propagates `∅`, associates to the right
and distributes over an alternation at the head (so that a derivative is a flat alternation of concatenations:
Antimirov's partial derivatives, of which there are finitely many). -/
def seqR (b : Regex) : Regex → Regex
  | .eps => b
  | .cat a1 a2 => .cat a1 (seqR b a2)
  | .cc c => if c.isEmpty then empty else .cat (.cc c) b
  | .alt x y => union (seqR b x) (seqR b y)
  | .rep r mn mx => .cat (.rep r mn mx) b
  | .ext n => .cat (.ext n) b

/-- Simplifying concatenation. -/
def seq (a b : Regex) : Regex :=
  if isEmptyCC b then empty else if isEps b then a else seqR b a

/-- `r{mn,mx}` with `r{0,0} = ε`. -/
def repS (r : Regex) (mn : Nat) (mx : Option Nat) : Regex :=
  match mx with
  | some 0 => if mn = 0 then .eps else empty
  | _ => .rep r mn mx

/-- Brzozowski derivative with respect to one symbol. -/
def deriv (s : Int) : Regex → Regex
  | .eps => empty
  | .cc c => if memB s c then .eps else empty
  | .cat a b =>
    if nullable a then union (seq (deriv s a) b) (deriv s b) else seq (deriv s a) b
  | .alt a b => union (deriv s a) (deriv s b)
  | .rep r mn mx =>
    match mx with
    | some 0 => empty
    | _ => seq (deriv s r) (repS r (mn - 1) (mx.map (· - 1)))
  | .ext _ => empty

def derivs (r : Regex) (w : List Int) : Regex := w.foldl (fun r s => deriv s r) r

/-! Head normal form.  A derivative such as `x*·r{0,2}·t` hides, behind its nullable head, the continuations
that the subset construction of `lex/generator.go` lists eagerly (its states are closed under ε-links), and two
texts reaching the same DFA state can leave syntactically different derivatives with the same language.
`norm` expands an expression into an alternation of `ε` and concatenations that start with a character class
(one per position "about to be consumed", as in the generator), which makes the derivative vector paired with a
DFA state unique in practice; only `L (norm r) = L r` is proved and needed. -/

/-- The non-empty words of `r{mn,mx}`: `hr` are the heads of `r`, `nr` says that `r` matches the empty word
(then the heads of the following copies are listed too). -/
def headsRep (hr : Regex) (nr : Bool) (r : Regex) : Nat → Nat → Option Nat → Regex
  | 0, mn, mx =>
    match mx with
    | some 0 => empty
    | _ => seq hr (repS r (mn - 1) (mx.map (· - 1)))
  | fuel + 1, mn, mx =>
    match mx with
    | some 0 => empty
    | _ =>
      let first := seq hr (repS r (mn - 1) (mx.map (· - 1)))
      if nr && (decide (0 < mn) || mx.isSome) then
        union first (headsRep hr nr r fuel (mn - 1) (mx.map (· - 1)))
      else first

/-- The non-empty words of `r`, as an alternation of concatenations that start with a character class. -/
def heads : Regex → Regex
  | .eps => empty
  | .cc c => .cc c
  | .cat a b => if nullable a then union (seq (heads a) b) (heads b) else seq (heads a) b
  | .alt a b => union (heads a) (heads b)
  | .rep r mn mx => headsRep (heads r) (nullable r) r (mn + mx.getD 0) mn mx
  | .ext _ => empty

/-- Head normal form (same language). -/
def norm (r : Regex) : Regex := if nullable r then union .eps (heads r) else heads r

/-- The derivative matcher. -/
def matchesB (r : Regex) (w : List Int) : Bool := nullable (derivs r w)

/-- All range lists an expression mentions. -/
def csOf : Regex → List Charset
  | .eps => []
  | .cc c => [c]
  | .cat a b => csOf a ++ csOf b
  | .alt a b => csOf a ++ csOf b
  | .rep r _ _ => csOf r
  | .ext _ => []

/-! ### Rules and the specification -/

/-- `lex.Rule` as far as `lex.Compile` looks at it: the pattern (named patterns resolved), `Precedence`,
`Action` and `StartConditions`. -/
structure Rule where
  re : Regex
  prec : Int
  action : Int
  scs : List Int
deriving Repr, DecidableEq

/-- One expression per rule: the rule's pattern when it is active in start condition `sc`, `∅` otherwise. -/
def initVec (rules : List Rule) (sc : Int) : List Regex :=
  rules.map fun r => if r.scs.contains sc then r.re else empty

/-- One character: derivative, then head normal form. -/
def stepVec (s : Int) (D : List Regex) : List Regex := D.map fun d => norm (deriv s d)

/-- No rule can match any extension of the text consumed so far. -/
def dead (D : List Regex) : Bool := D.all emptyB

/-- Priority exactly as `generator.generate` resolves it: walk the rules in their order, keep the first one
and replace it only by a rule with a strictly greater `Precedence`.  `(precedence, action)` of the winner. -/
def bestUpd (acc : Option (Int × Int)) (r : Rule) : Option (Int × Int) :=
  match acc with
  | none => some (r.prec, r.action)
  | some (p, a) => if p < r.prec then some (r.prec, r.action) else some (p, a)

def bestFrom : Option (Int × Int) → List Rule → List Regex → Option (Int × Int)
  | acc, r :: rs, d :: ds => bestFrom (if nullable d then bestUpd acc r else acc) rs ds
  | acc, _, _ => acc

/-- The action of the highest-priority rule whose component matches the empty word. -/
def accept (rules : List Rule) (D : List Regex) : Option Int := (bestFrom none rules D).map (·.2)

/-- The scan over characters `(symbol, width in bytes)`: `D` are the derivatives of the rules by the
characters consumed so far (`pos` bytes), `last` the last non-empty accepted prefix and its action. -/
def specLoop (rules : List Rule) : List Regex → Nat → Option (Nat × Int) → List (Int × Nat) → Nat × Int
  | _, pos, last, [] => last.getD (pos, 0)
  | D, pos, last, (s, w) :: rest =>
    let D' := stepVec s D
    if dead D' then last.getD (pos, 0)
    else
      let last' := match accept rules D' with
        | some a => some (pos + w, a)
        | none => last
      specLoop rules D' (pos + w) last' rest

/-- THE PROPERTY AS A DEFINITION.  `chars` are the characters of the text with their widths in bytes
(bytes with width 1 in byte mode; in rune mode what `utf8.DecodeRuneInString` yields, i.e. `(U+FFFD, 1)` for
every byte that does not start a valid encoding); one `{eoi}` symbol of width 0 follows the text.
Result `(size, action)`:
* the byte length of the longest non-empty prefix of `text·eoi` that a rule active in `sc` matches, with the
  action of the highest-priority such rule (greatest `Precedence`, then first in rule order);
* `(size, 0)` when no non-empty prefix is matched, where `size` is the byte length of the longest prefix
  that is still a prefix of some word of some active rule (0 when not even the first character is).
(`0` is `lex`'s "invalid token" action; rules are required to have actions ≥ 1.) -/
def scanSpec (rules : List Rule) (sc : Int) (chars : List (Int × Nat)) : Nat × Int :=
  specLoop rules (initVec rules sc) 0 none (chars ++ [(eoiSym, 0)])

/-! The same property as a relation, stated with languages only (no derivatives). -/

def symsOf (p : List (Int × Nat)) : List Int := p.map (·.1)
def bytesOf (p : List (Int × Nat)) : Nat := (p.map (·.2)).sum

/-- Rule number `i` is active in `sc` and matches the word `w`. -/
def RuleMatches (rules : List Rule) (sc : Int) (i : Nat) (w : List Int) : Prop :=
  ∃ r, rules[i]? = some r ∧ sc ∈ r.scs ∧ Lang noExt r.re w

/-- Rule `i` wins among the rules matching `w`: no matching rule has a greater precedence, and none of
the same precedence comes earlier. -/
def IsBest (rules : List Rule) (sc : Int) (i : Nat) (w : List Int) : Prop :=
  RuleMatches rules sc i w ∧
  ∀ j, RuleMatches rules sc j w →
    ∀ ri rj, rules[i]? = some ri → rules[j]? = some rj → rj.prec < ri.prec ∨ (rj.prec = ri.prec ∧ i ≤ j)

/-- Some active rule matches some extension of `w`. -/
def Viable (rules : List Rule) (sc : Int) (w : List Int) : Prop :=
  ∃ i v, RuleMatches rules sc i (w ++ v)

/-- `res` is what the property asks of a scan of `chars` in start condition `sc`. -/
def ScanResult (rules : List Rule) (sc : Int) (chars : List (Int × Nat)) (res : Nat × Int) : Prop :=
  let stream := chars ++ [(eoiSym, 0)]
  let MatchAt (n : Nat) : Prop := 0 < n ∧ n ≤ stream.length ∧ ∃ i, RuleMatches rules sc i (symsOf (stream.take n))
  let ViableAt (n : Nat) : Prop := n ≤ stream.length ∧ (n = 0 ∨ Viable rules sc (symsOf (stream.take n)))
  (∃ n, MatchAt n ∧ (∀ m, MatchAt m → m ≤ n) ∧
      ∃ i r, IsBest rules sc i (symsOf (stream.take n)) ∧ rules[i]? = some r ∧
        res = (bytesOf (stream.take n), r.action)) ∨
  ((¬ ∃ n, MatchAt n) ∧ ∃ n, ViableAt n ∧ (∀ m, ViableAt m → m ≤ n) ∧ res = (bytesOf (stream.take n), 0))

/-! ### Text decoding (rune mode) -/

/-- Repeated `utf8.DecodeRuneInString`: `(rune, width)`, `(U+FFFD, 1)` on an invalid byte. -/
def decodeText : Nat → List Nat → List (Int × Nat)
  | 0, _ => []
  | _, [] => []
  | fuel + 1, b :: rest =>
    match decodeRune (b :: rest) with
    | some (r, w) => (r, w) :: decodeText fuel ((b :: rest).drop w)
    | none => (0xFFFD, 1) :: decodeText fuel rest

/-- The characters `Tables.Scan` sees in the byte string `text`. -/
def charsOf (bytes : Bool) (text : List Nat) : List (Int × Nat) :=
  if bytes then text.map fun (b : Nat) => ((b : Int), 1) else decodeText text.length text

/-! ### Validator, part 1: symbol classes -/

/-- The representative of symbol class `c`: `{eoi}` for class 0 (`lex.EOI`), otherwise the first code
point of the first segment of the symbol map that is mapped to `c`. -/
def repOf (t : Tables) (c : Int) : Option Int :=
  if c = 0 then some eoiSym
  else (t.symbolMap.toList.find? fun e => e.target == c).map (·.start)

/-- The closed interval `[lo, hi]` lies inside one range of `cs` or meets none of them. -/
def segInOut (lo hi : Int) (cs : Charset) : Bool :=
  cs.all fun p => (decide (p.1 ≤ lo) && decide (hi ≤ p.2)) || decide (p.2 < lo) || decide (hi < p.1)

/-- Every segment `[Start, next Start - 1]` (the last one ends at `max`) is, for each of the sets,
inside one range or outside all of them, and agrees with the representative of its class. -/
def checkSegs (sets : List Charset) (rep : Int → Option Int) (max : Int) : List RangeEntry → Bool
  | [] => true
  | e :: rest =>
    let hi := match rest with
      | n :: _ => n.start - 1
      | [] => max
    (match rep e.target with
     | none => false
     | some s => sets.all fun cs => segInOut e.start hi cs && (memB e.start cs == memB s cs))
    && checkSegs sets rep max rest

/-- All range lists of all rules. -/
def ruleSets (rules : List Rule) : List Charset := rules.flatMap fun r => csOf r.re

/-- `checkClasses`: linear in (segments × range lists); decides that one representative per symbol class
stands for every code point of the class (`C09_checkClasses_sound`). -/
def checkClasses (rules : List Rule) (t : Tables) : Bool :=
  checkSegs (ruleSets rules) (repOf t) (maxRune t.scanBytes) t.symbolMap.toList

/-! ### Validator, part 2: the automaton -/

abbrev Pair := Int × List Regex

/-- `(class, representative)` for every class that has one. -/
def classReps (t : Tables) : List (Nat × Int) :=
  (List.range t.numSymbols.toNat).filterMap fun (c : Nat) => (repOf t (c : Int)).map fun s => (c, s)

/-- The state a non-action table entry leads to (directly or through a checkpoint). -/
def entryTarget (t : Tables) (e : Int) : Option Int :=
  if 0 ≤ e then some e
  else if actionStart t < e then (getI t.backtrack (-1 - e)).map (·.nextState)
  else none

/-- The conditions on one table cell: state `q` is paired with the derivative vector `D`; `c` is a symbol
class with representative `s`. -/
def cellOk (rules : List Rule) (t : Tables) (V : List Pair) (q : Int) (D : List Regex) (cs : Nat × Int) : Bool :=
  match getI t.dfa (q * t.numSymbols + (cs.1 : Int)) with
  | none => false
  | some e =>
    let D' := stepVec cs.2 D
    let acc := accept rules D
    if dead D' then
      -- nothing can be extended by this symbol: the cell holds the action of the state
      -- (the accepted rule's action, or "invalid token")
      e == actionStart t - acc.getD 0
    else if 0 ≤ e then
      -- a plain transition: the target is paired with the derivative; leaving an accepting state for
      -- a non-accepting one needs a checkpoint
      V.contains (e, D') && !(acc.isSome && (accept rules D').isNone)
    else if actionStart t < e then
      -- a checkpoint: only out of an accepting state, and it records that state's action
      match getI t.backtrack (-1 - e) with
      | none => false
      | some bt => acc == some bt.action && V.contains (bt.nextState, D')
    else false

def pairOk (rules : List Rule) (t : Tables) (cr : List (Nat × Int)) (V : List Pair) (p : Pair) : Bool :=
  decide (0 ≤ p.1) && cr.all (cellOk rules t V p.1 p.2)

/-- Every start condition's state is paired with the rules active in it, none of which matches the empty word. -/
def startsOk (rules : List Rule) (t : Tables) (V : List Pair) : Bool :=
  (List.range t.stateMap.size).all fun (sc : Nat) =>
    match t.stateMap[sc]? with
    | none => false
    | some q => V.contains (q, initVec rules (sc : Int)) && (accept rules (initVec rules (sc : Int))).isNone

/-- Action 0 is `lex`'s "invalid token"; rule actions must be distinguishable from it. -/
def rulesOk (rules : List Rule) : Bool := rules.all fun r => decide (1 ≤ r.action)

/-- `V` is a set of (state, derivative vector) pairs that contains the start pairs, is closed under
the transitions of the table, and every cell of every pair is as the rules demand. -/
def closedOk (rules : List Rule) (t : Tables) (V : List Pair) : Bool :=
  rulesOk rules && startsOk rules t V && V.all (pairOk rules t (classReps t) V)

/-- The live successors of a pair (exploration only; nothing is proved about it). -/
def succs (t : Tables) (cr : List (Nat × Int)) (p : Pair) : List Pair :=
  cr.filterMap fun cs =>
    match getI t.dfa (p.1 * t.numSymbols + (cs.1 : Int)) with
    | none => none
    | some e =>
      let D' := stepVec cs.2 p.2
      if dead D' then none else (entryTarget t e).map fun q' => (q', D')

/-- Worklist exploration of the reachable pairs; `none` = out of fuel. -/
def explore (succ : Pair → List Pair) : Nat → List Pair → List Pair → Option (List Pair)
  | _, [], seen => some seen
  | 0, _ :: _, _ => none
  | fuel + 1, p :: work, seen =>
    let new := (succ p).foldl
      (fun acc x => if seen.contains x || acc.contains x then acc else x :: acc) []
    explore succ fuel (new ++ work) (new ++ seen)

def startPairs (rules : List Rule) (t : Tables) : List Pair :=
  ((List.range t.stateMap.size).filterMap fun (sc : Nat) =>
    (t.stateMap[sc]?).map fun q => (q, initVec rules (sc : Int))).foldl
      (fun acc x => if acc.contains x then acc else x :: acc) []

inductive Verdict where
  | ok
  | fail
  | inconclusive
deriving Repr, DecidableEq

/-- The pairs reachable from the start conditions (`none`: more than `fuel` of them). -/
def reachable (fuel : Nat) (rules : List Rule) (t : Tables) : Option (List Pair) :=
  let st := startPairs rules t
  explore (succs t (classReps t)) fuel st st

def checkDfaV (fuel : Nat) (rules : List Rule) (t : Tables) : Verdict :=
  if !t.wf then .fail
  else
    match reachable fuel rules t with
    | none => .inconclusive
    | some V => if closedOk rules t V then .ok else .fail

def defaultFuel : Nat := 4000

/-- `checkDfa`: true only when the exploration finished within the fuel and the explored set passed every
check (running out of fuel is never a pass). -/
def checkDfa (rules : List Rule) (t : Tables) : Bool := checkDfaV defaultFuel rules t == .ok

/-- `Tables.Scan` looks the end-of-input column up once and does not follow a transition found there: the
tables have no transition (and no checkpoint) on end of input. -/
def noEoiShift (t : Tables) : Bool :=
  (List.range t.dfa.size).all fun i =>
    i % t.numSymbols.toNat != 0 ||
      (match t.dfa[i]? with
       | some e => decide (e ≤ actionStart t)
       | none => true)

end TmVerif.LexSpec
