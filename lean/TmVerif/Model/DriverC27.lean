import TmVerif.Model.Proto
import TmVerif.Model.Diff
namespace TmVerif.DriverC27
open TmVerif.Proto TmVerif.Diff

/-! Line protocol of C27.

* `mid a b`              → `ai,bi,snake opt|notopt` | `fatal`  exact mirror of `middle`; `opt`: the split
                            lies on an optimal path (hypothesis of `C27_script_minimal_partial`)
* `lcsx a b`             → `d:i:e;d:i:e…` | `fatal`            exact mirror of `lcs`
* `lcs a b chunks`       → `ok <cost>` | `bad <why>`           verdict on the chunks the Go `lcs` returned:
                            they transform `a` into `b` and their cost is `|a|+|b|-2·dpLcs a b`
* `ld left right text`   → `<hex of the mirror's rendering> applies=<0|1> empty=<0|1> minimal=<0|1>`
                            (texts as hex of ASCII bytes; `applies`: the verified applier run on the
                            Go output `text` reproduces `right`)
* `ldr left right`        → hex of the mirror's rendering (inputs with runs of more than 14 changed lines)
* `judge <go answer> :: <case>` → `holds` | `violates: why`    semantic verdict on the Go answer
-/

def showChunks (cs : List Chunk) : String :=
  if cs.isEmpty then "_" else ";".intercalate (cs.map fun c => s!"{c.del}:{c.ins}:{c.eq}")

def parseChunk (s : String) : Option Chunk :=
  match s.splitOn ":" with
  | [d, i, e] => do pure ⟨← parseNat? d, ← parseNat? i, ← parseNat? e⟩
  | _ => none

def parseChunks (s : String) : Option (List Chunk) :=
  if s == "_" then some [] else (s.splitOn ";").mapM parseChunk

def parseText (s : String) : Option (List Char) := (parseHex s).map (·.map Char.ofNat)

def showText (t : List Char) : String := showHex (t.map Char.toNat)

/-- the decidable specification of an edit script -/
def scriptVerdict (a b : List Int) (cs : List Chunk) : Except String Nat :=
  let es := toEdits cs b
  if applyEdits es a ≠ some b then .error "script does not transform a into b"
  else if editCost es ≠ scriptCost cs then .error "inserted line counts exceed b"
  else
    let opt := a.length + b.length - 2 * dpLcs a b
    if scriptCost cs ≠ opt then .error s!"cost {scriptCost cs} but the minimum is {opt}"
    else .ok opt

/-- `middle` postcondition that `C27_script_minimal_partial` assumes: in range, not a corner,
the snake matches and the split lies on an optimal path. -/
def midVerdict (a b : List Int) (ai bi snake : Nat) : Except String Unit :=
  if ai + snake > a.length ∨ bi + snake > b.length then .error "split out of range"
  else if (ai = a.length ∧ bi = b.length) ∨ (ai = 0 ∧ bi = 0) then .error "corner split (log.Fatal in trace)"
  else if (a.drop ai).take snake ≠ (b.drop bi).take snake then .error "snake is not a run of equal elements"
  else if dpLcs (a.take ai) (b.take bi) + snake + dpLcs (a.drop (ai + snake)) (b.drop (bi + snake)) ≠ dpLcs a b then
    .error "split point is not on an optimal path"
  else .ok ()

def b01 (b : Bool) : String := if b then "1" else "0"

/-- number of '-' and '+' lines of a rendered diff -/
def patchChanges (text : List Char) : Option Nat :=
  (parsePatch text).map fun hs =>
    hs.foldl (fun acc h => acc + (h.body.filter fun p => p.1 != ' ').length) 0

/-- the minimum number of changed lines between two texts (verified DP reference) -/
def minChanges (left right : List Char) : Nat :=
  let a := splitLines left
  let b := splitLines right
  a.length + b.length - 2 * dpLcs a b

/-- verdict on a rendered diff: does it apply, is it empty, does it show the minimum number of
changed lines -/
def ldVerdict (left right text : List Char) : String :=
  let applies := applyPatch text left == some right
  let minimal := patchChanges text == some (minChanges left right)
  s!"applies={b01 applies} empty={b01 text.isEmpty} minimal={b01 minimal}"

def parseTriple (s : String) : Option (Nat × Nat × Nat) :=
  match s.splitOn "," with
  | [x, y, z] => do pure (← parseNat? x, ← parseNat? y, ← parseNat? z)
  | _ => none

def handle (args : List String) : Option String :=
  match args with
  | ["mid", a, b] => do
    let a ← parseInts a; let b ← parseInts b
    if middleRawArr a.toArray b.toArray != middleRawArrLoop a.toArray b.toArray then
      some "model-self-check-failed"
    else
    match middle a b with
    | some (x, y, s) =>
      -- the hypothesis `OptimalSplit` of `C27_script_minimal_partial`, evaluated on this instance
      let opt := x + s ≤ a.length ∧ y + s ≤ b.length ∧ (a.drop x).take s = (b.drop y).take s ∧
        dpLcs (a.take x) (b.take y) + s + dpLcs (a.drop (x + s)) (b.drop (y + s)) = dpLcs a b
      some s!"{x},{y},{s} {if opt then "opt" else "notopt"}"
    | none => some "fatal"
  | ["lcsx", a, b] => do
    let a ← parseInts a; let b ← parseInts b
    match lcs a b with
    | some cs => some (showChunks cs)
    | none => some "fatal"
  | ["lcs", a, b, cs] => do
    let a ← parseInts a; let b ← parseInts b; let cs ← parseChunks cs
    match scriptVerdict a b cs with
    | .ok n => some s!"ok {n}"
    | .error e => some s!"bad {e}"
  | ["ld", l, r, t] => do
    let l ← parseText l; let r ← parseText r; let t ← parseText t
    match lineDiff l r with
    | some m => some s!"{showText m} {ldVerdict l r t}"
    | none => some s!"fatal {ldVerdict l r t}"
  | ["ldr", l, r] => do
    let l ← parseText l; let r ← parseText r
    match lineDiff l r with
    | some m => some (showText m)
    | none => some "fatal"
  | ["judge", g, "::", "ldr", l, r] => do
    -- long-run class: only the emptiness clause is judged (the hunks clause is a known finding)
    let l ← parseText l; let r ← parseText r; let t ← parseText g
    if t.isEmpty != (l == r) then some "violates: the diff is empty but the texts differ (or the converse)"
    else some "holds"
  | ["judge", g, "::", "mid", _, _] => some s!"violates: middle answered {g}"
  | ["judge", g, _, "::", "mid", a, b] => do
    let a ← parseInts a; let b ← parseInts b
    match parseTriple g with
    | none => some s!"violates: middle answered {g}"
    | some (x, y, s) =>
      match midVerdict a b x y s with
      | .ok _ => some "holds"
      | .error e => some s!"violates: {e}"
  | ["judge", g, "::", "lcsx", a, b] => do
    let a ← parseInts a; let b ← parseInts b
    match parseChunks g with
    | none => some s!"violates: lcs answered {g}"
    | some cs =>
      match scriptVerdict a b cs with
      | .ok _ => some "holds"
      | .error e => some s!"violates: {e}"
  | "judge" :: rest =>
    -- `lcs`: the Go answer is the harness' own verdict, the case carries the chunks
    match rest.dropWhile (· ≠ "::") with
    | ["::", "lcs", a, b, cs] => do
      let a ← parseInts a; let b ← parseInts b; let cs ← parseChunks cs
      match scriptVerdict a b cs with
      | .ok _ => some "holds"
      | .error e => some s!"violates: {e}"
    | ["::", "ld", l, r, t] => do
      let l ← parseText l; let r ← parseText r; let t ← parseText t
      if t.isEmpty != (l == r) then some "violates: the diff is empty but the texts differ (or the converse)"
      else if applyPatch t l != some r then some "violates: the hunks do not apply to the first text to produce the second"
      else if patchChanges t != some (minChanges l r) then
        some s!"violates: the diff shows {(patchChanges t).getD 0} changed lines but the minimum is {minChanges l r}"
      else some "holds"
    | _ => none
  | _ => none

end TmVerif.DriverC27
