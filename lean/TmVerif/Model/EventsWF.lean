/-
C02 — the decidable side conditions of the theorem `C02_events_eq_eventsOf` (Props/C02.lean). The
driver evaluates them on every accepted case of the real tables (`DriverC02`).
-/
import TmVerif.Model.Events
namespace TmVerif.Events
open TmVerif.LR TmVerif.LRX

/-- every report range of every rule is ordered (`start ≤ stop`) -/
def reportsWF (x : XTables) : Bool :=
  x.rules.toList.all fun info => info.reports.all fun r => decide (r.start ≤ r.stop)

/-- symbols: tokens of the input are terminals, left-hand sides of rules are nonterminals -/
def symsWF (x : XTables) (inp : Input) : Bool :=
  decide (0 < x.t.nTerms) &&
  inp.toks.toList.all (fun tk => decide (tk.sym < (x.t.nTerms : Int))) &&
  x.t.ruleSymbol.toList.all (fun s => decide ((x.t.nTerms : Int) ≤ s))

/-- only terminal entries down to the bottom entry -/
def leavesOnly (nT : Int) : List Entry → Bool
  | [] => false
  | [_] => true
  | l :: rest => decide (l.sym < nT) && leavesOnly nT rest

/-- Shape of the stack (top first) at acceptance: end-of-input entries, then exactly one nonterminal
entry (the input symbol), then only terminal entries down to the bottom. For the tables the real
generator produces this is `[EOI?, S, bottom]`. -/
def shapeOk (nT : Int) : List Entry → Bool
  | [] => false
  | z :: rest => if z.sym = 0 then shapeOk nT rest else decide (nT ≤ z.sym) && leavesOnly nT rest

def acceptShape (x : XTables) (c : XCfg) : Bool := shapeOk x.t.nTerms c.stack

end TmVerif.Events
