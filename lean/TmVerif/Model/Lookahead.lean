/-
Mirror of `lalr/lookahead.go` (`newLookaheadRule`, `pickLookahead`), of `Lookahead.Accepts`
(`lalr/lalr.go`) and of the `if … else if … else` chain that `go_parser.go.tmpl`
(`applyRule` / `lookaheadRule`) emits for a `lalr.LookaheadRule`.  Core Lean only.

Go → Lean
  Predicate{Input,Negated}          → `Pred`
  Lookahead{Nonterminal,Predicates} → `Alt` (`target` = Nonterminal)
  LookaheadCase / LookaheadRule     → `Case` / `Rule`
  map[int32]*node + node.prev       → `prevOf las x` (edges in the order Go appends them), `nodesOf las`
  node.state / node.depth           → `Dfs.state` / `Dfs.depth` (functions `Int → Nat`)
  recursion of `dfs`                → fuel (`nodesOf.length + 2`; running out is the distinct error `fuel`)
  `lookaheads[k] = lookaheads[len-1]; lookaheads = lookaheads[:len-1]` → `swapRemove`
-/
namespace TmVerif.Lookahead

structure Pred where
  input : Int
  negated : Bool
deriving DecidableEq, Repr

structure Alt where
  preds : List Pred
  target : Int
deriving DecidableEq, Repr

structure Case where
  pred : Pred
  target : Int
deriving DecidableEq, Repr

structure Rule where
  cases : List Case
  default : Int
deriving DecidableEq, Repr

inductive Err where
  | inconsistent   -- "inconsistent order" (cycle)
  | ambiguous      -- "ambiguous order" (depth test)
  | undecidable    -- "cannot decide on the next lookahead"
  | panic          -- `lookaheads[0]` on an empty slice: index out of range
  | fuel           -- model artefact, never observed
deriving DecidableEq, Repr

/-! ### Semantics of alternatives and of the emitted decision chain -/

/-- A literal holds under a valuation of the predicate inputs. -/
def holds (p : Pred) (v : Int → Bool) : Bool := v p.input != p.negated

/-- `(?= A & !B …)`: the conjunction of the literals of the alternative. -/
def sat (la : Alt) (v : Int → Bool) : Bool := la.preds.all (holds · v)

/-- The emitted chain: first case whose literal holds, else the default target. -/
def evalRule : List Case → Int → (Int → Bool) → Int
  | [], d, _ => d
  | c :: cs, d, v => if holds c.pred v then c.target else evalRule cs d v

/-- `rank` orders the predicate inputs so that every alternative lists its predicates in strictly
increasing rank: the per-alternative orders embed in the one total order given by `rank`. -/
def OrderedBy (las : List Alt) (rank : Int → Nat) : Prop :=
  ∀ la ∈ las, (la.preds.map (·.input)).Pairwise fun a b => rank a < rank b

/-! ### `Lookahead.Accepts` and `pickLookahead` -/

/-- `Lookahead.Accepts`: negation flag of the first predicate on `x`, `none` when `ok = false`. -/
def accepts : List Pred → Int → Option Bool
  | [], _ => none
  | p :: ps, x => if p.input = x then some p.negated else accepts ps x

/-- The `for i, la := range lookaheads` loop of `pickLookahead`; `none` is the early `return -1,false,false`. -/
def pickLoop (x : Int) : List Alt → Int → Int → Int → Option (Int × Int)
  | [], _, pos, neg => some (pos, neg)
  | la :: rest, i, pos, neg =>
    match accepts la.preds x with
    | none => none
    | some negated =>
      if negated = false ∧ pos = -1 then pickLoop x rest (i + 1) i neg
      else if negated = true ∧ neg = -1 then pickLoop x rest (i + 1) pos i
      else if negated = true then pickLoop x rest (i + 1) pos (-2)
      else pickLoop x rest (i + 1) (-2) neg

/-- `pickLookahead input lookaheads` = `(index, negated)` when `ok`. -/
def pickLookahead (x : Int) (las : List Alt) : Option (Nat × Bool) :=
  match pickLoop x las 0 (-1) (-1) with
  | none => none
  | some (pos, neg) =>
    if pos ≥ 0 then some (pos.toNat, false)
    else if neg ≥ 0 then some (neg.toNat, true)
    else none

/-! ### The order graph and the DFS -/

def inputsOf (la : Alt) : List Int := la.preds.map (·.input)

/-- consecutive pairs `(previous, current)` of one alternative -/
def pairsOf : List Int → List (Int × Int)
  | a :: b :: t => (a, b) :: pairsOf (b :: t)
  | _ => []

def edges (las : List Alt) : List (Int × Int) := las.flatMap fun la => pairsOf (inputsOf la)

/-- `nodes[x].prev` (as inputs), in append order -/
def prevOf (las : List Alt) (x : Int) : List Int :=
  (edges las).filterMap fun e => if e.2 = x then some e.1 else none

/-- `top.prev`: the last predicate of every alternative that has one -/
def topPrev (las : List Alt) : List Int := las.filterMap fun la => (inputsOf la).getLast?

def insertNew (acc : List Int) (x : Int) : List Int := if acc.contains x then acc else acc ++ [x]

/-- keys of the `nodes` map (first-occurrence order; only the length is observable) -/
def nodesOf (las : List Alt) : List Int := (las.flatMap inputsOf).foldl insertNew []

structure Dfs where
  state : Int → Nat
  depth : Int → Nat
  cycle : Bool
  fuelOut : Bool
  order : List Int

def upd (f : Int → Nat) (x : Int) (val : Nat) : Int → Nat := fun y => if y = x then val else f y

/-- One iteration of `for _, prev := range n.prev { dfs(prev); if prev.depth >= n.depth {…} }`;
the depth of the node being processed is carried in `sd.2` and stored when its loop ends
(Go stores it in place; the only reader of an in-progress node's depth is the cycle case, whose
result is the error `inconsistent order` whatever the depths are). -/
def visit (rec : Int → Dfs → Dfs) (sd : Dfs × Nat) (p : Int) : Dfs × Nat :=
  let st := rec p sd.1
  (st, if st.depth p ≥ sd.2 then st.depth p + 1 else sd.2)

def dfs (prev : Int → List Int) : Nat → Int → Dfs → Dfs
  | 0, _, st => { st with fuelOut := true }
  | fuel + 1, n, st =>
    if st.state n = 1 then { st with cycle := true }
    else if st.state n = 2 then st
    else
      let st1 := { st with state := upd st.state n 1 }
      let r := (prev n).foldl (visit (dfs prev fuel)) (st1, 1)
      { r.1 with state := upd r.1.state n 2, depth := upd r.1.depth n r.2, order := r.1.order ++ [n] }

def dfsInit : Dfs := ⟨fun _ => 0, fun _ => 0, false, false, []⟩

/-- `dfs(&top)`: final state and `top.depth`; `top.input` (= 0) is appended to `order` last. -/
def dfsTop (las : List Alt) : Dfs × Nat :=
  let r := (topPrev las).foldl (visit (dfs (prevOf las) ((nodesOf las).length + 2))) (dfsInit, 1)
  ({ r.1 with order := r.1.order ++ [0] }, r.2)

/-! ### The elimination loop -/

/-- `l[k] = l[len(l)-1]; l = l[:len(l)-1]` -/
def swapRemove {α} (l : List α) (k : Nat) : List α :=
  match l.getLast? with
  | none => l
  | some last => (l.set k last).dropLast

/-- `for i, next := range order { k, negated, ok := pickLookahead(next, lookaheads); if ok {…} }` -/
def tryOrder (las : List Alt) : List Int → Nat → Option (Nat × Int × Nat × Bool)
  | [], _ => none
  | x :: xs, i =>
    match pickLookahead x las with
    | some (k, ng) => some (i, x, k, ng)
    | none => tryOrder las xs (i + 1)

def targetAt (las : List Alt) (k : Nat) : Int :=
  match las[k]? with
  | some la => la.target
  | none => 0

/-- `outer: for len(lookaheads) > 1 {…}; ret.DefaultTarget = lookaheads[0].Nonterminal` -/
def elim : Nat → List Alt → List Int → Except Err Rule
  | fuel, las, order =>
    if las.length > 1 then
      match fuel with
      | 0 => .error .fuel
      | fuel + 1 =>
        match tryOrder las order 0 with
        | none => .error .undecidable
        | some (i, x, k, ng) =>
          match elim fuel (swapRemove las k) (swapRemove order i) with
          | .error e => .error e
          | .ok r => .ok { cases := ⟨⟨x, ng⟩, targetAt las k⟩ :: r.cases, default := r.default }
    else
      match las with
      | la :: _ => .ok { cases := [], default := la.target }
      | [] => .error .panic

def newLookaheadRule (las : List Alt) : Except Err Rule :=
  let r := dfsTop las
  if r.1.fuelOut then .error .fuel
  else if r.1.cycle then .error .inconsistent
  else if r.2 ≠ (nodesOf las).length + 1 then .error .ambiguous
  else elim las.length las r.1.order

end TmVerif.Lookahead
