import TmVerif.Model.LRXProto
import TmVerif.Model.TreeBuilder
import TmVerif.Model.EventNesting
import TmVerif.Model.LRXPending
/-!
Line protocol for C20:

  build <evs>                     → the mirror builder's forest `(ty off end child…) …` | `_`
  buildfile <fileTy> <n> <evs>    → root of `builder.build()` with a File node | `none`
  buildsingle <evs>               → `builder.build()` WITHOUT a file node: the single root | `none` (not exactly one root)
  buildfile2 <fileTy> <n> <evs>   → the same for the repaired `build()` (File adopts every root); the harness
                                    picks the op by probing the real builder at start-up
  nest <n> <evs>                  → `nested` | `not-nested`   (the predicate `WellNested n evs` of Props/C20)
  hyp <xtables…> <toks> <endOff>  → `ok` | `bad-input` | `bad-reports` (hypotheses `InputWF`, `XWF` of the
                                    nesting theorem, evaluated on a real table / token stream)
  xrun …                          → trace of the extended runtime model (Model/LRXProto.lean)
  prun <xtables…> <input> <toks> <ign> <endOff>
                                  → trace of the layered model with reported skipped tokens
                                    (Model/LRXPending.lean); <ign> = one list per real token and one for
                                    end-of-input, separated by `|`, each `type:off:end,…` or `-`. The run is
                                    made with the tables as given AND with `fixTrailingWS` on every rule
                                    (`trimAll`, the form the theorem speaks about): `TRIM-MISMATCH …` if they differ
  phyp (same arguments)           → `ok` | `bad-input` | `bad-ignored` | `bad-reports` | `not-trimmed` | `recovering`
                                    (hypotheses of `C20_nested_with_ignored` on `trimAll` of the tables)
  judge <answer…> :: <case…>      → `holds` | `violates: why`:
      nest      the stream is not `WellNested` although the implementation side called it nested
      build*    the stream is `WellNested` (for `build`: within its own maximal end offset) and the tree
                differs from the mirror's — which is the unique correct tree by `C20_builder_correct`
      xrun      the implementation's listener stream (the `ty:off:end` fields of its trace) is not
                `WellNested endOff`

<evs> = `ty:off:end,…` (`-` = none).
-/
namespace TmVerif.DriverC20
open TmVerif.Proto TmVerif.TreeBuilder TmVerif.EventNesting TmVerif.LRX TmVerif.LRXPending
open TmVerif.LR (Input Tok)

def parseEv (s : String) : Option Ev :=
  match s.splitOn ":" with
  | [a, b, c] => do
    let a ← parseInt? a; let b ← parseNat? b; let c ← parseNat? c
    pure ⟨a, b, c⟩
  | _ => none

def parseEvs (s : String) : Option (List Ev) :=
  if s == "-" then some [] else (s.splitOn ",").mapM parseEv

def showForest (f : List Tree) : String :=
  if f.isEmpty then "_" else " ".intercalate (f.map Tree.show)

def nestStr (n : Nat) (evs : List Ev) : String :=
  if decide (WellNested n evs) then "nested" else "not-nested"

def maxEnd (evs : List Ev) : Nat := evs.foldl (fun m e => max m e.endo) 0

/-- events of a runner trace: fields `ty:off:end` with a numeric type -/
def traceEvs (fields : List String) : List Ev :=
  fields.filterMap parseEv

def handleCase (args : List String) : Option String :=
  match args with
  | ["build", evs] => do
    let evs ← parseEvs evs
    some (showForest (build evs))
  | ["buildfile", ty, n, evs] => do
    let ty ← parseInt? ty; let n ← parseNat? n; let evs ← parseEvs evs
    some (match buildFile ty n evs with
      | some t => t.show
      | none => "none")
  | ["buildfile2", ty, n, evs] => do
    let ty ← parseInt? ty; let n ← parseNat? n; let evs ← parseEvs evs
    some (buildFileAll ty n evs).show
  | ["buildsingle", evs] => do
    let evs ← parseEvs evs
    some (match buildSingle evs with
      | some t => t.show
      | none => "none")
  | ["nest", n, evs] => do
    let n ← parseNat? n; let evs ← parseEvs evs
    some (nestStr n evs)
  | "hyp" :: rest => do
    let (x, rest) ← parseXTables rest
    match rest with
    | [toks, endOff] =>
      let toks ← parseToks toks; let endOff ← parseNat? endOff
      let inp : Input := { toks := toks.toArray, endOff := endOff }
      if !decide (InputWF inp) then some "bad-input"
      else if !decide (XWF x) then some "bad-reports"
      else some "ok"
    | _ => none
  | "xrun" :: rest => handleXRun rest
  | _ => none

def parseIgn (s : String) : Option (List (List Tok)) :=
  (s.splitOn "|").mapM parseToks

def showPRun (res : XResult) (c : PCfg) : String :=
  let evs := c.out.reverse.map fun e => match e with
    | .x (.node ty o e) => s!"{ty}:{o}:{e}"
    | .x (.error o e) => s!"E:{o}:{e}"
    | .ign ty o e => s!"{ty}:{o}:{e}"
  let r := match res with
    | .accept => "ok"
    | .syntaxError o e => s!"err:{o}:{e}"
    | .cancelled => "cancelled"
    | .panic => "panic"
    | .fuel => "loop"
  " ".intercalate (evs ++ [r])

def parsePArgs (args : List String) : Option (XTables × Nat × PInput) := do
  let (x, rest) ← parseXTables args
  match rest with
  | [input, toks, ign, endOff] =>
    let input ← parseNat? input
    let toks ← parseToks toks; let ign ← parseIgn ign; let endOff ← parseNat? endOff
    some (x, input, { inp := { toks := toks.toArray, endOff := endOff }, ign := ign.toArray })
  | _ => none

def handleP (args : List String) : Option String :=
  match args with
  | "prun" :: rest => do
    let (x, input, p) ← parsePArgs rest
    let fuel := 80 * (p.inp.toks.size + 2) * (x.t.nStates + 2) + 400
    let (r1, c1) := prun x p input false fuel
    let (r2, c2) := prun (trimAll x) p input false fuel
    let a := showPRun r1 c1
    let b := showPRun r2 c2
    if a == b then some a else some s!"TRIM-MISMATCH as-generated={a} all-rules-trimmed={b}"
  | "phyp" :: rest => do
    let (x, _, p) ← parsePArgs rest
    let x' := trimAll x
    if !decide (InputWF p.inp) then some "bad-input"
    else if !decide (IgnWF p) then some "bad-ignored"
    else if !decide (XWF x') then some "bad-reports"
    else if !decide (TrimAll x') then some "not-trimmed"
    else if x.recovering then some "recovering"
    else some "ok"
  | _ => none

def splitAt (sep : String) : List String → List String × List String
  | [] => ([], [])
  | s :: rest => if s == sep then ([], rest) else
    let (a, b) := splitAt sep rest
    (s :: a, b)

def judge (answer case : List String) : Option String :=
  match case with
  | ["nest", n, evs] => do
    let n ← parseNat? n; let evs ← parseEvs evs
    if answer == ["nested"] && !decide (WellNested n evs) then
      some "violates: the listener stream is not well nested (bounds / disjoint-or-nested / container after contents)"
    else some "holds"
  | ["build", evs] => do
    let evs ← parseEvs evs
    if decide (WellNested (maxEnd evs) evs) && " ".intercalate answer != showForest (build evs) then
      some "violates: well-nested stream, tree differs from the unique tree with every node under its smallest container"
    else some "holds"
  | ["buildfile", ty, n, evs] => do
    let ty ← parseInt? ty; let n ← parseNat? n; let evs ← parseEvs evs
    let want := match buildFile ty n evs with
      | some t => t.show
      | none => "none"
    if decide (WellNested n evs) && " ".intercalate answer != want then
      some "violates: well-nested stream, tree differs from the unique tree with every node under its smallest container"
    else some "holds"
  | ["buildsingle", evs] => do
    let evs ← parseEvs evs
    let want := match buildSingle evs with
      | some t => t.show
      | none => "none"
    if decide (WellNested (maxEnd evs) evs) && " ".intercalate answer != want then
      some "violates: well-nested stream, build() without a file node must return the single root containing every reported node, or fail"
    else some "holds"
  | ["buildfile2", ty, n, evs] => do
    let ty ← parseInt? ty; let n ← parseNat? n; let evs ← parseEvs evs
    if decide (WellNested n evs) && " ".intercalate answer != (buildFileAll ty n evs).show then
      some "violates: well-nested stream, tree differs from the File node over the unique forest with every node under its smallest container"
    else some "holds"
  | "prun" :: rest =>
    match rest.getLast? with
    | some endOff => do
      let endOff ← parseNat? endOff
      if decide (WellNested endOff (traceEvs answer)) then some "holds"
      else some "violates: the parser's listener stream (with ignored tokens) is not well nested"
    | none => none
  | "xrun" :: rest =>
    match rest.getLast? with
    | some endOff => do
      let endOff ← parseNat? endOff
      if decide (WellNested endOff (traceEvs answer)) then some "holds"
      else some "violates: the parser's listener stream is not well nested"
    | none => none
  | _ => some "holds"

def handle (args : List String) : Option String :=
  match args with
  | "judge" :: rest =>
    let (answer, case) := splitAt "::" rest
    judge answer case
  | "prun" :: _ => handleP args
  | "phyp" :: _ => handleP args
  | _ => handleCase args

end TmVerif.DriverC20
