import TmVerif.Model.Proto
import TmVerif.Model.Lookahead
/-!
C08 line protocol.

Alternatives: rows separated by `;` (`_` = no alternative); a row is `lit,…,lit,target` where a
literal is `2*input + (1 if negated)`.  Valuations are bit masks over the inputs `0 … n-1`,
`n = 1 + largest input mentioned` (bit `i` set = predicate input `i` succeeds).

  `rule <alts>`   → `ok t_0,…,t_{2^n-1}` (semantic table of the rule built by the mirror: `t_m` is the target
                    the decision chain selects under valuation `m` when `m` satisfies exactly one
                    alternative, `-1` otherwise) | `err` | `panic`
  `exact <alts>`  → `ok lit:target,… default` | `err <kind>` | `panic`   (literal result of the mirror)
  `chain <alts> <m>` → `<target>` the mirror's decision chain selects under valuation `m` | `err` | `panic`
                    (Go side: the alternative a GENERATED parser reduced on an input whose predicate
                    outcomes are `m`; only valuations satisfying exactly one alternative are sent)
  `judge <go answer> :: rule <alts>` / `judge <go answer> :: chain <alts> <m>` → `holds` | `violates: …`
                    (brute-force specification, independent of the mirror)
-/
namespace TmVerif.DriverC08
open TmVerif.Proto TmVerif.Lookahead

def parseAlt (row : List Int) : Option Alt :=
  match row.reverse with
  | [] => none
  | t :: lits =>
    if lits.all (· ≥ 0) then
      some ⟨lits.reverse.map fun c => ⟨c / 2, c % 2 == 1⟩, t⟩
    else none

def parseAlts (s : String) : Option (List Alt) := do
  let rows ← parseIntss s
  rows.mapM parseAlt

def numInputs (las : List Alt) : Nat :=
  (las.flatMap inputsOf).foldl (fun m x => max m (x.toNat + 1)) 0

def valuation (m : Nat) : Int → Bool := fun x => x ≥ 0 && m.testBit x.toNat

def satisfied (las : List Alt) (m : Nat) : List Alt := las.filter fun la => sat la (valuation m)

def table (las : List Alt) (r : Rule) : List Int :=
  (List.range (2 ^ numInputs las)).map fun m =>
    match satisfied las m with
    | [_] => evalRule r.cases r.default (valuation m)
    | _ => -1

def showLit (p : Pred) : String := toString (2 * p.input + (if p.negated then 1 else 0))

def showExact (r : Rule) : String :=
  let cs := r.cases.map fun c => s!"{showLit c.pred}:{c.target}"
  s!"ok {if cs.isEmpty then "-" else ",".intercalate cs} {r.default}"

def errName : Err → String
  | .inconsistent => "inconsistent"
  | .ambiguous => "ambiguous"
  | .undecidable => "undecidable"
  | .panic => "panic"
  | .fuel => "fuel"

/-! Specification used by `judge` (does not call the mirror). -/

/-- `a` is listed before `b` in some alternative. -/
def beforePairs (las : List Alt) : List (Int × Int) :=
  las.flatMap fun la =>
    let xs := inputsOf la
    (List.range xs.length).flatMap fun i =>
      (List.range xs.length).filterMap fun j =>
        if i < j then some (xs[i]!, xs[j]!) else none

/-- transitive closure by `fuel` rounds of composition -/
def closure : Nat → List (Int × Int) → List (Int × Int)
  | 0, r => r
  | fuel + 1, r =>
    let more := r.flatMap fun (a, b) => r.filterMap fun (c, d) => if b = c && !r.contains (a, d) then some (a, d) else none
    if more.isEmpty then r else closure fuel (r ++ more.eraseDups)

def judgeOrder (las : List Alt) : Option String :=
  let nodes := (las.flatMap inputsOf).eraseDups
  let r := closure (nodes.length + 1) (beforePairs las).eraseDups
  match nodes.find? fun x => r.contains (x, x) with
  | some x => some s!"accepted although the alternatives order predicate input {x} inconsistently (cycle)"
  | none =>
    let pairs := nodes.flatMap fun x => nodes.map fun y => (x, y)
    match pairs.find? fun (x, y) => x != y && !r.contains (x, y) && !r.contains (y, x) with
    | some (x, y) => some s!"accepted although the relative order of predicate inputs {x} and {y} is not determined"
    | none => none

def judgeTable (las : List Alt) (tab : List Int) : Option String :=
  let n := numInputs las
  if tab.length ≠ 2 ^ n then some "decision table has the wrong size" else
  (List.range (2 ^ n)).findSome? fun m =>
    match satisfied las m with
    | [la] =>
      if tab[m]! = la.target then none
      else some s!"valuation {m} satisfies only the alternative with target {la.target} but the decision chain selects {tab[m]!}"
    | a :: b :: _ => some s!"accepted although valuation {m} satisfies two alternatives (targets {a.target} and {b.target})"
    | [] => none

def handleJudgeRule (args : List String) : Option String :=
  match args with
  | ["ok", tab, "::", "rule", s] => do
    let las ← parseAlts s
    let tab ← parseInts tab
    match judgeTable las tab with
    | some why => some s!"violates: {why}"
    | none =>
      match judgeOrder las with
      | some why => some s!"violates: {why}"
      | none => some "holds"
  | ["err", "::", "rule", _] => some "holds"
  | ["panic", "::", "rule", s] => do
    let las ← parseAlts s
    if las.isEmpty then some "holds" else some "violates: the implementation panicked"
  | _ => none

def handle (args : List String) : Option String :=
  match args with
  | ["rule", s] => do
    let las ← parseAlts s
    match newLookaheadRule las with
    | .ok r => some s!"ok {showInts (table las r)}"
    | .error .panic => some "panic"
    | .error _ => some "err"
  | ["exact", s] => do
    let las ← parseAlts s
    match newLookaheadRule las with
    | .ok r => some (showExact r)
    | .error .panic => some "panic"
    | .error e => some s!"err {errName e}"
  | ["chain", s, m] => do
    let las ← parseAlts s
    let m ← parseNat? m
    match newLookaheadRule las with
    | .ok r => some (toString (evalRule r.cases r.default (valuation m)))
    | .error .panic => some "panic"
    | .error _ => some "err"
  | "judge" :: rest =>
    match rest.reverse with
    | m :: s :: "chain" :: "::" :: ans => do
      let las ← parseAlts s
      let m ← parseNat? m
      match satisfied las m with
      | [la] =>
        if ans.reverse == [toString la.target] then some "holds"
        else some s!"violates: valuation {m} satisfies only the alternative with target {la.target} but the generated parser answered {" ".intercalate ans.reverse}"
      | _ => some "holds"
    | _ => handleJudgeRule rest
  | _ => none

end TmVerif.DriverC08
