import TmVerif.Model.LRXProto
namespace TmVerif.DriverC19
/-- `xrun …` : the extended runtime model's listener/error-handler trace (see Model/LRXProto.lean). -/
def handle (args : List String) : Option String :=
  match args with
  | "xrun" :: rest => TmVerif.LRX.handleXRun rest
  | _ => none
end TmVerif.DriverC19
