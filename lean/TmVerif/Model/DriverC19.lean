import TmVerif.Model.LRXProto
import TmVerif.Model.LRXSafe
namespace TmVerif.DriverC19
open TmVerif.LR TmVerif.LRX TmVerif.LRSound

/-- `xvalidate <grammar 6> <xtables…>` : the hypotheses of `C19_no_panic` / `C19_recovery_terminates`
on the real tables: the soundness certificate of the core tables (`LRSound.certOk`) and the
well-formedness of the recovery/report data with the rank certificate (`LRX.xwf`). -/
def xvalidate (args : List String) : Option String := do
  let g ← CFG.parseGrammar (args.take 6)
  let (x, rest) ← parseXTables (args.drop 6)
  if !rest.isEmpty then none
  let cert := computePast g x.t
  if !certOk g x.t cert then
    some s!"mismatch soundness certificate: {firstFailure g x.t cert}"
  else
    let xc := mkXCert g x cert
    if !xwf g x cert xc then some s!"mismatch {xwfFailure g x cert xc}"
    else if !xhaltOk g x cert then
      some "mismatch halting check: EOI is shifted into a state other than the final one"
    else some "ok"

/-- `xrun …` : the extended runtime model's listener/error-handler trace (see Model/LRXProto.lean). -/
def handle (args : List String) : Option String :=
  match args with
  | "xrun" :: rest => TmVerif.LRX.handleXRun rest
  | "xvalidate" :: rest => xvalidate rest
  | _ => none
end TmVerif.DriverC19
