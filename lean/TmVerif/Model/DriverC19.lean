import TmVerif.Model.LRXProto
import TmVerif.Model.LRXSafe
namespace TmVerif.DriverC19
open TmVerif.LR TmVerif.LRX TmVerif.LRSound

/-- `xvalidate <grammar 6> <xtables…>` : the hypotheses of `C19_no_panic` / `C19_recovery_terminates`
on the real tables: the soundness certificate of the core tables (`LRSound.certOk`) and the
well-formedness of the recovery/report data with the rank certificate (`LRX.xwf`). -/
def xvalidate (args : List String) : Option String := do
  let g ← CFG.parseGrammar (args.take 6)
  let (x, rest) ← parseXTables (args.drop 6)
  if !rest.isEmpty then none
  let cert := computePast g x.t
  if !certOk g x.t cert then
    some s!"mismatch soundness certificate: {firstFailure g x.t cert}"
  else
    let xc := mkXCert g x cert
    if !xwf g x cert xc then some s!"mismatch {xwfFailure g x cert xc}"
    else if !xhaltOk g x cert then
      some "mismatch halting check: EOI is shifted into a state other than the final one"
    else some "ok"

/-- handler calls `E:o:e` of a printed trace, oldest first -/
def errEvents (fields : List String) : List (Nat × Nat) :=
  fields.filterMap fun f =>
    match f.splitOn ":" with
    | ["E", o, e] => do let o ← o.toNat?; let e ← e.toNat?; pure (o, e)
    | _ => none

def sortedOffs : List (Nat × Nat) → Bool
  | a :: b :: rest => decide (a.1 ≤ b.1) && sortedOffs (b :: rest)
  | _ => true

/-- Property-level verdict on the implementation's answer to an `xrun` case (a disagreement with
the model alone is not a violation). The clauses of C19 that can be read off one trace:
no panic / no endless loop; handler offsets non-decreasing and inside the input; a returned syntax
error was given to the handler; and — relative to the model, whose error-free runs are exactly the
runs of the plain parser (`C19_recovery_transparent_run`) — an input on which the model reports a
syntax error is not accepted silently, and an input the model accepts without any report is
accepted without any report. -/
def judgeXRun (goAns : List String) (rest : List String) : Option String := do
  let (_, after) ← TmVerif.LRX.parseXTables rest
  let endOff ← match after with
    | [_, _, _, _, endOff] => endOff.toNat?
    | _ => none
  let model ← TmVerif.LRX.handleXRun rest
  let mf := model.splitOn " "
  let res := goAns.getLast?.getD ""
  let errs := errEvents goAns
  let merrs := errEvents mf
  let mres := mf.getLast?.getD ""
  if res == "panic" || res == "crash" || res == "loop" then
    some "violates: the parser panicked or did not terminate"
  else if !sortedOffs errs then
    some "violates: the offsets reported to the error handler decrease"
  else if errs.any (fun p => decide (endOff < p.1) || decide (endOff < p.2) || decide (p.2 < p.1)) then
    some "violates: a reported error lies outside the input"
  else
    match res.splitOn ":" with
    | ["err", o, e] =>
      if errs.getLast? != (do let o ← o.toNat?; let e ← e.toNat?; pure (o, e)) then
        some s!"violates: the returned syntax error {o}:{e} was not given to the error handler (last handler call: {repr errs.getLast?})"
      else if merrs.isEmpty && mres == "ok" then
        some "violates: a sentence (the plain parser accepts it without any report) is rejected"
      else some "holds"
    | _ =>
      if res == "ok" && errs.isEmpty && (!merrs.isEmpty || mres.startsWith "err") then
        some s!"violates: the input has a syntax error (the model reports {repr merrs}) but the parser accepted it without calling the error handler"
      else if res == "ok" && !errs.isEmpty && merrs.isEmpty && mres == "ok" then
        some "violates: an error is reported on a sentence (the plain parser accepts it without any report)"
      else some "holds"

/-- `xrun …` : the extended runtime model's listener/error-handler trace (see Model/LRXProto.lean). -/
def handle (args : List String) : Option String :=
  match args with
  | "xrun" :: rest => TmVerif.LRX.handleXRun rest
  | "xvalidate" :: rest => xvalidate rest
  | "judge" :: rest =>
    match rest.span (· != "::") with
    | (goAns, "::" :: "xrun" :: case) => judgeXRun goAns case
    | (_, "::" :: "xvalidate" :: case) =>
      match xvalidate case with
      | some "ok" => some "holds"
      | some v => some s!"violates: {v}"
      | none => none
    | _ => none
  | _ => none
end TmVerif.DriverC19
