import TmVerif.Model.Proto
import TmVerif.Model.IntSet
namespace TmVerif.DriverC25
open TmVerif.Proto TmVerif.IntSet

def showSet (s : IntSet) : String := s!"{showBool s.inverse} {showInts s.set}"

def memB (s : IntSet) (v : Int) : Bool := s.set.contains v != s.inverse

/-- Decides on a finite set of witnesses (every mentioned element and its neighbours: membership
of any other integer is determined by the `inverse` flags alone) whether `r` denotes `a op b`. -/
def judgeOp (isMerge : Bool) (a b r : IntSet) : Option Int :=
  let pts := (a.set ++ b.set ++ r.set).flatMap fun v => [v - 1, v, v + 1]
  (0 :: pts).find? fun v =>
    memB r v != (if isMerge then memB a v || memB b v else memB a v && memB b v)

/-- ops: `merge ia a ib b`, `inter ia a ib b` → `inv set`;
`judge inv set :: op ia a ib b` → does the implementation's answer denote the right set? -/
def handle (args : List String) : Option String :=
  match args with
  | [op, ia, a, ib, b] => do
    let ia ← parseBool? ia; let a ← parseInts a
    let ib ← parseBool? ib; let b ← parseInts b
    let x : IntSet := ⟨ia, a⟩; let y : IntSet := ⟨ib, b⟩
    if op == "merge" then some (showSet (x.merge y))
    else if op == "inter" then some (showSet (x.inter y))
    else none
  | ["judge", ir, r, "::", op, ia, a, ib, b] => do
    let ia ← parseBool? ia; let a ← parseInts a
    let ib ← parseBool? ib; let b ← parseInts b
    let ir ← parseBool? ir; let r ← parseInts r
    match judgeOp (op == "merge") ⟨ia, a⟩ ⟨ib, b⟩ ⟨ir, r⟩ with
    | some v => some s!"violates: element {v} has the wrong membership in the result"
    | none => some "holds"
  | _ => none

end TmVerif.DriverC25
