import TmVerif.Model.Proto
import TmVerif.Model.IntSet
import TmVerif.Model.SetClosure
/-!
Line protocol for C25:

  merge|inter ia a ib b            → `inv set`
  bitset inv set n                 → the `n` bits of `IntSet.BitSet(n)` as a 0/1 string
  closure <ops> <edges> <inits>    → `ok <inv:set;…>` | `error <offending complement nodes, sorted>` | `timeout`
                                     (ops: 0 union / 1 intersection / 2 complement per node, `-` for no node;
                                      edges: rows of successors; inits: the slices given to `Add`)
  judge <answer…> :: <case…>       → `holds` | `violates: why` — for `closure` decided by the specification:
                                     error ⇔ a complement node reaches itself (verified Warshall closure of C26);
                                     otherwise the answer must satisfy every equation and denote, node by node, the
                                     stratified least solution (the mirror's result, `C25_closure_solution/_least`),
                                     compared on every mentioned element, its neighbours and one unmentioned point.
-/
namespace TmVerif.DriverC25
open TmVerif.Proto TmVerif.IntSet TmVerif.SetClosure TmVerif.Graph

def showSet (s : IntSet) : String := s!"{showBool s.inverse} {showInts s.set}"

def memB (s : IntSet) (v : Int) : Bool := s.set.contains v != s.inverse

/-- Decides on a finite set of witnesses (every mentioned element and its neighbours: membership
of any other integer is determined by the `inverse` flags alone) whether `r` denotes `a op b`. -/
def judgeOp (isMerge : Bool) (a b r : IntSet) : Option Int :=
  let pts := (a.set ++ b.set ++ r.set).flatMap fun v => [v - 1, v, v + 1]
  (0 :: pts).find? fun v =>
    memB r v != (if isMerge then memB a v || memB b v else memB a v && memB b v)

/-! ### set-equation closure -/

def parseOp? (n : Nat) : Option Op :=
  if n == 0 then some .union else if n == 1 then some .inter else if n == 2 then some .compl else none

def parseSys (ops edges inits : String) : Option Sys := do
  let ops ← parseNats ops
  let ops ← ops.mapM parseOp?
  let edges ← parseNatss edges
  let inits ← parseIntss inits
  if ops.length != edges.length || ops.length != inits.length then none
  else some ((ops.zip (edges.zip inits)).map fun x => ⟨x.1, x.2.1, x.2.2⟩)

def showSets (l : List IntSet) : String :=
  if l.isEmpty then "_" else ";".intercalate (l.map fun s => s!"{showBool s.inverse}:{showInts s.set}")

def parseSet? (s : String) : Option IntSet :=
  match s.splitOn ":" with
  | [i, l] => do let i ← parseBool? i; let l ← parseInts l; some ⟨i, l⟩
  | _ => none

def parseSets (s : String) : Option (List IntSet) :=
  if s == "_" then some [] else (s.splitOn ";").mapM parseSet?

def dedupSorted (l : List Nat) : List Nat :=
  (l.mergeSort (fun a b => a ≤ b)).eraseDups

def showSt (s : St) : String :=
  if s.timeout then "timeout"
  else if !s.err.isEmpty then s!"error {showNats (dedupSorted s.err)}"
  else s!"ok {showSets s.sets}"

/-- some complement node reaches itself (decided with the verified closure of C26) -/
def complOnCycle (sys : Sys) : Bool :=
  let r := (Matrix.ofGraph (graphOf sys)).closure
  (List.range sys.length).any fun v => opOf sys v == .compl && r.hasEdge v v

/-- the equation of node `v` at the point `x` under the assignment `a` -/
def eqAtB (sys : Sys) (a : List IntSet) (v : Nat) (x : Int) : Bool :=
  let get := fun w => memB (a[w]?.getD ⟨false, []⟩) x
  match opOf sys v with
  | .union => get v == ((initOf sys v).contains x || (edgesOf sys v).any get)
  | .inter => get v == (edgesOf sys v).all get
  | .compl => get v == (edgesOf sys v).all fun w => !get w

def judgeClosure (sys : Sys) (ans : List String) : String :=
  if !SetClosure.wfB sys then "holds"
  else
    let cyc := complOnCycle sys
    match ans with
    | ["error", _] => if cyc then "holds" else "violates: error reported although no complement node reaches itself"
    | ["ok", sets] =>
      if cyc then "violates: no error although a complement node depends on itself"
      else match parseSets sets with
        | none => "violates: malformed answer"
        | some a =>
          let m := compute sys
          if a.length != sys.length then "violates: wrong number of sets"
          else if m.timeout || !m.err.isEmpty then "holds"
          else
            let pts := ((sys.flatMap (·.init)) ++ a.flatMap (·.set)).flatMap fun v => [v - 1, v, v + 1]
            let pts := 0 :: pts
            let vs := List.range sys.length
            match vs.findSome? fun v => (pts.find? fun x => !eqAtB sys a v x).map fun x => (v, x) with
            | some (v, x) => s!"violates: the equation of node {v} fails at element {x}"
            | none =>
              match vs.findSome? fun v => (pts.find? fun x =>
                  memB (a[v]?.getD ⟨false, []⟩) x != memB (m.get v) x).map fun x => (v, x) with
              | some (v, x) => s!"violates: node {v} differs from the least solution at element {x}"
              | none => "holds"
    | _ => "violates: panics or malformed answer"

/-- `IntSet.BitSet(size)`: bit `v` (for `v < size`) is set iff `v` is a member -/
def bitsOf (s : IntSet) (n : Nat) : String :=
  String.ofList ((List.range n).map fun (v : Nat) => if memB s (Int.ofNat v) then '1' else '0')

/-- ops: `merge ia a ib b`, `inter ia a ib b` → `inv set`;
`judge inv set :: op ia a ib b` → does the implementation's answer denote the right set? -/
def handle (args : List String) : Option String :=
  match args with
  | ["bitset", inv, set, n] => do
    let inv ← parseBool? inv; let set ← parseInts set; let n ← parseNat? n
    some (bitsOf ⟨inv, set⟩ n)
  | ["judge", bits, "::", "bitset", inv, set, n] => do
    let inv ← parseBool? inv; let set ← parseInts set; let n ← parseNat? n
    let want := bitsOf ⟨inv, set⟩ n
    if bits == want then some "holds"
    else
      let i := ((want.toList.zip bits.toList).zipIdx.find? (fun p => p.1.1 != p.1.2)).map (·.2)
      some s!"violates: bit {repr i} of the BitSet differs from membership (size {n}; lengths {bits.length} / {want.length})"
  | [op, ia, a, ib, b] => do
    let ia ← parseBool? ia; let a ← parseInts a
    let ib ← parseBool? ib; let b ← parseInts b
    let x : IntSet := ⟨ia, a⟩; let y : IntSet := ⟨ib, b⟩
    if op == "merge" then some (showSet (x.merge y))
    else if op == "inter" then some (showSet (x.inter y))
    else none
  | ["judge", ir, r, "::", op, ia, a, ib, b] => do
    let ia ← parseBool? ia; let a ← parseInts a
    let ib ← parseBool? ib; let b ← parseInts b
    let ir ← parseBool? ir; let r ← parseInts r
    match judgeOp (op == "merge") ⟨ia, a⟩ ⟨ib, b⟩ ⟨ir, r⟩ with
    | some v => some s!"violates: element {v} has the wrong membership in the result"
    | none => some "holds"
  | ["closure", ops, edges, inits] => do
    let sys ← parseSys ops edges inits
    some (showSt (compute sys))
  | ["judge", a, b, "::", "closure", ops, edges, inits] => do
    let sys ← parseSys ops edges inits
    some (judgeClosure sys [a, b])
  | ["judge", a, "::", "closure", ops, edges, inits] => do
    let sys ← parseSys ops edges inits
    some (judgeClosure sys [a])
  | _ => none

end TmVerif.DriverC25
