/-
C07 — reference LALR(k) lookahead strings and the check of the lookahead tries the real tables
contain (`lalr/trie.go`, nested `(terminal, action)` lists in `Lalr`, action `< -2` = pointer).

Lookahead strings have length exactly `k`; the end-of-input terminal 0 pads (the lexer returns EOI
for ever once the input is exhausted, and `resolveDeepLA` keeps reading from a lexer copy).
Sets of strings are duplicate-free lists.
-/
import TmVerif.Model.LRRef
namespace TmVerif.LRK
open TmVerif.CFG TmVerif.LR TmVerif.LRRef

abbrev Str := List Nat

def insertStr (x : Str) (l : List Str) : List Str := if l.contains x then l else x :: l

def unionStr (a b : List Str) : List Str := a.foldl (fun acc x => insertStr x acc) b

/-- `x ⊕ₖ y`: concatenation truncated to `k` -/
def catK (k : Nat) (x y : Str) : Str := (x ++ y).take k

def catSets (k : Nat) (a b : List Str) : List Str :=
  a.foldl (fun acc x =>
    if x.length ≥ k then insertStr (x.take k) acc
    else b.foldl (fun acc y => insertStr (catK k x y) acc) acc) []

/-- FIRST_k of every symbol: strings of length `k` (prefixes) or shorter (complete yields). -/
def firstKOfSeq (g : Grammar) (k : Nat) (first : Array (List Str)) : List Nat → List Str
  | [] => [[]]
  | s :: rest =>
    let f := if s < g.nTerms then [[s]] else first.getD s []
    catSets k f (firstKOfSeq g k first rest)

def firstKRound (g : Grammar) (k : Nat) (first : Array (List Str)) : Array (List Str) :=
  g.rules.foldl (fun acc r => acc.modify r.lhs (fun old => unionStr (firstKOfSeq g k acc r.rhs) old)) first

def sizeOf' (a : Array (List Str)) : Nat := a.foldl (fun n l => n + l.length) 0

def firstKFuel (g : Grammar) (k : Nat) : Nat → Array (List Str) → Array (List Str)
  | 0, f => f
  | n + 1, f =>
    let f' := firstKRound g k f
    if sizeOf' f' == sizeOf' f then f else firstKFuel g k n f'

def firstK (g : Grammar) (k : Nat) : Array (List Str) :=
  firstKFuel g k 200 (Array.replicate g.nSyms [])

/-- all strings of length `k` over the terminals, `0` only as padding at the end -/
def allStrings (nTerms : Nat) : Nat → List Str
  | 0 => [[]]
  | k + 1 =>
    let rest := allStrings nTerms k
    (List.replicate (k + 1) 0) ::
      ((List.range nTerms).filter (· ≠ 0)).flatMap fun a => rest.map fun r => a :: r

/-- pad a complete (shorter than `k`) string that ends the input with EOI -/
def padK (k : Nat) (x : Str) : Str := (x ++ List.replicate k 0).take k

abbrev LAK := Array (List (Item × List Str))

def lakGet (la : LAK) (s : Nat) (it : Item) : List Str :=
  match (la.getD s []).find? (fun p => p.1 == it) with
  | some p => p.2
  | none => []

def lakAdd (la : LAK) (s : Nat) (it : Item) (m : List Str) : LAK :=
  la.modify s fun l => l.map fun p => if p.1 == it then (p.1, unionStr m p.2) else p

def lakInit (g : Grammar) (k : Nat) (phi : Phi) : LAK :=
  (Array.range phi.kernel.size).map fun s =>
    let kern := (phi.kernel.getD s none).getD []
    (closure g kern).map fun it =>
      let isStart := it.2 == 0 && it.1 ≥ g.rules.size && s == it.1 - g.rules.size
      let eoi := (g.inputs[it.1 - g.rules.size]?.map (·.eoi)).getD true
      -- eoi start item: `S' → . S $`, nothing follows the `$` (padding only);
      -- no-eoi start item: any terminal string may follow
      (it, if isStart then (if eoi then [List.replicate k 0] else allStrings g.nTerms k) else [])

def lakRound (g : Grammar) (t : Tables) (k : Nat) (first : Array (List Str)) (la : LAK) : LAK := Id.run do
  let mut la := la
  for s in List.range la.size do
    for (it, _) in la.getD s [] do
      let m := lakGet la s it
      let rhs := rhsOf g it.1
      match rhs[it.2]? with
      | none => pure ()
      | some x =>
        match gotoState t s x with
        | some q => if q ≥ 0 then la := lakAdd la q.toNat (it.1, it.2 + 1) m
        | none => pure ()
        if x ≥ g.nTerms then
          let beta := rhs.drop (it.2 + 1)
          -- the augmented rule's `$` is symbol 0: a terminal, handled by firstKOfSeq
          let f := catSets k (firstKOfSeq g k first beta) m
          for r in rulesOf g x do
            la := lakAdd la s (r, 0) f
  return la

def lakSize (la : LAK) : Nat := la.foldl (fun n l => l.foldl (fun n p => n + p.2.length) n) 0

def lakFuel (g : Grammar) (t : Tables) (k : Nat) (first : Array (List Str)) : Nat → LAK → LAK
  | 0, la => la
  | n + 1, la =>
    let la' := lakRound g t k first la
    if lakSize la' == lakSize la then la else lakFuel g t k first n la'

def lakFix (g : Grammar) (t : Tables) (k : Nat) (phi : Phi) : LAK :=
  lakFuel g t k (firstK g k) 400 (lakInit g k phi)

/-- lookahead strings of the reduction of `rule` in state `s`, padded to length `k` -/
def laOfRule (g : Grammar) (k : Nat) (la : LAK) (s rule : Nat) : List Str :=
  ((lakGet la s (rule, (rhsOf g rule).length)).map (padK k)).eraseDups

/-- walk a lookahead list of the tables along the tokens `x` (first token first) -/
def trieWalk (t : Tables) : Nat → Int → Str → Option Int
  | 0, _, _ => none
  | fuel + 1, action, x =>
    if action < -2 then
      match x with
      | [] => none          -- the trie wants more tokens than `k`
      | a :: rest =>
        match lalrLookup t action a with
        | none => none
        | some act => trieWalk t fuel act rest
    else some action

/-- Check every state that needs lookahead: for each terminal `a`, and each rule `r` whose LALR(k)
set has a string starting with `a`: if the tables' cell for `(s, a)` is a pointer (a conflict the
compiler claims to have resolved with more lookahead) then every such string must lead to `r`. -/
def checkTries (g : Grammar) (t : Tables) (k : Nat) (la : LAK) : Except String Nat := do
  let mut tries := 0
  for s in List.range t.nStates do
    let some action := geti t.action s | throw s!"no action for state {s}"
    if action < -2 then
      let items := (la.getD s []).map (·.1)
      let reduces := (items.filter fun it => it.1 < g.rules.size && it.2 == (rhsOf g it.1).length).map (·.1)
      for a in List.range g.nTerms do
        match lalrLookup t action a with
        | none => throw s!"state {s} terminal {a}: undecodable"
        | some act =>
          if act < -2 then
            tries := tries + 1
            for r in reduces do
              for x in laOfRule g k la s r do
                if x.head? == some a then
                  match trieWalk t (k + 2) act (x.drop 1) with
                  | some res =>
                    if res ≠ r then
                      throw s!"state {s}: rule {r} may be followed by {x} but the lookahead automaton answers {res} [C07-trie]"
                  | none => throw s!"state {s}: lookahead automaton undecidable within {k} tokens on {x}"
  return tries

end TmVerif.LRK
