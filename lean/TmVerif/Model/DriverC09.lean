import TmVerif.Model.Proto
import TmVerif.Model.LexSpec
/-!
Line protocol of C09.

case:   `v <n> {<prec> <action> <scs> <ast>}×n t <scanBytes> <numSymbols> <starts> <targets> <stateMap> <dfa>
         <btActions> <btNextStates> x <L> <alphabet> <sc:hex>…`
  * rules: `<scs>` comma separated start conditions, `<ast>` the pattern in prefix form, comma separated:
    `lit,<hex>` `blit,<hex>` `cc,<k>,<k ints>` `rep,<min>,<max>,<sub>` `cat,<n>,<subs>` `alt,<n>,<subs>` `eoi`
    (the AST of `lex.ParseRegexp` as C10 serialises it; named patterns replaced by their ASTs, `{eoi}` as `eoi`);
  * tables as in C24;
  * `x <L> <alphabet>`: in addition to the listed texts, every string of 1..L items of the alphabet
    (comma separated hex strings, `-` = none) is scanned in every start condition (start-condition major, then by
    length, then lexicographically in alphabet order);
  * texts: start condition and hex bytes (`-` = empty).
answer: `wf=<0|1> classes=<0|1> dfa=<ok|inconclusive|fail:…> m=<size:action,…> s=<…> xm=<…> xs=<…>`
  `m`/`xm`: the mirror of `Tables.Scan` (Model/LexTables) on the texts / the enumerated strings,
  `s`/`xs`: `scanSpec` (derivative matcher) on the same.  The implementation's answer carries what the real
  `Tables.Scan` returned in all four places and `wf=1 classes=1 dfa=ok`.
judge:  the implementation's answer violates the property iff the real `Scan` result on some text differs from `scanSpec`.
-/
namespace TmVerif.DriverC09
open TmVerif.Proto TmVerif.Regex TmVerif.LexTables TmVerif.LexSpec

def toPairs : List Int → Option Charset.Charset
  | [] => some []
  | [_] => none
  | a :: b :: rest => (toPairs rest).map ((a, b) :: ·)

def readTree : Nat → List String → Option (Regex × List String)
  | 0, _ => none
  | fuel + 1, toks =>
    let rec readMany (fuel : Nat) : Nat → List String → Option (List Regex × List String)
      | 0, toks => some ([], toks)
      | n + 1, toks => do
        let (r, toks) ← readTree fuel toks
        let (rs, toks) ← readMany fuel n toks
        pure (r :: rs, toks)
    match toks with
    | "eoi" :: rest => some (.cc [(eoiSym, eoiSym)], rest)
    | "lit" :: h :: rest => do
      let b ← parseHex h
      pure (litSyms (decodeAll b.length b), rest)
    | "blit" :: h :: rest => do
      let b ← parseHex h
      pure (litSyms (b.map Int.ofNat), rest)
    | "cc" :: k :: rest => do
      let k ← parseNat? k
      let vals ← (rest.take k).mapM parseInt?
      if vals.length != k then none
      let c ← toPairs vals
      pure (.cc c, rest.drop k)
    | "rep" :: mn :: mx :: rest => do
      let mn ← parseNat? mn
      let mx ← parseInt? mx
      let (r, rest) ← readTree fuel rest
      pure (.rep r mn (if mx < 0 then none else some mx.toNat), rest)
    | "cat" :: n :: rest => do
      let n ← parseNat? n
      let (rs, rest) ← readMany fuel n rest
      pure (mkCat rs, rest)
    | "alt" :: n :: rest => do
      let n ← parseNat? n
      let (rs, rest) ← readMany fuel n rest
      pure (mkAlt rs, rest)
    | _ => none

def parseAst (s : String) : Option Regex :=
  let toks := s.splitOn ","
  match readTree (toks.length + 1) toks with
  | some (r, []) => some r
  | _ => none

def parseRules : Nat → List String → Option (List Rule × List String)
  | 0, toks => some ([], toks)
  | n + 1, prec :: act :: scs :: ast :: rest => do
    let prec ← parseInt? prec
    let act ← parseInt? act
    let scs ← parseInts scs
    let re ← parseAst ast
    let (rs, rest) ← parseRules n rest
    pure (⟨re, prec, act, scs⟩ :: rs, rest)
  | _, _ => none

def parseTables (sb ns starts targets stateMap dfa btA btN : String) : Option Tables := do
  let sb ← parseBool? sb
  let ns ← parseInt? ns
  let starts ← parseInts starts
  let targets ← parseInts targets
  let stateMap ← parseInts stateMap
  let dfa ← parseInts dfa
  let btA ← parseInts btA
  let btN ← parseInts btN
  if starts.length ≠ targets.length ∨ btA.length ≠ btN.length then none
  else
    some {
      scanBytes := sb
      symbolMap := (starts.zipWith (fun s t => (⟨s, t⟩ : RangeEntry)) targets).toArray
      numSymbols := ns
      stateMap := stateMap.toArray
      dfa := dfa.toArray
      backtrack := (btA.zipWith (fun a n => (⟨a, n⟩ : Checkpoint)) btN).toArray }

structure Case where
  rules : List Rule
  t : Tables
  /-- all inputs: the listed texts, then the enumerated ones -/
  texts : List (Int × List Nat)
  enum : List (Int × List Nat)

/-- all words of exactly `n` items -/
def words (alpha : List (List Nat)) : Nat → List (List Nat)
  | 0 => [[]]
  | n + 1 => alpha.flatMap fun a => (words alpha n).map (a ++ ·)

def parseText (s : String) : Option (Int × List Nat) :=
  match s.splitOn ":" with
  | [sc, h] => do pure (← parseInt? sc, ← parseHex h)
  | _ => none

def parseAlpha (s : String) : Option (List (List Nat)) :=
  if s == "-" then some [] else (s.splitOn ",").mapM parseHex

def parseCase (args : List String) : Option Case :=
  match args with
  | "v" :: n :: rest => do
    let n ← parseNat? n
    let (rules, rest) ← parseRules n rest
    match rest with
    | "t" :: sb :: ns :: starts :: targets :: stateMap :: dfa :: btA :: btN :: "x" :: l :: alpha :: texts => do
      let t ← parseTables sb ns starts targets stateMap dfa btA btN
      let l ← parseNat? l
      let alpha ← parseAlpha alpha
      let texts ← texts.mapM parseText
      let ws := (List.range l).flatMap fun k => words alpha (k + 1)
      let enum := (List.range t.stateMap.size).flatMap fun (sc : Nat) => ws.map fun w => ((sc : Int), w)
      pure ⟨rules, t, texts, enum⟩
    | _ => none
  | _ => none

def showRes : Option (Nat × Int) → String
  | some (s, a) => s!"{s}:{a}"
  | none => "panic"

def mirror (t : Tables) (x : Int × List Nat) : String :=
  showRes (lexScanChars t x.1 (charsOf t.scanBytes x.2))

def spec (rules : List Rule) (t : Tables) (x : Int × List Nat) : String :=
  showRes (some (scanSpec rules x.1 (charsOf t.scanBytes x.2)))

def join (l : List String) : String := if l.isEmpty then "-" else ",".intercalate l

/-- where the closed-set check fails (diagnostic only) -/
def whyFail (rules : List Rule) (t : Tables) : String :=
  if !rulesOk rules then "rule-action-below-1"
  else
    match reachable defaultFuel rules t with
    | none => "fuel"
    | some V =>
      if !startsOk rules t V then "start-state-accepts-empty-or-missing"
      else
        let cr := classReps t
        match V.find? fun p => !pairOk rules t cr V p with
        | none => "unknown"
        | some p =>
          match cr.find? fun cs => !cellOk rules t V p.1 p.2 cs with
          | none => s!"state{p.1}"
          | some cs => s!"state{p.1}/class{cs.1}/rep{cs.2}"

def answer (c : Case) : String :=
  let dfa := match checkDfaV defaultFuel c.rules c.t with
    | .ok => "ok"
    | .inconclusive => "inconclusive"
    | .fail => "fail:" ++ (if !c.t.wf then "wf" else whyFail c.rules c.t)
  s!"wf={showBool c.t.wf} classes={showBool (checkClasses c.rules c.t)} dfa={dfa} " ++
  s!"m={join (c.texts.map (mirror c.t))} s={join (c.texts.map (spec c.rules c.t))} " ++
  s!"xm={join (c.enum.map (mirror c.t))} xs={join (c.enum.map (spec c.rules c.t))}"

def field? (pre : String) (toks : List String) : Option String :=
  (toks.find? (·.startsWith pre)).map fun s => (s.drop pre.length).toString

def splitAt (sep : String) : List String → List String × List String
  | [] => ([], [])
  | x :: rest => if x == sep then ([], rest) else let (a, b) := splitAt sep rest; (x :: a, b)

def firstBad (rules : List Rule) (t : Tables) (inputs : List (Int × List Nat)) (go : List String) : Option String :=
  let bad := (inputs.zip go).find? fun x => spec rules t x.1 != x.2
  bad.map fun x =>
    s!"violates: Scan({x.1.1}, {showHex x.1.2}) returned {x.2}, the longest-match rule demands {spec rules t x.1}"

def judge (goToks caseToks : List String) : Option String := do
  let c ← parseCase caseToks
  let m := ((field? "m=" goToks).getD "-")
  let xm := ((field? "xm=" goToks).getD "-")
  let ml := if m == "-" then [] else m.splitOn ","
  let xl := if xm == "-" then [] else xm.splitOn ","
  match firstBad c.rules c.t c.texts ml with
  | some s => some s
  | none =>
    match firstBad c.rules c.t c.enum xl with
    | some s => some s
    | none => some "holds"

def showCs (c : Charset.Charset) : String :=
  if c.length > 6 then s!"#{c.length}:{(c.headD (0,0)).1}" else ",".intercalate (c.map fun p => if p.1 == p.2 then s!"{p.1}" else s!"{p.1}-{p.2}")

def showRe : Regex → String
  | .eps => "e"
  | .cc c => "[" ++ showCs c ++ "]"
  | .cat a b => "(" ++ showRe a ++ "." ++ showRe b ++ ")"
  | .alt a b => "(" ++ showRe a ++ "|" ++ showRe b ++ ")"
  | .rep r mn mx => showRe r ++ "{" ++ toString mn ++ "," ++ (match mx with | none => "" | some m => toString m) ++ "}"
  | .ext _ => "<ext>"

/-- diagnostic: size of the explored set and two derivative vectors paired with the same state -/
def debug (c : Case) : String :=
  match reachable 30000 c.rules c.t with
  | none => "more than 30000 pairs"
  | some V =>
    let states := (V.map (·.1)).eraseDups
    let worst := states.foldl (fun (best : Int × Nat) q =>
      let n := (V.filter (·.1 == q)).length
      if n > best.2 then (q, n) else best) (0, 0)
    let sample := (V.filter (·.1 == worst.1)).take 2
    let diff := match sample with
      | [p1, p2] =>
        (p1.2.zip p2.2).map fun (a, b) =>
          let la := altList a
          let lb := altList b
          let da := la.filter fun x => !lb.contains x
          let db := lb.filter fun x => !la.contains x
          s!"[{la.length} vs {lb.length}] ONLY-A: " ++ " @@ ".intercalate (da.map showRe) ++ " ONLY-B: " ++ " @@ ".intercalate (db.map showRe)
      | _ => []
    s!"pairs={V.length} states={states.length} worst=state{worst.1}x{worst.2} " ++ " ;; ".intercalate diff

def handle (args : List String) : Option String :=
  match args with
  | "dbg" :: rest => (parseCase rest).map debug
  | "judge" :: rest =>
    let (goToks, caseToks) := splitAt "::" rest
    judge goToks caseToks
  | _ => (parseCase args).map answer

end TmVerif.DriverC09
