import TmVerif.Model.CFG
import TmVerif.Model.Graph
/-!
C15 — the DEFINITION of token sets (the specification side; core Lean only).

A set grammar `SG` is what `syntax.ResolveSets` sees after expansion:
* the plain rules `lhs → rhs` of the ordinary nonterminals (`g.rules`), the inputs (`g.inputs`),
* the *set nonterminals* `N : set(e)` (`setNts`: nonterminal ↦ index of its expression), which have no plain rule,
* the table `sets` of all top-level set expressions (`%generate`, `%assert`, `afterErr`, and those of the
  set nonterminals); `ref i` is a reference to the named set `i`.

Unknowns: for every symbol `s` the five sets `any s`, `first s`, `last s`, `precede s`, `follow s`, and the
value of every top-level expression. The equations (`rhsMem`: "terminal `t` belongs to the right-hand side of
the equation of unknown `u`"), over the rules REACHABLE from the first input that requires end-of-input
(a set nonterminal reaches the symbols its expression mentions, through named sets; a lookahead
nonterminal `(?= N & !M)` reaches `N` and `M`, negated or not):

  any t = first t = last t = {t}                                   for a terminal t
  any N     = ⋃ { any X | N → α reachable, X ∈ α }  ∪ value(e) if N : set(e)
  first N   = ⋃ { first α[k] | N → α reachable, α[0..k) nullable } ∪ value(e) if N : set(e)
  last N    = the same from the right
  follow X  = ⋃ over occurrences N → α X β of X in reachable rules:
                 ⋃ { first β[k] | β[0..k) nullable }  ∪  follow N if β is nullable
  precede X = the same to the left with last / precede
  value(e)  : union, intersection, complement w.r.t. ALL terminals (0 = eoi included), references.

Set nonterminals are never nullable and are opaque for follow/precede (their expansion `N → t` is not a
usage of `t`): the conventions of syntax/nullable.go and syntax/set.go.

`solve` computes an assignment `x` with (C15_setSpec_closed, C15_setSpec_least):
  * every equation holds at `x`, and
  * `x` is the LEAST solution of the positive system obtained by evaluating every complemented
    subexpression at `x` itself (`F cx x ·` is monotone) — the "stable"/stratified reading of equations with
    complement; it is found by rounds (complements read the previous round) and then CHECKED, no convergence
    argument is needed.
`complCycle`: some complement's argument depends on the set expression that contains it (dependency
graph of the unknowns, decided with the verified Warshall closure of C26) — then the answer is `error`.
-/
namespace TmVerif.TokenSets
open TmVerif.CFG TmVerif.Graph

inductive SExpr where
  | any (s : Nat) | first (s : Nat) | last (s : Nat) | precede (s : Nat) | follow (s : Nat)
  | union (a b : SExpr) | inter (a b : SExpr) | compl (a : SExpr) | ref (i : Nat)
deriving Repr, Inhabited

structure SG where
  g : Grammar
  setNts : List (Nat × Nat)
  sets : List SExpr
  /-- lookahead nonterminals `L : (?= N & !M …)` (they also have the plain rule `L → ε`) with the
  nonterminals their predicate mentions, negated or not -/
  laNts : List (Nat × List Nat) := []
deriving Repr, Inhabited

def SG.nT (sg : SG) : Nat := sg.g.nTerms
def SG.nS (sg : SG) : Nat := sg.g.nSyms
def SG.nSets (sg : SG) : Nat := sg.sets.length
def SG.rules (sg : SG) : List Rule := sg.g.rules.toList

/-! ### nullable symbols: mirror of syntax/nullable.go on an expanded model -/

/-- `isNullable` of a sequence of references -/
def seqNullable (nl : List Bool) (rhs : List Nat) : Bool := rhs.all fun s => nl.getD s false

/-- `isNullable(nt.Value)` for a choice of sequences; a set nonterminal (no plain rule) is not nullable -/
def isNullableNt (g : Grammar) (nl : List Bool) (n : Nat) : Bool :=
  g.rules.toList.any fun r => r.lhs == n && seqNullable nl r.rhs

/-- body of `for i, nt := range m.Nonterms` -/
def nullStep (g : Grammar) (acc : List Bool × Bool) (n : Nat) : List Bool × Bool :=
  if acc.1.getD n false then acc
  else if isNullableNt g acc.1 n then (acc.1.set n true, true) else acc

def nonterms (g : Grammar) : List Nat := (List.range (g.nSyms - g.nTerms)).map (· + g.nTerms)

/-- `for { keepGoing := false; … ; if !keepGoing break }` with fuel -/
def nullLoop (g : Grammar) : Nat → List Bool → Option (List Bool)
  | 0, _ => none
  | fuel + 1, nl =>
    let r := (nonterms g).foldl (nullStep g) (nl, false)
    if r.2 then nullLoop g fuel r.1 else some r.1

/-- `syntax.Nullable`: `none` only if the fuel (one pass per nonterminal, plus two) ran out -/
def nullable (g : Grammar) : Option (List Bool) :=
  nullLoop g (g.nSyms + 2) (List.replicate g.nSyms false)

/-! ### reachability from the first eoi input -/

def SExpr.syms : SExpr → List Nat
  | .any s | .first s | .last s | .precede s | .follow s => [s]
  | .union a b | .inter a b => a.syms ++ b.syms
  | .compl a => a.syms
  | .ref _ => []

def SExpr.refs : SExpr → List Nat
  | .any _ | .first _ | .last _ | .precede _ | .follow _ => []
  | .union a b | .inter a b => a.refs ++ b.refs
  | .compl a => a.refs
  | .ref i => [i]

def SG.setOf (sg : SG) (n : Nat) : Option Nat := (sg.setNts.find? (·.1 == n)).map (·.2)

/-- reachability graph: node `s < nS` is the symbol `s`, node `nS + i` the set expression `i` -/
def reachGraph (sg : SG) : Graph :=
  ((List.range sg.nS).map fun s =>
      ((sg.rules.filter (·.lhs == s)).flatMap (·.rhs)).filter (· < sg.nS) ++
        (match sg.setOf s with | some i => if i < sg.nSets then [sg.nS + i] else [] | none => []) ++
        ((sg.laNts.filter (·.1 == s)).flatMap (·.2)).filter (· < sg.nS))
  ++ (sg.sets.map fun e => e.syms.filter (· < sg.nS) ++ (e.refs.filter (· < sg.nSets)).map (sg.nS + ·))

/-- the nonterminal of the first input that requires end-of-input -/
def SG.start (sg : SG) : Option Nat := (sg.g.inputs.toList.find? (·.eoi)).map (·.sym)

/-- the symbols reachable from the start (decided with the verified closure of C26) -/
def reachable (sg : SG) : List Nat :=
  match sg.start with
  | none => []
  | some s0 =>
    let r := (Matrix.ofGraph (reachGraph sg)).closure
    (List.range sg.nS).filter fun s => s == s0 || r.hasEdge s0 s

/-! ### the equations -/

/-- what the equations are evaluated against -/
structure Ctx where
  sg : SG
  nl : List Bool
  rrules : List Rule          -- the reachable plain rules
  rsets : List (Nat × Nat)    -- the reachable set nonterminals

def mkCtx (sg : SG) (nl : List Bool) : Ctx :=
  let rs := reachable sg
  ⟨sg, nl, sg.rules.filter (fun r => rs.contains r.lhs), sg.setNts.filter (fun p => rs.contains p.1)⟩

abbrev State := List (List Nat)

def State.mem (x : State) (u t : Nat) : Bool := (x[u]?.getD []).contains t

/-- unknown ids: kind 0 any, 1 first, 2 last, 3 precede, 4 follow -/
def Ctx.uid (cx : Ctx) (k s : Nat) : Nat := k * cx.sg.nS + s
def Ctx.vid (cx : Ctx) (i : Nat) : Nat := 5 * cx.sg.nS + i
def Ctx.nU (cx : Ctx) : Nat := 5 * cx.sg.nS + cx.sg.nSets

/-- `t ∈ first/last` of a sequence: through its nullable prefix (`k = 1` first, `k = 2` last on the reversed rhs) -/
def firstSeq (cx : Ctx) (x : State) (k t : Nat) : List Nat → Bool
  | [] => false
  | X :: rest => x.mem (cx.uid k X) t || (cx.nl.getD X false && firstSeq cx x k t rest)

/-- occurrences of `X` in a right-hand side: what follows them (`kF = 1, kW = 4` follow;
`kF = 2, kW = 3` precede on the reversed rhs) -/
def follScan (cx : Ctx) (x : State) (kF kW lhs X t : Nat) : List Nat → Bool
  | [] => false
  | Y :: rest =>
    (Y == X && (firstSeq cx x kF t rest || (seqNullable cx.nl rest && x.mem (cx.uid kW lhs) t)))
      || follScan cx x kF kW lhs X t rest

/-- membership in the value of a set expression; complemented subexpressions are read from `c` -/
def evalMem (cx : Ctx) (c x : State) (t : Nat) : SExpr → Bool
  | .any s => x.mem (cx.uid 0 s) t
  | .first s => x.mem (cx.uid 1 s) t
  | .last s => x.mem (cx.uid 2 s) t
  | .precede s => x.mem (cx.uid 3 s) t
  | .follow s => x.mem (cx.uid 4 s) t
  | .union a b => evalMem cx c x t a || evalMem cx c x t b
  | .inter a b => evalMem cx c x t a && evalMem cx c x t b
  | .compl a => !(evalMem cx c c t a)
  | .ref i => x.mem (cx.vid i) t

/-- the value of the set expression of a reachable set nonterminal -/
def setPart (cx : Ctx) (x : State) (s t : Nat) : Bool :=
  cx.rsets.any fun p => p.1 == s && x.mem (cx.vid p.2) t

/-- `t` belongs to the right-hand side of the equation of the unknown `u` -/
def rhsMem (cx : Ctx) (c x : State) (u t : Nat) : Bool :=
  let nS := cx.sg.nS
  if u < 5 * nS then
    let k := u / nS
    let s := u % nS
    if k == 0 then
      if s < cx.sg.nT then t == s
      else cx.rrules.any (fun r => r.lhs == s && r.rhs.any fun X => x.mem (cx.uid 0 X) t) || setPart cx x s t
    else if k == 1 then
      if s < cx.sg.nT then t == s
      else cx.rrules.any (fun r => r.lhs == s && firstSeq cx x 1 t r.rhs) || setPart cx x s t
    else if k == 2 then
      if s < cx.sg.nT then t == s
      else cx.rrules.any (fun r => r.lhs == s && firstSeq cx x 2 t r.rhs.reverse) || setPart cx x s t
    else if k == 3 then cx.rrules.any fun r => follScan cx x 2 3 r.lhs s t r.rhs.reverse
    else cx.rrules.any fun r => follScan cx x 1 4 r.lhs s t r.rhs
  else
    match cx.sg.sets[u - 5 * nS]? with
    | some e => evalMem cx c x t e
    | none => false

/-- one simultaneous step: every unknown becomes the right-hand side of its equation -/
def F (cx : Ctx) (c x : State) : State :=
  (List.range cx.nU).map fun u => (List.range cx.sg.nT).filter fun t => rhsMem cx c x u t

def iterF (cx : Ctx) (c : State) : Nat → State → State
  | 0, x => x
  | n + 1, x => iterF cx c n (F cx c x)

/-- Kleene iteration from ⊥ of the positive system in which complements read `c`; the result is only
returned when it is CHECKED to be a fixpoint -/
def lfpG (cx : Ctx) (c : State) : Option State :=
  let x := iterF cx c (cx.nU * cx.sg.nT + 1) []
  if F cx c x == x then some x else none

/-- rounds: complements read the result of the previous round, until nothing changes -/
def rounds (cx : Ctx) : Nat → State → Option State
  | 0, _ => none
  | k + 1, c =>
    match lfpG cx c with
    | none => none
    | some x => if x == c then some x else rounds cx k x

def SExpr.nCompl : SExpr → Nat
  | .union a b | .inter a b => a.nCompl + b.nCompl
  | .compl a => a.nCompl + 1
  | _ => 0

/-! ### "a complement depends on itself" -/

/-- the unknowns a set expression mentions directly -/
def exprUnknowns (cx : Ctx) : SExpr → List Nat
  | .any s => [cx.uid 0 s] | .first s => [cx.uid 1 s] | .last s => [cx.uid 2 s]
  | .precede s => [cx.uid 3 s] | .follow s => [cx.uid 4 s]
  | .union a b | .inter a b => exprUnknowns cx a ++ exprUnknowns cx b
  | .compl a => exprUnknowns cx a
  | .ref i => [cx.vid i]

/-- the arguments of all complement occurrences inside an expression -/
def complArgs : SExpr → List SExpr
  | .union a b | .inter a b => complArgs a ++ complArgs b
  | .compl a => a :: complArgs a
  | _ => []

/-- prefix of a sequence up to and including its first non-nullable symbol -/
def nullPrefix (nl : List Bool) : List Nat → List Nat
  | [] => []
  | X :: rest => X :: (if nl.getD X false then nullPrefix nl rest else [])

/-- dependencies created by the occurrences of `X` in a right-hand side -/
def follDeps (cx : Ctx) (kF kW lhs X : Nat) : List Nat → List Nat
  | [] => []
  | Y :: rest =>
    (if Y == X then (nullPrefix cx.nl rest).map (cx.uid kF) ++
        (if seqNullable cx.nl rest then [cx.uid kW lhs] else []) else [])
      ++ follDeps cx kF kW lhs X rest

def setDeps (cx : Ctx) (s : Nat) : List Nat := (cx.rsets.filter (·.1 == s)).map fun p => cx.vid p.2

/-- the unknowns the equation of `u` reads -/
def deps (cx : Ctx) (u : Nat) : List Nat :=
  let nS := cx.sg.nS
  if u < 5 * nS then
    let k := u / nS
    let s := u % nS
    if k == 0 then
      if s < cx.sg.nT then [] else ((cx.rrules.filter (·.lhs == s)).flatMap fun r => r.rhs.map (cx.uid 0)) ++ setDeps cx s
    else if k == 1 then
      if s < cx.sg.nT then []
      else ((cx.rrules.filter (·.lhs == s)).flatMap fun r => (nullPrefix cx.nl r.rhs).map (cx.uid 1)) ++ setDeps cx s
    else if k == 2 then
      if s < cx.sg.nT then []
      else ((cx.rrules.filter (·.lhs == s)).flatMap fun r => (nullPrefix cx.nl r.rhs.reverse).map (cx.uid 2)) ++ setDeps cx s
    else if k == 3 then cx.rrules.flatMap fun r => follDeps cx 2 3 r.lhs s r.rhs.reverse
    else cx.rrules.flatMap fun r => follDeps cx 1 4 r.lhs s r.rhs
  else
    match cx.sg.sets[u - 5 * nS]? with
    | some e => exprUnknowns cx e
    | none => []

def depGraph (cx : Ctx) : Graph := (List.range cx.nU).map fun u => (deps cx u).filter (· < cx.nU)

/-- some complement's argument reaches, in the dependency graph, the expression that contains it -/
def complCycle (cx : Ctx) : Bool :=
  let r := (Matrix.ofGraph (depGraph cx)).closure
  (List.range cx.sg.nSets).any fun i =>
    match cx.sg.sets[i]? with
    | none => false
    | some e => (complArgs e).any fun a => (exprUnknowns cx a).any fun w =>
        w == cx.vid i || r.hasEdge w (cx.vid i)

/-! ### the specification -/

/-- all symbol and set references are in range -/
def SG.wfB (sg : SG) : Bool :=
  sg.g.nTerms ≤ sg.g.nSyms &&
  sg.rules.all (fun r => r.lhs < sg.nS && r.rhs.all (· < sg.nS)) &&
  sg.setNts.all (fun p => sg.nT ≤ p.1 && p.1 < sg.nS && p.2 < sg.nSets) &&
  sg.sets.all (fun e => e.syms.all (· < sg.nS) && e.refs.all (· < sg.nSets)) &&
  sg.laNts.all (fun p => p.1 < sg.nS && p.2.all (· < sg.nS))

def totalCompl (sg : SG) : Nat := (sg.sets.map (·.nCompl)).sum

/-- the assignment of all unknowns (`none`: a fuel ran out or a check failed; never observed) -/
def solve (sg : SG) : Option (Ctx × State) :=
  match nullable sg.g with
  | none => none
  | some nl =>
    let cx := mkCtx sg nl
    match rounds cx (totalCompl sg + 2) [] with
    | none => none
    | some x => some (cx, x)

inductive Res where
  | error                       -- "set complement cannot transitively depend on itself"
  | ok (sets : List (List Nat))  -- the terminals of every top-level set expression
  | fail
deriving Repr, DecidableEq

def setSpec (sg : SG) : Res :=
  match nullable sg.g with
  | none => .fail
  | some nl =>
    if complCycle (mkCtx sg nl) then .error
    else match solve sg with
      | none => .fail
      | some (cx, x) => .ok ((List.range sg.nSets).map fun i => x[cx.vid i]?.getD [])

end TmVerif.TokenSets
