/-
Model of /repo/lex/lex.go: `type Tables` (the integer arrays) and `Tables.Scan` (Mode M: hand mirror).

Go `int`/`rune` are modelled as unbounded `Int` (the only arithmetic is `state*NumSymbols+ch`,
`-1-state`, `actionStart-state`; it cannot overflow for indices that are in range of a Go slice).
A Go run-time panic (index out of range) is modelled as `none`.
`sort.Search` is mirrored literally (binary search, `sortSearch`); under a monotone predicate it
returns the least index satisfying it (`Proofs/LexTables.lean`).
The scan loop is written once over a list of already decoded characters `(code, width)`;
byte mode (`ScanBytes = true`) feeds it `(b, 1)` for every byte, rune mode feeds it the output of a
UTF-8 decoder (kept separate: `lexScanBytes`, `lexScanChars`).
-/
namespace TmVerif.LexTables

/-- `lex.RangeEntry`. -/
structure RangeEntry where
  start : Int
  target : Int
deriving Repr, DecidableEq, Inhabited

/-- `lex.Checkpoint` (without `Details`). -/
structure Checkpoint where
  action : Int
  nextState : Int
deriving Repr, DecidableEq, Inhabited

/-- `lex.Tables`. -/
structure Tables where
  scanBytes : Bool
  symbolMap : Array RangeEntry
  numSymbols : Int
  stateMap : Array Int
  dfa : Array Int
  backtrack : Array Checkpoint
deriving Repr, Inhabited

/-- Go slice indexing `a[i]` with an `int` index; `none` = panic. -/
def getI {α : Type} (a : Array α) (i : Int) : Option α :=
  if 0 ≤ i then a[i.toNat]? else none

/-- The loop of `sort.Search(n, f)`:
`for i < j { h := int(uint(i+j) >> 1); if !f(h) { i = h + 1 } else { j = h } }; return i`.
Every iteration shrinks `j - i`, so `fuel = n` iterations suffice when started at `(0, n)`. -/
def sortSearchLoop (f : Nat → Bool) : Nat → Nat → Nat → Nat
  | 0, i, _ => i
  | fuel + 1, i, j =>
    if i < j then
      let h := (i + j) / 2
      if !f h then sortSearchLoop f fuel (h + 1) j else sortSearchLoop f fuel i h
    else i

/-- `sort.Search(n, f)`. -/
def sortSearch (n : Nat) (f : Nat → Bool) : Nat := sortSearchLoop f n 0 n

/-- The predicate of the symbol lookup in `Scan`:
`i+1 == len(t.SymbolMap) || t.SymbolMap[i+1].Start > r` (evaluated for `i < len` only). -/
def symPred (t : Tables) (r : Int) (i : Nat) : Bool :=
  match t.symbolMap[i + 1]? with
  | some e => decide (e.start > r)
  | none => true

/-- `sort.Search(len(t.SymbolMap), …)` in `Scan`. -/
def symIndex (t : Tables) (r : Int) : Nat := sortSearch t.symbolMap.size (symPred t r)

/-- `int(t.SymbolMap[i].Target)` for the character `r`; `none` = index out of range. -/
def symOf (t : Tables) (r : Int) : Option Int := (t.symbolMap[symIndex t r]?).map (·.target)

/-- `ActionStart()`. -/
def actionStart (t : Tables) : Int := -1 - t.backtrack.size

/-- The body of `Tables.Scan` after `state := t.StateMap[start]`, over decoded characters
`(r, w)`: `index` is the byte offset of the next character, `size`/`action` the named results. -/
def scanLoop (t : Tables) : List (Int × Nat) → Nat → Int → Nat → Int → Option (Nat × Int)
  | [], index, state, size, action =>
    -- state = t.Dfa[state*t.NumSymbols] // end-of-input transition
    match getI t.dfa (state * t.numSymbols) with
    | none => none
    | some st =>
      if actionStart t = st ∧ size > 0 then some (size, action)
      else some (index, actionStart t - st)
  | (r, w) :: rest, index, state, size, action =>
    let start := index
    let index := index + w
    match symOf t r with
    | none => none
    | some ch =>
      match getI t.dfa (state * t.numSymbols + ch) with
      | none => none
      | some st =>
        if st < 0 then
          if st > actionStart t then
            -- Checkpoint.
            match getI t.backtrack (-1 - st) with
            | none => none
            | some bt => scanLoop t rest index bt.nextState start bt.action
          else if actionStart t = st ∧ size > 0 then some (size, action) -- Backtrack.
          else some (start, actionStart t - st)
        else scanLoop t rest index st size action

/-- `Tables.Scan(start, text)` on pre-decoded characters (rune mode: `(rune, width)` as produced by
`utf8.DecodeRuneInString`; byte mode: `(byte, 1)`). -/
def lexScanChars (t : Tables) (start : Int) (chars : List (Int × Nat)) : Option (Nat × Int) :=
  match getI t.stateMap start with
  | none => none
  | some st => scanLoop t chars 0 st 0 0

/-- `Tables.Scan(start, text)` when `t.ScanBytes` is true: `(size, action)`, `none` = panic. -/
def lexScanBytes (t : Tables) (start : Int) (input : List UInt8) : Option (Nat × Int) :=
  lexScanChars t start (input.map fun b => ((b.toNat : Int), 1))

/-- `Tables.Scan` with the rune decoder as a parameter (`decode text` = the list of
`(rune, width)` that repeated `utf8.DecodeRuneInString` yields). -/
def lexScan (decode : List UInt8 → List (Int × Nat)) (t : Tables) (start : Int)
    (input : List UInt8) : Option (Nat × Int) :=
  if t.scanBytes then lexScanBytes t start input else lexScanChars t start (decode input)

/-- `len(t.Dfa) / t.NumSymbols` for positive `NumSymbols`. -/
def numStates (t : Tables) : Nat := t.dfa.size / t.numSymbols.toNat

/-- Starts strictly increasing. -/
def startsIncreasing : List RangeEntry → Bool
  | a :: b :: rest => decide (a.start < b.start) && startsIncreasing (b :: rest)
  | _ => true

/-- Decidable well-formedness of lexer tables, satisfied by every output of `lex.Compile`
(evaluated by the driver on every real table):
* `NumSymbols > 0`; the symbol map is non-empty, starts at 0, has strictly increasing `Start`s and
  targets in `[0, NumSymbols)`;
* every non-negative DFA entry is a state (`< len(Dfa)/NumSymbols`), every start state and every
  checkpoint successor is a state. -/
def Tables.wf (t : Tables) : Bool :=
  decide (0 < t.numSymbols) &&
  ((t.symbolMap[0]?).map (·.start) == some 0) &&
  startsIncreasing t.symbolMap.toList &&
  t.symbolMap.all (fun e => decide (0 ≤ e.target) && decide (e.target < t.numSymbols)) &&
  t.dfa.all (fun x => decide (x < (numStates t : Int))) &&
  t.stateMap.all (fun x => decide (0 ≤ x) && decide (x < (numStates t : Int))) &&
  t.backtrack.all (fun c => decide (0 ≤ c.nextState) && decide (c.nextState < (numStates t : Int)))

end TmVerif.LexTables
