import TmVerif.Model.Proto
import TmVerif.Model.TokenSets
/-!
Line protocol for C15:

  sets <nt> <nn> <rules> <inputs> <prec> <ruleprec> <setNts> <exprs> <obs>
      the six grammar tokens of `CFG.parseGrammar` (plain rules of the ORDINARY nonterminals only),
      setNts `sym:setIndex,…` | `-`, exprs `e;e;…` | `_` in prefix notation with `.` between tokens
      (`A5` any, `F5` first, `L5` last, `P5` precede, `W5` follow, `U.x.y`, `I.x.y`, `C.x`, `R3` named set 3),
      obs = indices of the observable sets; optional tenth token: lookahead nonterminals `sym:t+t,…` | `-`
      (each also has its plain rule `sym → ε` among the rules)
    → `error` | `ok <terminals of obs[0]>;<…>` | `fail`
  nullable <nt> <nn> <rules> <inputs> <prec> <ruleprec>      → nullable nonterminals | `fail`
  judge <answer…> :: <case…>   → `holds` | `violates: set <i> differs at terminal <t>` (the specification is
      deterministic: any deviation from `setSpec` on an observable set is a violation)
-/
namespace TmVerif.DriverC15
open TmVerif.Proto TmVerif.CFG TmVerif.TokenSets

def parseLeaf (tok : String) : Option SExpr :=
  let k := tok.take 1
  match (tok.drop 1).toNat? with
  | none => none
  | some n =>
    if k == "A" then some (.any n) else if k == "F" then some (.first n) else if k == "L" then some (.last n)
    else if k == "P" then some (.precede n) else if k == "W" then some (.follow n)
    else if k == "R" then some (.ref n) else none

def parseExprAux : Nat → List String → Option (SExpr × List String)
  | 0, _ => none
  | _, [] => none
  | fuel + 1, tok :: rest =>
    if tok == "U" || tok == "I" then do
      let (a, r1) ← parseExprAux fuel rest
      let (b, r2) ← parseExprAux fuel r1
      some (if tok == "U" then .union a b else .inter a b, r2)
    else if tok == "C" then do
      let (a, r1) ← parseExprAux fuel rest
      some (.compl a, r1)
    else do
      let e ← parseLeaf tok
      some (e, rest)

def parseExpr (s : String) : Option SExpr :=
  let toks := s.splitOn "."
  match parseExprAux (toks.length + 1) toks with
  | some (e, []) => some e
  | _ => none

def parseExprs (s : String) : Option (List SExpr) :=
  if s == "_" then some [] else (s.splitOn ";").mapM parseExpr

def parsePair (s : String) : Option (Nat × Nat) :=
  match s.splitOn ":" with
  | [a, b] => do let a ← parseNat? a; let b ← parseNat? b; some (a, b)
  | _ => none

def parsePairs (s : String) : Option (List (Nat × Nat)) :=
  if s == "-" then some [] else (s.splitOn ",").mapM parsePair

/-- lookahead nonterminals: `sym:t+t+…` separated by `,`; `-` for none -/
def parseLa (s : String) : Option (Nat × List Nat) :=
  match s.splitOn ":" with
  | [a, b] => do
    let a ← parseNat? a
    let ts ← (b.splitOn "+").mapM parseNat?
    some (a, ts)
  | _ => none

def parseLas (s : String) : Option (List (Nat × List Nat)) :=
  if s == "-" then some [] else (s.splitOn ",").mapM parseLa

def showRes (obs : List Nat) : Res → String
  | .error => "error"
  | .fail => "fail"
  | .ok sets =>
    "ok " ++ (if obs.isEmpty then "_" else ";".intercalate (obs.map fun i => showNats (sets.getD i [])))

def parseCase (toks : List String) : Option (SG × List Nat) :=
  match toks with
  | [nt, nn, rules, inputs, prec, rp, setNts, exprs, obs] => do
    let g ← parseGrammar [nt, nn, rules, inputs, prec, rp]
    let sn ← parsePairs setNts
    let es ← parseExprs exprs
    let obs ← parseNats obs
    some (⟨g, sn, es, []⟩, obs)
  | [nt, nn, rules, inputs, prec, rp, setNts, exprs, obs, las] => do
    let g ← parseGrammar [nt, nn, rules, inputs, prec, rp]
    let sn ← parsePairs setNts
    let es ← parseExprs exprs
    let obs ← parseNats obs
    let las ← parseLas las
    some (⟨g, sn, es, las⟩, obs)
  | _ => none

def firstDiff (a b : List Nat) : Option Nat :=
  match a.find? (fun t => !b.contains t) with
  | some t => some t
  | none => b.find? (fun t => !a.contains t)

def judgeSets (sg : SG) (obs : List Nat) (ans : List String) : String :=
  if !sg.wfB then "holds"
  else match setSpec sg, ans with
    | .fail, _ => "holds"
    | .error, ["error"] => "holds"
    | .error, _ => "violates: no error although a set complement depends on itself"
    | .ok _, ["error"] => "violates: error reported although no set complement depends on itself"
    | .ok sets, ["ok", s] =>
      let rows := if s == "_" then some [] else (s.splitOn ";").mapM parseNats
      match rows with
      | none => "violates: malformed answer"
      | some rows =>
        if rows.length != obs.length then "violates: wrong number of sets"
        else match (obs.zip rows).findSome? fun p => (firstDiff (sets.getD p.1 []) p.2).map fun t => (p.1, t) with
          | some (i, t) => s!"violates: set {i} differs from its definition at terminal {t}"
          | none => "holds"
    | .ok _, _ => "violates: panics or malformed answer"

def handle (args : List String) : Option String :=
  match args with
  | "sets" :: rest => do
    let (sg, obs) ← parseCase rest
    if !sg.wfB then some "malformed" else some (showRes obs (setSpec sg))
  | ["nullable", nt, nn, rules, inputs, prec, rp] => do
    let g ← parseGrammar [nt, nn, rules, inputs, prec, rp]
    match nullable g with
    | none => some "fail"
    | some nl => some (showNats ((List.range g.nSyms).filter fun s => nl.getD s false))
  | "judge" :: rest =>
    let ans := rest.takeWhile (· != "::")
    match rest.dropWhile (· != "::") with
    | _ :: "sets" :: cas => do
      let (sg, obs) ← parseCase cas
      some (judgeSets sg obs ans)
    | _ => none
  | _ => none

end TmVerif.DriverC15
