import TmVerif.Model.Proto
import TmVerif.Model.Ident
namespace TmVerif.DriverC28
open TmVerif.Proto TmVerif.Ident

def parseStyle? (s : String) : Option Style :=
  if s == "0" then some .camelCase else if s == "1" then some .camelLower
  else if s == "2" then some .upperCase else if s == "3" then some .upperUnderscores else none

/-- human-readable rendering of an identifier: `[A-Za-z0-9_]` kept, everything else `?`; `-` if empty -/
def printable (id : Str) : String :=
  if id.isEmpty then "-" else String.ofList (id.map fun c => if isIdentChar c then Char.ofNat c else '?')

def showIdent (id : Str) (tm : Bool) : String := s!"{showHex id} {showBool tm} {printable id}"

def showErr : Err → String
  | .dup n p => s!"dup:{showHex n}:{showHex p}"
  | .reid n => s!"reid:{showHex n}"
  | .redecl n => s!"redecl:{showHex n}"
  | .dupName n => s!"dupname:{showHex n}"

def showResult (r : Result) : String :=
  if r.errs.isEmpty then "ok " ++ ",".intercalate (r.syms.map fun s => showHex s.id)
  else "err " ++ ";".intercalate (r.errs.map showErr)

/-- `name:id,name:id,…` (hex, `-` = empty) -/
def parseToks (s : String) : Option (List (Str × Str)) :=
  if s == "_" then some [] else
  (s.splitOn ",").mapM fun t =>
    match t.splitOn ":" with
    | [n, i] => do pure ((← parseHex n), (← parseHex i))
    | _ => none

def parseNames (s : String) : Option (List Str) :=
  if s == "_" then some [] else (s.splitOn ",").mapM parseHex

/-- first ID occurring twice -/
def firstDup : List Str → Option Str
  | [] => none
  | x :: rest => if rest.contains x then some x else firstDup rest

/-- ops:
`ident <style> <name>` → `<id> <tmName> <printable id>`;
`gram <toks> <nonterms>` → `ok <ids of Syms>` | `err <errors>`;
`judge <go answer> :: <case>` → does the implementation's answer violate the property? -/
def handle (args : List String) : Option String :=
  match args with
  | ["ident", st, name] => do
    let st ← parseStyle? st; let name ← parseHex name
    some (showIdent (produce name st) (tmName name))
  | ["gram", toks, nts] => do
    let toks ← parseToks toks; let nts ← parseNames nts
    some (showResult (compileSyms ⟨toks, nts⟩))
  | ["judge", goId, _, _, "::", "ident", _, name] => do
    let goId ← parseHex goId; let name ← parseHex name
    if tmName name && !validIdent goId then
      some s!"violates: the name is admitted by the tm lexer and its identifier `{printable goId}` is empty, blank or not an identifier"
    else some "holds"
  | "judge" :: kind :: rest =>
    match rest with
    | [ids, "::", "gram", toks, nts] => do
      let toks ← parseToks toks; let nts ← parseNames nts
      if kind != "ok" then some "holds" else
      let goIds ← parseNames ids
      -- judged on the implementation's own IDs (the observable `grammar.Syms[].ID`)
      let _ := (toks, nts)
      match firstDup goIds, goIds.find? (fun i => !validIdent i) with
      | some i, _ => some s!"violates: two symbols of the compiled grammar have the ID `{printable i}` and no error is reported"
      | _, some i => some s!"violates: a symbol of the compiled grammar has the ID `{printable i}` (empty, blank or not an identifier) and no error is reported"
      | none, none => some "holds"
    | _ => none
  | _ => none

end TmVerif.DriverC28
