import TmVerif.Model.Proto
import TmVerif.Model.Ident
namespace TmVerif.DriverC28
open TmVerif.Proto TmVerif.Ident

def parseStyle? (s : String) : Option Style :=
  if s == "0" then some .camelCase else if s == "1" then some .camelLower
  else if s == "2" then some .upperCase else if s == "3" then some .upperUnderscores else none

/-- human-readable rendering of an identifier: `[A-Za-z0-9_]` kept, everything else `?`; `-` if empty -/
def printable (id : Str) : String :=
  if id.isEmpty then "-" else String.ofList (id.map fun c => if isIdentChar c then Char.ofNat c else '?')

def showIdent (id : Str) (tm : Bool) : String := s!"{showHex id} {showBool tm} {printable id}"

def showErr : Err → String
  | .dup n p => s!"dup:{showHex n}:{showHex p}"
  | .reid n => s!"reid:{showHex n}"
  | .redecl n => s!"redecl:{showHex n}"
  | .dupName n => s!"dupname:{showHex n}"
  | .spaceMix n => s!"spacemix:{showHex n}"

def showResult (r : Result) : String :=
  if r.errs.isEmpty then "ok " ++ ",".intercalate (r.syms.map fun s => showHex s.id)
  else "err " ++ ";".intercalate (r.errs.map showErr)

/-- `name:id[:s],…` (hex, `-` = empty; `:s` = the lexeme has the `(space)` attribute) -/
def parseToks (s : String) : Option (List (Str × Str × Bool)) :=
  if s == "_" then some [] else
  (s.splitOn ",").mapM fun t =>
    match t.splitOn ":" with
    | [n, i] => do pure ((← parseHex n), (← parseHex i), false)
    | [n, i, sp] => do pure ((← parseHex n), (← parseHex i), sp == "s")
    | _ => none

def parseNames (s : String) : Option (List Str) :=
  if s == "_" then some [] else (s.splitOn ",").mapM parseHex

/-- readable rendering of a byte string (printable ASCII kept) -/
def ascii (n : Str) : String :=
  String.ofList (n.map fun c => if 32 ≤ c ∧ c < 127 then Char.ofNat c else '?')

/-- the declarations of a `gram` case as grammar-like text -/
def renderDecls (toks : List (Str × Str × Bool)) (nts : List Str) : String :=
  "lexemes: " ++ ", ".intercalate (toks.map fun t =>
      (if t.2.1.isEmpty then ascii t.1 else s!"{ascii t.1} ({ascii t.2.1})") ++
        (if t.2.2 then " (space)" else "")) ++
    "; nonterminals: " ++ ", ".intercalate (nts.map ascii)

/-- first ID occurring twice -/
def firstDup : List Str → Option Str
  | [] => none
  | x :: rest => if rest.contains x then some x else firstDup rest

/-- Judged on the implementation's own IDs (the observable `grammar.Syms[].ID`): every symbol gets a
valid identifier in the requested style (terminals upper-case, nonterminals not starting with a
lower-case letter), distinct symbols get distinct IDs. -/
def judgeIds (kind ids : String) (toks : List (Str × Str × Bool)) (nts : List Str) (flex : Bool)
    (extra : String) : Option String := do
  if kind != "ok" then some "holds" else
  let goIds ← parseNames ids
  let nTok := (tokenPhase ⟨toks, nts, flex, none, []⟩).syms.length
  let termIds := goIds.take nTok
  let ntIds := goIds.drop nTok
  let ctx := " [" ++ renderDecls toks nts ++ extra ++ "]"
  match firstDup goIds, goIds.find? (fun i => !validIdent i),
        termIds.find? (fun i => i.any isLowerA && !(flex && i == cs ['Y','Y','e','r','r','o','r'])),
        ntIds.find? (fun i => (i.head?.map isLowerA).getD false) with
  | some i, _, _, _ => some s!"violates: two symbols of the compiled grammar have the ID `{printable i}` and no error is reported{ctx}"
  | _, some i, _, _ => some s!"violates: a symbol of the compiled grammar has the ID `{printable i}` (empty, blank or not an identifier) and no error is reported{ctx}"
  | _, _, some i, _ => some s!"violates: a terminal of the compiled grammar has the ID `{printable i}`, which is not in the upper-case style{ctx}"
  | _, _, _, some i => some s!"violates: a nonterminal of the compiled grammar has the ID `{printable i}`, which starts with a lower-case letter{ctx}"
  | none, none, none, none => some "holds"

/-- ops:
`ident <style> <name>` → `<id> <tmName> <printable id>`;
`gram <toks> <nonterms>` / `gramf …` (flex mode) / `gen <toks> <nonterms> <expanded> <midrule>` → `ok <ids of Syms>` | `err <errors>`;
`judge <go answer> :: <case>` → does the implementation's answer violate the property? -/
def handle (args : List String) : Option String :=
  match args with
  | ["ident", st, name] => do
    let st ← parseStyle? st; let name ← parseHex name
    some (showIdent (produce name st) (tmName name))
  | [op, toks, nts] => do
    if op != "gram" && op != "gramf" then none else
    let toks ← parseToks toks; let nts ← parseNames nts
    some (showResult (compileSyms ⟨toks, nts, op == "gramf", none, []⟩))
  | ["gen", toks, nts, final, mid] => do
    let toks ← parseToks toks; let nts ← parseNames nts
    let final ← parseNames final; let mid ← parseNames mid
    some (showResult (compileSyms ⟨toks, nts, false, some final, mid⟩))
  | ["judge", goId, _, _, "::", "ident", _, name] => do
    let goId ← parseHex goId; let name ← parseHex name
    if tmName name && !validIdent goId then
      some s!"violates: the name is admitted by the tm lexer and its identifier `{printable goId}` is empty, blank or not an identifier"
    else some "holds"
  | "judge" :: kind :: rest =>
    match rest with
    | [ids, "::", op, toks, nts] => do
      if op != "gram" && op != "gramf" then none else
      let toks ← parseToks toks; let nts ← parseNames nts
      judgeIds kind ids toks nts (op == "gramf") ""
    | [ids, "::", "gen", toks, nts, final, mid] => do
      let toks ← parseToks toks; let nts ← parseNames nts
      let final ← parseNames final; let mid ← parseNames mid
      judgeIds kind ids toks nts false
        s!"; expanded nonterminals: {", ".intercalate (final.map ascii)}; mid-rule: {", ".intercalate (mid.map ascii)}"
    | _ => none
  | _ => none

end TmVerif.DriverC28
