import TmVerif.Model.Proto
import TmVerif.Model.LexTables
import TmVerif.Model.LexRun
/-!
Line protocol of C11 (also used by C12 for the table-driven lexers).

  dec <hex>                     → `<rune>:<width>`                       (`utf8.DecodeRuneInString`)
  sw <bytes 0|1> <kw map>       → `<size>;<value>:<hash>.<hex>.<act>/…;…`  (`asStringSwitch`)
  lex <variant> <opts> <multi> <numSymbols> <starts> <targets> <stateMap> <dfa> <btActions> <btNext>
      <runeClass> <useMapRune> <ranges> <lastTarget> <ruleToken|x> <invalidToken> <spaceActions>
      <classActions> <exempt> <state>:<hex>…
                                → `wf=<0|1> map=<0|1> eoif=<0|1> <tokens>|<tokens>|…`
    variant = colFix hashFix skipFix, opts = tokenLine tokenLineOffset tokenColumn scanBytes skipBOM
    ranges = `lo:hi:def:v.v.v;…` (`_` none), kw map = `hex=act,…`, classActions = `act@hex=act,…;…` (`_` none)
    tokens = `tok:start:end:line:col,…` until the first EOI plus two further calls; `panic` when the
    model panics / runs out of fuel.
  judge <go answer> :: <case>   → the implementation's token sequences against the documented
    tokenization (`specTokenize`: `Tables.Scan`, keyword by text, line/column by definition).
-/
namespace TmVerif.DriverC11
open TmVerif.Proto TmVerif.LexTables TmVerif.LexRun

def bits (s : String) (n : Nat) : Option (List Bool) :=
  let l := s.toList
  if l.length = n ∧ l.all (fun c => c == '0' || c == '1') then some (l.map (· == '1')) else none

def parseBytes (s : String) : Option (List UInt8) := (parseHex s).map fun l => l.map UInt8.ofNat

def parseRanges (s : String) : Option (Array MapRange) :=
  if s == "_" then some #[]
  else ((s.splitOn ";").mapM fun (row : String) =>
    match row.splitOn ":" with
    | [lo, hi, d, vs] => do
      let lo ← parseInt? lo
      let hi ← parseInt? hi
      let d ← parseInt? d
      let vs ← if vs == "-" then some [] else (vs.splitOn ".").mapM parseInt?
      pure (⟨lo, hi, d, vs.toArray⟩ : MapRange)
    | _ => none).map List.toArray

def parseKwMap (s : String) : Option (List (List UInt8 × Int)) :=
  if s == "-" then some []
  else (s.splitOn ",").mapM fun (kv : String) =>
    match kv.splitOn "=" with
    | [k, a] => do pure ((← parseBytes k), (← parseInt? a))
    | _ => none

def parseClassActions (s : String) : Option (List (Int × List (List UInt8 × Int))) :=
  if s == "_" then some []
  else (s.splitOn ";").mapM fun (row : String) =>
    match row.splitOn "@" with
    | [a, m] => do pure ((← parseInt? a), (← parseKwMap m))
    | _ => none

structure Case where
  sp : Spec
  exempt : List Int
  inputs : List (Int × List UInt8)

def parseInput (s : String) : Option (Int × List UInt8) :=
  match s.splitOn ":" with
  | [st, h] => do pure ((← parseInt? st), (← parseBytes h))
  | _ => none

def parseCase : List String → Option Case
  | variant :: opts :: multi :: ns :: starts :: targets :: stateMap :: dfa :: btA :: btN ::
      runeClass :: useMap :: ranges :: lastTarget :: ruleToken :: invalidToken :: spaces ::
      classActs :: exempt :: inputs => do
    let v ← bits variant 3
    let o ← bits opts 5
    let multi ← parseBool? multi
    let ns ← parseInt? ns
    let starts ← parseInts starts
    let targets ← parseInts targets
    let stateMap ← parseInts stateMap
    let dfa ← parseInts dfa
    let btA ← parseInts btA
    let btN ← parseInts btN
    let runeClass ← parseInts runeClass
    let useMap ← parseBool? useMap
    let ranges ← parseRanges ranges
    let lastTarget ← parseInt? lastTarget
    let ruleToken ← if ruleToken == "x" then some none else (parseInts ruleToken).map fun l => some l.toArray
    let invalidToken ← parseInt? invalidToken
    let spaces ← parseInts spaces
    let classActs ← parseClassActions classActs
    let exempt ← parseInts exempt
    let inputs ← inputs.mapM parseInput
    if starts.length ≠ targets.length ∨ btA.length ≠ btN.length then none
    else
      let opts : Opts := ⟨o.getD 0 false, o.getD 1 false, o.getD 2 false, o.getD 3 false, o.getD 4 false⟩
      let t : Tables := {
        scanBytes := opts.scanBytes
        symbolMap := (starts.zipWith (fun s t => (⟨s, t⟩ : RangeEntry)) targets).toArray
        numSymbols := ns
        stateMap := stateMap.toArray
        dfa := dfa.toArray
        backtrack := (btA.zipWith (fun a n => (⟨a, n⟩ : Checkpoint)) btN).toArray }
      let sp : Spec := {
        t := t
        cm := ⟨runeClass.toArray, useMap, ranges, lastTarget⟩
        opts := opts
        v := ⟨v.getD 0 false, v.getD 1 false, v.getD 2 false⟩
        multiState := multi
        ruleToken := ruleToken
        invalidToken := invalidToken
        spaceActions := spaces
        classActions := classActs }
      some ⟨sp, exempt, inputs⟩
  | _ => none

def showTok (o : Opts) (t : Tok) : String :=
  s!"{t.tok}:{t.start}:{t.stop}:{if o.tokenLine then t.line else 0}:{if o.tokenColumn then t.col else 0}"

def showSeq (o : Opts) : Option (List Tok) → String
  | none => "panic"
  | some l => ",".intercalate (l.map (showTok o))

/-- Tokens until the first EOI (at most `cap`), then two further calls of `Next`. -/
def tokenizeX (sp : Spec) : Nat → Nat → Lexer → Option (List Tok)
  | 0, _, _ => some []
  | n + 1, extra, l =>
    match next sp l with
    | none => none
    | some (tok, l) =>
      if tok = 0 then
        if extra = 0 then some [observe tok l]
        else (tokenizeX sp extra (extra - 1) l).map (observe tok l :: ·)
      else (tokenizeX sp n extra l).map (observe tok l :: ·)

def runModel (sp : Spec) (inp : Int × List UInt8) : Option (List Tok) :=
  let l := init sp.opts sp.v inp.2
  let l := { l with state := inp.1 }
  -- after the first EOI the remaining budget is 2 more calls (see `tokenizeX`)
  tokenizeX sp (inp.2.length + 3) 2 l

/-- The documented sequence, in the same shape (EOI repeated three times). -/
def runSpec (sp : Spec) (inp : Int × List UInt8) : Option (List Tok) :=
  match specTokenize sp inp.2 inp.1 (inp.2.length + 3) (startOffset sp.opts inp.2) with
  | none => none
  | some l =>
    match l.getLast? with
    | some e => if e.tok = 0 then some (l ++ [e, e]) else some l
    | none => some l

def classMapOk (sp : Spec) : Bool :=
  classMapOkUpTo sp (if sp.opts.scanBytes then 256 else 0x110000)

/-- Diagnostic: the clauses of `tablesWF` one by one. -/
def wfDetail (sp : Spec) (exempt : List Int) : String :=
  let cl : List (String × Bool) := [
    ("tables.wf", sp.t.wf),
    ("dfa.size", decide (sp.t.dfa.size = numStates sp.t * sp.t.numSymbols.toNat)),
    ("scanBytes", decide (sp.t.scanBytes = sp.opts.scanBytes)),
    ("invalidAct", decide (0 ≤ invalidAct sp) && (tokenOf sp (invalidAct sp)).any (· != 0)),
    ("classMapInRange", classMapInRange sp.cm sp.t.numSymbols),
    ("finalActions", sp.t.dfa.all (fun e => decide (e > actionStart sp.t) || e == actionStart sp.t - invalidAct sp ||
      actOk sp exempt (actionStart sp.t - e))),
    ("checkpoints", sp.t.backtrack.all (fun bt => actOk sp exempt bt.action)),
    ("startRows", (startStates sp).all (startRowOk sp exempt) && !(startStates sp).isEmpty),
    ("eoiChains", (List.range (numStates sp.t)).all (fun s => (eoiChain sp.t (numStates sp.t + 1) s).isSome)),
    ("spaceNotInvalid", !sp.spaceActions.contains (invalidAct sp)),
    ("classActions", sp.classActions.all (fun (a, m) => !isInvalid sp a && keysNodup m && m.all fun (_, x) => actOk sp exempt x))]
  " ".intercalate (cl.map fun (n, b) => s!"{n}={showBool b}")

def answer (c : Case) : String :=
  let hdr := s!"wf={showBool (tablesWF c.sp c.exempt)} map={showBool (classMapOk c.sp)} eoif={showBool (eoiFinal c.sp.t)}"
  if c.inputs.isEmpty then hdr
  else hdr ++ " " ++ "|".intercalate (c.inputs.map fun i => showSeq c.sp.opts (runModel c.sp i))

def splitAt (sep : String) : List String → List String × List String
  | [] => ([], [])
  | x :: rest => if x == sep then ([], rest) else let (a, b) := splitAt sep rest; (x :: a, b)

def judge (goToks caseToks : List String) : Option String :=
  match caseToks with
  | "lex" :: rest => do
    let c ← parseCase rest
    -- the documented behaviour: all fixes applied
    let sp := { c.sp with v := Variant.fixed }
    match goToks with
    | [_, _, _, seqs] =>
      let got := seqs.splitOn "|"
      let want := c.inputs.map fun i => showSeq sp.opts (runSpec sp i)
      if got.length ≠ want.length then some "violates: wrong number of answers"
      else
        match ((got.zip want).zip c.inputs).find? fun x => x.1.1 != x.1.2 with
        | none => some "holds"
        | some ((g, w), i) =>
          some s!"violates: input state={i.1} text={showHex (i.2.map (·.toNat))}: generated lexer returns {g}, the rules specify {w}"
    | _ => some "holds"
  | _ => some "holds"

def showSwitch (sw : StringSwitch) : String :=
  let cs := sw.cases.map fun c =>
    s!"{c.value}:" ++ "/".intercalate (c.subcases.map fun s => s!"{s.hash}.{showHex (s.str.map (·.toNat))}.{s.action}")
  s!"{sw.size};" ++ ";".intercalate cs

def handle (args : List String) : Option String :=
  match args with
  | ["dec", h] => do
    let bs ← parseBytes h
    let (r, w) := decodeRune bs
    some s!"{r}:{w}"
  | ["sw", b, m] => do
    let b ← parseBool? b
    let m ← parseKwMap m
    some (showSwitch (asStringSwitch (stringHash b) m))
  | "lex" :: rest => (parseCase rest).map answer
  | "wfdetail" :: rest => (parseCase rest).map fun c => wfDetail c.sp c.exempt
  | "judge" :: rest =>
    let (goToks, caseToks) := splitAt "::" rest
    judge goToks caseToks
  | _ => none

end TmVerif.DriverC11
